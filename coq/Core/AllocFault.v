(* C14 - single allocation fault framework.

   Allocation is an ORACLE: [f n = true] iff the n-th allocation request (malloc or realloc,
   counted from 0 in the order in which the code issues them) succeeds.  Model functions are
   written in a state monad that threads the HEAP LEDGER: the allocation counter and the list
   of live blocks.  A block is named by the index of the request that created it, so a block
   name is never reused.  free() of a block that is not live is the explicit undefined
   behaviour [UB DoubleFree]; realloc of a dead block is [UB UseAfterFree].

   Theorems about a model function are stated for ALL oracles where possible (any number of
   failures), and specialised to [single_failure] oracles for the property C14. *)
From CAres.Base Require Export Outcome.
Local Open Scope nat_scope.

Definition oracle := nat -> bool.

Definition no_failure (f : oracle) : Prop := forall m, f m = true.
Definition fails_only_at (f : oracle) (n : nat) : Prop := forall m, f m = false <-> m = n.
(* at most one allocation fails *)
Definition single_failure (f : oracle) : Prop := no_failure f \/ exists n, fails_only_at f n.

Definition never_fail : oracle := fun _ => true.
Definition fail_at (n : nat) : oracle := fun m => negb (Nat.eqb m n).

Lemma never_fail_single : single_failure never_fail.
Proof. left; intros m; reflexivity. Qed.

Lemma fail_at_only n : fails_only_at (fail_at n) n.
Proof.
  intros m; unfold fail_at; split; intros H.
  - apply negb_false_iff in H. apply Nat.eqb_eq in H. exact H.
  - subst m. rewrite Nat.eqb_refl. reflexivity.
Qed.

Lemma fail_at_single n : single_failure (fail_at n).
Proof. right; exists n; apply fail_at_only. Qed.

Lemma single_failure_unique f a b : single_failure f -> f a = false -> f b = false -> a = b.
Proof.
  intros [Hn | [n Hn]] Ha Hb.
  - rewrite Hn in Ha; discriminate.
  - apply Hn in Ha; apply Hn in Hb; congruence.
Qed.

(* once the failure has happened every later request succeeds *)
Lemma single_failure_after f a b : single_failure f -> f a = false -> a <> b -> f b = true.
Proof.
  intros Hs Ha Hab. destruct (f b) eqn:E; [reflexivity|].
  exfalso; apply Hab; eapply single_failure_unique; eauto.
Qed.

(* the first refused request at or before a refused one *)
Fixpoint find_first (f : oracle) (base n : nat) : option nat :=
  match n with
  | 0 => None
  | S n' => match find_first f base n' with
            | Some m => Some m
            | None => if f (base + n') then None else Some n'
            end
  end.

Lemma find_first_spec f base n :
  match find_first f base n with
  | Some m => m < n /\ f (base + m) = false /\ forall k, k < m -> f (base + k) = true
  | None => forall k, k < n -> f (base + k) = true
  end.
Proof.
  induction n as [|n IH]; simpl; [intros k Hk; lia|].
  destruct (find_first f base n) as [m|].
  - destruct IH as (Hm & Hf & Hp). repeat split; auto.
  - destruct (f (base + n)) eqn:E.
    + intros k Hk. destruct (Nat.eq_dec k n) as [->|Hne]; [exact E | apply IH; lia].
    + repeat split; auto.
Qed.

Lemma first_failure f base i :
  f (base + i) = false ->
  exists m, m <= i /\ f (base + m) = false /\ forall k, k < m -> f (base + k) = true.
Proof.
  intros Hf. pose proof (find_first_spec f base (S i)) as H.
  destruct (find_first f base (S i)) as [m|].
  - destruct H as (Hm & Hfm & Hp). exists m. repeat split; auto. lia.
  - rewrite H in Hf by lia. discriminate.
Qed.

(* ---------------------------------------------------------------------------------- *)
(* heap ledger                                                                          *)
(* ---------------------------------------------------------------------------------- *)
Notation blk := nat (only parsing).

Record heap := mkHeap {
  h_next : nat;          (* index of the next allocation request *)
  h_live : list blk }.   (* live blocks, most recent first *)

Definition heap0 : heap := mkHeap 0 [].

Fixpoint remove_one (b : blk) (l : list blk) : list blk :=
  match l with
  | [] => []
  | x :: r => if Nat.eqb x b then r else x :: remove_one b r
  end.

Fixpoint memb (b : blk) (l : list blk) : bool :=
  match l with
  | [] => false
  | x :: r => Nat.eqb x b || memb b r
  end.

Definition M (A : Type) : Type := heap -> outcome (A * heap).

Definition ret {A} (a : A) : M A := fun h => Ok (a, h).
Definition bindM {A B} (m : M A) (k : A -> M B) : M B :=
  fun h => match m h with
           | Ok (a, h1) => k a h1
           | Err s => Err s
           | UB u => UB u
           end.

Notation "x <- m ;; k" := (bindM m (fun x => k))
  (at level 61, m at next level, right associativity).
Notation "m ;;; k" := (bindM m (fun _ => k))
  (at level 61, right associativity).

Section Alloc.
  Variable f : oracle.

  (* ares_malloc / ares_malloc_zero: consumes one oracle answer *)
  Definition malloc : M (option blk) := fun h =>
    let n := h_next h in
    if f n then Ok (Some n, mkHeap (S n) (n :: h_live h))
    else Ok (None, mkHeap (S n) (h_live h)).

  (* ares_free: free(NULL) is a no-op *)
  Definition free (p : option blk) : M unit := fun h =>
    match p with
    | None => Ok (tt, h)
    | Some b => if memb b (h_live h) then Ok (tt, mkHeap (h_next h) (remove_one b (h_live h)))
                else UB DoubleFree
    end.

  (* ares_realloc / ares_realloc_zero: one oracle answer; on failure the old block stays live *)
  Definition realloc (p : option blk) : M (option blk) := fun h =>
    match p with
    | None => malloc h
    | Some b =>
      if memb b (h_live h) then
        let n := h_next h in
        if f n then Ok (Some n, mkHeap (S n) (n :: remove_one b (h_live h)))
        else Ok (None, mkHeap (S n) (h_live h))
      else UB UseAfterFree
    end.

  (* allocate k blocks one after the other, stop at the first failure.  Returns the blocks
     obtained (most recent first) and whether all k succeeded.  This is the shape of
     "pre-allocate everything" loops (ares_htable_expand) and of callee groups that are not
     modelled in detail. *)
  Fixpoint malloc_n (k : nat) (acc : list blk) : M (list blk * bool) :=
    match k with
    | 0 => ret (acc, true)
    | S k' => p <- malloc ;;
              match p with
              | None => ret (acc, false)
              | Some b => malloc_n k' (b :: acc)
              end
    end.

  Fixpoint free_all (l : list blk) : M unit :=
    match l with
    | [] => ret tt
    | b :: r => free (Some b) ;;; free_all r
    end.
End Alloc.

(* ---------------------------------------------------------------------------------- *)
(* ledger facts                                                                         *)
(* ---------------------------------------------------------------------------------- *)
Definition heap_wf (h : heap) : Prop := forall b, In b (h_live h) -> b < h_next h.

Lemma heap0_wf : heap_wf heap0.
Proof. intros b []. Qed.

Lemma remove_one_head b l : remove_one b (b :: l) = l.
Proof. simpl. rewrite Nat.eqb_refl. reflexivity. Qed.

Lemma remove_one_other a b l : a <> b -> remove_one b (a :: l) = a :: remove_one b l.
Proof. intros H. simpl. destruct (Nat.eqb_spec a b); [contradiction | reflexivity]. Qed.

Lemma memb_In b l : memb b l = true <-> In b l.
Proof.
  induction l as [|x r IH]; simpl; [split; [discriminate | tauto]|].
  rewrite orb_true_iff, IH. rewrite Nat.eqb_eq. tauto.
Qed.

Lemma remove_one_notin b l : ~ In b l -> remove_one b l = l.
Proof.
  induction l as [|x r IH]; simpl; intros H; [reflexivity|].
  destruct (Nat.eqb_spec x b) as [E|E]; [exfalso; apply H; left; exact E|].
  f_equal. apply IH. tauto.
Qed.

Lemma In_remove_one a b l : In a (remove_one b l) -> In a l.
Proof.
  induction l as [|x r IH]; simpl; [tauto|].
  destruct (Nat.eqb_spec x b); simpl; intros H; tauto.
Qed.

Lemma malloc_spec f h :
  exists p, malloc f h = Ok (p, mkHeap (S (h_next h)) (match p with Some b => b :: h_live h | None => h_live h end))
            /\ (p = None <-> f (h_next h) = false)
            /\ (forall b, p = Some b -> b = h_next h).
Proof.
  unfold malloc. destruct (f (h_next h)) eqn:E.
  - exists (Some (h_next h)). repeat split; try discriminate; congruence.
  - exists None. repeat split; try discriminate; congruence.
Qed.

Lemma malloc_wf f h p h' : heap_wf h -> malloc f h = Ok (p, h') -> heap_wf h'.
Proof.
  unfold malloc, heap_wf. intros Hwf H b Hb.
  destruct (f (h_next h)); inversion H; subst; clear H; simpl in *.
  - destruct Hb as [<-|Hb]; [lia | apply Hwf in Hb; lia].
  - apply Hwf in Hb; lia.
Qed.

Lemma free_wf p h u h' : heap_wf h -> free p h = Ok (u, h') -> heap_wf h'.
Proof.
  unfold free, heap_wf. intros Hwf H b Hb. destruct p as [x|].
  - destruct (memb x (h_live h)); inversion H; subst; clear H; simpl in *.
    apply In_remove_one in Hb. auto.
  - inversion H; subst. auto.
Qed.

(* malloc_n: either all k blocks are obtained, or the first failing request stops it *)
Lemma malloc_n_spec f k : forall acc h,
  exists bs ok h', malloc_n f k acc h = Ok ((bs, ok), h')
    /\ (exists new, bs = new ++ acc /\ h_live h' = new ++ h_live h
                    /\ (ok = true -> length new = k) /\ length new <= k
                    /\ h_next h' = h_next h + length new + (if ok then 0 else 1)
                    /\ (forall b, In b new -> h_next h <= b < h_next h + length new))
    /\ (ok = false <-> exists j, j < k /\ f (h_next h + j) = false /\ forall i, i < j -> f (h_next h + i) = true).
Proof.
  induction k as [|k IH]; intros acc h; simpl.
  - exists acc, true, h. split; [reflexivity|]. split.
    + exists []. simpl. repeat split; auto; try lia; try tauto.
    + split; [discriminate | intros [j [Hj _]]; lia].
  - unfold bindM. unfold malloc at 1. destruct (f (h_next h)) eqn:E.
    + destruct (IH (h_next h :: acc) (mkHeap (S (h_next h)) (h_next h :: h_live h)))
        as [bs [ok [h' [Hrun [[new [Hbs [Hlive [Hlen [Hle [Hnext Hbnd]]]]]] Hfail]]]]].
      exists bs, ok, h'. split; [exact Hrun|]. split.
      * exists (new ++ [h_next h]). simpl in *. rewrite <- !app_assoc. simpl.
        repeat split; auto.
        -- intros Hok. rewrite app_length. simpl. apply Hlen in Hok. lia.
        -- rewrite app_length. simpl. lia.
        -- rewrite app_length. simpl. lia.
        -- apply in_app_or in H. destruct H as [H|[H|[]]]; [apply Hbnd in H; lia | lia].
        -- apply in_app_or in H. rewrite app_length. simpl.
           destruct H as [H|[H|[]]]; [apply Hbnd in H; lia | lia].
      * simpl in Hfail. rewrite Hfail. split.
        -- intros [j [Hj [Hfj Hpre]]]. exists (S j). split; [lia|]. split.
           ++ replace (h_next h + S j) with (S (h_next h + j)) by lia. exact Hfj.
           ++ intros i Hi. destruct i as [|i]; [rewrite Nat.add_0_r; exact E|].
              replace (h_next h + S i) with (S (h_next h + i)) by lia. apply Hpre. lia.
        -- intros [j [Hj [Hfj Hpre]]]. destruct j as [|j].
           ++ rewrite Nat.add_0_r in Hfj. congruence.
           ++ exists j. split; [lia|]. split.
              ** replace (S (h_next h + j)) with (h_next h + S j) by lia. exact Hfj.
              ** intros i Hi. replace (S (h_next h + i)) with (h_next h + S i) by lia. apply Hpre. lia.
    + exists acc, false, (mkHeap (S (h_next h)) (h_live h)). split; [reflexivity|]. split.
      * exists []. simpl. repeat split; auto; try lia; try discriminate; try tauto.
      * split; [|reflexivity]. intros _. exists 0. split; [lia|]. split.
        -- rewrite Nat.add_0_r. exact E.
        -- intros i Hi. lia.
Qed.

Lemma remove_one_middle b l1 l2 : ~ In b l1 -> remove_one b (l1 ++ b :: l2) = l1 ++ l2.
Proof.
  induction l1 as [|x r IH]; simpl; intros H; [rewrite Nat.eqb_refl; reflexivity|].
  destruct (Nat.eqb_spec x b) as [E|E]; [exfalso; apply H; left; exact E|].
  f_equal. apply IH. tauto.
Qed.

(* freeing, most recent first, exactly the blocks that were pushed restores the ledger *)
Lemma free_all_prefix new : forall h rest,
  h_live h = new ++ rest ->
  free_all new h = Ok (tt, mkHeap (h_next h) rest).
Proof.
  induction new as [|b r IH]; intros h rest Hl; simpl in *.
  - destruct h; simpl in *; subst; reflexivity.
  - unfold bindM, free. rewrite Hl. simpl. rewrite Nat.eqb_refl. simpl.
    rewrite (IH (mkHeap (h_next h) (r ++ rest)) rest); simpl; reflexivity.
Qed.
