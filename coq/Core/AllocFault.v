(* C14 - single allocation fault framework.

   Allocation is an ORACLE: [f n = true] iff the n-th allocation request (malloc or realloc,
   counted from 0 in the order in which the code issues them) succeeds.  Model functions are
   written in a state monad that threads the HEAP LEDGER: the allocation counter and the list
   of live blocks.  A block is named by the index of the request that created it, so a block
   name is never reused.  free() of a block that is not live is the explicit undefined
   behaviour [UB DoubleFree]; realloc of a dead block is [UB UseAfterFree].

   Theorems about a model function are stated for ALL oracles where possible (any number of
   failures), and specialised to [single_failure] oracles for the property C14. *)
From CAres.Base Require Export Outcome.
Local Open Scope nat_scope.

Definition oracle := nat -> bool.

Definition no_failure (f : oracle) : Prop := forall m, f m = true.
Definition fails_only_at (f : oracle) (n : nat) : Prop := forall m, f m = false <-> m = n.
(* at most one allocation fails *)
Definition single_failure (f : oracle) : Prop := no_failure f \/ exists n, fails_only_at f n.

Definition never_fail : oracle := fun _ => true.
Definition fail_at (n : nat) : oracle := fun m => negb (Nat.eqb m n).

Lemma never_fail_single : single_failure never_fail.
Proof. left; intros m; reflexivity. Qed.

Lemma fail_at_only n : fails_only_at (fail_at n) n.
Proof.
  intros m; unfold fail_at; split; intros H.
  - apply negb_false_iff in H. apply Nat.eqb_eq in H. exact H.
  - subst m. rewrite Nat.eqb_refl. reflexivity.
Qed.

Lemma fail_at_single n : single_failure (fail_at n).
Proof. right; exists n; apply fail_at_only. Qed.

Lemma single_failure_unique f a b : single_failure f -> f a = false -> f b = false -> a = b.
Proof.
  intros [Hn | [n Hn]] Ha Hb.
  - rewrite Hn in Ha; discriminate.
  - apply Hn in Ha; apply Hn in Hb; congruence.
Qed.

(* once the failure has happened every later request succeeds *)
Lemma single_failure_after f a b : single_failure f -> f a = false -> a <> b -> f b = true.
Proof.
  intros Hs Ha Hab. destruct (f b) eqn:E; [reflexivity|].
  exfalso; apply Hab; eapply single_failure_unique; eauto.
Qed.

(* the first refused request at or before a refused one *)
Fixpoint find_first (f : oracle) (base n : nat) : option nat :=
  match n with
  | 0 => None
  | S n' => match find_first f base n' with
            | Some m => Some m
            | None => if f (base + n') then None else Some n'
            end
  end.

Lemma find_first_spec f base n :
  match find_first f base n with
  | Some m => m < n /\ f (base + m) = false /\ forall k, k < m -> f (base + k) = true
  | None => forall k, k < n -> f (base + k) = true
  end.
Proof.
  induction n as [|n IH]; simpl; [intros k Hk; lia|].
  destruct (find_first f base n) as [m|].
  - destruct IH as (Hm & Hf & Hp). repeat split; auto.
  - destruct (f (base + n)) eqn:E.
    + intros k Hk. destruct (Nat.eq_dec k n) as [->|Hne]; [exact E | apply IH; lia].
    + repeat split; auto.
Qed.

Lemma first_failure f base i :
  f (base + i) = false ->
  exists m, m <= i /\ f (base + m) = false /\ forall k, k < m -> f (base + k) = true.
Proof.
  intros Hf. pose proof (find_first_spec f base (S i)) as H.
  destruct (find_first f base (S i)) as [m|].
  - destruct H as (Hm & Hfm & Hp). exists m. repeat split; auto. lia.
  - rewrite H in Hf by lia. discriminate.
Qed.

(* ---------------------------------------------------------------------------------- *)
(* heap ledger                                                                          *)
(* ---------------------------------------------------------------------------------- *)
Notation blk := nat (only parsing).

Record heap := mkHeap {
  h_next : nat;          (* index of the next allocation request *)
  h_live : list blk }.   (* live blocks, most recent first *)

Definition heap0 : heap := mkHeap 0 [].

Fixpoint remove_one (b : blk) (l : list blk) : list blk :=
  match l with
  | [] => []
  | x :: r => if Nat.eqb x b then r else x :: remove_one b r
  end.

Fixpoint memb (b : blk) (l : list blk) : bool :=
  match l with
  | [] => false
  | x :: r => Nat.eqb x b || memb b r
  end.

Definition M (A : Type) : Type := heap -> outcome (A * heap).

Definition ret {A} (a : A) : M A := fun h => Ok (a, h).
Definition bindM {A B} (m : M A) (k : A -> M B) : M B :=
  fun h => match m h with
           | Ok (a, h1) => k a h1
           | Err s => Err s
           | UB u => UB u
           end.

Notation "x <- m ;; k" := (bindM m (fun x => k))
  (at level 61, m at next level, right associativity).
Notation "m ;;; k" := (bindM m (fun _ => k))
  (at level 61, right associativity).

Definition failM {A} (k : ub_kind) : M A := fun _ => UB k.
Definition errM {A} (s : Z) : M A := fun _ => Err s.

Section Alloc.
  Variable f : oracle.

  (* ares_malloc / ares_malloc_zero: consumes one oracle answer *)
  Definition malloc : M (option blk) := fun h =>
    let n := h_next h in
    if f n then Ok (Some n, mkHeap (S n) (n :: h_live h))
    else Ok (None, mkHeap (S n) (h_live h)).

  (* ares_free: free(NULL) is a no-op *)
  Definition free (p : option blk) : M unit := fun h =>
    match p with
    | None => Ok (tt, h)
    | Some b => if memb b (h_live h) then Ok (tt, mkHeap (h_next h) (remove_one b (h_live h)))
                else UB DoubleFree
    end.

  (* ares_realloc / ares_realloc_zero: one oracle answer; on failure the old block stays live *)
  Definition realloc (p : option blk) : M (option blk) := fun h =>
    match p with
    | None => malloc h
    | Some b =>
      if memb b (h_live h) then
        let n := h_next h in
        if f n then Ok (Some n, mkHeap (S n) (n :: remove_one b (h_live h)))
        else Ok (None, mkHeap (S n) (h_live h))
      else UB UseAfterFree
    end.

  (* allocate k blocks one after the other, stop at the first failure.  Returns the blocks
     obtained (most recent first) and whether all k succeeded.  This is the shape of
     "pre-allocate everything" loops (ares_htable_expand) and of callee groups that are not
     modelled in detail. *)
  Fixpoint malloc_n (k : nat) (acc : list blk) : M (list blk * bool) :=
    match k with
    | 0 => ret (acc, true)
    | S k' => p <- malloc ;;
              match p with
              | None => ret (acc, false)
              | Some b => malloc_n k' (b :: acc)
              end
    end.

  Fixpoint free_all (l : list blk) : M unit :=
    match l with
    | [] => ret tt
    | b :: r => free (Some b) ;;; free_all r
    end.

  (* a run of ares_free() calls on pointers that may be NULL *)
  Fixpoint cat_somes (l : list (option blk)) : list blk :=
    match l with
    | [] => []
    | Some b :: r => b :: cat_somes r
    | None :: r => cat_somes r
    end.
  Definition free_opts (l : list (option blk)) : M unit := free_all (cat_somes l).
End Alloc.

(* ---------------------------------------------------------------------------------- *)
(* ledger facts                                                                         *)
(* ---------------------------------------------------------------------------------- *)
Definition heap_wf (h : heap) : Prop := forall b, In b (h_live h) -> b < h_next h.

Lemma heap0_wf : heap_wf heap0.
Proof. intros b []. Qed.

Lemma remove_one_head b l : remove_one b (b :: l) = l.
Proof. simpl. rewrite Nat.eqb_refl. reflexivity. Qed.

Lemma remove_one_other a b l : a <> b -> remove_one b (a :: l) = a :: remove_one b l.
Proof. intros H. simpl. destruct (Nat.eqb_spec a b); [contradiction | reflexivity]. Qed.

Lemma memb_In b l : memb b l = true <-> In b l.
Proof.
  induction l as [|x r IH]; simpl; [split; [discriminate | tauto]|].
  rewrite orb_true_iff, IH. rewrite Nat.eqb_eq. tauto.
Qed.

Lemma remove_one_notin b l : ~ In b l -> remove_one b l = l.
Proof.
  induction l as [|x r IH]; simpl; intros H; [reflexivity|].
  destruct (Nat.eqb_spec x b) as [E|E]; [exfalso; apply H; left; exact E|].
  f_equal. apply IH. tauto.
Qed.

Lemma In_remove_one a b l : In a (remove_one b l) -> In a l.
Proof.
  induction l as [|x r IH]; simpl; [tauto|].
  destruct (Nat.eqb_spec x b); simpl; intros H; tauto.
Qed.

Lemma malloc_spec f h :
  exists p, malloc f h = Ok (p, mkHeap (S (h_next h)) (match p with Some b => b :: h_live h | None => h_live h end))
            /\ (p = None <-> f (h_next h) = false)
            /\ (forall b, p = Some b -> b = h_next h).
Proof.
  unfold malloc. destruct (f (h_next h)) eqn:E.
  - exists (Some (h_next h)). repeat split; try discriminate; congruence.
  - exists None. repeat split; try discriminate; congruence.
Qed.

Lemma malloc_wf f h p h' : heap_wf h -> malloc f h = Ok (p, h') -> heap_wf h'.
Proof.
  unfold malloc, heap_wf. intros Hwf H b Hb.
  destruct (f (h_next h)); inversion H; subst; clear H; simpl in *.
  - destruct Hb as [<-|Hb]; [lia | apply Hwf in Hb; lia].
  - apply Hwf in Hb; lia.
Qed.

Lemma free_wf p h u h' : heap_wf h -> free p h = Ok (u, h') -> heap_wf h'.
Proof.
  unfold free, heap_wf. intros Hwf H b Hb. destruct p as [x|].
  - destruct (memb x (h_live h)); inversion H; subst; clear H; simpl in *.
    apply In_remove_one in Hb. auto.
  - inversion H; subst. auto.
Qed.

(* malloc_n: either all k blocks are obtained, or the first failing request stops it *)
Lemma malloc_n_spec f k : forall acc h,
  exists bs ok h', malloc_n f k acc h = Ok ((bs, ok), h')
    /\ (exists new, bs = new ++ acc /\ h_live h' = new ++ h_live h
                    /\ (ok = true -> length new = k) /\ length new <= k
                    /\ h_next h' = h_next h + length new + (if ok then 0 else 1)
                    /\ (forall b, In b new -> h_next h <= b < h_next h + length new))
    /\ (ok = false <-> exists j, j < k /\ f (h_next h + j) = false /\ forall i, i < j -> f (h_next h + i) = true).
Proof.
  induction k as [|k IH]; intros acc h; simpl.
  - exists acc, true, h. split; [reflexivity|]. split.
    + exists []. simpl. repeat split; auto; try lia; try tauto.
    + split; [discriminate | intros [j [Hj _]]; lia].
  - unfold bindM. unfold malloc at 1. destruct (f (h_next h)) eqn:E.
    + destruct (IH (h_next h :: acc) (mkHeap (S (h_next h)) (h_next h :: h_live h)))
        as [bs [ok [h' [Hrun [[new [Hbs [Hlive [Hlen [Hle [Hnext Hbnd]]]]]] Hfail]]]]].
      exists bs, ok, h'. split; [exact Hrun|]. split.
      * exists (new ++ [h_next h]). simpl in *. rewrite <- !app_assoc. simpl.
        repeat split; auto.
        -- intros Hok. rewrite app_length. simpl. apply Hlen in Hok. lia.
        -- rewrite app_length. simpl. lia.
        -- rewrite app_length. simpl. lia.
        -- apply in_app_or in H. destruct H as [H|[H|[]]]; [apply Hbnd in H; lia | lia].
        -- apply in_app_or in H. rewrite app_length. simpl.
           destruct H as [H|[H|[]]]; [apply Hbnd in H; lia | lia].
      * simpl in Hfail. rewrite Hfail. split.
        -- intros [j [Hj [Hfj Hpre]]]. exists (S j). split; [lia|]. split.
           ++ replace (h_next h + S j) with (S (h_next h + j)) by lia. exact Hfj.
           ++ intros i Hi. destruct i as [|i]; [rewrite Nat.add_0_r; exact E|].
              replace (h_next h + S i) with (S (h_next h + i)) by lia. apply Hpre. lia.
        -- intros [j [Hj [Hfj Hpre]]]. destruct j as [|j].
           ++ rewrite Nat.add_0_r in Hfj. congruence.
           ++ exists j. split; [lia|]. split.
              ** replace (S (h_next h + j)) with (h_next h + S j) by lia. exact Hfj.
              ** intros i Hi. replace (S (h_next h + i)) with (h_next h + S i) by lia. apply Hpre. lia.
    + exists acc, false, (mkHeap (S (h_next h)) (h_live h)). split; [reflexivity|]. split.
      * exists []. simpl. repeat split; auto; try lia; try discriminate; try tauto.
      * split; [|reflexivity]. intros _. exists 0. split; [lia|]. split.
        -- rewrite Nat.add_0_r. exact E.
        -- intros i Hi. lia.
Qed.

Lemma remove_one_middle b l1 l2 : ~ In b l1 -> remove_one b (l1 ++ b :: l2) = l1 ++ l2.
Proof.
  induction l1 as [|x r IH]; simpl; intros H; [rewrite Nat.eqb_refl; reflexivity|].
  destruct (Nat.eqb_spec x b) as [E|E]; [exfalso; apply H; left; exact E|].
  f_equal. apply IH. tauto.
Qed.

(* freeing, most recent first, exactly the blocks that were pushed restores the ledger *)
Lemma free_all_prefix new : forall h rest,
  h_live h = new ++ rest ->
  free_all new h = Ok (tt, mkHeap (h_next h) rest).
Proof.
  induction new as [|b r IH]; intros h rest Hl; simpl in *.
  - destruct h; simpl in *; subst; reflexivity.
  - unfold bindM, free. rewrite Hl. simpl. rewrite Nat.eqb_refl. simpl.
    rewrite (IH (mkHeap (h_next h) (r ++ rest)) rest); simpl; reflexivity.
Qed.

(* ---------------------------------------------------------------------------------- *)
(* heaps without duplicates: set-like reasoning about runs of free()                    *)
(* ---------------------------------------------------------------------------------- *)
Definition heap_ok (h : heap) : Prop := NoDup (h_live h) /\ heap_wf h.

Lemma heap0_ok : heap_ok heap0.
Proof. split; [constructor | apply heap0_wf]. Qed.

Lemma heap_ok_fresh h : heap_ok h -> ~ In (h_next h) (h_live h).
Proof. intros [_ Hwf] Hin. apply Hwf in Hin. lia. Qed.

Lemma heap_ok_push h : heap_ok h -> heap_ok (mkHeap (S (h_next h)) (h_next h :: h_live h)).
Proof.
  intros Hok. pose proof (heap_ok_fresh h Hok) as Hf. destruct Hok as [Hnd Hwf]. split; simpl.
  - constructor; assumption.
  - intros b [<-|Hb]; simpl; [lia | apply Hwf in Hb; lia].
Qed.

Lemma heap_ok_skip h : heap_ok h -> heap_ok (mkHeap (S (h_next h)) (h_live h)).
Proof. intros [Hnd Hwf]. split; simpl; [assumption|]. intros b Hb. apply Hwf in Hb. simpl. lia. Qed.

(* the two outcomes of one request *)
Lemma malloc_cases f h :
  (f (h_next h) = true /\ malloc f h = Ok (Some (h_next h), mkHeap (S (h_next h)) (h_next h :: h_live h))) \/
  (f (h_next h) = false /\ malloc f h = Ok (None, mkHeap (S (h_next h)) (h_live h))).
Proof. unfold malloc. destruct (f (h_next h)); [left | right]; auto. Qed.

Lemma In_remove_one_nodup a b l : NoDup l -> (In a (remove_one b l) <-> In a l /\ a <> b).
Proof.
  induction l as [|x r IH]; simpl; intros Hnd; [tauto|].
  inversion Hnd as [|? ? Hx Hr]; subst.
  destruct (Nat.eqb_spec x b) as [E|E].
  - subst x. split.
    + intros Ha. split; [tauto|]. intros ->. contradiction.
    + intros [[->|Ha] Hne]; [contradiction | assumption].
  - simpl. rewrite IH by assumption. split.
    + intros [->|[Ha Hne]]; [split; [tauto | congruence] | tauto].
    + intros [[->|Ha] Hne]; [left; reflexivity | right; tauto].
Qed.

Lemma NoDup_remove_one b l : NoDup l -> NoDup (remove_one b l).
Proof.
  induction l as [|x r IH]; simpl; intros Hnd; [constructor|].
  inversion Hnd as [|? ? Hx Hr]; subst.
  destruct (Nat.eqb_spec x b); [assumption|].
  constructor; [|apply IH; assumption].
  intros Hin. apply In_remove_one in Hin. contradiction.
Qed.

Lemma length_remove_one b l : In b l -> S (length (remove_one b l)) = length l.
Proof.
  induction l as [|x r IH]; simpl; intros Hin; [contradiction|].
  destruct (Nat.eqb_spec x b) as [E|E]; [reflexivity|].
  simpl. f_equal. apply IH. destruct Hin; [contradiction | assumption].
Qed.

Lemma free_all_ok bs : forall h,
  heap_ok h -> NoDup bs -> incl bs (h_live h) ->
  exists h1, free_all bs h = Ok (tt, h1) /\ heap_ok h1 /\ h_next h1 = h_next h /\
    length (h_live h1) + length bs = length (h_live h) /\
    (forall x, In x (h_live h1) <-> In x (h_live h) /\ ~ In x bs).
Proof.
  induction bs as [|b r IH]; intros h Hok Hnd Hincl; simpl.
  - exists h. unfold ret. split; [reflexivity|]. split; [assumption|]. split; [reflexivity|].
    split; [simpl; lia|]. intros x. simpl. tauto.
  - inversion Hnd as [|? ? Hb Hr]; subst.
    assert (Hin : In b (h_live h)) by (apply Hincl; left; reflexivity).
    unfold bindM, free. rewrite (proj2 (memb_In b (h_live h)) Hin).
    destruct Hok as [Hnl Hwf].
    set (h0 := mkHeap (h_next h) (remove_one b (h_live h))).
    assert (Hok0 : heap_ok h0).
    { split; simpl; [apply NoDup_remove_one; assumption|].
      intros x Hx. apply In_remove_one in Hx. apply Hwf. assumption. }
    assert (Hincl0 : incl r (h_live h0)).
    { intros x Hx. simpl. apply In_remove_one_nodup; [assumption|]. split.
      - apply Hincl. right. assumption.
      - intros ->. contradiction. }
    destruct (IH h0 Hok0 Hr Hincl0) as (h1 & Hrun & Hok1 & Hnx & Hlen & Hiff).
    exists h1. split; [exact Hrun|]. split; [exact Hok1|]. split; [exact Hnx|]. split.
    + simpl in Hlen. pose proof (length_remove_one b (h_live h) Hin). lia.
    + intros x. rewrite Hiff. simpl. rewrite In_remove_one_nodup by assumption.
      split; [intros [[Hx Hne] Hnr]; split; [assumption | intros [->|Hx']; [congruence | contradiction]]
             | intros [Hx Hn]; split; [split; [assumption | intros ->; apply Hn; left; reflexivity]
                                      | intros Hx'; apply Hn; right; assumption]].
Qed.

Lemma NoDup_app_inv {A} (a b : list A) :
  NoDup (a ++ b) -> NoDup a /\ NoDup b /\ (forall x, In x a -> In x b -> False).
Proof.
  induction a as [|x a IH]; simpl; intros H.
  - split; [constructor|]. split; [assumption|]. intros x [].
  - inversion H as [|? ? Hx Hr]; subst. destruct (IH Hr) as (Ha & Hb & Hd).
    split; [constructor; [intros Hi; apply Hx; apply in_or_app; left; exact Hi | exact Ha]|].
    split; [exact Hb|].
    intros y [<-|Hy] Hyb; [apply Hx; apply in_or_app; right; exact Hyb | eapply Hd; eauto].
Qed.

Lemma heap_ok_next h n : heap_ok h -> h_next h <= n -> heap_ok (mkHeap n (h_live h)).
Proof. intros [Hnd Hwf] Hle. split; simpl; [assumption|]. intros b Hb. apply Hwf in Hb. simpl. lia. Qed.

(* resolve the block-name comparisons that symbolic execution of malloc/free leaves behind *)
Ltac eqb_norm :=
  repeat match goal with
  | |- context [Nat.eqb ?a ?a] => rewrite (Nat.eqb_refl a)
  | |- context [Nat.eqb ?a ?b] =>
      let H := fresh in
      assert (H : Nat.eqb a b = false) by (apply Nat.eqb_neq; lia); rewrite H; clear H
  end.

Lemma bindM_ok {A B} (m : M A) (k : A -> M B) h a h1 : m h = Ok (a, h1) -> bindM m k h = k a h1.
Proof. intros H. unfold bindM. rewrite H. reflexivity. Qed.

Ltac eqb_norm_in H :=
  repeat match type of H with
  | context [Nat.eqb ?a ?a] => rewrite (Nat.eqb_refl a) in H
  | context [Nat.eqb ?a ?b] =>
      let H' := fresh in
      assert (H' : Nat.eqb a b = false) by (apply Nat.eqb_neq; lia); rewrite H' in H; clear H'
  end.

(* one allocation request inside hypothesis H : R = bindM (malloc f) k h *)
Ltac step_malloc_in H :=
  match type of H with
  | context [bindM (malloc ?f) ?k ?h] =>
      let E := fresh "Ef" in let M := fresh "Hm" in
      destruct (malloc_cases f h) as [[E M]|[E M]];
      rewrite (bindM_ok (malloc f) k h _ _ M) in H; clear M;
      cbv beta iota in H; cbn [h_next h_live] in H
  end.

Lemma remove_one_app_in b l1 l2 : In b l1 -> remove_one b (l1 ++ l2) = remove_one b l1 ++ l2.
Proof.
  induction l1 as [|x r IH]; simpl; intros H; [contradiction|].
  destruct (Nat.eqb_spec x b); [reflexivity|].
  simpl. f_equal. apply IH. destruct H; [contradiction | assumption].
Qed.

(* freeing, in any order, exactly the blocks that were pushed restores the ledger *)
Lemma free_all_restore bs : forall pre L n,
  NoDup bs -> NoDup pre -> incl bs pre -> incl pre bs ->
  free_all bs (mkHeap n (pre ++ L)) = Ok (tt, mkHeap n L).
Proof.
  induction bs as [|b r IH]; intros pre L n Hb Hp Hi1 Hi2; simpl.
  - destruct pre as [|x pre]; [reflexivity|]. exfalso. apply (Hi2 x). left. reflexivity.
  - inversion Hb as [|? ? Hnb Hr]; subst.
    assert (Hin : In b pre) by (apply Hi1; left; reflexivity).
    unfold bindM, free. cbn [h_live h_next].
    rewrite (proj2 (memb_In b (pre ++ L))) by (apply in_or_app; left; exact Hin).
    rewrite remove_one_app_in by exact Hin.
    apply IH.
    + exact Hr.
    + apply NoDup_remove_one. exact Hp.
    + intros x Hx. apply In_remove_one_nodup; [exact Hp|]. split.
      * apply Hi1. right. exact Hx.
      * intros ->. contradiction.
    + intros x Hx. apply In_remove_one_nodup in Hx; [|exact Hp]. destruct Hx as [Hx Hne].
      apply Hi2 in Hx. destruct Hx as [->|Hx]; [congruence | exact Hx].
Qed.

Lemma free_opts_restore l pre L h0 :
  h_live h0 = pre ++ L -> NoDup (cat_somes l) -> NoDup pre ->
  incl (cat_somes l) pre -> incl pre (cat_somes l) ->
  free_opts l h0 = Ok (tt, mkHeap (h_next h0) L).
Proof.
  intros Hl H1 H2 H3 H4. unfold free_opts. destruct h0 as [n lv]. simpl in *. subst lv.
  apply free_all_restore; assumption.
Qed.

Ltac prefix_of l L :=
  match l with
  | L => constr:(@nil nat)
  | ?x :: ?r => let p := prefix_of r L in constr:(x :: p)
  end.

Ltac explicit_nodup := repeat (constructor; [simpl; lia|]); constructor.
Ltac explicit_incl := let x := fresh in let Hx := fresh in intros x Hx; simpl in *; lia.

(* the undo of a failed step: H : R = bindM (free_opts l) k (mkHeap n (b_j :: .. :: b_1 :: L));
   the blocks freed are exactly the pushed ones *)
Ltac step_undo_in H L :=
  match type of H with
  | context [bindM (free_opts ?l) ?k (mkHeap ?n ?live)] =>
      let pre := prefix_of live L in
      let X := fresh in
      assert (X : free_opts l (mkHeap n live) = Ok (tt, mkHeap n L)) by
        (apply (free_opts_restore l pre L (mkHeap n live));
         [reflexivity | cbn [cat_somes]; explicit_nodup | explicit_nodup
          | cbn [cat_somes]; explicit_incl | cbn [cat_somes]; explicit_incl]);
      rewrite (bindM_ok (free_opts l) k (mkHeap n live) _ _ X) in H; clear X;
      cbv beta iota in H
  end.

Lemma NoDup_app_intro {A} (a b : list A) :
  NoDup a -> NoDup b -> (forall x, In x a -> In x b -> False) -> NoDup (a ++ b).
Proof.
  induction a as [|x a IH]; simpl; intros Ha Hb Hd; [exact Hb|].
  inversion Ha as [|? ? Hx Hr]; subst. constructor.
  - intros Hin. apply in_app_or in Hin. destruct Hin as [Hin|Hin]; [contradiction|].
    apply (Hd x); [left; reflexivity | exact Hin].
  - apply IH; [exact Hr | exact Hb|]. intros y Hy Hyb. apply (Hd y); [right; exact Hy | exact Hyb].
Qed.

From Coq Require Import Permutation.

(* Permutation of explicit cons-lists over a common tail: move the head of the left side into
   place on the right side, recursively *)
Ltac perm_cons :=
  simpl;
  lazymatch goal with
  | |- Permutation ?l ?l => apply Permutation_refl
  | |- Permutation (?a :: ?l) ?r =>
      let rec split r :=
        lazymatch r with
        | a :: ?t => constr:((@nil nat, t))
        | ?y :: ?t => let p := split t in
                      lazymatch p with (?l1, ?l2) => constr:((y :: l1, l2)) end
        end in
      let p := split r in
      lazymatch p with
      | (?l1, ?l2) =>
          apply (Permutation_trans (l' := a :: (l1 ++ l2)));
          [apply perm_skip; perm_cons | apply (Permutation_middle l1 l2 a)]
      end
  end.

(* Permutation of block lists built with ++ and :: from opaque pieces, possibly using
   Permutation hypotheses: compare occurrence counts (a linear problem) *)
Lemma count_occ_cons_split (a : nat) l x :
  count_occ Nat.eq_dec (a :: l) x = count_occ Nat.eq_dec [a] x + count_occ Nat.eq_dec l x.
Proof. simpl. destruct (Nat.eq_dec a x); lia. Qed.

Ltac perm_solve :=
  apply (proj2 (Permutation_count_occ Nat.eq_dec _ _));
  let x := fresh "x" in intro x;
  repeat match goal with
         | H : Permutation ?a ?b |- _ =>
             let H' := fresh in
             pose proof (proj1 (Permutation_count_occ Nat.eq_dec a b) H x) as H'; clear H
         end;
  repeat first
    [ rewrite count_occ_app in *
    | match goal with
      | |- context [count_occ Nat.eq_dec (?a :: ?l) x] =>
          lazymatch l with
          | [] => fail
          | _ => rewrite (count_occ_cons_split a l x)
          end
      | H : context [count_occ Nat.eq_dec (?a :: ?l) x] |- _ =>
          lazymatch l with
          | [] => fail
          | _ => rewrite (count_occ_cons_split a l x) in H
          end
      end ];
  try lia.

(* the same for lists of request identifiers *)
Lemma count_occ_cons_split_z (a : Z) l x :
  count_occ Z.eq_dec (a :: l) x = count_occ Z.eq_dec [a] x + count_occ Z.eq_dec l x.
Proof. simpl. destruct (Z.eq_dec a x); lia. Qed.

Ltac perm_solve_z :=
  apply (proj2 (Permutation_count_occ Z.eq_dec _ _));
  let x := fresh "x" in intro x;
  repeat match goal with
         | H : Permutation ?a ?b |- _ =>
             let H' := fresh in
             pose proof (proj1 (Permutation_count_occ Z.eq_dec a b) H x) as H'; clear H
         end;
  repeat first
    [ rewrite count_occ_app in *
    | match goal with
      | |- context [count_occ Z.eq_dec (?a :: ?l) x] =>
          lazymatch l with
          | [] => fail
          | _ => rewrite (count_occ_cons_split_z a l x)
          end
      | H : context [count_occ Z.eq_dec (?a :: ?l) x] |- _ =>
          lazymatch l with
          | [] => fail
          | _ => rewrite (count_occ_cons_split_z a l x) in H
          end
      end ];
  try lia.
