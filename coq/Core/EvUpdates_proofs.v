From CAres.Core Require Import EvUpdates.
Local Open Scope Z_scope.

Lemma key_eqb_eq a b : key_eqb a b = true <-> a = b.
Proof.
  destruct a as [x|x], b as [y|y]; simpl; split; intros H; try discriminate;
    try (apply Z.eqb_eq in H; subst; reflexivity); try (inversion H; subst; apply Z.eqb_refl).
Qed.

Lemma key_eqb_refl a : key_eqb a a = true.
Proof. apply key_eqb_eq. reflexivity. Qed.

Lemma key_eqb_neq a b : a <> b -> key_eqb a b = false.
Proof. intros H. destruct (key_eqb a b) eqn:E; [apply key_eqb_eq in E; contradiction | reflexivity]. Qed.

Lemma key_eqb_sym a b : key_eqb a b = key_eqb b a.
Proof.
  destruct (key_eqb a b) eqn:E.
  - apply key_eqb_eq in E. subst. symmetry. apply key_eqb_refl.
  - symmetry. apply key_eqb_neq. intros ->. rewrite key_eqb_refl in E. discriminate.
Qed.

Lemma fupd_same {A} (f : key -> A) k v : fupd f k v k = v.
Proof. unfold fupd. rewrite key_eqb_refl. reflexivity. Qed.

Lemma fupd_other {A} (f : key -> A) k v k' : k' <> k -> fupd f k v k' = f k'.
Proof. intros H. unfold fupd. rewrite key_eqb_neq by assumption. reflexivity. Qed.

(* the queued flags of one key, oldest first *)
Definition pk (k : key) (l : list upd) : list Z :=
  map u_flags (filter (fun u => key_eqb (u_key u) k) l).

Definition tailw (w : Z) : list Z := if w =? 0 then [] else [w].

Fixpoint set_first_nz (l : list Z) (f : Z) : list Z :=
  match l with
  | [] => [f]
  | x :: r => if x =? 0 then x :: set_first_nz r f else f :: r
  end.

Definition enqueue (k : key) (f : Z) (l : list upd) : list upd :=
  match find_set true k f l with Some l' => l' | None => l ++ [mkU k f] end.

Lemma pk_cons_same k u r : key_eqb (u_key u) k = true -> pk k (u :: r) = u_flags u :: pk k r.
Proof. intros H. unfold pk. simpl. rewrite H. reflexivity. Qed.

Lemma pk_cons_other k u r : key_eqb (u_key u) k = false -> pk k (u :: r) = pk k r.
Proof. intros H. unfold pk. simpl. rewrite H. reflexivity. Qed.

Lemma enqueue_pk_same k f l : pk k (enqueue k f l) = set_first_nz (pk k l) f.
Proof.
  unfold enqueue. induction l as [|u r IH].
  - simpl. unfold pk. simpl. rewrite key_eqb_refl. reflexivity.
  - cbn [find_set]. cbn [negb orb]. destruct (key_eqb (u_key u) k) eqn:Ek.
    + rewrite pk_cons_same by assumption. cbn [andb].
      destruct (u_flags u =? 0) eqn:Ez; cbn [negb set_first_nz]; rewrite Ez.
      * destruct (find_set true k f r) as [r'|].
        -- rewrite pk_cons_same by assumption. rewrite IH. reflexivity.
        -- change ((u :: r) ++ [mkU k f]) with (u :: (r ++ [mkU k f])).
           rewrite pk_cons_same by assumption. rewrite IH. reflexivity.
      * rewrite pk_cons_same by (apply key_eqb_refl). reflexivity.
    + rewrite pk_cons_other by assumption. cbn [andb].
      destruct (find_set true k f r) as [r'|].
      * rewrite pk_cons_other by assumption. exact IH.
      * change ((u :: r) ++ [mkU k f]) with (u :: (r ++ [mkU k f])).
        rewrite pk_cons_other by assumption. exact IH.
Qed.

Lemma enqueue_pk_other k f l k' : k' <> k -> pk k' (enqueue k f l) = pk k' l.
Proof.
  intros Hne. unfold enqueue. induction l as [|u r IH].
  - simpl. unfold pk. simpl. rewrite key_eqb_neq by congruence. reflexivity.
  - cbn [find_set]. cbn [negb orb]. destruct (key_eqb (u_key u) k) eqn:Ek.
    + apply key_eqb_eq in Ek.
      assert (Hk' : key_eqb (u_key u) k' = false) by (apply key_eqb_neq; congruence).
      rewrite (pk_cons_other k' u r) by assumption. cbn [andb].
      destruct (u_flags u =? 0) eqn:Ez; cbn [negb].
      * destruct (find_set true k f r) as [r'|].
        -- rewrite pk_cons_other by assumption. exact IH.
        -- change ((u :: r) ++ [mkU k f]) with (u :: (r ++ [mkU k f])).
           rewrite pk_cons_other by assumption. exact IH.
      * rewrite pk_cons_other by (simpl; apply key_eqb_neq; congruence). reflexivity.
    + cbn [andb]. destruct (find_set true k f r) as [r'|].
      * destruct (key_eqb (u_key u) k') eqn:Ek'.
        -- rewrite !pk_cons_same by assumption. rewrite IH. reflexivity.
        -- rewrite !pk_cons_other by assumption. exact IH.
      * change ((u :: r) ++ [mkU k f]) with (u :: (r ++ [mkU k f])).
        destruct (key_eqb (u_key u) k') eqn:Ek'.
        -- rewrite !pk_cons_same by assumption. rewrite IH. reflexivity.
        -- rewrite !pk_cons_other by assumption. exact IH.
Qed.

Lemma repeat_snoc0 n : repeat 0 n ++ [0] = repeat 0 (S n).
Proof. induction n as [|n IH]; simpl; [reflexivity|]. rewrite IH. reflexivity. Qed.

Lemma set_first_nz_shape n w f : set_first_nz (repeat 0 n ++ tailw w) f = repeat 0 n ++ [f].
Proof.
  induction n as [|n IH]; simpl.
  - unfold tailw. destruct (w =? 0) eqn:E; simpl; [reflexivity | rewrite E; reflexivity].
  - rewrite IH. reflexivity.
Qed.

(* ---------------------------------------------------------------------------------------- *)
(* invariant for one key, with the not-yet-applied part of the queue given separately       *)
Definition InvL (k : key) (s : st) (l : list upd) : Prop :=
  bad s k = false /\
  match handles s k, reg s k with
  | Some hf, Some (g, rf) =>
      g = gen s k /\ rf = hf /\ want s k <> 0 /\
      ((pk k l = [] /\ want s k = hf) \/ pk k l = [want s k])
  | Some _, None => exists n, pk k l = repeat 0 (S n) ++ tailw (want s k)
  | None, None => exists n, pk k l = repeat 0 n ++ tailw (want s k)
  | None, Some _ => False
  end.

Definition Inv (k : key) (s : st) : Prop := InvL k s (pending s).

Lemma inv_init k : Inv k init.
Proof. unfold Inv, InvL, init; simpl. split; [reflexivity|]. exists 0%nat. reflexivity. Qed.

Lemma update_inv s k f cbn k0 : Inv k0 s -> Inv k0 (snd (update true s k f cbn)).
Proof.
  intros HI. unfold update.
  destruct (negb (update_status k f cbn =? ST_SUCCESS)); [exact HI|].
  fold (enqueue k f (pending s)).
  destruct (key_eqb k0 k) eqn:Ek.
  - apply key_eqb_eq in Ek. subst k0.
    unfold Inv, InvL in *. destruct HI as [Hb HI].
    destruct (f =? 0) eqn:Ef; cbn [snd pending handles reg gen want bad].
    + (* removal: the socket is closed *)
      apply Z.eqb_eq in Ef. subst f.
      rewrite !fupd_same. rewrite enqueue_pk_same. split; [exact Hb|].
      destruct (handles s k) as [hf|]; destruct (reg s k) as [[g rf]|]; try contradiction.
      * destruct HI as (_ & _ & Hw & [[Hp _]|Hp]); rewrite Hp; exists 0%nat.
        -- reflexivity.
        -- simpl. apply Z.eqb_neq in Hw. rewrite Hw. reflexivity.
      * destruct HI as [n Hp]. rewrite Hp, set_first_nz_shape. exists (S n).
        change (tailw 0) with (@nil Z). rewrite app_nil_r. apply (repeat_snoc0 (S n)).
      * destruct HI as [n Hp]. rewrite Hp, set_first_nz_shape. exists (S n).
        change (tailw 0) with (@nil Z). rewrite app_nil_r. apply repeat_snoc0.
    + (* update to non-zero flags *)
      assert (Hf : f <> 0) by (apply Z.eqb_neq; exact Ef).
      rewrite fupd_same. rewrite enqueue_pk_same. split; [exact Hb|].
      assert (Ht : tailw f = [f]) by (unfold tailw; rewrite Ef; reflexivity).
      destruct (handles s k) as [hf|]; destruct (reg s k) as [[g rf]|]; try contradiction.
      * destruct HI as (Hg & Hr & Hw & Hp).
        apply Z.eqb_neq in Hw. rewrite Hw. split; [exact Hg|]. split; [exact Hr|]. split; [exact Hf|].
        right. destruct Hp as [[Hp _]|Hp]; rewrite Hp; simpl; [reflexivity|].
        rewrite Hw. reflexivity.
      * destruct HI as [n Hp]. exists n. rewrite Hp, set_first_nz_shape, Ht. reflexivity.
      * destruct HI as [n Hp]. exists n. rewrite Hp, set_first_nz_shape, Ht. reflexivity.
  - (* another key: nothing of k0 changes *)
    assert (Hne : k0 <> k) by (intros ->; rewrite key_eqb_refl in Ek; discriminate).
    unfold Inv, InvL in *. destruct HI as [Hb HI].
    destruct (f =? 0); cbn [snd pending handles reg gen want bad];
      rewrite ?(fupd_other _ k _ k0 Hne); rewrite (enqueue_pk_other k f _ k0 Hne).
    + split; assumption.
    + destruct (want s k =? 0); rewrite ?(fupd_other _ k _ k0 Hne); split; assumption.
Qed.

Lemma proc_inv s u r k : InvL k s (u :: r) -> InvL k (fst (proc s u)) r.
Proof.
  intros [Hb HI].
  destruct (key_eqb (u_key u) k) eqn:Ek.
  - pose proof Ek as Ek'. apply key_eqb_eq in Ek'. unfold proc. rewrite Ek'.
    rewrite (pk_cons_same k u r Ek) in HI.
    unfold InvL.
    destruct (handles s k) as [hf|] eqn:Eh; destruct (reg s k) as [[g rf]|] eqn:Er; try contradiction.
    + (* registered and live: only a modify can be queued *)
      destruct HI as (Hg & Hr & Hw & [[Hp _]|Hp]); [discriminate|].
      injection Hp as Hu Hp. apply Z.eqb_neq in Hw. rewrite Hu, Hw.
      cbn [fst set_handle apply_call handles reg gen want bad]. rewrite Er.
      cbn [handles reg gen want bad]. rewrite !fupd_same.
      split; [exact Hb|]. split; [exact Hg|]. split; [reflexivity|].
      split; [apply Z.eqb_neq; exact Hw|]. left. split; [exact Hp | reflexivity].
    + (* registered but the socket was closed since: the removal comes first *)
      destruct HI as [n Hp]. simpl in Hp. injection Hp as Hu Hp. rewrite Hu.
      cbn [Z.eqb fst set_handle apply_call handles reg gen want bad]. rewrite !fupd_same.
      split; [exact Hb|]. exists n. exact Hp.
    + (* not registered *)
      destruct HI as [n Hp]. destruct n as [|n].
      * simpl in Hp. unfold tailw in Hp. destruct (want s k =? 0) eqn:Ew; [discriminate|].
        injection Hp as Hu Hp. rewrite Hu, Ew.
        cbn [fst set_handle apply_call handles reg gen want bad]. rewrite Er. rewrite !fupd_same.
        split; [exact Hb|]. split; [reflexivity|]. split; [reflexivity|].
        split; [apply Z.eqb_neq; exact Ew|]. left. split; [exact Hp | reflexivity].
      * simpl in Hp. injection Hp as Hu Hp. rewrite Hu.
        cbn [Z.eqb fst]. rewrite Eh, Er. split; [exact Hb|]. exists n. exact Hp.
  - (* an update of another key *)
    assert (Hne : k <> u_key u) by (intros ->; rewrite key_eqb_refl in Ek; discriminate).
    rewrite (pk_cons_other k u r Ek) in HI.
    assert (Hsame : forall s',
      (s' = s \/
       s' = set_handle (apply_call s (CAdd (u_key u) (u_flags u))) (u_key u) (Some (u_flags u)) \/
       s' = set_handle (apply_call s (CDel (u_key u))) (u_key u) None \/
       s' = set_handle (apply_call s (CMod (u_key u) (u_flags u))) (u_key u) (Some (u_flags u))) ->
      handles s' k = handles s k /\ reg s' k = reg s k /\ gen s' k = gen s k /\
      want s' k = want s k /\ bad s' k = bad s k).
    { intros s' [E|[E|[E|E]]]; subst s'; [repeat split; reflexivity| | |];
        unfold set_handle, apply_call; cbn [handles reg gen want bad].
      - destruct (reg s (u_key u)); cbn [handles reg gen want bad];
          rewrite ?(fupd_other _ _ _ k Hne); repeat split; reflexivity.
      - rewrite ?(fupd_other _ _ _ k Hne); repeat split; reflexivity.
      - destruct (reg s (u_key u)) as [[g0 r0]|]; cbn [handles reg gen want bad];
          rewrite ?(fupd_other _ _ _ k Hne); repeat split; reflexivity. }
    assert (Hres : handles (fst (proc s u)) k = handles s k /\ reg (fst (proc s u)) k = reg s k /\
                   gen (fst (proc s u)) k = gen s k /\ want (fst (proc s u)) k = want s k /\
                   bad (fst (proc s u)) k = bad s k).
    { apply Hsame. unfold proc.
      destruct (handles s (u_key u)); destruct (u_flags u =? 0); cbn [fst]; auto. }
    destruct Hres as (H1 & H2 & H3 & H4 & H5).
    unfold InvL. rewrite H1, H2, H3, H4, H5. split; assumption.
Qed.

Lemma proc_pending s u : pending (fst (proc s u)) = pending s.
Proof.
  unfold proc. destruct (handles s (u_key u)); destruct (u_flags u =? 0); cbn [fst]; try reflexivity;
    unfold set_handle, apply_call; cbn [pending]; try reflexivity;
    destruct (reg s (u_key u)) as [[g r]|]; reflexivity.
Qed.

Lemma drain_list_inv l : forall s k, InvL k s l -> InvL k (fst (drain_list s l)) [].
Proof.
  induction l as [|u r IH]; intros s k H; simpl; [exact H|].
  pose proof (proc_inv s u r k H) as H1.
  destruct (proc s u) as [s1 c1]. simpl in H1.
  specialize (IH s1 k H1). destruct (drain_list s1 r) as [s2 c2]. exact IH.
Qed.

Lemma drain_list_pending l : forall s, pending (fst (drain_list s l)) = pending s.
Proof.
  induction l as [|u r IH]; intros s; simpl; [reflexivity|].
  pose proof (proc_pending s u) as H1. destruct (proc s u) as [s1 c1]. simpl in H1.
  specialize (IH s1). destruct (drain_list s1 r) as [s2 c2]. simpl in *. congruence.
Qed.

Lemma drain_pending s : pending (fst (drain s)) = [].
Proof. unfold drain. rewrite drain_list_pending. reflexivity. Qed.

Lemma drain_inv s k : Inv k s -> Inv k (fst (drain s)).
Proof.
  intros H. unfold Inv. rewrite drain_pending. unfold drain. apply drain_list_inv. exact H.
Qed.

Lemma step_inv s o k : Inv k s -> Inv k (fst (step true s o)).
Proof.
  intros H. destruct o as [k1 f cbn|]; simpl.
  - pose proof (update_inv s k1 f cbn k H) as H1. destruct (update true s k1 f cbn). exact H1.
  - pose proof (drain_inv s k H) as H1. destruct (drain s). exact H1.
Qed.

Lemma run_inv ops : forall s k, Inv k s -> Inv k (fst (run true s ops)).
Proof.
  induction ops as [|o r IH]; intros s k H; simpl; [exact H|].
  pose proof (step_inv s o k H) as H1. destruct (step true s o) as [s1 x]. simpl in H1.
  specialize (IH s1 k H1). destruct (run true s1 r) as [s2 xs]. exact IH.
Qed.

Lemma inv_coherent s k : Inv k s -> pending s = [] -> coherent_at s k = true.
Proof.
  unfold Inv, InvL, coherent_at. intros [Hb HI] Hp. rewrite Hp in HI. rewrite Hb. cbn [negb andb].
  unfold pk in HI. simpl in HI.
  destruct (handles s k) as [hf|]; destruct (reg s k) as [[g rf]|]; try contradiction.
  - destruct HI as (Hg & Hr & Hw & [[_ Hwh]|Hx]); [|discriminate].
    apply Z.eqb_neq in Hw. rewrite Hw. subst. rewrite !Z.eqb_refl. reflexivity.
  - destruct HI as [n Hx]. simpl in Hx. discriminate.
  - destruct HI as [n Hx]. destruct n; [|simpl in Hx; discriminate].
    simpl in Hx. unfold tailw in Hx. destruct (want s k =? 0); [reflexivity | discriminate].
Qed.

(* Whenever the event thread has applied its update queue, every key is coherent: watched as
   the socket that is open now with the flags last asked for, or absent when closed; and no
   impossible backend call was ever made.  For every sequence of updates (any descriptor
   reuse, any interleaving of updates with the thread's drains). *)
Theorem evupd_coherent : forall ops k,
  let s := fst (run true init ops) in pending s = [] -> coherent_at s k = true.
Proof. intros ops k s Hp. apply inv_coherent; [apply run_inv; apply inv_init | exact Hp]. Qed.

Lemma run_app sk ops1 : forall s ops2,
  fst (run sk s (ops1 ++ ops2)) = fst (run sk (fst (run sk s ops1)) ops2).
Proof.
  induction ops1 as [|o r IH]; intros s ops2; simpl; [reflexivity|].
  destruct (step sk s o) as [s1 x]. specialize (IH s1 ops2).
  destruct (run sk s1 (r ++ ops2)) as [s2 xs]. destruct (run sk s1 r) as [s3 ys]. simpl in *. exact IH.
Qed.

Theorem evupd_coherent_after_drain : forall ops k,
  coherent_at (fst (run true init (ops ++ [ODrain]))) k = true.
Proof.
  intros ops k. rewrite run_app.
  set (s := fst (run true init ops)).
  assert (HI : Inv k s) by (apply run_inv; apply inv_init).
  simpl. pose proof (drain_inv s k HI) as H1. pose proof (drain_pending s) as H2.
  destruct (drain s) as [s' c]. simpl in *. apply inv_coherent; assumption.
Qed.

(* no impossible backend call at any time *)
Theorem evupd_never_bad : forall ops k, bad (fst (run true init ops)) k = false.
Proof. intros ops k. destruct (run_inv ops init k (inv_init k)) as [Hb _]. exact Hb. Qed.

(* merging a later update into a queued removal (ares_event_update_find not skipping removals)
   loses the registration of a reused descriptor: the new socket is never watched *)
Theorem evupd_merge_into_removal_refuted :
  exists ops k, coherent_at (fst (run false init (ops ++ [ODrain]))) k = false.
Proof.
  exists [OUpd (KSock 5) 1 false; ODrain; OUpd (KSock 5) 0 false; OUpd (KSock 5) 1 false], (KSock 5).
  vm_compute. reflexivity.
Qed.

(* non-vacuity: the descriptor-reuse history on the code's rule ends coherent, with a delete
   followed by an add at the backend *)
Example evupd_reuse_example :
  let r := run true init [OUpd (KSock 5) 1 false; ODrain; OUpd (KSock 5) 0 false; OUpd (KSock 5) 3 false; ODrain] in
  (snd r, coherent_at (fst r) (KSock 5))
  = ([RStatus 0; RCalls [CAdd (KSock 5) 1]; RStatus 0; RStatus 0; RCalls [CDel (KSock 5); CAdd (KSock 5) 3]], true).
Proof. vm_compute. reflexivity. Qed.
