(* Interleaving semantics of threads using one recursive lock (the channel lock) around
   accesses to shared fields.  A thread is a straight-line program of lock actions and field
   accesses (the abstraction of a public entry point: gen/lockfacts.py extracts exactly this
   shape from the C source).  Thread states are (depth of the lock held, remaining program);
   the owner of the lock is the unique thread with depth > 0. *)
From CAres.Base Require Export Outcome.
Local Open Scope nat_scope.

Inductive act := Acq | Rel | Acc (field : nat) (write : bool).
Definition prog := list act.

(* every access is inside the bracket, the lock is never released more often than taken,
   and it is released on exit *)
Fixpoint disciplined (d : nat) (p : prog) : bool :=
  match p with
  | [] => Nat.eqb d 0
  | Acq :: r => disciplined (S d) r
  | Rel :: r => match d with 0 => false | S d' => disciplined d' r end
  | Acc _ _ :: r => negb (Nat.eqb d 0) && disciplined d r
  end.

Definition tstate := (nat * prog)%type.
Definition sys := nat -> tstate.              (* thread id -> state *)

Definition upd (s : sys) (i : nat) (t : tstate) : sys := fun j => if Nat.eqb j i then t else s j.

(* thread i makes one step *)
Inductive step (s : sys) (i : nat) : sys -> Prop :=
| step_acq d r : s i = (d, Acq :: r) -> (forall j, j <> i -> fst (s j) = 0) -> step s i (upd s i (S d, r))
| step_rel d r : s i = (S d, Rel :: r) -> step s i (upd s i (d, r))
| step_acc d f w r : s i = (d, Acc f w :: r) -> step s i (upd s i (d, r)).

Inductive reach (s0 : sys) : sys -> Prop :=
| reach_refl : reach s0 s0
| reach_step s i s' : reach s0 s -> step s i s' -> reach s0 s'.

(* two threads are simultaneously about to touch the same field, at least one writing *)
Definition race (s : sys) : Prop :=
  exists i j f w1 w2 d1 r1 d2 r2, i <> j /\ s i = (d1, Acc f w1 :: r1) /\ s j = (d2, Acc f w2 :: r2) /\ (w1 || w2 = true).

Definition initial (progs : nat -> prog) : sys := fun i => (0, progs i).

Definition enabled (s : sys) (i : nat) : Prop := exists s', step s i s'.
Definition unfinished (s : sys) (i : nat) : Prop := snd (s i) <> [].

(* ares_queue_wait_empty: under the channel lock, loop while all_queries is non-empty; each
   iteration waits on the condition variable (releasing the lock) and then either observes the
   queue again or gives up because the timeout passed.  Result: (success?, length of the queue
   at the moment of return, lock held). *)
Inductive wait_obs := Woken (len : nat) | TimedOut.
Fixpoint wait_empty (len : nat) (obs : list wait_obs) : option (bool * nat) :=
  match len with
  | 0 => Some (true, 0)
  | S _ => match obs with
           | [] => None                            (* still blocked *)
           | TimedOut :: _ => Some (false, len)     (* ARES_ETIMEOUT *)
           | Woken l :: r => wait_empty l r
           end
  end.

(* the same loop without the second look: a wake-up is taken for proof that the queue drained *)
Definition wait_empty_norecheck (len : nat) (obs : list wait_obs) : option (bool * nat) :=
  match len with
  | 0 => Some (true, 0)
  | S _ => match obs with
           | [] => None
           | TimedOut :: _ => Some (false, len)
           | Woken l :: _ => Some (true, l)
           end
  end.

(* ---------------------------------------------------------------------------------------- *)
(* Waiters on the "queue empty" condition (ares_queue_wait_empty / ares_queue_notify_empty).
   [broadcast] selects what the notification does: wake every waiter (ares_thread_cond_broadcast,
   the code) or only one (ares_thread_cond_signal). *)
Record wq := mkWQ { w_len : nat;              (* outstanding requests *)
                    w_blocked : list nat }.   (* waiters blocked in cond_wait *)

Inductive wev :=
| WSubmit                 (* a request is accepted *)
| WEnter (i : nat)        (* thread i calls ares_queue_wait_empty *)
| WDone.                  (* a request completes; ares_queue_notify_empty runs *)

Definition wstep (broadcast : bool) (s : wq) (e : wev) : wq :=
  match e with
  | WSubmit => mkWQ (S (w_len s)) (w_blocked s)
  | WEnter i => match w_len s with
                | 0 => s                                   (* returns at once *)
                | S _ => mkWQ (w_len s) (i :: w_blocked s) (* blocks in cond_wait *)
                end
  | WDone => match w_len s with
             | 0 => s
             | 1 => mkWQ 0 (if broadcast then [] else tl (w_blocked s))   (* notify: queue is empty *)
             | S n => mkWQ n (w_blocked s)
             end
  end.

Definition wrun (broadcast : bool) (tr : list wev) : wq := fold_left (wstep broadcast) tr (mkWQ 0 []).
