(* C05 / C17 glue: the cookie decision inside the accept-path model (Accept.cookie_decide) agrees
   with the cookie component model of C17 (Cookie.cookie_validate), under the abstraction that
   forgets what the accept path never reads (client_ts, client_ip, the bytes of the server cookie
   buffer beyond server_len, the try counter's width). *)
From Coq Require Import ZArith List Bool Lia.
From CAres.Base Require Import Outcome CInt.
From CAres.Gen Require Import Consts LeafFns.
From CAres.Core Require Accept Cookie.
Import ListNotations.
Local Open Scope Z_scope.
Local Open Scope bool_scope.

Module A := Accept.
Module C := Cookie.

Definition rel_ck (a : A.cookie) (c : C.cookie) : Prop :=
  A.ck_state a = C.ck_state c /\ A.ck_client a = C.ck_client c /\
  A.ck_server a = firstn (C.ck_server_len c) (C.ck_server c) /\
  A.ck_uts_sec a = C.tv_sec (C.ck_unsup_ts c) /\ A.ck_uts_usec a = C.tv_usec (C.ck_unsup_ts c).

Definition req_of (reqc : option A.bytes) : C.req :=
  match reqc with Some c => C.OptCookie c | None => C.OptOnly end.

(* what the two models say, side by side *)
Definition agree (d : A.cdec) (status : Z) (rq : option (Z * Z)) : Prop :=
  match d with
  | A.COk => status = ARES_SUCCESS /\ rq = None
  | A.CDrop => status = ARES_EBADRESP /\ rq = None
  | A.CRequeue => status = ARES_EBADRESP /\ rq = Some (ARES_SUCCESS, ARES_FALSE)
  end.

Lemma bytes_eqb_same a b : A.bytes_eqb a b = C.bytes_eqb a b.
Proof. reflexivity. Qed.

Lemma zlen_same {T} (l : list T) : A.zlen l = C.zlen l.
Proof. reflexivity. Qed.

Lemma firstn_8_all (l : A.bytes) : A.zlen l = 8 -> firstn 8 l = l.
Proof.
  unfold A.zlen. intros H. apply firstn_all2. lia.
Qed.

Lemma firstn_app_exact {T} (s r : list T) : firstn (length s) (s ++ r) = s.
Proof. rewrite firstn_app, Nat.sub_diag, firstn_all. simpl. apply app_nil_r. Qed.

Local Arguments firstn : simpl never.
Local Arguments skipn : simpl never.
Local Arguments Z.pow : simpl never.

Theorem cookie_decide_agrees (a : A.cookie) (c : C.cookie) (reqc resp : option A.bytes)
        (rcode s u tr : Z) (tcp sent : bool) :
  rel_ck a c -> A.zlen (A.ck_client a) = 8 -> A.cookie_len_ok reqc = true ->
  C.norm_cookie resp = resp -> 0 <= tr < 2 ^ 64 - 1 ->
  exists a' d c' q' status rq,
    A.cookie_decide a reqc resp rcode s u = Ok (a', d) /\
    C.cookie_validate c (C.mkQ (req_of reqc) tr tcp sent) resp rcode (C.mkTv s u) = Ok (c', q', status, rq) /\
    rel_ck a' c' /\ agree d status rq /\
    (d <> A.CRequeue -> q' = C.mkQ (req_of reqc) tr tcp sent) /\
    (d = A.CRequeue -> C.q_try q' = tr + 1 /\
                       C.q_tcp q' = (if COOKIE_RESEND_MAX <=? tr + 1 then true else tcp)).
Proof.
  intros R L8 Lq Hn Htr.
  destruct R as [Rs [Rc [Rv [Ru1 Ru2]]]].
  unfold A.cookie_decide, C.cookie_validate. rewrite Hn.
  destruct resp as [pc|].
  - (* response carries a cookie *)
    change (C.zlen pc) with (A.zlen pc).
    replace (A.zlen pc >? 40) with (40 <? A.zlen pc) by (symmetry; apply Z.gtb_ltb).
    destruct ((A.zlen pc <? 8) || (40 <? A.zlen pc)) eqn:Elen.
    { do 6 eexists. split; [reflexivity|]. split; [reflexivity|].
      repeat split; auto; try discriminate. }
    apply orb_false_iff in Elen. destruct Elen as [L1 L2].
    apply Z.ltb_ge in L1. apply Z.ltb_ge in L2.
    destruct reqc as [rc|]; simpl req_of; simpl C.cookie_of.
    2:{ do 6 eexists. split; [reflexivity|]. split; [reflexivity|].
        repeat split; auto; try discriminate. }
    simpl in Lq. apply andb_true_iff in Lq. destruct Lq as [Lq1 Lq2].
    unfold A.memcmp8_eq. change (C.zlen rc) with (A.zlen rc). rewrite Lq1.
    assert ((8 <=? A.zlen pc) = true) as Lp by (apply Z.leb_le; lia). rewrite Lp. simpl.
    unfold A.first8. rewrite bytes_eqb_same.
    destruct (C.bytes_eqb (firstn 8 rc) (firstn 8 pc)) eqn:Eeq; simpl.
    2:{ do 6 eexists. split; [reflexivity|]. split; [reflexivity|].
        repeat split; auto; try discriminate. }
    replace (A.zlen pc >? 8) with (8 <? A.zlen pc) by (symmetry; apply Z.gtb_ltb).
    destruct (8 <? A.zlen pc) eqn:E8.
    + (* a server cookie: SUPPORTED, learn it if the client cookie is still ours *)
      assert ((8 <=? A.zlen (A.ck_client a)) = true) as Lc by (apply Z.leb_le; lia).
      rewrite Lc. simpl.
      assert ((A.zlen pc - 8 <=? 32) = true) as L32 by (apply Z.leb_le; lia).
      rewrite L32. simpl.
      rewrite (firstn_8_all _ L8). rewrite bytes_eqb_same. rewrite Rc.
      destruct (C.bytes_eqb (C.ck_client c) (firstn 8 rc)) eqn:Esame; simpl.
      * destruct (rcode =? ARES_RCODE_BADCOOKIE) eqn:Ebc.
        -- do 6 eexists. split; [reflexivity|]. split; [reflexivity|].
           split.
           { unfold rel_ck, A.skip8; simpl. repeat split; auto. symmetry. apply firstn_app_exact. }
           split; [split; reflexivity|]. split; [intros X; now contradiction X|].
           intros _. simpl. rewrite Z.mod_small by lia. split; [reflexivity|].
           replace (tr + 1 >=? COOKIE_RESEND_MAX) with (COOKIE_RESEND_MAX <=? tr + 1) by (symmetry; apply Z.geb_leb).
           reflexivity.
        -- do 6 eexists. split; [reflexivity|]. split; [reflexivity|].
           split.
           { unfold rel_ck, A.skip8; simpl. repeat split; auto. symmetry. apply firstn_app_exact. }
           split; [split; reflexivity|]. split; [reflexivity|discriminate].
      * destruct (rcode =? ARES_RCODE_BADCOOKIE) eqn:Ebc.
        -- do 6 eexists. split; [reflexivity|]. split; [reflexivity|].
           split; [unfold rel_ck; simpl; repeat split; auto|].
           split; [split; reflexivity|]. split; [intros X; now contradiction X|].
           intros _. simpl. rewrite Z.mod_small by lia. split; [reflexivity|].
           replace (tr + 1 >=? COOKIE_RESEND_MAX) with (COOKIE_RESEND_MAX <=? tr + 1) by (symmetry; apply Z.geb_leb).
           reflexivity.
        -- do 6 eexists. split; [reflexivity|]. split; [reflexivity|].
           split; [unfold rel_ck; simpl; repeat split; auto|].
           split; [split; reflexivity|]. split; [reflexivity|discriminate].
    + (* client cookie only *)
      simpl.
      destruct (rcode =? ARES_RCODE_BADCOOKIE) eqn:Ebc.
      * do 6 eexists. split; [reflexivity|]. split; [reflexivity|].
        split; [unfold rel_ck; repeat split; auto|].
        split; [split; reflexivity|]. split; [intros X; now contradiction X|].
        intros _. simpl. rewrite Z.mod_small by lia. split; [reflexivity|].
        replace (tr + 1 >=? COOKIE_RESEND_MAX) with (COOKIE_RESEND_MAX <=? tr + 1) by (symmetry; apply Z.geb_leb).
        reflexivity.
      * unfold C.validate_lacking, C.timeval_is_set. rewrite <- Rs, <- Ru1, <- Ru2.
        change ARES_COOKIE_SUPPORTED with C05_COOKIE_SUPPORTED.
        change ARES_COOKIE_GENERATED with C05_COOKIE_GENERATED.
        destruct (A.ck_state a =? C05_COOKIE_SUPPORTED) eqn:Esup.
        -- destruct (c_timeval_is_set (A.ck_uts_sec a) (A.ck_uts_usec a)) as [r| |] eqn:Et; simpl.
           ++ change ARES_FALSE with 0.
              destruct (r =? 0); simpl; do 6 eexists; (split; [reflexivity|]); (split; [reflexivity|]);
                (split; [unfold rel_ck; simpl; repeat split; auto|]);
                (split; [split; reflexivity|]); (split; [reflexivity|discriminate]).
           ++ exfalso. unfold c_timeval_is_set in Et.
              match type of Et with (if ?b then _ else _) = _ => destruct b end; discriminate.
           ++ exfalso. unfold c_timeval_is_set in Et.
              match type of Et with (if ?b then _ else _) = _ => destruct b end; discriminate.
        -- destruct (A.ck_state a =? C05_COOKIE_GENERATED); simpl;
             do 6 eexists; (split; [reflexivity|]); (split; [reflexivity|]);
             (split; [unfold rel_ck; simpl; repeat split; auto|]);
             (split; [split; reflexivity|]); (split; [reflexivity|discriminate]).
  - (* no cookie in the response *)
    simpl.
    destruct reqc as [rc|]; simpl req_of; simpl C.cookie_of.
    2:{ do 6 eexists. split; [reflexivity|]. split; [reflexivity|].
        repeat split; auto; try discriminate. }
    simpl.
    destruct (rcode =? ARES_RCODE_BADCOOKIE) eqn:Ebc.
    + do 6 eexists. split; [reflexivity|]. split; [reflexivity|].
      split; [unfold rel_ck; repeat split; auto|].
      split; [split; reflexivity|]. split; [reflexivity|discriminate].
    + unfold C.validate_lacking, C.timeval_is_set. rewrite <- Rs, <- Ru1, <- Ru2.
      change ARES_COOKIE_SUPPORTED with C05_COOKIE_SUPPORTED.
      change ARES_COOKIE_GENERATED with C05_COOKIE_GENERATED.
      destruct (A.ck_state a =? C05_COOKIE_SUPPORTED) eqn:Esup.
      * destruct (c_timeval_is_set (A.ck_uts_sec a) (A.ck_uts_usec a)) as [r| |] eqn:Et; simpl.
        -- change ARES_FALSE with 0.
           destruct (r =? 0); simpl; do 6 eexists; (split; [reflexivity|]); (split; [reflexivity|]);
             (split; [unfold rel_ck; simpl; repeat split; auto|]);
             (split; [split; reflexivity|]); (split; [reflexivity|discriminate]).
        -- exfalso. unfold c_timeval_is_set in Et.
           match type of Et with (if ?b then _ else _) = _ => destruct b end; discriminate.
        -- exfalso. unfold c_timeval_is_set in Et.
           match type of Et with (if ?b then _ else _) = _ => destruct b end; discriminate.
      * destruct (A.ck_state a =? C05_COOKIE_GENERATED); simpl;
          do 6 eexists; (split; [reflexivity|]); (split; [reflexivity|]);
          (split; [unfold rel_ck; simpl; repeat split; auto|]);
          (split; [split; reflexivity|]); (split; [reflexivity|discriminate]).
Qed.
