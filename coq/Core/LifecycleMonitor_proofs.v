(* The executable monitor and its declarative reading coincide. *)
From Coq Require Import List ZArith Lia Bool Arith.
Import ListNotations.
From CAres.Core Require Import LifecycleMonitor.

Lemma flat_map_nil_iff {A B} (f : A -> list B) l :
  flat_map f l = [] <-> forall x, In x l -> f x = [].
Proof.
  induction l as [|a l IH]; simpl.
  - split; intros; auto; contradiction.
  - split.
    + intros H x [Hx|Hx].
      * subst. apply app_eq_nil in H. tauto.
      * apply app_eq_nil in H. apply IH; tauto.
    + intros H. rewrite (H a (or_introl eq_refl)). simpl. apply IH. intros; apply H; auto.
Qed.

Lemma monitor_ok_pos tr :
  callback_monitor tr = VOk <-> forall i, i < length tr -> pos_check tr i = None.
Proof.
  unfold callback_monitor, violations.
  split.
  - intros H i Hi.
    destruct (flat_map _ _) eqn:E; try discriminate.
    rewrite flat_map_nil_iff in E.
    specialize (E i). rewrite in_seq in E.
    assert (Hin : 0 <= i < 0 + length tr) by lia.
    specialize (E Hin). destruct (pos_check tr i); auto; discriminate.
  - intros H.
    assert (E : flat_map (fun i => match pos_check tr i with Some v => [v] | None => [] end)
                  (seq 0 (length tr)) = []).
    { apply flat_map_nil_iff. intros i Hi. apply in_seq in Hi. rewrite H by lia. reflexivity. }
    rewrite E. reflexivity.
Qed.

Lemma firstn_app_exact {A} (l1 l2 : list A) : firstn (length l1) (l1 ++ l2) = l1.
Proof. rewrite firstn_app, Nat.sub_diag, firstn_all. simpl. apply app_nil_r. Qed.

Lemma nth_error_app_exact {A} (l1 l2 : list A) x : nth_error (l1 ++ x :: l2) (length l1) = Some x.
Proof. rewrite nth_error_app2 by lia. rewrite Nat.sub_diag. reflexivity. Qed.

Lemma split_at {A} (l : list A) i x :
  nth_error l i = Some x -> l = firstn i l ++ x :: skipn (S i) l /\ length (firstn i l) = i.
Proof.
  revert i; induction l as [|a l IH]; intros [|i] H; simpl in *; try discriminate.
  - inversion H; subst. auto.
  - destruct (IH _ H) as [E L]. split; [f_equal; exact E | f_equal; exact L].
Qed.

Lemma existsb_false_not_in (f : event -> bool) e l :
  f e = true -> existsb f l = false -> ~ In e l.
Proof.
  intros He H Hin. assert (existsb f l = true) by (apply existsb_exists; eauto). congruence.
Qed.

Lemma in_req_tokens t tr : In t (req_tokens tr) <-> In (EvReq t) tr.
Proof.
  unfold req_tokens. rewrite in_flat_map. split.
  - intros [e [He Ht]]. destruct e; simpl in Ht; try contradiction.
    destruct Ht as [Ht|[]]. subst. exact He.
  - intros H. exists (EvReq t). simpl. auto.
Qed.

Lemma find_none_iff {A} (f : A -> bool) l : find f l = None <-> forall x, In x l -> f x = false.
Proof.
  induction l as [|a l IH]; simpl.
  - split; intros; auto; contradiction.
  - destruct (f a) eqn:E.
    + split; [discriminate|]. intros H. specialize (H a (or_introl eq_refl)). congruence.
    + rewrite IH. split.
      * intros H x [Hx|Hx]; subst; auto.
      * intros H x Hx. apply H; auto.
Qed.

(* last_cancel_begin on before ++ CB :: mid with no CB in mid *)
Lemma last_cancel_begin_acc pre i acc :
  (forall e, In e pre -> is_cancel_begin e = false) -> last_cancel_begin pre i acc = acc.
Proof.
  revert i acc; induction pre as [|e r IH]; intros i acc H; simpl; auto.
  rewrite (H e (or_introl eq_refl)). apply IH. intros; apply H; simpl; auto.
Qed.

Lemma last_cancel_begin_app before mid i acc :
  ~ In EvCancelBegin mid ->
  last_cancel_begin (before ++ EvCancelBegin :: mid) i acc = Some (i + length before).
Proof.
  revert i acc; induction before as [|e r IH]; intros i acc H; simpl.
  - rewrite last_cancel_begin_acc; [f_equal; lia|].
    intros e He. destruct e; simpl; auto. contradiction.
  - rewrite IH by assumption. f_equal; lia.
Qed.

Lemma last_cancel_begin_some pre i acc j :
  last_cancel_begin pre i acc = Some j ->
  (acc = Some j /\ forall e, In e pre -> is_cancel_begin e = false) \/
  (exists before mid, pre = before ++ EvCancelBegin :: mid /\ ~ In EvCancelBegin mid /\ j = i + length before).
Proof.
  revert i acc; induction pre as [|e r IH]; intros i acc H; simpl in *.
  - left; split; auto. intros; contradiction.
  - apply IH in H. destruct H as [[Hacc Hno]|[before [mid [E [Hn Hj]]]]].
    + destruct (is_cancel_begin e) eqn:Ee.
      * right. exists [], r. destruct e; simpl in Ee; try discriminate.
        inversion Hacc; subst. split; [reflexivity|]. split.
        { intros Hin. specialize (Hno _ Hin). discriminate. }
        { simpl. lia. }
      * left. split; auto. intros e' [He'|He']; subst; auto.
    + right. exists (e :: before), mid. subst. repeat split; auto. simpl. lia.
Qed.

Theorem monitor_sound tr : callback_monitor tr = VOk -> trace_ok tr.
Proof.
  rewrite monitor_ok_pos. intros H. repeat split.
  - (* at_most_once *)
    intros pre t st post E. subst tr.
    specialize (H (length pre)). rewrite app_length in H. simpl in H.
    assert (Hl : length pre < length pre + S (length post)) by lia. specialize (H Hl).
    unfold pos_check in H. rewrite nth_error_app_exact, firstn_app_exact in H.
    destruct (existsb is_destroy_end pre); try discriminate.
    destruct (count_cb pre t <? count_req pre t) eqn:C; try discriminate.
    apply Nat.ltb_lt in C. exact C.
  - (* none_after_destroy *)
    intros pre t st post E. subst tr.
    specialize (H (length pre)). rewrite app_length in H. simpl in H.
    assert (Hl : length pre < length pre + S (length post)) by lia. specialize (H Hl).
    unfold pos_check in H. rewrite nth_error_app_exact, firstn_app_exact in H.
    destruct (existsb is_destroy_end pre) eqn:X; try discriminate.
    apply (existsb_false_not_in is_destroy_end); auto.
  - (* complete_at_destroy *)
    intros pre e post E He t Ht. subst tr.
    specialize (H (length pre)). rewrite app_length in H. simpl in H.
    assert (Hl : length pre < length pre + S (length post)) by lia. specialize (H Hl).
    unfold pos_check in H. rewrite nth_error_app_exact, firstn_app_exact in H.
    assert (F : find (incomplete pre) (req_tokens pre) = None).
    { destruct He; subst e; destruct (find (incomplete pre) (req_tokens pre)); auto; discriminate. }
    rewrite find_none_iff in F. specialize (F t). rewrite in_req_tokens in F. specialize (F Ht).
    unfold incomplete in F. apply negb_false_iff in F. apply Nat.eqb_eq in F. exact F.
  - (* complete_at_cancel *)
    intros before mid post E Hn t Ht. subst tr.
    set (pre := before ++ EvCancelBegin :: mid).
    assert (Etr : before ++ EvCancelBegin :: mid ++ EvCancelEnd :: post = pre ++ EvCancelEnd :: post).
    { unfold pre. rewrite <- app_assoc. reflexivity. }
    rewrite Etr in H.
    specialize (H (length pre)). rewrite app_length in H. simpl in H.
    assert (Hl : length pre < length pre + S (length post)) by lia. specialize (H Hl).
    unfold pos_check in H. rewrite nth_error_app_exact, firstn_app_exact in H.
    unfold pre in H at 1. rewrite last_cancel_begin_app in H by assumption. simpl in H.
    assert (Ef : firstn (length before) (pre ++ EvCancelEnd :: post) = before).
    { unfold pre. rewrite <- app_assoc. apply firstn_app_exact. }
    rewrite Ef in H.
    simpl in H.
    destruct (find _ _) eqn:F in H; try discriminate.
    rewrite find_none_iff in F. specialize (F t). rewrite in_req_tokens in F. specialize (F Ht).
    apply Nat.ltb_ge in F. exact F.
Qed.

Theorem monitor_complete tr : trace_ok tr -> callback_monitor tr = VOk.
Proof.
  intros [H1 [H2 [H3 H4]]]. apply monitor_ok_pos. intros i Hi.
  unfold pos_check.
  destruct (nth_error tr i) as [e|] eqn:E; auto.
  destruct (split_at _ _ _ E) as [Etr Elen].
  set (pre := firstn i tr) in *. set (post := skipn (S i) tr) in *.
  destruct e; auto.
  - (* EvCb *)
    specialize (H1 _ _ _ _ Etr). specialize (H2 _ _ _ _ Etr).
    destruct (existsb is_destroy_end pre) eqn:X.
    + apply existsb_exists in X. destruct X as [e [He1 He2]]. destruct e; simpl in He2; try discriminate.
      contradiction.
    + apply Nat.ltb_lt in H1. rewrite H1. reflexivity.
  - (* EvCancelEnd *)
    destruct (last_cancel_begin pre 0 None) as [j|] eqn:L; auto.
    apply last_cancel_begin_some in L.
    destruct L as [[L _]|[before [mid [Ep [Hn Hj]]]]]; [discriminate|].
    simpl in Hj. subst j.
    assert (Ef : firstn (length before) tr = before).
    { rewrite Etr, Ep, <- app_assoc. apply firstn_app_exact. }
    rewrite Ef.
    simpl.
    assert (Etr' : tr = before ++ EvCancelBegin :: mid ++ EvCancelEnd :: post).
    { rewrite Etr at 1. rewrite Ep, <- app_assoc. reflexivity. }
    specialize (H4 _ _ _ Etr' Hn).
    destruct (find _ _) eqn:F; auto.
    apply find_some in F. destruct F as [F1 F2].
    apply in_req_tokens in F1. specialize (H4 _ F1).
    apply Nat.ltb_lt in F2. rewrite Ep in F2. lia.
  - (* EvDestroyEnd *)
    destruct (find _ _) eqn:F; auto.
    apply find_some in F. destruct F as [F1 F2].
    apply in_req_tokens in F1.
    specialize (H3 _ _ _ Etr (or_introl eq_refl) _ F1).
    unfold incomplete in F2. rewrite H3, Nat.eqb_refl in F2. discriminate.
  - (* EvEnd *)
    destruct (find _ _) eqn:F; auto.
    apply find_some in F. destruct F as [F1 F2].
    apply in_req_tokens in F1.
    specialize (H3 _ _ _ Etr (or_intror eq_refl) _ F1).
    unfold incomplete in F2. rewrite H3, Nat.eqb_refl in F2. discriminate.
Qed.

Theorem monitor_ok_iff tr : callback_monitor tr = VOk <-> trace_ok tr.
Proof. split; [apply monitor_sound | apply monitor_complete]. Qed.

(* ---- the status clauses ---- *)
Lemma status_monitor_ok_pos tr :
  status_monitor tr = VOk <-> forall i, i < length tr -> status_check tr i = None.
Proof.
  unfold status_monitor, status_violations.
  split.
  - intros H i Hi.
    destruct (flat_map _ _) eqn:E; try discriminate.
    rewrite flat_map_nil_iff in E.
    specialize (E i). rewrite in_seq in E.
    assert (Hin : 0 <= i < 0 + length tr) by lia.
    specialize (E Hin). destruct (status_check tr i); auto; discriminate.
  - intros H.
    assert (E : flat_map (fun i => match status_check tr i with Some v => [v] | None => [] end)
                  (seq 0 (length tr)) = []).
    { apply flat_map_nil_iff. intros i Hi. apply in_seq in Hi. rewrite H by lia. reflexivity. }
    rewrite E. reflexivity.
Qed.

Lemma last_pos_acc p pre i acc :
  (forall e, In e pre -> p e = false) -> last_pos p pre i acc = acc.
Proof.
  revert i acc; induction pre as [|e r IH]; intros i acc H; simpl; auto.
  rewrite (H e (or_introl eq_refl)). apply IH. intros; apply H; simpl; auto.
Qed.

Lemma last_pos_app p before x mid i acc :
  p x = true -> (forall e, In e mid -> p e = false) ->
  last_pos p (before ++ x :: mid) i acc = Some (i + length before).
Proof.
  revert i acc; induction before as [|e r IH]; intros i acc Hx H; simpl.
  - rewrite Hx. rewrite last_pos_acc; [f_equal; lia|exact H].
  - rewrite IH by assumption. f_equal; lia.
Qed.

Lemma last_pos_some p pre i acc j :
  last_pos p pre i acc = Some j ->
  (acc = Some j /\ forall e, In e pre -> p e = false) \/
  (exists before x mid, pre = before ++ x :: mid /\ p x = true /\ (forall e, In e mid -> p e = false) /\ j = i + length before).
Proof.
  revert i acc; induction pre as [|e r IH]; intros i acc H; simpl in *.
  - left; split; auto. intros; contradiction.
  - apply IH in H. destruct H as [[Hacc Hno]|[before [x [mid [E [Hx [Hn Hj]]]]]]].
    + destruct (p e) eqn:Ee.
      * right. exists [], e, r. inversion Hacc; subst. repeat split; auto; try (simpl; lia).
      * left. split; auto. intros e' [He'|He']; subst; auto.
    + right. exists (e :: before), x, mid. subst. repeat split; auto; try (simpl; lia).
Qed.

Lemma existsb_false_all (f : event -> bool) l : existsb f l = false <-> forall e, In e l -> f e = false.
Proof.
  induction l as [|a l IH]; simpl.
  - split; intros; auto; contradiction.
  - rewrite orb_false_iff, IH. split.
    + intros [H1 H2] e [<-|He]; auto.
    + intros H. split; [apply H; auto|intros e He; apply H; auto].
Qed.

Lemma is_req_of_in t l : existsb (is_req_of t) l = true <-> In (EvReq t) l.
Proof.
  rewrite existsb_exists. split.
  - intros [e [He Hr]]. destruct e; simpl in Hr; try discriminate. apply Nat.eqb_eq in Hr. subst. exact He.
  - intros H. exists (EvReq t). split; auto. simpl. apply Nat.eqb_refl.
Qed.

Lemma skipn_app_exact {A} (l1 l2 : list A) : skipn (length l1) (l1 ++ l2) = l2.
Proof. rewrite skipn_app, Nat.sub_diag, skipn_all. reflexivity. Qed.

Lemma is_cb_false_not_in mid : (forall e, In e mid -> is_cancel_begin e = false) <-> ~ In EvCancelBegin mid.
Proof.
  split.
  - intros H Hin. specialize (H _ Hin). discriminate.
  - intros H e He. destruct e; auto. contradiction.
Qed.
Lemma is_db_false_not_in mid : (forall e, In e mid -> is_destroy_begin e = false) <-> ~ In EvDestroyBegin mid.
Proof.
  split.
  - intros H Hin. specialize (H _ Hin). discriminate.
  - intros H e He. destruct e; auto. contradiction.
Qed.
Lemma is_ce_false_not_in mid : (forall e, In e mid -> is_cancel_end e = false) <-> ~ In EvCancelEnd mid.
Proof.
  split.
  - intros H Hin. specialize (H _ Hin). discriminate.
  - intros H e He. destruct e; auto. contradiction.
Qed.

Theorem status_monitor_sound tr : status_monitor tr = VOk -> status_ok tr.
Proof.
  rewrite status_monitor_ok_pos. intros H. split.
  - intros before mid t st post E Hn Hne Ht. subst tr.
    set (pre := before ++ EvCancelBegin :: mid).
    assert (Etr : before ++ EvCancelBegin :: mid ++ EvCb t st :: post = pre ++ EvCb t st :: post).
    { unfold pre. rewrite <- app_assoc. reflexivity. }
    rewrite Etr in H.
    specialize (H (length pre)). rewrite app_length in H. simpl in H.
    assert (Hl : length pre < length pre + S (length post)) by lia. specialize (H Hl).
    unfold status_check in H. rewrite nth_error_app_exact, firstn_app_exact in H.
    assert (C : cancel_bad pre t st = negb (Z.eqb st ST_CANCELLED)).
    { unfold cancel_bad, pre. rewrite (last_pos_app is_cancel_begin before EvCancelBegin mid 0 None eq_refl).
      2:{ apply is_cb_false_not_in. exact Hn. }
      simpl Nat.add. rewrite skipn_app_exact, firstn_app_exact.
      assert (X : existsb is_cancel_end (EvCancelBegin :: mid) = false).
      { simpl. apply existsb_false_all. apply is_ce_false_not_in. exact Hne. }
      rewrite X. simpl negb. rewrite (proj2 (is_req_of_in t before) Ht). reflexivity. }
    rewrite C in H. destruct (Z.eqb st ST_CANCELLED) eqn:Es; [apply Z.eqb_eq in Es; exact Es|discriminate].
  - intros before mid t st post E Hn Hd Ht. subst tr.
    set (pre := before ++ EvDestroyBegin :: mid).
    assert (Etr : before ++ EvDestroyBegin :: mid ++ EvCb t st :: post = pre ++ EvCb t st :: post).
    { unfold pre. rewrite <- app_assoc. reflexivity. }
    rewrite Etr in H.
    specialize (H (length pre)). rewrite app_length in H. simpl in H.
    assert (Hl : length pre < length pre + S (length post)) by lia. specialize (H Hl).
    unfold status_check in H. rewrite nth_error_app_exact, firstn_app_exact in H.
    assert (C : destroy_bad pre t st = negb (Z.eqb st ST_DESTRUCTION || Z.eqb st ST_CANCELLED)).
    { unfold destroy_bad, pre. rewrite (last_pos_app is_destroy_begin before EvDestroyBegin mid 0 None eq_refl).
      2:{ apply is_db_false_not_in. exact Hn. }
      simpl Nat.add.
      assert (Es : skipn (S (length before)) (before ++ EvDestroyBegin :: mid) = mid).
      { replace (S (length before)) with (length (before ++ [EvDestroyBegin])) by (rewrite app_length; simpl; lia).
        replace (before ++ EvDestroyBegin :: mid) with ((before ++ [EvDestroyBegin]) ++ mid) by (rewrite <- app_assoc; reflexivity).
        apply skipn_app_exact. }
      rewrite Es, firstn_app_exact.
      rewrite (proj2 (existsb_false_all disturbs mid) Hd). simpl negb.
      rewrite (proj2 (is_req_of_in t before) Ht). reflexivity. }
    destruct (cancel_bad pre t st); [discriminate|].
    rewrite C in H.
    destruct (Z.eqb st ST_DESTRUCTION) eqn:E1; [left; apply Z.eqb_eq in E1; exact E1|].
    destruct (Z.eqb st ST_CANCELLED) eqn:E2; [right; apply Z.eqb_eq in E2; exact E2|discriminate].
Qed.

Theorem status_monitor_complete tr : status_ok tr -> status_monitor tr = VOk.
Proof.
  intros [H1 H2]. apply status_monitor_ok_pos. intros i Hi.
  unfold status_check.
  destruct (nth_error tr i) as [e|] eqn:E; auto.
  destruct (split_at _ _ _ E) as [Etr Elen].
  set (pre := firstn i tr) in *. set (post := skipn (S i) tr) in *.
  destruct e; auto.
  assert (C1 : cancel_bad pre t st = false).
  { unfold cancel_bad. destruct (last_pos is_cancel_begin pre 0 None) as [j|] eqn:L; auto.
    apply last_pos_some in L. destruct L as [[L _]|[before [x [mid [Ep [Hx [Hn Hj]]]]]]]; [discriminate|].
    simpl in Hj. subst j. destruct x; simpl in Hx; try discriminate.
    rewrite Ep, skipn_app_exact, firstn_app_exact.
    destruct (existsb is_cancel_end (EvCancelBegin :: mid)) eqn:X; [reflexivity|]. simpl negb.
    destruct (existsb (is_req_of t) before) eqn:Y; [|reflexivity]. simpl andb.
    simpl in X. rewrite existsb_false_all in X.
    assert (Etr' : tr = before ++ EvCancelBegin :: mid ++ EvCb t st :: post).
    { rewrite Etr at 1. rewrite Ep, <- app_assoc. reflexivity. }
    rewrite (H1 _ _ _ _ _ Etr' (proj1 (is_cb_false_not_in mid) Hn) (proj1 (is_ce_false_not_in mid) X) (proj1 (is_req_of_in t before) Y)).
    reflexivity. }
  rewrite C1.
  assert (C2 : destroy_bad pre t st = false).
  { unfold destroy_bad. destruct (last_pos is_destroy_begin pre 0 None) as [j|] eqn:L; auto.
    apply last_pos_some in L. destruct L as [[L _]|[before [x [mid [Ep [Hx [Hn Hj]]]]]]]; [discriminate|].
    simpl in Hj. subst j. destruct x; simpl in Hx; try discriminate.
    assert (Es : skipn (S (length before)) pre = mid).
    { rewrite Ep.
      replace (S (length before)) with (length (before ++ [EvDestroyBegin])) by (rewrite app_length; simpl; lia).
      replace (before ++ EvDestroyBegin :: mid) with ((before ++ [EvDestroyBegin]) ++ mid) by (rewrite <- app_assoc; reflexivity).
      apply skipn_app_exact. }
    rewrite Es. rewrite Ep at 1. rewrite firstn_app_exact.
    destruct (existsb disturbs mid) eqn:X; [reflexivity|]. simpl negb.
    destruct (existsb (is_req_of t) before) eqn:Y; [|reflexivity]. simpl andb.
    rewrite existsb_false_all in X.
    assert (Etr' : tr = before ++ EvDestroyBegin :: mid ++ EvCb t st :: post).
    { rewrite Etr at 1. rewrite Ep, <- app_assoc. reflexivity. }
    destruct (H2 _ _ _ _ _ Etr' (proj1 (is_db_false_not_in mid) Hn) X (proj1 (is_req_of_in t before) Y)) as [->| ->]; reflexivity. }
  rewrite C2. reflexivity.
Qed.

Theorem status_monitor_ok_iff tr : status_monitor tr = VOk <-> status_ok tr.
Proof. split; [apply status_monitor_sound | apply status_monitor_complete]. Qed.

Example status_monitor_rejects :
  status_monitor [EvReq 1; EvCancelBegin; EvCb 1 0%Z; EvCancelEnd; EvEnd] = VBad (VWrongStatusAtCancel 1 0%Z)
  /\ status_monitor [EvReq 1; EvDestroyBegin; EvCb 1 0%Z; EvDestroyEnd; EvEnd] = VBad (VWrongStatusAtDestroy 1 0%Z)
  /\ status_monitor [EvReq 1; EvReq 2; EvDestroyBegin; EvCb 1 16%Z; EvReq 3; EvCb 3 11%Z; EvCb 2 11%Z; EvDestroyEnd; EvEnd] = VOk.
Proof. vm_compute. repeat split. Qed.

(* the hypotheses are satisfiable by a non-trivial trace, and the monitor does reject *)
Example trace_ok_example :
  trace_ok [EvReq 1; EvReq 2; EvCb 1 0%Z; EvCancelBegin; EvCb 2 24%Z; EvCancelEnd; EvDestroyBegin; EvDestroyEnd; EvEnd].
Proof. apply monitor_ok_iff. vm_compute. reflexivity. Qed.

Example monitor_rejects_twice :
  callback_monitor [EvReq 1; EvCb 1 0%Z; EvCb 1 24%Z; EvEnd] = VBad (VDup 1).
Proof. vm_compute. reflexivity. Qed.
