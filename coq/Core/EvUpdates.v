(* Event-handle registration of the built-in event thread
   (src/lib/event/ares_event_thread.c: ares_event_update_find, ares_event_update,
    ares_event_process_updates, ares_event_destroy_cb).

   Client threads (through the channel's socket-state callback) queue updates under the event
   thread's mutex; the event thread applies the queue to its table of registered handles and
   to the event backend before every wait.  A handle is a socket (keyed by its descriptor
   number) or a custom handle (keyed by its data pointer).  flags = 0 is a removal.

   Descriptor numbers are reused by the OS: a connection is closed and a new socket gets the
   same number before the event thread has applied the removal.  What must hold after the
   queue is applied: every socket the channel wants watched is registered with the backend
   *as the socket that is open now* (its incarnation), with the flags last asked for, and no
   closed socket is left in the table.  The world of sockets is ghost state of the model:
     gen k    incarnation number of key k (bumped when a closed descriptor is opened again)
     want k   flags the channel last asked for (0 = closed)
     reg k    what the backend/kernel has: Some (incarnation, flags); the kernel drops the
              registration when the socket is closed (epoll/kqueue semantics; for poll/select
              the table itself is the registration)
     bad k    a backend call that cannot succeed was made: modify of something the backend
              does not have (EPOLL_CTL_MOD -> ENOENT: the socket is never watched), or add of
              something it already has (EEXIST)

   [skipdel] is the rule of ares_event_update_find: a queued removal is never merged with a
   later update of the same key (true = the code). *)
From CAres.Base Require Export Outcome.
Local Open Scope Z_scope.

Inductive key := KSock (fd : Z) | KCust (data : Z).

Definition key_eqb (a b : key) : bool :=
  match a, b with
  | KSock x, KSock y => x =? y
  | KCust x, KCust y => x =? y
  | _, _ => false
  end.

Record upd := mkU { u_key : key; u_flags : Z }.

Inductive call := CAdd (k : key) (f : Z) | CMod (k : key) (f : Z) | CDel (k : key).

Record st := mkS { pending : list upd;               (* e->ev_updates, oldest first *)
                   handles : key -> option Z;        (* ev_sock_handles / ev_cust_handles: flags *)
                   reg : key -> option (Z * Z);
                   gen : key -> Z;
                   want : key -> Z;
                   bad : key -> bool }.

Definition fupd {A} (f : key -> A) (k : key) (v : A) : key -> A :=
  fun k' => if key_eqb k' k then v else f k'.

Definition init : st := mkS [] (fun _ => None) (fun _ => None) (fun _ => 0) (fun _ => 0) (fun _ => false).

Definition EV_READ := 1.
Definition EV_WRITE := 2.
Definition EV_OTHER := 4.
Definition ST_SUCCESS := 0.
Definition ST_EFORMERR := 2.

(* ares_event_update_find + the assignment ev->flags = flags: replace the flags of the first
   queued update of this key (that is not a removal, when skipdel); None = no such update *)
Fixpoint find_set (skipdel : bool) (k : key) (f : Z) (l : list upd) : option (list upd) :=
  match l with
  | [] => None
  | u :: r =>
      if key_eqb (u_key u) k && (negb skipdel || negb (u_flags u =? 0))
      then Some (mkU k f :: r)
      else match find_set skipdel k f r with Some r' => Some (u :: r') | None => None end
  end.

(* argument validation of ares_event_update *)
Definition update_status (k : key) (flags : Z) (cbnull : bool) : Z :=
  if negb (flags =? 0) && cbnull then ST_EFORMERR
  else match k with
       | KCust _ => if negb (Z.land flags (EV_READ + EV_WRITE) =? 0) then ST_EFORMERR
                    else if Z.land flags EV_OTHER =? 0 then ST_EFORMERR else ST_SUCCESS
       | KSock _ => if negb (Z.land flags EV_OTHER =? 0) then ST_EFORMERR else ST_SUCCESS
       end.

(* ares_event_update (allocation assumed to succeed).  Ghost: an accepted removal closes the
   socket (the kernel forgets it); an accepted update of a closed key opens a new incarnation. *)
Definition update (skipdel : bool) (s : st) (k : key) (flags : Z) (cbnull : bool) : Z * st :=
  let stt := update_status k flags cbnull in
  if negb (stt =? ST_SUCCESS) then (stt, s)
  else
    let p := match find_set skipdel k flags (pending s) with
             | Some l => l
             | None => pending s ++ [mkU k flags]
             end in
    if flags =? 0
    then (stt, mkS p (handles s) (fupd (reg s) k None) (gen s) (fupd (want s) k 0) (bad s))
    else (stt, mkS p (handles s) (reg s)
                   (if want s k =? 0 then fupd (gen s) k (gen s k + 1) else gen s)
                   (fupd (want s) k flags) (bad s)).

(* what a backend call does to the backend's registrations *)
Definition apply_call (s : st) (c : call) : st :=
  match c with
  | CAdd k f => mkS (pending s) (handles s) (fupd (reg s) k (Some (gen s k, f))) (gen s) (want s)
                    (match reg s k with Some _ => fupd (bad s) k true | None => bad s end)
  | CMod k f => match reg s k with
                | Some (g, _) => mkS (pending s) (handles s) (fupd (reg s) k (Some (g, f))) (gen s) (want s) (bad s)
                | None => mkS (pending s) (handles s) (reg s) (gen s) (want s) (fupd (bad s) k true)
                end
  | CDel k => mkS (pending s) (handles s) (fupd (reg s) k None) (gen s) (want s) (bad s)
  end.

Definition set_handle (s : st) (k : key) (v : option Z) : st :=
  mkS (pending s) (fupd (handles s) k v) (reg s) (gen s) (want s) (bad s).

(* one iteration of the loop of ares_event_process_updates on the claimed update u
   (event_add assumed to succeed) *)
Definition proc (s : st) (u : upd) : st * list call :=
  let k := u_key u in
  match handles s k with
  | None =>
      if u_flags u =? 0 then (s, [])                       (* removal of something not registered *)
      else (set_handle (apply_call s (CAdd k (u_flags u))) k (Some (u_flags u)), [CAdd k (u_flags u)])
  | Some _ =>
      if u_flags u =? 0
      then (set_handle (apply_call s (CDel k)) k None, [CDel k])   (* ares_event_destroy_cb -> event_del *)
      else (set_handle (apply_call s (CMod k (u_flags u))) k (Some (u_flags u)), [CMod k (u_flags u)])
  end.

Definition set_pending (s : st) (p : list upd) : st :=
  mkS p (handles s) (reg s) (gen s) (want s) (bad s).

Fixpoint drain_list (s : st) (l : list upd) : st * list call :=
  match l with
  | [] => (s, [])
  | u :: r => let '(s1, c1) := proc s u in
              let '(s2, c2) := drain_list s1 r in (s2, c1 ++ c2)
  end.

(* ares_event_process_updates *)
Definition drain (s : st) : st * list call := drain_list (set_pending s []) (pending s).

Inductive op :=
| OUpd (k : key) (flags : Z) (cbnull : bool)     (* ares_event_update / the socket-state callback *)
| ODrain.                                         (* the event thread applies the queue *)

Inductive out := RStatus (st : Z) | RCalls (c : list call).

Definition step (skipdel : bool) (s : st) (o : op) : st * out :=
  match o with
  | OUpd k f cbn => let '(r, s') := update skipdel s k f cbn in (s', RStatus r)
  | ODrain => let '(s', c) := drain s in (s', RCalls c)
  end.

Fixpoint run (skipdel : bool) (s : st) (ops : list op) : st * list out :=
  match ops with
  | [] => (s, [])
  | o :: r => let '(s1, x) := step skipdel s o in
              let '(s2, xs) := run skipdel s1 r in (s2, x :: xs)
  end.

(* registration is coherent for key k: watched as the socket open now with the flags asked
   for, or neither in the table nor at the backend when closed; and no impossible backend call *)
Definition coherent_at (s : st) (k : key) : bool :=
  negb (bad s k) &&
  (if want s k =? 0
   then match handles s k, reg s k with None, None => true | _, _ => false end
   else match handles s k, reg s k with
        | Some hf, Some (g, rf) => (hf =? want s k) && (rf =? want s k) && (g =? gen s k)
        | _, _ => false
        end).

(* ---------------------------------------------------------------------------------------- *)
(* Monitor for an implementation's trace: the world (gen/want and the kernel dropping closed
   sockets) follows the accepted updates; the backend registrations follow the calls the
   implementation made to its backend; the table is what the implementation reports.        *)
Definition mon_update (s : st) (k : key) (flags : Z) (status : Z) : st :=
  if negb (status =? ST_SUCCESS) then s
  else if flags =? 0
  then mkS [] (handles s) (fupd (reg s) k None) (gen s) (fupd (want s) k 0) (bad s)
  else mkS [] (handles s) (reg s)
           (if want s k =? 0 then fupd (gen s) k (gen s k + 1) else gen s)
           (fupd (want s) k flags) (bad s).

Definition mon_calls (s : st) (cs : list call) : st := fold_left apply_call cs s.

Definition mon_table (s : st) (tbl : list (key * Z)) : st :=
  mkS (pending s)
      (fun k => match find (fun e => key_eqb (fst e) k) tbl with Some e => Some (snd e) | None => None end)
      (reg s) (gen s) (want s) (bad s).
