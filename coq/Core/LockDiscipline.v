(* The lock-discipline check over the facts regenerated from the C source
   (coq/Gen/LockFacts.v, produced by gen/lockfacts.py on every run). *)
From Coq Require Import String List Bool.
From CAres.Gen Require Import LockFacts.
Import ListNotations.
Local Open Scope string_scope.

Definition mem (x : string) (l : list string) : bool := existsb (String.eqb x) l.

(* object construction / destruction: exclusive use is the API contract (no other thread may
   use a channel before ares_init_options returned it or once ares_destroy was called) *)
Definition exclusive_by_contract : list string := ["ares_destroy"; "ares_init_options"; "ares_init"].

(* fields written only while the channel is being constructed (before any other thread can
   hold it), hence readable without the lock: the option mask and the lock objects themselves *)
Definition immutable_after_init : list string := ["optmask"; "lock"; "cond_empty"].

(* callees that may receive the channel outside the bracket: they take the lock themselves
   (they are analysed functions), or they never touch channel state *)
Definition stateless_callees : list string :=
  ["ares_thread_create"; "ares_thread_join"; "ares_save_options_nolock" (* called inside the bracket only; listed for its NULL-channel early path *);
   "ares_sconfig_append_fromstr"; "ares_init_sysconfig_files"; "ares_event_thread_wake";
   "ares_thread_cond_broadcast" (* in ares_queue_notify_empty, which is only called inside the bracket *);
   "ares_llist_len"].

Definition analysed (name : string) : bool := existsb (fun f => String.eqb name (lf_name f)) lock_facts.

(* internal helpers analysed only for the calls they make; all their callers (end_query,
   ares_cancel, ares_destroy) run inside the bracket *)
Definition inside_bracket_only : list string := ["ares_queue_notify_empty"].

Definition fact_ok (f : lockfact) : bool :=
  lf_balanced f &&
  (mem (lf_name f) exclusive_by_contract || mem (lf_name f) inside_bracket_only ||
   (forallb (fun fld => mem fld immutable_after_init) (lf_unlocked_fields f) &&
    forallb (fun c => analysed c || mem c stateless_callees) (lf_unlocked_calls f))).

(* no function calls, while holding the event-thread mutex, anything that takes the channel
   lock: the only lock order is  channel lock -> event mutex  (sock_state_cb -> ares_event_update) *)
Definition takes_channel_lock (name : string) : bool :=
  existsb (fun f => String.eqb name (lf_name f) && lf_takes_lock f) lock_facts.

Definition mutex_order_ok (f : lockfact) : bool :=
  forallb (fun c => negb (takes_channel_lock c)) (lf_mutex_calls f).

(* the "queue empty" notification wakes ALL waiters (Locks.no_lost_wakeup needs the broadcast) *)
Definition notify_broadcasts : bool :=
  existsb (fun f => String.eqb (lf_name f) "ares_queue_notify_empty" &&
                    mem "ares_thread_cond_broadcast" (lf_unlocked_calls f ++ lf_locked_calls f)) lock_facts.

Definition discipline_ok : bool :=
  notify_broadcasts &&
  forallb fact_ok lock_facts && forallb mutex_order_ok lock_facts &&
  match lock_facts_missing with [] => true | _ => false end &&
  (* the analysis found the entry points at all *)
  Nat.leb 40 (List.length lock_facts).
