(* C06: the generated ares_calc_query_timeout has no undefined behaviour and respects the
   wait bounds, for every value of its inputs.  These proofs are about the text generated from
   the CURRENT tree; they hold for the fixed code (fixes/C06-shift.patch) and break on the
   pinned code, whose defects are recorded as theorems in CalcPinned.v. *)
From CAres.Base Require Import CInt.
From CAres.Gen Require Import Consts LeafFns.
From CAres.Core Require Import Time Time_proofs Calc.
Local Open Scope Z_scope.

Ltac Zify.zify_post_hook ::= Z.div_mod_to_equations.

Lemma shiftr_max rounds : 0 <= rounds ->
  Z.shiftr (Z.shiftr 18446744073709551615 1) rounds = (2 ^ 63 - 1) / 2 ^ rounds.
Proof. intros H. rewrite Z.shiftr_div_pow2 by exact H. reflexivity. Qed.

Lemma pow2_pos n : 0 <= n -> 0 < 2 ^ n.
Proof. intros. apply Z.pow_pos_nonneg; lia. Qed.

(* base > MAX >> rounds  <->  base * 2^rounds > MAX   (for rounds >= 0) *)
Lemma sat_test base rounds : 0 <= base -> 0 <= rounds ->
  (base >? (2 ^ 63 - 1) / 2 ^ rounds) = (base * 2 ^ rounds >? 2 ^ 63 - 1).
Proof.
  intros Hb Hr. pose proof (pow2_pos rounds Hr) as Hp.
  rewrite !Z.gtb_ltb.
  set (p := 2 ^ rounds) in *. set (M := 2 ^ 63 - 1) in *.
  destruct (Z.ltb_spec (M / p) base) as [H|H];
  destruct (Z.ltb_spec M (base * p)) as [H'|H']; try reflexivity; exfalso.
  - assert (base <= M / p) by (apply Z.div_le_lower_bound; [exact Hp | lia]). lia.
  - pose proof (Z.mul_div_le M p Hp). assert (p * base <= p * (M / p)) by (apply Z.mul_le_mono_nonneg_l; lia). lia.
Qed.

Definition size_t_ok (z : Z) : Prop := 0 <= z < 2 ^ 64.

(* ---- the generated function equals the specification, for ALL size_t inputs ---- *)
Theorem calc_equals_spec base num_servers try_count maxtimeout r fp :
  size_t_ok base -> size_t_ok num_servers -> size_t_ok try_count -> size_t_ok maxtimeout ->
  size_t_ok fp ->
  calc_query_timeout base num_servers try_count maxtimeout r fp
  = Ok (calc_spec base num_servers try_count maxtimeout fp).
Proof.
  unfold size_t_ok. intros [Hb Hb'] [Hs Hs'] [Ht Ht'] [Hm Hm'] [Hf Hf'].
  unfold calc_query_timeout, c_ares_calc_query_timeout, calc_spec, timeplus_capped, capped, doubled,
    rounds_of, MAX_TIMEPLUS, guard.
  cbv zeta.
  case_if; b2p; [subst; reflexivity|]. cbn [negb andb].
  assert (0 <= try_count / num_servers) as Hr by (apply Z.div_pos; lia).
  rewrite (shiftr_max _ Hr).
  rewrite (sat_test base _ Hb Hr).
  rewrite Z.shiftl_mul_pow2 by exact Hr.
  change (Z.shiftr 18446744073709551615 1) with (2 ^ 63 - 1).
  case_if; b2p.
  - (* rounds > 0 *)
    assert ((try_count / num_servers <=? 0) = false) as E0 by (apply Z.leb_gt; lia). rewrite E0.
    case_if.
    2: { exfalso. destruct (try_count / num_servers >=? 64) eqn:E64; cbn in C1; [discriminate|].
         b2p. solve_guard. }
    case_if.
    + repeat case_if; try reflexivity; exfalso; solve_guard.
    + b2p. rewrite (Z.mod_small (base * 2 ^ (try_count / num_servers))) by (pows; lia).
      case_if; [|exfalso; solve_guard].
      repeat case_if; try reflexivity; exfalso; solve_guard.
  - assert ((try_count / num_servers <=? 0) = true) as E0 by (apply Z.leb_le; lia). rewrite E0.
    repeat case_if; try reflexivity; exfalso; solve_guard.
Qed.

(* ---- no undefined behaviour, for every size_t value of every input ---- *)
Theorem calc_no_ub base num_servers try_count maxtimeout r fp :
  size_t_ok base -> size_t_ok num_servers -> size_t_ok try_count -> size_t_ok maxtimeout ->
  size_t_ok fp ->
  is_ub (calc_query_timeout base num_servers try_count maxtimeout r fp) = false.
Proof.
  intros. rewrite calc_equals_spec by assumption. reflexivity.
Qed.

Lemma doubled_range base rounds :
  0 <= base <= MAX_TIMEPLUS -> base <= doubled base rounds <= MAX_TIMEPLUS.
Proof.
  intros Hb. unfold doubled, MAX_TIMEPLUS in *.
  case_if; b2p; [lia|]. case_if; [lia|]. b2p.
  assert (1 <= 2 ^ rounds) by (pose proof (pow2_pos rounds); lia). nia.
Qed.

(* the doubling policy: one more pass over the server list never shortens the uncapped wait *)
Lemma doubled_mono base r1 r2 :
  0 <= base <= MAX_TIMEPLUS -> r1 <= r2 -> doubled base r1 <= doubled base r2.
Proof.
  intros Hb Hr. pose proof (doubled_range base r2 Hb) as R2.
  unfold doubled, MAX_TIMEPLUS in *.
  case_if; b2p; [lia|].
  assert ((r2 <=? 0) = false) as E by (apply Z.leb_gt; lia). rewrite E in *.
  assert (2 ^ r1 <= 2 ^ r2) as Hp by (apply Z.pow_le_mono_r; lia).
  assert (0 < 2 ^ r1) by (apply pow2_pos; lia).
  case_if.
  - case_if; [lia|]. b2p. destruct C0 as [C0|C0]; b2p; [lia|]. nia.
  - b2p. case_if; b2p; [lia | nia].
Qed.

Lemma capped_range maxtimeout tp base :
  0 <= maxtimeout -> base <= tp -> (maxtimeout <> 0 -> base <= maxtimeout) ->
  base <= capped maxtimeout tp <= tp /\ (maxtimeout <> 0 -> capped maxtimeout tp <= maxtimeout).
Proof.
  intros Hm Hb Hbm. unfold capped. case_if; b2p; lia.
Qed.

Lemma timeplus_capped_range base num_servers try_count maxtimeout :
  0 <= base <= MAX_TIMEPLUS -> 0 <= maxtimeout -> (maxtimeout <> 0 -> base <= maxtimeout) ->
  base <= timeplus_capped base num_servers try_count maxtimeout <= MAX_TIMEPLUS /\
  (maxtimeout <> 0 -> timeplus_capped base num_servers try_count maxtimeout <= maxtimeout).
Proof.
  intros Hb Hm Hbm. unfold timeplus_capped.
  pose proof (doubled_range base (rounds_of try_count num_servers) Hb) as Hd.
  destruct (capped_range maxtimeout (doubled base (rounds_of try_count num_servers)) base Hm (proj1 Hd) Hbm) as [Hc Hcm].
  split; [lia | exact Hcm].
Qed.

(* ---- wait bounds (C06): never below the base; never above the configured maximum; and in
        every case small enough for timeadd() to be exact ---- *)
Theorem calc_wait_bounds base num_servers try_count maxtimeout fp :
  1 <= num_servers -> 0 <= try_count ->
  0 <= base <= MAX_TIMEPLUS -> 0 <= maxtimeout -> (maxtimeout <> 0 -> base <= maxtimeout) ->
  jitter_ok base num_servers try_count maxtimeout fp ->
  let w := calc_spec base num_servers try_count maxtimeout fp in
  base <= w <= MAX_TIMEPLUS /\
  (maxtimeout <> 0 -> w <= maxtimeout) /\
  w <= timeplus_capped base num_servers try_count maxtimeout /\
  w = Z.max base (if rounds_of try_count num_servers >? 0
                  then timeplus_capped base num_servers try_count maxtimeout - fp
                  else timeplus_capped base num_servers try_count maxtimeout).
Proof.
  intros Hs Ht Hb Hm Hbm Hj. unfold jitter_ok in Hj. cbv zeta.
  pose proof (doubled_range base (rounds_of try_count num_servers) Hb) as Hd.
  destruct (capped_range maxtimeout (doubled base (rounds_of try_count num_servers)) base Hm (proj1 Hd) Hbm) as [Hc Hcm].
  unfold calc_spec. cbv zeta. unfold timeplus_capped in *.
  set (tp := capped maxtimeout (doubled base (rounds_of try_count num_servers))) in *.
  assert ((num_servers =? 0) = false) as E by (apply Z.eqb_neq; lia). rewrite E.
  unfold MAX_TIMEPLUS in *.
  assert ((tp - fp) mod 2 ^ 64 = tp - fp) as Emod by (apply Z.mod_small; pows; lia).
  destruct (rounds_of try_count num_servers >? 0) eqn:Er.
  - rewrite Emod. case_if; b2p; lia.
  - case_if; b2p; lia.
Qed.

(* Example: the hypotheses are satisfiable by a non-trivial configuration (4 servers, third
   pass, maxtimeout 10 s, base 2 s, jitter 1 s): the wait is 7 s *)
Example calc_example :
  jitter_ok 2000 4 9 10000 1000 /\ calc_query_timeout 2000 4 9 10000 12345 1000 = Ok 7000.
Proof. split; [unfold jitter_ok; vm_compute; split; discriminate | vm_compute; reflexivity]. Qed.

(* ---- one attempt: the deadline is exactly now + wait, strictly after now ---- *)
Theorem attempt_deadline_exact now base num_servers try_count maxtimeout r fp :
  tv_ok now -> tv_sec now < 2 ^ 61 ->
  1 <= num_servers < 2 ^ 64 -> 0 <= try_count < 2 ^ 64 ->
  1 <= base < 2 ^ 31 -> 0 <= maxtimeout < 2 ^ 31 -> (maxtimeout <> 0 -> base <= maxtimeout) ->
  jitter_ok base num_servers try_count maxtimeout fp ->
  exists w d, attempt_deadline now base num_servers try_count maxtimeout r fp = Ok (w, d) /\
    w = calc_spec base num_servers try_count maxtimeout fp /\
    base <= w /\ (maxtimeout <> 0 -> w <= maxtimeout) /\
    tv_ok d /\ tv_us d = tv_us now + w * 1000 /\ tv_us now < tv_us d.
Proof.
  intros Hn Hns Hs Ht Hb Hm Hbm Hj.
  pows. assert (0 <= base <= MAX_TIMEPLUS) as Hb' by (unfold MAX_TIMEPLUS; rewrite p63; lia).
  destruct (calc_wait_bounds base num_servers try_count maxtimeout fp) as (Hw & Hwm & Hwt & _); try lia; try assumption.
  set (w := calc_spec base num_servers try_count maxtimeout fp) in *.
  assert (size_t_ok fp) as Hfp.
  { destruct (timeplus_capped_range base num_servers try_count maxtimeout Hb' (proj1 Hm) Hbm) as [Hr _].
    unfold jitter_ok in Hj. unfold size_t_ok. unfold MAX_TIMEPLUS in *. pows. lia. }
  unfold attempt_deadline. rewrite calc_equals_spec; try assumption; try (unfold size_t_ok; pows; lia).
  cbn [bind]. fold w.
  destruct (timeadd_ok now w Hn Hns) as (d & Ed & Hd & Hv); [unfold MAX_TIMEPLUS in Hw; lia|].
  rewrite Ed. cbn [bind]. exists w, d.
  split; [reflexivity|]. split; [reflexivity|]. split; [lia|]. split; [assumption|].
  split; [exact Hd|]. split; [exact Hv|]. lia.
Qed.
