(* Composition of two component theorems: the deadline index of the channel
   (channel->queries_by_timeout) is a skip list (C19: Dsa/SList*.v) ordered by the comparator
   GENERATED from ares_query_timeout_cmp_cb (C07: Core/Time.v).  The skip-list refinement
   theorem needs a total preorder; C07_deadline_order_total_preorder provides it; hence after
   ANY sequence of insert / remove / reinsert operations on the index the forward walk is
   sorted by deadline, which is the hypothesis of C07_hint_sound.  So the hint computed by
   ares_timeout_int from the first element of the index is never later than ANY pending
   deadline - with no sortedness hypothesis left. *)
From CAres.Base Require Import Outcome.
From CAres.Core Require Import Time Time_proofs.
From CAres.Dsa Require Import SList SList_heap SList_proofs.
From Coq Require Import Sorted.
Local Open Scope Z_scope.

Definition deadline := { t : timeval | tv_ok t }.
Definition dl_tv (d : deadline) : timeval := proj1_sig d.

Definition dl_cmp (a b : deadline) : Z :=
  match query_timeout_cmp (dl_tv a) (dl_tv b) with Ok c => c | _ => 0 end.

Lemma dl_cmp_spec a b :
  exists c, query_timeout_cmp (dl_tv a) (dl_tv b) = Ok c /\ dl_cmp a b = c /\ dl_cmp b a = - c /\
            (c = -1 \/ c = 0 \/ c = 1).
Proof.
  destruct cmp_total_preorder as (_ & _ & _ & H4).
  destruct (H4 (dl_tv a) (dl_tv b) (proj2_sig a) (proj2_sig b)) as (c & E1 & Hc & E2 & _).
  exists c. unfold dl_cmp. rewrite E1, E2. auto.
Qed.

Lemma dl_cmp_leb a b : (dl_cmp a b <= 0) <-> cmp_leb (dl_tv a) (dl_tv b) = true.
Proof.
  destruct (dl_cmp_spec a b) as (c & E & Ec & _ & _). unfold cmp_leb. rewrite E, Ec.
  rewrite Z.leb_le. tauto.
Qed.

Lemma dl_cmp_anti : forall a b : deadline, (dl_cmp a b > 0) <-> (dl_cmp b a < 0).
Proof. intros a b. destruct (dl_cmp_spec a b) as (c & _ & -> & -> & _). lia. Qed.

Lemma dl_cmp_trans : forall a b c : deadline, dl_cmp a b <= 0 -> dl_cmp b c <= 0 -> dl_cmp a c <= 0.
Proof.
  intros a b c H1 H2. rewrite dl_cmp_leb in *.
  destruct cmp_total_preorder as (_ & Ht & _ & _).
  exact (Ht (dl_tv a) (dl_tv b) (dl_tv c) (proj2_sig a) (proj2_sig b) (proj2_sig c) H1 H2).
Qed.

Lemma sl_sorted_deadlines (l : list deadline) :
  sl_sorted dl_cmp l -> sorted_deadlines (map dl_tv l).
Proof.
  induction l as [|a t IH]; simpl; intros H; [constructor|].
  destruct H as [Hle Hs]. constructor; [apply IH; exact Hs|].
  rewrite Forall_forall. intros x Hx. apply in_map_iff in Hx. destruct Hx as (b & <- & Hb).
  apply dl_cmp_leb. apply Hle. exact Hb.
Qed.

Lemma deadlines_ok (l : list deadline) : Forall tv_ok (map dl_tv l).
Proof. rewrite Forall_forall. intros x Hx. apply in_map_iff in Hx. destruct Hx as (b & <- & _). exact (proj2_sig b). Qed.

(* the deadlines stored in the index after a run of operations, in walk order *)
Definition index_deadlines (l : list (nat * deadline)) : list timeval := map dl_tv (map snd l).

Theorem hint_sound_over_index : forall (ops : list (sl_op deadline)) now maxtv,
  tv_ok now -> maxtv_ok maxtv ->
  exists s0 rs s l,
    sl_create true true = Some s0 /\ sl_run_model dl_cmp s0 ops = Ok (rs, s) /\ sl_walk_fwd s = Ok l /\
    exists h, timeout_int (index_deadlines l) now maxtv = Ok h /\
      let v := hint_value h maxtv in
      (v = None <-> index_deadlines l = [] /\ maxtv = None) /\
      (forall t, v = Some t ->
         0 <= tv_sec t /\ 0 <= tv_usec t < 1000000 /\
         (forall d, In d (index_deadlines l) -> tv_us t <= Z.max 0 (tv_us d - tv_us now)) /\
         (forall m, maxtv = Some m -> tv_us t <= tv_us m)).
Proof.
  intros ops now maxtv Hnow Hmax.
  destruct (sl_sorted_stable dl_cmp dl_cmp_anti dl_cmp_trans ops) as (s0 & rs & s & E0 & E & Hw & _ & _ & Hs & _).
  exists s0, rs, s, (sp_l (snd (sl_run_spec dl_cmp sl_spec_create ops))).
  split; [exact E0|]. split; [exact E|]. split; [exact Hw|].
  destruct (timeout_int_sound (index_deadlines (sp_l (snd (sl_run_spec dl_cmp sl_spec_create ops)))) now maxtv Hnow
              (deadlines_ok _) (sl_sorted_deadlines _ Hs) Hmax) as (h & Eh & Hv).
  exists h. split; [exact Eh|]. cbv zeta in *. destruct Hv as (Hnone & Hsome).
  split; [exact Hnone|]. intros t Ht. destruct (Hsome t Ht) as (A & B & C & D & _). auto.
Qed.
