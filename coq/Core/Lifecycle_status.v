(* C01: the status with which a request ends inside ares_destroy() (and inside an ares_cancel() made
   from one of its callbacks): as long as no callback has made a request or changed the servers,
   every callback carries ARES_EDESTRUCTION or ARES_ECANCELLED.  A closure that is invoked with one
   of these two results delivers it unchanged (wrappers, search, gethostbyaddr / getnameinfo,
   getaddrinfo / gethostbyname), and nothing else is invoked.  No invariant is needed: the pass is
   about partial correctness only (Lifecycle_shape.pc), a run that hits undefined behaviour or stops
   is not looked at. *)
From Coq Require Import List ZArith Lia Bool Arith.
Import ListNotations.
From CAres.Base Require Import Outcome.
From CAres.Gen Require Import Consts.
From CAres.Core Require Import LifecycleMonitor Lifecycle Lifecycle_inv Lifecycle_proofs Lifecycle_shape.

Lemma st_consts : ST_CANCELLED = ARES_ECANCELLED /\ ST_DESTRUCTION = ARES_EDESTRUCTION.
Proof. split; reflexivity. Qed.

Definition goodst (st : Z) : Prop := st = ARES_EDESTRUCTION \/ st = ARES_ECANCELLED.
Definition goodev (e : event) : Prop := match e with EvCb _ st => goodst st | _ => True end.
Definition clean (l : list event) : Prop := forall x, In x l -> disturbs x = false.
(* the trace is kept newest first: add = l1 ++ e :: l2 means l2 was emitted before e *)
Definition pgood (add : list event) : Prop := forall l1 e l2, add = l1 ++ e :: l2 -> clean l2 -> goodev e.
Definition dpost {A} (s : state) : A -> state -> Prop :=
  fun _ s' => exists add, st_trace s' = add ++ st_trace s /\ pgood add.
Definition goodr (r : result) : Prop := exists st, r = res st /\ goodst st.

Lemma pgood_nil : pgood [].
Proof. intros l1 e l2 E. destruct l1; discriminate. Qed.

Lemma pgood_tl x a : pgood (x :: a) -> pgood a.
Proof. intros H l1 e l2 E. apply (H (x :: l1) e l2). simpl. rewrite E. reflexivity. Qed.

Lemma pgood_app a2 a1 : pgood a2 -> pgood a1 -> pgood (a2 ++ a1).
Proof.
  induction a2 as [|x a2 IH]; intros H2 H1; simpl; [exact H1|].
  intros l1 e l2 E Hc. destruct l1 as [|y l1]; simpl in E.
  - inversion E; subst. apply (H2 [] e a2 eq_refl). intros z Hz. apply Hc. apply in_or_app. auto.
  - inversion E; subst. apply (IH (pgood_tl _ _ H2) H1 l1 e l2 H3 Hc).
Qed.

Lemma pgood_one e : goodev e -> pgood [e].
Proof. intros H l1 x l2 E _. destruct l1 as [|y l1]; [inversion E; subst; exact H|]. inversion E. destruct l1; discriminate. Qed.

(* once a disturbing event has been emitted nothing is claimed about what follows *)
Lemma pgood_vac add e : disturbs e = true -> pgood (add ++ [e]).
Proof.
  intros Hd l1 x l2 E Hc.
  destruct l2 as [|z l2] using rev_ind.
  - assert (E' : add ++ [e] = l1 ++ [x]) by exact E. apply app_inj_tail in E'. destruct E' as [_ <-].
    destruct e; simpl in Hd; try discriminate; exact I.
  - clear IHl2. exfalso.
    assert (E' : add ++ [e] = (l1 ++ x :: l2) ++ [z]) by (rewrite E, <- app_assoc; reflexivity).
    apply app_inj_tail in E'. destruct E' as [_ <-].
    assert (Hin : In e (l2 ++ [e])) by (apply in_or_app; right; left; reflexivity).
    rewrite (Hc _ Hin) in Hd. discriminate.
Qed.

Lemma dpost_refl {A} (a : A) s : dpost s a s.
Proof. exists []. split; [reflexivity|apply pgood_nil]. Qed.

Lemma dpost_trans {A B} (a : A) (b : B) s s1 s2 : dpost s a s1 -> dpost s1 b s2 -> dpost s b s2.
Proof.
  intros [a1 [E1 G1]] [a2 [E2 G2]]. exists (a2 ++ a1). rewrite E2, E1, app_assoc. split; [reflexivity|].
  apply pgood_app; auto.
Qed.

Lemma dpost_vac {A} (a : A) s e s1 s2 :
  st_trace s1 = e :: st_trace s -> disturbs e = true -> (exists add, st_trace s2 = add ++ st_trace s1) -> dpost s a s2.
Proof.
  intros E1 Hd [add E2]. exists (add ++ [e]). rewrite E2, E1, <- app_assoc. split; [reflexivity|].
  apply pgood_vac. exact Hd.
Qed.

(* ---- quiet computations: the trace is not touched ---- *)
Definition Quiet {A} (m : M A) : Prop := forall s, pc m s (fun _ s' => st_trace s' = st_trace s).
Definition Dk {A} (m : M A) : Prop := forall s, pc m s (dpost s).

Lemma quiet_dk {A} (m : M A) : Quiet m -> Dk m.
Proof.
  intros Q s. specialize (Q s). unfold pc in *. destruct (m s) as [[a s1]| |]; auto.
  exists []. split; [exact Q|apply pgood_nil].
Qed.

Lemma quiet_ret {A} (a : A) : Quiet (ret a).
Proof. intros s. reflexivity. Qed.
Lemma quiet_fail {A} e : Quiet (@fail A e).
Proof. intros s. exact I. Qed.
Lemma quiet_bind {A B} (m : M A) (k : A -> M B) : Quiet m -> (forall a, Quiet (k a)) -> Quiet (mbind m k).
Proof.
  intros Hm Hk s. specialize (Hm s). unfold pc, mbind in *.
  destruct (m s) as [[a s1]| |]; auto. specialize (Hk a s1). unfold pc in Hk.
  destruct (k a s1) as [[b s2]| |]; auto. congruence.
Qed.
Lemma quiet_get : Quiet get.
Proof. intros s. reflexivity. Qed.
Lemma quiet_peek : Quiet peek.
Proof. intros s. reflexivity. Qed.
Lemma quiet_peek2 : Quiet peek2.
Proof. intros s. reflexivity. Qed.
Lemma quiet_pop : Quiet pop.
Proof. intros s. unfold pc, pop. destruct (st_tape s); simpl; auto. Qed.
Lemma quiet_alloc c : Quiet (alloc c).
Proof. intros s. reflexivity. Qed.
Lemma quiet_touch o : Quiet (touch o).
Proof. intros s. unfold pc, touch. destruct (memb o (st_freed s)); auto. destruct (lookup o (st_cells s)); auto. Qed.
Lemma quiet_free o : Quiet (free_obj o).
Proof. intros s. unfold pc, free_obj. destruct (memb o (st_freed s)); auto. destruct (lookup o (st_cells s)); simpl; auto. Qed.
Lemma quiet_modify g : (forall s, st_trace (g s) = st_trace s) -> Quiet (modify g).
Proof. intros H s. apply H. Qed.
Lemma quiet_find_conn sock : Quiet (find_conn_by_sock sock).
Proof. intros s. reflexivity. Qed.

Ltac quiet1 :=
  match goal with
  | |- Quiet (mbind _ _) => apply quiet_bind; [|intros]
  | |- Quiet (ret _) => apply quiet_ret
  | |- Quiet (fail _) => apply quiet_fail
  | |- Quiet get => apply quiet_get
  | |- Quiet peek => apply quiet_peek
  | |- Quiet peek2 => apply quiet_peek2
  | |- Quiet pop => apply quiet_pop
  | |- Quiet (alloc _) => apply quiet_alloc
  | |- Quiet (touch _) => apply quiet_touch
  | |- Quiet (free_obj _) => apply quiet_free
  | |- Quiet (find_conn_by_sock _) => apply quiet_find_conn
  | |- Quiet (modify _) => apply quiet_modify; intros; reflexivity
  | |- Quiet (if ?b then _ else _) => destruct b
  | |- Quiet (match ?x with _ => _ end) => destruct x
  | |- Quiet (let (_, _) := ?x in _) => destruct x
  | |- Quiet (let _ := _ in _) => cbv zeta
  end.
Ltac quiet := repeat (quiet1 || assumption).

Lemma quiet_store o c : Quiet (store o c).
Proof. unfold store. quiet. Qed.
Lemma quiet_get_query o : Quiet (get_query o).
Proof. unfold get_query. quiet. Qed.
Lemma quiet_get_conn o : Quiet (get_conn o).
Proof. unfold get_conn. quiet. Qed.
Lemma quiet_get_host o : Quiet (get_host o).
Proof. unfold get_host. quiet. Qed.
Lemma quiet_unlink qo : Quiet (unlink_conn_node qo).
Proof.
  intros s. unfold pc, unlink_conn_node. destruct (find _ _) as [co|]; [|reflexivity].
  assert (P : Quiet (let! c := get_conn co in store co (CConn (set_c_queries (remove_nat qo (c_queries c)) c)))).
  { apply quiet_bind; [apply quiet_get_conn|intros; apply quiet_store]. }
  exact (P s).
Qed.

Ltac quiet2 :=
  match goal with
  | |- Quiet (store _ _) => apply quiet_store
  | |- Quiet (get_query _) => apply quiet_get_query
  | |- Quiet (get_conn _) => apply quiet_get_conn
  | |- Quiet (get_host _) => apply quiet_get_host
  | |- Quiet (unlink_conn_node _) => apply quiet_unlink
  | _ => quiet1
  end.
Ltac quiet' := repeat (quiet2 || assumption).

Lemma quiet_remove_from_conn qo : Quiet (remove_from_conn qo).
Proof. unfold remove_from_conn. quiet'. Qed.
Lemma quiet_detach qo : Quiet (detach_query qo).
Proof. unfold detach_query. apply quiet_bind; [apply quiet_remove_from_conn|intros]. quiet'. Qed.
Lemma quiet_mark l : Quiet (mark_cancelled l).
Proof. induction l; simpl; quiet'. Qed.
Lemma quiet_expect_TCL sock : Quiet (expect_TCL sock).
Proof. unfold expect_TCL. quiet'. Qed.
Lemma quiet_take_script t : Quiet (take_script t).
Proof. intros s. unfold pc, take_script. destruct (lookup t (st_scripts s)); reflexivity. Qed.

(* ---- Dk ---- *)
Lemma dk_ret {A} (a : A) : Dk (ret a).
Proof. apply quiet_dk, quiet_ret. Qed.
Lemma dk_fail {A} e : Dk (@fail A e).
Proof. apply quiet_dk, quiet_fail. Qed.
Lemma dk_bind {A B} (m : M A) (k : A -> M B) : Dk m -> (forall a, Dk (k a)) -> Dk (mbind m k).
Proof.
  intros Hm Hk s. specialize (Hm s). unfold pc, mbind in *.
  destruct (m s) as [[a s1]| |]; auto. specialize (Hk a s1). unfold pc in Hk.
  destruct (k a s1) as [[b s2]| |]; auto. eapply dpost_trans; eauto.
Qed.
Lemma dk_emit_good e : goodev e -> Dk (emit e).
Proof. intros H s. unfold pc, emit, modify. exists [e]. split; [reflexivity|apply pgood_one; exact H]. Qed.

(* a computation that starts by emitting a disturbing event *)
Lemma dk_disturbed {A} e (m : M A) : disturbs e = true -> Pres m -> Dk (emit e ;; m).
Proof.
  intros Hd P s. unfold pc, mbind, emit, modify.
  set (s1 := set_trace (e :: st_trace s) s).
  pose proof (P s1 s1 (R_refl s1)) as H. unfold pc in H.
  destruct (m s1) as [[a s2]| |]; auto.
  destruct H as [_ [nw [E _]]].
  eapply (dpost_vac a s e s1 s2); [reflexivity|exact Hd|exists nw; exact E].
Qed.

Lemma pc_get_conn s co (Q : conn -> state -> Prop) :
  (forall c, cell_of s co = Some (CConn c) -> Q c s) -> pc (get_conn co) s Q.
Proof.
  intros H. unfold pc, get_conn, mbind, touch. destruct (memb co (st_freed s)); auto.
  unfold cell_of in H. destruct (lookup co (st_cells s)) as [[q|c|h|]|]; simpl; auto.
Qed.

Section StatusD.
Variable cf : config.
Hypothesis Hfix : cf_fix cf = all_fixed.

(* closing a connection without queries runs no callback *)
Lemma close_idle_quiet f co st s c : cell_of s co = Some (CConn c) -> c_queries c = [] ->
  pc (close_connection cf f co st) s (fun _ s' => st_trace s' = st_trace s).
Proof.
  intros Hc Hq. destruct f as [|f]; [exact I|]. simpl.
  apply pc_bind. apply pc_get_conn. intros c0 Hc0. apply pc_bind. apply pc_modify.
  set (s1 := set_conns (remove_nat co (st_conns s)) s).
  assert (Hc1 : cell_of s1 co = Some (CConn c)) by exact Hc.
  apply pc_bind.
  assert (Rq : pc (requeue_conn_queries cf f f co st) s1 (fun _ s' => s' = s1)).
  { destruct f as [|f']; [exact I|]. simpl. apply pc_bind. apply pc_get_conn. intros c1 Hc1'.
    rewrite Hc1 in Hc1'. inversion Hc1'; subst c1. rewrite Hq. apply pc_ret. reflexivity. }
  eapply pc_mono; [exact Rq|]. intros [] s2 ->.
  assert (Qr : Quiet (let! c2 := get_conn co in expect_TCL (c_sock c2) ;;
                      (if fx_connread (cf_fix cf) && c_reading c2 then store co (CConn (set_c_closed true c2)) else free_obj co))).
  { apply quiet_bind; [apply quiet_get_conn|intros]. apply quiet_bind; [apply quiet_expect_TCL|intros].
    destruct (fx_connread (cf_fix cf) && c_reading a); [apply quiet_store|apply quiet_free]. }
  exact (Qr s1).
Qed.

Definition wrap_res (w : wkind) (r : result) : result :=
  match w with
  | WQQuery => if zeqb (r_status r) ARES_SUCCESS
               then match r_rec r with Some (rc, an, _) => {| r_status := tostatus rc an; r_rec := r_rec r |} | None => r end
               else r
  | WNameinfo namereqd =>
      if zeqb (r_status r) ARES_SUCCESS then r
      else if zeqb (r_status r) ARES_ENOTFOUND && negb namereqd then res ARES_SUCCESS else res (r_status r)
  | _ => r end.

(* every wrapper, getnameinfo's with or without ARES_NI_NAMEREQD included, passes
   ARES_ECANCELLED / ARES_EDESTRUCTION on unchanged *)
Lemma wrap_good w r : goodr r -> wrap_res w r = r.
Proof. intros [st [-> [->| ->]]]; destruct w; reflexivity. Qed.

(* ... so a wrapped closure that receives one of them hands exactly that result to the closure inside *)
Lemma invoke_wrap_good f w o k r : goodr r ->
  invoke cf (S f) (KWrap w o k) r = (let! _ := touch o in invoke cf f k r ;; free_obj o).
Proof.
  intros Hg. change (invoke cf (S f) (KWrap w o k) r) with (let! _ := touch o in invoke cf f k (wrap_res w r) ;; free_obj o).
  rewrite (wrap_good w r Hg). reflexivity.
Qed.

(* and the application's callback receives it *)
Lemma invoke_user_status f t st :
  invoke cf (S f) (KUser t) (res st) = (emit (EvCb t st) ;; let! sc := take_script t in run_script cf f sc).
Proof. reflexivity. Qed.

Record Dspecs (f : nat) : Prop := {
  d_invoke : forall k r, goodr r -> Dk (invoke cf f k r);
  d_run_script : forall sc, Dk (run_script cf f sc);
  d_api : forall c, Dk (api cf f c);
  d_complete_query : forall qo r, goodr r -> Dk (complete_query cf f qo r);
  d_cancel : Dk (cancel cf f);
  d_cancel_loop : forall n, Dk (cancel_loop_fixed cf f n);
  d_check_cleanup : Dk (check_cleanup cf f);
  d_cleanup_loop : forall n, Dk (cleanup_loop cf f n);
  d_search_callback : forall o k cs l nd r, goodr r -> Dk (search_callback cf f o k cs l nd r);
  d_end_squery : forall o k r, goodr r -> Dk (end_squery cf f o k r);
  d_addr_callback : forall o k l r, goodr r -> Dk (addr_callback cf f o k l r);
  d_end_aquery : forall o k r, goodr r -> Dk (end_aquery cf f o k r);
  d_host_callback : forall o r, goodr r -> Dk (host_callback cf f o r);
  d_end_hquery : forall o st, goodst st -> Dk (end_hquery cf f o st)
}.

Lemma dspecs_O : Dspecs 0.
Proof. constructor; intros; apply dk_fail. Qed.

Ltac dk1 :=
  match goal with
  | |- Dk (mbind _ _) => apply dk_bind; [|intros]
  | |- Dk (ret _) => apply dk_ret
  | |- Dk (fail _) => apply dk_fail
  | |- Dk (touch _) => apply quiet_dk, quiet_touch
  | |- Dk (free_obj _) => apply quiet_dk, quiet_free
  | |- Dk (get_query _) => apply quiet_dk, quiet_get_query
  | |- Dk (get_host _) => apply quiet_dk, quiet_get_host
  | |- Dk (get_conn _) => apply quiet_dk, quiet_get_conn
  | |- Dk (store _ _) => apply quiet_dk, quiet_store
  | |- Dk get => apply quiet_dk, quiet_get
  | |- Dk pop => apply quiet_dk, quiet_pop
  | |- Dk peek => apply quiet_dk, quiet_peek
  | |- Dk (alloc _) => apply quiet_dk, quiet_alloc
  | |- Dk (detach_query _) => apply quiet_dk, quiet_detach
  | |- Dk (release_query _) => apply quiet_dk, quiet_free
  | |- Dk (take_script _) => apply quiet_dk, quiet_take_script
  | |- Dk (mark_cancelled _) => apply quiet_dk, quiet_mark
  | |- Dk (modify _) => apply quiet_dk, quiet_modify; intros; reflexivity
  end.
Ltac dk := repeat (dk1 || assumption).

Lemma goodr_res st : goodst st -> goodr (res st).
Proof. intros H. exists st. auto. Qed.

Lemma dspecs_S f : Dspecs f -> Dspecs (S f).
Proof.
  intros IH. pose proof (all_shape cf f) as SH. constructor.
  - (* invoke *)
    intros k r Hg. destruct k as [t| |w o k'|o k' cs l nd|o k' l|o]; simpl.
    + apply dk_bind; [|intros _].
      * apply dk_emit_good. destruct Hg as [st [-> Hs]]. exact Hs.
      * dk. apply (d_run_script _ IH).
    + apply dk_ret.
    + change (Dk (let! _ := touch o in invoke cf f k' (wrap_res w r) ;; free_obj o)).
      rewrite (wrap_good w r Hg). dk. apply (d_invoke _ IH); exact Hg.
    + apply (d_search_callback _ IH); exact Hg.
    + apply (d_addr_callback _ IH); exact Hg.
    + apply (d_host_callback _ IH); exact Hg.
  - (* run_script *)
    intros sc. destruct sc as [|c rest]; simpl; [apply dk_ret|]. dk; [apply (d_api _ IH)|apply (d_run_script _ IH)].
  - (* api: everything but cancel and nop starts with a disturbing event *)
    intros c.
    destruct c; simpl;
      try (apply dk_disturbed; [reflexivity|]; pose proof SH as []; go).
    + apply (d_cancel _ IH).
    + apply dk_ret.
  - (* complete_query *)
    intros qo r Hg. simpl. rewrite (fx_unlink_true cf Hfix). dk.
    apply (d_invoke _ IH). destruct (q_cancelled a0); [apply goodr_res; right; reflexivity|exact Hg].
  - (* cancel *)
    rewrite cancel_unfold. rewrite (fx_unlink_true cf Hfix), (fx_cancelmark_true cf Hfix).
    apply dk_bind; [apply quiet_dk, quiet_get|intros s0].
    apply dk_bind; [|intros _; apply (d_check_cleanup _ IH)].
    destruct (st_lists s0) as [|[|q0 l0] rest]; try apply dk_ret.
    dk. apply (d_cancel_loop _ IH).
  - (* cancel_loop *)
    intros n. destruct n as [|n']; simpl; [apply dk_fail|].
    apply dk_bind; [apply quiet_dk, quiet_get|intros s0].
    destruct (st_lists s0) as [|a [|[|qo l] r]]; try apply dk_ret.
    dk; [apply (d_complete_query _ IH); apply goodr_res; right; reflexivity|apply (d_cancel_loop _ IH)].
  - (* check_cleanup *)
    rewrite check_cleanup_unfold. apply dk_bind; [apply quiet_dk, quiet_pop|intros e].
    destruct e; try apply dk_fail. apply (d_cleanup_loop _ IH).
  - (* cleanup_loop *)
    intros n. destruct n as [|n']; simpl; [apply dk_fail|].
    apply dk_bind; [apply quiet_dk, quiet_peek|intros e].
    destruct e as [e|]; [|apply dk_fail]. destruct e; try apply dk_fail.
    + apply dk_bind; [apply quiet_dk, quiet_find_conn|intros oc]. destruct oc as [co|]; [|apply dk_fail].
      intros s. apply pc_bind. apply pc_get_conn. intros c Hc.
      destruct (c_queries c) eqn:Eq; [|exact I].
      apply pc_bind.
      eapply pc_mono; [apply (close_idle_quiet f co ARES_SUCCESS s c Hc Eq)|].
      intros [] s1 E1. eapply pc_mono; [apply (d_cleanup_loop _ IH n' s1)|].
      intros [] s2 [add [E2 G2]]. exists add. rewrite E2, E1. auto.
    + dk.
  - (* search_callback *)
    intros o k cs l nd r [st [-> Hs]]. simpl.
    apply dk_bind; [apply quiet_dk, quiet_touch|intros _].
    destruct Hs as [->| ->].
    + change (Dk (end_squery cf f o k (res ARES_EDESTRUCTION))). apply (d_end_squery _ IH). apply goodr_res. left; reflexivity.
    + change (Dk (end_squery cf f o k (res ARES_ECANCELLED))). apply (d_end_squery _ IH). apply goodr_res. right; reflexivity.
  - (* end_squery *)
    intros o k r Hg. simpl. dk. apply (d_invoke _ IH); exact Hg.
  - (* addr_callback *)
    intros o k l r [st [-> Hs]]. simpl.
    apply dk_bind; [apply quiet_dk, quiet_touch|intros _].
    destruct Hs as [->| ->].
    + change (Dk (end_aquery cf f o k (res ARES_EDESTRUCTION))). apply (d_end_aquery _ IH). apply goodr_res. left; reflexivity.
    + change (Dk (end_aquery cf f o k (res ARES_ECANCELLED))). apply (d_end_aquery _ IH). apply goodr_res. right; reflexivity.
  - (* end_aquery *)
    intros o k r Hg. simpl. dk. apply (d_invoke _ IH); exact Hg.
  - (* host_callback *)
    intros o r [st [-> Hs]]. simpl.
    apply dk_bind; [apply quiet_dk, quiet_get_host|intros h].
    apply dk_bind; [apply quiet_dk, quiet_store|intros _].
    assert (Fin : Dk (end_hquery cf f o st)) by (apply (d_end_hquery _ IH); exact Hs).
    assert (Est : zeqb st ARES_SUCCESS = false) by (destruct Hs as [->| ->]; reflexivity).
    assert (Ecn : zeqb st ARES_EDESTRUCTION || zeqb st ARES_ECANCELLED = true) by (destruct Hs as [->| ->]; reflexivity).
    cbn [r_status res]. rewrite Est. cbn [andb].
    apply dk_bind; [apply dk_ret|intros [[ais nodes] v4]].
    apply dk_bind; [apply quiet_dk, quiet_get_host|intros h2].
    apply dk_bind; [apply quiet_dk, quiet_store|intros _].
    apply dk_bind; [apply dk_ret|intros _].
    destruct (negb (Init.Nat.pred (h_remaining h) =? 0)); [apply dk_ret|].
    rewrite Ecn. exact Fin.
  - (* end_hquery *)
    intros o st Hs. simpl. dk. apply (d_invoke _ IH). apply goodr_res. exact Hs.
Qed.

Theorem all_dspecs : forall f, Dspecs f.
Proof. induction f; [apply dspecs_O|apply dspecs_S; auto]. Qed.

(* ares_destroy: the loop over the queries *)
Lemma destroy_loop_dk f n : Dk (destroy_loop_fixed cf f n).
Proof.
  pose proof (all_dspecs f) as IH.
  induction n as [|n IHn]; simpl; [apply dk_fail|].
  apply dk_bind; [apply quiet_dk, quiet_get|intros s0].
  destruct (st_lists s0) as [|[|qo l] r]; try apply dk_ret.
  apply dk_bind; [apply (d_complete_query _ IH); apply goodr_res; left; reflexivity|intros _; exact IHn].
Qed.

End StatusD.
