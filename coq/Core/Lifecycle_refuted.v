(* C01: the pinned code does NOT satisfy the property.  One witness per defect: a small history
   (inputs + the decisions the real library took, copied from the simulator's LC trace of the
   corresponding case of corpus/C01/chan01.cases) on which the model with that one fix switched
   off -- and the other three on -- runs into undefined behaviour, while the fixed model
   completes and its trace is accepted by the monitor. *)
From Coq Require Import List ZArith Bool.
Import ListNotations.
From CAres.Base Require Import Outcome.
From CAres.Gen Require Import Consts.
From CAres.Core Require Import LifecycleMonitor Lifecycle.

Definition mk_ans rc tc an ropt qopt qoptcnt : ansinfo :=
  {| a_rcode := rc; a_tc := tc; a_ancount := an; a_resp_opt := ropt; a_req_opt := qopt; a_req_optcnt := qoptcnt |}.

Definition mkcfg (fx : fixes) (max_tries : nat) : config :=
  {| cf_fix := fx; cf_tries := max_tries; cf_nservers := 1; cf_igntc := false; cf_nocheckresp := false; cf_dns0x20 := false |}.

Definition without_unlink := {| fx_unlink := false; fx_search := true; fx_revalidate := true; fx_connread := true; fx_qidearly := true; fx_cancelmark := true |}.
Definition without_search := {| fx_unlink := true; fx_search := false; fx_revalidate := true; fx_connread := true; fx_qidearly := true; fx_cancelmark := true |}.
Definition without_revalidate := {| fx_unlink := true; fx_search := true; fx_revalidate := false; fx_connread := true; fx_qidearly := true; fx_cancelmark := true |}.
Definition without_connread := {| fx_unlink := true; fx_search := true; fx_revalidate := true; fx_connread := false; fx_qidearly := true; fx_cancelmark := true |}.

Definition accepted (o : outcome (list event)) : bool :=
  match o with Ok tr => match callback_monitor tr with VOk => true | _ => false end | _ => false end.
Definition ub_of (o : outcome (list event)) : option ub_kind := match o with UB k => Some k | _ => None end.

(* 1. servers=1|oncb 1 cancel;send 1 a.example IN A rd;rsp x0 an=A:1.1.1.1;proc
      ares_cancel() from the completion callback: end_query() has not unlinked the query, cancel
      completes it a second time and frees it; end_query() then frees it again. *)
Definition h_cancel_in_cb : list (input * list tev) := [
  (IOnCb 1 (ACancel), []);
  (IApi (ASend 1), [TI 1; TQ (4)%Z 0 0 2; TD (0)%Z; TO (0)%Z; TW 1 0 false; TF 0 (0)%Z]);
  (IProc [] [0], [TM 1 0 (mk_ans 0 false 1 false false false); TMR (0)%Z false; TG; TE 1 (0)%Z; TK; TCL 0; TKE; TK; TKE])].

(* 2. servers=1 domains=d.test ndots=5|search 1 <63a>.<63a>.<63a>.\097<54a> IN A rd
      ares_send_nolock() fails with ARES_EFORMERR after invoking the callback; ares_search_next()
      reports skip_cleanup = false and ares_search_int() frees and calls back again. *)
Definition h_search_eformerr : list (input * list tev) := [
  (IApi (ASearch 1 [false; false]), [TN (0)%Z; TI 1; TQ (4)%Z 0 0 2; TD (2)%Z])].

(* 3. servers=1 tries=1|oncb 1 cancel;send 1 p.example IN A rd;fail sendto 1 ECONNREFUSED;send 2 q.example IN A rd
      the write of query 2 fails, the connection is closed, query 1 runs out of tries, its
      callback cancels, which frees query 2 -- the query ares_send_query() is sending. *)
Definition h_sibling_cancels : list (input * list tev) := [
  (IOnCb 1 (ACancel), []);
  (IApi (ASend 1), [TI 1; TQ (4)%Z 0 0 2; TD (0)%Z; TO (0)%Z; TW 1 0 false; TF 0 (0)%Z]);
  (IApi (ASend 2), [TI 3; TQ (4)%Z 0 0 2; TD (0)%Z; TW 3 0 false; TF 0 (11)%Z; TS; TX 0 (11)%Z; TE 1 (11)%Z; TK; TKE; TCL 0])].

(* 4. servers=1 domains=a.test|search 1 host IN A rd;rsp x0 rcode=NXDOMAIN;fail sendto 1 ECONNREFUSED;proc
      the follow-up query of the search cannot be written to the connection being read; the
      connection is closed and freed under read_answers(). *)
Definition h_followup_fails : list (input * list tev) := [
  (IApi (ASearch 1 [false; true]), [TN (0)%Z; TI 1; TQ (4)%Z 0 0 2; TD (0)%Z; TO (0)%Z; TW 1 0 false; TF 0 (0)%Z]);
  (IProc [] [0], [TM 1 0 (mk_ans 3 false 0 false false false); TMR (0)%Z false; TG; TE 1 (0)%Z; TN (0)%Z; TI 3; TQ (4)%Z 0 0 2; TD (0)%Z; TW 3 0 false; TF 0 (11)%Z; TS; TX 0 (11)%Z; TCL 0; TO (0)%Z; TW 3 1 false; TF 1 (0)%Z; TK; TKE])].
Definition f_followup_fails : list tev := [TCL 1].

(* 4b. servers=1|oncb 1 cancel;send 1 ..;send 2 ..;rsp x0 ..;rsp x1 ..;proc   (with the unlink fix):
       ares_cancel()'s ares_check_cleanup_conns() closes the connection read_answers() iterates *)
Definition h_cancel_closes_conn : list (input * list tev) := [
  (IOnCb 1 (ACancel), []);
  (IApi (ASend 1), [TI 1; TQ (4)%Z 0 0 2; TD (0)%Z; TO (0)%Z; TW 1 0 false; TF 0 (0)%Z]);
  (IApi (ASend 2), [TI 3; TQ (4)%Z 0 0 2; TD (0)%Z; TW 3 0 false; TF 0 (0)%Z]);
  (IProc [] [0], [TM 1 0 (mk_ans 0 false 1 false false false); TMR (0)%Z false; TG; TE 1 (0)%Z; TK; TCL 0; TKE; TK; TKE])].

(* 5. flags=nosearch,usevc tries=1|fail sendto 2 ECONNREFUSED;oncb 3 sendraw,4,..;oquery 3 ..;oncb 6 cancel;search 6 ..;adv 61000;proc
      a query in the middle of its own cancellation is requeued (and completed a second time)
      because a request started from its callback fails on its connection *)
Definition h_requeued_while_cancelled (pinned_tape : bool) : list (input * list tev) := [
  (IOnCb 3 (ASendRaw 4), []);
  (IApi (AOQuery 3 (0)%Z), [TI 1; TQ (4)%Z 0 0 2; TD (0)%Z; TO (0)%Z; TW 1 0 true]);
  (IOnCb 6 (ACancel), []);
  (IApi (ASearch 6 [false]), [TN (0)%Z; TI 3; TQ (4)%Z 0 0 2; TD (0)%Z; TW 3 0 true]);
  (IProc [0] [], [TF 0 (0)%Z; TK; TKE; TS; TE 3 (12)%Z; TI 4; TQ (4)%Z 0 0 2; TD (0)%Z; TW 4 0 true; TF 0 (11)%Z; TS; TX 0 (11)%Z]
                  (* the pinned library requeues query 3 (id 1) here: LC TE 55011 11, CB t3 ... DUP *)
                  ++ (if pinned_tape then [TE 1 (11)%Z] else [])
                  ++ [TCL 0; TE 4 (11)%Z; TK; TKE])].

(* 6. servers=1|send 3 ..;oncb 3 cancel;send 4 ..;destroy : ares_destroy() follows a cached next node that ares_cancel() released *)
Definition h_cancel_in_destroy (pinned_tape : bool) : list (input * list tev) := [
  (IApi (ASend 3), [TI 1; TQ (4)%Z 0 0 2; TD (0)%Z; TO (0)%Z; TW 1 0 false; TF 0 (0)%Z]);
  (IOnCb 3 (ACancel), []);
  (IApi (ASend 4), [TI 3; TQ (4)%Z 0 0 2; TD (0)%Z; TW 3 0 false; TF 0 (0)%Z]);
  (* pinned: the query being destroyed is still on its connection, nothing is idle *)
  (IDestroy, if pinned_tape then [TK; TKE] else [TK; TCL 0; TKE])].

(* 7. servers=2 tries=2 timeout=1000 failover=1,0|send 9 x.example IN A rd;adv 500;oncb 1 cancel;gai 1 g1.example 0 0x80;
      rsp x1 an=A:1.2.3.4;proc;adv 500;proct;fail sendto 2 ECONNREFUSED;gai 5 g2.example 4 0x80
      (found with this model, reproduced on the real library with the four fixes applied):
      ares_send_query() of getaddrinfo 5's query succeeds, then probes the failed server 0; the probe
      cannot be written to server 0's connection, which is closed; the AAAA query of getaddrinfo 1
      on it no longer retries (terminate_retries) and ends; getaddrinfo 1 completes and its callback
      cancels, which completes getaddrinfo 5 and releases its host_query; ares_send_nolock() then
      stores the query id through &hquery->qid_a. *)
Definition without_qidearly := {| fx_unlink := true; fx_search := true; fx_revalidate := true; fx_connread := true; fx_qidearly := false; fx_cancelmark := true |}.
Definition h_qid_after_free : list (input * list tev) := [
  (IApi (ASend 9), [TI 1; TQ (4)%Z 0 0 2; TD (0)%Z; TO (0)%Z; TW 1 0 false; TF 0 (0)%Z]);
  (IOnCb 1 (ACancel), []);
  (IApi (AGai 1 [false] 0 [true] false), [TI 3; TQ (4)%Z 0 0 2; TD (0)%Z; TW 3 0 false; TF 0 (0)%Z; TI 4; TQ (4)%Z 0 0 2; TD (0)%Z; TW 4 0 false; TF 0 (0)%Z]);
  (IProc [] [0], [TM 3 0 (mk_ans 0 false 1 true true true); TMR (0)%Z false; TG; TE 3 (0)%Z; TP (0)%Z true true false; TK; TKE]);
  (IProc [] [], [TK; TKE; TS; TO (0)%Z; TW 1 1 false; TF 1 (0)%Z]);
  (IApi (AGai 5 [false] 4 [true] false), [TI 5; TQ (4)%Z 0 0 2; TD (0)%Z; TW 5 1 false; TF 1 (0)%Z; TI 6; TD (0)%Z; TW 6 0 false; TF 0 (11)%Z; TS; TX 0 (11)%Z; TE 4 (11)%Z; TK; TCL 1; TKE; TCL 0])].

Definition fuel := 60.

(* ---- the witnesses ---- *)
Example refuted_cancel_in_callback :
  ub_of (run (mkcfg without_unlink 3) fuel h_cancel_in_cb []) = Some UseAfterFree
  /\ accepted (run (mkcfg all_fixed 3) fuel h_cancel_in_cb []) = true.
Proof. vm_compute. split; reflexivity. Qed.

Example refuted_search_eformerr :
  ub_of (run (mkcfg without_search 3) fuel h_search_eformerr []) = Some UseAfterFree
  /\ accepted (run (mkcfg all_fixed 3) fuel h_search_eformerr []) = true.
Proof. vm_compute. split; reflexivity. Qed.

Example refuted_sibling_cancels :
  ub_of (run (mkcfg without_revalidate 1) fuel h_sibling_cancels []) = Some UseAfterFree
  /\ accepted (run (mkcfg all_fixed 1) fuel h_sibling_cancels []) = true.
Proof. vm_compute. split; reflexivity. Qed.

Example refuted_followup_send_fails :
  ub_of (run (mkcfg without_connread 3) fuel h_followup_fails f_followup_fails) = Some UseAfterFree
  /\ accepted (run (mkcfg all_fixed 3) fuel h_followup_fails f_followup_fails) = true.
Proof. vm_compute. split; reflexivity. Qed.

Example refuted_cancel_closes_conn_under_read :
  ub_of (run (mkcfg without_connread 3) fuel h_cancel_closes_conn []) = Some UseAfterFree
  /\ accepted (run (mkcfg all_fixed 3) fuel h_cancel_closes_conn []) = true.
Proof. vm_compute. split; reflexivity. Qed.

Example refuted_requeued_while_cancelled :
  ub_of (run (mkcfg without_unlink 1) fuel (h_requeued_while_cancelled true) []) = Some DoubleFree
  /\ accepted (run (mkcfg all_fixed 1) fuel (h_requeued_while_cancelled false) []) = true.
Proof. vm_compute. split; reflexivity. Qed.

Example refuted_cancel_in_destroy :
  ub_of (run (mkcfg without_unlink 3) fuel (h_cancel_in_destroy true) []) = Some UseAfterFree
  /\ accepted (run (mkcfg all_fixed 3) fuel (h_cancel_in_destroy false) []) = true.
Proof. vm_compute. split; reflexivity. Qed.

(* the whole pinned tree (no fix at all) on the first history: the second callback is visible
   in the trace prefix before the double free -- checked on the model state, not only UB *)
Example pinned_all_off_cancel_in_callback :
  ub_of (run (mkcfg pinned 3) fuel h_cancel_in_cb []) = Some UseAfterFree.
Proof. vm_compute. reflexivity. Qed.

Example refuted_qid_written_after_free :
  ub_of (run (mkcfg without_qidearly 4) fuel h_qid_after_free []) = Some UseAfterFree
  /\ accepted (run (mkcfg all_fixed 4) fuel h_qid_after_free []) = true.
Proof. vm_compute. split; reflexivity. Qed.

Definition without_cancelmark := {| fx_unlink := true; fx_search := true; fx_revalidate := true; fx_connread := true;
  fx_qidearly := true; fx_cancelmark := false |}.

(* ---- ares_cancel() did not always cancel everything (/repo 72dadb8, before fixes/C01-cancel-complete.patch) ----
   lctrace=1 serverstatecb=1 servers=1 tries=1 lookups=bb|send 2 x.example IN A rd;ghba 1 10.1.1.1;
   oncb 2 send,3,y.example,IN,A,rd;fail sendto 1 ECONNREFUSED;cancel;qlen;rspall an=PTR:h.example:60;run
   ares_cancel moves both queries to its private list and cancels the older one; its callback
   submits a request whose send fails on the shared connection; closing the connection re-queues
   the PTR query (still waiting to be cancelled), which has no tries left and ends with
   ECONNREFUSED; addr_callback goes on with the next lookup ('b' again) and the new query is
   linked into the fresh list of all queries: request 1 survives ares_cancel. *)
Definition h_cancel_incomplete : list (input * list tev) := [
  (IApi (ASend 2), [TI 1; TQ (4)%Z 0 0 2; TD (0)%Z; TO (0)%Z; TW 1 0 false; TF 0 (0)%Z]);
  (IApi (AGhba 1 [true; true]), [TI 3; TQ (4)%Z 0 0 2; TD (0)%Z; TW 3 0 false; TF 0 (0)%Z]);
  (IOnCb 2 (ASend 3), []);
  (IApi (ACancel), [TI 4; TQ (4)%Z 0 0 2; TD (0)%Z; TW 4 0 false; TF 0 (11)%Z; TS; TX 0 (11)%Z; TE 3 (11)%Z; TI 5; TQ (4)%Z 0 0 2; TD (0)%Z; TO (0)%Z; TW 5 1 false; TF 1 (0)%Z; TCL 0; TE 4 (11)%Z; TK; TKE]);
  (IApi (ANop), []);
  (IProc [] [1], [TM 5 1 (mk_ans 0 false 1 true true true); TMR (0)%Z false; TG; TE 5 (0)%Z; TR (0)%Z; TK; TCL 1; TKE])].

Definition tr_cancel_incomplete : list event :=
  [EvReq 2; EvReq 1; EvCancelBegin; EvCb 2 24%Z; EvReq 3; EvCb 3 11%Z; EvCancelEnd; EvCb 1 0%Z;
   EvDestroyBegin; EvDestroyEnd; EvEnd].

Lemma cancel_incomplete_run : run (mkcfg without_cancelmark 1) fuel h_cancel_incomplete [] = Ok tr_cancel_incomplete.
Proof. vm_compute. reflexivity. Qed.

Lemma cancel_incomplete_bad : ~ complete_at_cancel tr_cancel_incomplete.
Proof.
  intros H.
  specialize (H [EvReq 2; EvReq 1] [EvCb 2 24%Z; EvReq 3; EvCb 3 11%Z]
                [EvCb 1 0%Z; EvDestroyBegin; EvDestroyEnd; EvEnd] eq_refl).
  assert (A : ~ In EvCancelBegin [EvCb 2 24%Z; EvReq 3; EvCb 3 11%Z]) by (simpl; intuition discriminate).
  assert (B : ~ In EvSetServers [EvCb 2 24%Z; EvReq 3; EvCb 3 11%Z]) by (simpl; intuition discriminate).
  specialize (H A B 1 (or_intror (or_introl eq_refl))). vm_compute in H. inversion H.
Qed.

Theorem cancel_incomplete :
  exists cf fuel h final tr, cf_fix cf = without_cancelmark /\ run cf fuel h final = Ok tr /\ ~ complete_at_cancel tr.
Proof.
  exists (mkcfg without_cancelmark 1), fuel, h_cancel_incomplete, [], tr_cancel_incomplete.
  split; [reflexivity|]. split; [exact cancel_incomplete_run|exact cancel_incomplete_bad].
Qed.
