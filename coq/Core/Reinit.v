(* The configuration-reload protocol (src/lib/ares_init.c: ares_reinit, ares_reinit_thread;
   src/lib/ares_destroy.c).

   ares_reinit(), called by client threads and by the event thread's configuration monitor,
   takes the channel lock; gives up when a reload is pending; otherwise marks one pending,
   JOINS the previous reload thread WHILE HOLDING THE CHANNEL LOCK, creates a new reload thread
   and releases the lock.  The reload thread reads the system configuration without the lock,
   applies it under the lock, clears the pending mark and returns.  Joining under the lock is
   only safe because of the order inside the reload thread: when the mark is clear the previous
   thread has nothing left to do that needs the lock.

   The reload thread's program is a parameter of the model: a list of actions regenerated from
   the C source on every run (gen/regen.d/reinit_facts.py reads the body of ares_reinit_thread
   in source order).  The client side is modelled by hand from ares_reinit().

   A lock-order deadlock here is a wait cycle: a client blocked in join holds the lock, the
   joined thread is blocked on the lock. *)
From CAres.Base Require Export Outcome.
Local Open Scope nat_scope.

Inductive hact :=
| HWork          (* something that does not touch the channel lock (reading the configuration) *)
| HAcq           (* ares_channel_lock *)
| HRel           (* ares_channel_unlock *)
| HClear.        (* channel->reinit_pending = ARES_FALSE *)

Definition hact_eqb (a b : hact) : bool :=
  match a, b with HWork, HWork | HAcq, HAcq | HRel, HRel | HClear, HClear => true | _, _ => false end.

(* static shape of a reload-thread program: the lock is used in brackets (depth 0 or 1, released
   at the end), the mark is cleared only with the lock held, and once it is cleared the lock is
   never taken again *)
Fixpoint helper_ok_from (held cleared : bool) (p : list hact) : bool :=
  match p with
  | [] => negb held
  | HWork :: r => helper_ok_from held cleared r
  | HAcq :: r => negb held && negb cleared && helper_ok_from true cleared r
  | HRel :: r => held && helper_ok_from false cleared r
  | HClear :: r => held && helper_ok_from held true r
  end.
Definition helper_ok (p : list hact) : bool := helper_ok_from false false p.

Fixpoint has_acq (p : list hact) : bool :=
  match p with [] => false | HAcq :: _ => true | _ :: r => has_acq r end.

(* ---------------------------------------------------------------------------------------- *)
(* threads: clients are numbered, reload threads are numbered in order of creation.  A reload
   thread's state carries two ghost flags next to its remaining program: whether it holds the
   lock and whether it has cleared the mark. *)
Inductive cpc :=
| CIdle                 (* not inside ares_reinit *)
| CWantLock             (* blocked on / about to take the channel lock *)
| CLocked               (* holds the lock, about to test the mark *)
| CJoin (h : nat)       (* holds the lock, joining reload thread h *)
| CCreate.              (* holds the lock, about to create the new reload thread and unlock *)

Definition holds (p : cpc) : bool := match p with CLocked | CJoin _ | CCreate => true | _ => false end.

Inductive owner := ONone | OClient (c : nat) | OHelper (h : nat).

Definition hstate := (bool * bool * list hact)%type.    (* holds the lock, has cleared, remaining *)

Record sys := mkSys {
  pending : bool;                       (* channel->reinit_pending *)
  handle : option nat;                  (* channel->reinit_thread *)
  lock : owner;
  clients : nat -> cpc;
  helpers : nat -> option hstate;       (* None = not created or joined; remaining [] = returned *)
  nhelpers : nat }.

Definition cupd (f : nat -> cpc) (c : nat) (v : cpc) : nat -> cpc := fun x => if Nat.eqb x c then v else f x.
Definition hupd (f : nat -> option hstate) (h : nat) (v : option hstate) := fun x => if Nat.eqb x h then v else f x.

Definition initial : sys := mkSys false None ONone (fun _ => CIdle) (fun _ => None) 0.

Section Protocol.
Variable prog : list hact.     (* the reload thread's program *)

Inductive step (s : sys) : sys -> Prop :=
(* a client calls ares_reinit *)
| s_call c : clients s c = CIdle ->
    step s (mkSys (pending s) (handle s) (lock s) (cupd (clients s) c CWantLock) (helpers s) (nhelpers s))
| s_lock c : clients s c = CWantLock -> lock s = ONone ->
    step s (mkSys (pending s) (handle s) (OClient c) (cupd (clients s) c CLocked) (helpers s) (nhelpers s))
(* a reload is pending: unlock and return *)
| s_skip c : clients s c = CLocked -> pending s = true ->
    step s (mkSys (pending s) (handle s) ONone (cupd (clients s) c CIdle) (helpers s) (nhelpers s))
(* mark pending; join the previous thread if there is one *)
| s_mark_join c h : clients s c = CLocked -> pending s = false -> handle s = Some h ->
    step s (mkSys true (handle s) (lock s) (cupd (clients s) c (CJoin h)) (helpers s) (nhelpers s))
| s_mark_nojoin c : clients s c = CLocked -> pending s = false -> handle s = None ->
    step s (mkSys true None (lock s) (cupd (clients s) c CCreate) (helpers s) (nhelpers s))
(* the join returns when the joined thread has returned *)
| s_joined c h hd cl : clients s c = CJoin h -> helpers s h = Some (hd, cl, []) ->
    step s (mkSys (pending s) None (lock s) (cupd (clients s) c CCreate) (hupd (helpers s) h None) (nhelpers s))
(* create the new thread, unlock, return *)
| s_create c : clients s c = CCreate ->
    step s (mkSys (pending s) (Some (nhelpers s)) ONone (cupd (clients s) c CIdle)
                  (hupd (helpers s) (nhelpers s) (Some (false, false, prog))) (S (nhelpers s)))
(* the reload thread *)
| s_hwork h hd cl r : helpers s h = Some (hd, cl, HWork :: r) ->
    step s (mkSys (pending s) (handle s) (lock s) (clients s) (hupd (helpers s) h (Some (hd, cl, r))) (nhelpers s))
| s_hacq h hd cl r : helpers s h = Some (hd, cl, HAcq :: r) -> lock s = ONone ->
    step s (mkSys (pending s) (handle s) (OHelper h) (clients s) (hupd (helpers s) h (Some (true, cl, r))) (nhelpers s))
| s_hrel h hd cl r : helpers s h = Some (hd, cl, HRel :: r) ->
    step s (mkSys (pending s) (handle s) ONone (clients s) (hupd (helpers s) h (Some (false, cl, r))) (nhelpers s))
| s_hclear h hd cl r : helpers s h = Some (hd, cl, HClear :: r) ->
    step s (mkSys false (handle s) (lock s) (clients s) (hupd (helpers s) h (Some (hd, true, r))) (nhelpers s)).

Inductive reach : sys -> Prop :=
| r_init : reach initial
| r_step s s' : reach s -> step s s' -> reach s'.

(* a wait cycle: a client joins thread h while holding the lock, and h still has to take it *)
Definition join_cycle (s : sys) : Prop :=
  exists c h hd cl r, clients s c = CJoin h /\ helpers s h = Some (hd, cl, r) /\ has_acq r = true.

End Protocol.
