(* ares_calc_query_timeout (src/lib/ares_process.c): compact specification of the wait of one
   attempt, against which the GENERATED c_ares_calc_query_timeout is proved equal
   (Calc_proofs.v).  The specification is the policy of the code comments: the base timeout
   doubles once per full pass over the server list (saturating), is capped by maxtimeout when
   one is set, loses a random jitter of at most half, and is never below the base. *)
From CAres.Base Require Import CInt.
From CAres.Gen Require Import Consts LeafFns.
From CAres.Core Require Import Time.
Local Open Scope Z_scope.

(* SIZE_MAX >> 1 *)
Definition MAX_TIMEPLUS : Z := 2 ^ 63 - 1.

Definition rounds_of (try_count num_servers : Z) : Z := try_count / num_servers.

(* base * 2^rounds, saturating at MAX_TIMEPLUS *)
Definition doubled (base rounds : Z) : Z :=
  if rounds <=? 0 then base
  else if (rounds >=? 64) || (base * 2 ^ rounds >? MAX_TIMEPLUS) then MAX_TIMEPLUS
  else base * 2 ^ rounds.

Definition capped (maxtimeout tp : Z) : Z :=
  if negb (maxtimeout =? 0) && (tp >? maxtimeout) then maxtimeout else tp.

(* timeplus just before the jitter is subtracted *)
Definition timeplus_capped (base num_servers try_count maxtimeout : Z) : Z :=
  capped maxtimeout (doubled base (rounds_of try_count num_servers)).

(* jitter amount fp = (size_t)((float)timeplus * delta_multiplier), delta_multiplier in [0, 0.5]:
   it is at most timeplus.  This is the one fact about the floating-point computation the
   theorems use (it is checked on the implementation by the engine: wait >= cap/2 - 1). *)
Definition jitter_ok (base num_servers try_count maxtimeout fp : Z) : Prop :=
  0 <= fp <= timeplus_capped base num_servers try_count maxtimeout.
Definition jitter_okb (base num_servers try_count maxtimeout fp : Z) : bool :=
  (0 <=? fp) && (fp <=? timeplus_capped base num_servers try_count maxtimeout).

Definition calc_spec (base num_servers try_count maxtimeout fp : Z) : Z :=
  if num_servers =? 0 then 0
  else
    let tp := timeplus_capped base num_servers try_count maxtimeout in
    (* the subtraction is done in size_t; it does not wrap when jitter_ok holds *)
    let tp' := if rounds_of try_count num_servers >? 0 then (tp - fp) mod 2 ^ 64 else tp in
    if tp' <? base then base else tp'.

(* the generated function with its abstract inputs named; [r] (the random short) only
   influences the result through fp *)
Definition calc_query_timeout (base num_servers try_count maxtimeout r fp : Z) : outcome Z :=
  c_ares_calc_query_timeout base num_servers try_count maxtimeout r fp.

(* one attempt: wait computed, deadline = now + wait (ares_send_query) *)
Definition attempt_deadline (now : timeval) (base num_servers try_count maxtimeout r fp : Z)
  : outcome (Z * timeval) :=
  do w <- calc_query_timeout base num_servers try_count maxtimeout r fp;
  do d <- timeadd now w;
  Ok (w, d).

(* C06 wait oracle: what the property says about one attempt's wait w (ms) *)
Definition wait_okb (base maxtimeout w : Z) : bool :=
  (base <=? w) && ((maxtimeout =? 0) || (w <=? maxtimeout)).
