(* The timeout computation of the PINNED tree (c-ares 1.34.5 snapshot, before
   fixes/C06-shift.patch): a frozen copy of what gen/c2gallina.py produced for
   ares_calc_query_timeout at that revision, kept so that the defects it has remain machine
   checked statements after the code is repaired.  Nothing else depends on this file; the
   theorems of Properties_C06.v are about the text regenerated from the current tree. *)
From CAres.Base Require Import CInt.
From CAres.Gen Require Import Consts.
From CAres.Core Require Import Time.
Local Open Scope Z_scope.
Local Open Scope bool_scope.

Definition pinned_calc_query_timeout (call_ares_metrics_server_timeout_1 : Z) (call_ares_slist_len_2 : Z) (query_try_count : Z) (query_channel_maxtimeout : Z) (r_havoc3_ares_rand_bytes : Z) (fp_4 : Z) : outcome (Z) :=
  let t1 := call_ares_metrics_server_timeout_1 in
  let t2 := t1 in
  let t3 := call_ares_slist_len_2 in
  if (t3 =? 0) then
    Ok (0)
  else
    guard (negb (t3 =? 0)) DivZero (
    let t4 := (query_try_count / t3) in
    if (t4 >? 0) then
      guard ((0 <=? t4) && (t4 <? 64)) ShiftTooWide (
      let t5 := ((Z.shiftl t2 t4) mod 2^64) in
      if ((negb (query_channel_maxtimeout =? 0)) && (t5 >? query_channel_maxtimeout)) then
        let t6 := query_channel_maxtimeout in
        if (t4 >? 0) then
          guard ((0 <=? fp_4) && (fp_4 <? 2^64)) SignedOverflow (
          let t7 := ((t6 - fp_4) mod 2^64) in
          if (t7 <? t1) then
            let t8 := t1 in
            Ok (t8)
          else
            Ok (t7))
        else
          if (t6 <? t1) then
            let t9 := t1 in
            Ok (t9)
          else
            Ok (t6)
      else
        if (t4 >? 0) then
          guard ((0 <=? fp_4) && (fp_4 <? 2^64)) SignedOverflow (
          let t10 := ((t5 - fp_4) mod 2^64) in
          if (t10 <? t1) then
            let t11 := t1 in
            Ok (t11)
          else
            Ok (t10))
        else
          if (t5 <? t1) then
            let t12 := t1 in
            Ok (t12)
          else
            Ok (t5))
    else
      if ((negb (query_channel_maxtimeout =? 0)) && (t2 >? query_channel_maxtimeout)) then
        let t13 := query_channel_maxtimeout in
        if (t4 >? 0) then
          guard ((0 <=? fp_4) && (fp_4 <? 2^64)) SignedOverflow (
          let t14 := ((t13 - fp_4) mod 2^64) in
          if (t14 <? t1) then
            let t15 := t1 in
            Ok (t15)
          else
            Ok (t14))
        else
          if (t13 <? t1) then
            let t16 := t1 in
            Ok (t16)
          else
            Ok (t13)
      else
        if (t4 >? 0) then
          guard ((0 <=? fp_4) && (fp_4 <? 2^64)) SignedOverflow (
          let t17 := ((t2 - fp_4) mod 2^64) in
          if (t17 <? t1) then
            let t18 := t1 in
            Ok (t18)
          else
            Ok (t17))
        else
          if (t2 <? t1) then
            let t19 := t1 in
            Ok (t19)
          else
            Ok (t2)).

(* 1. `timeplus <<= rounds` with rounds = try_count / num_servers >= 64: shift by the width of
      size_t, undefined behaviour.  Reached with one server and tries >= 65 (ARES_OPT_TRIES accepts
      any positive int; ares_requeue_query allows try_count up to servers*tries - 1), or with
      fewer tries when servers are removed while the query is in flight. *)
Theorem pinned_calc_refuted_shift :
  exists base num_servers try_count maxtimeout r fp,
    250 <= base <= 5000 /\ num_servers = 1 /\ try_count < num_servers * 65 /\ maxtimeout = 0 /\
    pinned_calc_query_timeout base num_servers try_count maxtimeout r fp = UB ShiftTooWide.
Proof.
  exists 2000, 1, 64, 0, 0, 0. repeat split; try (vm_compute; congruence).
Qed.

(* 2. for 52 <= rounds < 64 the shifted value wraps modulo 2^64: the wait collapses from the
      cap to the bare base timeout (the doubling policy is lost; the final floor hides it) *)
Theorem pinned_calc_wrap_collapses :
  pinned_calc_query_timeout 4096 1 51 100000 0 0 = Ok 100000 /\
  pinned_calc_query_timeout 4096 1 52 100000 0 0 = Ok 4096.
Proof. split; vm_compute; reflexivity. Qed.

(* 3. without a configured maximum the wait reaches 2^63 ms or more (size_t), which timeadd()
      converts to a NEGATIVE ares_int64_t: the deadline of the attempt lies before `now`, so
      the attempt waits 0 instead of at least the base timeout *)
Theorem pinned_deadline_before_now :
  exists now base try_count w d,
    tv_okb now = true /\ 250 <= base <= 5000 /\
    pinned_calc_query_timeout base 1 try_count 0 0 0 = Ok w /\
    timeadd now w = Ok d /\ tv_us d < tv_us now.
Proof.
  exists (TV 1000000 0), 5000, 51.
  eexists. eexists. split; [vm_compute; reflexivity|]. split; [lia|].
  split; [vm_compute; reflexivity|]. split; [vm_compute; reflexivity|]. vm_compute. reflexivity.
Qed.
