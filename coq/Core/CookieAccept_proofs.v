(* C17 - the ORDER of the checks on the accept path: ares_cookie_validate() runs before the
   "server may not understand EDNS" fallback (issue_might_be_edns / rewrite_without_edns), the
   truncation retry and the SERVFAIL/NOTIMP/REFUSED retry of process_answer().

   Stated over the model of process_answer in Core/Accept.v (C05; tied to the code by the chan05
   engine, and for this clause also by the chan17 engine: a reply the monitor expects to be dropped
   must have no consequence at all in the simulator log - no callback, no retransmission).
   A reply that fails the cookie checks is INERT whatever its rcode and whether or not it carries
   an OPT RR: no output, and the channel is unchanged except for the server's cookie record - in
   particular the query keeps its OPT RR and its cookie, stays on its connection and is not
   re-sent. *)
From CAres.Base Require Import Outcome CInt.
From CAres.Gen Require Import Consts LeafFns.
From CAres.Core Require Import Accept Accept_proofs.
Local Open Scope Z_scope.

Theorem cookie_drop_is_inert cfg st cn sv s u p st' outs :
  (forall q, find_query st (p_id p) = Some q -> cookie_ok (sv_cookie sv) q p = false) ->
  process_answer cfg st cn sv s u (DParsed p) = Ok (st', outs) ->
  outs = [] /\ same_but_cookies st' st.
Proof.
  intros Hck H. cbn [process_answer] in H.
  destruct (cf_fix_qr cfg && negb (p_qr p)); [inversion H; subst; split; [reflexivity | apply same_but_cookies_refl] |].
  destruct (find_query st (p_id p)) as [q |] eqn:Eq; [| inversion H; subst; split; [reflexivity | apply same_but_cookies_refl]].
  destruct (negb (same_questions cfg q p)); [inversion H; subst; split; [reflexivity | apply same_but_cookies_refl] |].
  destruct (cf_fix_conn cfg && negb (opt_z_eqb (q_conn q) (Some (cn_id cn)))); [inversion H; subst; split; [reflexivity | apply same_but_cookies_refl] |].
  destruct (cookie_validate cfg st q p sv s u) as [r | |] eqn:Ev; cbn [bind] in H; try discriminate.
  destruct (cookie_validate_inert cfg st q p sv s u r (Hck q eq_refl) Ev) as (st1 & -> & Hs).
  inversion H; subst. split; [reflexivity | exact Hs].
Qed.

(* once the server has proven cookie support: a reply without a server cookie to a request that
   carried a cookie fails the cookie checks - for EVERY rcode (FORMERR, NOTIMP, SERVFAIL, REFUSED,
   BADVERS, ...; BADCOOKIE needs the echoed client cookie) and with or without an OPT RR *)
Lemma supported_cookieless_fails ck q p rc :
  ck_state ck = C05_COOKIE_SUPPORTED -> q_cookie q = Some rc ->
  (p_cookie p = None \/ (exists pc, p_cookie p = Some pc /\ zlen pc <= 8 /\ p_rcode p <> ARES_RCODE_BADCOOKIE)) ->
  cookie_ok ck q p = false.
Proof.
  intros Hs Hq Hp. unfold cookie_ok, cookie_ok_core. rewrite Hq, Hs, Z.eqb_refl.
  destruct Hp as [-> | (pc & -> & Hl & Hr)].
  - reflexivity.
  - replace (8 <? zlen pc) with false by (symmetry; apply Z.ltb_ge; lia).
    replace (p_rcode p =? ARES_RCODE_BADCOOKIE) with false by (symmetry; apply Z.eqb_neq; exact Hr).
    cbn. rewrite !andb_false_r. reflexivity.
Qed.

Theorem no_cookie_downgrade cfg st cn sv s u p st' outs :
  ck_state (sv_cookie sv) = C05_COOKIE_SUPPORTED ->
  (forall q, find_query st (p_id p) = Some q -> exists rc, q_cookie q = Some rc) ->
  (p_cookie p = None \/ (exists pc, p_cookie p = Some pc /\ zlen pc <= 8 /\ p_rcode p <> ARES_RCODE_BADCOOKIE)) ->
  process_answer cfg st cn sv s u (DParsed p) = Ok (st', outs) ->
  outs = [] /\ same_but_cookies st' st.
Proof.
  intros Hs Hq Hp H. apply (cookie_drop_is_inert cfg st cn sv s u p st' outs); [| exact H].
  intros q Eq. destruct (Hq q Eq) as (rc & Erc). apply (supported_cookieless_fails _ q p rc Hs Erc Hp).
Qed.
