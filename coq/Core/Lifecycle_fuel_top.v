(* C01: the fuel suffices.  The functions that are not reachable from callbacks (read path,
   ares_process_fds, ares_destroy), the steps of a history, and the bound: a fuel of
   K * (4 * number of tape events + sizes of the calls) + 10 is never exhausted. *)
From Coq Require Import List ZArith Lia Bool Arith Permutation.
Import ListNotations.
From CAres.Base Require Import Outcome.
From CAres.Gen Require Import Consts.
From CAres.Core Require Import LifecycleMonitor Lifecycle Lifecycle_inv Lifecycle_proofs Lifecycle_tokens Lifecycle_fuel Lifecycle_fuel_proofs.

Ltac fuel := unfold need, K, wT, KA in *; unfold tok, obj in *; simpl csize in *; simpl length in *; lia.

Section FixedF2.
Variable cf : config.
Hypothesis Hfix : cf_fix cf = all_fixed.
Let S1 := all_specs cf Hfix.
Let S3 := all_specs3 cf Hfix.

Definition ppost {X} (s : state) : X -> state -> Prop := fun _ s' => pot s' <= pot s.
Definition ipost {X} (s : state) : X -> state -> Prop := fun _ s' => Inv2 s' /\ pot s' <= pot s.

Lemma conn_unlinked' x s o c : InvX x s -> cell_of s o = Some (CConn c) -> ~ In o (linked s).
Proof. intros I Hc Hl. destruct (inv_query _ _ I _ Hl) as [q Hq]. congruence. Qed.

Lemma process_answer_fuel f co qid a rq s : Inv s -> reading s co -> need (pot s) 3 <= f ->
  safe3 (process_answer cf f co qid a rq) s (ppost s).
Proof.
  intros I R Hf. pose proof (S1 f) as IH. pose proof (S3 f) as IH3. unfold process_answer, ppost.
  apply safe3_bind. apply safe3_get.
  destruct (lookup qid (st_byqid s)) as [qo|] eqn:Lk; [|apply safe3_fail; auto with fuel].
  destruct (inv_byqid _ _ I _ _ Lk) as [Hl _].
  destruct (inv_query _ _ I _ Hl) as [q Hq].
  apply safe3_bind. eapply safe3_get_query; [exact (inv_heap _ _ I)|exact Hq|].
  destruct R as [c [Hc Hrd]].
  apply safe3_bind. eapply safe3_get_conn; [exact (inv_heap _ _ I)|exact Hc|].
  destruct (negb _); [apply safe3_fail; auto with fuel|].
  destruct (find_tmr (st_tape s)) as [[vrc requeued]|]; [|apply safe3_fail; auto with fuel].
  destruct (requeued && zeqb vrc ARES_SUCCESS) eqn:Erq; [apply safe3_fail; auto with fuel|].
  assert (G : forall rq1 s1, Inv s1 -> reading s1 co -> (requeued = false -> In qo (linked s1)) -> pot s1 <= pot s ->
            safe3 (let! e := pop in
                  match e with
                  | TMR _ _ =>
                      if negb (zeqb vrc ARES_SUCCESS) then ret rq1
                      else let! c0 := get_conn co in
                           store co (CConn (set_c_queries (remove_nat qo (c_queries c0)) c0));;
                           match classify cf a (c_tcp c0) with
                           | DEdns => remove_from_conn qo;; ret (rq1 ++ [qid])
                           | DTrunc => let! q0 := get_query qo in
                                       store qo (CQuery (set_q_tcp true q0));;
                                       remove_from_conn qo;; ret (rq1 ++ [qid])
                           | DServFail st =>
                               expect_TS;;
                               (let! rst := requeue_query cf f qo st true true
                                              {| r_status := st; r_rec := Some (a_rcode a, a_ancount a, qid) |} in
                                if zeqb rst ARES_SUCCESS then ret (rq1 ++ [qid]) else ret rq1)
                           | DFinal =>
                               expect_TG;;
                               end_query cf f qo ARES_SUCCESS
                                 {| r_status := ARES_SUCCESS; r_rec := Some (a_rcode a, a_ancount a, qid) |};;
                               ret rq1
                           end
                  | _ => fail EDESYNC end) s1 (fun _ s' => pot s' <= pot s)).
  { intros rq1 s1 I1 R1 Hl1 P1.
    apply safe3_bind. apply safe3_pop. intros e rest Et. destruct e; try (apply safe3_fail; auto with fuel).
    set (s2 := set_tape rest s1).
    assert (E2 : core_eq s1 s2) by apply core_eq_set_tape.
    assert (I2 : Inv s2) by (apply (inv_core _ _ _ E2); auto).
    assert (R2 : reading s2 co) by (apply (reading_core _ _ _ R1 E2)).
    pose proof (pot_set_tape _ _ _ Et) as P2. fold s2 in P2.
    destruct (negb (zeqb vrc ARES_SUCCESS)) eqn:Ev.
    - apply safe3_ret. lia.
    - assert (Hrq : requeued = false).
      { destruct requeued; auto. apply negb_false_iff in Ev. rewrite Ev in Erq. discriminate. }
      assert (Hl2 : In qo (linked s2)) by (rewrite (ce_linked _ _ E2); auto).
      destruct R2 as [c2 [Hc2 Hrd2]].
      apply safe3_bind. eapply safe3_get_conn; [exact (inv_heap _ _ I2)|exact Hc2|].
      apply safe3_bind. eapply safe3_store; [exact (inv_heap _ _ I2)|exact Hc2|].
      destruct (conn_drop_query_ok s2 co c2 qo I2 Hc2) as [I3 [Ell3 [Hc3 Hsame3]]].
      set (c3 := set_c_queries (remove_nat qo (c_queries c2)) c2) in *.
      pose proof (pot_store_unlinked None s2 co (CConn c2) (CConn c3) I2 Hc2 Logic.I Logic.I (conn_unlinked' _ _ _ _ I2 Hc2)) as P3.
      set (s3 := store_st co (CConn c3) s2) in *.
      assert (Hl3 : In qo (linked s3)) by (rewrite Ell3; exact Hl2).
      destruct (inv_query _ _ I3 _ Hl3) as [q3 Hq3].
      destruct (classify cf a (c_tcp c2)).
      + destruct (remove_from_conn_ok _ _ _ _ I3 (or_intror eq_refl) Hl3 Hq3) as [s4 [E4 _]].
        pose proof (pot_remove_from_conn _ _ _ _ _ I3 (or_intror eq_refl) Hl3 Hq3 E4) as P4.
        apply safe3_bind. eapply safe3_of_run; [exact E4|]. apply safe3_ret. lia.
      + apply safe3_bind. eapply safe3_get_query; [exact (inv_heap _ _ I3)|exact Hq3|].
        apply safe3_bind. eapply safe3_store; [exact (inv_heap _ _ I3)|exact Hq3|].
        destruct (store_query_misc_ok (Some qo) s3 qo q3 (set_q_tcp true q3) I3 Hq3 eq_refl eq_refl eq_refl)
          as [I4 [F4 [_ [Ell4 [_ Hq4]]]]].
        pose proof (pot_store_query (Some qo) s3 qo q3 (set_q_tcp true q3) I3 Hq3 eq_refl) as P4.
        set (s4 := store_st qo (CQuery (set_q_tcp true q3)) s3) in *.
        assert (Hl4 : In qo (linked s4)) by (rewrite Ell4; exact Hl3).
        destruct (remove_from_conn_ok _ _ _ _ I4 (or_intror eq_refl) Hl4 Hq4) as [s5 [E5 _]].
        pose proof (pot_remove_from_conn _ _ _ _ _ I4 (or_intror eq_refl) Hl4 Hq4 E5) as P5.
        apply safe3_bind. eapply safe3_of_run; [exact E5|]. apply safe3_ret. lia.
      + apply safe3_bind. apply safe3_expect; [left; reflexivity|]. intros e4 l4 Et4.
        assert (E4 : core_eq s3 (set_tape l4 s3)) by apply core_eq_set_tape.
        pose proof (pot_set_tape _ _ _ Et4) as P4.
        apply safe3_bind.
        eapply safe3_mono; [apply (fp_requeue_query _ _ IH3 qo st true true _ (set_tape l4 s3));
                           [apply (inv_core _ _ _ E4); auto|exact Hl3|fuel]|].
        intros rst s5 P5. unfold fpost in P5. destruct (zeqb rst ARES_SUCCESS); apply safe3_ret; lia.
      + apply safe3_bind. apply safe3_expect; [right; left; reflexivity|]. intros e4 l4 Et4.
        assert (E4 : core_eq s3 (set_tape l4 s3)) by apply core_eq_set_tape.
        pose proof (pot_set_tape _ _ _ Et4) as P4.
        apply safe3_bind.
        eapply safe3_mono; [apply (fp_end_query _ _ IH3 qo ARES_SUCCESS _ (set_tape l4 s3));
                           [apply (inv_core _ _ _ E4); auto|exact Hl3|fuel]|].
        intros [] s5 P5. unfold fpost in P5. apply safe3_ret. lia. }
  destruct requeued.
  - apply safe3_bind. apply safe3_bind.
    eapply safe3_mono; [apply safe3_with; [apply (sp_requeue_query _ _ IH qo ARES_SUCCESS false true _ s (inv_weaken _ _ I) Hl)
                                          |apply (fp_requeue_query _ _ IH3 qo ARES_SUCCESS false true _ s (inv_weaken _ _ I) Hl); fuel]|].
    intros st s1 [[I1 F1] P1]. unfold fpost in P1.
    assert (R1 : reading s1 co) by (apply (reading_frame s s1 [] co); [exists c; auto|exact F1]).
    destruct (zeqb st ARES_SUCCESS); apply safe3_ret; [apply (G (rq ++ [qid]))|apply (G rq)]; auto; try discriminate; lia.
  - apply safe3_bind. apply safe3_ret. apply (G rq); auto. exists c; auto.
Qed.

Lemma read_loop_fuel f n : forall co rq s, Inv2 s -> reading s co -> need (pot s) 6 <= f -> pot s < n ->
  safe3 (read_loop cf f n co rq) s (ppost s).
Proof.
  pose proof (S1 f) as IH. pose proof (S3 f) as IH3. unfold ppost.
  induction n as [|n IHn]; intros co rq s [I St] R Hf Hn; simpl; [lia|].
  destruct R as [c [Hc Hrd]].
  apply safe3_bind. eapply safe3_get_conn; [exact (inv_heap _ _ I)|exact Hc|].
  apply safe3_bind. apply safe3_peek. apply safe3_bind. apply safe3_peek2.
  rewrite (fx_connread_true cf Hfix).
  assert (Leave : safe3 (ret rq) s (fun _ s' => pot s' <= pot s)) by (apply safe3_ret; lia).
  destruct (hd_error (st_tape s)) as [e|]; [|exact Leave].
  destruct e; try exact Leave.
  - destruct (negb (Nat.eqb sock (c_sock c))); [exact Leave|].
    apply safe3_bind. apply safe3_pop. intros e rest Et.
    set (s1 := set_tape rest s).
    assert (E1 : core_eq s s1) by apply core_eq_set_tape.
    assert (I1 : Inv s1) by (apply (inv_core _ _ _ E1); auto).
    assert (St1 : Stable s1) by (apply (stable_core _ _ E1); auto).
    assert (R1 : reading s1 co) by (apply (reading_core s s1 co); [exists c; auto|exact E1]).
    pose proof (pot_set_tape _ _ _ Et) as P1. fold s1 in P1.
    apply safe3_bind.
    eapply safe3_mono; [apply safe3_with; [apply (process_answer_ok cf Hfix f co qid a rq s1 (conj I1 St1) R1)
                                          |apply (process_answer_fuel f co qid a rq s1 I1 R1); fuel]|].
    intros rq' s2 [[[I2 St2] [c2 [Hc2 Hrd2]]] P2]. unfold ppost in P2.
    apply safe3_bind. eapply safe3_get_conn; [exact (inv_heap _ _ I2)|exact Hc2|].
    destruct (c_closed c2) eqn:Ecl.
    + apply safe3_ret. fuel.
    + eapply safe3_mono; [apply IHn; [split; auto|exists c2; auto|fuel|fuel]|].
      intros z s3 P3. simpl in P3. fuel.
  - destruct (hd_error (tl (st_tape s))) as [e2|]; [|exact Leave].
    destruct e2; try exact Leave.
    destruct (negb (Nat.eqb sock (c_sock c))); [exact Leave|].
    apply safe3_bind.
    eapply safe3_mono; [apply (fp_handle_conn_error _ _ IH3 co true st _ _ I Hc); fuel|].
    intros [] s2 P2. unfold fpost in P2. apply safe3_ret. fuel.
Qed.

Lemma flush_requeue_fuel f rq : forall s, Inv2 s -> need (pot s) 1 <= f ->
  safe3 (flush_requeue cf f rq) s (ipost s).
Proof.
  pose proof (S1 f) as IH. pose proof (S3 f) as IH3. unfold ipost.
  induction rq as [|qid rest IHr]; intros s [I St] Hf; simpl; [apply safe3_ret; split; [split|]; auto|].
  apply safe3_bind. apply safe3_get. apply safe3_bind.
  destruct (lookup qid (st_byqid s)) as [qo|] eqn:Lk.
  - destruct (inv_byqid _ _ I _ _ Lk) as [Hl _].
    apply safe3_bind.
    eapply safe3_mono; [apply safe3_with; [apply (sp_send_query _ _ IH qo s I Hl)|apply (fp_send_query _ _ IH3 qo s I Hl); fuel]|].
    intros z s1 [[I1 F1] P1]. unfold fpost in P1. apply safe3_ret.
    eapply safe3_mono; [apply IHr; [split; [exact I1|exact (stable_frame _ _ _ St F1)]|fuel]|].
    intros [] s2 [I2 P2]. split; auto. lia.
  - apply safe3_ret. apply IHr; auto. split; auto.
Qed.

Lemma read_done_fuel s co : Inv2 s -> reading s co ->
  safe3 (let! c := get_conn co in if c_closed c then free_obj co else store co (CConn (set_c_reading false c))) s (ppost s).
Proof.
  intros [I St] [c [Hc Hrd]]. unfold ppost.
  apply safe3_bind. eapply safe3_get_conn; [exact (inv_heap _ _ I)|exact Hc|].
  destruct (c_closed c).
  - eapply safe3_free; [exact (inv_heap _ _ I)|exact Hc|].
    rewrite (pot_free None s co (CConn c) I Hc Logic.I (conn_unlinked' _ _ _ _ I Hc)). lia.
  - eapply safe3_store; [exact (inv_heap _ _ I)|exact Hc|].
    rewrite (pot_store_unlinked None s co (CConn c) (CConn (set_c_reading false c)) I Hc Logic.I Logic.I (conn_unlinked' _ _ _ _ I Hc)). lia.
Qed.

Lemma read_answers_fuel f co s c : Inv2 s -> cell_of s co = Some (CConn c) -> In co (st_conns s) -> need (pot s) 6 <= f ->
  safe3 (read_answers cf f co) s (ipost s).
Proof.
  intros [I St] Hc Hin Hf. unfold read_answers, ipost.
  apply safe3_bind. eapply safe3_get_conn; [exact (inv_heap _ _ I)|exact Hc|].
  rewrite (fx_connread_true cf Hfix).
  apply safe3_bind. eapply safe3_store; [exact (inv_heap _ _ I)|exact Hc|].
  destruct (store_conn_flags_ok2 s co c (set_c_reading true c) (conj I St) Hc eq_refl eq_refl) as [I1 Hc1].
  { simpl. intros H. exact (inv_closed _ _ I _ _ Hc H). }
  { simpl. intros H. destruct (inv_conns _ _ I) as [_ Hcc]. destruct (Hcc _ H) as [c0 [Hc0 Hcl]].
    rewrite Hc in Hc0. inversion Hc0; subst. exact Hcl. }
  pose proof (pot_store_unlinked None s co (CConn c) (CConn (set_c_reading true c)) I Hc Logic.I Logic.I (conn_unlinked' _ _ _ _ I Hc)) as P1.
  assert (R1 : reading (store_st co (CConn (set_c_reading true c)) s) co).
  { exists (set_c_reading true c). split; auto. }
  apply safe3_bind.
  eapply safe3_mono; [apply safe3_with; [apply (read_loop_ok cf Hfix f f co [] _ I1 R1)|apply (read_loop_fuel f f co [] _ I1 R1); fuel]|].
  intros rq s2 [[I2 R2] P2]. unfold ppost in P2.
  apply safe3_bind.
  eapply safe3_mono; [apply safe3_with; [apply (flush_requeue_reading cf Hfix f rq co s2 I2 R2)|apply (flush_requeue_fuel f rq s2 I2); fuel]|].
  intros [] s3 [[I3 R3] [_ P3]].
  eapply safe3_mono; [apply safe3_with; [apply (read_done_ok s3 co I3 R3)|apply (read_done_fuel s3 co I3 R3)]|].
  intros [] s4 [I4 P4]. unfold ppost in P4. split; auto. lia.
Qed.

Lemma destroy_loop_fuel f n : forall s, Inv2 s -> need (pot s) 1 <= f -> pot s < n ->
  safe3 (destroy_loop_fixed cf f n) s (ipost s).
Proof.
  pose proof (S1 f) as IH. pose proof (S3 f) as IH3. unfold ipost.
  induction n as [|n IHn]; intros s [I St] Hf Hn; simpl; [lia|].
  apply safe3_bind. apply safe3_get.
  destruct (st_lists s) as [|[|qo l] r] eqn:El; try (apply safe3_ret; split; [split|]; auto).
  assert (Hl : In qo (linked s)) by (unfold linked; rewrite El; simpl; left; reflexivity).
  apply safe3_bind.
  eapply safe3_mono; [apply safe3_with; [apply (sp_complete_query _ _ IH qo _ s (inv_weaken _ _ I) Hl)
                                        |apply (fp_complete_query _ _ IH3 qo _ s (inv_weaken _ _ I) Hl); fuel]|].
  intros [] s1 [[I1 F1] P1]. unfold fpost in P1.
  eapply safe3_mono; [apply IHn; [split; [exact I1|exact (stable_frame _ _ _ St F1)]|fuel|lia]|].
  intros [] s2 [I2 P2]. split; auto. lia.
Qed.

Lemma destroy_conns_fuel f n : forall s, Inv2 s -> need (pot s) 5 <= f -> pot s < n ->
  safe3 (destroy_conns cf f n) s (ipost s).
Proof.
  pose proof (S1 f) as IH. pose proof (S3 f) as IH3. unfold ipost.
  induction n as [|n IHn]; intros s [I St] Hf Hn; simpl; [lia|].
  apply safe3_bind. apply safe3_get.
  destruct (st_conns s) as [|co0 r] eqn:Ec; [apply safe3_ret; split; [split|]; auto|].
  apply safe3_bind. apply safe3_peek.
  destruct (hd_error (st_tape s)) as [e|]; [|apply safe3_fail; auto with fuel].
  destruct e; try (apply safe3_fail; auto with fuel).
  destruct (find_conn_by_sock_ok _ s sock I) as [r0 [E1 Hr]].
  apply safe3_bind. eapply safe3_of_run; [exact E1|].
  destruct r0 as [co|]; [|apply safe3_fail; auto with fuel].
  destruct (Hr _ eq_refl) as [Hin [c [Hc Hncl]]].
  apply safe3_bind.
  eapply safe3_mono; [apply safe3_with; [apply (sp_close_connection _ _ IH co ARES_SUCCESS s c I Hc)
                                        |apply (fp_close_connection _ _ IH3 co ARES_SUCCESS s c I Hc); fuel]|].
  intros [] s1 [[I1 F1] P1]. unfold fpost in P1.
  eapply safe3_mono; [apply IHn; [split; [exact I1|exact (stable_frame _ _ _ St F1)]|fuel|lia]|].
  intros [] s2 [I2 P2]. split; auto. lia.
Qed.

Lemma destroy_fuel f s : Inv2 s -> need (pot s) 5 <= f -> safe3 (destroy cf f) s (ppost s).
Proof.
  intros [I St] Hf. unfold destroy, ppost.
  apply safe3_bind. apply safe3_modify.
  set (s1 := set_destroying true s).
  assert (E1 : core_eq s s1) by apply core_eq_set_destroying.
  assert (I1 : Inv2 s1) by (split; [apply (inv_core _ _ _ E1); auto|apply (stable_core _ _ E1); auto]).
  assert (P1 : pot s1 = pot s) by reflexivity.
  apply safe3_bind. apply safe3_get. rewrite (fx_unlink_true cf Hfix).
  apply safe3_bind. eapply safe3_mono; [apply (destroy_loop_fuel f f s1 I1); fuel|].
  intros [] s2 [I2 P2]. apply safe3_bind. apply safe3_get.
  destruct (negb _); [apply safe3_fail; unfold EASSERT, OutOfFuel; lia|].
  eapply safe3_mono; [apply (destroy_conns_fuel f f s2 I2); fuel|].
  intros [] s3 [I3 P3]. lia.
Qed.

Lemma process_writes_fuel f socks : forall s, Inv2 s -> need (pot s) 5 <= f -> safe3 (process_writes cf f socks) s (ipost s).
Proof.
  pose proof (S1 f) as IH. pose proof (S3 f) as IH3. unfold ipost.
  induction socks as [|sock rest IHr]; intros s [I St] Hf; simpl; [apply safe3_ret; split; [split|]; auto|].
  destruct (find_conn_by_sock_ok _ s sock I) as [r0 [E1 Hr]].
  apply safe3_bind. eapply safe3_of_run; [exact E1|]. apply safe3_bind.
  destruct r0 as [co|]; [|apply safe3_ret; apply IHr; auto; split; auto].
  destruct (Hr _ eq_refl) as [Hin [c [Hc Hncl]]].
  apply safe3_bind. eapply safe3_get_conn; [exact (inv_heap _ _ I)|exact Hc|].
  apply safe3_bind. apply safe3_pop. intros e rest0 Et. destruct e; try (apply safe3_fail; auto with fuel).
  set (s1 := set_tape rest0 s).
  assert (E2 : core_eq s s1) by apply core_eq_set_tape.
  assert (I1 : Inv s1) by (apply (inv_core _ _ _ E2); auto).
  assert (St1 : Stable s1) by (apply (stable_core _ _ E2); auto).
  pose proof (pot_set_tape _ _ _ Et) as P1. fold s1 in P1.
  destruct (negb (Nat.eqb sock0 sock)); [apply safe3_fail; auto with fuel|].
  destruct (zeqb rc ARES_SUCCESS).
  - apply safe3_ret. eapply safe3_mono; [apply IHr; [split; auto|fuel]|]. intros [] s2 [I2 P2]. split; auto. lia.
  - eapply safe3_mono; [apply safe3_with; [apply (sp_handle_conn_error _ _ IH co true rc s1 c I1 Hc)
                                          |apply (fp_handle_conn_error _ _ IH3 co true rc s1 c I1 Hc); fuel]|].
    intros [] s2 [[I2 F2] P2]. unfold fpost in P2.
    eapply safe3_mono; [apply IHr; [split; [exact I2|exact (stable_frame _ _ _ St1 F2)]|fuel]|].
    intros [] s3 [I3 P3]. split; auto. lia.
Qed.

Lemma process_reads_fuel f socks : forall s, Inv2 s -> need (pot s) 6 <= f -> safe3 (process_reads cf f socks) s (ipost s).
Proof.
  unfold ipost.
  induction socks as [|sock rest IHr]; intros s [I St] Hf; simpl; [apply safe3_ret; split; [split|]; auto|].
  destruct (find_conn_by_sock_ok _ s sock I) as [r0 [E1 Hr]].
  apply safe3_bind. eapply safe3_of_run; [exact E1|]. apply safe3_bind.
  destruct r0 as [co|]; [|apply safe3_ret; apply IHr; auto; split; auto].
  destruct (Hr _ eq_refl) as [Hin [c [Hc Hncl]]].
  eapply safe3_mono; [apply (read_answers_fuel f co s c (conj I St) Hc Hin Hf)|].
  intros [] s1 [I1 P1]. eapply safe3_mono; [apply IHr; [exact I1|fuel]|]. intros [] s2 [I2 P2]. split; auto. lia.
Qed.

Lemma process_timeouts_fuel f n : forall s, Inv2 s -> need (pot s) 3 <= f -> pot s < n ->
  safe3 (process_timeouts cf f n) s (ipost s).
Proof.
  pose proof (S1 f) as IH. pose proof (S3 f) as IH3. unfold ipost.
  induction n as [|n IHn]; intros s [I St] Hf Hn; simpl; [lia|].
  apply safe3_bind. apply safe3_peek. apply safe3_bind. apply safe3_peek2.
  destruct (hd_error (st_tape s)) as [e|]; [|apply safe3_ret; split; [split|]; auto].
  destruct e; try (apply safe3_ret; split; [split|]; auto).
  assert (G : safe3 (let! s0 := get in
                    match timeout_victim (st_tape s0) with
                    | Some qid =>
                        match lookup qid (st_byqid s0) with
                        | Some qo =>
                            if negb (memb qo (st_bytmo s0)) then fail EDESYNC
                            else let! q := get_query qo in
                                 match q_conn q with
                                 | Some co => let! _ := get_conn co in ret tt
                                 | None => fail EINTERNAL end;;
                                 expect_TS;;
                                 (let! _ := requeue_query cf f qo ARES_ETIMEOUT true false (res ARES_ETIMEOUT) in
                                  process_timeouts cf f n)
                        | None => fail EDESYNC end
                    | None => fail EDESYNC end) s (fun _ s' => Inv2 s' /\ pot s' <= pot s)).
  { apply safe3_bind. apply safe3_get.
    destruct (timeout_victim (st_tape s)) as [qid|]; [|apply safe3_fail; auto with fuel].
    destruct (lookup qid (st_byqid s)) as [qo|] eqn:Lk; [|apply safe3_fail; auto with fuel].
    destruct (memb qo (st_bytmo s)) eqn:Mb; simpl; [|apply safe3_fail; auto with fuel].
    apply memb_In in Mb.
    destruct (inv_bytmo _ _ I _ Mb) as [Hl [q [co [c [Hq [Hqc [Hc _]]]]]]].
    apply safe3_bind. eapply safe3_get_query; [exact (inv_heap _ _ I)|exact Hq|].
    rewrite Hqc. apply safe3_bind. apply safe3_bind. eapply safe3_get_conn; [exact (inv_heap _ _ I)|exact Hc|].
    apply safe3_ret. apply safe3_bind. apply safe3_expect; [left; reflexivity|]. intros e1 l1 Et1.
    assert (E1 : core_eq s (set_tape l1 s)) by apply core_eq_set_tape.
    pose proof (pot_set_tape _ _ _ Et1) as P1.
    apply safe3_bind.
    eapply safe3_mono; [apply safe3_with;
       [apply (sp_requeue_query _ _ IH qo ARES_ETIMEOUT true false _ (set_tape l1 s));
          [apply inv_weaken; apply (inv_core _ _ _ E1); auto|exact Hl]
       |apply (fp_requeue_query _ _ IH3 qo ARES_ETIMEOUT true false _ (set_tape l1 s));
          [apply inv_weaken; apply (inv_core _ _ _ E1); auto|exact Hl|fuel]]|].
    intros z s2 [[I2 F2] P2]. unfold fpost in P2.
    eapply safe3_mono; [apply IHn; [split; [exact I2|exact (stable_frame _ _ _ (stable_core _ _ E1 St) F2)]|fuel|fuel]|].
    intros [] s3 [I3 P3]. split; auto. fuel. }
  destruct (hd_error (tl (st_tape s))) as [e2|]; [|exact G].
  destruct e2; try exact G. apply safe3_ret. split; [split|]; auto.
Qed.

Lemma process_fds_fuel f w r s : Inv2 s -> need (pot s) 7 <= f -> safe3 (process_fds cf f w r) s (ppost s).
Proof.
  intros I Hf. pose proof (S1 f) as IH. pose proof (S3 f) as IH3. unfold process_fds, ppost.
  apply safe3_bind. eapply safe3_mono; [apply (process_writes_fuel f w s I); fuel|]. intros [] s1 [I1 P1].
  apply safe3_bind. eapply safe3_mono; [apply (process_reads_fuel f r s1 I1); fuel|]. intros [] s2 [[I2 St2] P2].
  apply safe3_bind.
  eapply safe3_mono; [apply safe3_with; [apply (sp_check_cleanup _ _ IH s2 I2)|apply (fp_check_cleanup _ _ IH3 s2 I2); fuel]|].
  intros [] s3 [[I3 F3] P3]. unfold fpost in P3.
  eapply safe3_mono; [apply (process_timeouts_fuel f f s3); [split; [exact I3|exact (stable_frame _ _ _ St2 F3)]|fuel|fuel]|].
  intros [] s4 [I4 P4]. lia.
Qed.

(* ---- one input ---- *)
Definition input_size (i : input) : nat :=
  match i with IApi c => call_size c | IOnCb _ c => S (call_size c) | _ => 0 end.

Lemma step_fuel f i tape s : Inv2 s -> need (pot s + wT * length tape + input_size i) 8 <= f ->
  safe3 (step cf f i tape) s (fun _ s' => pot s' <= pot s + wT * length tape + input_size i).
Proof.
  intros [I St] Hf. pose proof (S1 f) as IH. pose proof (S3 f) as IH3. unfold step.
  apply safe3_bind. apply safe3_modify.
  set (s1 := set_tape tape s).
  assert (E1 : core_eq s s1) by apply core_eq_set_tape.
  assert (I1 : Inv s1) by (apply (inv_core _ _ _ E1); auto).
  assert (St1 : Stable s1) by (apply (stable_core _ _ E1); auto).
  assert (P1 : pot s1 <= pot s + wT * length tape).
  { pose proof (pot_tape_eq s tape) as E. fold s1 in E. lia. }
  assert (Fin : forall s2, pot s2 <= pot s + wT * length tape + input_size i ->
            safe3 (let! s0 := get in match st_tape s0 with [] => ret tt | _ :: _ => fail EDESYNC end) s2
                  (fun _ s' => pot s' <= pot s + wT * length tape + input_size i)).
  { intros s2 P2. apply safe3_bind. apply safe3_get. destruct (st_tape s2); [apply safe3_ret; exact P2|apply safe3_fail; auto with fuel]. }
  apply safe3_bind.
  destruct i as [c|t c|w r|]; simpl input_size in *.
  - assert (Dflt : safe3 (api cf f c) s1 (fun _ s0 => safe3 (let! s3 := get in match st_tape s3 with [] => ret tt | _ :: _ => fail EDESYNC end) s0
                         (fun _ s' => pot s' <= pot s + wT * length tape + call_size c))).
    { eapply safe3_mono; [apply (fp_api _ _ IH3 c s1 I1); fuel|].
      intros [] s2 P2. unfold fpost in P2. apply Fin. lia. }
    destruct c; try exact Dflt.
    apply safe3_bind. apply safe3_emit.
    set (s2 := set_trace (EvCancelBegin :: st_trace s1) s1).
    assert (E2 : core_eq s1 s2) by apply core_eq_set_trace.
    assert (I2 : Inv s2) by (apply (inv_core _ _ _ E2); auto).
    assert (P2 : pot s2 = pot s1) by reflexivity.
    apply safe3_bind.
    eapply safe3_mono; [apply (fp_cancel _ _ IH3 s2 I2); fuel|].
    intros [] s3 P3. unfold fpost in P3. apply safe3_emit. apply Fin. rewrite pot_set_trace. simpl call_size. lia.
  - apply safe3_modify. apply Fin. pose proof (pot_add_script t c s1). lia.
  - eapply safe3_mono; [apply (process_fds_fuel f w r s1 (conj I1 St1)); fuel|].
    intros [] s2 P2. unfold ppost in P2. apply Fin. lia.
  - apply safe3_bind. apply safe3_emit.
    set (s2 := set_trace (EvDestroyBegin :: st_trace s1) s1).
    assert (E2 : core_eq s1 s2) by apply core_eq_set_trace.
    assert (P2 : pot s2 = pot s1) by reflexivity.
    apply safe3_bind.
    eapply safe3_mono; [apply (destroy_fuel f s2); [split; [apply (inv_core _ _ _ E2); auto|apply (stable_core _ _ E2); auto]|fuel]|].
    intros [] s3 P3. unfold ppost in P3. apply safe3_emit. apply Fin. rewrite pot_set_trace. lia.
Qed.

Definition hist_size (h : list (input * list tev)) : nat :=
  list_sum (map (fun it => wT * length (snd it) + input_size (fst it)) h).

Lemma run_from_fuel f h : forall s B, Inv2 s -> pot s + hist_size h <= B -> need B 8 <= f ->
  safe3 (run_from cf f h) s (fun d s' => d = false -> Inv2 s' /\ pot s' <= B).
Proof.
  induction h as [|[i tape] rest IHh]; intros s B I HB Hf; simpl.
  - apply safe3_ret. intros _. split; auto. unfold hist_size in HB. simpl in HB. lia.
  - change (hist_size ((i, tape) :: rest)) with (wT * length tape + input_size i + hist_size rest) in HB.
    assert (G : safe3 (step cf f i tape;; run_from cf f rest) s (fun d s' => d = false -> Inv2 s' /\ pot s' <= B)).
    { apply safe3_bind.
      eapply safe3_mono; [apply safe3_with; [apply (step_ok cf f i tape s Hfix I)|apply (step_fuel f i tape s I); fuel]|].
      intros [] s1 [I1 P1]. apply (IHh s1 B I1); [lia|exact Hf]. }
    destruct i; try exact G.
    apply safe3_bind.
    eapply safe3_mono; [apply (step_fuel f IDestroy tape s I); fuel|].
    intros [] s1 P1. apply safe3_ret. discriminate.
Qed.

End FixedF2.

(* the bound *)
Definition fuel_bound (h : list (input * list tev)) (final : list tev) : nat :=
  K * (hist_size h + wT * length final) + 10.

Theorem run_fuel_sufficient cf fuel h final :
  cf_fix cf = all_fixed -> fuel_bound h final <= fuel -> run cf fuel h final <> Err OutOfFuel.
Proof.
  intros Hfix Hb Hrun. unfold run in Hrun.
  assert (P0 : pot (init_state cf) = 0) by reflexivity.
  assert (S : safe3 (let! destroyed := run_from cf fuel h in
                     (if destroyed then ret tt else step cf fuel IDestroy final);; emit EvEnd)
                    (init_state cf) (fun _ _ => True)).
  { apply safe3_bind.
    eapply safe3_mono; [apply (run_from_fuel cf Hfix fuel h (init_state cf) (hist_size h) (init_inv cf)); [lia|unfold fuel_bound in Hb; fuel]|].
    intros d s1 H1. apply safe3_bind. destruct d.
    - apply safe3_ret. apply safe3_emit. exact Logic.I.
    - destruct (H1 eq_refl) as [I1 P1].
      eapply safe3_mono; [apply (step_fuel cf Hfix fuel IDestroy final s1 I1); unfold fuel_bound in Hb; simpl input_size; fuel|].
      intros [] s2 _. apply safe3_emit. exact Logic.I. }
  unfold safe3 in S.
  destruct ((let! destroyed := run_from cf fuel h in
             (if destroyed then ret tt else step cf fuel IDestroy final);; emit EvEnd) (init_state cf))
    as [[a s']|e|k']; try discriminate.
  inversion Hrun; subst. apply S. reflexivity.
Qed.

(* the same number computed without deep recursion (the extracted naturals are unary and the
   driver's histories are long) *)
Fixpoint tlen {A} (l : list A) (acc : nat) : nat := match l with [] => acc | _ :: r => tlen r (S acc) end.
Definition hist_size_tr (h : list (input * list tev)) : nat :=
  fold_left (fun acc it => Nat.tail_add (Nat.tail_add (Nat.tail_mul wT (tlen (snd it) 0)) (input_size (fst it))) acc) h 0.
Definition fuel_bound_tr (h : list (input * list tev)) (final : list tev) : nat :=
  Nat.tail_add (Nat.tail_mul K (Nat.tail_add (hist_size_tr h) (Nat.tail_mul wT (tlen final 0)))) 10.

Lemma tlen_spec {A} (l : list A) : forall acc, tlen l acc = length l + acc.
Proof. induction l as [|a l IH]; intros acc; simpl; [reflexivity|]. rewrite IH. lia. Qed.

Lemma hist_size_tr_eq h : hist_size_tr h = hist_size h.
Proof.
  unfold hist_size_tr, hist_size.
  assert (G : forall acc, fold_left (fun acc it => Nat.tail_add (Nat.tail_add (Nat.tail_mul wT (tlen (snd it) 0)) (input_size (fst it))) acc) h acc
                          = acc + list_sum (map (fun it => wT * length (snd it) + input_size (fst it)) h)).
  { induction h as [|it h IH]; intros acc; [simpl; lia|].
    cbn [fold_left map]. change (list_sum (?a :: ?l)) with (a + list_sum l).
    rewrite IH. rewrite !Nat.tail_add_spec, Nat.tail_mul_spec, tlen_spec. unfold wT. lia. }
  rewrite G. reflexivity.
Qed.

Lemma fuel_bound_tr_eq h final : fuel_bound_tr h final = fuel_bound h final.
Proof.
  unfold fuel_bound_tr, fuel_bound. rewrite !Nat.tail_add_spec, !Nat.tail_mul_spec, hist_size_tr_eq, tlen_spec. unfold K, wT. lia.
Qed.
