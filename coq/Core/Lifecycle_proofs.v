(* C01: the fixed lifecycle model keeps its invariant and never runs into undefined behaviour.
   Specifications of the mutually recursive functions (everything a callback can reach), proved
   by induction on the fuel, for all seven entry points.

   host_query (getaddrinfo / gethostbyname): a function that is handed a closure ending in
   KHost o (host_callback with argument o) is handed one of the answers o waits for; its frame
   (FrameG (dg (kbot k))) says that "remaining - number of linked queries pointing at o" went
   down by exactly one and that o stays alive while that difference is positive.  The function
   that works on a host_query waiting for nothing (next_lookup, end_hquery) owns it (HOwn) and
   leaves it released or waiting for exactly the queries that point at it (settled). *)
From Coq Require Import List ZArith Lia Bool Arith.
Import ListNotations.
From CAres.Base Require Import Outcome.
From CAres.Gen Require Import Consts.
From CAres.Core Require Import LifecycleMonitor Lifecycle Lifecycle_inv.

Section Fixed.
Variable cf : config.
Hypothesis Hfix : cf_fix cf = all_fixed.

Definition post (s : state) (L : list obj) : unit -> state -> Prop := fun _ s' => Inv s' /\ Frame s s' L.
Definition postA {A} (s : state) (L : list obj) : A -> state -> Prop := fun _ s' => Inv s' /\ Frame s s' L.
(* for the functions that are handed a closure: if it ends in a host_query, they deliver (or link) one
   of the answers that host_query waits for *)
Definition postG (g : option obj) (s : state) (L : list obj) : unit -> state -> Prop :=
  fun _ s' => Inv s' /\ FrameG (dg g) s s' L.
Definition postGA {A} (g : option obj) (s : state) (L : list obj) : A -> state -> Prop :=
  fun _ s' => Inv s' /\ FrameG (dg g) s s' L.
(* "&hquery->qid_a": the id goes into the host_query the closure ends in *)
Definition QdOk (qd : option (obj * bool)) (k : cbk) : Prop :=
  match qd with Some (o, _) => kbot k = Some o | None => True end.
(* a host_query that is not waiting for anything, handed to the function that goes on with it *)
Definition HOwn (s : state) (o : obj) (h : hostq) : Prop :=
  cell_of s o = Some (CHost h) /\ h_remaining h = 0 /\ nohost (h_cb h) /\ Own s (cobjs (h_cb h)).
Definition postH (s : state) (o : obj) (h : hostq) : unit -> state -> Prop :=
  fun _ s' => Inv s' /\ Frame s s' (o :: cobjs (h_cb h)) /\ settled s' o (h_cb h).

Record Specs (f : nat) : Prop := {
  sp_invoke : forall k r s, Inv s -> Own s (cobjs k) -> GivenOk s (kbot k) -> safe (invoke cf f k r) s (postG (kbot k) s (cobjs k));
  sp_run_script : forall sc s, Inv s -> safe (run_script cf f sc) s (post s []);
  sp_api : forall c s, Inv s -> safe (api cf f c) s (post s []);
  sp_query_nolock : forall k qd s, Inv s -> Own s (cobjs k) -> GivenOk s (kbot k) -> QdOk qd k ->
      safe (query_nolock cf f k qd) s (postGA (kbot k) s (cobjs k));
  sp_send_nolock : forall k pr qd s, Inv s -> Own s (cobjs k) -> GivenOk s (kbot k) -> QdOk qd k ->
      safe (send_nolock cf f k pr qd) s (postGA (kbot k) s (cobjs k));
  sp_send_query : forall qo s, Inv s -> In qo (linked s) -> safe (send_query cf f qo) s (postA s []);
  sp_send_query_write : forall qo op s, Inv s -> In qo (linked s) -> safe (send_query_write cf f qo op) s (postA s []);
  sp_requeue_query : forall qo st inc df r s, InvX (Some qo) s -> In qo (linked s) ->
      safe (requeue_query cf f qo st inc df r) s (postA s []);
  sp_end_query : forall qo st r s, InvX (Some qo) s -> In qo (linked s) -> safe (end_query cf f qo st r) s (post s []);
  sp_complete_query : forall qo r s, InvX (Some qo) s -> In qo (linked s) -> safe (complete_query cf f qo r) s (post s []);
  sp_handle_conn_error : forall co cr st s c, Inv s -> cell_of s co = Some (CConn c) ->
      safe (handle_conn_error cf f co cr st) s (post s [co]);
  sp_close_connection : forall co st s c, Inv s -> cell_of s co = Some (CConn c) ->
      safe (close_connection cf f co st) s (post s [co]);
  sp_requeue_conn_queries : forall n co st s c, Inv s -> cell_of s co = Some (CConn c) -> ~ rooted s co ->
      safe (requeue_conn_queries cf f n co st) s
           (fun _ s' => Inv s' /\ Frame s s' [] /\ exists c', cell_of s' co = Some (CConn c') /\ c_queries c' = []);
  sp_check_cleanup : forall s, Inv s -> safe (check_cleanup cf f) s (post s []);
  sp_cleanup_loop : forall n s, Inv s -> safe (cleanup_loop cf f n) s (post s []);
  sp_set_servers : forall s, Inv s -> safe (set_servers cf f) s (post s []);
  sp_set_servers_loop : forall n s, Inv s -> safe (set_servers_loop cf f n) s (post s []);
  sp_cancel : forall s, Inv s -> safe (cancel cf f) s (post s []);
  sp_cancel_loop : forall n s, Inv s ->
      safe (cancel_loop_fixed cf f n) s
           (fun _ s' => Inv s' /\ Frame s s' [] /\ forall a qo l r, st_lists s' <> a :: (qo :: l) :: r);
  sp_search_int : forall k names s, Inv s -> Own s (cobjs k) -> GivenOk s (kbot k) ->
      safe (search_int cf f k names) s (postGA (kbot k) s (cobjs k));
  sp_search_next : forall o k l nd s, Inv s -> Own s (o :: cobjs k) -> GivenOk s (kbot k) ->
      safe (search_next cf f o k l nd) s
           (fun r s' => Inv s' /\ if snd r then FrameG (dg (kbot k)) s s' (o :: cobjs k)
                                   else Frame s s' [] /\ Own s' (o :: cobjs k) /\ GivenOk s' (kbot k)
                                        /\ zeqb (fst r) ARES_SUCCESS = false);
  sp_search_callback : forall o k cs l nd r s, Inv s -> Own s (o :: cobjs k) -> GivenOk s (kbot k) ->
      safe (search_callback cf f o k cs l nd r) s (postG (kbot k) s (o :: cobjs k));
  sp_end_squery : forall o k r s, Inv s -> Own s (o :: cobjs k) -> GivenOk s (kbot k) ->
      safe (end_squery cf f o k r) s (postG (kbot k) s (o :: cobjs k));
  sp_addr_next_lookup : forall o k l s, Inv s -> Own s (o :: cobjs k) -> GivenOk s (kbot k) ->
      safe (addr_next_lookup cf f o k l) s (postG (kbot k) s (o :: cobjs k));
  sp_addr_callback : forall o k l r s, Inv s -> Own s (o :: cobjs k) -> GivenOk s (kbot k) ->
      safe (addr_callback cf f o k l r) s (postG (kbot k) s (o :: cobjs k));
  sp_end_aquery : forall o k r s, Inv s -> Own s (o :: cobjs k) -> GivenOk s (kbot k) ->
      safe (end_aquery cf f o k r) s (postG (kbot k) s (o :: cobjs k));
  sp_host_next_lookup : forall o st s h, Inv s -> HOwn s o h -> safe (host_next_lookup cf f o st) s (postH s o h);
  sp_host_next_dns_lookup : forall o s h, Inv s -> HOwn s o h -> safe (host_next_dns_lookup cf f o) s (postH s o h);
  sp_host_callback : forall o r s, Inv s -> GivenOk s (Some o) -> safe (host_callback cf f o r) s (postG (Some o) s []);
  sp_end_hquery : forall o st s h, Inv s -> HOwn s o h -> safe (end_hquery cf f o st) s (postH s o h)
}.

(* ---- small helpers ---- *)
Lemma inv_core x s s' : core_eq s s' -> st_scripts s' = st_scripts s -> InvX x s -> InvX x s'.
Proof. intros E _ I. apply (ce_inv x s s' E); auto. Qed.

Lemma ce_refl_frame x s s' : InvX x s -> core_eq s s' -> Frame s s' [].
Proof. intros I E. apply ce_frame_refl; auto. exact (inv_heap _ _ I). Qed.

(* at fuel 0 everything is out of fuel *)
Lemma specs_O : Specs 0.
Proof.
  constructor; intros; try (apply safe_fail).
Qed.

(* ---- steps that only touch tape / trace / scripts ---- *)
Lemma take_script_ok x t s :
  InvX x s ->
  exists sc s', take_script t s = Ok (sc, s') /\ core_eq s s' /\ InvX x s'.
Proof.
  intros I. unfold take_script. destruct (lookup t (st_scripts s)) as [l|] eqn:E.
  - exists l, (set_scripts (remove_key t (st_scripts s)) s). split; [reflexivity|]. split; [apply core_eq_set_scripts|].
    apply (ce_inv x s _ (core_eq_set_scripts _ s)); auto.
  - exists [], s. split; [reflexivity|]. split; [apply core_eq_refl|]. auto.
Qed.

Lemma own_core s s' L : core_eq s s' -> Own s L -> Own s' L.
Proof. apply ce_own. Qed.

(* ---- invoke ---- *)
Lemma invoke_step f : Specs f -> forall k r s, Inv s -> Own s (cobjs k) -> GivenOk s (kbot k) ->
  safe (invoke cf (S f) k r) s (postG (kbot k) s (cobjs k)).
Proof.
  intros IH k r s I O Hg. destruct k as [t| |w o k'|o k' cs l nd|o k' l|o]; simpl.
  - (* KUser *)
    apply safe_bind. apply safe_emit.
    set (s1 := set_trace (EvCb t (r_status r) :: st_trace s) s).
    assert (E1 : core_eq s s1) by apply core_eq_set_trace.
    assert (I1 : Inv s1) by (apply (inv_core _ _ _ E1); auto).
    destruct (take_script_ok _ t s1 I1) as [sc [s2 [E2 [C2 I2]]]].
    apply safe_bind. eapply safe_of_run; [exact E2|].
    eapply safe_mono; [apply (sp_run_script _ IH); auto|].
    intros [] s' [I' F']. split; auto. simpl.
    apply (frame_core_l _ _ _ _ (core_eq_trans _ _ _ E1 C2) F').
  - (* KProbe *)
    apply safe_ret. split; auto. apply (frame_refl _ _ I).
  - (* KWrap *)
    simpl in O, Hg. destruct (own_cons _ _ _ O) as [Hc [Hr [Hni O']]].
    apply safe_bind. eapply safe_touch; [exact (inv_heap _ _ I)|exact Hc|].
    apply safe_bind. eapply safe_mono; [apply (sp_invoke _ IH); auto|].
    intros [] s1 [I1 F1].
    pose proof (fr_cell _ _ _ _ F1 _ _ Hc Hr Hni) as [Hc1 Hr1].
    eapply safe_free; [exact (inv_heap _ _ I1)|exact Hc1|].
    destruct (free_unrooted_ok None s1 o COpaque I1 Hc1 ltac:(discriminate) ltac:(discriminate) Hr1) as [I2 [F2 _]].
    split; [exact I2|]. simpl.
    eapply frame_weaken; [exact (frame_trans_gl _ _ _ _ _ _ F1 F2)|].
    intros y Hy. apply in_app_or in Hy. simpl. destruct Hy as [Hy|[Hy|[]]]; auto.
  - (* KSearch *) simpl in O, Hg. apply (sp_search_callback _ IH); auto.
  - (* KAddr *) simpl in O, Hg. apply (sp_addr_callback _ IH); auto.
  - (* KHost *) simpl in Hg. apply (sp_host_callback _ IH); auto.
Qed.

Lemma run_script_step f : Specs f -> forall sc s, Inv s ->
  safe (run_script cf (S f) sc) s (post s []).
Proof.
  intros IH sc s I. destruct sc as [|c rest]; simpl.
  - apply safe_ret. split; auto. apply (frame_refl _ _ I).
  - apply safe_bind. eapply safe_mono; [apply (sp_api _ IH); auto|].
    intros [] s1 [I1 F1].
    eapply safe_mono; [apply (sp_run_script _ IH); auto|].
    intros [] s2 [I2 F2]. split; auto. exact (frame_trans _ _ _ _ _ F1 F2).
Qed.

Lemma end_squery_step f : Specs f -> forall o k r s, Inv s -> Own s (o :: cobjs k) -> GivenOk s (kbot k) ->
  safe (end_squery cf (S f) o k r) s (postG (kbot k) s (o :: cobjs k)).
Proof.
  intros IH o k r s I O Hg. simpl.
  destruct (own_cons _ _ _ O) as [Hc [Hr [Hni O']]].
  apply safe_bind. eapply safe_touch; [exact (inv_heap _ _ I)|exact Hc|].
  apply safe_bind. eapply safe_mono; [apply (sp_invoke _ IH); auto|].
  intros [] s1 [I1 F1].
  pose proof (fr_cell _ _ _ _ F1 _ _ Hc Hr Hni) as [Hc1 Hr1].
  apply safe_bind. eapply safe_touch; [exact (inv_heap _ _ I1)|exact Hc1|].
  eapply safe_free; [exact (inv_heap _ _ I1)|exact Hc1|].
  destruct (free_unrooted_ok None s1 o COpaque I1 Hc1 ltac:(discriminate) ltac:(discriminate) Hr1) as [I2 [F2 _]].
  split; [exact I2|].
  eapply frame_weaken; [exact (frame_trans_gl _ _ _ _ _ _ F1 F2)|].
  intros y Hy. apply in_app_or in Hy. simpl. destruct Hy as [Hy|[Hy|[]]]; auto.
Qed.

Lemma end_aquery_step f : Specs f -> forall o k r s, Inv s -> Own s (o :: cobjs k) -> GivenOk s (kbot k) ->
  safe (end_aquery cf (S f) o k r) s (postG (kbot k) s (o :: cobjs k)).
Proof.
  intros IH o k r s I O Hg. simpl.
  destruct (own_cons _ _ _ O) as [Hc [Hr [Hni O']]].
  apply safe_bind. eapply safe_touch; [exact (inv_heap _ _ I)|exact Hc|].
  apply safe_bind. eapply safe_mono; [apply (sp_invoke _ IH); auto|].
  intros [] s1 [I1 F1].
  pose proof (fr_cell _ _ _ _ F1 _ _ Hc Hr Hni) as [Hc1 Hr1].
  eapply safe_free; [exact (inv_heap _ _ I1)|exact Hc1|].
  destruct (free_unrooted_ok None s1 o COpaque I1 Hc1 ltac:(discriminate) ltac:(discriminate) Hr1) as [I2 [F2 _]].
  split; [exact I2|].
  eapply frame_weaken; [exact (frame_trans_gl _ _ _ _ _ _ F1 F2)|].
  intros y Hy. apply in_app_or in Hy. simpl. destruct Hy as [Hy|[Hy|[]]]; auto.
Qed.

Lemma fx_unlink_true : fx_unlink (cf_fix cf) = true.
Proof. rewrite Hfix. reflexivity. Qed.
Lemma fx_search_true : fx_search (cf_fix cf) = true.
Proof. rewrite Hfix. reflexivity. Qed.
Lemma fx_revalidate_true : fx_revalidate (cf_fix cf) = true.
Proof. rewrite Hfix. reflexivity. Qed.
Lemma fx_connread_true : fx_connread (cf_fix cf) = true.
Proof. rewrite Hfix. reflexivity. Qed.
Lemma fx_qidearly_true : fx_qidearly (cf_fix cf) = true.
Proof. rewrite Hfix. reflexivity. Qed.
Lemma fx_cancelmark_true : fx_cancelmark (cf_fix cf) = true.
Proof. rewrite Hfix. reflexivity. Qed.

Lemma opaque_not_query s L o q : Own s L -> cell_of s o = Some (CQuery q) -> ~ In o L.
Proof. intros [_ H] Hq Hin. destruct (H _ Hin) as [Hc _]. rewrite Hq in Hc. discriminate. Qed.

(* ---- complete_query (ares_query_complete): unlink, callback, release ---- *)
Lemma complete_query_step f : Specs f -> forall qo r s, InvX (Some qo) s -> In qo (linked s) ->
  safe (complete_query cf (S f) qo r) s (post s []).
Proof.
  intros IH qo r s I Hl. simpl. rewrite fx_unlink_true.
  destruct (inv_query _ _ I _ Hl) as [q Hq].
  destruct (detach_query_ok _ _ _ _ I (or_intror eq_refl) Hl Hq)
    as [s1 [E1 [I1 [F1 [_ [_ [_ [_ [_ [_ [Hq1 [Hr1 [O1 _]]]]]]]]]]]]].
  apply safe_bind. eapply safe_of_run; [exact E1|].
  apply safe_bind. eapply safe_get_query; [exact (inv_heap _ _ I1)|exact Hq1|].
  apply safe_bind. simpl. eapply safe_mono; [apply (sp_invoke _ IH); auto; exact (fd_given _ _ _ F1)|].
  intros [] s2 [I2 F2].
  pose proof (fr_cell _ _ _ _ F2 _ _ Hq1 Hr1 (opaque_not_query _ _ _ _ O1 Hq1)) as [Hq2 Hr2].
  unfold release_query. eapply safe_free; [exact (inv_heap _ _ I2)|exact Hq2|].
  destruct (free_unrooted_ok None s2 qo _ I2 Hq2 ltac:(discriminate) ltac:(discriminate) Hr2) as [I3 [F3 _]].
  split; [exact I3|].
  eapply frame_shrink; [exact (frame_detach_trans _ _ _ _ _ F1 (frame_trans_gl _ _ _ _ _ _ F2 F3))|].
  intros y c Hy Hc. simpl in Hy. apply in_app_or in Hy. destruct Hy as [Hy|[Hy|[]]].
  - right; right; left. eapply chain_of_linked; eauto.
  - subst. left. exact Hl.
Qed.

Lemma end_query_step f : Specs f -> forall qo st r s, InvX (Some qo) s -> In qo (linked s) ->
  safe (end_query cf (S f) qo st r) s (post s []).
Proof.
  intros IH qo st r s I Hl. simpl.
  destruct (inv_query _ _ I _ Hl) as [q Hq].
  apply safe_bind. eapply safe_get_query; [exact (inv_heap _ _ I)|exact Hq|].
  apply safe_bind. apply safe_pop. intros e rest Et.
  set (s1 := set_tape rest s).
  assert (E1 : core_eq s s1) by apply core_eq_set_tape.
  destruct e; try apply safe_fail.
  destruct (negb _); [apply safe_fail|].
  eapply safe_mono; [apply (sp_complete_query _ IH); [apply (inv_core _ _ _ E1); auto|rewrite (ce_linked _ _ E1); auto]|].
  intros [] s2 [I2 F2]. split; auto. exact (frame_core_l _ _ _ _ E1 F2).
Qed.

Lemma requeue_query_step f : Specs f -> forall qo st inc df r s, InvX (Some qo) s -> In qo (linked s) ->
  safe (requeue_query cf (S f) qo st inc df r) s (postA s []).
Proof.
  intros IH qo st inc df r s I Hl. simpl.
  destruct (inv_query _ _ I _ Hl) as [q Hq].
  destruct (remove_from_conn_ok _ _ _ _ I (or_intror eq_refl) Hl Hq)
    as [s1 [E1 [I1 [F1 [El [_ [_ [_ [_ [_ [_ [_ [_ [_ Hc1]]]]]]]]]]]]]].
  apply safe_bind. eapply safe_of_run; [exact E1|].
  assert (Hq1 : cell_of s1 qo = Some (CQuery (set_q_conn None q))) by (rewrite Hc1, Nat.eqb_refl; reflexivity).
  assert (Hl1 : In qo (linked s1)) by (unfold linked; rewrite El; exact Hl).
  apply safe_bind. eapply safe_get_query; [exact (inv_heap _ _ I1)|exact Hq1|].
  set (qa := if zeqb st ARES_SUCCESS then set_q_conn None q else set_q_err st (set_q_conn None q)).
  set (qb := if inc then set_q_try (S (q_try qa)) qa else qa).
  assert (Eb : q_cb qb = q_cb q /\ q_qid qb = q_qid q /\ q_conn qb = None).
  { unfold qb, qa. destruct inc, (zeqb st ARES_SUCCESS); simpl; auto. }
  destruct Eb as [Eb1 [Eb2 Eb3]].
  apply safe_bind. eapply safe_store; [exact (inv_heap _ _ I1)|exact Hq1|].
  destruct (store_query_misc_ok None s1 qo _ qb I1 Hq1 Eb1 Eb2 Eb3) as [I2 [F2 [_ [Ell2 [_ Hq2]]]]].
  set (s2 := store_st qo (CQuery qb) s1) in *.
  assert (Hl2 : In qo (linked s2)) by (rewrite Ell2; exact Hl1).
  assert (F12 : Frame s s2 []).
  { eapply frame_shrink; [exact (frame_trans _ _ _ _ _ F1 F2)|].
    intros y c [Hy|[]] _. subst. left. exact Hl. }
  apply safe_bind. apply safe_get.
  destruct (Nat.ltb (q_try qb) (st_nservers s2 * cf_tries cf) && negb (q_noretry qb)).
  - destruct df.
    + apply safe_ret. split; auto.
    + eapply safe_mono; [apply (sp_send_query _ IH); auto|].
      intros z s3 [I3 F3]. split; auto. exact (frame_trans _ _ _ _ _ F12 F3).
  - apply safe_bind. eapply safe_mono; [apply (sp_end_query _ IH); [apply inv_weaken; exact I2|exact Hl2]|].
    intros [] s3 [I3 F3]. apply safe_ret. split; auto. exact (frame_trans _ _ _ _ _ F12 F3).
Qed.

(* expect_* only consume the tape *)
Lemma safe_expect' (m : M unit) s (Q : unit -> state -> Prop) :
  (m = expect_TS \/ m = expect_TG \/ exists k, m = expect_TCL k) ->
  (forall l, Q tt (set_tape l s)) -> safe m s Q.
Proof.
  intros Hm HQ.
  assert (G : forall (g : tev -> M unit),
            (forall e s0, g e s0 = Ok (tt, s0) \/ exists z, g e s0 = Err z) -> safe (mbind pop g) s Q).
  { intros g Hg. apply safe_bind. apply safe_pop. intros e rest Et.
    unfold safe. destruct (Hg e (set_tape rest s)) as [->|[z ->]]; auto. }
  destruct Hm as [->|[->|[k ->]]]; unfold expect_TS, expect_TG, expect_TCL; apply G; intros e s0.
  - destruct e; try (right; eexists; reflexivity). left; reflexivity.
  - destruct e; try (right; eexists; reflexivity). left; reflexivity.
  - destruct e; try (right; eexists; reflexivity). destruct (Nat.eqb sock k); [left; reflexivity|right; eexists; reflexivity].
Qed.

Lemma safe_expect (m : M unit) s (Q : unit -> state -> Prop) :
  (m = expect_TS \/ m = expect_TG \/ exists k, m = expect_TCL k) ->
  (forall s1, core_eq s s1 -> st_scripts s1 = st_scripts s -> Q tt s1) -> safe m s Q.
Proof.
  intros Hm HQ. apply safe_expect'; auto. intros l. apply HQ; [apply core_eq_set_tape|reflexivity].
Qed.

Lemma requeue_conn_queries_step f : Specs f -> forall n co st s c, Inv s -> cell_of s co = Some (CConn c) -> ~ rooted s co ->
  safe (requeue_conn_queries cf (S f) n co st) s
       (fun _ s' => Inv s' /\ Frame s s' [] /\ exists c', cell_of s' co = Some (CConn c') /\ c_queries c' = []).
Proof.
  intros IH n co st s c I Hc Hr. destruct n as [|n']; simpl; [apply safe_fail|].
  apply safe_bind. eapply safe_get_conn; [exact (inv_heap _ _ I)|exact Hc|].
  destruct (c_queries c) as [|qo rest] eqn:Eq.
  - apply safe_ret. split; auto. split; [apply (frame_refl _ _ I)|]. exists c. auto.
  - assert (Hqo : In qo (c_queries c)) by (rewrite Eq; left; auto).
    destruct (inv_connq _ _ I _ _ _ Hc Hqo) as [Hl _].
    apply safe_bind. eapply safe_mono; [apply (sp_requeue_query _ IH); [apply inv_weaken; exact I|exact Hl]|].
    intros z s1 [I1 F1].
    pose proof (fr_cell _ _ _ _ F1 _ _ Hc Hr (fun H => H)) as [c1 [Hc1 [Hr1 _]]].
    eapply safe_mono; [apply (sp_requeue_conn_queries _ IH n' co st s1 c1); auto|].
    intros [] s2 [I2 [F2 Hex]]. split; auto. split; auto. exact (frame_trans _ _ _ _ _ F1 F2).
Qed.

Lemma close_connection_step f : Specs f -> forall co st s c, Inv s -> cell_of s co = Some (CConn c) ->
  safe (close_connection cf (S f) co st) s (post s [co]).
Proof.
  intros IH co st s c I Hc. simpl.
  apply safe_bind. eapply safe_get_conn; [exact (inv_heap _ _ I)|exact Hc|].
  apply safe_bind. apply safe_modify.
  destruct (conns_remove_ok None s co I) as [I1 [F1 [Hn1 [Ech1 Ell1]]]].
  set (s1 := set_conns (remove_nat co (st_conns s)) s) in *.
  assert (Hc1 : cell_of s1 co = Some (CConn c)) by exact Hc.
  assert (Hr1 : ~ rooted s1 co).
  { intros [H|[H|[H|H]]].
    - destruct (inv_query _ _ I1 _ H) as [q Hq]. rewrite Hc1 in Hq. discriminate.
    - exact (Hn1 H).
    - destruct (inv_chain _ _ I1) as [_ Hop]. rewrite (Hop _ H) in Hc1. discriminate.
    - destruct (hi_objs _ (inv_hosts _ _ I1)) as [_ Hop]. destruct (Hop _ H) as [Hop' _]. rewrite Hop' in Hc1. discriminate. }
  apply safe_bind. eapply safe_mono; [apply (sp_requeue_conn_queries _ IH f co st s1 c); auto|].
  intros [] s2 [I2 [F2 [c2 [Hc2 Eq2]]]].
  pose proof (fr_cell _ _ _ _ F2 _ _ Hc1 Hr1 (fun H => H)) as [c2' [Hc2' [Hr2 _]]].
  rewrite Hc2 in Hc2'. inversion Hc2'; subst c2'. clear Hc2'.
  assert (Hn2 : ~ In co (st_conns s2)) by (intros H; apply Hr2; right; left; exact H).
  apply safe_bind. eapply safe_get_conn; [exact (inv_heap _ _ I2)|exact Hc2|].
  apply safe_bind. apply safe_expect; [right; right; eexists; reflexivity|].
  intros s3 E3 Es3.
  assert (I3 : Inv s3) by (apply (inv_core _ _ _ E3); auto).
  assert (Hc3 : cell_of s3 co = Some (CConn c2)) by (rewrite (ce_cell _ _ _ E3); exact Hc2).
  assert (Hn3 : ~ In co (st_conns s3)) by (rewrite (ce_conns _ _ E3); exact Hn2).
  assert (Fpre : Frame s s3 []).
  { apply (frame_core_r _ _ _ _ (frame_trans _ _ _ _ _ F1 F2) E3). }
  rewrite fx_connread_true. simpl. destruct (c_reading c2) eqn:Er.
  - (* being read: mark closed, read_answers releases it *)
    eapply safe_store; [exact (inv_heap _ _ I3)|exact Hc3|].
    destruct (store_conn_flags_ok None s3 co c2 (set_c_closed true c2) I3 Hc3 eq_refl eq_refl) as [I4 _].
    { intros _. split; auto. }
    { intros H. contradiction. }
    split; [exact I4|].
    assert (F4 : Frame s3 (store_st co (CConn (set_c_closed true c2)) s3) [co]).
    { eapply store_conn_frame; eauto. intros H; contradiction. }
    exact (frame_trans _ _ _ _ _ Fpre F4).
  - eapply safe_free; [exact (inv_heap _ _ I3)|exact Hc3|].
    destruct (free_conn_ok s3 co c2 I3 Hc3 Eq2 Hn3) as [I4 _].
    split; [exact I4|].
    assert (F4 : Frame s3 (free_st co s3) [co]) by (eapply free_conn_frame; eauto).
    exact (frame_trans _ _ _ _ _ Fpre F4).
Qed.

Lemma handle_conn_error_step f : Specs f -> forall co cr st s c, Inv s -> cell_of s co = Some (CConn c) ->
  safe (handle_conn_error cf (S f) co cr st) s (post s [co]).
Proof.
  intros IH co cr st s c I Hc. simpl.
  apply safe_bind. eapply safe_get_conn; [exact (inv_heap _ _ I)|exact Hc|].
  assert (G : forall s1, core_eq s s1 -> st_scripts s1 = st_scripts s ->
            safe (let! e := pop in
                  match e with
                  | TX sock st' => if Nat.eqb sock (c_sock c) && zeqb st st' then close_connection cf f co st else fail EDESYNC
                  | _ => fail EDESYNC end) s1 (post s [co])).
  { intros s1 E1 Es1. apply safe_bind. apply safe_pop. intros e rest Et.
    destruct e; try apply safe_fail. destruct (Nat.eqb sock (c_sock c) && zeqb st st0); [|apply safe_fail].
    set (s2 := set_tape rest s1).
    assert (E2 : core_eq s s2) by (eapply core_eq_trans; [exact E1|apply core_eq_set_tape]).
    eapply safe_mono; [apply (sp_close_connection _ IH co st s2 c); [apply (inv_core _ _ _ E2); auto; simpl; exact Es1|rewrite (ce_cell _ _ _ E2); exact Hc]|].
    intros [] s3 [I3 F3]. split; auto. exact (frame_core_l _ _ _ _ E2 F3). }
  destruct cr.
  - apply safe_bind. apply safe_expect; [left; reflexivity|]. intros s1 E1 Es1. apply G; auto.
  - apply safe_bind. apply safe_ret. apply G; [apply core_eq_refl|reflexivity].
Qed.

Lemma cleanup_loop_step f : Specs f -> forall n s, Inv s -> safe (cleanup_loop cf (S f) n) s (post s []).
Proof.
  intros IH n s I. destruct n as [|n']; simpl; [apply safe_fail|].
  apply safe_bind. apply safe_peek.
  destruct (hd_error (st_tape s)) as [e|]; [|apply safe_fail].
  destruct e; try apply safe_fail.
  - (* TCL *)
    destruct (find_conn_by_sock_ok _ s sock I) as [r [E1 Hr]].
    apply safe_bind. eapply safe_of_run; [exact E1|].
    destruct r as [co|]; [|apply safe_fail].
    destruct (Hr _ eq_refl) as [Hin [c [Hc Hncl]]].
    apply safe_bind. eapply safe_get_conn; [exact (inv_heap _ _ I)|exact Hc|].
    destruct (c_queries c); [|apply safe_fail].
    apply safe_bind. eapply safe_mono; [apply (sp_close_connection _ IH co ARES_SUCCESS s c); auto|].
    intros [] s1 [I1 F1'].
    assert (F1 : Frame s s1 []).
    { eapply frame_shrink; [exact F1'|]. intros y c0 [<-|[]] _. right; left. exact Hin. }
    eapply safe_mono; [apply (sp_cleanup_loop _ IH); auto|].
    intros [] s2 [I2 F2]. split; auto. exact (frame_trans _ _ _ _ _ F1 F2).
  - (* TKE *)
    apply safe_bind. apply safe_pop. intros e rest Et. apply safe_ret.
    assert (E1 : core_eq s (set_tape rest s)) by apply core_eq_set_tape.
    split; [apply (inv_core _ _ _ E1); auto|apply (ce_refl_frame _ _ _ I E1)].
Qed.

Lemma check_cleanup_step f : Specs f -> forall s, Inv s -> safe (check_cleanup cf (S f)) s (post s []).
Proof.
  intros IH s I. simpl. apply safe_bind. apply safe_pop. intros e rest Et.
  destruct e; try apply safe_fail.
  assert (E1 : core_eq s (set_tape rest s)) by apply core_eq_set_tape.
  eapply safe_mono; [apply (sp_cleanup_loop _ IH); apply (inv_core _ _ _ E1); auto|].
  intros [] s2 [I2 F2]. split; auto. exact (frame_core_l _ _ _ _ E1 F2).
Qed.

(* ---- ares_servers_update ---- *)
Lemma set_servers_loop_step f : Specs f -> forall n s, Inv s -> safe (set_servers_loop cf (S f) n) s (post s []).
Proof.
  intros IH n s I. destruct n as [|n']; simpl; [apply safe_fail|].
  apply safe_bind. apply safe_get.
  assert (G : forall co c, In co (st_conns s) -> cell_of s co = Some (CConn c) ->
            safe (close_connection cf f co ARES_SUCCESS;; set_servers_loop cf f n') s (post s [])).
  { intros co c Hin Hc.
    apply safe_bind. eapply safe_mono; [apply (sp_close_connection _ IH co ARES_SUCCESS s c); auto|].
    intros [] s1 [I1 F1'].
    assert (F1 : Frame s s1 []).
    { eapply frame_shrink; [exact F1'|]. intros y c0 [<-|[]] _. right; left. exact Hin. }
    eapply safe_mono; [apply (sp_set_servers_loop _ IH); auto|].
    intros [] s2 [I2 F2]. split; auto. exact (frame_trans _ _ _ _ _ F1 F2). }
  destruct (close_victim (st_tape s)) as [[|sock|qid]|]; [| | |apply safe_fail].
  - apply safe_bind. apply safe_pop. intros e rest Et. apply safe_ret.
    assert (E1 : core_eq s (set_tape rest s)) by apply core_eq_set_tape.
    split; [apply (inv_core _ _ _ E1); auto|apply (ce_refl_frame _ _ _ I E1)].
  - destruct (find_conn_by_sock_ok _ s sock I) as [r [E1 Hr]].
    apply safe_bind. eapply safe_of_run; [exact E1|].
    destruct r as [co|]; [|apply safe_fail].
    destruct (Hr _ eq_refl) as [Hin [c [Hc Hncl]]]. apply (G co c); auto.
  - destruct (lookup qid (st_byqid s)) as [qo|] eqn:Lk; [|apply safe_fail].
    destruct (inv_byqid _ _ I _ _ Lk) as [Hl _]. destruct (inv_query _ _ I _ Hl) as [q Hq].
    apply safe_bind. eapply safe_get_query; [exact (inv_heap _ _ I)|exact Hq|].
    destruct (q_conn q) as [co|]; [|apply safe_fail].
    destruct (memb co (st_conns s)) eqn:Mb; [|apply safe_fail].
    apply memb_In in Mb. destruct (inv_conns _ _ I) as [_ Hcc]. destruct (Hcc _ Mb) as [c [Hc _]].
    apply (G co c); auto.
Qed.

Lemma set_servers_step f : Specs f -> forall s, Inv s -> safe (set_servers cf (S f)) s (post s []).
Proof.
  intros IH s I. simpl. apply safe_bind. apply safe_pop. intros e rest Et.
  destruct e; try apply safe_fail.
  apply safe_bind. apply safe_modify.
  set (s1 := set_nservers n (set_tape rest s)).
  assert (E1 : core_eq s s1) by (eapply core_eq_trans; [apply core_eq_set_tape|apply core_eq_set_nservers]).
  eapply safe_mono; [apply (sp_set_servers_loop _ IH); apply (inv_core _ _ _ E1); auto|].
  intros [] s2 [I2 F2]. split; auto. exact (frame_core_l _ _ _ _ E1 F2).
Qed.

Lemma cancel_loop_step f : Specs f -> forall n s, Inv s ->
  safe (cancel_loop_fixed cf (S f) n) s
       (fun _ s' => Inv s' /\ Frame s s' [] /\ forall a qo l r, st_lists s' <> a :: (qo :: l) :: r).
Proof.
  intros IH n s I. destruct n as [|n']; simpl; [apply safe_fail|].
  apply safe_bind. apply safe_get.
  destruct (st_lists s) as [|a [|[|qo l] r]] eqn:El;
    try (apply safe_ret; split; [auto|split; [apply (frame_refl _ _ I)|intros a' qo' l' r' H; rewrite El in H; discriminate]]).
  assert (Hl : In qo (linked s)).
  { unfold linked. rewrite El. simpl. apply in_or_app. right. left. reflexivity. }
  apply safe_bind. eapply safe_mono; [apply (sp_complete_query _ IH); [apply inv_weaken; exact I|exact Hl]|].
  intros [] s1 [I1 F1].
  eapply safe_mono; [apply (sp_cancel_loop _ IH); auto|].
  intros [] s2 [I2 [F2 Hsh]]. split; auto. split; auto. exact (frame_trans _ _ _ _ _ F1 F2).
Qed.

(* ares_cancel marks the queries it has taken: only the flag changes *)
Lemma mark_cancelled_ok l : forall s, Inv s -> incl l (linked s) ->
  safe (mark_cancelled l) s (fun _ s' => Inv s' /\ Frame s s' [] /\ st_lists s' = st_lists s /\ st_tape s' = st_tape s
                                       /\ st_trace s' = st_trace s /\ st_scripts s' = st_scripts s /\ st_conns s' = st_conns s).
Proof.
  induction l as [|qo r IHr]; intros s I Hl; simpl.
  - apply safe_ret. split; auto. split; [apply (frame_refl _ _ I)|auto 10].
  - assert (Hq0 : In qo (linked s)) by (apply Hl; left; auto).
    destruct (inv_query _ _ I _ Hq0) as [q Hq].
    apply safe_bind. apply safe_bind. eapply safe_get_query; [exact (inv_heap _ _ I)|exact Hq|].
    eapply safe_store; [exact (inv_heap _ _ I)|exact Hq|].
    destruct (store_query_misc_ok None s qo q (set_q_cancelled true q) I Hq eq_refl eq_refl eq_refl) as [I1 [F1 [_ [Ell1 _]]]].
    set (s1 := store_st qo (CQuery (set_q_cancelled true q)) s) in *.
    assert (F1' : Frame s s1 []).
    { eapply frame_shrink; [exact F1|]. intros y c [<-|[]] _. left. exact Hq0. }
    eapply safe_mono; [apply (IHr s1 I1)|].
    + intros y Hy. rewrite Ell1. apply Hl. right. exact Hy.
    + intros [] s2 [I2 [F2 [E1 [E2 [E3 [E4 E5]]]]]]. split; auto. split; [exact (frame_trans _ _ _ _ _ F1' F2)|].
      rewrite E1, E2, E3, E4, E5. repeat split; reflexivity.
Qed.

Lemma cancel_unfold f :
  cancel cf (S f) =
  (let! s := get in
   (match st_lists s with
    | (_ :: _) as l :: rest =>
        modify (set_lists ([] :: l :: rest)) ;;
        (if fx_cancelmark (cf_fix cf) then mark_cancelled l else ret tt) ;;
        (if fx_unlink (cf_fix cf) then cancel_loop_fixed cf f f else cancel_loop_pinned cf f l) ;;
        modify (fun s => set_lists (match st_lists s with a :: _ :: r => a :: r | x => x end) s)
    | _ => ret tt end) ;;
   check_cleanup cf f).
Proof. reflexivity. Qed.

Lemma cancel_step f : Specs f -> forall s, Inv s -> safe (cancel cf (S f)) s (post s []).
Proof.
  intros IH s I. rewrite cancel_unfold. apply safe_bind. apply safe_get.
  assert (G : forall s1, Inv s1 -> Frame s s1 [] -> safe (check_cleanup cf f) s1 (post s [])).
  { intros s1 I1 F1. eapply safe_mono; [apply (sp_check_cleanup _ IH); auto|].
    intros [] s2 [I2 F2]. split; auto. exact (frame_trans _ _ _ _ _ F1 F2). }
  destruct (st_lists s) as [|[|q0 l0] rest] eqn:El.
  - apply safe_bind. apply safe_ret. apply G; auto. apply (frame_refl _ _ I).
  - apply safe_bind. apply safe_ret. apply G; auto. apply (frame_refl _ _ I).
  - apply safe_bind. apply safe_bind. apply safe_modify.
    destruct (lists_same_linked None s ([] :: (q0 :: l0) :: rest)) as [I1 [F1 _]]; auto.
    { unfold linked. rewrite El. reflexivity. }
    rewrite fx_unlink_true, fx_cancelmark_true.
    apply safe_bind. eapply safe_mono; [apply (mark_cancelled_ok (q0 :: l0) _ I1)|].
    { intros y Hy. unfold linked. simpl. destruct Hy as [->|Hy]; [left; auto|right; apply in_or_app; left; exact Hy]. }
    intros [] sm [Im [Fm _]].
    apply safe_bind. eapply safe_mono; [apply (sp_cancel_loop _ IH); exact Im|].
    intros [] s2 [I2 [F2' Hsh]]. pose proof (frame_trans _ _ _ _ _ Fm F2') as F2.
    apply safe_modify.
    set (ls2 := match st_lists s2 with a :: _ :: r => a :: r | x => x end).
    destruct (lists_same_linked None s2 ls2) as [I3 [F3 _]]; auto.
    { unfold ls2, linked. destruct (st_lists s2) as [|a [|[|qo l] r]]; auto.
      exfalso. eapply Hsh. reflexivity. }
    apply G; auto.
    pose proof (frame_trans _ _ _ _ _ F1 (frame_trans _ _ _ _ _ F2 F3)) as F. exact F.
Qed.

(* ---- ares_send_query ---- *)
Lemma send_query_write_step f : Specs f -> forall qo op s, Inv s -> In qo (linked s) ->
  safe (send_query_write cf (S f) qo op) s (postA s []).
Proof.
  intros IH qo op s I Hl. simpl.
  destruct (inv_query _ _ I _ Hl) as [q Hq].
  apply safe_bind. eapply safe_get_query; [exact (inv_heap _ _ I)|exact Hq|].
  apply safe_bind. apply safe_pop. intros e rest Et.
  destruct e; try apply safe_fail.
  destruct (negb (Nat.eqb qid (q_qid q))); [apply safe_fail|].
  set (s1 := set_tape rest s).
  assert (E1 : core_eq s s1) by apply core_eq_set_tape.
  assert (I1 : Inv s1) by (apply (inv_core _ _ _ E1); auto).
  assert (Hl1 : In qo (linked s1)) by (rewrite (ce_linked _ _ E1); exact Hl).
  (* the rest, once the connection is known *)
  assert (G : forall sA co cA, Inv sA -> Frame s sA [] -> In qo (linked sA) -> In co (st_conns sA) ->
            cell_of sA co = Some (CConn cA) -> c_closed cA = false ->
            safe (let! _ := get_conn co in
                  let! e2 := peek in
                  let! wrc := match e2 with
                              | Some (TF s2 rc) => if Nat.eqb s2 sock then (let! _ := pop in ret rc) else ret ARES_SUCCESS
                              | _ => ret ARES_SUCCESS end in
                  if zeqb wrc ARES_SUCCESS
                  then attach_frag qo co tcp;;
                       (let! s0 := get in
                        (if probe_ahead (st_tape s0) then let! _ := send_nolock cf f KProbe true None in ret tt else ret tt));;
                       ret ARES_SUCCESS
                  else if zeqb wrc ARES_ENOMEM
                  then end_query cf f qo wrc (res wrc);; ret wrc
                  else if is_retryable wrc
                  then handle_conn_error cf f co true wrc;;
                       (if fx_revalidate (cf_fix cf)
                        then let! s0 := get in
                             match lookup (q_qid q) (st_byqid s0) with
                             | Some qo' => requeue_query cf f qo' wrc true false (res wrc)
                             | None => ret ARES_ECANCELLED end
                        else requeue_query cf f qo wrc true false (res wrc))
                  else expect_TS;; requeue_query cf f qo wrc true false (res wrc)) sA (postA s [])).
  { intros sA co cA IA FA HlA HinA HcA HnclA.
    apply safe_bind. eapply safe_get_conn; [exact (inv_heap _ _ IA)|exact HcA|].
    apply safe_bind. apply safe_peek.
    (* the write result *)
    assert (W : forall wrc sB, core_eq sA sB -> st_scripts sB = st_scripts sA ->
              safe (if zeqb wrc ARES_SUCCESS
                    then attach_frag qo co tcp;;
                         (let! s0 := get in
                          (if probe_ahead (st_tape s0) then let! _ := send_nolock cf f KProbe true None in ret tt else ret tt));;
                         ret ARES_SUCCESS
                    else if zeqb wrc ARES_ENOMEM
                    then end_query cf f qo wrc (res wrc);; ret wrc
                    else if is_retryable wrc
                    then handle_conn_error cf f co true wrc;;
                         (if fx_revalidate (cf_fix cf)
                          then let! s0 := get in
                               match lookup (q_qid q) (st_byqid s0) with
                               | Some qo' => requeue_query cf f qo' wrc true false (res wrc)
                               | None => ret ARES_ECANCELLED end
                          else requeue_query cf f qo wrc true false (res wrc))
                    else expect_TS;; requeue_query cf f qo wrc true false (res wrc)) sB (postA s [])).
    { intros wrc sB EB EsB.
      assert (IB : Inv sB) by (apply (inv_core _ _ _ EB); auto).
      assert (FB : Frame s sB []) by (apply (frame_core_r _ _ _ _ FA EB)).
      assert (HlB : In qo (linked sB)) by (rewrite (ce_linked _ _ EB); exact HlA).
      assert (HinB : In co (st_conns sB)) by (rewrite (ce_conns _ _ EB); exact HinA).
      assert (HcB : cell_of sB co = Some (CConn cA)) by (rewrite (ce_cell _ _ _ EB); exact HcA).
      destruct (zeqb wrc ARES_SUCCESS).
      - (* written: attach *)
        destruct (inv_query _ _ IB _ HlB) as [qB HqB].
        destruct (attach_run sB qo qB co cA tcp IB HlB HqB HinB HcB HnclA) as [sC [EC [IC [FC _]]]].
        apply safe_bind. eapply safe_of_run; [exact EC|].
        assert (FsC : Frame s sC []) by exact (frame_trans _ _ _ _ _ FB FC).
        apply safe_bind. apply safe_bind. apply safe_get.
        destruct (probe_ahead (st_tape sC)).
        + apply safe_bind. eapply safe_mono; [apply (sp_send_nolock _ IH KProbe true None sC IC (own_nil _) Logic.I Logic.I)|].
          intros z sD [ID FD]. apply safe_ret. apply safe_ret. split; auto. exact (frame_trans _ _ _ _ _ FsC FD).
        + apply safe_ret. apply safe_ret. split; auto.
      - destruct (zeqb wrc ARES_ENOMEM).
        + apply safe_bind. eapply safe_mono; [apply (sp_end_query _ IH); [apply inv_weaken; exact IB|exact HlB]|].
          intros [] sC [IC FC]. apply safe_ret. split; auto. exact (frame_trans _ _ _ _ _ FB FC).
        + destruct (is_retryable wrc).
          * apply safe_bind. eapply safe_mono; [apply (sp_handle_conn_error _ IH co true wrc sB cA); auto|].
            intros [] sC [IC FC']. rewrite fx_revalidate_true.
            assert (FC : Frame sB sC []).
            { eapply frame_shrink; [exact FC'|]. intros y c0 [<-|[]] _. right; left. exact HinB. }
            assert (FsC : Frame s sC []) by exact (frame_trans _ _ _ _ _ FB FC).
            apply safe_bind. apply safe_get.
            destruct (lookup (q_qid q) (st_byqid sC)) as [qo'|] eqn:Lk.
            -- destruct (inv_byqid _ _ IC _ _ Lk) as [Hl' _].
               eapply safe_mono; [apply (sp_requeue_query _ IH); [apply inv_weaken; exact IC|exact Hl']|].
               intros z sD [ID FD]. split; auto. exact (frame_trans _ _ _ _ _ FsC FD).
            -- apply safe_ret. split; auto.
          * apply safe_bind. apply safe_expect; [left; reflexivity|]. intros sC EC EsC.
            eapply safe_mono; [apply (sp_requeue_query _ IH qo wrc true false (res wrc) sC);
                               [apply inv_weaken; apply (inv_core _ _ _ EC); auto|rewrite (ce_linked _ _ EC); exact HlB]|].
            intros z sD [ID FD]. split; auto.
            exact (frame_trans _ _ _ _ _ FB (frame_core_l _ _ _ _ EC FD)). }
    destruct (hd_error (st_tape sA)) as [e2|]; [|apply safe_bind; apply safe_ret; apply W; [apply core_eq_refl|reflexivity]].
    destruct e2; try (apply safe_bind; apply safe_ret; apply W; [apply core_eq_refl|reflexivity]).
    destruct (Nat.eqb sock0 sock).
    - apply safe_bind. apply safe_bind. apply safe_pop. intros e3 rest3 Et3. apply safe_ret.
      apply W; [apply core_eq_set_tape|reflexivity].
    - apply safe_bind. apply safe_ret. apply W; [apply core_eq_refl|reflexivity]. }
  destruct (find_conn_by_sock_ok _ s1 sock I1) as [ex [Ef Hex]].
  apply safe_bind. eapply safe_of_run; [exact Ef|].
  destruct ex as [co|]; destruct op; try (apply safe_bind; apply safe_fail).
  - (* existing connection *)
    destruct (Hex _ eq_refl) as [Hin [c [Hc Hncl]]].
    apply safe_bind. apply safe_ret.
    apply (G s1 co c); auto. apply (ce_refl_frame _ _ _ I E1).
  - (* a connection was opened *)
    apply safe_bind. apply safe_bind. apply safe_alloc. apply safe_bind. apply safe_modify. apply safe_ret.
    set (c0 := {| c_sock := sock; c_tcp := tcp; c_queries := []; c_reading := false; c_closed := false |}).
    destruct (new_conn_ok None s1 c0 I1 eq_refl eq_refl) as [I2 [F2 [Hc2 [Hin2 [_ [Ell2 _]]]]]].
    eapply (G _ (st_next s1) c0); auto.
    exact (frame_core_l _ _ _ _ E1 F2).
Qed.

Lemma send_query_step f : Specs f -> forall qo s, Inv s -> In qo (linked s) ->
  safe (send_query cf (S f) qo) s (postA s []).
Proof.
  intros IH qo s I Hl. simpl.
  destruct (inv_query _ _ I _ Hl) as [q Hq].
  apply safe_bind. eapply safe_get_query; [exact (inv_heap _ _ I)|exact Hq|].
  apply safe_bind. apply safe_get.
  destruct (Nat.eqb (st_nservers s) 0).
  { apply safe_bind. eapply safe_mono; [apply (sp_end_query _ IH); [apply inv_weaken; exact I|exact Hl]|].
    intros [] s2 [I2 F2]. apply safe_ret. split; auto. }
  apply safe_bind. apply safe_peek.
  assert (Dflt : safe (send_query_write cf f qo false) s (postA s [])) by (apply (sp_send_query_write _ IH); auto).
  destruct (hd_error (st_tape s)) as [e|]; [|exact Dflt].
  destruct e; try exact Dflt.
  apply safe_bind. apply safe_pop. intros e rest Et.
  set (s1 := set_tape rest s).
  assert (E1 : core_eq s s1) by apply core_eq_set_tape.
  assert (I1 : Inv s1) by (apply (inv_core _ _ _ E1); auto).
  assert (Hl1 : In qo (linked s1)) by (rewrite (ce_linked _ _ E1); exact Hl).
  destruct (zeqb rc ARES_SUCCESS).
  - eapply safe_mono; [apply (sp_send_query_write _ IH); auto|].
    intros z s2 [I2 F2]. split; auto. exact (frame_core_l _ _ _ _ E1 F2).
  - destruct (is_retryable rc).
    + apply safe_bind. apply safe_expect; [left; reflexivity|]. intros s2 E2 Es2.
      eapply safe_mono; [apply (sp_requeue_query _ IH qo rc true false (res rc) s2);
                         [apply inv_weaken; apply (inv_core _ _ _ E2); auto|rewrite (ce_linked _ _ E2); exact Hl1]|].
      intros z s3 [I3 F3]. split; auto.
      exact (frame_core_l _ _ _ _ (core_eq_trans _ _ _ E1 E2) F3).
    + apply safe_bind. eapply safe_mono; [apply (sp_end_query _ IH); [apply inv_weaken; exact I1|exact Hl1]|].
      intros [] s2 [I2 F2]. apply safe_ret. split; auto. exact (frame_core_l _ _ _ _ E1 F2).
Qed.

(* ---- ares_send_nolock ---- *)
Lemma gen_qid_ok n s (Q : nat -> state -> Prop) :
  (forall qid s1, core_eq s s1 -> st_scripts s1 = st_scripts s -> lookup qid (st_byqid s1) = None -> Q qid s1) ->
  safe (gen_qid n) s Q.
Proof.
  revert s Q. induction n as [|n IHn]; intros s Q HQ; simpl; [apply safe_fail|].
  apply safe_bind. apply safe_pop. intros e rest Et. destruct e; try apply safe_fail.
  apply safe_bind. apply safe_get.
  set (s1 := set_tape rest s).
  destruct (lookup qid (st_byqid s1)) eqn:Lk.
  - apply IHn. intros qid' s2 E2 Es2 L2. apply HQ; auto.
  - apply safe_ret. apply HQ; auto. apply core_eq_set_tape.
Qed.

Lemma link_all_run qo s : link_all qo s = Ok (tt, set_lists (link_lists qo (st_lists s)) s).
Proof. reflexivity. Qed.

Lemma send_nolock_unfold f k probe qd :
  send_nolock cf (S f) k probe qd =
  (let! qid := gen_qid 8 in
   let! s0 := get in
   if Nat.eqb (st_nservers s0) 0 then invoke cf f k (res ARES_ENOSERVER) ;; ret ARES_ENOSERVER else
   let! cached :=
     (if probe then ret None
      else let! e := pop in
           match e with
           | TQ rc rcode an id => if zeqb rc ARES_ENOTFOUND then ret None
                               else ret (Some {| r_status := rc; r_rec := if zeqb rc ARES_SUCCESS then Some (rcode, an, id) else None |})
           | _ => fail EDESYNC end) in
   match cached with
   | Some r => invoke cf f k r ;; ret (r_status r)
   | None =>
     let! e := pop in
     match e with
     | TD rc =>
       if negb (zeqb rc ARES_SUCCESS) then
         let st := if zeqb rc ARES_EBADRESP then ARES_EBADQUERY else rc in
         invoke cf f k (res st) ;; ret st
       else
         (if cf_dns0x20 cf then (let! e := peek in match e with Some (TN _) => let! _ := pop in ret tt | _ => ret tt end) else ret tt) ;;
         let! qo := alloc (CQuery {| q_qid := qid; q_cb := k; q_conn := None; q_try := 0; q_noretry := probe;
                                     q_tcp := false; q_err := ARES_SUCCESS; q_cancelled := false |}) in
         link_all qo ;;
         modify (fun s => set_byqid ((qid, qo) :: st_byqid s) s) ;;
         (if fx_qidearly (cf_fix cf) then write_qid qd qid else ret tt) ;;
         let! st := send_query cf f qo in
         (if negb (fx_qidearly (cf_fix cf)) && zeqb st ARES_SUCCESS then write_qid qd qid else ret tt) ;;
         ret st
     | _ => fail EDESYNC end
   end).
Proof. reflexivity. Qed.

(* "*qid = id": the host_query the closure ends in is alive (it waits for this query's answer) *)
Lemma write_qid_ok qd qid k s : Inv s -> QdOk qd k -> (forall o, kbot k = Some o -> exists h, shared_at s o = Some h) ->
  safe (write_qid qd qid) s (fun _ s' => Inv s' /\ Frame s s' [] /\ linked s' = linked s).
Proof.
  intros I Hqd Hk. unfold write_qid. destruct qd as [[o aaaa]|].
  2:{ apply safe_ret. split; auto. split; [apply (frame_refl _ _ I)|reflexivity]. }
  simpl in Hqd. destruct (Hk _ Hqd) as [h Hs]. destruct (shared_host _ _ _ Hs) as [Hc Hp].
  unfold get_host. apply safe_bind. apply safe_bind. eapply safe_touch; [exact (inv_heap _ _ I)|exact Hc|].
  apply safe_ret. eapply safe_store; [exact (inv_heap _ _ I)|exact Hc|].
  set (h' := if aaaa then h_set_qids (h_qid_a h) qid h else h_set_qids qid (h_qid_aaaa h) h).
  assert (E1 : h_cb h' = h_cb h) by (unfold h'; destruct aaaa; reflexivity).
  assert (E2 : h_remaining h' = h_remaining h) by (unfold h'; destruct aaaa; reflexivity).
  destruct (store_host_shared_ok None s o h h' (dg None) I Hs E1) as [I1 [F1 [_ [_ [Ell _]]]]]; auto.
  - rewrite E2. exact Hp.
  - simpl. lia.
  - simpl. pose proof (hi_cnt _ (inv_hosts _ _ I) _ _ Hs). lia.
Qed.

Lemma send_nolock_step f : Specs f -> forall k pr qd s, Inv s -> Own s (cobjs k) -> GivenOk s (kbot k) -> QdOk qd k ->
  safe (send_nolock cf (S f) k pr qd) s (postGA (kbot k) s (cobjs k)).
Proof.
  intros IH k pr qd s I O Hg Hqd. rewrite send_nolock_unfold. rewrite fx_qidearly_true. simpl negb. cbn [andb].
  apply safe_bind. apply gen_qid_ok. intros qid s1 E1 Es1 Lk1.
  assert (I1 : Inv s1) by (apply (inv_core _ _ _ E1); auto).
  assert (O1 : Own s1 (cobjs k)) by (apply (own_core _ _ _ E1); auto).
  (* after the cache lookup *)
  assert (G : forall cached s2, core_eq s1 s2 -> st_scripts s2 = st_scripts s1 ->
            safe (match cached with
                  | Some r => invoke cf f k r;; ret (r_status r)
                  | None =>
                      let! e := pop in
                      match e with
                      | TD rc =>
                          if negb (zeqb rc ARES_SUCCESS)
                          then let st := if zeqb rc ARES_EBADRESP then ARES_EBADQUERY else rc in
                               invoke cf f k (res st);; ret st
                          else (if cf_dns0x20 cf
                                then let! e0 := peek in
                                     match e0 with Some (TN _) => let! _ := pop in ret tt | _ => ret tt end
                                else ret tt);;
                               (let! qo := alloc (CQuery {| q_qid := qid; q_cb := k; q_conn := None; q_try := 0;
                                                           q_noretry := pr; q_tcp := false; q_err := ARES_SUCCESS; q_cancelled := false |}) in
                                link_all qo;;
                                modify (fun s0 => set_byqid ((qid, qo) :: st_byqid s0) s0);;
                                write_qid qd qid;;
                                (let! st := send_query cf f qo in ret tt;; ret st))
                      | _ => fail EDESYNC end
                  end) s2 (postGA (kbot k) s (cobjs k))).
  { intros cached s2 E2 Es2.
    assert (E02 : core_eq s s2) by (eapply core_eq_trans; eauto).
    assert (I2 : Inv s2) by (apply (ce_inv _ _ _ E2); auto).
    assert (O2 : Own s2 (cobjs k)) by (apply (own_core _ _ _ E2); auto).
    assert (Hg2 : GivenOk s2 (kbot k)) by (apply (given_core _ _ _ E02); auto).
    destruct cached as [r|].
    - apply safe_bind. eapply safe_mono; [apply (sp_invoke _ IH); auto|].
      intros [] s3 [I3 F3]. apply safe_ret. split; auto. exact (frame_core_l _ _ _ _ E02 F3).
    - apply safe_bind. apply safe_pop. intros e rest Et. destruct e; try apply safe_fail.
      set (s3 := set_tape rest s2).
      assert (E3 : core_eq s s3) by (eapply core_eq_trans; [exact E02|apply core_eq_set_tape]).
      assert (I3 : Inv s3) by (apply (inv_core _ _ _ E3); auto; simpl; congruence).
      assert (O3 : Own s3 (cobjs k)) by (apply (own_core _ _ _ E3); auto).
      assert (Hg3 : GivenOk s3 (kbot k)) by (apply (given_core _ _ _ E3); auto).
      destruct (negb (zeqb rc ARES_SUCCESS)).
      + apply safe_bind. eapply safe_mono; [apply (sp_invoke _ IH); auto|].
        intros [] s4 [I4 F4]. apply safe_ret. split; auto. exact (frame_core_l _ _ _ _ E3 F4).
      + (* dns0x20 *)
        assert (D : forall s4, core_eq s s4 -> st_scripts s4 = st_scripts s -> lookup qid (st_byqid s4) = None ->
                  safe (let! qo := alloc (CQuery {| q_qid := qid; q_cb := k; q_conn := None; q_try := 0;
                                                    q_noretry := pr; q_tcp := false; q_err := ARES_SUCCESS; q_cancelled := false |}) in
                        link_all qo;;
                        modify (fun s0 => set_byqid ((qid, qo) :: st_byqid s0) s0);;
                        write_qid qd qid;;
                        (let! st := send_query cf f qo in ret tt;; ret st))
                       s4 (postGA (kbot k) s (cobjs k))).
        { intros s4 E4 Es4 Lk4.
          assert (I4 : Inv s4) by (apply (inv_core _ _ _ E4); auto).
          assert (O4 : Own s4 (cobjs k)) by (apply (own_core _ _ _ E4); auto).
          assert (Hg4 : GivenOk s4 (kbot k)) by (apply (given_core _ _ _ E4); auto).
          set (q0 := {| q_qid := qid; q_cb := k; q_conn := None; q_try := 0; q_noretry := pr; q_tcp := false; q_err := ARES_SUCCESS; q_cancelled := false |}).
          destruct (new_query_ok s4 k qid q0 I4 O4 Hg4 Lk4 eq_refl eq_refl eq_refl) as [I5 [F5 [Hl5 [Hq5 [Hsame5 _]]]]].
          apply safe_bind. apply safe_alloc.
          apply safe_bind. eapply safe_of_run; [apply link_all_run|].
          apply safe_bind. apply safe_modify.
          apply safe_bind. eapply safe_mono; [apply (write_qid_ok qd qid k _ I5 Hqd)|].
          { intros o Ek. destruct (hi_ref _ (inv_hosts _ _ I5) _ o Hl5) as [h Hs]; eauto.
            unfold href. rewrite Hq5. exact Ek. }
          intros [] s6 [I6 [F6 Ell6]].
          apply safe_bind. eapply safe_mono; [apply (sp_send_query _ IH); [exact I6|rewrite Ell6; exact Hl5]|].
          intros z s7 [I7 F7]. apply safe_bind. apply safe_ret. apply safe_ret. split; auto.
          pose proof (frame_core_l _ _ _ _ E4 (frame_trans_gl _ _ _ _ _ _ F5 (frame_trans _ _ _ _ _ F6 F7))) as F.
          rewrite app_nil_r in F. exact F. }
        assert (Lk3 : lookup qid (st_byqid s3) = None).
        { destruct E2 as [_ [_ [_ [_ [Eq _]]]]]. simpl. rewrite Eq. exact Lk1. }
        apply safe_bind.
        * destruct (cf_dns0x20 cf); [|apply safe_ret; apply D; auto; simpl; congruence].
          apply safe_bind. apply safe_peek.
          destruct (hd_error (st_tape s3)) as [e0|]; [|apply safe_ret; apply D; auto; simpl; congruence].
          destruct e0; try (apply safe_ret; apply D; auto; simpl; congruence).
          apply safe_bind. apply safe_pop. intros e1 rest1 Et1. apply safe_ret.
          apply D.
          -- eapply core_eq_trans; [exact E3|apply core_eq_set_tape].
          -- simpl. congruence.
          -- exact Lk3. }
  apply safe_bind. apply safe_get.
  destruct (Nat.eqb (st_nservers s1) 0).
  { apply safe_bind. eapply safe_mono; [apply (sp_invoke _ IH); auto; apply (given_core _ _ _ E1); auto|].
    intros [] s3 [I3 F3]. apply safe_ret. split; auto. exact (frame_core_l _ _ _ _ E1 F3). }
  destruct pr.
  - apply safe_bind. apply safe_ret. apply (G None); [apply core_eq_refl|reflexivity].
  - apply safe_bind. apply safe_bind. apply safe_pop. intros e rest Et. destruct e; try apply safe_fail.
    destruct (zeqb rc ARES_ENOTFOUND); apply safe_ret.
    + apply (G None); [apply core_eq_set_tape|reflexivity].
    + apply (G (Some {| r_status := rc; r_rec := if zeqb rc ARES_SUCCESS then Some (rcode, an, id) else None |}));
        [apply core_eq_set_tape|reflexivity].
Qed.

Lemma query_nolock_step f : Specs f -> forall k qd s, Inv s -> Own s (cobjs k) -> GivenOk s (kbot k) -> QdOk qd k ->
  safe (query_nolock cf (S f) k qd) s (postGA (kbot k) s (cobjs k)).
Proof.
  intros IH k qd s I O Hg Hqd. simpl.
  apply safe_bind. apply safe_alloc.
  destruct (alloc_opaque_ok None s I) as [I1 [F1 [Hc1 [Hr1 _]]]].
  set (o := st_next s) in *. set (s1 := alloc_st COpaque s) in *.
  assert (O1 : Own s1 (o :: cobjs k)).
  { pose proof (own_frame _ _ _ _ _ O F1 (fun _ _ H => H)) as [On Oc]. split.
    - constructor; auto. intros Hin. destruct (proj2 O _ Hin) as [Hlive _].
      pose proof (live_lt _ _ _ (inv_heap _ _ I) Hlive). unfold o in *. lia.
    - intros y [<-|Hy]; auto. }
  assert (Hg1 : GivenOk s1 (kbot k)) by (exact (given_frame _ _ _ _ Hg F1)).
  eapply safe_mono; [apply (sp_send_nolock _ IH (KWrap WQQuery o k) false qd s1 I1 O1 Hg1 Hqd)|].
  intros z s2 [I2 F2]. split; auto. simpl in F2.
  eapply frame_restrict; [exact (frame_trans_gr _ _ _ _ _ _ Hg (inv_heap _ _ I) F1 F2)|].
  intros y c Hy Hny Hc. simpl in Hy. destruct Hy as [<-|Hy]; [|contradiction].
  unfold o in Hc. rewrite (fresh_dead _ _ I) in Hc. discriminate.
Qed.

(* a freshly allocated opaque object joins the owned ones *)
Lemma own_alloc s L : Inv s -> Own s L ->
  Own (alloc_st COpaque s) (st_next s :: L).
Proof.
  intros I O. destruct (alloc_opaque_ok None s I) as [I1 [F1 [Hc1 [Hr1 _]]]].
  pose proof (own_frame _ _ _ _ _ O F1 (fun _ _ H => H)) as [On Oc]. split.
  - constructor; auto. intros Hin. destruct (proj2 O _ Hin) as [Hlive _].
    pose proof (live_lt _ _ _ (inv_heap _ _ I) Hlive). lia.
  - intros y [<-|Hy]; auto.
Qed.

Lemma given_alloc s g : Inv s -> GivenOk s g -> GivenOk (alloc_st COpaque s) g.
Proof. intros I Hg. destruct (alloc_opaque_ok None s I) as [_ [F1 _]]. exact (given_frame _ _ _ _ Hg F1). Qed.

Lemma frame_alloc_drop g s s2 L :
  Inv s -> GivenOk s g -> FrameG (dg g) (alloc_st COpaque s) s2 (st_next s :: L) -> FrameG (dg g) s s2 L.
Proof.
  intros I Hg F2. destruct (alloc_opaque_ok None s I) as [_ [F1 _]].
  eapply frame_restrict; [exact (frame_trans_gr _ _ _ _ _ _ Hg (inv_heap _ _ I) F1 F2)|].
  intros y c Hy Hny Hc. simpl in Hy. destruct Hy as [<-|Hy]; [|contradiction].
  rewrite (fresh_dead _ _ I) in Hc. discriminate.
Qed.

(* ---- ares_search.c ---- *)
Lemma search_next_step f : Specs f -> forall o k l nd s, Inv s -> Own s (o :: cobjs k) -> GivenOk s (kbot k) ->
  safe (search_next cf (S f) o k l nd) s
       (fun r s' => Inv s' /\ if snd r then FrameG (dg (kbot k)) s s' (o :: cobjs k)
                               else Frame s s' [] /\ Own s' (o :: cobjs k) /\ GivenOk s' (kbot k)
                                    /\ zeqb (fst r) ARES_SUCCESS = false).
Proof.
  intros IH o k l nd s I O Hg. simpl.
  destruct (own_cons _ _ _ O) as [Hc [Hr [Hni O']]].
  apply safe_bind. eapply safe_touch; [exact (inv_heap _ _ I)|exact Hc|].
  destruct l as [|cur l'].
  - apply safe_ret. simpl. split; auto. split; [apply (frame_refl _ _ I)|auto].
  - apply safe_bind. apply safe_pop. intros e rest Et. destruct e; try apply safe_fail.
    set (s1 := set_tape rest s).
    assert (E1 : core_eq s s1) by apply core_eq_set_tape.
    assert (I1 : Inv s1) by (apply (inv_core _ _ _ E1); auto).
    assert (O1 : Own s1 (o :: cobjs k)) by (apply (own_core _ _ _ E1); auto).
    assert (Hg1 : GivenOk s1 (kbot k)) by (apply (given_core _ _ _ E1); auto).
    destruct (negb (zeqb rc ARES_SUCCESS)) eqn:Erc.
    + apply safe_ret. simpl. split; auto. split; [apply (ce_refl_frame _ _ _ I E1)|].
      split; auto. split; auto. apply negb_true_iff. exact Erc.
    + apply safe_bind.
      eapply safe_mono; [apply (sp_send_nolock _ IH (KSearch o k cur l' nd) false None s1 I1 O1 Hg1 Logic.I)|].
      intros st s2 [I2 F2]. apply safe_ret. rewrite fx_search_true. simpl.
      split; auto. exact (frame_core_l _ _ _ _ E1 F2).
Qed.

Lemma search_callback_step f : Specs f -> forall o k cs l nd r s, Inv s -> Own s (o :: cobjs k) -> GivenOk s (kbot k) ->
  safe (search_callback cf (S f) o k cs l nd r) s (postG (kbot k) s (o :: cobjs k)).
Proof.
  intros IH o k cs l nd r s I O Hg. simpl.
  destruct (own_cons _ _ _ O) as [Hc [Hr [Hni O']]].
  apply safe_bind. eapply safe_touch; [exact (inv_heap _ _ I)|exact Hc|].
  match goal with |- context [if negb ?b then _ else _] => destruct (negb b) end.
  - apply (sp_end_squery _ IH); auto.
  - destruct l as [|c0 l'].
    + match goal with |- context [if ?b then _ else _] => destruct b end; apply (sp_end_squery _ IH); auto.
    + apply safe_bind. eapply safe_mono; [apply (sp_search_next _ IH); auto|].
      intros [st skip] s1 [I1 F1]. simpl in F1.
      destruct skip; simpl.
      * rewrite andb_false_r. apply safe_ret. split; auto.
      * destruct F1 as [F1 [O1 [Hg1 Est]]]. rewrite Est. simpl.
        eapply safe_mono; [apply (sp_end_squery _ IH); auto|].
        intros [] s2 [I2 F2]. split; auto.
        exact (frame_trans_gr _ _ _ _ _ _ Hg (inv_heap _ _ I) F1 F2).
Qed.

Lemma search_int_step f : Specs f -> forall k names s, Inv s -> Own s (cobjs k) -> GivenOk s (kbot k) ->
  safe (search_int cf (S f) k names) s (postGA (kbot k) s (cobjs k)).
Proof.
  intros IH k names s I O Hg. simpl.
  apply safe_bind. apply safe_alloc.
  destruct (alloc_opaque_ok None s I) as [I1 [F1 _]].
  pose proof (own_alloc s _ I O) as O1. pose proof (given_alloc s _ I Hg) as Hg1.
  set (o := st_next s) in *. set (s1 := alloc_st COpaque s) in *.
  apply safe_bind. eapply safe_mono; [apply (sp_search_next _ IH o k names false s1 I1 O1 Hg1)|].
  intros [st skip] s2 [I2 F2]. simpl in F2.
  destruct skip.
  - (* handed over to the first query *)
    destruct (zeqb st ARES_SUCCESS).
    + apply safe_ret. split; auto. apply (frame_alloc_drop _ s s2 (cobjs k) I Hg). exact F2.
    + apply safe_bind. apply safe_ret. apply safe_ret. split; auto. apply (frame_alloc_drop _ s s2 (cobjs k) I Hg). exact F2.
  - destruct F2 as [F2 [O2 [Hg2 Est]]]. rewrite Est.
    destruct (own_cons _ _ _ O2) as [Hc2 [Hr2 [Hni2 O2']]].
    apply safe_bind. apply safe_bind. eapply safe_touch; [exact (inv_heap _ _ I2)|exact Hc2|].
    apply safe_bind. eapply safe_free; [exact (inv_heap _ _ I2)|exact Hc2|].
    destruct (free_unrooted_ok None s2 o COpaque I2 Hc2 ltac:(discriminate) ltac:(discriminate) Hr2) as [I3 [F3 _]].
    assert (O3 : Own (free_st o s2) (cobjs k)).
    { apply (own_frame _ _ _ _ _ O2' F3). intros y Hy [<-|[]]. contradiction. }
    assert (Hg3 : GivenOk (free_st o s2) (kbot k)) by exact (given_frame _ _ _ _ Hg2 F3).
    eapply safe_mono; [apply (sp_invoke _ IH); auto|].
    intros [] s4 [I4 F4]. apply safe_ret. split; auto.
    apply (frame_alloc_drop _ s s4 (cobjs k) I Hg).
    eapply frame_weaken; [exact (frame_trans_gr _ _ _ _ _ _ Hg1 (inv_heap _ _ I1) (frame_trans _ _ _ _ _ F2 F3) F4)|].
    intros y Hy. simpl in Hy. destruct Hy as [<-|Hy]; [left; auto|right; auto].
Qed.

(* ---- ares_gethostbyaddr.c ---- *)
Lemma addr_next_lookup_step f : Specs f -> forall o k l s, Inv s -> Own s (o :: cobjs k) -> GivenOk s (kbot k) ->
  safe (addr_next_lookup cf (S f) o k l) s (postG (kbot k) s (o :: cobjs k)).
Proof.
  intros IH o k l s I O Hg. simpl.
  destruct (own_cons _ _ _ O) as [Hc [Hr [Hni O']]].
  apply safe_bind. eapply safe_touch; [exact (inv_heap _ _ I)|exact Hc|].
  destruct l as [|[|] l'].
  - apply (sp_end_aquery _ IH); auto.
  - apply safe_bind.
    eapply safe_mono; [apply (sp_query_nolock _ IH (KAddr o k l') None s I O Hg Logic.I)|].
    intros z s1 [I1 F1]. apply safe_ret. split; auto.
  - apply (sp_addr_next_lookup _ IH); auto.
Qed.

Lemma addr_callback_step f : Specs f -> forall o k l r s, Inv s -> Own s (o :: cobjs k) -> GivenOk s (kbot k) ->
  safe (addr_callback cf (S f) o k l r) s (postG (kbot k) s (o :: cobjs k)).
Proof.
  intros IH o k l r s I O Hg. simpl.
  destruct (own_cons _ _ _ O) as [Hc [Hr [Hni O']]].
  apply safe_bind. eapply safe_touch; [exact (inv_heap _ _ I)|exact Hc|].
  destruct (zeqb (r_status r) ARES_SUCCESS).
  - apply safe_bind. apply safe_pop. intros e rest Et. destruct e; try apply safe_fail.
    set (s1 := set_tape rest s).
    assert (E1 : core_eq s s1) by apply core_eq_set_tape.
    eapply safe_mono; [apply (sp_end_aquery _ IH o k (res rc) s1);
                       [apply (inv_core _ _ _ E1); auto|apply (own_core _ _ _ E1); auto|apply (given_core _ _ _ E1); auto]|].
    intros [] s2 [I2 F2]. split; auto. exact (frame_core_l _ _ _ _ E1 F2).
  - destruct (zeqb (r_status r) ARES_EDESTRUCTION || zeqb (r_status r) ARES_ECANCELLED).
    + apply (sp_end_aquery _ IH); auto.
    + apply (sp_addr_next_lookup _ IH); auto.
Qed.

(* ---- ares_getaddrinfo.c ---- *)
Lemma hown_opaque s o h : HOwn s o h -> ~ In o (cobjs (h_cb h)).
Proof. intros [Hc [_ [_ [_ O]]]] Hin. destruct (O _ Hin) as [Hc' _]. congruence. Qed.

Lemma end_hquery_step f : Specs f -> forall o st s h, Inv s -> HOwn s o h ->
  safe (end_hquery cf (S f) o st) s (postH s o h).
Proof.
  intros IH o st s h I HO. pose proof (hown_opaque _ _ _ HO) as Hni. destruct HO as [Hc [Hz [Hnh O]]]. simpl.
  apply safe_bind. eapply safe_get_host; [exact (inv_heap _ _ I)|exact Hc|].
  pose proof (nohost_kbot _ Hnh) as Ek.
  apply safe_bind. eapply safe_mono; [apply (sp_invoke _ IH (h_cb h) (res st) s I O); rewrite Ek; exact Logic.I|].
  intros [] s1 [I1 F1]. rewrite Ek in F1.
  destruct (fr_cell _ _ _ _ F1 _ _ Hc (host_unrooted _ _ _ _ I Hc) Hni Hz) as [Hc1 Hr1].
  eapply safe_free; [exact (inv_heap _ _ I1)|exact Hc1|].
  destruct (free_host_ok None s1 o h I1 Hc1 Hz) as [I2 [F2 _]].
  split; [exact I2|]. split.
  - eapply frame_weaken; [exact (frame_trans _ _ _ _ _ F1 F2)|].
    intros y Hy. apply in_app_or in Hy. simpl. destruct Hy as [Hy|[Hy|[]]]; auto.
  - intros h2 Hc2. rewrite cell_free, Nat.eqb_refl in Hc2. discriminate.
Qed.

Lemma hown_store s o h h' :
  Inv s -> HOwn s o h -> h_cb h' = h_cb h -> h_remaining h' = 0 ->
  let s' := store_st o (CHost h') s in
  Inv s' /\ Frame s s' [o] /\ HOwn s' o h'.
Proof.
  intros I HO Ecb Hz' s'. pose proof (hown_opaque _ _ _ HO) as Hni. destruct HO as [Hc [Hz [Hnh O]]].
  destruct (store_host_excl_ok None s o h h' I Hc Hz Hz') as [I1 [F1 [Hc1 [Hsame [_ Hrt]]]]].
  split; [exact I1|]. split; [exact F1|]. split; [exact Hc1|]. split; [exact Hz'|]. rewrite Ecb. split; [exact Hnh|].
  apply (own_same s); auto. intros y Hy. apply Hsame. intros ->. contradiction.
Qed.

Lemma host_next_lookup_step f : Specs f -> forall o st s h, Inv s -> HOwn s o h ->
  safe (host_next_lookup cf (S f) o st) s (postH s o h).
Proof.
  intros IH o st s h I HO. pose proof HO as [Hc [Hz [Hnh O]]]. simpl.
  apply safe_bind. eapply safe_get_host; [exact (inv_heap _ _ I)|exact Hc|].
  (* drop the first lookup and go on *)
  assert (G : forall rest, safe (store o (CHost (h_set_lookups rest h));; host_next_lookup cf f o st) s (postH s o h)).
  { intros rest. apply safe_bind. eapply safe_store; [exact (inv_heap _ _ I)|exact Hc|].
    destruct (hown_store s o h (h_set_lookups rest h) I HO eq_refl Hz) as [I1 [F1 HO1]].
    eapply safe_mono; [apply (sp_host_next_lookup _ IH o st _ _ I1 HO1)|].
    intros [] s2 [I2 [F2 St2]]. split; auto. split; [|exact St2].
    eapply frame_weaken; [exact (frame_trans _ _ _ _ _ F1 F2)|].
    intros y Hy. simpl in Hy. destruct Hy as [<-|Hy]; [left; auto|exact Hy]. }
  destruct (h_lookups h) as [|[|] rest].
  - apply (sp_end_hquery _ IH); auto.
  - destruct (negb (h_localhost h) && match h_names h with [] => false | _ :: _ => true end).
    + apply (sp_host_next_dns_lookup _ IH); auto.
    + apply G.
  - destruct (h_localhost h).
    + apply (sp_end_hquery _ IH); auto.
    + apply G.
Qed.

(* next_dns_lookup for AF_UNSPEC: after the first of the two queries the host_query still waits for the second *)
Lemma dns_second_given s1 s2 o h1 :
  shared_at s1 o = Some h1 -> nrefs s1 o = 0 -> h_remaining h1 = 2 -> FrameG (dg (Some o)) s1 s2 [] -> GivenOk s2 (Some o).
Proof.
  intros Hs1 Hz1 Er1 F2.
  destruct (hf_host _ _ _ (fr_hosts _ _ _ _ F2) _ _ Hs1) as [A1 A2].
  { simpl. rewrite Nat.eqb_refl. lia. }
  unfold dg in A1, A2. rewrite Nat.eqb_refl, Hz1, Er1 in A1, A2.
  destruct (A1 ltac:(lia)) as [h2 Hc2]. destruct (A2 _ Hc2) as [Hp2 [Ecb2 Er2]].
  exists h2. split; [apply shared_intro; auto|lia].
Qed.

Lemma host_next_dns_lookup_step f : Specs f -> forall o s h, Inv s -> HOwn s o h ->
  safe (host_next_dns_lookup cf (S f) o) s (postH s o h).
Proof.
  intros IH o s h I HO. pose proof HO as [Hc [Hz [Hnh O]]]. simpl.
  apply safe_bind. eapply safe_get_host; [exact (inv_heap _ _ I)|exact Hc|].
  set (n := if Nat.eqb (h_family h) 0 then 2 else 1).
  set (h1 := h_set_remaining (h_remaining h + n) (h_set_names (tl (h_names h)) (hd false (h_names h)) h)).
  assert (Er1 : h_remaining h1 = n) by (unfold h1; simpl; rewrite Hz; reflexivity).
  assert (Ecb1 : h_cb h1 = h_cb h) by reflexivity.
  assert (Hn : n = 1 \/ n = 2) by (unfold n; destruct (Nat.eqb (h_family h) 0); auto).
  apply safe_bind. eapply safe_store; [exact (inv_heap _ _ I)|exact Hc|].
  destruct (store_host_share_ok None s o h h1 I Hc Hz O Hnh eq_refl ltac:(lia)) as [I1 [F1 [Hs1 [Hz1 _]]]].
  set (s1 := store_st o (CHost h1) s) in *.
  assert (Hs0 : shared_at s o = None) by (unfold shared_at; rewrite Hc, Hz; reflexivity).
  assert (Hg1 : GivenOk s1 (Some o)) by (exists h1; split; auto; lia).
  apply safe_bind.
  eapply safe_mono; [apply (sp_query_nolock _ IH (KHost o) (Some (o, Nat.eqb (h_family h) 6)) s1 I1 (own_nil _) Hg1 eq_refl)|].
  intros z s2 [I2 F2]. simpl in F2.
  destruct (hf_host _ _ _ (fr_hosts _ _ _ _ F2) _ _ Hs1) as [A1 A2].
  { simpl. rewrite Nat.eqb_refl. lia. }
  unfold dg in A1, A2. rewrite Nat.eqb_refl, Hz1, Er1 in A1, A2.
  assert (Hlt : forall o', 0 < dg (Some o) o' -> o' < st_next s).
  { intros o' H. simpl in H. destruct (Nat.eqb o' o) eqn:E; [|lia]. apply Nat.eqb_eq in E. subst.
    exact (live_lt _ _ _ (inv_heap _ _ I) Hc). }
  fold n. destruct (Nat.eqb n 2) eqn:En.
  - apply Nat.eqb_eq in En.
    destruct (A1 ltac:(lia)) as [h2 Hc2]. destruct (A2 _ Hc2) as [Hp2 [Ecb2 Er2]].
    assert (Hs2 : shared_at s2 o = Some h2) by (apply shared_intro; auto).
    assert (Hg2 : GivenOk s2 (Some o)) by (exists h2; split; auto; lia).
    apply safe_bind.
    eapply safe_mono; [apply (sp_query_nolock _ IH (KHost o) (Some (o, true)) s2 I2 (own_nil _) Hg2 eq_refl)|].
    intros z3 s3 [I3 F3]. simpl in F3. apply safe_ret.
    destruct (hf_host _ _ _ (fr_hosts _ _ _ _ F3) _ _ Hs2) as [_ B2].
    { simpl. rewrite Nat.eqb_refl. lia. }
    unfold dg in B2. rewrite Nat.eqb_refl in B2.
    split; [exact I3|]. split.
    + pose proof (frame_trans_g _ _ (fun o' => dg (Some o) o' + dg (Some o) o') _ _ _ _ _ (fun _ => eq_refl)
                    ltac:(intros o' H; apply (Nat.lt_le_trans _ (st_next s)); [apply Hlt; exact H|exact (fr_next _ _ _ _ F1)]) F2 F3) as F23.
      pose proof (frame_trans_g (dg None) _ (fun o' => dg (Some o) o' + dg (Some o) o') _ _ _ _ _ (gsum_r _)
                    ltac:(intros o' H; apply Hlt; simpl in *; destruct (Nat.eqb o' o); simpl in *; lia) F1 F23) as F.
      rewrite !app_nil_r in F. apply (frameg_zero _ _ _ _ F).
      intros o' h' Hs'. simpl. destruct (Nat.eqb o' o) eqn:E; auto. apply Nat.eqb_eq in E. subst. congruence.
    + intros h3 Hc3. destruct (B2 _ Hc3) as [Hp3 [Ecb3 Er3]]. split; auto. split; [congruence|lia].
  - apply safe_ret. apply Nat.eqb_neq in En. assert (n = 1) by lia.
    split; [exact I2|]. split.
    + pose proof (frame_trans_g _ _ (dg (Some o)) _ _ _ _ _ (gsum_r _) Hlt F1 F2) as F.
      rewrite app_nil_r in F. apply (frameg_zero _ _ _ _ F).
      intros o' h' Hs'. simpl. destruct (Nat.eqb o' o) eqn:E; auto. apply Nat.eqb_eq in E. subst. congruence.
    + intros h2 Hc2. destruct (A2 _ Hc2) as [Hp2 [Ecb2 Er2]]. split; auto. split; [congruence|lia].
Qed.

Lemma hown_core s s' o h : core_eq s s' -> HOwn s o h -> HOwn s' o h.
Proof.
  intros E [Hc [Hz [Hnh O]]]. split; [rewrite (ce_cell _ _ _ E); exact Hc|]. split; auto. split; auto.
  apply (ce_own _ _ _ E). exact O.
Qed.

Lemma host_callback_step f : Specs f -> forall o r s, Inv s -> GivenOk s (Some o) ->
  safe (host_callback cf (S f) o r) s (postG (Some o) s []).
Proof.
  intros IH o r s I [h [Hs Hlt]]. destruct (shared_host _ _ _ Hs) as [Hc Hp]. simpl.
  apply safe_bind. eapply safe_get_host; [exact (inv_heap _ _ I)|exact Hc|].
  apply safe_bind. eapply safe_store; [exact (inv_heap _ _ I)|exact Hc|].
  set (h1 := h_set_remaining (Init.Nat.pred (h_remaining h)) h).
  set (s1 := store_st o (CHost h1) s).
  assert (Ecb1 : h_cb h1 = h_cb h) by reflexivity.
  assert (Er1 : h_remaining h1 = Init.Nat.pred (h_remaining h)) by reflexivity.
  (* the answer is parsed: only the tape moves *)
  assert (TPB : forall (Q : Z * bool * bool -> state -> Prop), (forall v s2, core_eq s1 s2 -> Q v s2) ->
            safe (if zeqb (r_status r) ARES_SUCCESS
                  then let! e := pop in
                       match e with
                       | TP rc nodes v4 v6 =>
                           if zeqb rc ARES_SUCCESS && negb (h_family h =? 0)
                           then ret (if if h_family h =? 4 then v4 else v6 then ARES_SUCCESS else ARES_ENODATA,
                                     if h_family h =? 4 then v4 else v6, if h_family h =? 4 then v4 else false)
                           else ret (rc, nodes, v4)
                       | _ => fail EDESYNC end
                  else ret (ARES_SUCCESS, h_nodes h, h_v4 h)) s1 Q).
  { intros Q HQ. destruct (zeqb (r_status r) ARES_SUCCESS).
    - apply safe_bind. apply safe_pop. intros e rest Et. destruct e; try apply safe_fail.
      destruct (zeqb rc ARES_SUCCESS && negb (h_family h =? 0)); apply safe_ret; apply HQ; apply core_eq_set_tape.
    - apply safe_ret. apply HQ. apply core_eq_refl. }
  apply safe_bind. apply TPB. intros [[ais nodes] v4] s2 E2.
  destruct (Init.Nat.pred (h_remaining h) =? 0) eqn:Erem.
  - (* the last awaited answer: the host_query is ours *)
    apply Nat.eqb_eq in Erem.
    assert (Hr1 : h_remaining h = 1) by lia.
    assert (Hz0 : nrefs s o = 0) by lia.
    assert (Hz1 : h_remaining h1 = 0) by (rewrite Er1; exact Erem).
    destruct (store_host_unshare_ok None s o h h1 I Hs Hz0 Ecb1 Hz1) as [I1 [Hc1 [O1 [Hnh _]]]]. fold s1 in I1, Hc1, O1.
    assert (HO1 : HOwn s1 o h1) by (split; [exact Hc1|split; [exact Hz1|split; [rewrite Ecb1; exact Hnh|rewrite Ecb1; exact O1]]]).
    assert (I2 : Inv s2) by (apply (ce_inv _ _ _ E2); auto).
    pose proof (hown_core _ _ _ _ E2 HO1) as HO2. pose proof HO2 as [Hc2 _].
    remember (h_nomem h1 || zeqb (r_status r) ARES_ENOMEM || zeqb ais ARES_ENOMEM) as nm eqn:Enm.
    apply safe_bind. eapply safe_get_host; [exact (inv_heap _ _ I2)|exact Hc2|]. rewrite <- Enm.
    match goal with |- context [h_set_ai nodes v4 nm ?x h1] => remember x as nd eqn:End; clear End end.
    apply safe_bind. eapply safe_store; [exact (inv_heap _ _ I2)|exact Hc2|].
    destruct (hown_store s2 o h1 (h_set_ai nodes v4 nm nd h1) I2 HO2 eq_refl Hz1) as [I3 [F3 HO3]].
    set (h3 := h_set_ai nodes v4 nm nd h1) in *. set (s3 := store_st o (CHost h3) s2) in *.
    assert (Ecb3 : h_cb h3 = h_cb h) by reflexivity.
    simpl negb. rewrite andb_false_r. apply safe_bind. apply safe_ret.
    (* whatever comes next ends with the host_query released or waiting again *)
    assert (Fin : forall sA hA sB, Frame s3 sA [o] -> h_cb hA = h_cb h ->
              Inv sB /\ Frame sA sB (o :: cobjs (h_cb hA)) /\ settled sB o (h_cb hA) ->
              Inv sB /\ FrameG (dg (Some o)) s sB []).
    { intros sA hA sB FA EcbA [IB [FB StB]]. split; [exact IB|]. rewrite EcbA in FB, StB.
      apply (frame_unshare_then None s o h h1 sB _ I Hs Hz0 Hr1 Ecb1 Hz1
               (frame_core_l _ _ _ _ E2 (frame_trans _ _ _ _ _ F3 (frame_trans _ _ _ _ _ FA FB)))); auto.
      intros y Hy. simpl in Hy. destruct Hy as [<-|[<-|[<-|Hy]]]; simpl; auto. }
    assert (FinE : forall stx, safe (end_hquery cf f o stx) s3 (postG (Some o) s [])).
    { intros stx. eapply safe_mono; [apply (sp_end_hquery _ IH o stx s3 h3 I3 HO3)|].
      intros [] sB HB. apply (Fin s3 h3 sB); auto. apply (frame_weaken _ _ _ [] [o]); [apply (frame_refl _ _ I3)|intros y []]. }
    assert (FinN : forall stx sA hA, Inv sA -> HOwn sA o hA -> Frame s3 sA [o] -> h_cb hA = h_cb h ->
              safe (host_next_lookup cf f o stx) sA (postG (Some o) s [])).
    { intros stx sA hA IA HOA FA EcbA. eapply safe_mono; [apply (sp_host_next_lookup _ IH o stx sA hA IA HOA)|].
      intros [] sB HB. apply (Fin sA hA sB); auto. }
    pose proof HO3 as [Hc3 [Hz3 _]].
    destruct (zeqb (r_status r) ARES_EDESTRUCTION || zeqb (r_status r) ARES_ECANCELLED); [apply FinE|].
    destruct nm; [apply FinE|].
    destruct (negb (zeqb ais ARES_SUCCESS) && negb (zeqb ais ARES_ENODATA)).
    { destruct (zeqb ais ARES_EBADRESP && nodes); apply FinE. }
    destruct nodes; [apply FinE|].
    destruct (zeqb (r_status r) ARES_ENOTFOUND || zeqb (r_status r) ARES_ENODATA || zeqb ais ARES_ENODATA).
    { apply safe_bind. eapply safe_get_host; [exact (inv_heap _ _ I3)|exact Hc3|].
      apply safe_bind. eapply safe_store; [exact (inv_heap _ _ I3)|exact Hc3|].
      match goal with |- context [store_st o (CHost ?hx) s3] =>
        destruct (hown_store s3 o h3 hx I3 HO3 eq_refl Hz3) as [I4 [F4 HO4]] end.
      eapply FinN; eauto. }
    match goal with |- safe (if ?b then _ else _) _ _ => destruct b end.
    { apply safe_bind. eapply safe_get_host; [exact (inv_heap _ _ I3)|exact Hc3|].
      eapply FinN; eauto. apply (frame_weaken _ _ _ [] [o]); [apply (frame_refl _ _ I3)|intros y []]. }
    apply FinE.
  - (* other answers are still awaited *)
    apply Nat.eqb_neq in Erem.
    assert (Hp1 : 0 < h_remaining h1) by (rewrite Er1; lia).
    destruct (store_host_shared_ok None s o h h1 (dg (Some o)) I Hs Ecb1 Hp1) as [I1 [F1 [Hs1 _]]].
    { rewrite Er1. simpl. rewrite Nat.eqb_refl. lia. }
    { intros o' Hne. simpl. apply Nat.eqb_neq in Hne. rewrite Hne. reflexivity. }
    { simpl. rewrite Nat.eqb_refl. lia. }
    fold s1 in I1, F1, Hs1.
    assert (I2 : Inv s2) by (apply (ce_inv _ _ _ E2); auto).
    assert (Hs2 : shared_at s2 o = Some h1) by (rewrite (ce_shared _ _ _ E2); exact Hs1).
    destruct (shared_host _ _ _ Hs2) as [Hc2 _].
    remember (h_nomem h1 || zeqb (r_status r) ARES_ENOMEM || zeqb ais ARES_ENOMEM) as nm eqn:Enm.
    apply safe_bind. eapply safe_get_host; [exact (inv_heap _ _ I2)|exact Hc2|]. rewrite <- Enm.
    match goal with |- context [h_set_ai nodes v4 nm ?x h1] => remember x as nd eqn:End; clear End end.
    apply safe_bind. eapply safe_store; [exact (inv_heap _ _ I2)|exact Hc2|].
    destruct (store_host_shared_ok None s2 o h1 (h_set_ai nodes v4 nm nd h1) (dg None) I2 Hs2 eq_refl Hp1) as [I3 [F3 _]].
    { simpl. lia. } { intros; reflexivity. }
    { simpl. pose proof (hi_cnt _ (inv_hosts _ _ I2) _ _ Hs2). lia. }
    set (s3 := store_st o (CHost (h_set_ai nodes v4 nm nd h1)) s2) in *.
    assert (F13 : FrameG (dg (Some o)) s s3 []).
    { exact (frame_trans_gl _ _ _ _ _ _ F1 (frame_core_l _ _ _ _ E2 F3)). }
    simpl negb.
    assert (G : forall s4, Inv s4 -> Frame s3 s4 [] -> safe (ret tt) s4 (postG (Some o) s [])).
    { intros s4 I4 F4. apply safe_ret. split; auto. exact (frame_trans_gl _ _ _ _ _ _ F13 F4). }
    apply safe_bind.
    + match goal with |- context [if ?b then _ else ret tt] => destruct b end.
      * apply safe_bind. apply safe_get.
        match goal with |- context [lookup ?t (st_byqid s3)] => destruct (lookup t (st_byqid s3)) as [qo|] eqn:Lk end.
        -- destruct (inv_byqid _ _ I3 _ _ Lk) as [Hl _]. destruct (inv_query _ _ I3 _ Hl) as [q Hq].
           apply safe_bind. eapply safe_get_query; [exact (inv_heap _ _ I3)|exact Hq|].
           eapply safe_store; [exact (inv_heap _ _ I3)|exact Hq|].
           destruct (store_query_misc_ok None s3 qo q (set_q_noretry true q) I3 Hq eq_refl eq_refl eq_refl) as [I4 [F4 _]].
           apply G; auto. eapply frame_shrink; [exact F4|]. intros y c [<-|[]] _. left. exact Hl.
        -- apply safe_ret. apply G; auto. apply (frame_refl _ _ I3).
      * apply safe_ret. apply G; auto. apply (frame_refl _ _ I3).
Qed.

(* ---- entry points ---- *)
Lemma api_step f : Specs f -> forall c s, Inv s -> safe (api cf (S f) c) s (post s []).
Proof.
  intros IH c s I.
  (* after the EvReq event *)
  assert (Em : forall t (m : M unit),
            (forall s1, core_eq s s1 -> st_scripts s1 = st_scripts s -> safe m s1 (post s1 [])) ->
            safe (emit (EvReq t) ;; m) s (post s [])).
  { intros t m Hm. apply safe_bind. apply safe_emit.
    set (s1 := set_trace (EvReq t :: st_trace s) s).
    assert (E1 : core_eq s s1) by apply core_eq_set_trace.
    eapply safe_mono; [apply Hm; [exact E1|reflexivity]|].
    intros [] s2 [I2 F2]. split; auto. exact (frame_core_l _ _ _ _ E1 F2). }
  destruct c; simpl.
  - (* ASync *)
    apply Em. intros s1 E1 Es1.
    apply (sp_invoke _ IH (KUser t) (res st) s1); [apply (inv_core _ _ _ E1); auto|apply own_nil|exact Logic.I].
  - (* ASend *)
    apply Em. intros s1 E1 Es1. apply safe_bind.
    eapply safe_mono; [apply (sp_send_nolock _ IH (KUser t) false None s1); [apply (inv_core _ _ _ E1); auto|apply own_nil|exact Logic.I|exact Logic.I]|].
    intros z s2 [I2 F2]. apply safe_ret. split; auto.
  - (* ASendRaw *)
    apply Em. intros s1 E1 Es1.
    assert (I1 : Inv s1) by (apply (inv_core _ _ _ E1); auto).
    apply safe_bind. apply safe_alloc.
    destruct (alloc_opaque_ok None s1 I1) as [I2 _].
    apply safe_bind.
    eapply safe_mono; [apply (sp_send_nolock _ IH (KWrap WConv (st_next s1) (KUser t)) false None _ I2 (own_alloc s1 [] I1 (own_nil _)) Logic.I Logic.I)|].
    intros z s3 [I3 F3]. apply safe_ret. split; auto. exact (frame_alloc_drop None s1 s3 [] I1 Logic.I F3).
  - (* AQuery *)
    apply Em. intros s1 E1 Es1. apply safe_bind.
    eapply safe_mono; [apply (sp_query_nolock _ IH (KUser t) None s1); [apply (inv_core _ _ _ E1); auto|apply own_nil|exact Logic.I|exact Logic.I]|].
    intros z s2 [I2 F2]. apply safe_ret. split; auto.
  - (* AOQuery *)
    apply Em. intros s1 E1 Es1.
    assert (I1 : Inv s1) by (apply (inv_core _ _ _ E1); auto).
    apply safe_bind. apply safe_alloc.
    destruct (alloc_opaque_ok None s1 I1) as [I2 _].
    pose proof (own_alloc s1 [] I1 (own_nil _)) as O2.
    destruct (zeqb create_rc ARES_SUCCESS).
    + apply safe_bind.
      eapply safe_mono; [apply (sp_query_nolock _ IH (KWrap WConv (st_next s1) (KUser t)) None _ I2 O2 Logic.I Logic.I)|].
      intros z s3 [I3 F3]. apply safe_ret. split; auto. exact (frame_alloc_drop None s1 s3 [] I1 Logic.I F3).
    + eapply safe_mono; [apply (sp_invoke _ IH (KWrap WConv (st_next s1) (KUser t)) (res create_rc) _ I2 O2 Logic.I)|].
      intros [] s3 [I3 F3]. split; auto. exact (frame_alloc_drop None s1 s3 [] I1 Logic.I F3).
  - (* ASearch *)
    apply Em. intros s1 E1 Es1. apply safe_bind.
    eapply safe_mono; [apply (sp_search_int _ IH (KUser t) names s1); [apply (inv_core _ _ _ E1); auto|apply own_nil|exact Logic.I]|].
    intros z s2 [I2 F2]. apply safe_ret. split; auto.
  - (* AOSearch *)
    apply Em. intros s1 E1 Es1.
    assert (I1 : Inv s1) by (apply (inv_core _ _ _ E1); auto).
    apply safe_bind. apply safe_alloc.
    destruct (alloc_opaque_ok None s1 I1) as [I2 _].
    apply safe_bind.
    eapply safe_mono; [apply (sp_search_int _ IH (KWrap WConv (st_next s1) (KUser t)) names _ I2 (own_alloc s1 [] I1 (own_nil _)) Logic.I)|].
    intros z s3 [I3 F3]. apply safe_ret. split; auto. exact (frame_alloc_drop None s1 s3 [] I1 Logic.I F3).
  - (* AGhba *)
    apply Em. intros s1 E1 Es1.
    assert (I1 : Inv s1) by (apply (inv_core _ _ _ E1); auto).
    apply safe_bind. apply safe_alloc.
    destruct (alloc_opaque_ok None s1 I1) as [I2 _].
    eapply safe_mono; [apply (sp_addr_next_lookup _ IH (st_next s1) (KUser t) lookups _ I2 (own_alloc s1 [] I1 (own_nil _)) Logic.I)|].
    intros [] s3 [I3 F3]. split; auto. exact (frame_alloc_drop None s1 s3 [] I1 Logic.I F3).
  - (* AGni *)
    apply Em. intros s1 E1 Es1.
    assert (I1 : Inv s1) by (apply (inv_core _ _ _ E1); auto).
    apply safe_bind. apply safe_alloc.
    destruct (alloc_opaque_ok None s1 I1) as [I2 _].
    pose proof (own_alloc s1 [] I1 (own_nil _)) as O2.
    set (w := st_next s1) in *. set (s2 := alloc_st COpaque s1) in *.
    apply safe_bind. apply safe_alloc.
    destruct (alloc_opaque_ok None s2 I2) as [I3 _].
    pose proof (own_alloc s2 [w] I2 O2) as O3.
    eapply safe_mono; [apply (sp_addr_next_lookup _ IH (st_next s2) (KWrap (WNameinfo namereqd) w (KUser t)) lookups _ I3 O3 Logic.I)|].
    intros [] s4 [I4 F4]. split; auto.
    apply (frame_alloc_drop None s1 s4 [] I1 Logic.I). exact (frame_alloc_drop None s2 s4 [w] I2 Logic.I F4).
  - (* AGai *)
    apply Em. intros s1 E1 Es1.
    assert (I1 : Inv s1) by (apply (inv_core _ _ _ E1); auto).
    apply safe_bind. apply safe_alloc.
    set (h0 := mk_host (KUser t) names family lookups localhost).
    destruct (alloc_host_ok None s1 h0 I1 eq_refl) as [I2 [Hc2 _]].
    assert (HO2 : HOwn (alloc_st (CHost h0) s1) (st_next s1) h0).
    { split; [exact Hc2|]. split; [reflexivity|]. split; [exact Logic.I|apply own_nil]. }
    eapply safe_mono; [apply (sp_host_next_lookup _ IH (st_next s1) ARES_ECONNREFUSED _ h0 I2 HO2)|].
    intros [] s3 [I3 [F3 St3]]. split; auto.
    exact (frame_alloc_host_drop None s1 h0 s3 [] I1 eq_refl F3 St3).
  - (* AGhbn *)
    apply Em. intros s1 E1 Es1.
    assert (I1 : Inv s1) by (apply (inv_core _ _ _ E1); auto).
    apply safe_bind. apply safe_alloc.
    destruct (alloc_opaque_ok None s1 I1) as [I2 _].
    pose proof (own_alloc s1 [] I1 (own_nil _)) as O2.
    set (w := st_next s1) in *. set (s2 := alloc_st COpaque s1) in *.
    apply safe_bind. apply safe_alloc.
    set (h0 := mk_host (KWrap WGhbn w (KUser t)) names family lookups localhost).
    destruct (alloc_host_ok None s2 h0 I2 eq_refl) as [I3 [Hc3 [Hsame3 [_ [Hrt3 _]]]]].
    assert (HO3 : HOwn (alloc_st (CHost h0) s2) (st_next s2) h0).
    { split; [exact Hc3|]. split; [reflexivity|]. split; [exact Logic.I|].
      apply (own_same s2); auto. intros y [<-|[]]. apply Hsame3.
      destruct (own_cons _ _ _ O2) as [Hcw _]. pose proof (live_lt _ _ _ (inv_heap _ _ I2) Hcw). lia. }
    eapply safe_mono; [apply (sp_host_next_lookup _ IH (st_next s2) ARES_ECONNREFUSED _ h0 I3 HO3)|].
    intros [] s4 [I4 [F4 St4]]. split; auto.
    apply (frame_alloc_drop None s1 s4 [] I1 Logic.I).
    exact (frame_alloc_host_drop None s2 h0 s4 [w] I2 eq_refl F4 St4).
  - (* ACancel *)
    apply (sp_cancel _ IH); auto.
  - (* ASetServers *)
    apply safe_bind. apply safe_emit.
    set (s1 := set_trace (EvSetServers :: st_trace s) s).
    assert (E1 : core_eq s s1) by apply core_eq_set_trace.
    eapply safe_mono; [apply (sp_set_servers _ IH s1); apply (inv_core _ _ _ E1); auto|].
    intros [] s2 [I2 F2]. split; auto. exact (frame_core_l _ _ _ _ E1 F2).
  - (* ANop *)
    apply safe_ret. split; auto. apply (frame_refl _ _ I).
Qed.

(* ---- the induction ---- *)
Lemma specs_S f : Specs f -> Specs (S f).
Proof.
  intros IH. constructor.
  - apply invoke_step; auto.
  - apply run_script_step; auto.
  - apply api_step; auto.
  - apply query_nolock_step; auto.
  - apply send_nolock_step; auto.
  - apply send_query_step; auto.
  - apply send_query_write_step; auto.
  - apply requeue_query_step; auto.
  - apply end_query_step; auto.
  - apply complete_query_step; auto.
  - apply handle_conn_error_step; auto.
  - apply close_connection_step; auto.
  - apply requeue_conn_queries_step; auto.
  - apply check_cleanup_step; auto.
  - apply cleanup_loop_step; auto.
  - apply set_servers_step; auto.
  - apply set_servers_loop_step; auto.
  - apply cancel_step; auto.
  - apply cancel_loop_step; auto.
  - apply search_int_step; auto.
  - apply search_next_step; auto.
  - apply search_callback_step; auto.
  - apply end_squery_step; auto.
  - apply addr_next_lookup_step; auto.
  - apply addr_callback_step; auto.
  - apply end_aquery_step; auto.
  - apply host_next_lookup_step; auto.
  - apply host_next_dns_lookup_step; auto.
  - apply host_callback_step; auto.
  - apply end_hquery_step; auto.
Qed.

Theorem all_specs : forall f, Specs f.
Proof. induction f; [apply specs_O|apply specs_S; auto]. Qed.

(* ---------------------------------------------------------------------------------- *)
(* read_answers / process_answer, ares_process_fds, ares_destroy                        *)
(* ---------------------------------------------------------------------------------- *)
(* between two library calls every host_query waits for exactly the queries that point at it *)
Definition Stable (s : state) : Prop :=
  forall o h, cell_of s o = Some (CHost h) -> 0 < h_remaining h /\ h_remaining h = nrefs s o.
Definition Inv2 (s : state) : Prop := Inv s /\ Stable s.

Lemma stable_frame s s' L : Stable s -> Frame s s' L -> Stable s'.
Proof.
  intros St F o h' Hc'. pose proof (fr_hosts _ _ _ _ F) as HF.
  destruct (Nat.le_gt_cases (st_next s) o) as [Hge|Hlt].
  - exact (hf_new _ _ _ HF _ _ Hge Hc').
  - destruct (hf_old _ _ _ HF _ _ Hlt Hc') as [h Hc]. destruct (St _ _ Hc) as [Hp Hr].
    assert (Hs : shared_at s o = Some h) by (apply shared_intro; auto).
    destruct (hf_host _ _ _ HF _ _ Hs ltac:(simpl; lia)) as [_ A2].
    destruct (A2 _ Hc') as [B1 [_ B3]]. simpl in B3. split; auto. lia.
Qed.

Lemma stable_core s s' : core_eq s s' -> Stable s -> Stable s'.
Proof. intros E St o h. rewrite (ce_cell _ _ _ E), (ce_nrefs _ _ _ E). apply St. Qed.

Lemma stable_sim s s' : linked s' = linked s -> (forall o, cell_sim (cell_of s o) (cell_of s' o)) -> Stable s -> Stable s'.
Proof.
  intros El Hs St o h Hc. destruct (sim_views _ _ Hs) as [Hha Hhr].
  rewrite (nrefs_same s s' El (fun qo _ => Hhr qo)). apply St. apply host_at_some. rewrite <- Hha. apply host_at_some. exact Hc.
Qed.

Lemma sim_upd_conn s o c c' : cell_of s o = Some (CConn c) ->
  forall o', cell_sim (cell_of s o') (cell_of (store_st o (CConn c') s) o').
Proof.
  intros Hc o'. rewrite cell_store. destruct (Nat.eqb o' o) eqn:E.
  - apply Nat.eqb_eq in E. subst. rewrite Hc. exact Logic.I.
  - apply cell_sim_refl.
Qed.

Lemma sim_free_conn s o c : cell_of s o = Some (CConn c) ->
  forall o', cell_sim (cell_of s o') (cell_of (free_st o s) o').
Proof.
  intros Hc o'. rewrite cell_free. destruct (Nat.eqb o' o) eqn:E.
  - apply Nat.eqb_eq in E. subst. rewrite Hc. exact Logic.I.
  - apply cell_sim_refl.
Qed.

Definition reading (s : state) (co : obj) : Prop := exists c, cell_of s co = Some (CConn c) /\ c_reading c = true.

Lemma reading_frame s s' L co : reading s co -> Frame s s' L -> reading s' co.
Proof.
  intros [c [Hc Hr]] F. destruct (fr_reading _ _ _ _ F _ _ Hc Hr) as [c' [Hc' [Hr' _]]]. exists c'. auto.
Qed.

Lemma reading_core s s' co : reading s co -> core_eq s s' -> reading s' co.
Proof. intros [c [Hc Hr]] E. exists c. rewrite (ce_cell _ _ _ E). auto. Qed.

Lemma process_answer_ok f co qid a rq s : Inv2 s -> reading s co ->
  safe (process_answer cf f co qid a rq) s (fun _ s' => Inv2 s' /\ reading s' co).
Proof.
  intros [I St] R. pose proof (all_specs f) as IH. unfold process_answer.
  apply safe_bind. apply safe_get.
  destruct (lookup qid (st_byqid s)) as [qo|] eqn:Lk; [|apply safe_fail].
  destruct (inv_byqid _ _ I _ _ Lk) as [Hl _].
  destruct (inv_query _ _ I _ Hl) as [q Hq].
  apply safe_bind. eapply safe_get_query; [exact (inv_heap _ _ I)|exact Hq|].
  destruct R as [c [Hc Hrd]].
  apply safe_bind. eapply safe_get_conn; [exact (inv_heap _ _ I)|exact Hc|].
  destruct (negb _); [apply safe_fail|].
  destruct (find_tmr (st_tape s)) as [[vrc requeued]|]; [|apply safe_fail].
  destruct (requeued && zeqb vrc ARES_SUCCESS) eqn:Erq; [apply safe_fail|].
  (* after ares_cookie_validate *)
  assert (G : forall rq1 s1, Inv s1 -> Stable s1 -> reading s1 co -> (requeued = false -> In qo (linked s1)) ->
            safe (let! e := pop in
                  match e with
                  | TMR _ _ =>
                      if negb (zeqb vrc ARES_SUCCESS) then ret rq1
                      else let! c0 := get_conn co in
                           store co (CConn (set_c_queries (remove_nat qo (c_queries c0)) c0));;
                           match classify cf a (c_tcp c0) with
                           | DEdns => remove_from_conn qo;; ret (rq1 ++ [qid])
                           | DTrunc => let! q0 := get_query qo in
                                       store qo (CQuery (set_q_tcp true q0));;
                                       remove_from_conn qo;; ret (rq1 ++ [qid])
                           | DServFail st =>
                               expect_TS;;
                               (let! rst := requeue_query cf f qo st true true
                                              {| r_status := st; r_rec := Some (a_rcode a, a_ancount a, qid) |} in
                                if zeqb rst ARES_SUCCESS then ret (rq1 ++ [qid]) else ret rq1)
                           | DFinal =>
                               expect_TG;;
                               end_query cf f qo ARES_SUCCESS
                                 {| r_status := ARES_SUCCESS; r_rec := Some (a_rcode a, a_ancount a, qid) |};;
                               ret rq1
                           end
                  | _ => fail EDESYNC end) s1 (fun _ s' => Inv2 s' /\ reading s' co)).
  { intros rq1 s1 I1 St1 R1 Hl1.
    apply safe_bind. apply safe_pop. intros e rest Et. destruct e; try apply safe_fail.
    set (s2 := set_tape rest s1).
    assert (E2 : core_eq s1 s2) by apply core_eq_set_tape.
    assert (I2 : Inv s2) by (apply (inv_core _ _ _ E2); auto).
    assert (St2 : Stable s2) by (apply (stable_core _ _ E2); auto).
    assert (R2 : reading s2 co) by (apply (reading_core _ _ _ R1 E2)).
    destruct (negb (zeqb vrc ARES_SUCCESS)) eqn:Ev.
    - apply safe_ret. split; [split|]; auto.
    - assert (Hrq : requeued = false).
      { destruct requeued; auto. apply negb_false_iff in Ev. rewrite Ev in Erq. discriminate. }
      assert (Hl2 : In qo (linked s2)) by (rewrite (ce_linked _ _ E2); auto).
      destruct R2 as [c2 [Hc2 Hrd2]].
      apply safe_bind. eapply safe_get_conn; [exact (inv_heap _ _ I2)|exact Hc2|].
      apply safe_bind. eapply safe_store; [exact (inv_heap _ _ I2)|exact Hc2|].
      destruct (conn_drop_query_ok s2 co c2 qo I2 Hc2) as [I3 [Ell3 [Hc3 Hsame3]]].
      set (c3 := set_c_queries (remove_nat qo (c_queries c2)) c2) in *.
      set (s3 := store_st co (CConn c3) s2) in *.
      assert (St3 : Stable s3) by (apply (stable_sim s2 s3 Ell3 (sim_upd_conn _ _ _ _ Hc2) St2)).
      assert (Hl3 : In qo (linked s3)) by (rewrite Ell3; exact Hl2).
      assert (R3 : reading s3 co) by (exists c3; split; auto).
      destruct (inv_query _ _ I3 _ Hl3) as [q3 Hq3].
      destruct (classify cf a (c_tcp c2)).
      + (* DEdns *)
        destruct (remove_from_conn_ok _ _ _ _ I3 (or_intror eq_refl) Hl3 Hq3) as [s4 [E4 [I4 [F4 _]]]].
        apply safe_bind. eapply safe_of_run; [exact E4|]. apply safe_ret. split; [split|]; auto.
        * exact (stable_frame _ _ _ St3 F4).
        * exact (reading_frame _ _ _ _ R3 F4).
      + (* DTrunc *)
        apply safe_bind. eapply safe_get_query; [exact (inv_heap _ _ I3)|exact Hq3|].
        apply safe_bind. eapply safe_store; [exact (inv_heap _ _ I3)|exact Hq3|].
        destruct (store_query_misc_ok (Some qo) s3 qo q3 (set_q_tcp true q3) I3 Hq3 eq_refl eq_refl eq_refl)
          as [I4 [F4 [_ [Ell4 [_ Hq4]]]]].
        set (s4 := store_st qo (CQuery (set_q_tcp true q3)) s3) in *.
        assert (Hl4 : In qo (linked s4)) by (rewrite Ell4; exact Hl3).
        destruct (remove_from_conn_ok _ _ _ _ I4 (or_intror eq_refl) Hl4 Hq4) as [s5 [E5 [I5 [F5 _]]]].
        apply safe_bind. eapply safe_of_run; [exact E5|]. apply safe_ret. split; [split|]; auto.
        * exact (stable_frame _ _ _ (stable_frame _ _ _ St3 F4) F5).
        * exact (reading_frame _ _ _ _ (reading_frame _ _ _ _ R3 F4) F5).
      + (* DServFail *)
        apply safe_bind. apply safe_expect; [left; reflexivity|]. intros s4 E4 Es4.
        apply safe_bind.
        eapply safe_mono; [apply (sp_requeue_query _ IH qo st true true _ s4);
                           [apply (inv_core _ _ _ E4); auto|rewrite (ce_linked _ _ E4); exact Hl3]|].
        intros rst s5 [I5 F5].
        assert (R5 : reading s5 co) by (exact (reading_frame _ _ _ _ (reading_core _ _ _ R3 E4) F5)).
        assert (St5 : Stable s5) by (exact (stable_frame _ _ _ (stable_core _ _ E4 St3) F5)).
        destruct (zeqb rst ARES_SUCCESS); apply safe_ret; (split; [split|]; auto).
      + (* DFinal *)
        apply safe_bind. apply safe_expect; [right; left; reflexivity|]. intros s4 E4 Es4.
        apply safe_bind.
        eapply safe_mono; [apply (sp_end_query _ IH qo ARES_SUCCESS _ s4);
                           [apply (inv_core _ _ _ E4); auto|rewrite (ce_linked _ _ E4); exact Hl3]|].
        intros [] s5 [I5 F5]. apply safe_ret. split; [split|]; auto.
        * exact (stable_frame _ _ _ (stable_core _ _ E4 St3) F5).
        * exact (reading_frame _ _ _ _ (reading_core _ _ _ R3 E4) F5). }
  destruct requeued.
  - apply safe_bind. apply safe_bind.
    eapply safe_mono; [apply (sp_requeue_query _ IH qo ARES_SUCCESS false true _ s); [apply inv_weaken; exact I|exact Hl]|].
    intros st s1 [I1 F1].
    assert (R1 : reading s1 co) by (apply (reading_frame s s1 [] co); [exists c; auto|exact F1]).
    assert (St1 : Stable s1) by (exact (stable_frame _ _ _ St F1)).
    destruct (zeqb st ARES_SUCCESS); apply safe_ret; [apply (G (rq ++ [qid]))|apply (G rq)]; auto; discriminate.
  - apply safe_bind. apply safe_ret. apply (G rq); auto. exists c; auto.
Qed.

Lemma store_conn_flags_ok2 s co c c' :
  Inv2 s -> cell_of s co = Some (CConn c) ->
  c_queries c' = c_queries c -> c_sock c' = c_sock c ->
  (c_closed c' = true -> ~ In co (st_conns s) /\ c_queries c = []) ->
  (In co (st_conns s) -> c_closed c' = false) ->
  let s' := store_st co (CConn c') s in
  Inv2 s' /\ cell_of s' co = Some (CConn c').
Proof.
  intros [I St] Hc E1 E2 H1 H2 s'.
  destruct (store_conn_flags_ok None s co c c' I Hc E1 E2 H1 H2) as [I1 [_ [Ell [_ Hc1]]]].
  split; [split; [exact I1|]|exact Hc1]. exact (stable_sim s s' Ell (sim_upd_conn _ _ _ _ Hc) St).
Qed.

Lemma read_loop_ok f n co rq s : Inv2 s -> reading s co ->
  safe (read_loop cf f n co rq) s (fun _ s' => Inv2 s').
Proof.
  pose proof (all_specs f) as IH.
  revert co rq s. induction n as [|n IHn]; intros co rq s [I St] R; simpl; [apply safe_fail|].
  destruct R as [c [Hc Hrd]].
  apply safe_bind. eapply safe_get_conn; [exact (inv_heap _ _ I)|exact Hc|].
  apply safe_bind. apply safe_peek. apply safe_bind. apply safe_peek2.
  rewrite fx_connread_true.
  (* leaving the loop: reading := false *)
  assert (Leave : safe (store co (CConn (set_c_reading false c));; ret rq) s (fun _ s' => Inv2 s')).
  { apply safe_bind. eapply safe_store; [exact (inv_heap _ _ I)|exact Hc|].
    destruct (store_conn_flags_ok2 s co c (set_c_reading false c) (conj I St) Hc eq_refl eq_refl) as [I1 _].
    - simpl. intros H. exact (inv_closed _ _ I _ _ Hc H).
    - simpl. intros H. destruct (inv_conns _ _ I) as [_ Hcc]. destruct (Hcc _ H) as [c0 [Hc0 Hcl]].
      rewrite Hc in Hc0. inversion Hc0; subst. exact Hcl.
    - apply safe_ret. exact I1. }
  destruct (hd_error (st_tape s)) as [e|]; [|exact Leave].
  destruct e; try exact Leave.
  - (* TM *)
    destruct (negb (Nat.eqb sock (c_sock c))); [exact Leave|].
    apply safe_bind. apply safe_pop. intros e rest Et.
    set (s1 := set_tape rest s).
    assert (E1 : core_eq s s1) by apply core_eq_set_tape.
    assert (I1 : Inv2 s1) by (split; [apply (inv_core _ _ _ E1); auto|apply (stable_core _ _ E1); auto]).
    assert (R1 : reading s1 co) by (apply (reading_core s s1 co); [exists c; auto|exact E1]).
    apply safe_bind. eapply safe_mono; [apply (process_answer_ok f co qid a rq s1 I1 R1)|].
    intros rq' s2 [[I2 St2] [c2 [Hc2 Hrd2]]].
    apply safe_bind. eapply safe_get_conn; [exact (inv_heap _ _ I2)|exact Hc2|].
    destruct (c_closed c2) eqn:Ecl.
    + destruct (inv_closed _ _ I2 _ _ Hc2 Ecl) as [Hn Hq].
      apply safe_bind. eapply safe_free; [exact (inv_heap _ _ I2)|exact Hc2|].
      destruct (free_conn_ok s2 co c2 I2 Hc2 Hq Hn) as [I3 [_ [Ell3 _]]]. apply safe_ret. split; [exact I3|].
      exact (stable_sim s2 _ Ell3 (sim_free_conn _ _ _ Hc2) St2).
    + apply IHn; [split; auto|]. exists c2; auto.
  - (* TS: a connection error if TX follows *)
    destruct (hd_error (tl (st_tape s))) as [e2|]; [|exact Leave].
    destruct e2; try exact Leave.
    destruct (negb (Nat.eqb sock (c_sock c))); [exact Leave|].
    apply safe_bind. eapply safe_store; [exact (inv_heap _ _ I)|exact Hc|].
    destruct (store_conn_flags_ok2 s co c (set_c_reading false c) (conj I St) Hc eq_refl eq_refl) as [[I1 St1] Hc1].
    { simpl. intros H. exact (inv_closed _ _ I _ _ Hc H). }
    { simpl. intros H. destruct (inv_conns _ _ I) as [_ Hcc]. destruct (Hcc _ H) as [c0 [Hc0 Hcl]].
      rewrite Hc in Hc0. inversion Hc0; subst. exact Hcl. }
    apply safe_bind.
    eapply safe_mono; [apply (sp_handle_conn_error _ IH co true st _ _ I1 Hc1)|].
    intros [] s2 [I2 F2]. apply safe_ret. split; [exact I2|exact (stable_frame _ _ _ St1 F2)].
Qed.

Lemma flush_requeue_ok f rq s : Inv2 s -> safe (flush_requeue cf f rq) s (fun _ s' => Inv2 s').
Proof.
  pose proof (all_specs f) as IH.
  revert s. induction rq as [|qid rest IHr]; intros s [I St]; simpl; [apply safe_ret; split; auto|].
  apply safe_bind. apply safe_get. apply safe_bind.
  destruct (lookup qid (st_byqid s)) as [qo|] eqn:Lk.
  - destruct (inv_byqid _ _ I _ _ Lk) as [Hl _].
    apply safe_bind. eapply safe_mono; [apply (sp_send_query _ IH qo s I Hl)|].
    intros z s1 [I1 F1]. apply safe_ret. apply IHr. split; [exact I1|exact (stable_frame _ _ _ St F1)].
  - apply safe_ret. apply IHr. split; auto.
Qed.

Lemma read_answers_ok f co s c : Inv2 s -> cell_of s co = Some (CConn c) -> In co (st_conns s) ->
  safe (read_answers cf f co) s (fun _ s' => Inv2 s').
Proof.
  intros [I St] Hc Hin. unfold read_answers.
  apply safe_bind. eapply safe_get_conn; [exact (inv_heap _ _ I)|exact Hc|].
  rewrite fx_connread_true.
  apply safe_bind. eapply safe_store; [exact (inv_heap _ _ I)|exact Hc|].
  destruct (store_conn_flags_ok2 s co c (set_c_reading true c) (conj I St) Hc eq_refl eq_refl) as [I1 Hc1].
  { simpl. intros H. exact (inv_closed _ _ I _ _ Hc H). }
  { simpl. intros H. destruct (inv_conns _ _ I) as [_ Hcc]. destruct (Hcc _ H) as [c0 [Hc0 Hcl]].
    rewrite Hc in Hc0. inversion Hc0; subst. exact Hcl. }
  apply safe_bind. eapply safe_mono; [apply (read_loop_ok f f co [] _ I1)|].
  - exists (set_c_reading true c). split; auto.
  - intros rq s2 I2. apply flush_requeue_ok. exact I2.
Qed.

Lemma destroy_loop_ok f n s : Inv2 s ->
  safe (destroy_loop_fixed cf f n) s (fun _ s' => Inv2 s').
Proof.
  pose proof (all_specs f) as IH.
  revert s. induction n as [|n IHn]; intros s [I St]; simpl; [apply safe_fail|].
  apply safe_bind. apply safe_get.
  destruct (st_lists s) as [|[|qo l] r] eqn:El; try (apply safe_ret; split; assumption).
  assert (Hl : In qo (linked s)) by (unfold linked; rewrite El; simpl; left; reflexivity).
  apply safe_bind. eapply safe_mono; [apply (sp_complete_query _ IH qo _ s (inv_weaken _ _ I) Hl)|].
  intros [] s1 [I1 F1]. apply IHn. split; [exact I1|exact (stable_frame _ _ _ St F1)].
Qed.

Lemma destroy_conns_ok f n s : Inv2 s -> safe (destroy_conns cf f n) s (fun _ s' => Inv2 s').
Proof.
  pose proof (all_specs f) as IH.
  revert s. induction n as [|n IHn]; intros s [I St]; simpl; [apply safe_fail|].
  apply safe_bind. apply safe_get.
  destruct (st_conns s) as [|co0 r] eqn:Ec; [apply safe_ret; split; assumption|].
  apply safe_bind. apply safe_peek.
  destruct (hd_error (st_tape s)) as [e|]; [|apply safe_fail].
  destruct e; try apply safe_fail.
  destruct (find_conn_by_sock_ok _ s sock I) as [r0 [E1 Hr]].
  apply safe_bind. eapply safe_of_run; [exact E1|].
  destruct r0 as [co|]; [|apply safe_fail].
  destruct (Hr _ eq_refl) as [Hin [c [Hc Hncl]]].
  apply safe_bind. eapply safe_mono; [apply (sp_close_connection _ IH co ARES_SUCCESS s c I Hc)|].
  intros [] s1 [I1 F1]. apply IHn. split; [exact I1|exact (stable_frame _ _ _ St F1)].
Qed.

Lemma destroy_ok f s : Inv2 s -> safe (destroy cf f) s (fun _ s' => Inv2 s').
Proof.
  intros [I St]. unfold destroy.
  apply safe_bind. apply safe_modify.
  set (s1 := set_destroying true s).
  assert (E1 : core_eq s s1) by apply core_eq_set_destroying.
  assert (I1 : Inv2 s1) by (split; [apply (inv_core _ _ _ E1); auto|apply (stable_core _ _ E1); auto]).
  apply safe_bind. apply safe_get. rewrite fx_unlink_true.
  apply safe_bind. eapply safe_mono; [apply (destroy_loop_ok f f s1 I1)|].
  intros [] s2 I2. apply safe_bind. apply safe_get.
  destruct (negb _); [apply safe_fail|]. apply destroy_conns_ok. exact I2.
Qed.

Lemma process_writes_ok f socks s : Inv2 s -> safe (process_writes cf f socks) s (fun _ s' => Inv2 s').
Proof.
  pose proof (all_specs f) as IH.
  revert s. induction socks as [|sock rest IHr]; intros s [I St]; simpl; [apply safe_ret; split; assumption|].
  destruct (find_conn_by_sock_ok _ s sock I) as [r0 [E1 Hr]].
  apply safe_bind. eapply safe_of_run; [exact E1|]. apply safe_bind.
  destruct r0 as [co|]; [|apply safe_ret; apply IHr; split; assumption].
  destruct (Hr _ eq_refl) as [Hin [c [Hc Hncl]]].
  apply safe_bind. eapply safe_get_conn; [exact (inv_heap _ _ I)|exact Hc|].
  apply safe_bind. apply safe_pop. intros e rest0 Et. destruct e; try apply safe_fail.
  set (s1 := set_tape rest0 s).
  assert (E2 : core_eq s s1) by apply core_eq_set_tape.
  assert (I1 : Inv s1) by (apply (inv_core _ _ _ E2); auto).
  assert (St1 : Stable s1) by (apply (stable_core _ _ E2); auto).
  destruct (negb (Nat.eqb sock0 sock)); [apply safe_fail|].
  destruct (zeqb rc ARES_SUCCESS).
  - apply safe_ret. apply IHr. split; assumption.
  - eapply safe_mono; [apply (sp_handle_conn_error _ IH co true rc s1 c I1); rewrite (ce_cell _ _ _ E2); exact Hc|].
    intros [] s2 [I2 F2]. apply IHr. split; [exact I2|exact (stable_frame _ _ _ St1 F2)].
Qed.

Lemma process_reads_ok f socks s : Inv2 s -> safe (process_reads cf f socks) s (fun _ s' => Inv2 s').
Proof.
  revert s. induction socks as [|sock rest IHr]; intros s [I St]; simpl; [apply safe_ret; split; assumption|].
  destruct (find_conn_by_sock_ok _ s sock I) as [r0 [E1 Hr]].
  apply safe_bind. eapply safe_of_run; [exact E1|]. apply safe_bind.
  destruct r0 as [co|]; [|apply safe_ret; apply IHr; split; assumption].
  destruct (Hr _ eq_refl) as [Hin [c [Hc Hncl]]].
  eapply safe_mono; [apply (read_answers_ok f co s c (conj I St) Hc Hin)|].
  intros [] s1 I1. apply IHr. exact I1.
Qed.

Lemma process_timeouts_ok f n s : Inv2 s -> safe (process_timeouts cf f n) s (fun _ s' => Inv2 s').
Proof.
  pose proof (all_specs f) as IH.
  revert s. induction n as [|n IHn]; intros s [I St]; simpl; [apply safe_fail|].
  apply safe_bind. apply safe_peek. apply safe_bind. apply safe_peek2.
  destruct (hd_error (st_tape s)) as [e|]; [|apply safe_ret; split; assumption].
  destruct e; try (apply safe_ret; split; assumption).
  assert (G : safe (let! s0 := get in
                    match timeout_victim (st_tape s0) with
                    | Some qid =>
                        match lookup qid (st_byqid s0) with
                        | Some qo =>
                            if negb (memb qo (st_bytmo s0)) then fail EDESYNC
                            else let! q := get_query qo in
                                 match q_conn q with
                                 | Some co => let! _ := get_conn co in ret tt
                                 | None => fail EINTERNAL end;;
                                 expect_TS;;
                                 (let! _ := requeue_query cf f qo ARES_ETIMEOUT true false (res ARES_ETIMEOUT) in
                                  process_timeouts cf f n)
                        | None => fail EDESYNC end
                    | None => fail EDESYNC end) s (fun _ s' => Inv2 s')).
  { apply safe_bind. apply safe_get.
    destruct (timeout_victim (st_tape s)) as [qid|]; [|apply safe_fail].
    destruct (lookup qid (st_byqid s)) as [qo|] eqn:Lk; [|apply safe_fail].
    destruct (memb qo (st_bytmo s)) eqn:Mb; simpl; [|apply safe_fail].
    apply memb_In in Mb.
    destruct (inv_bytmo _ _ I _ Mb) as [Hl [q [co [c [Hq [Hqc [Hc _]]]]]]].
    apply safe_bind. eapply safe_get_query; [exact (inv_heap _ _ I)|exact Hq|].
    rewrite Hqc. apply safe_bind. apply safe_bind. eapply safe_get_conn; [exact (inv_heap _ _ I)|exact Hc|].
    apply safe_ret. apply safe_bind. apply safe_expect; [left; reflexivity|]. intros s1 E1 Es1.
    apply safe_bind.
    eapply safe_mono; [apply (sp_requeue_query _ IH qo ARES_ETIMEOUT true false _ s1);
                       [apply inv_weaken; apply (inv_core _ _ _ E1); auto|rewrite (ce_linked _ _ E1); exact Hl]|].
    intros z s2 [I2 F2]. apply IHn. split; [exact I2|exact (stable_frame _ _ _ (stable_core _ _ E1 St) F2)]. }
  destruct (hd_error (tl (st_tape s))) as [e2|]; [|exact G].
  destruct e2; try exact G. apply safe_ret. split; assumption.
Qed.

Lemma process_fds_ok f w r s : Inv2 s -> safe (process_fds cf f w r) s (fun _ s' => Inv2 s').
Proof.
  intros I. pose proof (all_specs f) as IH. unfold process_fds.
  apply safe_bind. eapply safe_mono; [apply process_writes_ok; exact I|]. intros [] s1 I1.
  apply safe_bind. eapply safe_mono; [apply process_reads_ok; exact I1|]. intros [] s2 [I2 St2].
  apply safe_bind. eapply safe_mono; [apply (sp_check_cleanup _ IH s2 I2)|]. intros [] s3 [I3 F3].
  apply process_timeouts_ok. split; [exact I3|exact (stable_frame _ _ _ St2 F3)].
Qed.

End Fixed.

(* ---------------------------------------------------------------------------------- *)
(* Histories                                                                           *)
(* ---------------------------------------------------------------------------------- *)
Lemma init_inv cf : Inv2 (init_state cf).
Proof.
  split.
  - constructor; simpl; unfold cell_of, linked, chain; simpl.
    + split; [intros o c H; discriminate|intros o []].
    + constructor.
    + intros qo [].
    + intros qid qo H; discriminate.
    + intros qo [].
    + intros co c qo H; discriminate.
    + split; [constructor|intros co []].
    + intros co c H; discriminate.
    + split; [constructor|intros o []].
    + constructor.
      * intros qo o [].
      * intros o h H. unfold shared_at, cell_of in H. simpl in H. discriminate.
      * intros o h H. unfold shared_at, cell_of in H. simpl in H. discriminate.
      * unfold hobjs. simpl. split; [constructor|intros x []].
  - intros o h H. unfold cell_of in H. simpl in H. discriminate.
Qed.

Lemma add_script_inv t c s : Inv2 s -> Inv2 (add_script t c s).
Proof.
  intros [I St]. unfold add_script. destruct (delivered t s); [split; auto|].
  split; [apply (ce_inv None s _ (core_eq_set_scripts _ s)); auto|apply (stable_core _ _ (core_eq_set_scripts _ s)); auto].
Qed.

Lemma step_ok cf fuel i tape s : cf_fix cf = all_fixed -> Inv2 s ->
  safe (step cf fuel i tape) s (fun _ s' => Inv2 s').
Proof.
  intros Hfix [I St]. pose proof (all_specs cf Hfix fuel) as IH. unfold step.
  apply safe_bind. apply safe_modify.
  set (s1 := set_tape tape s).
  assert (E1 : core_eq s s1) by apply core_eq_set_tape.
  assert (I1 : Inv s1) by (apply (inv_core _ _ _ E1); auto).
  assert (St1 : Stable s1) by (apply (stable_core _ _ E1); auto).
  assert (Fin : forall s2, Inv2 s2 ->
            safe (let! s0 := get in match st_tape s0 with [] => ret tt | _ :: _ => fail EDESYNC end) s2 (fun _ s' => Inv2 s')).
  { intros s2 I2. apply safe_bind. apply safe_get. destruct (st_tape s2); [apply safe_ret; exact I2|apply safe_fail]. }
  apply safe_bind.
  destruct i as [c|t c|w r|].
  - (* IApi *)
    assert (Dflt : safe (api cf fuel c) s1 (fun _ s0 => safe (let! s3 := get in match st_tape s3 with [] => ret tt | _ :: _ => fail EDESYNC end) s0 (fun _ s' => Inv2 s'))).
    { eapply safe_mono; [apply (sp_api _ _ IH c s1 I1)|]. intros [] s2 [I2 F2]. apply Fin. split; [exact I2|exact (stable_frame _ _ _ St1 F2)]. }
    destruct c; try exact Dflt.
    (* top-level ares_cancel *)
    apply safe_bind. apply safe_emit.
    set (s2 := set_trace (EvCancelBegin :: st_trace s1) s1).
    assert (E2 : core_eq s1 s2) by apply core_eq_set_trace.
    apply safe_bind. eapply safe_mono; [apply (sp_cancel _ _ IH s2); apply (inv_core _ _ _ E2); auto|].
    intros [] s3 [I3 F3]. apply safe_emit.
    apply Fin. split; [apply (inv_core _ _ _ (core_eq_set_trace _ s3)); auto|].
    apply (stable_core _ _ (core_eq_set_trace _ s3)). exact (stable_frame _ _ _ (stable_core _ _ E2 St1) F3).
  - (* IOnCb *)
    apply safe_modify. apply Fin. apply add_script_inv; split; auto.
  - (* IProc *)
    eapply safe_mono; [apply (process_fds_ok cf Hfix fuel w r s1 (conj I1 St1))|]. intros [] s2 I2. apply Fin. exact I2.
  - (* IDestroy *)
    apply safe_bind. apply safe_emit.
    set (s2 := set_trace (EvDestroyBegin :: st_trace s1) s1).
    assert (E2 : core_eq s1 s2) by apply core_eq_set_trace.
    apply safe_bind. eapply safe_mono; [apply (destroy_ok cf Hfix fuel s2); split; [apply (inv_core _ _ _ E2); auto|apply (stable_core _ _ E2); auto]|].
    intros [] s3 [I3 St3]. apply safe_emit.
    apply Fin. split; [apply (inv_core _ _ _ (core_eq_set_trace _ s3)); auto|apply (stable_core _ _ (core_eq_set_trace _ s3)); auto].
Qed.

Lemma run_from_ok cf fuel h s : cf_fix cf = all_fixed -> Inv2 s ->
  safe (run_from cf fuel h) s (fun _ s' => Inv2 s').
Proof.
  intros Hfix. revert s. induction h as [|[i tape] rest IHh]; intros s I; simpl; [apply safe_ret; exact I|].
  assert (G : safe (step cf fuel i tape;; run_from cf fuel rest) s (fun _ s' => Inv2 s')).
  { apply safe_bind. eapply safe_mono; [apply (step_ok cf fuel i tape s Hfix I); auto|].
    intros [] s1 I1. apply IHh; auto. }
  destruct i; try exact G.
  apply safe_bind. eapply safe_mono; [apply (step_ok cf fuel IDestroy tape s Hfix I)|].
  intros [] s1 I1. apply safe_ret. exact I1.
Qed.

(* C01_no_ub: all seven entry points *)
Theorem run_no_ub cf fuel h final :
  cf_fix cf = all_fixed ->
  forall k, run cf fuel h final <> UB k.
Proof.
  intros Hfix k. unfold run.
  assert (S : safe (let! destroyed := run_from cf fuel h in
                    (if destroyed then ret tt else step cf fuel IDestroy final);; emit EvEnd)
                   (init_state cf) (fun _ _ => True)).
  { apply safe_bind. eapply safe_mono; [apply (run_from_ok cf fuel h (init_state cf) Hfix (init_inv cf))|].
    intros d s1 I1. apply safe_bind.
    - destruct d.
      + apply safe_ret. apply safe_emit. exact Logic.I.
      + eapply safe_mono; [apply (step_ok cf fuel IDestroy final s1 Hfix I1)|].
        intros [] s2 I2. apply safe_emit. exact Logic.I. }
  unfold safe in S.
  destruct ((let! destroyed := run_from cf fuel h in
             (if destroyed then ret tt else step cf fuel IDestroy final);; emit EvEnd) (init_state cf))
    as [[a s']|e|k']; try discriminate. destruct S.
Qed.
