(* C17 - the property as an executable monitor over (event, observation) traces.

   This is the SPECIFICATION side: it does not look at the cookie record of the code at all.
   It keeps its own history summary (what was last sent, when, from which source address, which
   server cookie was last accepted, whether the server has proven support, ...) and judges what
   the component did at each step.  The same function is (a) the statement of the theorems in
   Cookie_proofs.v (the model never makes it complain) and (b), extracted, the oracle that
   judges the real library's trace in the correspondence run (FAIL lines). *)
From CAres.Base Require Import CInt.
From CAres.Gen Require Import Consts.
From CAres.Core Require Import Cookie.
Local Open Scope Z_scope.

Inductive vkind :=
| V_tcp_cookie          (* a COOKIE option was left in a request sent over TCP *)
| V_cookie_missing      (* UDP + EDNS request without cookie though the server is not known unsupported *)
| V_malformed_req       (* cookie option sent is shorter than 8 bytes *)
| V_client_unstable     (* client part changed without a rotation event *)
| V_echo                (* server part sent is not the last accepted server cookie *)
| V_supported_accepts   (* server has proven support, response without valid cookie was accepted *)
| V_mismatch_accepted   (* response with bad length / wrong client part / illegal BADCOOKIE was not dropped *)
| V_valid_dropped       (* response with a valid cookie was dropped *)
| V_badcookie           (* BADCOOKIE reply not answered by "requeue without consuming a try, do not deliver" *)
| V_badcookie_bound     (* more than COOKIE_RESEND_MAX resends, or no switch to TCP at the bound *)
| V_unsup_dropped.      (* server never proved support, cookie-less response was dropped *)

(* elapsed time in microseconds, exact *)
Definition us (t : tv) : Z := tv_sec t * 1000000 + tv_usec t.
Definition elapsed_ge (since now : tv) (ms : Z) : bool := us now - us since >=? ms * 1000.

(* "same source address": same family and same address bytes; unknown (AF_UNSPEC) addresses
   are all the same address *)
Definition addr_same (a b : addr) : bool :=
  (a_family a =? a_family b) &&
  (if a_family a =? AF_INET then bytes_eqb (firstn 4 (a_data a)) (firstn 4 (a_data b))
   else if a_family a =? AF_UNSPEC then true
   else bytes_eqb (a_data a) (a_data b)).

Record ghost := mkG {
  g_last : option (list Z);   (* client part of the cookie last sent over UDP *)
  g_ip : addr;                (* source address it was first sent from *)
  g_since : tv;               (* when it was first sent *)
  g_reset_ok : bool;          (* a state reset is permitted: server treated as not supporting cookies *)
  g_server : list Z;          (* last accepted server cookie for the current client cookie ([] = none) *)
  g_sup : bool;               (* the server has proven cookie support *)
  g_nocookie : option tv;     (* first otherwise valid response lacking a server cookie since the last valid one *)
  g_req : nat -> req;         (* per query: request as last transmitted *)
  g_bad : nat -> Z }.         (* per query: resends caused by BADCOOKIE *)

Definition ghost_init : ghost :=
  mkG None addr_zero tv_zero false [] false None (fun _ => OptOnly) (fun _ => 0).

Definition is_none {A} (o : option A) : bool := match o with None => true | Some _ => false end.

Definition mon_apply (g : ghost) (q : nat) (ip : addr) (now : tv) (tcp : bool) (r : req) : ghost * list vkind :=
  let greq := upd (g_req g) q r in
  let keep := mkG (g_last g) (g_ip g) (g_since g) (g_reset_ok g) (g_server g) (g_sup g) (g_nocookie g) greq (g_bad g) in
  if tcp then (keep, if is_none (cookie_of r) then [] else [V_tcp_cookie])
  else match r with
  | NoOpt => (keep, [])
  | OptOnly => (keep, if g_reset_ok g then [] else [V_cookie_missing])
  | OptCookie c =>
    if zlen c <? 8 then (keep, [V_malformed_req]) else
    let p := firstn 8 c in
    let sv := skipn 8 c in
    let regress := g_sup g && match g_nocookie g with Some t => elapsed_ge t now COOKIE_REGRESSION_TIMEOUT_MS | None => false end in
    let reset := g_reset_ok g || regress in
    let sup' := g_sup g && negb regress in
    let same := match g_last g with Some p0 => bytes_eqb p0 p | None => false end in
    let moved := negb (addr_same ip (g_ip g)) in
    let aged := sup' && elapsed_ge (g_since g) now COOKIE_CLIENT_TIMEOUT_MS in
    let rotation := reset || is_none (g_last g) || moved || aged in
    let v1 := if negb same && negb rotation then [V_client_unstable] else [] in
    let fresh := rotation || negb same in
    let v2 := if bytes_eqb sv (if fresh then [] else g_server g) then [] else [V_echo] in
    (if fresh
     then mkG (Some p) ip now false [] sup' (if regress then None else g_nocookie g) greq (g_bad g)
     else mkG (g_last g) (g_ip g) (g_since g) false (g_server g) sup' (g_nocookie g) greq (g_bad g),
     v1 ++ v2)
  end.

(* an otherwise valid response that lacks a server cookie *)
Definition mon_nocookie (g' : ghost) (now : tv) (dropped : bool) (rq : option (Z * Z)) : ghost * list vkind :=
  if g_sup g'
  then (mkG (g_last g') (g_ip g') (g_since g') (g_reset_ok g') (g_server g') true
            (match g_nocookie g' with None => Some now | s => s end) (g_req g') (g_bad g'),
        if dropped && is_none rq then [] else [V_supported_accepts])
  else (mkG (g_last g') (g_ip g') (g_since g') true (g_server g') false (g_nocookie g') (g_req g') (g_bad g'),
        if dropped then [V_unsup_dropped] else []).

Definition mon_validate (g : ghost) (q : nat) (rc0 : option (list Z)) (rcode : Z) (now : tv)
           (st : Z) (rq : option (Z * Z)) (try : Z) (utcp : bool) : ghost * list vkind :=
  let rc := norm_cookie rc0 in
  let dropped := negb (st =? ARES_SUCCESS) in
  let with_nocookie g' := mon_nocookie g' now dropped rq in
  match cookie_of (g_req g q) with
  | None =>
    (* request carried no cookie: a cookie-less response must be usable *)
    (g, if is_none rc && dropped then [V_unsup_dropped] else [])
  | Some x =>
    let cp := firstn 8 x in
    match rc with
    | Some c =>
      if negb ((8 <=? zlen c) && (zlen c <=? 40) && bytes_eqb (firstn 8 c) cp)
      then (g, if dropped && is_none rq then [] else [V_mismatch_accepted])
      else
        let has_server := 8 <? zlen c in
        let cur := negb (g_reset_ok g) && match g_last g with Some p => bytes_eqb p cp | None => false end in
        let g1 := if has_server
                  then mkG (g_last g) (g_ip g) (g_since g) (g_reset_ok g)
                           (if cur then skipn 8 c else g_server g) true None (g_req g) (g_bad g)
                  else g in
        if rcode =? ARES_RCODE_BADCOOKIE then
          let n := g_bad g q + 1 in
          let v1 := if dropped && match rq with Some (s, inc) => (s =? ARES_SUCCESS) && (inc =? ARES_FALSE) | None => false end
                    then [] else [V_badcookie] in
          let v2 := if (n <=? COOKIE_RESEND_MAX) && (Bool.eqb utcp (COOKIE_RESEND_MAX <=? n)) && (try =? n)
                    then [] else [V_badcookie_bound] in
          (mkG (g_last g1) (g_ip g1) (g_since g1) (g_reset_ok g1) (g_server g1) (g_sup g1) (g_nocookie g1)
               (g_req g1) (upd (g_bad g1) q n), v1 ++ v2)
        else if has_server then (g1, if dropped then [V_valid_dropped] else [])
        else with_nocookie g1
    | None =>
      if rcode =? ARES_RCODE_BADCOOKIE
      then (g, if dropped && is_none rq then [] else [V_mismatch_accepted])
      else with_nocookie g
    end
  end.

Definition mon_step (g : ghost) (e : event) (o : obs) : ghost * list vkind :=
  match e, o with
  | ENew q _ _, ONew r =>
    (mkG (g_last g) (g_ip g) (g_since g) (g_reset_ok g) (g_server g) (g_sup g) (g_nocookie g)
         (upd (g_req g) q r) (upd (g_bad g) q 0), [])
  | EApply q _ ip now _, OApply tcp st r _ => mon_apply g q ip now tcp r
  | EValidate q rc rcode now, OValidate st rq try utcp => mon_validate g q rc rcode now st rq try utcp
  | _, _ => (g, [])
  end.

(* run model and monitor together over a list of events; collect violations *)
Fixpoint run (s : sys) (g : ghost) (evs : list event) : outcome (list vkind) :=
  match evs with
  | [] => Ok []
  | e :: rest =>
    do so <- sys_step s e;
    let '(s', o) := so in
    let '(g', v) := mon_step g e o in
    do vs <- run s' g' rest;
    Ok (v ++ vs)
  end.

(* the same, separated: what the model does, and what the monitor says about any trace *)
Fixpoint exec (s : sys) (evs : list event) : outcome (list obs) :=
  match evs with
  | [] => Ok []
  | e :: rest =>
    do so <- sys_step s e;
    let '(s', o) := so in
    do os <- exec s' rest;
    Ok (o :: os)
  end.

Fixpoint judge (g : ghost) (evs : list event) (os : list obs) : list vkind :=
  match evs, os with
  | e :: rest, o :: os' => let '(g', v) := mon_step g e o in v ++ judge g' rest os'
  | _, _ => []
  end.
