(* C20 - the buffer of Core/Frame.v (data, offset, tag; "did ensure_space reclaim?" as an input
   of every append) is a sound abstraction of the full ares_buf model of Dsa/Buf.v (memory
   block, data_len, alloc_buf_len, ares_buf_ensure_space with its doubling loop, ares_buf_reclaim
   with its memmove, allocator answers).

   Both models are related through the reference specification [bspec] of Dsa/Buf.v:
     - every cursor operation of Frame.v (the same generated functions) refines the same
       specification function the Dsa model refines, with the same status;
     - whatever the full model does on a successful append / append_start+finish - which depends
       on alloc_buf_len, the allocator and the junk in fresh memory - Frame.buf_append does for
       one of the two values of its [reclaim] input.
   Hence the theorems of Frame_proofs.v, which quantify over all reclaim decisions, hold for the
   behaviours of the faithful buffer. *)
From CAres.Base Require Import CInt.
From CAres.Gen Require Import Consts LeafFns.
From CAres.Dsa Require Import Buf Buf_proofs.
From CAres.Core Require Frame Frame_proofs.
Local Open Scope Z_scope.
Local Open Scope bool_scope.

Definition fdata (b : Frame.buf) := Frame.b_data b.
Definition foff (b : Frame.buf) := Frame.b_off b.
Definition ftag (b : Frame.buf) := Frame.b_tag b.

Definition fwf (b : Frame.buf) : Prop :=
  0 <= foff b <= buf_zlen (fdata b) /\ buf_zlen (fdata b) < BUF_SIZE_MAX /\
  (ftag b = BUF_SIZE_MAX \/ 0 <= ftag b <= foff b).

(* the reference specification value of a Frame buffer *)
Definition fabs (b : Frame.buf) : bspec :=
  mkBufSpec (buf_take (foff b) (fdata b)) (buf_drop (foff b) (fdata b))
            (if ftag b =? BUF_SIZE_MAX then None else Some (ftag b)) false.

Lemma fabs_pre_len b : fwf b -> buf_zlen (bs_pre (fabs b)) = foff b.
Proof. intros (H & _). cbn. apply buf_take_zlen. exact H. Qed.

Lemma fabs_post_len b : fwf b -> buf_zlen (bs_post (fabs b)) = buf_zlen (fdata b) - foff b.
Proof. intros (H & _). cbn. apply buf_drop_zlen. exact H. Qed.

Lemma two64' : 2 ^ 64 = 18446744073709551616. Proof. reflexivity. Qed.

(* ---- cursor operations: same status, same abstract result as the specification ---- *)
Lemma f_len_refines b : fwf b -> Frame.buf_len b = Ok (bufs_len (fabs b)).
Proof.
  intros Hw. pose proof Hw as (H1 & H2 & _). unfold Frame.buf_len, c_ares_buf_len, bufs_len, Frame.data_len.
  rewrite fabs_post_len by exact Hw. unfold fdata, foff, buf_zlen, BUF_SIZE_MAX in *.
  rewrite Z.mod_small; [reflexivity|]. rewrite two64'. lia.
Qed.

Lemma f_consume_refines b n : fwf b -> 0 <= n ->
  exists st b', Frame.buf_consume b n = Ok (st, b') /\ fwf b' /\ (st, fabs b') = bufs_consume (fabs b) n.
Proof.
  intros Hw Hn. pose proof Hw as (H1 & H2 & H3). unfold Frame.buf_consume. rewrite f_len_refines by exact Hw.
  cbn [bind]. unfold c_ares_buf_consume, bufs_consume. unfold bufs_len at 1. rewrite fabs_post_len by exact Hw.
  destruct b as [d off t]. unfold fdata, foff, ftag in *. cbn [Frame.b_data Frame.b_off Frame.b_tag] in *.
  unfold bufs_len. cbn [fabs bs_post fdata foff Frame.b_data Frame.b_off]. rewrite buf_drop_zlen by lia.
  destruct (Z.ltb_spec (buf_zlen d - off) n) as [Hlt|Hge]; cbn [bind].
  - exists ARES_EBADRESP, (Frame.mkbuf d off t). split; [reflexivity|]. split; [exact Hw|]. reflexivity.
  - rewrite Z.mod_small by (rewrite two64'; unfold BUF_SIZE_MAX in H2; lia).
    exists ARES_SUCCESS, (Frame.mkbuf d (off + n) t). split; [reflexivity|]. split.
    + unfold fwf, fdata, foff, ftag. cbn. repeat split; lia.
    + f_equal. unfold fabs, bufs_advance, fdata, foff, ftag. cbn [Frame.b_data Frame.b_off Frame.b_tag bs_pre bs_post bs_tag bs_const].
      f_equal.
      * rewrite <- buf_take_add by lia. reflexivity.
      * rewrite buf_drop_drop by lia. reflexivity.
Qed.

Lemma f_tag_refines b : fwf b -> exists b', Frame.buf_tag b = Ok b' /\ fwf b' /\ fabs b' = bufs_tag (fabs b).
Proof.
  intros Hw. pose proof Hw as (H1 & H2 & H3). destruct b as [d off t]. unfold fdata, foff, ftag in *. cbn in H1, H2, H3.
  exists (Frame.mkbuf d off off). split; [reflexivity|]. split.
  - unfold fwf, fdata, foff, ftag. cbn. repeat split; lia.
  - unfold fabs, bufs_tag, bufs_position, fdata, foff, ftag. cbn [Frame.b_data Frame.b_off Frame.b_tag bs_pre bs_post bs_tag bs_const].
    rewrite buf_take_zlen by lia.
    destruct (Z.eqb_spec off BUF_SIZE_MAX); [lia|]. reflexivity.
Qed.

Lemma f_tag_rollback_refines b : fwf b ->
  exists st b', Frame.buf_tag_rollback b = Ok (st, b') /\ fwf b' /\ (st, fabs b') = bufs_tag_rollback (fabs b).
Proof.
  intros Hw. pose proof Hw as (H1 & H2 & H3). destruct b as [d off t]. unfold fdata, foff, ftag in *. cbn in H1, H2, H3.
  unfold Frame.buf_tag_rollback, c_ares_buf_tag_rollback, bufs_tag_rollback. cbn [Frame.b_tag Frame.b_off Frame.b_data bind].
  unfold fabs at 1, ftag. cbn [bs_tag Frame.b_tag]. fold BUF_SIZE_MAX.
  destruct (Z.eqb_spec t BUF_SIZE_MAX) as [->|Hne].
  - exists ARES_EFORMERR, (Frame.mkbuf d off BUF_SIZE_MAX). split; [reflexivity|]. split; [exact Hw|]. reflexivity.
  - destruct H3 as [H3|H3]; [congruence|].
    assert (Et : (t =? BUF_SIZE_MAX) = false) by (apply Z.eqb_neq; exact Hne).
    exists ARES_SUCCESS, (Frame.mkbuf d t BUF_SIZE_MAX). split; [reflexivity|]. split.
    + unfold fwf, fdata, foff, ftag. cbn. repeat split; lia.
    + unfold fabs, fdata, foff, ftag. cbn [Frame.b_data Frame.b_off Frame.b_tag bs_pre bs_post bs_tag bs_const].
      rewrite Et, Z.eqb_refl. f_equal. f_equal.
      * rewrite buf_take_take by lia. reflexivity.
      * rewrite buf_drop_take by lia.
        rewrite <- (buf_take_drop (off - t) (buf_drop t d)) at 1. f_equal. rewrite buf_drop_drop by lia. f_equal. lia.
Qed.

Lemma f_tag_clear_refines b : fwf b ->
  exists st b', Frame.buf_tag_clear b = Ok (st, b') /\ fwf b' /\ (st, fabs b') = bufs_tag_clear (fabs b).
Proof.
  intros Hw. pose proof Hw as (H1 & H2 & H3). destruct b as [d off t]. unfold fdata, foff, ftag in *. cbn in H1, H2, H3.
  unfold Frame.buf_tag_clear, c_ares_buf_tag_clear, bufs_tag_clear. cbn [Frame.b_tag Frame.b_off Frame.b_data bind].
  unfold fabs at 1, ftag. cbn [bs_tag Frame.b_tag]. fold BUF_SIZE_MAX.
  destruct (Z.eqb_spec t BUF_SIZE_MAX) as [->|Hne].
  - exists ARES_EFORMERR, (Frame.mkbuf d off BUF_SIZE_MAX). split; [reflexivity|]. split; [exact Hw|]. reflexivity.
  - assert (Et : (t =? BUF_SIZE_MAX) = false) by (apply Z.eqb_neq; exact Hne).
    exists ARES_SUCCESS, (Frame.mkbuf d off BUF_SIZE_MAX). split; [reflexivity|]. split.
    + unfold fwf, fdata, foff, ftag. cbn. repeat split; lia.
    + unfold fabs, fdata, foff, ftag. cbn [Frame.b_data Frame.b_off Frame.b_tag bs_pre bs_post bs_tag bs_const].
      rewrite Et, Z.eqb_refl. reflexivity.
Qed.

(* ---- append: the reclaim input selects between the two alternatives of the specification ---- *)
Definition f_prefix (off t : Z) : Z :=
  if negb (t =? BUF_SIZE_MAX) && (t <? off) then t else off.

Lemma f_reclaim_eq d off t : fwf (Frame.mkbuf d off t) ->
  Frame.buf_reclaim (Frame.mkbuf d off t)
  = Ok (Frame.mkbuf (buf_drop (f_prefix off t) d) (off - f_prefix off t)
                    (if t =? BUF_SIZE_MAX then t else t - f_prefix off t)) /\
  0 <= f_prefix off t <= off.
Proof.
  intros (H1 & H2 & H3). unfold fdata, foff, ftag in *. cbn [Frame.b_data Frame.b_off Frame.b_tag] in *.
  assert (Hp : 0 <= f_prefix off t <= off).
  { unfold f_prefix. destruct (Z.eqb_spec t BUF_SIZE_MAX); cbn [negb andb]; [lia|].
    destruct (Z.ltb_spec t off); lia. }
  split; [|exact Hp].
  unfold Frame.buf_reclaim, Frame.data_len. cbn [Frame.b_data Frame.b_off Frame.b_tag].
  change Frame.SIZE_MAX with BUF_SIZE_MAX. fold (f_prefix off t). change (Z.of_nat (length d)) with (buf_zlen d).
  destruct (Z.eqb_spec (f_prefix off t) 0) as [E|E].
  - rewrite E, buf_drop_0, !Z.sub_0_r by lia. destruct (t =? BUF_SIZE_MAX); reflexivity.
  - destruct (Z.ltb_spec (f_prefix off t) 0); [lia|]. destruct (Z.ltb_spec (buf_zlen d) (f_prefix off t)); [lia|].
    reflexivity.
Qed.

Lemma f_trim_eq d off t : fwf (Frame.mkbuf d off t) ->
  fabs (Frame.mkbuf (buf_drop (f_prefix off t) d) (off - f_prefix off t)
                    (if t =? BUF_SIZE_MAX then t else t - f_prefix off t))
  = bufs_trim (fabs (Frame.mkbuf d off t)).
Proof.
  intros (H1 & H2 & H3). unfold fdata, foff, ftag in *. cbn [Frame.b_data Frame.b_off Frame.b_tag] in *.
  unfold bufs_trim, fabs, fdata, foff, ftag, f_prefix. cbn [Frame.b_data Frame.b_off Frame.b_tag bs_pre bs_post bs_tag bs_const].
  destruct (Z.eqb_spec t BUF_SIZE_MAX) as [->|Hne]; cbn [negb andb].
  - rewrite Z.eqb_refl, Z.sub_diag, buf_take_0 by lia. f_equal; try (rewrite buf_drop_drop by lia; f_equal; lia).
  - destruct H3 as [H3|H3]; [congruence|].
    destruct (Z.ltb_spec t off) as [Hlt|Hge].
    + rewrite Z.sub_diag. destruct (Z.eqb_spec 0 BUF_SIZE_MAX) as [E0|_]; [discriminate E0|].
      f_equal; try (rewrite buf_drop_take by lia; reflexivity); try (rewrite buf_drop_drop by lia; f_equal; lia).
    + assert (t = off) as -> by lia. rewrite !Z.sub_diag.
      destruct (Z.eqb_spec 0 BUF_SIZE_MAX) as [E0|_]; [discriminate E0|].
      f_equal; try (rewrite buf_drop_drop by lia; f_equal; lia).
      rewrite buf_take_0 by lia. rewrite buf_drop_all; [reflexivity|]. rewrite buf_take_zlen by lia. lia.
Qed.

Lemma f_app_noreclaim d off t bytes : fwf (Frame.mkbuf d off t) ->
  fabs (Frame.mkbuf (d ++ bytes) off t) = bufs_app (fabs (Frame.mkbuf d off t)) bytes.
Proof.
  intros (H1 & H2 & H3). unfold fdata, foff, ftag in *. cbn [Frame.b_data Frame.b_off Frame.b_tag] in *.
  unfold fabs, bufs_app, fdata, foff, ftag. cbn [Frame.b_data Frame.b_off Frame.b_tag bs_pre bs_post bs_tag bs_const].
  f_equal; [apply buf_take_app_l; lia | apply buf_drop_app_l; lia].
Qed.

Lemma f_append_refines b rc bytes : fwf b -> buf_zlen (fdata b) + buf_zlen bytes < BUF_SIZE_MAX ->
  exists b', Frame.buf_append b rc bytes = Ok b' /\ fwf b' /\
             fabs b' = bufs_app (if rc then bufs_trim (fabs b) else fabs b) bytes.
Proof.
  intros Hw Hlen. pose proof Hw as (H1 & H2 & H3). destruct b as [d off t]. unfold fdata, foff, ftag in *.
  cbn [Frame.b_data Frame.b_off Frame.b_tag] in *.
  pose proof (buf_zlen_nonneg bytes) as Hb.
  unfold Frame.buf_append. destruct rc.
  - destruct (f_reclaim_eq d off t Hw) as [Hr Hp]. rewrite Hr. cbn [bind Frame.b_data Frame.b_off Frame.b_tag].
    set (p := f_prefix off t) in *.
    assert (Hdl : buf_zlen (buf_drop p d) = buf_zlen d - p) by (apply buf_drop_zlen; lia).
    assert (Hw1 : fwf (Frame.mkbuf (buf_drop p d) (off - p) (if t =? BUF_SIZE_MAX then t else t - p))).
    { unfold fwf, fdata, foff, ftag. cbn [Frame.b_data Frame.b_off Frame.b_tag]. rewrite Hdl.
      split; [lia|]. split; [lia|].
      destruct (Z.eqb_spec t BUF_SIZE_MAX); [left; auto|]. destruct H3 as [H3|H3]; [congruence|]. right.
      unfold p, f_prefix. destruct (Z.eqb_spec t BUF_SIZE_MAX); [congruence|]. cbn [negb andb].
      destruct (Z.ltb_spec t off); lia. }
    eexists. split; [reflexivity|]. split.
    + unfold fwf, fdata, foff, ftag in *. cbn [Frame.b_data Frame.b_off Frame.b_tag] in *. rewrite buf_zlen_app, Hdl.
      destruct Hw1 as (A & B & C). rewrite Hdl in A. repeat split; try lia; try exact C.
    + rewrite (f_app_noreclaim _ _ _ bytes Hw1). f_equal. apply f_trim_eq. exact Hw.
  - cbn [bind Frame.b_data Frame.b_off Frame.b_tag]. eexists. split; [reflexivity|]. split.
    + unfold fwf, fdata, foff, ftag. cbn [Frame.b_data Frame.b_off Frame.b_tag]. rewrite buf_zlen_app. repeat split; lia.
    + apply f_app_noreclaim. exact Hw.
Qed.

(* ---- the full model's successful appends are covered ---- *)
Section Cover.
  Variable junk : Z -> Z.

  Lemma success_ne_enomem : ARES_SUCCESS <> ARES_ENOMEM. Proof. discriminate. Qed.
  Lemma success_ne_eformerr : ARES_SUCCESS <> ARES_EFORMERR. Proof. discriminate. Qed.

  (* ares_buf_append on the faithful buffer *)
  Theorem frame_append_covers ok cb b bytes cb' :
    buf_inv cb -> fwf b -> fabs b = buf_abs cb ->
    buf_zlen bytes < BUF_ALLOC_LIMIT -> buf_zlen bytes <> 0 ->
    buf_zlen (fdata b) + buf_zlen bytes < BUF_SIZE_MAX ->
    Buf.buf_append junk ok cb bytes = Ok (ARES_SUCCESS, cb') ->
    exists rc b', Frame.buf_append b rc bytes = Ok b' /\ fwf b' /\ fabs b' = buf_abs cb'.
  Proof.
    intros Hi Hw Habs Hlen Hne Hmax Happ.
    destruct (buf_append_refines junk ok cb bytes Hi Hlen) as (st & cb1 & He & _ & Hin & _).
    rewrite Happ in He. injection He as <- <-.
    unfold bufs_append_alts in Hin. destruct (Z.eqb_spec (buf_zlen bytes) 0); [congruence|].
    rewrite <- Habs in Hin. cbn [fabs bs_const] in Hin. fold (fabs b) in Hin.
    destruct Hin as [E|[E|[E|[E|[]]]]];
      pose proof (f_equal fst E) as E1; pose proof (f_equal snd E) as E2; cbn [fst snd] in E1, E2; try discriminate E1.
    - destruct (f_append_refines b false bytes Hw Hmax) as (b' & Hf & Hw' & Ha).
      exists false, b'. split; [exact Hf|]. split; [exact Hw'|]. rewrite Ha. exact E2.
    - destruct (f_append_refines b true bytes Hw Hmax) as (b' & Hf & Hw' & Ha).
      exists true, b'. split; [exact Hf|]. split; [exact Hw'|]. rewrite Ha. exact E2.
  Qed.

  (* ares_buf_append_start(want) + the caller's write + ares_buf_append_finish(|bytes|), the
     way read_conn_packets() fills in_buf *)
  Theorem frame_append_start_covers ok cb b want bytes k cb' :
    buf_inv cb -> fwf b -> fabs b = buf_abs cb ->
    0 < want < BUF_ALLOC_LIMIT -> buf_zlen bytes <= want ->
    buf_zlen (fdata b) + buf_zlen bytes < BUF_SIZE_MAX ->
    Buf.buf_append_via_start junk ok cb want bytes = Ok (1, k, cb') ->
    exists rc b', Frame.buf_append b rc bytes = Ok b' /\ fwf b' /\ fabs b' = buf_abs cb' /\ k = buf_zlen bytes.
  Proof.
    intros Hi Hw Habs Hwant Hlen Hmax Happ.
    destruct (buf_append_via_start_refines junk ok cb want bytes Hi ltac:(lia) Hlen) as (nn & k' & cb1 & He & _ & Hin & _).
    rewrite Happ in He. injection He as <- <- <-.
    cbn [bufs_alts] in Hin. destruct (Z.eqb_spec want 0); [lia|]. cbn [orb] in Hin.
    rewrite <- Habs in Hin. cbn [fabs bs_const] in Hin. fold (fabs b) in Hin.
    unfold bufs_maybe_trim in Hin. cbn [app] in Hin.
    destruct Hin as [E|[E|[E|[E|[]]]]];
      pose proof (f_equal fst E) as E1; pose proof (f_equal snd E) as E2; cbn [fst snd] in E1, E2;
      try discriminate E1.
    - destruct (f_append_refines b false bytes Hw Hmax) as (b' & Hf & Hw' & Ha). inversion E1.
      exists false, b'. split; [exact Hf|]. split; [exact Hw'|]. split; [rewrite Ha; exact E2|reflexivity].
    - destruct (f_append_refines b true bytes Hw Hmax) as (b' & Hf & Hw' & Ha). inversion E1.
      exists true, b'. split; [exact Hf|]. split; [exact Hw'|]. split; [rewrite Ha; exact E2|reflexivity].
  Qed.
End Cover.

(* the buffers the connection starts with correspond *)
Lemma fabs_create : fabs Frame.buf_create = bufs_create.
Proof. reflexivity. Qed.
