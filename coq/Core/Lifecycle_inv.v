(* C01: the invariant of the fixed lifecycle model, ownership and frame conditions, and the
   Hoare-style rules for the primitive state operations (no callbacks involved). *)
From Coq Require Import List ZArith Lia Bool Arith.
Import ListNotations.
From CAres.Base Require Import Outcome.
From CAres.Gen Require Import Consts.
From CAres.Core Require Import LifecycleMonitor Lifecycle.


(* ---------------------------------------------------------------------------------- *)
(* safe m s Q: running m from s does not hit UB, and if it completes Q holds            *)
(* ---------------------------------------------------------------------------------- *)
Definition safe {A} (m : M A) (s : state) (Q : A -> state -> Prop) : Prop :=
  match m s with Ok (a, s') => Q a s' | Err _ => True | UB _ => False end.

Lemma safe_ret {A} (a : A) s (Q : A -> state -> Prop) : Q a s -> safe (ret a) s Q.
Proof. unfold safe, ret. auto. Qed.

Lemma safe_fail {A} e s (Q : A -> state -> Prop) : safe (fail e) s Q.
Proof. unfold safe, fail. auto. Qed.

Lemma safe_bind {A B} (m : M A) (f : A -> M B) s (Q : B -> state -> Prop) :
  safe m s (fun a s1 => safe (f a) s1 Q) -> safe (mbind m f) s Q.
Proof. unfold safe, mbind. destruct (m s) as [[a s1]| |]; auto. Qed.

Lemma safe_mono {A} (m : M A) s (Q Q' : A -> state -> Prop) :
  safe m s Q -> (forall a s', Q a s' -> Q' a s') -> safe m s Q'.
Proof. unfold safe. destruct (m s) as [[a s1]| |]; auto. Qed.

Lemma safe_get s (Q : state -> state -> Prop) : Q s s -> safe get s Q.
Proof. unfold safe, get. auto. Qed.

Lemma safe_modify f s (Q : unit -> state -> Prop) : Q tt (f s) -> safe (modify f) s Q.
Proof. unfold safe, modify. auto. Qed.

Lemma safe_peek s (Q : option tev -> state -> Prop) : Q (hd_error (st_tape s)) s -> safe peek s Q.
Proof. unfold safe, peek. auto. Qed.

Lemma safe_peek2 s (Q : option tev -> state -> Prop) : Q (hd_error (tl (st_tape s))) s -> safe peek2 s Q.
Proof. unfold safe, peek2. auto. Qed.

Lemma safe_pop s (Q : tev -> state -> Prop) :
  (forall e r, st_tape s = e :: r -> Q e (set_tape r s)) -> safe pop s Q.
Proof. unfold safe, pop. destruct (st_tape s); auto. Qed.

Lemma safe_emit e s (Q : unit -> state -> Prop) : Q tt (set_trace (e :: st_trace s) s) -> safe (emit e) s Q.
Proof. unfold emit. apply safe_modify. Qed.

(* ---------------------------------------------------------------------------------- *)
(* Shape of closures                                                                   *)
(* ---------------------------------------------------------------------------------- *)
Fixpoint cobjs (k : cbk) : list obj :=
  match k with
  | KUser _ | KProbe | KHost _ => []
  | KWrap _ o k' => o :: cobjs k'
  | KSearch o k' _ _ _ => o :: cobjs k'
  | KAddr o k' _ => o :: cobjs k'
  end.

Fixpoint ctoks (k : cbk) : list tok :=
  match k with
  | KUser t => [t]
  | KProbe | KHost _ => []
  | KWrap _ _ k' => ctoks k'
  | KSearch _ k' _ _ _ => ctoks k'
  | KAddr _ k' _ => ctoks k'
  end.

Fixpoint nohost (k : cbk) : Prop :=
  match k with
  | KUser _ | KProbe => True
  | KHost _ => False
  | KWrap _ _ k' => nohost k'
  | KSearch _ k' _ _ _ => nohost k'
  | KAddr _ k' _ => nohost k'
  end.

(* the host_query a closure ends in (host_callback's argument) *)
Fixpoint kbot (k : cbk) : option obj :=
  match k with
  | KUser _ | KProbe => None
  | KHost o => Some o
  | KWrap _ _ k' => kbot k'
  | KSearch _ k' _ _ _ => kbot k'
  | KAddr _ k' _ => kbot k'
  end.

(* ---------------------------------------------------------------------------------- *)
(* Reading the state                                                                   *)
(* ---------------------------------------------------------------------------------- *)
Definition cell_of (s : state) (o : obj) : option cell := lookup o (st_cells s).
Definition linked (s : state) : list obj := concat (st_lists s).
Definition qchain (s : state) (qo : obj) : list obj :=
  match cell_of s qo with Some (CQuery q) => cobjs (q_cb q) | _ => [] end.
Definition chain (s : state) : list obj := flat_map (qchain s) (linked s).

(* host_query states.  A host_query with remaining > 0 is *shared*: the queries of the lookup
   in progress point at it (through their callback closures) and whoever completes the last
   of them releases it.  With remaining = 0 it belongs to the function that is working on it
   (next_lookup / end_hquery), like the objects of [Own]. *)
Definition host_at (s : state) (o : obj) : option hostq :=
  match cell_of s o with Some (CHost h) => Some h | _ => None end.
Definition shared_at (s : state) (o : obj) : option hostq :=
  match cell_of s o with Some (CHost h) => if Nat.ltb 0 (h_remaining h) then Some h else None | _ => None end.
Definition href (s : state) (qo : obj) : option obj :=
  match cell_of s qo with Some (CQuery q) => kbot (q_cb q) | _ => None end.
Definition refs_to (s : state) (o : obj) : list obj :=
  filter (fun qo => match href s qo with Some o' => Nat.eqb o o' | None => false end) (linked s).
Definition nrefs (s : state) (o : obj) : nat := length (refs_to s o).
(* the objects of the application callbacks stored in shared host_query states *)
Definition hcb_objs (s : state) (o : obj) : list obj :=
  match shared_at s o with Some h => cobjs (h_cb h) | None => [] end.
Definition hobjs (s : state) : list obj := flat_map (hcb_objs s) (seq 0 (st_next s)).

Definition rooted (s : state) (x : obj) : Prop :=
  In x (linked s) \/ In x (st_conns s) \/ In x (chain s) \/ In x (hobjs s).

Definition heap_ok (s : state) : Prop :=
  (forall o c, cell_of s o = Some c -> o < st_next s /\ ~ In o (st_freed s))
  /\ (forall o, In o (st_freed s) -> o < st_next s).

Record HostInv (s : state) : Prop := {
  hi_ref : forall qo o, In qo (linked s) -> href s qo = Some o -> exists h, shared_at s o = Some h;
  hi_cnt : forall o h, shared_at s o = Some h -> nrefs s o <= h_remaining h;
  hi_nohost : forall o h, shared_at s o = Some h -> nohost (h_cb h);
  hi_objs : NoDup (hobjs s) /\ forall x, In x (hobjs s) -> cell_of s x = Some COpaque /\ ~ In x (chain s)
}.

(* x: the query process_answer() has taken off its connection's list but not yet requeued/ended *)
Record InvX (x : option obj) (s : state) : Prop := {
  inv_heap : heap_ok s;
  inv_nodup : NoDup (linked s);
  inv_query : forall qo, In qo (linked s) -> exists q, cell_of s qo = Some (CQuery q);
  inv_byqid : forall qid qo, lookup qid (st_byqid s) = Some qo ->
                In qo (linked s) /\ forall q, cell_of s qo = Some (CQuery q) -> q_qid q = qid;
  inv_bytmo : forall qo, In qo (st_bytmo s) ->
                In qo (linked s) /\ exists q co c, cell_of s qo = Some (CQuery q) /\ q_conn q = Some co
                                  /\ cell_of s co = Some (CConn c) /\ (Some qo = x \/ In qo (c_queries c));
  inv_connq : forall co c qo, cell_of s co = Some (CConn c) -> In qo (c_queries c) ->
                In qo (linked s) /\ exists q, cell_of s qo = Some (CQuery q) /\ q_conn q = Some co;
  inv_conns : NoDup (st_conns s) /\ forall co, In co (st_conns s) -> exists c, cell_of s co = Some (CConn c) /\ c_closed c = false;
  inv_closed : forall co c, cell_of s co = Some (CConn c) -> c_closed c = true ->
                ~ In co (st_conns s) /\ c_queries c = [];
  inv_chain : NoDup (chain s) /\ forall o, In o (chain s) -> cell_of s o = Some COpaque;
  inv_hosts : HostInv s
}.
Definition Inv := InvX None.

(* objects handed over to a callee: live wrapper/search/addr objects nobody else knows *)
Definition Own (s : state) (L : list obj) : Prop :=
  NoDup L /\ forall o, In o L -> cell_of s o = Some COpaque /\ ~ rooted s o.

(* what a callee guarantees about the shared host_query states.  g: the callee was handed one of
   the answers host_query g is waiting for (a closure ending in KHost g that is not held by a
   linked query): it either links a query carrying it or delivers it.  For every shared
   host_query, "answers it waits for" minus "linked queries pointing at it" changes by exactly
   that; it stays alive while the difference is positive; no host_query is left behind. *)
Definition dg (g : option obj) (o : obj) : nat :=
  match g with Some o' => if Nat.eqb o o' then 1 else 0 | None => 0 end.

Record HFrame (g : obj -> nat) (s s' : state) : Prop := {
  hf_host : forall o h, shared_at s o = Some h -> nrefs s o + g o <= h_remaining h ->
              (nrefs s o + g o < h_remaining h -> exists h', cell_of s' o = Some (CHost h'))
              /\ (forall h', cell_of s' o = Some (CHost h') ->
                     0 < h_remaining h' /\ h_cb h' = h_cb h
                     /\ h_remaining h' + nrefs s o + g o = nrefs s' o + h_remaining h);
  hf_new : forall o h', st_next s <= o -> cell_of s' o = Some (CHost h') ->
              0 < h_remaining h' /\ h_remaining h' = nrefs s' o;
  hf_old : forall o h', o < st_next s -> cell_of s' o = Some (CHost h') -> exists h, cell_of s o = Some (CHost h);
  hf_lt : forall o h, shared_at s o = Some h -> o < st_next s
}.

(* what a callee guarantees about the objects it was not given *)
Record FrameG (g : obj -> nat) (s s' : state) (L : list obj) : Prop := {
  fr_cell : forall x c, cell_of s x = Some c -> ~ rooted s x -> ~ In x L ->
              match c with
              | CConn cc => exists cc', cell_of s' x = Some (CConn cc') /\ ~ rooted s' x
                                        /\ c_reading cc' = c_reading cc /\ c_closed cc' = c_closed cc
                                        /\ c_sock cc' = c_sock cc /\ incl (c_queries cc') (c_queries cc)
              | CHost h => h_remaining h = 0 -> cell_of s' x = Some c /\ ~ rooted s' x
              | _ => cell_of s' x = Some c /\ ~ rooted s' x
              end;
  fr_reading : forall x cc, cell_of s x = Some (CConn cc) -> c_reading cc = true ->
              exists cc', cell_of s' x = Some (CConn cc') /\ c_reading cc' = true /\ c_sock cc' = c_sock cc;
  fr_next : st_next s <= st_next s';
  fr_hosts : HFrame g s s'
}.
Notation Frame := (FrameG (dg None)).

(* the caller of a function that is handed an answer of host_query g knows that g waits for it *)
Definition GivenOk (s : state) (g : option obj) : Prop :=
  match g with None => True | Some o => exists h, shared_at s o = Some h /\ nrefs s o < h_remaining h end.

(* ---------------------------------------------------------------------------------- *)
(* lookup / remove_key / remove_nat                                                    *)
(* ---------------------------------------------------------------------------------- *)
Lemma lookup_remove_key {A} k k' (l : list (nat * A)) :
  lookup k' (remove_key k l) = if Nat.eqb k' k then None else lookup k' l.
Proof.
  induction l as [|[a c] l IH]; simpl.
  - destruct (Nat.eqb k' k); reflexivity.
  - destruct (Nat.eqb k a) eqn:E1.
    + apply Nat.eqb_eq in E1. subst a. rewrite IH.
      destruct (Nat.eqb k' k) eqn:E2; auto.
    + simpl. destruct (Nat.eqb k' a) eqn:E2.
      * apply Nat.eqb_eq in E2. subst a.
        destruct (Nat.eqb k' k) eqn:E3; auto.
        apply Nat.eqb_eq in E3. subst. rewrite Nat.eqb_refl in E1. discriminate.
      * exact IH.
Qed.

Lemma lookup_cons {A} k k' (c : A) l :
  lookup k' ((k, c) :: l) = if Nat.eqb k' k then Some c else lookup k' l.
Proof. reflexivity. Qed.

Lemma memb_In o l : memb o l = true <-> In o l.
Proof.
  unfold memb. rewrite existsb_exists. split.
  - intros [x [Hx E]]. apply Nat.eqb_eq in E. subst. exact Hx.
  - intros H. exists o. split; auto. apply Nat.eqb_refl.
Qed.

Lemma memb_false o l : memb o l = false <-> ~ In o l.
Proof.
  rewrite <- memb_In. destruct (memb o l); split; intros; auto; try discriminate. exfalso; auto.
Qed.

Lemma in_remove_nat o x l : In x (remove_nat o l) <-> In x l /\ x <> o.
Proof.
  unfold remove_nat. rewrite filter_In. split.
  - intros [H E]. split; auto. intros ->. rewrite Nat.eqb_refl in E. discriminate.
  - intros [H E]. split; auto. apply negb_true_iff. apply Nat.eqb_neq. auto.
Qed.

Lemma nodup_remove_nat o l : NoDup l -> NoDup (remove_nat o l).
Proof. unfold remove_nat. apply NoDup_filter. Qed.

Lemma remove_nat_notin o l : ~ In o l -> remove_nat o l = l.
Proof.
  induction l as [|a l IH]; simpl; intros H; auto.
  destruct (Nat.eqb o a) eqn:E.
  - apply Nat.eqb_eq in E. subst. exfalso. apply H. left; auto.
  - simpl. f_equal. apply IH. intros Hin. apply H. right; auto.
Qed.

Lemma concat_map_remove o (ls : list (list nat)) :
  concat (map (remove_nat o) ls) = remove_nat o (concat ls).
Proof.
  induction ls as [|l ls IH]; simpl; auto.
  unfold remove_nat at 3. rewrite filter_app. fold (remove_nat o l). fold (remove_nat o (concat ls)).
  rewrite IH. reflexivity.
Qed.

Lemma NoDup_app_iff {A} (l1 l2 : list A) :
  NoDup (l1 ++ l2) <-> NoDup l1 /\ NoDup l2 /\ (forall x, In x l1 -> ~ In x l2).
Proof.
  induction l1 as [|a l1 IH]; simpl.
  - split.
    + intros H. repeat split; auto. constructor.
    + tauto.
  - split.
    + intros H. inversion H as [|? ? Hn Hd]; subst. apply IH in Hd. destruct Hd as [H1 [H2 H3]].
      repeat split; auto.
      * constructor; auto. intros Hin. apply Hn. apply in_or_app; auto.
      * intros x [Hx|Hx]; subst.
        -- intros Hin. apply Hn. apply in_or_app; auto.
        -- apply H3; auto.
    + intros [H1 [H2 H3]]. inversion H1 as [|? ? Hn Hd]; subst. constructor.
      * intros Hin. apply in_app_or in Hin. destruct Hin as [Hin|Hin]; auto.
        apply (H3 a); auto.
      * apply IH. repeat split; auto.
Qed.

Lemma in_concat_map_remove o x (ls : list (list nat)) :
  In x (concat (map (remove_nat o) ls)) <-> In x (concat ls) /\ x <> o.
Proof. rewrite concat_map_remove. apply in_remove_nat. Qed.

Lemma nodup_concat_map_remove o (ls : list (list nat)) :
  NoDup (concat ls) -> NoDup (concat (map (remove_nat o) ls)).
Proof. rewrite concat_map_remove. apply nodup_remove_nat. Qed.

(* ---------------------------------------------------------------------------------- *)
(* states that differ only in tape / trace / scripts / destroying                      *)
(* ---------------------------------------------------------------------------------- *)
Definition core_eq (s s' : state) : Prop :=
  st_next s' = st_next s /\ st_cells s' = st_cells s /\ st_freed s' = st_freed s /\ st_lists s' = st_lists s
  /\ st_byqid s' = st_byqid s /\ st_bytmo s' = st_bytmo s /\ st_conns s' = st_conns s.

Lemma core_eq_refl s : core_eq s s.
Proof. unfold core_eq; repeat split. Qed.

Lemma core_eq_trans s1 s2 s3 : core_eq s1 s2 -> core_eq s2 s3 -> core_eq s1 s3.
Proof. unfold core_eq. intuition congruence. Qed.

Lemma core_eq_set_tape l s : core_eq s (set_tape l s).
Proof. unfold core_eq; repeat split. Qed.
Lemma core_eq_set_trace l s : core_eq s (set_trace l s).
Proof. unfold core_eq; repeat split. Qed.
Lemma core_eq_set_scripts l s : core_eq s (set_scripts l s).
Proof. unfold core_eq; repeat split. Qed.
Lemma core_eq_set_destroying b s : core_eq s (set_destroying b s).
Proof. unfold core_eq; repeat split. Qed.
Lemma core_eq_set_nservers n s : core_eq s (set_nservers n s).
Proof. unfold core_eq; repeat split. Qed.

Lemma ce_cell s s' o : core_eq s s' -> cell_of s' o = cell_of s o.
Proof. intros [_ [E _]]. unfold cell_of. rewrite E. reflexivity. Qed.
Lemma ce_linked s s' : core_eq s s' -> linked s' = linked s.
Proof. intros [_ [_ [_ [E _]]]]. unfold linked. rewrite E. reflexivity. Qed.
Lemma ce_chain s s' : core_eq s s' -> chain s' = chain s.
Proof.
  intros E. unfold chain. rewrite (ce_linked _ _ E). apply flat_map_ext. intros qo. unfold qchain.
  rewrite (ce_cell _ _ _ E). reflexivity.
Qed.
Lemma ce_conns s s' : core_eq s s' -> st_conns s' = st_conns s.
Proof. intros [_ [_ [_ [_ [_ [_ E]]]]]]. exact E. Qed.
(* ---- the host_query view of a state ---- *)
Lemma shared_host s o h : shared_at s o = Some h -> cell_of s o = Some (CHost h) /\ 0 < h_remaining h.
Proof.
  unfold shared_at. destruct (cell_of s o) as [[q|c|h0|]|]; try discriminate.
  destruct (Nat.ltb 0 (h_remaining h0)) eqn:E; [|discriminate]. intros H. inversion H; subst.
  apply Nat.ltb_lt in E. auto.
Qed.

Lemma shared_intro s o h : cell_of s o = Some (CHost h) -> 0 < h_remaining h -> shared_at s o = Some h.
Proof. intros Hc Hr. unfold shared_at. rewrite Hc. apply Nat.ltb_lt in Hr. rewrite Hr. reflexivity. Qed.

Lemma host_at_some s o h : host_at s o = Some h <-> cell_of s o = Some (CHost h).
Proof.
  unfold host_at. destruct (cell_of s o) as [[q|c|h0|]|]; split; intros H; try discriminate; inversion H; reflexivity.
Qed.

Lemma shared_of_host_at s s' : (forall o, host_at s' o = host_at s o) -> forall o, shared_at s' o = shared_at s o.
Proof.
  intros H o. specialize (H o). unfold host_at, shared_at in *.
  destruct (cell_of s' o) as [[q|c|h|]|], (cell_of s o) as [[q0|c0|h0|]|]; try discriminate; auto.
  inversion H; reflexivity.
Qed.

Lemma flat_map_nil {A B} (f : A -> list B) l : (forall a, In a l -> f a = []) -> flat_map f l = [].
Proof.
  induction l as [|a l IH]; simpl; intros H; auto. rewrite H by (left; auto). simpl. apply IH.
  intros b Hb. apply H. right; auto.
Qed.

Lemma shared_lt s o h : heap_ok s -> shared_at s o = Some h -> o < st_next s.
Proof. intros [H _] Hs. destruct (shared_host _ _ _ Hs) as [Hc _]. destruct (H _ _ Hc). auto. Qed.

Lemma hobjs_same s s' :
  heap_ok s -> st_next s <= st_next s' -> (forall o, shared_at s' o = shared_at s o) -> hobjs s' = hobjs s.
Proof.
  intros Hh Hn Hs. unfold hobjs.
  replace (st_next s') with (st_next s + (st_next s' - st_next s)) by lia.
  rewrite seq_app, flat_map_app. rewrite (flat_map_nil _ (seq (0 + st_next s) _)).
  - rewrite app_nil_r. apply flat_map_ext. intros o. unfold hcb_objs. rewrite Hs. reflexivity.
  - intros o Ho. apply in_seq in Ho. unfold hcb_objs. rewrite Hs.
    destruct (shared_at s o) as [h|] eqn:E; auto. pose proof (shared_lt _ _ _ Hh E). lia.
Qed.

Lemma in_hobjs s x : heap_ok s -> (In x (hobjs s) <-> exists o h, shared_at s o = Some h /\ In x (cobjs (h_cb h))).
Proof.
  intros Hh. unfold hobjs. rewrite in_flat_map. split.
  - intros [o [_ Hx]]. unfold hcb_objs in Hx. destruct (shared_at s o) as [h|] eqn:E; [|destruct Hx]. eauto.
  - intros [o [h [E Hx]]]. exists o. split.
    + apply in_seq. pose proof (shared_lt _ _ _ Hh E). lia.
    + unfold hcb_objs. rewrite E. exact Hx.
Qed.

Lemma nrefs_same s s' :
  linked s' = linked s -> (forall qo, In qo (linked s) -> href s' qo = href s qo) -> forall o, nrefs s' o = nrefs s o.
Proof.
  intros El Hr o. unfold nrefs, refs_to. rewrite El. f_equal. apply filter_ext_in. intros qo Hq. rewrite Hr; auto.
Qed.

Lemma href_same s s' qo : cell_of s' qo = cell_of s qo -> href s' qo = href s qo.
Proof. intros H. unfold href. rewrite H. reflexivity. Qed.

(* a state change that leaves the shared host_query states, the linked queries and their
   closures alone *)
Lemma hostinv_same s s' :
  HostInv s -> heap_ok s -> st_next s <= st_next s' ->
  linked s' = linked s -> (forall qo, In qo (linked s) -> href s' qo = href s qo) ->
  (forall o, shared_at s' o = shared_at s o) ->
  (forall x, In x (hobjs s) -> cell_of s' x = Some COpaque) ->
  (forall x, In x (chain s') -> In x (chain s)) ->
  HostInv s'.
Proof.
  intros [H1 H2 H3 [H4 H5]] Hh Hn El Hr Hs Hop Hch.
  pose proof (hobjs_same _ _ Hh Hn Hs) as Eo. pose proof (nrefs_same _ _ El Hr) as En.
  constructor.
  - intros qo o. rewrite El. intros Hq. rewrite (Hr _ Hq), Hs. apply H1; auto.
  - intros o h. rewrite Hs, En. apply H2.
  - intros o h. rewrite Hs. apply H3.
  - rewrite Eo. split; auto. intros x Hx. split; [apply Hop; exact Hx|].
    intros Hc. apply Hch in Hc. destruct (H5 _ Hx) as [_ H6]. contradiction.
Qed.

Lemma hframe_same_gen s s' :
  heap_ok s -> st_next s <= st_next s' ->
  linked s' = linked s -> (forall qo, In qo (linked s) -> href s' qo = href s qo) ->
  (forall o h, shared_at s o = Some h -> cell_of s' o = Some (CHost h)) ->
  (forall o h', cell_of s' o = Some (CHost h') -> exists h, cell_of s o = Some (CHost h)) ->
  HFrame (dg None) s s'.
Proof.
  intros Hh Hn El Hr H1 H2. pose proof (nrefs_same _ _ El Hr) as En.
  constructor.
  - intros o h Hs _. destruct (shared_host _ _ _ Hs) as [Hc Hpos].
    pose proof (H1 _ _ Hs) as Hc'.
    split; [eauto|]. intros h' Hh'. rewrite Hc' in Hh'. inversion Hh'; subst h'.
    rewrite En. simpl. repeat split; auto. lia.
  - intros o h' Ho Hc. destruct (H2 _ _ Hc) as [h Hc0].
    destruct Hh as [Hl _]. destruct (Hl _ _ Hc0). lia.
  - intros o h' _ Hc. eauto.
  - intros o h Hs. eapply shared_lt; eauto.
Qed.

Lemma hframe_same s s' :
  heap_ok s -> st_next s <= st_next s' ->
  linked s' = linked s -> (forall qo, In qo (linked s) -> href s' qo = href s qo) ->
  (forall o, host_at s' o = host_at s o) ->
  HFrame (dg None) s s'.
Proof.
  intros Hh Hn El Hr Ha. apply hframe_same_gen; auto.
  - intros o h Hs. destruct (shared_host _ _ _ Hs) as [Hc _]. apply host_at_some. rewrite Ha. apply host_at_some. exact Hc.
  - intros o h' Hc. apply host_at_some in Hc. rewrite Ha in Hc. apply host_at_some in Hc. eauto.
Qed.

Lemma ce_host_at s s' o : core_eq s s' -> host_at s' o = host_at s o.
Proof. intros E. unfold host_at. rewrite (ce_cell _ _ _ E). reflexivity. Qed.
Lemma ce_shared s s' o : core_eq s s' -> shared_at s' o = shared_at s o.
Proof. intros E. unfold shared_at. rewrite (ce_cell _ _ _ E). reflexivity. Qed.
Lemma ce_href s s' o : core_eq s s' -> href s' o = href s o.
Proof. intros E. unfold href. rewrite (ce_cell _ _ _ E). reflexivity. Qed.
Lemma ce_nrefs s s' o : core_eq s s' -> nrefs s' o = nrefs s o.
Proof. intros E. apply nrefs_same; [apply ce_linked; auto|]. intros qo _. apply ce_href; auto. Qed.
Lemma ce_hobjs s s' : core_eq s s' -> hobjs s' = hobjs s.
Proof.
  intros E. unfold hobjs. destruct E as [En E']. rewrite En. apply flat_map_ext. intros o. unfold hcb_objs.
  rewrite (ce_shared s s'); auto. unfold core_eq; auto.
Qed.

Lemma ce_rooted s s' x : core_eq s s' -> (rooted s' x <-> rooted s x).
Proof. intros E. unfold rooted. rewrite (ce_linked _ _ E), (ce_conns _ _ E), (ce_chain _ _ E), (ce_hobjs _ _ E). tauto. Qed.
Lemma ce_heap s s' : core_eq s s' -> heap_ok s -> heap_ok s'.
Proof.
  intros E. unfold heap_ok. intros [H1 H2]. pose proof (fun o => ce_cell _ _ o E) as Ec.
  destruct E as [En [_ [Ef _]]]. split.
  - intros o c Hc. rewrite Ec in Hc. rewrite En, Ef. eauto.
  - intros o Ho. rewrite Ef in Ho. rewrite En. eauto.
Qed.
Lemma ce_own s s' L : core_eq s s' -> Own s L -> Own s' L.
Proof.
  intros E [H1 H2]. split; auto. intros o Ho. rewrite (ce_cell _ _ _ E), (ce_rooted _ _ _ E). auto.
Qed.
Lemma ce_hostinv s s' : core_eq s s' -> heap_ok s -> HostInv s -> HostInv s'.
Proof.
  intros E Hh HI. apply (hostinv_same s s'); auto.
  - destruct E as [-> _]. lia.
  - apply ce_linked; auto.
  - intros qo _. apply ce_href; auto.
  - intros o. apply ce_shared; auto.
  - intros x Hx. rewrite (ce_cell _ _ _ E). destruct (hi_objs _ HI) as [_ H]. apply H; auto.
  - intros x. rewrite (ce_chain _ _ E). auto.
Qed.
Lemma ce_hframe s s' : core_eq s s' -> heap_ok s -> HFrame (dg None) s s'.
Proof.
  intros E Hh. apply hframe_same; auto.
  - destruct E as [-> _]. lia.
  - apply ce_linked; auto.
  - intros qo _. apply ce_href; auto.
  - intros o. apply ce_host_at; auto.
Qed.
Lemma ce_frame_refl s s' : core_eq s s' -> heap_ok s -> Frame s s' [].
Proof.
  intros E Hh. constructor.
  - intros x c Hc Hr _.
    assert (Hr' : ~ rooted s' x) by (rewrite (ce_rooted _ _ _ E); exact Hr).
    destruct c; try (rewrite (ce_cell _ _ _ E); split; assumption).
    exists c. rewrite (ce_cell _ _ _ E). repeat split; auto. apply incl_refl.
  - intros x cc Hc Hr. exists cc. rewrite (ce_cell _ _ _ E). auto.
  - destruct E as [-> _]. lia.
  - apply ce_hframe; auto.
Qed.

Lemma ce_inv x s s' :
  core_eq s s' ->
  InvX x s -> InvX x s'.
Proof.
  intros E I. pose proof (inv_hosts _ _ I) as HI. destruct I.
  assert (Ec := fun o => ce_cell _ _ o E). assert (El := ce_linked _ _ E). assert (Eh := ce_chain _ _ E).
  assert (Hho : HostInv s') by (apply (ce_hostinv s); auto).
  destruct E as [En [Ecs [Ef [Els [Eq [Et Eco]]]]]].
  constructor.
  - apply (ce_heap s); auto. unfold core_eq; repeat split; auto.
  - rewrite El; auto.
  - intros qo. rewrite El, Ec. auto.
  - intros qid qo. rewrite Eq, El. intros H. destruct (inv_byqid0 _ _ H) as [H1 H2]. split; auto.
    intros q. rewrite Ec. auto.
  - intros qo. rewrite Et, El. intros H. destruct (inv_bytmo0 _ H) as [H1 [q [co [c H2]]]].
    split; auto. exists q, co, c. rewrite !Ec. exact H2.
  - intros co c qo. rewrite Ec, El. intros H1 H2. destruct (inv_connq0 _ _ _ H1 H2) as [H3 [q H4]].
    split; auto. exists q. rewrite Ec. auto.
  - rewrite Eco. destruct inv_conns0 as [H1 H2]. split; auto. intros co Hco. destruct (H2 _ Hco) as [c Hc].
    exists c. rewrite Ec. auto.
  - intros co c. rewrite Ec, Eco. auto.
  - rewrite Eh. destruct inv_chain0 as [H1 H2]. split; auto. intros o Ho. rewrite Ec. auto.
  - exact Hho.
Qed.

Lemma inv_weaken s x : Inv s -> InvX x s.
Proof.
  intros I. destruct I. constructor; auto.
  intros qo H. destruct (inv_bytmo0 _ H) as [H1 [q [co [c [H2 [H3 [H4 H5]]]]]]].
  split; auto. exists q, co, c. repeat split; auto. destruct H5 as [H5|H5]; [discriminate|auto].
Qed.

(* ---------------------------------------------------------------------------------- *)
(* Frame: composition                                                                  *)
(* ---------------------------------------------------------------------------------- *)
Definition gsum (g1 g2 g : obj -> nat) : Prop := forall o, g1 o + g2 o = g o.

Lemma gsum_l g : gsum g (dg None) g.
Proof. intros o. simpl. lia. Qed.
Lemma gsum_r g : gsum (dg None) g g.
Proof. intros o. reflexivity. Qed.

Lemma hframe_trans g1 g2 g s1 s2 s3 :
  gsum g1 g2 g -> (forall o, 0 < g2 o -> o < st_next s1) ->
  st_next s1 <= st_next s2 -> HFrame g1 s1 s2 -> HFrame g2 s2 s3 -> HFrame g s1 s3.
Proof.
  intros Hg Hlt Hn F1 F2. constructor.
  - intros o h Hs Hd. pose proof (Hg o) as Eg.
    destruct (hf_host _ _ _ F1 _ _ Hs ltac:(lia)) as [A1 A2]. split.
    + intros Hl. destruct (A1 ltac:(lia)) as [h2 Hc2]. destruct (A2 _ Hc2) as [Hp2 [Ecb2 Er2]].
      assert (Hs2 : shared_at s2 o = Some h2) by (apply shared_intro; auto).
      destruct (hf_host _ _ _ F2 _ _ Hs2 ltac:(lia)) as [B1 _]. apply B1. lia.
    + intros h3 Hc3. pose proof (hf_lt _ _ _ F1 _ _ Hs) as Ho.
      destruct (hf_old _ _ _ F2 o h3 ltac:(lia) Hc3) as [h2 Hc2].
      destruct (A2 _ Hc2) as [Hp2 [Ecb2 Er2]].
      assert (Hs2 : shared_at s2 o = Some h2) by (apply shared_intro; auto).
      destruct (hf_host _ _ _ F2 _ _ Hs2 ltac:(lia)) as [_ B2].
      destruct (B2 _ Hc3) as [Hp3 [Ecb3 Er3]]. repeat split; auto; try congruence. lia.
  - intros o h3 Ho Hc3. destruct (Nat.le_gt_cases (st_next s2) o) as [Hge|Hlt2].
    + exact (hf_new _ _ _ F2 _ _ Hge Hc3).
    + destruct (hf_old _ _ _ F2 o h3 Hlt2 Hc3) as [h2 Hc2].
      destruct (hf_new _ _ _ F1 _ _ Ho Hc2) as [Hp2 Er2].
      assert (Hs2 : shared_at s2 o = Some h2) by (apply shared_intro; auto).
      assert (Hd2 : g2 o = 0).
      { destruct (g2 o) as [|n] eqn:E; auto. specialize (Hlt o ltac:(lia)). lia. }
      destruct (hf_host _ _ _ F2 _ _ Hs2 ltac:(lia)) as [_ B2].
      destruct (B2 _ Hc3) as [Hp3 [_ Er3]]. split; auto. lia.
  - intros o h3 Ho Hc3. destruct (hf_old _ _ _ F2 o h3 ltac:(lia) Hc3) as [h2 Hc2].
    exact (hf_old _ _ _ F1 o h2 Ho Hc2).
  - exact (hf_lt _ _ _ F1).
Qed.

Lemma frame_trans_g g1 g2 g s1 s2 s3 L1 L2 :
  gsum g1 g2 g -> (forall o, 0 < g2 o -> o < st_next s1) ->
  FrameG g1 s1 s2 L1 -> FrameG g2 s2 s3 L2 -> FrameG g s1 s3 (L1 ++ L2).
Proof.
  intros Hg Hlt F1 F2. constructor.
  - intros x c Hc Hr Hn.
    assert (Hn1 : ~ In x L1) by (intros H; apply Hn; apply in_or_app; auto).
    assert (Hn2 : ~ In x L2) by (intros H; apply Hn; apply in_or_app; auto).
    pose proof (fr_cell _ _ _ _ F1 _ _ Hc Hr Hn1) as G1.
    destruct c as [q|cc|h|].
    + destruct G1 as [G1 G1']. exact (fr_cell _ _ _ _ F2 _ _ G1 G1' Hn2).
    + destruct G1 as [cc' [G1 [G1' [Ea [Eb [Ec Ed]]]]]].
      pose proof (fr_cell _ _ _ _ F2 _ _ G1 G1' Hn2) as G2. simpl in G2.
      destruct G2 as [cc'' [G2 [G2' [Ea' [Eb' [Ec' Ed']]]]]].
      exists cc''. repeat split; auto; try congruence. eapply incl_tran; eauto.
    + intros Hz. destruct (G1 Hz) as [G1a G1']. exact (fr_cell _ _ _ _ F2 _ _ G1a G1' Hn2 Hz).
    + destruct G1 as [G1 G1']. exact (fr_cell _ _ _ _ F2 _ _ G1 G1' Hn2).
  - intros x cc Hc Hr. destruct (fr_reading _ _ _ _ F1 _ _ Hc Hr) as [cc' [G1 [G2 G3]]].
    destruct (fr_reading _ _ _ _ F2 _ _ G1 G2) as [cc'' [G4 [G5 G6]]]. exists cc''. repeat split; auto. congruence.
  - pose proof (fr_next _ _ _ _ F1). pose proof (fr_next _ _ _ _ F2). lia.
  - exact (hframe_trans g1 g2 g s1 s2 s3 Hg Hlt (fr_next _ _ _ _ F1) (fr_hosts _ _ _ _ F1) (fr_hosts _ _ _ _ F2)).
Qed.

Lemma frame_trans s1 s2 s3 L1 L2 : Frame s1 s2 L1 -> Frame s2 s3 L2 -> Frame s1 s3 (L1 ++ L2).
Proof. apply frame_trans_g; [apply gsum_l|]. intros o H. simpl in H. lia. Qed.

(* the callee that was handed the answer runs first / last *)
Lemma frame_trans_gl g s1 s2 s3 L1 L2 : FrameG g s1 s2 L1 -> Frame s2 s3 L2 -> FrameG g s1 s3 (L1 ++ L2).
Proof. apply frame_trans_g; [apply gsum_l|]. intros o H. simpl in H. lia. Qed.

Lemma frame_trans_gr g s1 s2 s3 L1 L2 :
  GivenOk s1 g -> heap_ok s1 -> Frame s1 s2 L1 -> FrameG (dg g) s2 s3 L2 -> FrameG (dg g) s1 s3 (L1 ++ L2).
Proof.
  intros Hg Hh. apply frame_trans_g; [apply gsum_r|]. intros o H.
  unfold dg in H. destruct g as [o'|]; [|lia]. destruct (Nat.eqb o o') eqn:E; [|lia].
  apply Nat.eqb_eq in E. subst o'. destruct Hg as [h [Hs _]]. eapply shared_lt; eauto.
Qed.

(* a frame whose handed-over answers concern no host_query that was shared at the start *)
Lemma frameg_zero g s s' L :
  FrameG g s s' L -> (forall o h, shared_at s o = Some h -> g o = 0) -> Frame s s' L.
Proof.
  intros F Hz. constructor.
  - exact (fr_cell _ _ _ _ F).
  - exact (fr_reading _ _ _ _ F).
  - exact (fr_next _ _ _ _ F).
  - pose proof (fr_hosts _ _ _ _ F) as HF. constructor.
    + intros o h Hs Hd. pose proof (Hz _ _ Hs) as E. simpl in *.
      destruct (hf_host _ _ _ HF _ _ Hs ltac:(lia)) as [A1 A2]. split.
      * intros Hl. apply A1. lia.
      * intros h' Hc'. destruct (A2 _ Hc') as [B1 [B2 B3]]. repeat split; auto. lia.
    + exact (hf_new _ _ _ HF).
    + exact (hf_old _ _ _ HF).
    + exact (hf_lt _ _ _ HF).
Qed.

Lemma frame_weaken g s s' L L' : FrameG g s s' L -> incl L L' -> FrameG g s s' L'.
Proof.
  intros F Hi. constructor.
  - intros x c Hc Hr Hn. apply (fr_cell _ _ _ _ F _ _ Hc Hr). intros H. apply Hn. apply Hi. exact H.
  - apply (fr_reading _ _ _ _ F).
  - apply (fr_next _ _ _ _ F).
  - apply (fr_hosts _ _ _ _ F).
Qed.

Lemma frame_refl x s : InvX x s -> Frame s s [].
Proof. intros I. apply ce_frame_refl. apply core_eq_refl. exact (inv_heap _ _ I). Qed.

(* an object owned by the caller stays owned across a callee that was not given it *)
Lemma own_frame g s s' L L' :
  Own s L -> FrameG g s s' L' -> (forall o, In o L -> ~ In o L') -> Own s' L.
Proof.
  intros [H1 H2] F Hd. split; auto. intros o' Ho. destruct (H2 _ Ho) as [Hc Hr].
  pose proof (fr_cell _ _ _ _ F _ _ Hc Hr (Hd _ Ho)) as G. simpl in G. exact G.
Qed.

Lemma own_app s L1 L2 : Own s (L1 ++ L2) -> Own s L1 /\ Own s L2 /\ (forall o, In o L1 -> ~ In o L2).
Proof.
  intros [H1 H2]. apply NoDup_app_iff in H1. destruct H1 as [Ha [Hb Hc]].
  repeat split; auto; apply H2; apply in_or_app; auto.
Qed.

Lemma own_cons s o L : Own s (o :: L) -> cell_of s o = Some COpaque /\ ~ rooted s o /\ ~ In o L /\ Own s L.
Proof.
  intros [H1 H2]. inversion H1; subst. destruct (H2 o (or_introl eq_refl)) as [Ha Hb].
  split; [exact Ha|]. split; [exact Hb|]. split; [assumption|]. split; [assumption|].
  intros x Hx. apply H2. right; auto.
Qed.

Lemma own_nil s : Own s [].
Proof. split; [constructor | intros o []]. Qed.

(* ---------------------------------------------------------------------------------- *)
(* The three heap primitives as explicit state transformers                            *)
(* ---------------------------------------------------------------------------------- *)
Definition alloc_st (c : cell) (s : state) : state :=
  {| st_next := S (st_next s); st_cells := (st_next s, c) :: st_cells s; st_freed := st_freed s; st_lists := st_lists s;
     st_byqid := st_byqid s; st_bytmo := st_bytmo s; st_conns := st_conns s; st_tape := st_tape s;
     st_scripts := st_scripts s; st_trace := st_trace s; st_destroying := st_destroying s;
     st_nservers := st_nservers s |}.
Definition free_st (o : obj) (s : state) : state :=
  {| st_next := st_next s; st_cells := remove_key o (st_cells s); st_freed := o :: st_freed s;
     st_lists := st_lists s; st_byqid := st_byqid s; st_bytmo := st_bytmo s; st_conns := st_conns s;
     st_tape := st_tape s; st_scripts := st_scripts s; st_trace := st_trace s; st_destroying := st_destroying s;
     st_nservers := st_nservers s |}.
Definition store_st (o : obj) (c : cell) (s : state) : state := set_cells ((o, c) :: remove_key o (st_cells s)) s.

Lemma alloc_run c s : alloc c s = Ok (st_next s, alloc_st c s).
Proof. reflexivity. Qed.

Lemma touch_run s o c : heap_ok s -> cell_of s o = Some c -> touch o s = Ok (c, s).
Proof.
  intros [H _] Hc. unfold touch. destruct (H _ _ Hc) as [_ Hn].
  apply memb_false in Hn. rewrite Hn. unfold cell_of in Hc. rewrite Hc. reflexivity.
Qed.

Lemma free_run s o c : heap_ok s -> cell_of s o = Some c -> free_obj o s = Ok (tt, free_st o s).
Proof.
  intros [H _] Hc. unfold free_obj. destruct (H _ _ Hc) as [_ Hn].
  apply memb_false in Hn. rewrite Hn. unfold cell_of in Hc. rewrite Hc. reflexivity.
Qed.

Lemma store_run s o c0 c : heap_ok s -> cell_of s o = Some c0 -> store o c s = Ok (tt, store_st o c s).
Proof.
  intros H Hc. unfold store, mbind. rewrite (touch_run _ _ _ H Hc). reflexivity.
Qed.

Lemma safe_touch s o c (Q : cell -> state -> Prop) :
  heap_ok s -> cell_of s o = Some c -> Q c s -> safe (touch o) s Q.
Proof. intros H Hc HQ. unfold safe. rewrite (touch_run _ _ _ H Hc). exact HQ. Qed.

Lemma safe_free s o c (Q : unit -> state -> Prop) :
  heap_ok s -> cell_of s o = Some c -> Q tt (free_st o s) -> safe (free_obj o) s Q.
Proof. intros H Hc HQ. unfold safe. rewrite (free_run _ _ _ H Hc). exact HQ. Qed.

Lemma safe_store s o c0 c (Q : unit -> state -> Prop) :
  heap_ok s -> cell_of s o = Some c0 -> Q tt (store_st o c s) -> safe (store o c) s Q.
Proof. intros H Hc HQ. unfold safe. rewrite (store_run _ _ _ c H Hc). exact HQ. Qed.

Lemma safe_alloc s c (Q : obj -> state -> Prop) : Q (st_next s) (alloc_st c s) -> safe (alloc c) s Q.
Proof. intros HQ. unfold safe. rewrite alloc_run. exact HQ. Qed.

Lemma safe_get_query s qo q (Q : query -> state -> Prop) :
  heap_ok s -> cell_of s qo = Some (CQuery q) -> Q q s -> safe (get_query qo) s Q.
Proof.
  intros H Hc HQ. unfold get_query. apply safe_bind. eapply safe_touch; eauto.
Qed.

Lemma safe_get_conn s co c (Q : conn -> state -> Prop) :
  heap_ok s -> cell_of s co = Some (CConn c) -> Q c s -> safe (get_conn co) s Q.
Proof.
  intros H Hc HQ. unfold get_conn. apply safe_bind. eapply safe_touch; eauto.
Qed.

Lemma cell_alloc c s x : cell_of (alloc_st c s) x = if Nat.eqb x (st_next s) then Some c else cell_of s x.
Proof. reflexivity. Qed.
Lemma cell_free o s x : cell_of (free_st o s) x = if Nat.eqb x o then None else cell_of s x.
Proof. unfold cell_of, free_st. simpl. apply lookup_remove_key. Qed.
Lemma cell_store o c s x : cell_of (store_st o c s) x = if Nat.eqb x o then Some c else cell_of s x.
Proof.
  unfold cell_of, store_st. simpl. destruct (Nat.eqb x o) eqn:E; auto.
  rewrite lookup_remove_key, E. reflexivity.
Qed.

Lemma heap_alloc c s : heap_ok s -> heap_ok (alloc_st c s).
Proof.
  intros [H1 H2]. split.
  - intros o c'. rewrite cell_alloc. simpl. destruct (Nat.eqb o (st_next s)) eqn:E.
    + apply Nat.eqb_eq in E. subst. intros _. split; [lia|]. intros Hin. apply H2 in Hin. lia.
    + intros Hc. destruct (H1 _ _ Hc). split; auto.
  - simpl. intros o Ho. apply H2 in Ho. lia.
Qed.

Lemma heap_free o c s : heap_ok s -> cell_of s o = Some c -> heap_ok (free_st o s).
Proof.
  intros [H1 H2] Hc. split.
  - intros x c'. rewrite cell_free. simpl. destruct (Nat.eqb x o) eqn:E; [discriminate|].
    intros Hx. destruct (H1 _ _ Hx). split; auto. intros [Hin|Hin]; auto.
    subst. rewrite Nat.eqb_refl in E. discriminate.
  - simpl. intros x [Hx|Hx]; auto. subst. destruct (H1 _ _ Hc). auto.
Qed.

Lemma heap_store o c0 c s : heap_ok s -> cell_of s o = Some c0 -> heap_ok (store_st o c s).
Proof.
  intros [H1 H2] Hc. split.
  - intros x c'. rewrite cell_store. simpl. destruct (Nat.eqb x o) eqn:E.
    + apply Nat.eqb_eq in E. subst. intros _. exact (H1 _ _ Hc).
    + intros Hx. exact (H1 _ _ Hx).
  - exact H2.
Qed.

(* a live object is below st_next *)
Lemma live_lt s o c : heap_ok s -> cell_of s o = Some c -> o < st_next s.
Proof. intros [H _] Hc. destruct (H _ _ Hc); auto. Qed.

(* chain depends only on the list structure and the callbacks of the linked queries *)
Lemma chain_same s s' :
  linked s' = linked s -> (forall qo, In qo (linked s) -> qchain s' qo = qchain s qo) -> chain s' = chain s.
Proof.
  intros El Hq. unfold chain. rewrite El. clear El. revert Hq.
  induction (linked s) as [|a l IH]; simpl; intros Hq; auto.
  rewrite Hq by (left; auto). f_equal. apply IH. intros qo Hqo. apply Hq. right; auto.
Qed.

Lemma safe_of_run {A} (m : M A) s a s' (Q : A -> state -> Prop) : m s = Ok (a, s') -> Q a s' -> safe m s Q.
Proof. intros E HQ. unfold safe. rewrite E. exact HQ. Qed.

Lemma mbind_run {A B} (m : M A) (f : A -> M B) s a s1 : m s = Ok (a, s1) -> mbind m f s = f a s1.
Proof. intros E. unfold mbind. rewrite E. reflexivity. Qed.

(* ---------------------------------------------------------------------------------- *)
(* O1/O8: allocation and release of an unrooted opaque object                          *)
(* ---------------------------------------------------------------------------------- *)
Lemma linked_alloc c s : linked (alloc_st c s) = linked s.
Proof. reflexivity. Qed.
Lemma linked_free o s : linked (free_st o s) = linked s.
Proof. reflexivity. Qed.
Lemma linked_store o c s : linked (store_st o c s) = linked s.
Proof. reflexivity. Qed.

(* every rooted object is live *)
Lemma rooted_live x s o : InvX x s -> rooted s o -> exists c, cell_of s o = Some c.
Proof.
  intros I [H|[H|[H|H]]].
  - destruct (inv_query _ _ I _ H) as [q Hq]. eauto.
  - destruct (inv_conns _ _ I) as [_ Hc]. destruct (Hc _ H) as [c [Hc' _]]. eauto.
  - destruct (inv_chain _ _ I) as [_ Hc]. rewrite (Hc _ H). eauto.
  - destruct (hi_objs _ (inv_hosts _ _ I)) as [_ Hc]. destruct (Hc _ H) as [Hc' _]. eauto.
Qed.

Lemma fresh_unrooted x s : InvX x s -> ~ rooted s (st_next s).
Proof.
  intros I Hr. destruct (rooted_live _ _ _ I Hr) as [c Hc].
  pose proof (live_lt _ _ _ (inv_heap _ _ I) Hc). lia.
Qed.

(* a host_query state is not rooted (rooted objects are queries, connections, opaque) *)
Lemma host_unrooted x s o h : InvX x s -> cell_of s o = Some (CHost h) -> ~ rooted s o.
Proof.
  intros I Hc [H|[H|[H|H]]].
  - destruct (inv_query _ _ I _ H) as [q Hq]. congruence.
  - destruct (inv_conns _ _ I) as [_ Hcc]. destruct (Hcc _ H) as [c [Hc' _]]. congruence.
  - destruct (inv_chain _ _ I) as [_ Hcc]. rewrite (Hcc _ H) in Hc. discriminate.
  - destruct (hi_objs _ (inv_hosts _ _ I)) as [_ Hcc]. destruct (Hcc _ H) as [Hc' _]. congruence.
Qed.

Lemma rooted_same s s' x :
  linked s' = linked s -> st_conns s' = st_conns s -> chain s' = chain s -> hobjs s' = hobjs s ->
  (rooted s' x <-> rooted s x).
Proof. intros E1 E2 E3 E4. unfold rooted. rewrite E1, E2, E3, E4. tauto. Qed.

(* a cell update at an object that is neither a linked query nor changes kinds relevant to the
   invariant: used for opaque objects and unrooted queries *)
Lemma qchain_upd s s' :
  (forall qo, In qo (linked s) -> cell_of s' qo = cell_of s qo) -> linked s' = linked s -> chain s' = chain s.
Proof.
  intros H El. apply chain_same; auto. intros qo Hq. unfold qchain. rewrite H; auto.
Qed.

(* G1: the cells changed only at unrooted objects that are not connections *)
Lemma inv_cells_irrelevant_gen x s s' :
  InvX x s -> heap_ok s' ->
  st_lists s' = st_lists s -> st_byqid s' = st_byqid s -> st_bytmo s' = st_bytmo s -> st_conns s' = st_conns s ->
  (forall o, In o (linked s) \/ In o (st_conns s) \/ In o (chain s) -> cell_of s' o = cell_of s o) ->
  (forall o c, cell_of s' o = Some (CConn c) <-> cell_of s o = Some (CConn c)) ->
  HostInv s' ->
  InvX x s' /\ chain s' = chain s /\ linked s' = linked s.
Proof.
  intros I Hh El Eq Et Ec Hr Hc HI'.
  assert (Ell : linked s' = linked s) by (unfold linked; rewrite El; reflexivity).
  assert (Ech : chain s' = chain s).
  { apply qchain_upd; [|exact Ell]. intros qo Hq. apply Hr. left. exact Hq. }
  split; [|split]; auto.
  constructor; auto.
  - rewrite Ell. exact (inv_nodup _ _ I).
  - intros qo. rewrite Ell. intros Hq. destruct (inv_query _ _ I _ Hq) as [q H1].
    exists q. rewrite Hr; auto.
  - intros qid qo. rewrite Eq, Ell. intros H. destruct (inv_byqid _ _ I _ _ H) as [H1 H2]. split; auto.
    intros q. rewrite Hr by (left; auto). auto.
  - intros qo. rewrite Et, Ell. intros H. destruct (inv_bytmo _ _ I _ H) as [H1 [q [co [c [H2 [H3 [H4 H5]]]]]]].
    split; auto. exists q, co, c. rewrite Hr by (left; auto). repeat split; auto. apply Hc. exact H4.
  - intros co c qo. rewrite Ell. intros H1 H2. apply Hc in H1.
    destruct (inv_connq _ _ I _ _ _ H1 H2) as [H3 [q [H4 H5]]]. split; auto. exists q.
    rewrite Hr by (left; auto). auto.
  - rewrite Ec. destruct (inv_conns _ _ I) as [H1 H2]. split; auto. intros co Hco.
    destruct (H2 _ Hco) as [c [H3 H4]]. exists c. split; auto. apply Hc. exact H3.
  - intros co c H1 H2. rewrite Ec. apply Hc in H1. exact (inv_closed _ _ I _ _ H1 H2).
  - rewrite Ech. destruct (inv_chain _ _ I) as [H1 H2]. split; auto. intros o Ho.
    rewrite Hr; auto.
Qed.

Lemma inv_cells_irrelevant x s s' :
  InvX x s -> heap_ok s' -> st_next s <= st_next s' ->
  st_lists s' = st_lists s -> st_byqid s' = st_byqid s -> st_bytmo s' = st_bytmo s -> st_conns s' = st_conns s ->
  (forall o, rooted s o -> cell_of s' o = cell_of s o) ->
  (forall o c, cell_of s' o = Some (CConn c) <-> cell_of s o = Some (CConn c)) ->
  (forall o, shared_at s' o = shared_at s o) ->
  InvX x s' /\ chain s' = chain s /\ linked s' = linked s /\ hobjs s' = hobjs s.
Proof.
  intros I Hh Hn El Eq Et Ec Hr Hc Hsh.
  assert (Ell : linked s' = linked s) by (unfold linked; rewrite El; reflexivity).
  assert (Ech : chain s' = chain s).
  { apply qchain_upd; auto. intros qo Hq. apply Hr. left. exact Hq. }
  assert (Eho : hobjs s' = hobjs s) by (apply hobjs_same; auto; exact (inv_heap _ _ I)).
  destruct (inv_cells_irrelevant_gen x s s') as [I' _]; auto.
  - intros o [H|[H|H]]; apply Hr; [left|right; left|right; right; left]; exact H.
  - apply (hostinv_same s s'); auto.
    + exact (inv_hosts _ _ I).
    + exact (inv_heap _ _ I).
    + intros qo Hq. apply href_same. apply Hr. left; exact Hq.
    + intros o Ho. rewrite Hr by (right; right; right; exact Ho).
      destruct (hi_objs _ (inv_hosts _ _ I)) as [_ H]. apply H; auto.
    + intros o. rewrite Ech. auto.
Qed.

(* the corresponding frame: everything outside L keeps its cell, nothing becomes rooted *)
Lemma frame_cells s s' L :
  heap_ok s ->
  st_lists s' = st_lists s -> st_conns s' = st_conns s -> chain s' = chain s -> hobjs s' = hobjs s -> st_next s <= st_next s' ->
  (forall o c, cell_of s o = Some c -> ~ In o L -> cell_of s' o = Some c) ->
  (forall o c, cell_of s o = Some (CConn c) -> cell_of s' o = Some (CConn c)) ->
  (forall qo, In qo (linked s) -> href s' qo = href s qo) ->
  (forall o, host_at s' o = host_at s o) ->
  Frame s s' L.
Proof.
  intros Hh El Ec Ech Eho Hn Hc Hcc Hhr Hha.
  assert (Ell : linked s' = linked s) by (unfold linked; rewrite El; reflexivity).
  assert (Hr : forall o, rooted s' o <-> rooted s o) by (intros o; apply rooted_same; auto).
  constructor; auto.
  - intros o c H1 H2 H3. pose proof (Hc _ _ H1 H3) as H4.
    assert (H5 : ~ rooted s' o) by (rewrite Hr; exact H2).
    destruct c; auto. exists c. repeat split; auto. apply incl_refl.
  - intros o cc H1 H2. exists cc. auto.
  - apply hframe_same; auto.
Qed.

Lemma host_at_upd s s' o0 :
  (forall o, o <> o0 -> cell_of s' o = cell_of s o) -> host_at s o0 = None -> host_at s' o0 = None ->
  forall o, host_at s' o = host_at s o.
Proof.
  intros H H1 H2 o. destruct (Nat.eq_dec o o0) as [->|Hne]; [congruence|]. unfold host_at. rewrite H; auto.
Qed.

(* O1: allocate an opaque object *)
Lemma alloc_opaque_ok x s :
  InvX x s ->
  let s' := alloc_st COpaque s in
  InvX x s' /\ Frame s s' [] /\ cell_of s' (st_next s) = Some COpaque /\ ~ rooted s' (st_next s)
  /\ chain s' = chain s /\ linked s' = linked s
  /\ (forall o, o <> st_next s -> cell_of s' o = cell_of s o).
Proof.
  intros I s'.
  assert (Hfresh : forall o c, cell_of s o = Some c -> Nat.eqb o (st_next s) = false).
  { intros o c Hc. apply Nat.eqb_neq. pose proof (live_lt _ _ _ (inv_heap _ _ I) Hc). lia. }
  assert (Hsame : forall o c, cell_of s o = Some c -> cell_of s' o = Some c).
  { intros o c Hc. unfold s'. rewrite cell_alloc, (Hfresh _ _ Hc). exact Hc. }
  assert (Hne : forall o, o <> st_next s -> cell_of s' o = cell_of s o).
  { intros o Ho. unfold s'. rewrite cell_alloc. apply Nat.eqb_neq in Ho. rewrite Ho. reflexivity. }
  assert (Hha : forall o, host_at s' o = host_at s o).
  { apply (host_at_upd s s' (st_next s)); auto.
    - unfold host_at. destruct (cell_of s (st_next s)) as [c|] eqn:E; auto.
      pose proof (Hfresh _ _ E) as E'. rewrite Nat.eqb_refl in E'. discriminate.
    - unfold host_at, s'. rewrite cell_alloc, Nat.eqb_refl. reflexivity. }
  destruct (inv_cells_irrelevant x s s') as [I' [Ech [Ell Eho]]]; auto.
  - apply heap_alloc. exact (inv_heap _ _ I).
  - simpl. lia.
  - intros o Hr. destruct (rooted_live _ _ _ I Hr) as [c Hc]. rewrite Hc. apply Hsame. exact Hc.
  - intros o c. unfold s'. rewrite cell_alloc. destruct (Nat.eqb o (st_next s)) eqn:E.
    + split; [discriminate|]. intros Hc. rewrite (Hfresh _ _ Hc) in E. discriminate.
    + tauto.
  - apply shared_of_host_at. exact Hha.
  - split; [exact I'|]. split.
    + apply frame_cells; auto. { exact (inv_heap _ _ I). } { simpl. lia. }
      intros qo Hq. apply href_same. destruct (inv_query _ _ I _ Hq) as [q Hq']. rewrite Hq'. apply Hsame. exact Hq'.
    + split. { unfold s'. rewrite cell_alloc, Nat.eqb_refl. reflexivity. }
      split. { intros Hr. apply (fresh_unrooted _ _ I). apply (rooted_same s s'); auto. }
      split; auto.
Qed.

(* O7/O8: release a live, unrooted object that is neither a connection nor a host_query state
   (an owned opaque object, a detached query) *)
Lemma free_unrooted_ok x s o c0 :
  InvX x s -> cell_of s o = Some c0 -> (forall cc, c0 <> CConn cc) -> (forall h, c0 <> CHost h) -> ~ rooted s o ->
  let s' := free_st o s in
  InvX x s' /\ Frame s s' [o] /\ chain s' = chain s /\ linked s' = linked s
  /\ (forall o', o' <> o -> cell_of s' o' = cell_of s o').
Proof.
  intros I Hc Hnc Hnh Hr s'.
  assert (Hsame : forall o', o' <> o -> cell_of s' o' = cell_of s o').
  { intros o' Hne. unfold s'. rewrite cell_free. apply Nat.eqb_neq in Hne. rewrite Hne. reflexivity. }
  assert (Hha : forall o', host_at s' o' = host_at s o').
  { apply (host_at_upd s s' o); auto.
    - unfold host_at. rewrite Hc. destruct c0; auto. exfalso. eapply Hnh; eauto.
    - unfold host_at, s'. rewrite cell_free, Nat.eqb_refl. reflexivity. }
  destruct (inv_cells_irrelevant x s s') as [I' [Ech [Ell Eho]]]; auto.
  - eapply heap_free; eauto. exact (inv_heap _ _ I).
  - intros o' Hr'. apply Hsame. intros ->. contradiction.
  - intros o' c. unfold s'. rewrite cell_free. destruct (Nat.eqb o' o) eqn:E.
    + apply Nat.eqb_eq in E. subst. rewrite Hc. split; [discriminate|].
      intros H. inversion H. exfalso. eapply Hnc; eauto.
    + tauto.
  - apply shared_of_host_at. exact Hha.
  - split; [exact I'|]. split; [|split; [exact Ech|split; [exact Ell|exact Hsame]]].
    apply frame_cells; auto.
    + exact (inv_heap _ _ I).
    + intros o' c Hc' Hn. rewrite Hsame; auto. intros ->. apply Hn. left; auto.
    + intros o' c Hc'. rewrite Hsame; auto. intros ->. rewrite Hc in Hc'. inversion Hc'.
      eapply Hnc; eauto.
    + intros qo Hq. apply href_same. apply Hsame. intros ->. apply Hr. left. exact Hq.
Qed.

(* O9: update fields of a live query that no index depends on (error status, try count,
   no_retries, using_tcp) *)
Lemma store_query_misc_ok x s qo q q' :
  InvX x s -> cell_of s qo = Some (CQuery q) ->
  q_cb q' = q_cb q -> q_qid q' = q_qid q -> q_conn q' = q_conn q ->
  let s' := store_st qo (CQuery q') s in
  InvX x s' /\ Frame s s' [qo] /\ chain s' = chain s /\ linked s' = linked s
  /\ (forall o', o' <> qo -> cell_of s' o' = cell_of s o') /\ cell_of s' qo = Some (CQuery q').
Proof.
  intros I Hc Ecb Eqid Econn s'.
  assert (Hsame : forall o', o' <> qo -> cell_of s' o' = cell_of s o').
  { intros o' Hne. unfold s'. rewrite cell_store. apply Nat.eqb_neq in Hne. rewrite Hne. reflexivity. }
  assert (Hqo : cell_of s' qo = Some (CQuery q')).
  { unfold s'. rewrite cell_store, Nat.eqb_refl. reflexivity. }
  assert (Ell : linked s' = linked s) by reflexivity.
  assert (Ech : chain s' = chain s).
  { apply chain_same; auto. intros o Ho. unfold qchain. destruct (Nat.eq_dec o qo) as [->|Hne].
    - rewrite Hqo, Hc, Ecb. reflexivity.
    - rewrite Hsame; auto. }
  assert (Hhr : forall o, href s' o = href s o).
  { intros o. unfold href. destruct (Nat.eq_dec o qo) as [->|Hne].
    - rewrite Hqo, Hc, Ecb. reflexivity.
    - rewrite Hsame; auto. }
  assert (Hha : forall o, host_at s' o = host_at s o).
  { apply (host_at_upd s s' qo); auto; unfold host_at; [rewrite Hc|rewrite Hqo]; reflexivity. }
  assert (Eho : hobjs s' = hobjs s).
  { apply hobjs_same; [exact (inv_heap _ _ I)|simpl; lia|apply shared_of_host_at; exact Hha]. }
  assert (Hq : forall o q0, cell_of s o = Some (CQuery q0) ->
                exists q1, cell_of s' o = Some (CQuery q1) /\ q_cb q1 = q_cb q0 /\ q_qid q1 = q_qid q0 /\ q_conn q1 = q_conn q0).
  { intros o q0 H. destruct (Nat.eq_dec o qo) as [->|Hne].
    - rewrite Hc in H. inversion H; subst. exists q'. auto.
    - exists q0. rewrite Hsame; auto. }
  assert (Hconn : forall o c, cell_of s' o = Some (CConn c) <-> cell_of s o = Some (CConn c)).
  { intros o c. destruct (Nat.eq_dec o qo) as [->|Hne].
    - rewrite Hqo, Hc. split; discriminate.
    - rewrite Hsame; auto. tauto. }
  split; [|split; [|split; [exact Ech|split; [exact Ell|split; [exact Hsame|exact Hqo]]]]].
  - constructor.
    + eapply heap_store; eauto. exact (inv_heap _ _ I).
    + rewrite Ell. exact (inv_nodup _ _ I).
    + intros o. rewrite Ell. intros Ho. destruct (inv_query _ _ I _ Ho) as [q0 H1].
      destruct (Hq _ _ H1) as [q1 [H3 _]]. exists q1. exact H3.
    + intros qid o H. destruct (inv_byqid _ _ I _ _ H) as [H1 H2]. split; auto.
      intros q1 H3. destruct (inv_query _ _ I _ H1) as [q0 H4].
      destruct (Hq _ _ H4) as [q2 [H5 [_ [H6 _]]]]. rewrite H5 in H3. inversion H3; subst.
      rewrite H6. apply H2. exact H4.
    + intros o H. destruct (inv_bytmo _ _ I _ H) as [H1 [q0 [co [c [H2 [H3 [H4 H5]]]]]]].
      split; auto. destruct (Hq _ _ H2) as [q1 [H6 [_ [_ H7]]]].
      exists q1, co, c. repeat split; auto. { rewrite H7. exact H3. } apply Hconn. exact H4.
    + intros co c o H1 H2. apply Hconn in H1. destruct (inv_connq _ _ I _ _ _ H1 H2) as [H3 [q0 [H4 H5]]].
      split; auto. destruct (Hq _ _ H4) as [q1 [H6 [_ [_ H7]]]]. exists q1. split; auto. rewrite H7. exact H5.
    + destruct (inv_conns _ _ I) as [H1 H2]. split; auto. intros co Hco.
      destruct (H2 _ Hco) as [c [H3 H4]]. exists c. split; auto. apply Hconn. exact H3.
    + intros co c H1 H2. apply Hconn in H1. exact (inv_closed _ _ I _ _ H1 H2).
    + rewrite Ech. destruct (inv_chain _ _ I) as [H1 H2]. split; auto. intros o Ho.
      rewrite Hsame. { auto. } intros ->. rewrite (H2 _ Ho) in Hc. discriminate.
    + apply (hostinv_same s s'); auto.
      * exact (inv_hosts _ _ I).
      * exact (inv_heap _ _ I).
      * apply shared_of_host_at. exact Hha.
      * intros o Ho. destruct (hi_objs _ (inv_hosts _ _ I)) as [_ H]. destruct (H _ Ho) as [H1 _].
        rewrite Hsame; auto. intros ->. congruence.
      * intros o. rewrite Ech. auto.
  - apply frame_cells; auto.
    + exact (inv_heap _ _ I).
    + intros o c Hc' Hn. rewrite Hsame; auto. intros ->. apply Hn. left; auto.
    + intros o c Hc'. apply Hconn. exact Hc'.
Qed.

Lemma lookup_in_keys {A} o (l : list (nat * A)) c : lookup o l = Some c -> In o (map fst l).
Proof.
  induction l as [|[a b] l IH]; simpl; [discriminate|].
  destruct (Nat.eqb o a) eqn:E; intros H.
  - apply Nat.eqb_eq in E. left; auto.
  - right; auto.
Qed.

(* the state after bytmo := bytmo - qo *)
Definition bytmo_remove_st (qo : obj) (s : state) : state := set_bytmo (remove_nat qo (st_bytmo s)) s.

(* which connection (if any) has qo on its list: unique by the invariant *)
Lemma conn_of_query_unique x s qo co1 c1 co2 c2 :
  InvX x s -> cell_of s co1 = Some (CConn c1) -> In qo (c_queries c1) ->
  cell_of s co2 = Some (CConn c2) -> In qo (c_queries c2) -> co1 = co2.
Proof.
  intros I H1 H2 H3 H4.
  destruct (inv_connq _ _ I _ _ _ H1 H2) as [_ [q [Hq Hc]]].
  destruct (inv_connq _ _ I _ _ _ H3 H4) as [_ [q' [Hq' Hc']]].
  rewrite Hq in Hq'. inversion Hq'; subst. rewrite Hc in Hc'. inversion Hc'. reflexivity.
Qed.

Definition strip (qo : obj) (c : cell) : cell :=
  match c with CConn cc => CConn (set_c_queries (remove_nat qo (c_queries cc)) cc) | _ => c end.

Lemma set_c_queries_id c : set_c_queries (c_queries c) c = c.
Proof. destruct c; reflexivity. Qed.

Lemma strip_notin qo c : (forall cc, c = CConn cc -> ~ In qo (c_queries cc)) -> strip qo c = c.
Proof.
  destruct c as [q|cc|h|]; simpl; auto. intros H. rewrite remove_nat_notin by (apply H; reflexivity).
  rewrite set_c_queries_id. reflexivity.
Qed.

(* two heaps that differ at most in the contents of connections and in the index fields of queries *)
Definition cell_sim (c c' : option cell) : Prop :=
  match c, c' with
  | Some (CQuery q), Some (CQuery q') => q_cb q' = q_cb q
  | Some (CConn _), Some (CConn _) => True
  | Some (CHost h), Some (CHost h') => h' = h
  | Some COpaque, Some COpaque => True
  | None, None => True
  | None, Some (CConn _) => True       (* allocation of a connection / an opaque object *)
  | None, Some COpaque => True
  | Some (CConn _), None => True       (* release of a connection *)
  | _, _ => False
  end.

Lemma sim_views s s' : (forall o, cell_sim (cell_of s o) (cell_of s' o)) ->
  (forall o, host_at s' o = host_at s o) /\ (forall o, href s' o = href s o).
Proof.
  intros H. split; intros o; specialize (H o); unfold host_at, href, cell_sim in *;
    destruct (cell_of s o) as [[q|c|h|]|], (cell_of s' o) as [[q'|c'|h'|]|]; try destruct H; auto; congruence.
Qed.

Lemma cell_sim_strip qo c : cell_sim c (option_map (strip qo) c).
Proof. destruct c as [[q|c|h|]|]; simpl; auto. Qed.

(* what the simple state changes preserve about the host_query states *)
Lemma hosts_sim x s s' :
  InvX x s -> st_next s <= st_next s' -> linked s' = linked s -> chain s' = chain s ->
  (forall o, cell_sim (cell_of s o) (cell_of s' o)) ->
  HostInv s' /\ HFrame (dg None) s s' /\ hobjs s' = hobjs s.
Proof.
  intros I Hn El Ech Hs. destruct (sim_views _ _ Hs) as [Hha Hhr].
  assert (Eho : hobjs s' = hobjs s).
  { apply hobjs_same; [exact (inv_heap _ _ I)|exact Hn|apply shared_of_host_at; exact Hha]. }
  split; [|split; [|exact Eho]].
  - apply (hostinv_same s s'); auto.
    + exact (inv_hosts _ _ I).
    + exact (inv_heap _ _ I).
    + apply shared_of_host_at. exact Hha.
    + intros o Ho. destruct (hi_objs _ (inv_hosts _ _ I)) as [_ H]. destruct (H _ Ho) as [H1 _].
      specialize (Hs o). rewrite H1 in Hs. unfold cell_sim in Hs.
      destruct (cell_of s' o) as [[q|c|h|]|]; try destruct Hs; reflexivity.
    + intros o. rewrite Ech. auto.
  - apply hframe_same; auto. exact (inv_heap _ _ I).
Qed.

(* unlink_conn_node removes qo from the list of the (unique) connection that has it *)
Lemma unlink_run_gen s qo :
  heap_ok s ->
  (forall co1 c1 co2 c2, cell_of s co1 = Some (CConn c1) -> In qo (c_queries c1) ->
                         cell_of s co2 = Some (CConn c2) -> In qo (c_queries c2) -> co1 = co2) ->
  exists cells', unlink_conn_node qo s = Ok (tt, set_cells cells' s)
    /\ forall o, cell_of (set_cells cells' s) o = option_map (strip qo) (cell_of s o).
Proof.
  intros Hh Huniq. unfold unlink_conn_node.
  match goal with |- context [find ?f ?l] => destruct (find f l) as [co|] eqn:F end.
  - apply find_some in F. destruct F as [_ F].
    destruct (lookup co (st_cells s)) as [[q|c|h|]|] eqn:L; try discriminate.
    apply memb_In in F.
    assert (Hc : cell_of s co = Some (CConn c)) by exact L.
    assert (E1 : get_conn co s = Ok (c, s)).
    { unfold get_conn, mbind. rewrite (touch_run _ _ _ Hh Hc). reflexivity. }
    rewrite (mbind_run _ _ _ _ _ E1).
    rewrite (store_run _ _ _ (CConn (set_c_queries (remove_nat qo (c_queries c)) c)) Hh Hc).
    eexists. split; [reflexivity|].
    intros o. change (cell_of (store_st co (CConn (set_c_queries (remove_nat qo (c_queries c)) c)) s) o =
                      option_map (strip qo) (cell_of s o)).
    rewrite cell_store. destruct (Nat.eqb o co) eqn:E.
    + apply Nat.eqb_eq in E. subst. rewrite Hc. reflexivity.
    + destruct (cell_of s o) as [c'|] eqn:Ho; simpl; auto. f_equal. symmetry. apply strip_notin.
      intros cc -> Hin. apply Nat.eqb_neq in E. apply E.
      eapply Huniq; eauto.
  - exists (st_cells s). split.
    + destruct s; reflexivity.
    + intros o. replace (set_cells (st_cells s) s) with s by (destruct s; reflexivity).
      destruct (cell_of s o) as [c'|] eqn:Ho; simpl; auto. f_equal. symmetry. apply strip_notin.
      intros cc -> Hin.
      pose proof (find_none _ _ F o) as Fn. simpl in Fn.
      unfold cell_of in Ho. rewrite Ho in Fn.
      assert (Hk : In o (map fst (st_cells s))) by (eapply lookup_in_keys; eauto).
      specialize (Fn Hk). apply memb_false in Fn. contradiction.
Qed.

Lemma unlink_run x s qo :
  InvX x s ->
  exists cells', unlink_conn_node qo s = Ok (tt, set_cells cells' s)
    /\ forall o, cell_of (set_cells cells' s) o = option_map (strip qo) (cell_of s o).
Proof.
  intros I. apply unlink_run_gen. exact (inv_heap _ _ I).
  intros. eapply conn_of_query_unique; eauto.
Qed.

(* O5: ares_query_remove_from_conn *)
Lemma remove_from_conn_ok x s qo q :
  InvX x s -> (x = None \/ x = Some qo) -> In qo (linked s) -> cell_of s qo = Some (CQuery q) ->
  exists s', remove_from_conn qo s = Ok (tt, s')
    /\ Inv s' /\ Frame s s' []
    /\ st_lists s' = st_lists s /\ st_byqid s' = st_byqid s /\ st_conns s' = st_conns s
    /\ st_tape s' = st_tape s /\ st_trace s' = st_trace s /\ st_scripts s' = st_scripts s
    /\ st_destroying s' = st_destroying s /\ st_next s' = st_next s
    /\ chain s' = chain s
    /\ st_bytmo s' = remove_nat qo (st_bytmo s)
    /\ (forall o, cell_of s' o = if Nat.eqb o qo then Some (CQuery (set_q_conn None q))
                                 else option_map (strip qo) (cell_of s o)).
Proof.
  intros I Hx Hl Hq.
  pose proof (inv_heap _ _ I) as Hh.
  unfold remove_from_conn.
  assert (E1 : get_query qo s = Ok (q, s)).
  { unfold get_query, mbind. rewrite (touch_run _ _ _ Hh Hq). reflexivity. }
  rewrite (mbind_run _ _ _ _ _ E1).
  set (s1 := bytmo_remove_st qo s).
  assert (E2 : modify (fun s0 => set_bytmo (remove_nat qo (st_bytmo s0)) s0) s = Ok (tt, s1)) by reflexivity.
  rewrite (mbind_run _ _ _ _ _ E2).
  (* s1 satisfies the invariant with qo exempted *)
  assert (I1 : InvX (Some qo) s1).
  { destruct (hosts_sim x s s1 I) as [HI1 _]; try reflexivity.
    { intros o. change (cell_of s1 o) with (cell_of s o). destruct (cell_of s o) as [[q0|c0|h0|]|]; simpl; auto. }
    destruct I. constructor; auto.
    intros o Ho. unfold s1 in Ho. simpl in Ho. apply in_remove_nat in Ho. destruct Ho as [Ho Hne].
    destruct (inv_bytmo0 _ Ho) as [H1 [q0 [co [c [H2 [H3 [H4 H5]]]]]]].
    split; auto. exists q0, co, c. repeat split; auto.
    destruct H5 as [H5|H5]; auto. destruct Hx as [-> | ->]; [discriminate|]. inversion H5. contradiction. }
  destruct (unlink_run _ _ qo I1) as [cells' [E3 Hc2]].
  rewrite (mbind_run _ _ _ _ _ E3).
  set (s2 := set_cells cells' s1) in *.
  assert (Hq2 : cell_of s2 qo = Some (CQuery q)).
  { rewrite Hc2. change (cell_of s1 qo) with (cell_of s qo). rewrite Hq. reflexivity. }
  assert (Hh2 : heap_ok s2).
  { destruct Hh as [Ha Hb]. split.
    - intros o c Hc. rewrite Hc2 in Hc. change (cell_of s1 o) with (cell_of s o) in Hc.
      destruct (cell_of s o) as [c0|] eqn:Ho; simpl in Hc; [|discriminate]. exact (Ha _ _ Ho).
    - exact Hb. }
  assert (E4 : get_query qo s2 = Ok (q, s2)).
  { unfold get_query, mbind. rewrite (touch_run _ _ _ Hh2 Hq2). reflexivity. }
  rewrite (mbind_run _ _ _ _ _ E4).
  rewrite (store_run _ _ _ (CQuery (set_q_conn None q)) Hh2 Hq2).
  set (s3 := store_st qo (CQuery (set_q_conn None q)) s2).
  assert (Hc3 : forall o, cell_of s3 o = if Nat.eqb o qo then Some (CQuery (set_q_conn None q))
                                         else option_map (strip qo) (cell_of s o)).
  { intros o. unfold s3. rewrite cell_store. destruct (Nat.eqb o qo); auto. rewrite Hc2. reflexivity. }
  assert (Ell : linked s3 = linked s) by reflexivity.
  assert (Ech : chain s3 = chain s).
  { apply chain_same; auto. intros o Ho. unfold qchain. rewrite Hc3.
    destruct (Nat.eqb o qo) eqn:E.
    - apply Nat.eqb_eq in E. subst. rewrite Hq. reflexivity.
    - destruct (cell_of s o) as [[q0|c0|h0|]|]; reflexivity. }
  (* how cells of the three kinds look afterwards *)
  assert (Hquery : forall o q0, cell_of s o = Some (CQuery q0) ->
             cell_of s3 o = Some (CQuery (if Nat.eqb o qo then set_q_conn None q0 else q0))).
  { intros o q0 H. rewrite Hc3. destruct (Nat.eqb o qo) eqn:E.
    - apply Nat.eqb_eq in E. subst. rewrite Hq in H. inversion H; subst. reflexivity.
    - rewrite H. reflexivity. }
  assert (Hconn : forall o c, cell_of s3 o = Some (CConn c) <->
             exists c0, cell_of s o = Some (CConn c0) /\ c = set_c_queries (remove_nat qo (c_queries c0)) c0).
  { intros o c. rewrite Hc3. destruct (Nat.eqb o qo) eqn:E.
    - apply Nat.eqb_eq in E. subst. rewrite Hq. split; [discriminate|]. intros [c0 [H _]]. discriminate.
    - destruct (cell_of s o) as [[q0|c0|h0|]|]; simpl; split; try discriminate;
        try (intros [c1 [H _]]; discriminate).
      + intros H. inversion H. exists c0. auto.
      + intros [c1 [H1 H2]]. inversion H1; subst. reflexivity. }
  assert (Hsim : forall o, cell_sim (cell_of s o) (cell_of s3 o)).
  { intros o. rewrite Hc3. destruct (Nat.eqb o qo) eqn:E.
    - apply Nat.eqb_eq in E. subst. rewrite Hq. reflexivity.
    - apply cell_sim_strip. }
  destruct (hosts_sim x s s3 I) as [HI3 [HF3 Eho3]]; auto.
  exists s3. split; [reflexivity|].
  split; [|split; [|repeat (split; [reflexivity|]); split; [exact Ech|split; [reflexivity|exact Hc3]]]].
  - (* Inv s3 *)
    constructor.
    + eapply heap_store; eauto.
    + rewrite Ell. exact (inv_nodup _ _ I).
    + intros o. rewrite Ell. intros Ho. destruct (inv_query _ _ I _ Ho) as [q0 H1].
      rewrite (Hquery _ _ H1). eexists. reflexivity.
    + intros qid o H. change (st_byqid s3) with (st_byqid s) in H.
      destruct (inv_byqid _ _ I _ _ H) as [H1 H2]. split; auto.
      intros q1 H3. destruct (inv_query _ _ I _ H1) as [q0 H4]. rewrite (Hquery _ _ H4) in H3.
      inversion H3; subst. rewrite <- (H2 _ H4). destruct (Nat.eqb o qo); reflexivity.
    + intros o Ho. change (st_bytmo s3) with (remove_nat qo (st_bytmo s)) in Ho.
      apply in_remove_nat in Ho. destruct Ho as [Ho Hne].
      destruct (inv_bytmo _ _ I _ Ho) as [H1 [q0 [co [c [H2 [H3 [H4 H5]]]]]]].
      split; auto. exists q0, co, (set_c_queries (remove_nat qo (c_queries c)) c).
      rewrite (Hquery _ _ H2). apply Nat.eqb_neq in Hne as Hne'. rewrite Hne'.
      split; [reflexivity|]. split; [exact H3|]. split.
      * apply Hconn. exists c. auto.
      * right. simpl. apply in_remove_nat. split; auto.
        destruct H5 as [H5|H5]; auto. destruct Hx as [-> | ->]; [discriminate|]. inversion H5. contradiction.
    + intros co c o H1 H2. apply Hconn in H1. destruct H1 as [c0 [H1 ->]]. simpl in H2.
      apply in_remove_nat in H2. destruct H2 as [H2 Hne].
      destruct (inv_connq _ _ I _ _ _ H1 H2) as [H3 [q0 [H4 H5]]]. split; auto.
      rewrite (Hquery _ _ H4). apply Nat.eqb_neq in Hne. rewrite Hne. eauto.
    + destruct (inv_conns _ _ I) as [H1 H2]. split; auto. intros co Hco.
      destruct (H2 _ Hco) as [c [H3 H4]]. exists (set_c_queries (remove_nat qo (c_queries c)) c).
      split; [apply Hconn; eauto|exact H4].
    + intros co c H1 H2. apply Hconn in H1. destruct H1 as [c0 [H1 ->]]. simpl in H2.
      destruct (inv_closed _ _ I _ _ H1 H2) as [H4 H5]. repeat split; auto.
      simpl. rewrite H5. reflexivity.
    + rewrite Ech. destruct (inv_chain _ _ I) as [H1 H2]. split; auto. intros o Ho.
      rewrite Hc3. destruct (Nat.eqb o qo) eqn:E.
      * apply Nat.eqb_eq in E. subst. rewrite (H2 _ Ho) in Hq. discriminate.
      * rewrite (H2 _ Ho). reflexivity.
    + exact HI3.
  - (* Frame *)
    assert (Hr : forall o, rooted s3 o <-> rooted s o).
    { intros o. apply rooted_same; auto. }
    constructor.
    + intros o c H1 H2 _. assert (Hne : Nat.eqb o qo = false).
      { apply Nat.eqb_neq. intros ->. apply H2. left. exact Hl. }
      assert (H3 : ~ rooted s3 o) by (rewrite Hr; exact H2).
      destruct c as [q0|c0|h0|].
      * split; auto. rewrite Hc3, Hne, H1. reflexivity.
      * exists (set_c_queries (remove_nat qo (c_queries c0)) c0). rewrite Hc3, Hne, H1. simpl.
        repeat split; auto. intros y Hy. apply in_remove_nat in Hy. tauto.
      * intros _. split; auto. rewrite Hc3, Hne, H1. reflexivity.
      * split; auto. rewrite Hc3, Hne, H1. reflexivity.
    + intros o cc H1 H2. exists (set_c_queries (remove_nat qo (c_queries cc)) cc).
      split; [apply Hconn; eauto|auto].
    + simpl. lia.
    + exact HF3.
Qed.


Lemma remove_nat_app a l1 l2 : remove_nat a (l1 ++ l2) = remove_nat a l1 ++ remove_nat a l2.
Proof. unfold remove_nat. apply filter_app. Qed.

Lemma remove_nat_split a l : NoDup l -> In a l -> exists l1 l2, l = l1 ++ a :: l2 /\ remove_nat a l = l1 ++ l2.
Proof.
  intros Hn Hin. destruct (in_split _ _ Hin) as [l1 [l2 ->]]. exists l1, l2. split; auto.
  apply NoDup_remove_2 in Hn.
  rewrite remove_nat_app. simpl. rewrite Nat.eqb_refl. simpl.
  rewrite !remove_nat_notin; auto; intros H; apply Hn; apply in_or_app; auto.
Qed.

Lemma flat_map_remove (f : nat -> list nat) a l :
  NoDup l -> In a l -> NoDup (flat_map f l) ->
  NoDup (flat_map f (remove_nat a l))
  /\ (forall x, In x (flat_map f (remove_nat a l)) -> In x (flat_map f l))
  /\ (forall x, In x (f a) -> ~ In x (flat_map f (remove_nat a l)))
  /\ NoDup (f a).
Proof.
  intros Hn Hin Hd. destruct (remove_nat_split _ _ Hn Hin) as [l1 [l2 [-> E]]]. rewrite E.
  rewrite flat_map_app in *. simpl in Hd. rewrite flat_map_app.
  apply NoDup_app_iff in Hd. destruct Hd as [H1 [H2 H3]].
  apply NoDup_app_iff in H2. destruct H2 as [H4 [H5 H6]].
  repeat split.
  - apply NoDup_app_iff. repeat split; auto. intros x Hx Hx'. apply (H3 x Hx). apply in_or_app; auto.
  - intros x Hx. apply in_app_or in Hx. apply in_or_app. destruct Hx; auto. right. apply in_or_app; auto.
  - intros x Hx Hx'. apply in_app_or in Hx'. destruct Hx' as [Hx'|Hx'].
    + apply (H3 x Hx'). apply in_or_app; auto.
    + apply (H6 x Hx Hx').
  - exact H4.
Qed.

(* O6: ares_detach_query.  The query leaves every index; its closure is now in the hands of
   the caller.  If the closure ends in a host_query, that host_query is still waiting for the
   answer this closure will deliver: the next callee is handed it (FrameG (kbot ..)). *)
Record FrameD (go : option obj) (s s' : state) : Prop := {
  fd_cell : forall x c, cell_of s x = Some c -> ~ rooted s x ->
              match c with
              | CConn cc => exists cc', cell_of s' x = Some (CConn cc') /\ ~ rooted s' x
                                        /\ c_reading cc' = c_reading cc /\ c_closed cc' = c_closed cc
                                        /\ c_sock cc' = c_sock cc /\ incl (c_queries cc') (c_queries cc)
              | CHost h => h_remaining h = 0 -> cell_of s' x = Some c /\ ~ rooted s' x
              | _ => cell_of s' x = Some c /\ ~ rooted s' x
              end;
  fd_reading : forall x cc, cell_of s x = Some (CConn cc) -> c_reading cc = true ->
              exists cc', cell_of s' x = Some (CConn cc') /\ c_reading cc' = true /\ c_sock cc' = c_sock cc;
  fd_next : st_next s' = st_next s;
  fd_host : forall o, host_at s' o = host_at s o;
  fd_refs : forall o, nrefs s' o + dg go o = nrefs s o;
  fd_lt : forall o h, shared_at s o = Some h -> o < st_next s;
  fd_given : GivenOk s' go
}.

Lemma frame_detach_trans go s s1 s2 L : FrameD go s s1 -> FrameG (dg go) s1 s2 L -> Frame s s2 L.
Proof.
  intros D F. constructor.
  - intros x c Hc Hr Hn. pose proof (fd_cell _ _ _ D _ _ Hc Hr) as G1.
    destruct c as [q|cc|h|].
    + destruct G1 as [G1 G1']. exact (fr_cell _ _ _ _ F _ _ G1 G1' Hn).
    + destruct G1 as [cc' [G1 [G1' [Ea [Eb [Ec Ed]]]]]].
      pose proof (fr_cell _ _ _ _ F _ _ G1 G1' Hn) as G2. simpl in G2.
      destruct G2 as [cc'' [G2 [G2' [Ea' [Eb' [Ec' Ed']]]]]].
      exists cc''. repeat split; auto; try congruence. eapply incl_tran; eauto.
    + intros Hz. destruct (G1 Hz) as [G1a G1']. exact (fr_cell _ _ _ _ F _ _ G1a G1' Hn Hz).
    + destruct G1 as [G1 G1']. exact (fr_cell _ _ _ _ F _ _ G1 G1' Hn).
  - intros x cc Hc Hr. destruct (fd_reading _ _ _ D _ _ Hc Hr) as [cc' [G1 [G2 G3]]].
    destruct (fr_reading _ _ _ _ F _ _ G1 G2) as [cc'' [G4 [G5 G6]]]. exists cc''. repeat split; auto. congruence.
  - pose proof (fd_next _ _ _ D). pose proof (fr_next _ _ _ _ F). lia.
  - pose proof (fr_hosts _ _ _ _ F) as HF. pose proof (fd_refs _ _ _ D) as Er.
    assert (Hsh : forall o, shared_at s1 o = shared_at s o) by (apply shared_of_host_at; exact (fd_host _ _ _ D)).
    constructor.
    + intros o h Hs Hd. rewrite <- Hsh in Hs. simpl in Hd. specialize (Er o).
      destruct (hf_host _ _ _ HF _ _ Hs ltac:(lia)) as [A1 A2]. split.
      * intros Hl. apply A1. simpl in Hl. lia.
      * intros h' Hc'. destruct (A2 _ Hc') as [B1 [B2 B3]]. repeat split; auto. simpl. lia.
    + intros o h' Ho Hc'. apply (hf_new _ _ _ HF); auto. rewrite (fd_next _ _ _ D). exact Ho.
    + intros o h' Ho Hc'. destruct (hf_old _ _ _ HF o h') as [h1 Hc1]; auto.
      { rewrite (fd_next _ _ _ D). exact Ho. }
      apply host_at_some in Hc1. rewrite (fd_host _ _ _ D) in Hc1. apply host_at_some in Hc1. eauto.
    + exact (fd_lt _ _ _ D).
Qed.

Lemma filter_remove_len (P : nat -> bool) a l :
  NoDup l -> In a l -> length (filter P l) = (if P a then 1 else 0) + length (filter P (remove_nat a l)).
Proof.
  intros Hn Hin. destruct (remove_nat_split _ _ Hn Hin) as [l1 [l2 [-> E]]]. rewrite E.
  rewrite !filter_app, !app_length. simpl. destruct (P a); simpl; lia.
Qed.

Lemma detach_query_ok x s qo q :
  InvX x s -> (x = None \/ x = Some qo) -> In qo (linked s) -> cell_of s qo = Some (CQuery q) ->
  exists s', detach_query qo s = Ok (tt, s')
    /\ Inv s' /\ FrameD (kbot (q_cb q)) s s'
    /\ st_conns s' = st_conns s
    /\ st_tape s' = st_tape s /\ st_trace s' = st_trace s /\ st_scripts s' = st_scripts s
    /\ st_destroying s' = st_destroying s
    /\ st_lists s' = map (remove_nat qo) (st_lists s)
    /\ cell_of s' qo = Some (CQuery (set_q_conn None q))
    /\ ~ rooted s' qo
    /\ Own s' (cobjs (q_cb q))
    /\ (forall o, cell_of s' o = if Nat.eqb o qo then Some (CQuery (set_q_conn None q))
                                 else option_map (strip qo) (cell_of s o)).
Proof.
  intros I Hx Hl Hq.
  destruct (remove_from_conn_ok _ _ _ _ I Hx Hl Hq)
    as [s1 [E1 [I1 [F1 [El [Eq [Ec [Etp [Etr [Esc [Ed [En [Ech [Ebt Hc1]]]]]]]]]]]]]].
  unfold detach_query. rewrite (mbind_run _ _ _ _ _ E1).
  set (q1 := set_q_conn None q).
  assert (Hq1 : cell_of s1 qo = Some (CQuery q1)) by (rewrite Hc1, Nat.eqb_refl; reflexivity).
  pose proof (inv_heap _ _ I1) as Hh1.
  assert (E2 : get_query qo s1 = Ok (q1, s1)).
  { unfold get_query, mbind. rewrite (touch_run _ _ _ Hh1 Hq1). reflexivity. }
  rewrite (mbind_run _ _ _ _ _ E2).
  set (s2 := set_lists (map (remove_nat qo) (st_lists s1)) (set_byqid (remove_key (q_qid q1) (st_byqid s1)) s1)).
  exists s2. split; [reflexivity|].
  assert (Hl1 : In qo (linked s1)) by (unfold linked; rewrite El; exact Hl).
  assert (Ell : linked s2 = remove_nat qo (linked s1)).
  { unfold linked, s2. simpl. apply concat_map_remove. }
  assert (Hcell : forall o, cell_of s2 o = cell_of s1 o) by reflexivity.
  destruct (inv_chain _ _ I1) as [Hcn Hco].
  destruct (flat_map_remove (qchain s1) qo (linked s1) (inv_nodup _ _ I1) Hl1 Hcn) as [G1 [G2 [G3 G4]]].
  assert (Ech2 : chain s2 = flat_map (qchain s1) (remove_nat qo (linked s1))).
  { unfold chain. rewrite Ell. apply flat_map_ext. intros o. unfold qchain. rewrite Hcell. reflexivity. }
  assert (Hqc : qchain s1 qo = cobjs (q_cb q)).
  { unfold qchain. rewrite Hq1. reflexivity. }
  (* host_query states: same cells, one reference less for the one this query pointed at *)
  pose proof (inv_hosts _ _ I1) as HI1.
  assert (Hsh2 : forall o, shared_at s2 o = shared_at s1 o) by reflexivity.
  assert (Eho2 : hobjs s2 = hobjs s1) by reflexivity.
  assert (Hhr2 : forall o, href s2 o = href s1 o) by reflexivity.
  assert (Hhrq : href s1 qo = kbot (q_cb q)) by (unfold href; rewrite Hq1; reflexivity).
  assert (Hnr : forall o, nrefs s2 o + dg (kbot (q_cb q)) o = nrefs s1 o).
  { intros o.
    set (P := fun qo0 => match href s1 qo0 with Some o' => Nat.eqb o o' | None => false end).
    assert (A : nrefs s1 o = (if P qo then 1 else 0) + length (filter P (remove_nat qo (linked s1)))).
    { unfold nrefs, refs_to. apply filter_remove_len; auto. exact (inv_nodup _ _ I1). }
    assert (B : nrefs s2 o = length (filter P (remove_nat qo (linked s1)))).
    { unfold nrefs, refs_to. rewrite Ell. reflexivity. }
    rewrite A, B. unfold P. rewrite Hhrq. unfold dg.
    destruct (kbot (q_cb q)) as [o'|]; [destruct (Nat.eqb o o')|]; lia. }
  assert (HI2 : HostInv s2).
  { constructor.
    - intros qo' o. rewrite Ell. intros Hin. apply in_remove_nat in Hin. destruct Hin as [Hin _].
      rewrite Hhr2, Hsh2. apply (hi_ref _ HI1); auto.
    - intros o h. rewrite Hsh2. intros Hs. pose proof (hi_cnt _ HI1 _ _ Hs). specialize (Hnr o). lia.
    - intros o h. rewrite Hsh2. apply (hi_nohost _ HI1).
    - rewrite Eho2. destruct (hi_objs _ HI1) as [H1 H2]. split; auto. intros y Hy. destruct (H2 _ Hy) as [H3 H4].
      split; [rewrite Hcell; exact H3|]. rewrite Ech2. intros H. apply H4. apply G2. exact H. }
  assert (Hnr2 : ~ rooted s2 qo).
  { intros [H|[H|[H|H]]].
    - rewrite Ell in H. apply in_remove_nat in H. tauto.
    - destruct (inv_conns _ _ I1) as [_ Hcc]. destruct (Hcc _ H) as [c [Hc' _]]. rewrite Hq1 in Hc'. discriminate.
    - rewrite Ech2 in H. apply G2 in H. rewrite (Hco _ H) in Hq1. discriminate.
    - rewrite Eho2 in H. destruct (hi_objs _ HI1) as [_ H2]. destruct (H2 _ H) as [H3 _]. rewrite Hq1 in H3. discriminate. }
  assert (Hrt : forall o, rooted s2 o -> rooted s1 o).
  { intros o [H|[H|[H|H]]].
    - left. rewrite Ell in H. apply in_remove_nat in H. tauto.
    - right; left. exact H.
    - right; right; left. rewrite Ech2 in H. apply G2. exact H.
    - right; right; right. rewrite Eho2 in H. exact H. }
  assert (Hrt1 : forall o, rooted s1 o <-> rooted s o).
  { intros o. apply rooted_same; auto.
    - unfold linked. rewrite El. reflexivity.
    - destruct (hosts_sim x s s1 I) as [_ [_ E]]; auto.
      + rewrite En. lia.
      + unfold linked. rewrite El. reflexivity.
      + intros o'. rewrite Hc1. destruct (Nat.eqb o' qo) eqn:E.
        * apply Nat.eqb_eq in E. subst. rewrite Hq. reflexivity.
        * apply cell_sim_strip. }
  split; [|split; [|repeat (split; [first [reflexivity | assumption | (simpl; congruence)]|])]].
  - (* Inv s2 *)
    constructor.
    + exact Hh1.
    + rewrite Ell. apply nodup_remove_nat. exact (inv_nodup _ _ I1).
    + intros o. rewrite Ell. intros Ho. apply in_remove_nat in Ho. destruct Ho as [Ho _].
      exact (inv_query _ _ I1 _ Ho).
    + intros qid o H. unfold s2 in H. simpl in H. rewrite lookup_remove_key in H.
      destruct (Nat.eqb qid (q_qid q)) eqn:E; [discriminate|].
      destruct (inv_byqid _ _ I1 _ _ H) as [H1 H2]. split; [|exact H2].
      rewrite Ell. apply in_remove_nat. split; auto. intros ->.
      apply Nat.eqb_neq in E. apply E. symmetry. exact (H2 _ Hq1).
    + intros o Ho. change (st_bytmo s2) with (st_bytmo s1) in Ho.
      destruct (inv_bytmo _ _ I1 _ Ho) as [H1 H2]. split; [|exact H2].
      rewrite Ell. apply in_remove_nat. split; auto. intros ->.
      rewrite Ebt in Ho. apply in_remove_nat in Ho. tauto.
    + intros co c o H1 H2. destruct (inv_connq _ _ I1 _ _ _ H1 H2) as [H3 H4]. split; [|exact H4].
      rewrite Ell. apply in_remove_nat. split; auto. intros ->.
      destruct H4 as [q' [H4 H5]]. rewrite Hq1 in H4. inversion H4; subst. discriminate.
    + exact (inv_conns _ _ I1).
    + exact (inv_closed _ _ I1).
    + rewrite Ech2. split; auto. intros o Ho. apply Hco. apply G2. exact Ho.
    + exact HI2.
  - (* FrameD *)
    constructor.
    + intros o c H1 H2.
      assert (H2' : ~ rooted s1 o) by (rewrite Hrt1; exact H2).
      pose proof (fr_cell _ _ _ _ F1 _ _ H1 H2 (fun H => H)) as G.
      assert (H3 : forall o', ~ rooted s1 o' -> ~ rooted s2 o') by (intros o' Hn Hr; apply Hn; apply Hrt; exact Hr).
      destruct c as [q0|c0|h0|].
      * destruct G as [Ga Gb]. split; [rewrite Hcell; exact Ga|auto].
      * destruct G as [cc' [Ga [Gb Gc]]]. exists cc'. split; [rewrite Hcell; exact Ga|]. split; auto.
      * intros Hz. destruct (G Hz) as [Ga Gb]. split; [rewrite Hcell; exact Ga|auto].
      * destruct G as [Ga Gb]. split; [rewrite Hcell; exact Ga|auto].
    + intros o cc H1 H2. destruct (fr_reading _ _ _ _ F1 _ _ H1 H2) as [cc' G]. exists cc'. rewrite Hcell. exact G.
    + simpl. exact En.
    + intros o. change (host_at s2 o) with (host_at s1 o).
      destruct (sim_views s s1) as [Hv _]; auto.
      intros o'. rewrite Hc1. destruct (Nat.eqb o' qo) eqn:E.
      * apply Nat.eqb_eq in E. subst. rewrite Hq. reflexivity.
      * apply cell_sim_strip.
    + intros o. rewrite Hnr. apply nrefs_same.
      * unfold linked. rewrite El. reflexivity.
      * intros qo' _. destruct (sim_views s s1) as [_ Hv]; auto.
        intros o'. rewrite Hc1. destruct (Nat.eqb o' qo) eqn:E.
        -- apply Nat.eqb_eq in E. subst. rewrite Hq. reflexivity.
        -- apply cell_sim_strip.
    + intros o h Hs. eapply shared_lt; eauto. exact (inv_heap _ _ I).
    + unfold GivenOk. destruct (kbot (q_cb q)) as [o|] eqn:Ek; auto.
      destruct (hi_ref _ HI1 qo o Hl1 Hhrq) as [h Hs].
      exists h. split; [rewrite Hsh2; exact Hs|].
      pose proof (hi_cnt _ HI1 _ _ Hs). specialize (Hnr o). simpl in Hnr. rewrite Nat.eqb_refl in Hnr. lia.
  - (* Own s2 (cobjs (q_cb q)) and the cells *)
    split; [|intros o; rewrite Hcell; apply Hc1].
    split.
    + rewrite <- Hqc. exact G4.
    + intros o Ho. rewrite <- Hqc in Ho.
      assert (Hop : cell_of s1 o = Some COpaque).
      { apply Hco. unfold chain. apply in_flat_map. exists qo. split; auto. }
      split; [exact Hop|].
      intros [H|[H|[H|H]]].
      * rewrite Ell in H. apply in_remove_nat in H. destruct H as [H _].
        destruct (inv_query _ _ I1 _ H) as [q' Hq']. rewrite Hop in Hq'. discriminate.
      * destruct (inv_conns _ _ I1) as [_ Hcc]. destruct (Hcc _ H) as [c [Hc' _]].
        change (st_conns s2) with (st_conns s1) in H. rewrite Hop in Hc'. discriminate.
      * rewrite Ech2 in H. exact (G3 _ Ho H).
      * rewrite Eho2 in H. destruct (hi_objs _ HI1) as [_ H2]. destruct (H2 _ H) as [_ H4]. apply H4.
        unfold chain. apply in_flat_map. exists qo. split; auto.
Qed.

(* ---------------------------------------------------------------------------------- *)
(* O14: changes of st_lists that keep the concatenation (ares_cancel's list swap)       *)
(* ---------------------------------------------------------------------------------- *)
Lemma cell_sim_refl c : cell_sim c c.
Proof. destruct c as [[q|c|h|]|]; simpl; auto. Qed.

Lemma lists_same_linked x s ls :
  concat ls = linked s -> InvX x s ->
  InvX x (set_lists ls s) /\ Frame s (set_lists ls s) [] /\ chain (set_lists ls s) = chain s.
Proof.
  intros E I.
  assert (Ell : linked (set_lists ls s) = linked s) by exact E.
  assert (Hc : forall o, cell_of (set_lists ls s) o = cell_of s o) by reflexivity.
  assert (Ech : chain (set_lists ls s) = chain s).
  { apply chain_same; auto. }
  destruct (hosts_sim x s (set_lists ls s) I) as [HI' [HF' Eho]]; auto.
  { intros o. rewrite Hc. apply cell_sim_refl. }
  assert (Hr : forall o, rooted (set_lists ls s) o <-> rooted s o).
  { intros o. apply rooted_same; auto. }
  split; [|split; auto].
  - destruct I. constructor; try rewrite Ell; try rewrite Ech; auto.
  - constructor.
    + intros o c H1 H2 _. assert (H3 : ~ rooted (set_lists ls s) o) by (rewrite Hr; exact H2).
      destruct c; auto. exists c. repeat split; auto. apply incl_refl.
    + intros o cc H1 H2. exists cc. auto.
    + simpl. lia.
    + exact HF'.
Qed.

(* ---------------------------------------------------------------------------------- *)
(* connections                                                                         *)
(* ---------------------------------------------------------------------------------- *)
(* O11b/O12: a connection cell changes in its flags only (reading, closed) *)
Lemma store_conn_flags_ok x s co c c' :
  InvX x s -> cell_of s co = Some (CConn c) ->
  c_queries c' = c_queries c -> c_sock c' = c_sock c ->
  (c_closed c' = true -> ~ In co (st_conns s) /\ c_queries c = []) ->
  (In co (st_conns s) -> c_closed c' = false) ->
  let s' := store_st co (CConn c') s in
  InvX x s' /\ chain s' = chain s /\ linked s' = linked s
  /\ (forall o, o <> co -> cell_of s' o = cell_of s o) /\ cell_of s' co = Some (CConn c').
Proof.
  intros I Hc Eq Es Hcl1 Hcl2 s'.
  assert (Hsame : forall o, o <> co -> cell_of s' o = cell_of s o).
  { intros o Hne. unfold s'. rewrite cell_store. apply Nat.eqb_neq in Hne. rewrite Hne. reflexivity. }
  assert (Hco : cell_of s' co = Some (CConn c')).
  { unfold s'. rewrite cell_store, Nat.eqb_refl. reflexivity. }
  assert (Ell : linked s' = linked s) by reflexivity.
  assert (Hqs : forall o q, cell_of s o = Some (CQuery q) -> cell_of s' o = Some (CQuery q)).
  { intros o q H. rewrite Hsame; auto. intros ->. rewrite Hc in H. discriminate. }
  assert (Ech : chain s' = chain s).
  { apply chain_same; auto. intros o Ho. unfold qchain.
    destruct (inv_query _ _ I _ Ho) as [q H1]. rewrite (Hqs _ _ H1), H1. reflexivity. }
  assert (Hconn : forall o c1, cell_of s' o = Some (CConn c1) ->
            exists c0, cell_of s o = Some (CConn c0) /\ c_queries c1 = c_queries c0
                       /\ ((o = co /\ c1 = c') \/ (o <> co /\ c1 = c0))).
  { intros o c1 H. destruct (Nat.eq_dec o co) as [->|Hne].
    - rewrite Hco in H. inversion H; subst. exists c. auto.
    - rewrite Hsame in H; auto. exists c1. auto. }
  assert (Hconn' : forall o c0, cell_of s o = Some (CConn c0) ->
            exists c1, cell_of s' o = Some (CConn c1) /\ c_queries c1 = c_queries c0
                       /\ ((o = co /\ c1 = c') \/ (o <> co /\ c1 = c0))).
  { intros o c0 H. destruct (Nat.eq_dec o co) as [->|Hne].
    - rewrite Hc in H. inversion H; subst. exists c'. auto.
    - exists c0. rewrite Hsame; auto. }
  destruct (hosts_sim x s s' I) as [HI' [HF' Eho]]; auto.
  { intros o. destruct (Nat.eq_dec o co) as [->|Hne]; [rewrite Hc, Hco; reflexivity|rewrite Hsame; auto; apply cell_sim_refl]. }
  split; [|split; [exact Ech|split; [exact Ell|split; [exact Hsame|exact Hco]]]].
  constructor.
  - eapply heap_store; eauto. exact (inv_heap _ _ I).
  - rewrite Ell. exact (inv_nodup _ _ I).
  - intros o. rewrite Ell. intros Ho. destruct (inv_query _ _ I _ Ho) as [q H1]. exists q. auto.
  - intros qid o H. destruct (inv_byqid _ _ I _ _ H) as [H1 H2]. split; auto. intros q Hq. apply H2.
    destruct (inv_query _ _ I _ H1) as [q0 H3]. rewrite (Hqs _ _ H3) in Hq. inversion Hq; subst. exact H3.
  - intros o H. destruct (inv_bytmo _ _ I _ H) as [H1 [q [co1 [c1 [H2 [H3 [H4 H5]]]]]]]. split; auto.
    destruct (Hconn' _ _ H4) as [c2 [H6 [H7 _]]]. exists q, co1, c2. repeat split; auto.
    rewrite H7. exact H5.
  - intros co1 c1 o H1 H2. destruct (Hconn _ _ H1) as [c0 [H3 [H4 _]]]. rewrite H4 in H2.
    destruct (inv_connq _ _ I _ _ _ H3 H2) as [H5 [q [H6 H7]]]. split; auto. exists q. split; auto.
  - destruct (inv_conns _ _ I) as [H1 H2]. split; auto. intros co1 H. destruct (H2 _ H) as [c0 [H3 H4]].
    destruct (Hconn' _ _ H3) as [c1 [H5 [_ [[-> ->]|[_ ->]]]]]; exists c1 || idtac.
    + exists c'. split; auto.
    + exists c0. split; auto.
  - intros co1 c1 H1 H2. destruct (Hconn _ _ H1) as [c0 [H3 [H4 [[-> ->]|[Hne ->]]]]].
    + destruct (Hcl1 H2) as [H5 H6]. split; auto. congruence.
    + exact (inv_closed _ _ I _ _ H3 H2).
  - rewrite Ech. destruct (inv_chain _ _ I) as [H1 H2]. split; auto. intros o Ho. rewrite Hsame; auto.
    intros ->. rewrite (H2 _ Ho) in Hc. discriminate.
  - exact HI'.
Qed.

(* O3: a new connection (no queries yet), appended to the connection list *)
Lemma new_conn_ok x s c0 :
  InvX x s -> c_queries c0 = [] -> c_closed c0 = false ->
  let co := st_next s in
  let s' := set_conns (st_conns s ++ [co]) (alloc_st (CConn c0) s) in
  InvX x s' /\ Frame s s' [] /\ cell_of s' co = Some (CConn c0) /\ In co (st_conns s')
  /\ chain s' = chain s /\ linked s' = linked s /\ (forall o, o <> co -> cell_of s' o = cell_of s o)
  /\ st_byqid s' = st_byqid s /\ st_bytmo s' = st_bytmo s.
Proof.
  intros I Eq Ecl co s'.
  assert (Hfresh : forall o c, cell_of s o = Some c -> o <> co).
  { intros o c Hc. pose proof (live_lt _ _ _ (inv_heap _ _ I) Hc). unfold co. lia. }
  assert (Hsame : forall o, o <> co -> cell_of s' o = cell_of s o).
  { intros o Hne. unfold s'. change (cell_of (set_conns (st_conns s ++ [co]) (alloc_st (CConn c0) s)) o)
      with (cell_of (alloc_st (CConn c0) s) o). rewrite cell_alloc. apply Nat.eqb_neq in Hne. fold co. rewrite Hne. reflexivity. }
  assert (Hco : cell_of s' co = Some (CConn c0)).
  { unfold s'. change (cell_of (set_conns (st_conns s ++ [co]) (alloc_st (CConn c0) s)) co)
      with (cell_of (alloc_st (CConn c0) s) co). rewrite cell_alloc. unfold co. rewrite Nat.eqb_refl. reflexivity. }
  assert (Hold : forall o c, cell_of s o = Some c -> cell_of s' o = Some c).
  { intros o c Hc. rewrite Hsame; auto. eapply Hfresh; eauto. }
  assert (Ell : linked s' = linked s) by reflexivity.
  assert (Ech : chain s' = chain s).
  { apply chain_same; auto. intros o Ho. unfold qchain.
    destruct (inv_query _ _ I _ Ho) as [q H1]. rewrite (Hold _ _ H1), H1. reflexivity. }
  assert (Hnew : forall o c, cell_of s' o = Some c -> (o = co /\ c = CConn c0) \/ cell_of s o = Some c).
  { intros o c H. destruct (Nat.eq_dec o co) as [->|Hne].
    - rewrite Hco in H. inversion H. auto.
    - rewrite Hsame in H; auto. }
  assert (Hnotin : ~ In co (st_conns s)).
  { intros H. destruct (inv_conns _ _ I) as [_ Hc]. destruct (Hc _ H) as [c [Hc' _]]. eapply Hfresh; eauto. }
  destruct (hosts_sim x s s' I) as [HI' [HF' Eho]]; auto.
  { simpl. lia. }
  { intros o. destruct (Nat.eq_dec o co) as [->|Hne].
    - rewrite Hco. destruct (cell_of s co) as [c1|] eqn:E1; [exfalso; eapply Hfresh; eauto|reflexivity].
    - rewrite Hsame; auto. apply cell_sim_refl. }
  split; [|split; [|split; [exact Hco|split; [|split; [exact Ech|split; [exact Ell|split; [exact Hsame|split; reflexivity]]]]]]].
  - constructor.
    + apply (heap_alloc (CConn c0)). exact (inv_heap _ _ I).
    + rewrite Ell. exact (inv_nodup _ _ I).
    + intros o. rewrite Ell. intros Ho. destruct (inv_query _ _ I _ Ho) as [q H1]. exists q. auto.
    + intros qid o H. destruct (inv_byqid _ _ I _ _ H) as [H1 H2]. split; auto. intros q Hq.
      destruct (Hnew _ _ Hq) as [[_ Hx]|Hx]; [discriminate|auto].
    + intros o H. destruct (inv_bytmo _ _ I _ H) as [H1 [q [co1 [c1 [H2 [H3 [H4 H5]]]]]]]. split; auto.
      exists q, co1, c1. repeat split; auto.
    + intros co1 c1 o H1 H2. destruct (Hnew _ _ H1) as [[_ Hx]|Hx].
      * inversion Hx; subst. rewrite Eq in H2. destruct H2.
      * destruct (inv_connq _ _ I _ _ _ Hx H2) as [H3 [q [H4 H5]]]. split; auto. exists q. split; auto.
    + destruct (inv_conns _ _ I) as [H1 H2]. split.
      * simpl. apply NoDup_app_iff. repeat split; auto.
        -- constructor; [intros []|constructor].
        -- intros o Ho [Hx|[]]. subst. contradiction.
      * simpl. intros o Ho. apply in_app_or in Ho. destruct Ho as [Ho|[Ho|[]]].
        -- destruct (H2 _ Ho) as [c [H3 H4]]. exists c. split; auto.
        -- subst. exists c0. split; auto.
    + intros co1 c1 H1 H2. destruct (Hnew _ _ H1) as [[_ Hx]|Hx].
      * inversion Hx; subst. congruence.
      * destruct (inv_closed _ _ I _ _ Hx H2) as [H3 H4]. split; auto. simpl. intros Hin.
        apply in_app_or in Hin. destruct Hin as [Hin|[Hin|[]]]; auto. subst. eapply Hfresh; eauto.
    + rewrite Ech. destruct (inv_chain _ _ I) as [H1 H2]. split; auto.
    + exact HI'.
  - constructor.
    + intros o c H1 H2 _.
      assert (H3 : ~ rooted s' o).
      { intros [H|[H|[H|H]]]; apply H2.
        - left. exact H.
        - simpl in H. apply in_app_or in H. destruct H as [H|[H|[]]]; [right; left; exact H|].
          subst. exfalso. eapply Hfresh; eauto.
        - right; right; left. rewrite Ech in H. exact H.
        - right; right; right. rewrite Eho in H. exact H. }
      rewrite (Hold _ _ H1). destruct c; auto. exists c. repeat split; auto. apply incl_refl.
    + intros o cc H1 H2. exists cc. rewrite (Hold _ _ H1). auto.
    + simpl. lia.
    + exact HF'.
  - simpl. apply in_or_app. right. left. reflexivity.
Qed.

(* O10: unlink a connection from the connection list; it stays alive, owned by the closer *)
Lemma conns_remove_ok x s co :
  InvX x s ->
  let s' := set_conns (remove_nat co (st_conns s)) s in
  InvX x s' /\ Frame s s' [] /\ ~ In co (st_conns s') /\ chain s' = chain s /\ linked s' = linked s.
Proof.
  intros I s'.
  assert (Hc : forall o, cell_of s' o = cell_of s o) by reflexivity.
  assert (Ell : linked s' = linked s) by reflexivity.
  assert (Ech : chain s' = chain s) by (apply chain_same; auto).
  destruct (hosts_sim x s s' I) as [HI' [HF' Eho]]; auto.
  { intros o. rewrite Hc. apply cell_sim_refl. }
  split; [|split; [|split; [|split; auto]]].
  - destruct I. constructor; auto.
    + destruct inv_conns0 as [H1 H2]. split.
      * simpl. apply nodup_remove_nat. exact H1.
      * simpl. intros o Ho. apply in_remove_nat in Ho. destruct Ho as [Ho _]. exact (H2 _ Ho).
    + intros co1 c1 H1 H2. destruct (inv_closed0 _ _ H1 H2) as [H3 H4]. split; auto.
      simpl. intros Hin. apply in_remove_nat in Hin. tauto.
  - constructor.
    + intros o c H1 H2 _.
      assert (H3 : ~ rooted s' o).
      { intros [H|[H|[H|H]]]; apply H2.
        - left; exact H.
        - right; left. simpl in H. apply in_remove_nat in H. tauto.
        - right; right; left. rewrite Ech in H. exact H.
        - right; right; right. rewrite Eho in H. exact H. }
      destruct c; auto. exists c. repeat split; auto. apply incl_refl.
    + intros o cc H1 H2. exists cc. auto.
    + simpl. lia.
    + exact HF'.
  - simpl. intros H. apply in_remove_nat in H. tauto.
Qed.

(* O11a: release a connection that is unlinked, has no queries and is not being read *)
Lemma free_conn_ok s co c :
  Inv s -> cell_of s co = Some (CConn c) -> c_queries c = [] -> ~ In co (st_conns s) ->
  let s' := free_st co s in
  Inv s' /\ chain s' = chain s /\ linked s' = linked s /\ (forall o, o <> co -> cell_of s' o = cell_of s o).
Proof.
  intros I Hc Eq Hn s'.
  assert (Hsame : forall o, o <> co -> cell_of s' o = cell_of s o).
  { intros o Hne. unfold s'. rewrite cell_free. apply Nat.eqb_neq in Hne. rewrite Hne. reflexivity. }
  assert (Hgone : cell_of s' co = None).
  { unfold s'. rewrite cell_free, Nat.eqb_refl. reflexivity. }
  assert (Hsub : forall o c1, cell_of s' o = Some c1 -> cell_of s o = Some c1 /\ o <> co).
  { intros o c1 H. destruct (Nat.eq_dec o co) as [->|Hne].
    - rewrite Hgone in H. discriminate.
    - rewrite Hsame in H; auto. }
  assert (Ell : linked s' = linked s) by reflexivity.
  assert (Hqs : forall o q, cell_of s o = Some (CQuery q) -> cell_of s' o = Some (CQuery q)).
  { intros o q H. rewrite Hsame; auto. intros ->. rewrite Hc in H. discriminate. }
  assert (Ech : chain s' = chain s).
  { apply chain_same; auto. intros o Ho. unfold qchain.
    destruct (inv_query _ _ I _ Ho) as [q H1]. rewrite (Hqs _ _ H1), H1. reflexivity. }
  destruct (hosts_sim None s s' I) as [HI' [HF' Eho]]; auto.
  { intros o. destruct (Nat.eq_dec o co) as [->|Hne]; [rewrite Hc, Hgone; reflexivity|rewrite Hsame; auto; apply cell_sim_refl]. }
  split; [|split; [exact Ech|split; [exact Ell|exact Hsame]]].
  constructor.
  - eapply heap_free; eauto. exact (inv_heap _ _ I).
  - rewrite Ell. exact (inv_nodup _ _ I).
  - intros o. rewrite Ell. intros Ho. destruct (inv_query _ _ I _ Ho) as [q H1]. exists q. auto.
  - intros qid o H. destruct (inv_byqid _ _ I _ _ H) as [H1 H2]. split; auto. intros q Hq.
    destruct (Hsub _ _ Hq) as [Hq' _]. auto.
  - intros o H. destruct (inv_bytmo _ _ I _ H) as [H1 [q [co1 [c1 [H2 [H3 [H4 H5]]]]]]]. split; auto.
    exists q, co1, c1. destruct H5 as [H5|H5]; [discriminate|].
    assert (Hne : co1 <> co).
    { intros ->. rewrite Hc in H4. inversion H4; subst. rewrite Eq in H5. destruct H5. }
    repeat split; auto. rewrite Hsame; auto.
  - intros co1 c1 o H1 H2. destruct (Hsub _ _ H1) as [H3 _].
    destruct (inv_connq _ _ I _ _ _ H3 H2) as [H5 [q [H6 H7]]]. split; auto. exists q. split; auto.
  - destruct (inv_conns _ _ I) as [H1 H2]. split; auto. intros o Ho. destruct (H2 _ Ho) as [c1 [H3 H4]].
    exists c1. split; auto. rewrite Hsame; auto. intros ->. contradiction.
  - intros co1 c1 H1 H2. destruct (Hsub _ _ H1) as [H3 _]. exact (inv_closed _ _ I _ _ H3 H2).
  - rewrite Ech. destruct (inv_chain _ _ I) as [H1 H2]. split; auto. intros o Ho. rewrite Hsame; auto.
    intros ->. rewrite (H2 _ Ho) in Hc. discriminate.
  - exact HI'.
Qed.

From Coq Require Import Permutation.

Lemma perm_flat_map_insert (f : nat -> list nat) l1 a l2 :
  Permutation (flat_map f (l1 ++ a :: l2)) (f a ++ flat_map f (l1 ++ l2)).
Proof.
  rewrite !flat_map_app. simpl. rewrite app_assoc.
  rewrite (Permutation_app_comm (flat_map f l1) (f a)). rewrite <- app_assoc. reflexivity.
Qed.

Lemma flat_map_ext_in' {A B} (f g : A -> list B) l : (forall a, In a l -> f a = g a) -> flat_map f l = flat_map g l.
Proof.
  induction l as [|a l IH]; simpl; intros H; auto. rewrite H by (left; auto). f_equal. apply IH.
  intros b Hb. apply H. right; auto.
Qed.

Definition link_lists (qo : obj) (ls : list (list obj)) : list (list obj) :=
  match ls with [] => [[qo]] | l :: r => (l ++ [qo]) :: r end.

Lemma link_lists_split qo ls : exists l1 l2, concat ls = l1 ++ l2 /\ concat (link_lists qo ls) = l1 ++ qo :: l2.
Proof.
  destruct ls as [|l r]; simpl.
  - exists [], []. auto.
  - exists l, (concat r). split; auto. rewrite <- app_assoc. reflexivity.
Qed.

(* O2: a new query, linked into all_queries and the id table, not yet on a connection *)
Lemma new_query_ok s k qid q0 :
  Inv s -> Own s (cobjs k) -> GivenOk s (kbot k) -> lookup qid (st_byqid s) = None ->
  q_cb q0 = k -> q_qid q0 = qid -> q_conn q0 = None ->
  let qo := st_next s in
  let s' := set_byqid ((qid, qo) :: st_byqid s) (set_lists (link_lists qo (st_lists s)) (alloc_st (CQuery q0) s)) in
  Inv s' /\ FrameG (dg (kbot k)) s s' (cobjs k) /\ In qo (linked s') /\ cell_of s' qo = Some (CQuery q0)
  /\ (forall o, o <> qo -> cell_of s' o = cell_of s o)
  /\ st_conns s' = st_conns s /\ st_bytmo s' = st_bytmo s
  /\ (forall x, In x (linked s') <-> In x (linked s) \/ x = qo)
  /\ (exists l1 l2, linked s = l1 ++ l2 /\ linked s' = l1 ++ qo :: l2).
Proof.
  intros I [On Oc] Hgv Hfree Ecb Eqid Econn qo s'.
  assert (Hfresh : forall o c, cell_of s o = Some c -> o <> qo).
  { intros o c Hc. pose proof (live_lt _ _ _ (inv_heap _ _ I) Hc). unfold qo. lia. }
  assert (Hsame : forall o, o <> qo -> cell_of s' o = cell_of s o).
  { intros o Hne. change (cell_of s' o) with (cell_of (alloc_st (CQuery q0) s) o).
    rewrite cell_alloc. apply Nat.eqb_neq in Hne. fold qo. rewrite Hne. reflexivity. }
  assert (Hqo : cell_of s' qo = Some (CQuery q0)).
  { change (cell_of s' qo) with (cell_of (alloc_st (CQuery q0) s) qo). rewrite cell_alloc. unfold qo.
    rewrite Nat.eqb_refl. reflexivity. }
  assert (Hold : forall o c, cell_of s o = Some c -> cell_of s' o = Some c).
  { intros o c Hc. rewrite Hsame; auto. eapply Hfresh; eauto. }
  assert (Hnew : forall o c, cell_of s' o = Some c -> (o = qo /\ c = CQuery q0) \/ (o <> qo /\ cell_of s o = Some c)).
  { intros o c H. destruct (Nat.eq_dec o qo) as [->|Hne].
    - rewrite Hqo in H. inversion H. auto.
    - rewrite Hsame in H; auto. }
  destruct (link_lists_split qo (st_lists s)) as [l1 [l2 [E1 E2]]].
  assert (Ell : linked s' = l1 ++ qo :: l2) by exact E2.
  assert (Els : linked s = l1 ++ l2) by exact E1.
  assert (Hin : forall x, In x (linked s') <-> In x (linked s) \/ x = qo).
  { intros x. rewrite Ell, Els, !in_app_iff. simpl. split; intros H; intuition. }
  assert (Hqnl : ~ In qo (linked s)).
  { intros H. destruct (inv_query _ _ I _ H) as [q Hq]. eapply Hfresh; eauto. }
  assert (Hqc_old : forall o, In o (linked s) -> qchain s' o = qchain s o).
  { intros o Ho. unfold qchain. destruct (inv_query _ _ I _ Ho) as [q Hq]. rewrite (Hold _ _ Hq), Hq. reflexivity. }
  assert (Hqc_new : qchain s' qo = cobjs k).
  { unfold qchain. rewrite Hqo, Ecb. reflexivity. }
  assert (Pch : Permutation (chain s') (cobjs k ++ chain s)).
  { unfold chain. rewrite Ell, Els. rewrite perm_flat_map_insert, Hqc_new.
    apply Permutation_app_head. erewrite flat_map_ext_in'; [reflexivity|].
    intros o Ho. apply Hqc_old. rewrite Els. exact Ho. }
  assert (Hchin : forall o, In o (chain s') <-> In o (cobjs k) \/ In o (chain s)).
  { intros o. split; intros H.
    - apply (Permutation_in _ Pch) in H. apply in_app_or in H. exact H.
    - apply (Permutation_in _ (Permutation_sym Pch)). apply in_or_app. exact H. }
  destruct (inv_chain _ _ I) as [Cn Cc].
  (* host_query states *)
  pose proof (inv_hosts _ _ I) as HI. pose proof (inv_heap _ _ I) as Hh.
  assert (Hha : forall o, host_at s' o = host_at s o).
  { apply (host_at_upd s s' qo); auto.
    - unfold host_at. destruct (cell_of s qo) as [c|] eqn:E; auto. exfalso. eapply Hfresh; eauto.
    - unfold host_at. rewrite Hqo. reflexivity. }
  assert (Hsh : forall o, shared_at s' o = shared_at s o) by (apply shared_of_host_at; exact Hha).
  assert (Eho : hobjs s' = hobjs s) by (apply hobjs_same; auto; simpl; lia).
  assert (Hhr_old : forall o, In o (linked s) -> href s' o = href s o).
  { intros o Ho. apply href_same. destruct (inv_query _ _ I _ Ho) as [q Hq]. rewrite Hq. apply Hold. exact Hq. }
  assert (Hhr_new : href s' qo = kbot k) by (unfold href; rewrite Hqo, Ecb; reflexivity).
  assert (Hnr : forall o, nrefs s' o = nrefs s o + dg (kbot k) o).
  { intros o. unfold nrefs, refs_to. rewrite Ell, Els. rewrite !filter_app, !app_length. simpl.
    rewrite Hhr_new.
    rewrite (filter_ext_in _ (fun qo0 => match href s qo0 with Some o' => Nat.eqb o o' | None => false end) l1).
    2:{ intros a Ha. rewrite Hhr_old; auto. rewrite Els. apply in_or_app; auto. }
    rewrite (filter_ext_in _ (fun qo0 => match href s qo0 with Some o' => Nat.eqb o o' | None => false end) l2).
    2:{ intros a Ha. rewrite Hhr_old; auto. rewrite Els. apply in_or_app; auto. }
    unfold dg. destruct (kbot k) as [o'|]; [destruct (Nat.eqb o o')|]; simpl; lia. }
  assert (HI' : HostInv s').
  { constructor.
    - intros o ho Ho. apply Hin in Ho. destruct Ho as [Ho| ->].
      + rewrite (Hhr_old _ Ho), Hsh. apply (hi_ref _ HI); auto.
      + rewrite Hhr_new. intros Ek. rewrite Ek in Hgv. destruct Hgv as [h [Hs _]]. exists h. rewrite Hsh. exact Hs.
    - intros o h. rewrite Hsh, Hnr. intros Hs. pose proof (hi_cnt _ HI _ _ Hs).
      unfold dg. destruct (kbot k) as [o'|] eqn:Ek; [|lia]. destruct (Nat.eqb o o') eqn:E; [|lia].
      apply Nat.eqb_eq in E. subst o'. destruct Hgv as [h' [Hs' Hlt]]. rewrite Hs in Hs'. inversion Hs'; subst. lia.
    - intros o h. rewrite Hsh. apply (hi_nohost _ HI).
    - rewrite Eho. destruct (hi_objs _ HI) as [H1 H2]. split; auto. intros y Hy. destruct (H2 _ Hy) as [H3 H4].
      split; [apply Hold; exact H3|]. intros Hc. apply Hchin in Hc. destruct Hc as [Hc|Hc]; [|contradiction].
      destruct (Oc _ Hc) as [_ Hr]. apply Hr. right; right; right. exact Hy. }
  assert (HF' : HFrame (dg (kbot k)) s s').
  { constructor.
    - intros o h Hs Hd. destruct (shared_host _ _ _ Hs) as [Hc Hp]. pose proof (Hold _ _ Hc) as Hc'. split; [eauto|].
      intros h' Hh'. rewrite Hc' in Hh'. inversion Hh'; subst h'. rewrite Hnr. repeat split; auto. lia.
    - intros o h' Ho Hc. destruct (Hnew _ _ Hc) as [[_ Hx]|[_ Hx]]; [discriminate|].
      pose proof (live_lt _ _ _ Hh Hx). lia.
    - intros o h' _ Hc. destruct (Hnew _ _ Hc) as [[_ Hx]|[_ Hx]]; [discriminate|]. eauto.
    - intros o h Hs. eapply shared_lt; eauto. }
  split; [|split; [|split; [|split; [exact Hqo|split; [exact Hsame|split; [reflexivity|split; [reflexivity|split; [exact Hin|exists l1, l2; auto]]]]]]]].
  - constructor.
    + apply (heap_alloc (CQuery q0)). exact (inv_heap _ _ I).
    + rewrite Ell. pose proof (inv_nodup _ _ I) as Hn. rewrite Els in Hn.
      apply NoDup_app_iff in Hn. destruct Hn as [H1 [H2 H3]]. apply NoDup_app_iff. repeat split; auto.
      * constructor; auto. intros H. apply Hqnl. rewrite Els. apply in_or_app; auto.
      * intros y Hy [<-|Hy']; [|exact (H3 _ Hy Hy')]. apply Hqnl. rewrite Els. apply in_or_app; auto.
    + intros o Ho. apply Hin in Ho. destruct Ho as [Ho| ->].
      * destruct (inv_query _ _ I _ Ho) as [q H1]. exists q. auto.
      * exists q0. exact Hqo.
    + intros qid' o H. simpl in H. destruct (Nat.eqb qid' qid) eqn:E.
      * inversion H; subst. apply Nat.eqb_eq in E. subst qid'. split; [apply Hin; auto|].
        intros q Hq. rewrite Hqo in Hq. inversion Hq; subst. reflexivity.
      * destruct (inv_byqid _ _ I _ _ H) as [H1 H2]. split; [apply Hin; auto|].
        intros q Hq. destruct (Hnew _ _ Hq) as [[-> _]|[_ Hq']]; [contradiction|auto].
    + intros o H. destruct (inv_bytmo _ _ I _ H) as [H1 [q [co [c [H2 [H3 [H4 H5]]]]]]].
      split; [apply Hin; auto|]. exists q, co, c. repeat split; auto.
    + intros co c o H1 H2. destruct (Hnew _ _ H1) as [[_ Hx]|[_ Hx]]; [discriminate|].
      destruct (inv_connq _ _ I _ _ _ Hx H2) as [H3 [q [H4 H5]]]. split; [apply Hin; auto|]. exists q. split; auto.
    + destruct (inv_conns _ _ I) as [H1 H2]. split; auto. intros co Hco. destruct (H2 _ Hco) as [c [H3 H4]].
      exists c. split; auto.
    + intros co c H1 H2. destruct (Hnew _ _ H1) as [[_ Hx]|[_ Hx]]; [discriminate|].
      exact (inv_closed _ _ I _ _ Hx H2).
    + split.
      * apply (Permutation_NoDup (Permutation_sym Pch)). apply NoDup_app_iff. repeat split; auto.
        intros o Ho Ho'. destruct (Oc _ Ho) as [_ Hr]. apply Hr. right; right; left. exact Ho'.
      * intros o Ho. apply Hchin in Ho. destruct Ho as [Ho|Ho].
        -- destruct (Oc _ Ho) as [Hc _]. auto.
        -- auto.
    + exact HI'.
  - constructor.
    + intros o c H1 H2 H3.
      assert (H4 : ~ rooted s' o).
      { intros [H|[H|[H|H]]].
        - apply Hin in H. destruct H as [H| ->]; [apply H2; left; exact H|]. eapply Hfresh; eauto.
        - apply H2. right; left. exact H.
        - apply Hchin in H. destruct H as [H|H]; [contradiction|]. apply H2. right; right; left. exact H.
        - apply H2. right; right; right. rewrite Eho in H. exact H. }
      rewrite (Hold _ _ H1). destruct c; auto. exists c. repeat split; auto. apply incl_refl.
    + intros o cc H1 H2. exists cc. rewrite (Hold _ _ H1). auto.
    + simpl. lia.
    + exact HF'.
  - apply Hin. auto.
Qed.

(* O4: the query is put on a connection's list and into the timeout list (extensional in the
   resulting state) *)
Lemma attach_ext s s' qo q co c q' :
  Inv s -> In qo (linked s) -> cell_of s qo = Some (CQuery q) -> cell_of s co = Some (CConn c) -> c_closed c = false ->
  In co (st_conns s) ->
  q_cb q' = q_cb q -> q_qid q' = q_qid q -> q_conn q' = Some co ->
  heap_ok s' -> st_lists s' = st_lists s -> st_byqid s' = st_byqid s -> st_conns s' = st_conns s ->
  st_scripts s' = st_scripts s -> st_next s <= st_next s' ->
  st_bytmo s' = remove_nat qo (st_bytmo s) ++ [qo] ->
  (forall o, cell_of s' o =
     if Nat.eqb o qo then Some (CQuery q')
     else if Nat.eqb o co then Some (CConn (set_c_queries (remove_nat qo (c_queries c) ++ [qo]) c))
     else option_map (strip qo) (cell_of s o)) ->
  Inv s' /\ Frame s s' [] /\ chain s' = chain s /\ linked s' = linked s.
Proof.
  intros I Hl Hq Hc Hncl Hcin Ecb Eqid Econn Hh El Eb Eco Esc Hnx Ebt Hcell.
  assert (Hne : co <> qo) by (intros ->; rewrite Hq in Hc; discriminate).
  assert (Ell : linked s' = linked s) by (unfold linked; rewrite El; reflexivity).
  assert (Hquery : forall o q0, cell_of s o = Some (CQuery q0) ->
            cell_of s' o = Some (CQuery (if Nat.eqb o qo then q' else q0))).
  { intros o q0 H. rewrite Hcell. destruct (Nat.eqb o qo) eqn:E; auto.
    destruct (Nat.eqb o co) eqn:E2.
    - apply Nat.eqb_eq in E2. subst. rewrite Hc in H. discriminate.
    - rewrite H. reflexivity. }
  assert (Hconn : forall o c1, cell_of s' o = Some (CConn c1) <->
            exists c0, cell_of s o = Some (CConn c0) /\
                       c1 = set_c_queries (remove_nat qo (c_queries c0) ++ (if Nat.eqb o co then [qo] else [])) c0).
  { intros o c1. rewrite Hcell. destruct (Nat.eqb o qo) eqn:E.
    - apply Nat.eqb_eq in E. subst. rewrite Hq. split; [discriminate|]. intros [c0 [H _]]. discriminate.
    - destruct (Nat.eqb o co) eqn:E2.
      + apply Nat.eqb_eq in E2. subst. rewrite Hc. split.
        * intros H. inversion H. exists c. auto.
        * intros [c0 [H1 H2]]. inversion H1; subst. reflexivity.
      + destruct (cell_of s o) as [[q0|c0|h0|]|]; simpl; split; try discriminate;
          try (intros [c2 [H _]]; discriminate).
        * intros H. inversion H. exists c0. rewrite app_nil_r. auto.
        * intros [c2 [H1 H2]]. inversion H1; subst. rewrite app_nil_r. reflexivity. }
  assert (Ech : chain s' = chain s).
  { apply chain_same; auto. intros o Ho. unfold qchain.
    destruct (inv_query _ _ I _ Ho) as [q0 H1]. rewrite (Hquery _ _ H1), H1.
    destruct (Nat.eqb o qo) eqn:E; auto. apply Nat.eqb_eq in E. subst. rewrite Hq in H1. inversion H1; subst.
    rewrite Ecb. reflexivity. }
  destruct (hosts_sim None s s' I) as [HI' [HF' Eho]]; auto.
  { intros o. rewrite Hcell. destruct (Nat.eqb o qo) eqn:E.
    - apply Nat.eqb_eq in E. subst. rewrite Hq. exact Ecb.
    - destruct (Nat.eqb o co) eqn:E2.
      + apply Nat.eqb_eq in E2. subst. rewrite Hc. exact Logic.I.
      + apply cell_sim_strip. }
  assert (Hr : forall o, rooted s' o <-> rooted s o).
  { intros o. apply rooted_same; auto. }
  split; [|split; [|split; auto]].
  - constructor.
    + exact Hh.
    + rewrite Ell. exact (inv_nodup _ _ I).
    + intros o. rewrite Ell. intros Ho. destruct (inv_query _ _ I _ Ho) as [q0 H1].
      rewrite (Hquery _ _ H1). eexists. reflexivity.
    + intros qid o H. rewrite Eb in H. destruct (inv_byqid _ _ I _ _ H) as [H1 H2]. rewrite Ell. split; auto.
      intros q1 H3. destruct (inv_query _ _ I _ H1) as [q0 H4]. rewrite (Hquery _ _ H4) in H3.
      inversion H3; subst. destruct (Nat.eqb o qo) eqn:E; auto.
      apply Nat.eqb_eq in E. subst. rewrite Hq in H4. inversion H4; subst. rewrite Eqid. apply H2. exact Hq.
    + intros o Ho. rewrite Ebt in Ho. rewrite Ell. apply in_app_or in Ho. destruct Ho as [Ho|[<-|[]]].
      * apply in_remove_nat in Ho. destruct Ho as [Ho Hno].
        destruct (inv_bytmo _ _ I _ Ho) as [H1 [q0 [co1 [c1 [H2 [H3 [H4 H5]]]]]]]. split; auto.
        destruct H5 as [H5|H5]; [discriminate|].
        exists q0, co1. eexists. rewrite (Hquery _ _ H2). apply Nat.eqb_neq in Hno as Hno'. rewrite Hno'.
        split; [reflexivity|]. split; [exact H3|]. split.
        -- apply Hconn. exists c1. split; [exact H4|reflexivity].
        -- right. simpl. apply in_or_app. left. apply in_remove_nat. split; auto.
      * split; auto. exists q', co. eexists. rewrite (Hquery _ _ Hq), Nat.eqb_refl.
        split; [reflexivity|]. split; [exact Econn|]. split.
        -- apply Hconn. exists c. split; [exact Hc|reflexivity].
        -- right. simpl. rewrite Nat.eqb_refl. apply in_or_app. right. left. reflexivity.
    + intros co1 c1 o H1 H2. apply Hconn in H1. destruct H1 as [c0 [H1 ->]]. simpl in H2. rewrite Ell.
      apply in_app_or in H2. destruct H2 as [H2|H2].
      * apply in_remove_nat in H2. destruct H2 as [H2 Hno].
        destruct (inv_connq _ _ I _ _ _ H1 H2) as [H3 [q0 [H4 H5]]]. split; auto.
        rewrite (Hquery _ _ H4). apply Nat.eqb_neq in Hno. rewrite Hno. eauto.
      * destruct (Nat.eqb co1 co) eqn:E; [|destruct H2]. destruct H2 as [<-|[]].
        apply Nat.eqb_eq in E. subst. split; auto. rewrite (Hquery _ _ Hq), Nat.eqb_refl. eauto.
    + rewrite Eco. destruct (inv_conns _ _ I) as [H1 H2]. split; auto. intros co1 Hco.
      destruct (H2 _ Hco) as [c1 [H3 H4]]. eexists. split; [apply Hconn; exists c1; split; [exact H3|reflexivity]|exact H4].
    + intros co1 c1 H1 H2. apply Hconn in H1. destruct H1 as [c0 [H1 ->]]. simpl in H2. rewrite Eco.
      destruct (inv_closed _ _ I _ _ H1 H2) as [H4 H5]. split; auto. simpl. rewrite H5. simpl.
      destruct (Nat.eqb co1 co) eqn:E; auto. apply Nat.eqb_eq in E. subst. rewrite Hc in H1. inversion H1; subst. congruence.
    + rewrite Ech. destruct (inv_chain _ _ I) as [H1 H2]. split; auto. intros o Ho. rewrite Hcell.
      destruct (Nat.eqb o qo) eqn:E.
      * apply Nat.eqb_eq in E. subst. rewrite (H2 _ Ho) in Hq. discriminate.
      * destruct (Nat.eqb o co) eqn:E2.
        -- apply Nat.eqb_eq in E2. subst. rewrite (H2 _ Ho) in Hc. discriminate.
        -- rewrite (H2 _ Ho). reflexivity.
    + exact HI'.
  - constructor.
    + intros o c1 H1 H2 _.
      assert (Hn1 : Nat.eqb o qo = false) by (apply Nat.eqb_neq; intros ->; apply H2; left; exact Hl).
      assert (H3 : ~ rooted s' o) by (rewrite Hr; exact H2).
      destruct c1 as [q0|c0|h0|].
      * split; auto. rewrite (Hquery _ _ H1), Hn1. reflexivity.
      * eexists. split; [apply Hconn; exists c0; split; [exact H1|reflexivity]|]. simpl. repeat split; auto.
        intros y Hy. apply in_app_or in Hy. destruct Hy as [Hy|Hy].
        -- apply in_remove_nat in Hy. tauto.
        -- destruct (Nat.eqb o co) eqn:E; [|destruct Hy]. apply Nat.eqb_eq in E. subst.
           exfalso. apply H2. right; left. exact Hcin.
      * intros _. split; auto. rewrite Hcell, Hn1. destruct (Nat.eqb o co) eqn:E.
        -- apply Nat.eqb_eq in E. subst. rewrite Hc in H1. discriminate.
        -- rewrite H1. reflexivity.
      * split; auto. rewrite Hcell, Hn1. destruct (Nat.eqb o co) eqn:E.
        -- apply Nat.eqb_eq in E. subst. rewrite Hc in H1. discriminate.
        -- rewrite H1. reflexivity.
    + intros o cc H1 H2. eexists. split; [apply Hconn; exists cc; split; [exact H1|reflexivity]|]. simpl. auto.
    + exact Hnx.
    + exact HF'.
Qed.

(* objects named in a frame that were rooted before need not be named *)
Lemma frame_shrink g s s' L :
  FrameG g s s' L -> (forall x c, In x L -> cell_of s x = Some c -> rooted s x) -> FrameG g s s' [].
Proof.
  intros F H. constructor.
  - intros x c Hc Hr _. apply (fr_cell _ _ _ _ F _ _ Hc Hr). intros Hin. apply Hr. eapply H; eauto.
  - exact (fr_reading _ _ _ _ F).
  - exact (fr_next _ _ _ _ F).
  - exact (fr_hosts _ _ _ _ F).
Qed.

Lemma chain_of_linked s qo q : In qo (linked s) -> cell_of s qo = Some (CQuery q) -> incl (cobjs (q_cb q)) (chain s).
Proof.
  intros Hl Hq o Ho. unfold chain. apply in_flat_map. exists qo. split; auto. unfold qchain. rewrite Hq. exact Ho.
Qed.

(* frames for the connection operations *)
Lemma free_conn_frame s co c :
  Inv s -> cell_of s co = Some (CConn c) -> c_queries c = [] -> ~ In co (st_conns s) -> c_reading c = false ->
  Frame s (free_st co s) [co].
Proof.
  intros I Hc Eq Hn Hr.
  destruct (free_conn_ok s co c I Hc Eq Hn) as [_ [Ech [Ell Hsame]]].
  destruct (hosts_sim None s (free_st co s) I) as [_ [HF' Eho]]; auto.
  { intros o. destruct (Nat.eq_dec o co) as [->|Hne]; [|rewrite Hsame; auto; apply cell_sim_refl].
    rewrite Hc, cell_free, Nat.eqb_refl. exact Logic.I. }
  constructor.
  - intros o c1 H1 H2 H3. assert (Hne : o <> co) by (intros ->; apply H3; left; auto).
    assert (H4 : ~ rooted (free_st co s) o).
    { rewrite (rooted_same s (free_st co s)); auto. }
    rewrite (Hsame _ Hne). destruct c1; auto. exists c0. repeat split; auto. apply incl_refl.
  - intros o cc H1 H2. assert (Hne : o <> co) by (intros ->; rewrite Hc in H1; inversion H1; subst; congruence).
    exists cc. rewrite (Hsame _ Hne). auto.
  - simpl. lia.
  - exact HF'.
Qed.

Lemma store_conn_frame x s co c c' :
  InvX x s -> cell_of s co = Some (CConn c) ->
  c_queries c' = c_queries c -> c_sock c' = c_sock c -> c_reading c' = c_reading c ->
  (c_closed c' = true -> ~ In co (st_conns s) /\ c_queries c = []) ->
  (In co (st_conns s) -> c_closed c' = false) ->
  Frame s (store_st co (CConn c') s) [co].
Proof.
  intros I Hc Eq Es Er H1 H2.
  destruct (store_conn_flags_ok x s co c c' I Hc Eq Es H1 H2) as [_ [Ech [Ell [Hsame Hco]]]].
  destruct (hosts_sim x s (store_st co (CConn c') s) I) as [_ [HF' Eho]]; auto.
  { intros o. destruct (Nat.eq_dec o co) as [->|Hne]; [rewrite Hc, Hco; exact Logic.I|rewrite Hsame; auto; apply cell_sim_refl]. }
  constructor.
  - intros o c1 G1 G2 G3. assert (Hne : o <> co) by (intros ->; apply G3; left; auto).
    assert (G4 : ~ rooted (store_st co (CConn c') s) o).
    { rewrite (rooted_same s (store_st co (CConn c') s)); auto. }
    rewrite (Hsame _ Hne). destruct c1; auto. exists c0. repeat split; auto. apply incl_refl.
  - intros o cc G1 G2. destruct (Nat.eq_dec o co) as [->|Hne].
    + rewrite Hc in G1. inversion G1; subst. exists c'. rewrite Hco. repeat split; auto. congruence.
    + exists cc. rewrite (Hsame _ Hne). auto.
  - simpl. lia.
  - exact HF'.
Qed.

Lemma find_conn_by_sock_ok x s sock :
  InvX x s ->
  exists r, find_conn_by_sock sock s = Ok (r, s)
    /\ (forall co, r = Some co -> In co (st_conns s) /\ exists c, cell_of s co = Some (CConn c) /\ c_closed c = false).
Proof.
  intros I. unfold find_conn_by_sock. eexists. split; [reflexivity|].
  intros co H. apply find_some in H. destruct H as [H1 H2]. split; auto.
  destruct (inv_conns _ _ I) as [_ Hc]. exact (Hc _ H1).
Qed.

Lemma attach_run s qo q co c tcp :
  Inv s -> In qo (linked s) -> cell_of s qo = Some (CQuery q) ->
  In co (st_conns s) -> cell_of s co = Some (CConn c) -> c_closed c = false ->
  exists s', attach_frag qo co tcp s = Ok (tt, s') /\ Inv s' /\ Frame s s' []
    /\ linked s' = linked s /\ st_conns s' = st_conns s /\ st_tape s' = st_tape s
    /\ st_scripts s' = st_scripts s /\ st_byqid s' = st_byqid s /\ st_trace s' = st_trace s
    /\ (forall o q0, cell_of s o = Some (CQuery q0) ->
          exists q1, cell_of s' o = Some (CQuery q1) /\ q_cb q1 = q_cb q0)
    /\ (forall o, cell_sim (cell_of s o) (cell_of s' o)).
Proof.
  intros I Hl Hq Hin Hc Hncl.
  pose proof (inv_heap _ _ I) as Hh.
  assert (Hne : co <> qo) by (intros ->; rewrite Hq in Hc; discriminate).
  unfold attach_frag.
  set (s1 := set_bytmo (remove_nat qo (st_bytmo s) ++ [qo]) s).
  assert (E1 : modify (fun s0 => set_bytmo (remove_nat qo (st_bytmo s0) ++ [qo]) s0) s = Ok (tt, s1)) by reflexivity.
  rewrite (mbind_run _ _ _ _ _ E1).
  assert (Hh1 : heap_ok s1) by exact Hh.
  destruct (unlink_run_gen s1 qo Hh1) as [cells' [E2 Hc2]].
  { intros co1 c1 co2 c2 H1 H2 H3 H4. eapply (conn_of_query_unique None s); eauto. }
  rewrite (mbind_run _ _ _ _ _ E2).
  set (s2 := set_cells cells' s1) in *.
  assert (Hcell2 : forall o, cell_of s2 o = option_map (strip qo) (cell_of s o)) by exact Hc2.
  assert (Hh2 : heap_ok s2).
  { destruct Hh as [Ha Hb]. split.
    - intros o c0 H. rewrite Hcell2 in H. destruct (cell_of s o) as [c1|] eqn:Ho; simpl in H; [|discriminate].
      exact (Ha _ _ Ho).
    - exact Hb. }
  set (c2 := set_c_queries (remove_nat qo (c_queries c)) c).
  assert (Hco2 : cell_of s2 co = Some (CConn c2)) by (rewrite Hcell2, Hc; reflexivity).
  assert (E3 : get_conn co s2 = Ok (c2, s2)).
  { unfold get_conn, mbind. rewrite (touch_run _ _ _ Hh2 Hco2). reflexivity. }
  set (c3 := set_c_queries (remove_nat qo (c_queries c) ++ [qo]) c).
  assert (E4 : (let! c0 := get_conn co in store co (CConn (set_c_queries (c_queries c0 ++ [qo]) c0))) s2
               = Ok (tt, store_st co (CConn c3) s2)).
  { rewrite (mbind_run _ _ _ _ _ E3). rewrite (store_run _ _ _ _ Hh2 Hco2). reflexivity. }
  rewrite (mbind_run _ _ _ _ _ E4).
  set (s3 := store_st co (CConn c3) s2).
  assert (Hh3 : heap_ok s3) by (eapply heap_store; eauto).
  assert (Hq3 : cell_of s3 qo = Some (CQuery q)).
  { unfold s3. rewrite cell_store. apply Nat.eqb_neq in Hne. rewrite Nat.eqb_sym, Hne. rewrite Hcell2, Hq. reflexivity. }
  assert (E5 : get_query qo s3 = Ok (q, s3)).
  { unfold get_query, mbind. rewrite (touch_run _ _ _ Hh3 Hq3). reflexivity. }
  rewrite (mbind_run _ _ _ _ _ E5).
  set (q' := set_q_conn (Some co) (set_q_tcp tcp q)).
  rewrite (store_run _ _ _ (CQuery q') Hh3 Hq3).
  set (s4 := store_st qo (CQuery q') s3).
  exists s4. split; [reflexivity|].
  destruct (attach_ext s s4 qo q co c q' I Hl Hq Hc Hncl Hin) as [I4 [F4 [_ Ell]]]; try reflexivity.
  - eapply heap_store; eauto.
  - intros o. unfold s4. rewrite cell_store. destruct (Nat.eqb o qo) eqn:E; auto.
    unfold s3. rewrite cell_store. destruct (Nat.eqb o co) eqn:E'; auto.
  - split; [exact I4|]. split; [exact F4|]. split; [exact Ell|]. repeat (split; [reflexivity|]). split.
    + intros o q0 Ho. unfold s4. rewrite cell_store. destruct (Nat.eqb o qo) eqn:E.
      * apply Nat.eqb_eq in E. subst. rewrite Hq in Ho. inversion Ho; subst. exists q'. auto.
      * unfold s3. rewrite cell_store. destruct (Nat.eqb o co) eqn:E'.
        -- apply Nat.eqb_eq in E'. subst. rewrite Hc in Ho. discriminate.
        -- exists q0. rewrite Hcell2, Ho. auto.
    + intros o. unfold s4. rewrite cell_store. destruct (Nat.eqb o qo) eqn:E.
      * apply Nat.eqb_eq in E. subst. rewrite Hq. reflexivity.
      * unfold s3. rewrite cell_store. destruct (Nat.eqb o co) eqn:E'.
        -- apply Nat.eqb_eq in E'. subst. rewrite Hc. exact Logic.I.
        -- rewrite Hcell2. apply cell_sim_strip.
Qed.

Lemma frame_restrict g s s' L L' :
  FrameG g s s' L -> (forall x c, In x L -> ~ In x L' -> cell_of s x = Some c -> rooted s x) -> FrameG g s s' L'.
Proof.
  intros F H. constructor.
  - intros x c Hc Hr Hn. apply (fr_cell _ _ _ _ F _ _ Hc Hr). intros Hin. apply Hr. eapply H; eauto.
  - exact (fr_reading _ _ _ _ F).
  - exact (fr_next _ _ _ _ F).
  - exact (fr_hosts _ _ _ _ F).
Qed.

Lemma fresh_dead x s : InvX x s -> cell_of s (st_next s) = None.
Proof.
  intros I. destruct (cell_of s (st_next s)) eqn:E; auto.
  pose proof (live_lt _ _ _ (inv_heap _ _ I) E). lia.
Qed.

(* O13: process_answer takes the answered query off its connection's list before deciding what
   to do with it; until then the query is exempt from the timeout-list clause *)
Lemma conn_drop_query_ok s co c qo :
  Inv s -> cell_of s co = Some (CConn c) ->
  let c' := set_c_queries (remove_nat qo (c_queries c)) c in
  let s' := store_st co (CConn c') s in
  InvX (Some qo) s' /\ linked s' = linked s /\ cell_of s' co = Some (CConn c')
  /\ (forall o, o <> co -> cell_of s' o = cell_of s o).
Proof.
  intros I Hc c' s'.
  assert (Hsame : forall o, o <> co -> cell_of s' o = cell_of s o).
  { intros o Hne. unfold s'. rewrite cell_store. apply Nat.eqb_neq in Hne. rewrite Hne. reflexivity. }
  assert (Hco : cell_of s' co = Some (CConn c')).
  { unfold s'. rewrite cell_store, Nat.eqb_refl. reflexivity. }
  assert (Ell : linked s' = linked s) by reflexivity.
  assert (Hqs : forall o q, cell_of s o = Some (CQuery q) -> cell_of s' o = Some (CQuery q)).
  { intros o q H. rewrite Hsame; auto. intros ->. rewrite Hc in H. discriminate. }
  assert (Ech : chain s' = chain s).
  { apply chain_same; auto. intros o Ho. unfold qchain.
    destruct (inv_query _ _ I _ Ho) as [q H1]. rewrite (Hqs _ _ H1), H1. reflexivity. }
  assert (Hconn : forall o c1, cell_of s' o = Some (CConn c1) ->
            exists c0, cell_of s o = Some (CConn c0) /\ c_closed c1 = c_closed c0
                       /\ (forall y, In y (c_queries c1) -> In y (c_queries c0))
                       /\ (forall y, In y (c_queries c0) -> y <> qo -> In y (c_queries c1))).
  { intros o c1 H. destruct (Nat.eq_dec o co) as [->|Hne].
    - rewrite Hco in H. inversion H; subst. exists c. repeat split; auto.
      + intros y Hy. simpl in Hy. apply in_remove_nat in Hy. tauto.
      + intros y Hy Hn. simpl. apply in_remove_nat. auto.
    - rewrite Hsame in H; auto. exists c1. repeat split; auto. }
  assert (Hconn' : forall o c0, cell_of s o = Some (CConn c0) ->
            exists c1, cell_of s' o = Some (CConn c1) /\ c_closed c1 = c_closed c0
                       /\ (forall y, In y (c_queries c0) -> y <> qo -> In y (c_queries c1))).
  { intros o c0 H. destruct (Nat.eq_dec o co) as [->|Hne].
    - rewrite Hc in H. inversion H; subst. exists c'. repeat split; auto.
      intros y Hy Hn. simpl. apply in_remove_nat. auto.
    - exists c0. rewrite Hsame; auto. }
  destruct (hosts_sim None s s' I) as [HI' _]; auto.
  { intros o. destruct (Nat.eq_dec o co) as [->|Hne]; [rewrite Hc, Hco; exact Logic.I|rewrite Hsame; auto; apply cell_sim_refl]. }
  split; [|split; [exact Ell|split; [exact Hco|exact Hsame]]].
  constructor.
  - eapply heap_store; eauto. exact (inv_heap _ _ I).
  - rewrite Ell. exact (inv_nodup _ _ I).
  - intros o. rewrite Ell. intros Ho. destruct (inv_query _ _ I _ Ho) as [q H1]. exists q. auto.
  - intros qid o H. destruct (inv_byqid _ _ I _ _ H) as [H1 H2]. split; auto. intros q Hq. apply H2.
    destruct (inv_query _ _ I _ H1) as [q0 H3]. rewrite (Hqs _ _ H3) in Hq. inversion Hq; subst. exact H3.
  - intros o H. destruct (inv_bytmo _ _ I _ H) as [H1 [q [co1 [c1 [H2 [H3 [H4 H5]]]]]]]. split; auto.
    destruct (Hconn' _ _ H4) as [c2 [H6 [_ H7]]]. exists q, co1, c2. repeat split; auto.
    destruct H5 as [H5|H5]; [discriminate|].
    destruct (Nat.eq_dec o qo) as [->|Hne]; [left; reflexivity|right; auto].
  - intros co1 c1 o H1 H2. destruct (Hconn _ _ H1) as [c0 [H3 [_ [H4 _]]]].
    destruct (inv_connq _ _ I _ _ _ H3 (H4 _ H2)) as [H5 [q [H6 H7]]]. split; auto. exists q. split; auto.
  - destruct (inv_conns _ _ I) as [H1 H2]. split; auto. intros co1 H. destruct (H2 _ H) as [c0 [H3 H4]].
    destruct (Hconn' _ _ H3) as [c1 [H5 [H6 _]]]. exists c1. split; auto. congruence.
  - intros co1 c1 H1 H2. destruct (Hconn _ _ H1) as [c0 [H3 [H4 [H5 _]]]]. rewrite H4 in H2.
    destruct (inv_closed _ _ I _ _ H3 H2) as [H7 H8]. split; auto.
    destruct (c_queries c1) as [|y l] eqn:E; auto. exfalso.
    assert (Hy : In y (c_queries c0)) by (apply H5; left; auto). rewrite H8 in Hy. destruct Hy.
  - rewrite Ech. destruct (inv_chain _ _ I) as [H1 H2]. split; auto. intros o Ho. rewrite Hsame; auto.
    intros ->. rewrite (H2 _ Ho) in Hc. discriminate.
  - exact HI'.
Qed.

(* ---------------------------------------------------------------------------------- *)
(* host_query cells                                                                    *)
(* ---------------------------------------------------------------------------------- *)
Lemma hobjs_upd s s' o :
  o < st_next s -> st_next s' = st_next s ->
  (forall o', o' <> o -> shared_at s' o' = shared_at s o') ->
  exists A B, hobjs s = A ++ hcb_objs s o ++ B /\ hobjs s' = A ++ hcb_objs s' o ++ B.
Proof.
  intros Ho En Hs.
  exists (flat_map (hcb_objs s) (seq 0 o)), (flat_map (hcb_objs s) (seq (S o) (st_next s - S o))).
  assert (Eseq : seq 0 (st_next s) = seq 0 o ++ o :: seq (S o) (st_next s - S o)).
  { replace (st_next s) with (o + S (st_next s - S o)) at 1 by lia. rewrite seq_app. reflexivity. }
  split.
  - unfold hobjs. rewrite Eseq, flat_map_app. reflexivity.
  - unfold hobjs. rewrite En, Eseq, flat_map_app. simpl. f_equal; [|f_equal].
    + apply flat_map_ext_in'. intros a Ha. apply in_seq in Ha. unfold hcb_objs. rewrite Hs; auto. lia.
    + apply flat_map_ext_in'. intros a Ha. apply in_seq in Ha. unfold hcb_objs. rewrite Hs; auto. lia.
Qed.

Lemma nrefs_zero s o qo : nrefs s o = 0 -> In qo (linked s) -> href s qo <> Some o.
Proof.
  unfold nrefs, refs_to. intros Hz Hin He.
  assert (Hf : In qo (filter (fun qo0 => match href s qo0 with Some o' => Nat.eqb o o' | None => false end) (linked s))).
  { apply filter_In. split; auto. rewrite He. apply Nat.eqb_refl. }
  destruct (filter _ (linked s)); [destruct Hf|discriminate].
Qed.

Lemma nrefs_unshared x s o : InvX x s -> shared_at s o = None -> nrefs s o = 0.
Proof.
  intros I Hs. unfold nrefs, refs_to.
  rewrite (filter_ext_in _ (fun _ => false)); [induction (linked s); simpl; auto|].
  intros qo Hq. destruct (href s qo) as [o'|] eqn:E; auto. destruct (Nat.eqb o o') eqn:E'; auto.
  apply Nat.eqb_eq in E'. subst o'. destruct (hi_ref _ (inv_hosts _ _ I) _ _ Hq E) as [h Hh]. congruence.
Qed.

(* common part: a change of the cell at a host_query object *)
Lemma host_cell_upd x s s' o :
  InvX x s -> heap_ok s' -> (exists h, cell_of s o = Some (CHost h)) \/ o = st_next s ->
  st_lists s' = st_lists s -> st_byqid s' = st_byqid s -> st_bytmo s' = st_bytmo s -> st_conns s' = st_conns s ->
  (forall o', o' <> o -> cell_of s' o' = cell_of s o') ->
  (forall c, cell_of s' o <> Some (CConn c)) ->
  HostInv s' ->
  InvX x s' /\ chain s' = chain s /\ linked s' = linked s.
Proof.
  intros I Hh Ho El Eq Et Ec Hsame Hnc HI'.
  assert (Hnr : ~ (In o (linked s) \/ In o (st_conns s) \/ In o (chain s))).
  { intros H. destruct Ho as [[h Hc]| ->].
    - apply (host_unrooted _ _ _ _ I Hc). destruct H as [H|[H|H]]; [left|right; left|right; right; left]; exact H.
    - apply (fresh_unrooted _ _ I). destruct H as [H|[H|H]]; [left|right; left|right; right; left]; exact H. }
  apply inv_cells_irrelevant_gen; auto.
  - intros o' H. apply Hsame. intros ->. contradiction.
  - intros o' c. destruct (Nat.eq_dec o' o) as [->|Hne].
    + split; intros H; [exfalso; eapply Hnc; eauto|].
      destruct Ho as [[h Hc]| ->]; [congruence|]. pose proof (live_lt _ _ _ (inv_heap _ _ I) H). lia.
    + rewrite Hsame; auto. tauto.
Qed.

(* the host_query of a new request: not yet waiting for anything *)
Lemma alloc_host_ok x s h0 :
  InvX x s -> h_remaining h0 = 0 ->
  let o := st_next s in
  let s' := alloc_st (CHost h0) s in
  InvX x s' /\ cell_of s' o = Some (CHost h0) /\ (forall o', o' <> o -> cell_of s' o' = cell_of s o')
  /\ linked s' = linked s /\ (forall y, rooted s' y <-> rooted s y)
  /\ (forall o', shared_at s' o' = shared_at s o') /\ (forall o', nrefs s' o' = nrefs s o').
Proof.
  intros I Hz o s'.
  assert (Hsame : forall o', o' <> o -> cell_of s' o' = cell_of s o').
  { intros o' Hne. unfold s'. rewrite cell_alloc. apply Nat.eqb_neq in Hne. fold o. rewrite Hne. reflexivity. }
  assert (Hco : cell_of s' o = Some (CHost h0)) by (unfold s', o; rewrite cell_alloc, Nat.eqb_refl; reflexivity).
  assert (Hsh : forall o', shared_at s' o' = shared_at s o').
  { intros o'. unfold shared_at. destruct (Nat.eq_dec o' o) as [->|Hne].
    - rewrite Hco, Hz. simpl. unfold o.
      destruct (cell_of s (st_next s)) eqn:E; auto. pose proof (live_lt _ _ _ (inv_heap _ _ I) E). lia.
    - rewrite Hsame; auto. }
  assert (Hhr : forall qo, In qo (linked s) -> href s' qo = href s qo).
  { intros qo Hq. apply href_same. apply Hsame. intros ->. destruct (inv_query _ _ I _ Hq) as [q Hc].
    pose proof (live_lt _ _ _ (inv_heap _ _ I) Hc). unfold o in *. lia. }
  assert (Eho : hobjs s' = hobjs s) by (apply hobjs_same; auto; [exact (inv_heap _ _ I)|simpl; lia]).
  assert (HI' : HostInv s').
  { apply (hostinv_same s s'); auto.
    - exact (inv_hosts _ _ I).
    - exact (inv_heap _ _ I).
    - simpl. lia.
    - intros y Hy. destruct (hi_objs _ (inv_hosts _ _ I)) as [_ H]. destruct (H _ Hy) as [H1 _]. rewrite Hsame; auto.
      intros ->. pose proof (live_lt _ _ _ (inv_heap _ _ I) H1). unfold o in *. lia.
    - intros y Hy. unfold chain in *. apply in_flat_map in Hy. destruct Hy as [qo [Hq Hy]]. apply in_flat_map. exists qo.
      split; auto. unfold qchain in *. destruct (inv_query _ _ I _ Hq) as [q Hc].
      rewrite Hsame in Hy; auto. intros ->. pose proof (live_lt _ _ _ (inv_heap _ _ I) Hc). unfold o in *. lia. }
  destruct (host_cell_upd x s s' o I) as [I' [Ech Ell]]; auto.
  - apply heap_alloc. exact (inv_heap _ _ I).
  - intros c. rewrite Hco. discriminate.
  - split; [exact I'|]. split; [exact Hco|]. split; [exact Hsame|]. split; [exact Ell|].
    split; [intros y; apply rooted_same; auto|]. split; [exact Hsh|]. apply nrefs_same; auto.
Qed.

Lemma own_same s s' L :
  (forall y, In y L -> cell_of s' y = cell_of s y) -> (forall y, rooted s' y <-> rooted s y) -> Own s L -> Own s' L.
Proof.
  intros Hc Hr [H1 H2]. split; auto. intros y Hy. destruct (H2 _ Hy) as [H3 H4]. rewrite Hc, Hr; auto.
Qed.

(* a host_query that is not waiting for anything changes (lookups left, names left, ...) or is released *)
Lemma store_host_excl_ok x s o h h' :
  InvX x s -> cell_of s o = Some (CHost h) -> h_remaining h = 0 -> h_remaining h' = 0 ->
  let s' := store_st o (CHost h') s in
  InvX x s' /\ Frame s s' [o] /\ cell_of s' o = Some (CHost h') /\ (forall o', o' <> o -> cell_of s' o' = cell_of s o')
  /\ linked s' = linked s /\ (forall y, rooted s' y <-> rooted s y).
Proof.
  intros I Hc Hz Hz' s'.
  assert (Hsame : forall o', o' <> o -> cell_of s' o' = cell_of s o').
  { intros o' Hne. unfold s'. rewrite cell_store. apply Nat.eqb_neq in Hne. rewrite Hne. reflexivity. }
  assert (Hco : cell_of s' o = Some (CHost h')) by (unfold s'; rewrite cell_store, Nat.eqb_refl; reflexivity).
  assert (Hsh : forall o', shared_at s' o' = shared_at s o').
  { intros o'. unfold shared_at. destruct (Nat.eq_dec o' o) as [->|Hne].
    - rewrite Hco, Hc, Hz, Hz'. reflexivity.
    - rewrite Hsame; auto. }
  pose proof (host_unrooted _ _ _ _ I Hc) as Hnr.
  destruct (inv_cells_irrelevant x s s') as [I' [Ech [Ell Eho]]]; auto.
  - eapply heap_store; eauto. exact (inv_heap _ _ I).
  - intros o' Hr. apply Hsame. intros ->. contradiction.
  - intros o' c. destruct (Nat.eq_dec o' o) as [->|Hne]; [rewrite Hco, Hc; split; discriminate|rewrite Hsame; auto; tauto].
  - assert (Hr : forall y, rooted s' y <-> rooted s y) by (intros y; apply rooted_same; auto).
    split; [exact I'|]. split; [|split; [exact Hco|split; [exact Hsame|split; [exact Ell|exact Hr]]]].
    constructor.
    + intros y c H1 H2 H3. assert (Hne : y <> o) by (intros ->; apply H3; left; auto).
      assert (H4 : ~ rooted s' y) by (rewrite Hr; exact H2).
      rewrite (Hsame _ Hne). destruct c; auto. exists c. repeat split; auto. apply incl_refl.
    + intros y cc H1 H2. exists cc. rewrite Hsame; auto. intros ->. congruence.
    + simpl. lia.
    + apply hframe_same_gen; auto.
      * exact (inv_heap _ _ I).
      * intros qo Hq. apply href_same. apply Hsame. intros ->. apply Hnr. left. exact Hq.
      * intros o' h1 Hs. destruct (shared_host _ _ _ Hs) as [Hc1 Hp]. rewrite Hsame; auto. intros ->. rewrite Hc in Hc1. inversion Hc1; subst. lia.
      * intros o' h1 Hc1. destruct (Nat.eq_dec o' o) as [->|Hne]; [eauto|]. rewrite Hsame in Hc1; eauto.
Qed.

Lemma free_host_ok x s o h :
  InvX x s -> cell_of s o = Some (CHost h) -> h_remaining h = 0 ->
  let s' := free_st o s in
  InvX x s' /\ Frame s s' [o] /\ (forall o', o' <> o -> cell_of s' o' = cell_of s o')
  /\ linked s' = linked s /\ (forall y, rooted s' y <-> rooted s y).
Proof.
  intros I Hc Hz s'.
  assert (Hsame : forall o', o' <> o -> cell_of s' o' = cell_of s o').
  { intros o' Hne. unfold s'. rewrite cell_free. apply Nat.eqb_neq in Hne. rewrite Hne. reflexivity. }
  assert (Hco : cell_of s' o = None) by (unfold s'; rewrite cell_free, Nat.eqb_refl; reflexivity).
  assert (Hsh : forall o', shared_at s' o' = shared_at s o').
  { intros o'. unfold shared_at. destruct (Nat.eq_dec o' o) as [->|Hne].
    - rewrite Hco, Hc, Hz. reflexivity.
    - rewrite Hsame; auto. }
  pose proof (host_unrooted _ _ _ _ I Hc) as Hnr.
  destruct (inv_cells_irrelevant x s s') as [I' [Ech [Ell Eho]]]; auto.
  - eapply heap_free; eauto. exact (inv_heap _ _ I).
  - intros o' Hr. apply Hsame. intros ->. contradiction.
  - intros o' c. destruct (Nat.eq_dec o' o) as [->|Hne]; [rewrite Hco, Hc; split; discriminate|rewrite Hsame; auto; tauto].
  - assert (Hr : forall y, rooted s' y <-> rooted s y) by (intros y; apply rooted_same; auto).
    split; [exact I'|]. split; [|split; [exact Hsame|split; [exact Ell|exact Hr]]].
    constructor.
    + intros y c H1 H2 H3. assert (Hne : y <> o) by (intros ->; apply H3; left; auto).
      assert (H4 : ~ rooted s' y) by (rewrite Hr; exact H2).
      rewrite (Hsame _ Hne). destruct c; auto. exists c. repeat split; auto. apply incl_refl.
    + intros y cc H1 H2. exists cc. rewrite Hsame; auto. intros ->. congruence.
    + simpl. lia.
    + apply hframe_same_gen; auto.
      * exact (inv_heap _ _ I).
      * intros qo Hq. apply href_same. apply Hsame. intros ->. apply Hnr. left. exact Hq.
      * intros o' h1 Hs. destruct (shared_host _ _ _ Hs) as [Hc1 Hp]. rewrite Hsame; auto. intros ->. rewrite Hc in Hc1. inversion Hc1; subst. lia.
      * intros o' h1 Hc1. destruct (Nat.eq_dec o' o) as [->|Hne]; [congruence|]. rewrite Hsame in Hc1; eauto.
Qed.

(* a shared host_query changes but stays shared (an answer arrived and others are still awaited:
   g = Some o; the ids of its queries, the addrinfo collected so far: g = None) *)
Lemma store_host_shared_ok x s o h h' g :
  InvX x s -> shared_at s o = Some h -> h_cb h' = h_cb h -> 0 < h_remaining h' ->
  h_remaining h' + g o = h_remaining h -> (forall o', o' <> o -> g o' = 0) ->
  nrefs s o + g o <= h_remaining h ->
  let s' := store_st o (CHost h') s in
  InvX x s' /\ FrameG g s s' [] /\ shared_at s' o = Some h' /\ (forall o', o' <> o -> cell_of s' o' = cell_of s o')
  /\ linked s' = linked s /\ (forall y, rooted s' y <-> rooted s y) /\ (forall o', nrefs s' o' = nrefs s o').
Proof.
  intros I Hs Ecb Hp Er Hg Hle s'.
  destruct (shared_host _ _ _ Hs) as [Hc Hp0].
  pose proof (inv_hosts _ _ I) as HI. pose proof (inv_heap _ _ I) as Hh.
  assert (Hsame : forall o', o' <> o -> cell_of s' o' = cell_of s o').
  { intros o' Hne. unfold s'. rewrite cell_store. apply Nat.eqb_neq in Hne. rewrite Hne. reflexivity. }
  assert (Hco : cell_of s' o = Some (CHost h')) by (unfold s'; rewrite cell_store, Nat.eqb_refl; reflexivity).
  assert (Hs' : shared_at s' o = Some h') by (apply shared_intro; auto).
  assert (Hsh : forall o', o' <> o -> shared_at s' o' = shared_at s o').
  { intros o' Hne. unfold shared_at. rewrite Hsame; auto. }
  pose proof (host_unrooted _ _ _ _ I Hc) as Hnr.
  assert (Hhr : forall qo, In qo (linked s) -> href s' qo = href s qo).
  { intros qo Hq. apply href_same. apply Hsame. intros ->. apply Hnr. left. exact Hq. }
  assert (Ell : linked s' = linked s) by reflexivity.
  assert (Enr : forall o', nrefs s' o' = nrefs s o') by (apply nrefs_same; auto).
  destruct (hobjs_upd s s' o (live_lt _ _ _ Hh Hc) eq_refl Hsh) as [A [B [EA EB]]].
  assert (Eho : hobjs s' = hobjs s).
  { rewrite EA, EB. unfold hcb_objs. rewrite Hs, Hs', Ecb. reflexivity. }
  assert (Ech : chain s' = chain s).
  { apply qchain_upd; auto. intros qo Hq. apply Hsame. intros ->. apply Hnr. left. exact Hq. }
  assert (HI' : HostInv s').
  { constructor.
    - intros qo o'. rewrite Ell. intros Hq. rewrite (Hhr _ Hq). intros He. destruct (hi_ref _ HI _ _ Hq He) as [h1 H1].
      destruct (Nat.eq_dec o' o) as [->|Hne]; [eauto|]. rewrite Hsh; eauto.
    - intros o' h1. rewrite Enr. destruct (Nat.eq_dec o' o) as [->|Hne].
      + rewrite Hs'. intros E. inversion E; subst h1. lia.
      + rewrite Hsh; auto. apply (hi_cnt _ HI).
    - intros o' h1. destruct (Nat.eq_dec o' o) as [->|Hne].
      + rewrite Hs'. intros E. inversion E; subst h1. rewrite Ecb. exact (hi_nohost _ HI _ _ Hs).
      + rewrite Hsh; auto. apply (hi_nohost _ HI).
    - rewrite Eho. destruct (hi_objs _ HI) as [H1 H2]. split; auto. intros y Hy. destruct (H2 _ Hy) as [H3 H4].
      split; [rewrite Hsame; auto; intros ->; congruence|]. rewrite Ech. exact H4. }
  destruct (host_cell_upd x s s' o I) as [I' _]; eauto.
  { eapply heap_store; eauto. }
  { intros c. rewrite Hco. discriminate. }
  assert (Hr : forall y, rooted s' y <-> rooted s y) by (intros y; apply rooted_same; auto).
  split; [exact I'|]. split; [|split; [exact Hs'|split; [exact Hsame|split; [exact Ell|split; [exact Hr|exact Enr]]]]].
  constructor.
  - intros y c H1 H2 _. assert (H4 : ~ rooted s' y) by (rewrite Hr; exact H2).
    destruct (Nat.eq_dec y o) as [->|Hne].
    + rewrite Hc in H1. inversion H1; subst c. intros Hz. lia.
    + rewrite (Hsame _ Hne). destruct c; auto. exists c. repeat split; auto. apply incl_refl.
  - intros y cc H1 H2. exists cc. rewrite Hsame; auto. intros ->. congruence.
  - simpl. lia.
  - constructor.
    + intros o' h1 Hs1 Hd. destruct (Nat.eq_dec o' o) as [->|Hne].
      * rewrite Hs in Hs1. inversion Hs1; subst h1. split; [eauto|]. intros h2 Hc2. rewrite Hco in Hc2. inversion Hc2; subst h2.
        rewrite Enr. repeat split; auto. lia.
      * destruct (shared_host _ _ _ Hs1) as [Hc1 Hp1]. split; [rewrite Hsame; eauto|].
        intros h2 Hc2. rewrite Hsame in Hc2; auto. rewrite Hc1 in Hc2. inversion Hc2; subst h2. rewrite Enr, (Hg _ Hne). repeat split; auto. lia.
    + intros o' h2 Ho' Hc2. destruct (Nat.eq_dec o' o) as [->|Hne].
      * pose proof (live_lt _ _ _ Hh Hc). simpl in Ho'. lia.
      * rewrite Hsame in Hc2; auto. pose proof (live_lt _ _ _ Hh Hc2). lia.
    + intros o' h2 _ Hc2. destruct (Nat.eq_dec o' o) as [->|Hne]; [eauto|]. rewrite Hsame in Hc2; eauto.
    + intros o' h1 Hs1. eapply shared_lt; eauto.
Qed.

(* next_dns_lookup: the host_query starts to wait for n answers; the objects of its callback
   are from now on released by whoever delivers the last answer *)
Lemma store_host_share_ok x s o h h' :
  InvX x s -> cell_of s o = Some (CHost h) -> h_remaining h = 0 -> Own s (cobjs (h_cb h)) -> nohost (h_cb h) ->
  h_cb h' = h_cb h -> 0 < h_remaining h' ->
  let s' := store_st o (CHost h') s in
  InvX x s' /\ Frame s s' (o :: cobjs (h_cb h)) /\ shared_at s' o = Some h' /\ nrefs s' o = 0
  /\ (forall o', o' <> o -> cell_of s' o' = cell_of s o') /\ linked s' = linked s.
Proof.
  intros I Hc Hz [On Oc] Hnh Ecb Hp s'.
  pose proof (inv_hosts _ _ I) as HI. pose proof (inv_heap _ _ I) as Hh.
  assert (Hs0 : shared_at s o = None) by (unfold shared_at; rewrite Hc, Hz; reflexivity).
  assert (Hsame : forall o', o' <> o -> cell_of s' o' = cell_of s o').
  { intros o' Hne. unfold s'. rewrite cell_store. apply Nat.eqb_neq in Hne. rewrite Hne. reflexivity. }
  assert (Hco : cell_of s' o = Some (CHost h')) by (unfold s'; rewrite cell_store, Nat.eqb_refl; reflexivity).
  assert (Hs' : shared_at s' o = Some h') by (apply shared_intro; auto).
  assert (Hsh : forall o', o' <> o -> shared_at s' o' = shared_at s o').
  { intros o' Hne. unfold shared_at. rewrite Hsame; auto. }
  pose proof (host_unrooted _ _ _ _ I Hc) as Hnr.
  assert (Hhr : forall qo, In qo (linked s) -> href s' qo = href s qo).
  { intros qo Hq. apply href_same. apply Hsame. intros ->. apply Hnr. left. exact Hq. }
  assert (Ell : linked s' = linked s) by reflexivity.
  assert (Enr : forall o', nrefs s' o' = nrefs s o') by (apply nrefs_same; auto).
  destruct (hobjs_upd s s' o (live_lt _ _ _ Hh Hc) eq_refl Hsh) as [A [B [EA EB]]].
  unfold hcb_objs in EA, EB. rewrite Hs0 in EA. rewrite Hs', Ecb in EB. simpl in EA.
  assert (Ech : chain s' = chain s).
  { apply qchain_upd; auto. intros qo Hq. apply Hsame. intros ->. apply Hnr. left. exact Hq. }
  assert (Hin' : forall y, In y (hobjs s') <-> In y (cobjs (h_cb h)) \/ In y (hobjs s)).
  { intros y. rewrite EA, EB, !in_app_iff. tauto. }
  assert (Hz0 : nrefs s o = 0) by (eapply nrefs_unshared; eauto).
  assert (HI' : HostInv s').
  { constructor.
    - intros qo o'. rewrite Ell. intros Hq. rewrite (Hhr _ Hq). intros He. destruct (hi_ref _ HI _ _ Hq He) as [h1 H1].
      destruct (Nat.eq_dec o' o) as [->|Hne]; [eauto|]. rewrite Hsh; eauto.
    - intros o' h1. rewrite Enr. destruct (Nat.eq_dec o' o) as [->|Hne].
      + rewrite Hs'. intros E. inversion E; subst h1. lia.
      + rewrite Hsh; auto. apply (hi_cnt _ HI).
    - intros o' h1. destruct (Nat.eq_dec o' o) as [->|Hne].
      + rewrite Hs'. intros E. inversion E; subst h1. rewrite Ecb. exact Hnh.
      + rewrite Hsh; auto. apply (hi_nohost _ HI).
    - destruct (hi_objs _ HI) as [H1 H2]. split.
      + rewrite EB. rewrite EA in H1. apply NoDup_app_iff in H1. destruct H1 as [Ha [Hb Hab]].
        apply NoDup_app_iff. split; [exact Ha|]. split.
        * apply NoDup_app_iff. split; [exact On|]. split; [exact Hb|]. intros y Hy Hy'.
          destruct (Oc _ Hy) as [_ Hr]. apply Hr. right; right; right. rewrite EA. apply in_or_app. right. exact Hy'.
        * intros y Hy Hy'. apply in_app_or in Hy'. destruct Hy' as [Hy'|Hy']; [|exact (Hab _ Hy Hy')].
          destruct (Oc _ Hy') as [_ Hr]. apply Hr. right; right; right. rewrite EA. apply in_or_app. left. exact Hy.
      + intros y Hy. apply Hin' in Hy. rewrite Ech. destruct Hy as [Hy|Hy].
        * destruct (Oc _ Hy) as [H3 Hr]. split.
          -- rewrite Hsame; auto. intros ->. congruence.
          -- intros Hch. apply Hr. right; right; left. exact Hch.
        * destruct (H2 _ Hy) as [H3 H4]. split; auto. rewrite Hsame; auto. intros ->. congruence. }
  destruct (host_cell_upd x s s' o I) as [I' _]; eauto.
  { eapply heap_store; eauto. }
  { intros c. rewrite Hco. discriminate. }
  split; [exact I'|]. split; [|split; [exact Hs'|split; [rewrite Enr; exact Hz0|split; [exact Hsame|exact Ell]]]].
  constructor.
  - intros y c H1 H2 H3. assert (Hne : y <> o) by (intros ->; apply H3; left; auto).
    assert (H4 : ~ rooted s' y).
    { intros [H|[H|[H|H]]].
      - apply H2. left. exact H.
      - apply H2. right; left. exact H.
      - apply H2. right; right; left. rewrite Ech in H. exact H.
      - apply Hin' in H. destruct H as [H|H]; [apply H3; right; exact H|apply H2; right; right; right; exact H]. }
    rewrite (Hsame _ Hne). destruct c; auto. exists c. repeat split; auto. apply incl_refl.
  - intros y cc H1 H2. exists cc. rewrite Hsame; auto. intros ->. congruence.
  - simpl. lia.
  - apply hframe_same_gen; auto.
    + intros o' h1 Hs1. destruct (shared_host _ _ _ Hs1) as [Hc1 _]. rewrite Hsame; auto. intros ->. congruence.
    + intros o' h1 Hc1. destruct (Nat.eq_dec o' o) as [->|Hne]; [eauto|]. rewrite Hsame in Hc1; eauto.
Qed.

(* host_callback for the last awaited answer: nothing points at the host_query any more, it
   belongs to the function that goes on with it *)
Lemma store_host_unshare_ok x s o h h' :
  InvX x s -> shared_at s o = Some h -> nrefs s o = 0 -> h_cb h' = h_cb h -> h_remaining h' = 0 ->
  let s' := store_st o (CHost h') s in
  InvX x s' /\ cell_of s' o = Some (CHost h') /\ Own s' (cobjs (h_cb h)) /\ nohost (h_cb h)
  /\ (forall o', o' <> o -> cell_of s' o' = cell_of s o') /\ linked s' = linked s
  /\ (forall y, rooted s' y -> rooted s y) /\ (forall o', o' <> o -> shared_at s' o' = shared_at s o')
  /\ (forall o', nrefs s' o' = nrefs s o').
Proof.
  intros I Hs Hz0 Ecb Hz s'.
  destruct (shared_host _ _ _ Hs) as [Hc Hp0].
  pose proof (inv_hosts _ _ I) as HI. pose proof (inv_heap _ _ I) as Hh.
  assert (Hsame : forall o', o' <> o -> cell_of s' o' = cell_of s o').
  { intros o' Hne. unfold s'. rewrite cell_store. apply Nat.eqb_neq in Hne. rewrite Hne. reflexivity. }
  assert (Hco : cell_of s' o = Some (CHost h')) by (unfold s'; rewrite cell_store, Nat.eqb_refl; reflexivity).
  assert (Hs' : shared_at s' o = None) by (unfold shared_at; rewrite Hco, Hz; reflexivity).
  assert (Hsh : forall o', o' <> o -> shared_at s' o' = shared_at s o').
  { intros o' Hne. unfold shared_at. rewrite Hsame; auto. }
  pose proof (host_unrooted _ _ _ _ I Hc) as Hnr.
  assert (Hhr : forall qo, In qo (linked s) -> href s' qo = href s qo).
  { intros qo Hq. apply href_same. apply Hsame. intros ->. apply Hnr. left. exact Hq. }
  assert (Ell : linked s' = linked s) by reflexivity.
  assert (Enr : forall o', nrefs s' o' = nrefs s o') by (apply nrefs_same; auto).
  destruct (hobjs_upd s s' o (live_lt _ _ _ Hh Hc) eq_refl Hsh) as [A [B [EA EB]]].
  unfold hcb_objs in EA, EB. rewrite Hs in EA. rewrite Hs' in EB. simpl in EB.
  assert (Ech : chain s' = chain s).
  { apply qchain_upd; auto. intros qo Hq. apply Hsame. intros ->. apply Hnr. left. exact Hq. }
  destruct (hi_objs _ HI) as [Hnd Hob].
  assert (Hnd' := Hnd). rewrite EA in Hnd'. apply NoDup_app_iff in Hnd'. destruct Hnd' as [Ha [Hxb Hab]].
  apply NoDup_app_iff in Hxb. destruct Hxb as [Hx [Hb Hxb]].
  assert (Hsub : forall y, In y (hobjs s') -> In y (hobjs s)).
  { intros y. rewrite EA, EB, !in_app_iff. tauto. }
  assert (HI' : HostInv s').
  { constructor.
    - intros qo o'. rewrite Ell. intros Hq. rewrite (Hhr _ Hq). intros He. destruct (hi_ref _ HI _ _ Hq He) as [h1 H1].
      destruct (Nat.eq_dec o' o) as [->|Hne]; [exfalso; exact (nrefs_zero _ _ _ Hz0 Hq He)|]. rewrite Hsh; eauto.
    - intros o' h1. rewrite Enr. destruct (Nat.eq_dec o' o) as [->|Hne]; [rewrite Hs'; discriminate|].
      rewrite Hsh; auto. apply (hi_cnt _ HI).
    - intros o' h1. destruct (Nat.eq_dec o' o) as [->|Hne]; [rewrite Hs'; discriminate|].
      rewrite Hsh; auto. apply (hi_nohost _ HI).
    - split.
      + rewrite EB. apply NoDup_app_iff. split; [exact Ha|]. split; [exact Hb|].
        intros y Hy Hy'. apply (Hab _ Hy). apply in_or_app. right. exact Hy'.
      + intros y Hy. destruct (Hob _ (Hsub _ Hy)) as [H3 H4]. rewrite Ech. split; auto.
        rewrite Hsame; auto. intros ->. congruence. }
  destruct (host_cell_upd x s s' o I) as [I' _]; eauto.
  { eapply heap_store; eauto. }
  { intros c. rewrite Hco. discriminate. }
  assert (Hrt : forall y, rooted s' y -> rooted s y).
  { intros y [H|[H|[H|H]]]; [left|right; left|right; right; left; rewrite <- Ech|right; right; right; apply Hsub]; exact H. }
  split; [exact I'|]. split; [exact Hco|]. split; [|split; [exact (hi_nohost _ HI _ _ Hs)|split; [exact Hsame|split; [exact Ell|split; [exact Hrt|split; [exact Hsh|exact Enr]]]]]].
  split; [exact Hx|]. intros y Hy.
  assert (Hyo : In y (hobjs s)) by (rewrite EA; apply in_or_app; right; apply in_or_app; left; exact Hy).
  destruct (Hob _ Hyo) as [H3 H4]. split.
  - rewrite Hsame; auto. intros ->. congruence.
  - intros [H|[H|[H|H]]].
    + destruct (inv_query _ _ I _ H) as [q Hq]. congruence.
    + destruct (inv_conns _ _ I) as [_ Hcc]. destruct (Hcc _ H) as [c [Hc' _]]. congruence.
    + rewrite Ech in H. contradiction.
    + rewrite EB in H. apply in_app_or in H. destruct H as [H|H].
      * apply (Hab _ H). apply in_or_app. left. exact Hy.
      * exact (Hxb _ Hy H).
Qed.

(* what is left of a host_query after the function that worked on it returns: nothing, or a
   shared host_query that waits for exactly the queries pointing at it *)
Definition settled (s : state) (o : obj) (k : cbk) : Prop :=
  forall h, cell_of s o = Some (CHost h) -> 0 < h_remaining h /\ h_cb h = k /\ h_remaining h = nrefs s o.

(* host_callback delivering the last awaited answer, then going on with the host_query *)
Lemma frame_unshare_then x s o h h' s2 L :
  InvX x s -> shared_at s o = Some h -> nrefs s o = 0 -> h_remaining h = 1 -> h_cb h' = h_cb h -> h_remaining h' = 0 ->
  Frame (store_st o (CHost h') s) s2 L -> incl L (o :: cobjs (h_cb h)) ->
  settled s2 o (h_cb h) ->
  FrameG (dg (Some o)) s s2 [].
Proof.
  intros I Hs Hz0 Hr1 Ecb Hz F HL Hst.
  destruct (store_host_unshare_ok x s o h h' I Hs Hz0 Ecb Hz) as [I1 [Hco [O1 [Hnh [Hsame [Ell [Hrt [Hsh Enr]]]]]]]].
  set (s1 := store_st o (CHost h') s) in *.
  destruct (shared_host _ _ _ Hs) as [Hc Hp]. pose proof (inv_heap _ _ I) as Hh.
  pose proof (fr_hosts _ _ _ _ F) as HF.
  constructor.
  - intros y c H1 H2 _.
    destruct (Nat.eq_dec y o) as [->|Hne].
    { rewrite Hc in H1. inversion H1; subst c. intros Hz'. lia. }
    assert (H1' : cell_of s1 y = Some c) by (rewrite Hsame; auto).
    assert (H2' : ~ rooted s1 y) by (intros H; apply H2; apply Hrt; exact H).
    assert (H3' : ~ In y L).
    { intros Hin. apply HL in Hin. destruct Hin as [->|Hin]; [congruence|].
      apply H2. right; right; right. apply in_hobjs; auto. exists o, h. auto. }
    exact (fr_cell _ _ _ _ F _ _ H1' H2' H3').
  - intros y cc H1 H2. apply (fr_reading _ _ _ _ F y cc); auto. rewrite Hsame; auto. intros ->. congruence.
  - exact (fr_next _ _ _ _ F).
  - constructor.
    + intros o' h1 Hs1 Hd. destruct (Nat.eq_dec o' o) as [->|Hne].
      * rewrite Hs in Hs1. inversion Hs1; subst h1. simpl in *. rewrite Nat.eqb_refl in *. split; [intros; lia|].
        intros h2 Hc2. destruct (Hst _ Hc2) as [B1 [B2 B3]]. repeat split; auto. lia.
      * assert (Hs1' : shared_at s1 o' = Some h1) by (rewrite Hsh; auto).
        assert (Ed : dg (Some o) o' = 0) by (simpl; apply Nat.eqb_neq in Hne; rewrite Hne; reflexivity).
        rewrite Ed in *.
        destruct (hf_host _ _ _ HF _ _ Hs1' ltac:(rewrite Enr; simpl; lia)) as [A1 A2]. rewrite Enr in A1, A2. simpl in A1, A2.
        split; [intros; apply A1; lia|]. intros h2 Hc2. destruct (A2 _ Hc2) as [B1 [B2 B3]]. repeat split; auto; try lia.
    + exact (hf_new _ _ _ HF).
    + intros o' h2 Ho' Hc2. destruct (hf_old _ _ _ HF o' h2 Ho' Hc2) as [h1 Hc1].
      destruct (Nat.eq_dec o' o) as [->|Hne]; [eauto|]. rewrite Hsame in Hc1; eauto.
    + intros o' h1 Hs1. eapply shared_lt; eauto.
Qed.

(* getaddrinfo: the host_query was created by the request itself *)
Lemma frame_alloc_host_drop x s h0 s2 L :
  InvX x s -> h_remaining h0 = 0 ->
  Frame (alloc_st (CHost h0) s) s2 (st_next s :: L) -> settled s2 (st_next s) (h_cb h0) ->
  Frame s s2 L.
Proof.
  intros I Hz F Hst.
  destruct (alloc_host_ok x s h0 I Hz) as [I1 [Hco [Hsame [Ell [Hrt [Hsh Enr]]]]]].
  set (o := st_next s) in *. set (s1 := alloc_st (CHost h0) s) in *.
  pose proof (inv_heap _ _ I) as Hh. pose proof (fr_hosts _ _ _ _ F) as HF.
  assert (Hfresh : forall y c, cell_of s y = Some c -> y <> o).
  { intros y c Hc. pose proof (live_lt _ _ _ Hh Hc). unfold o. lia. }
  constructor.
  - intros y c H1 H2 H3. pose proof (Hfresh _ _ H1) as Hne.
    assert (H1' : cell_of s1 y = Some c) by (rewrite Hsame; auto).
    assert (H2' : ~ rooted s1 y) by (rewrite Hrt; exact H2).
    assert (H3' : ~ In y (o :: L)) by (intros [E|Hin]; [congruence|contradiction]).
    exact (fr_cell _ _ _ _ F _ _ H1' H2' H3').
  - intros y cc H1 H2. apply (fr_reading _ _ _ _ F y cc); auto. rewrite Hsame; auto. eapply Hfresh; eauto.
  - pose proof (fr_next _ _ _ _ F) as Hn. simpl in Hn. lia.
  - constructor.
    + intros o' h1 Hs1 Hd. assert (Hs1' : shared_at s1 o' = Some h1) by (rewrite Hsh; exact Hs1).
      destruct (hf_host _ _ _ HF _ _ Hs1' ltac:(rewrite Enr; exact Hd)) as [A1 A2]. rewrite Enr in A1, A2. auto.
    + intros o' h2 Ho' Hc2. destruct (Nat.eq_dec o' o) as [->|Hne].
      * destruct (Hst _ Hc2) as [B1 [B2 B3]]. auto.
      * apply (hf_new _ _ _ HF); auto. simpl. fold o. lia.
    + intros o' h2 Ho' Hc2. destruct (hf_old _ _ _ HF o' h2 ltac:(simpl; lia) Hc2) as [h1 Hc1].
      rewrite Hsame in Hc1; eauto. unfold o. lia.
    + intros o' h1 Hs1. eapply shared_lt; eauto.
Qed.

(* ---------------------------------------------------------------------------------- *)
(* frames and steps that only touch tape / trace / scripts                             *)
(* ---------------------------------------------------------------------------------- *)
Lemma frame_core_l {g} s s1 s' L : core_eq s s1 -> FrameG g s1 s' L -> FrameG g s s' L.
Proof.
  intros E F. pose proof (fr_hosts _ _ _ _ F) as HF.
  assert (En : st_next s1 = st_next s) by (destruct E; auto).
  constructor.
  - intros x c Hc Hr Hn. apply (fr_cell _ _ _ _ F); auto.
    + rewrite (ce_cell _ _ _ E). exact Hc.
    + rewrite (ce_rooted _ _ _ E). exact Hr.
  - intros x cc Hc Hr. apply (fr_reading _ _ _ _ F x cc); auto. rewrite (ce_cell _ _ _ E). exact Hc.
  - rewrite <- En. exact (fr_next _ _ _ _ F).
  - constructor.
    + intros o h Hs. rewrite <- (ce_nrefs _ _ _ E). apply (hf_host _ _ _ HF). rewrite (ce_shared _ _ _ E). exact Hs.
    + intros o h'. rewrite <- En. apply (hf_new _ _ _ HF).
    + intros o h'. rewrite <- En. intros Ho Hc. destruct (hf_old _ _ _ HF o h' Ho Hc) as [h Hh]. exists h.
      rewrite <- (ce_cell _ _ _ E). exact Hh.
    + intros o h Hs. rewrite <- En. apply (hf_lt _ _ _ HF o h). rewrite (ce_shared _ _ _ E). exact Hs.
Qed.

Lemma frame_core_r {g} s s1 s' L : FrameG g s s1 L -> core_eq s1 s' -> FrameG g s s' L.
Proof.
  intros F E. pose proof (fr_hosts _ _ _ _ F) as HF.
  assert (En : st_next s' = st_next s1) by (destruct E; auto).
  constructor.
  - intros x c Hc Hr Hn. pose proof (fr_cell _ _ _ _ F _ _ Hc Hr Hn) as G.
    destruct c as [q|cc|h|].
    + rewrite (ce_cell _ _ _ E), (ce_rooted _ _ _ E). exact G.
    + destruct G as [cc' G]. exists cc'. rewrite (ce_cell _ _ _ E), (ce_rooted _ _ _ E). exact G.
    + rewrite (ce_cell _ _ _ E), (ce_rooted _ _ _ E). exact G.
    + rewrite (ce_cell _ _ _ E), (ce_rooted _ _ _ E). exact G.
  - intros x cc Hc Hr. destruct (fr_reading _ _ _ _ F _ _ Hc Hr) as [cc' G]. exists cc'. rewrite (ce_cell _ _ _ E). exact G.
  - rewrite En. exact (fr_next _ _ _ _ F).
  - constructor.
    + intros o h Hs Hd. destruct (hf_host _ _ _ HF _ _ Hs Hd) as [A1 A2]. split.
      * intros Hl. destruct (A1 Hl) as [h' Hc']. exists h'. rewrite (ce_cell _ _ _ E). exact Hc'.
      * intros h'. rewrite (ce_cell _ _ _ E), (ce_nrefs _ _ _ E). apply A2.
    + intros o h'. rewrite (ce_cell _ _ _ E), (ce_nrefs _ _ _ E). apply (hf_new _ _ _ HF).
    + intros o h'. rewrite (ce_cell _ _ _ E). apply (hf_old _ _ _ HF).
    + exact (hf_lt _ _ _ HF).
Qed.

Lemma given_core s s' g : core_eq s s' -> GivenOk s g -> GivenOk s' g.
Proof.
  intros E. unfold GivenOk. destruct g as [o|]; auto. intros [h [Hs Hl]]. exists h.
  rewrite (ce_shared _ _ _ E), (ce_nrefs _ _ _ E). auto.
Qed.

(* a callee that was not handed the answer leaves the host_query waiting for it *)
Lemma given_frame s s' g L : GivenOk s g -> Frame s s' L -> GivenOk s' g.
Proof.
  unfold GivenOk. destruct g as [o|]; auto. intros [h [Hs Hl]] F.
  destruct (hf_host _ _ _ (fr_hosts _ _ _ _ F) _ _ Hs ltac:(simpl; lia)) as [A1 A2].
  destruct (A1 ltac:(simpl; lia)) as [h' Hc']. destruct (A2 _ Hc') as [B1 [B2 B3]]. simpl in B3.
  exists h'. split; [apply shared_intro; auto|lia].
Qed.

Lemma settled_core s s' o k : core_eq s s' -> settled s o k -> settled s' o k.
Proof. intros E H h. rewrite (ce_cell _ _ _ E), (ce_nrefs _ _ _ E). apply H. Qed.

Lemma safe_get_host s o h (Q : hostq -> state -> Prop) :
  heap_ok s -> cell_of s o = Some (CHost h) -> Q h s -> safe (get_host o) s Q.
Proof.
  intros H Hc HQ. unfold get_host. apply safe_bind. eapply safe_touch; eauto.
Qed.

Lemma nohost_kbot k : nohost k -> kbot k = None.
Proof. induction k; simpl; auto; intros []. Qed.
