(* C01: the invariant of the fixed lifecycle model, ownership and frame conditions, and the
   Hoare-style rules for the primitive state operations (no callbacks involved). *)
From Coq Require Import List ZArith Lia Bool Arith.
Import ListNotations.
From CAres.Base Require Import Outcome.
From CAres.Gen Require Import Consts.
From CAres.Core Require Import LifecycleMonitor Lifecycle.


(* ---------------------------------------------------------------------------------- *)
(* safe m s Q: running m from s does not hit UB, and if it completes Q holds            *)
(* ---------------------------------------------------------------------------------- *)
Definition safe {A} (m : M A) (s : state) (Q : A -> state -> Prop) : Prop :=
  match m s with Ok (a, s') => Q a s' | Err _ => True | UB _ => False end.

Lemma safe_ret {A} (a : A) s (Q : A -> state -> Prop) : Q a s -> safe (ret a) s Q.
Proof. unfold safe, ret. auto. Qed.

Lemma safe_fail {A} e s (Q : A -> state -> Prop) : safe (fail e) s Q.
Proof. unfold safe, fail. auto. Qed.

Lemma safe_bind {A B} (m : M A) (f : A -> M B) s (Q : B -> state -> Prop) :
  safe m s (fun a s1 => safe (f a) s1 Q) -> safe (mbind m f) s Q.
Proof. unfold safe, mbind. destruct (m s) as [[a s1]| |]; auto. Qed.

Lemma safe_mono {A} (m : M A) s (Q Q' : A -> state -> Prop) :
  safe m s Q -> (forall a s', Q a s' -> Q' a s') -> safe m s Q'.
Proof. unfold safe. destruct (m s) as [[a s1]| |]; auto. Qed.

Lemma safe_get s (Q : state -> state -> Prop) : Q s s -> safe get s Q.
Proof. unfold safe, get. auto. Qed.

Lemma safe_modify f s (Q : unit -> state -> Prop) : Q tt (f s) -> safe (modify f) s Q.
Proof. unfold safe, modify. auto. Qed.

Lemma safe_peek s (Q : option tev -> state -> Prop) : Q (hd_error (st_tape s)) s -> safe peek s Q.
Proof. unfold safe, peek. auto. Qed.

Lemma safe_peek2 s (Q : option tev -> state -> Prop) : Q (hd_error (tl (st_tape s))) s -> safe peek2 s Q.
Proof. unfold safe, peek2. auto. Qed.

Lemma safe_pop s (Q : tev -> state -> Prop) :
  (forall e r, st_tape s = e :: r -> Q e (set_tape r s)) -> safe pop s Q.
Proof. unfold safe, pop. destruct (st_tape s); auto. Qed.

Lemma safe_emit e s (Q : unit -> state -> Prop) : Q tt (set_trace (e :: st_trace s) s) -> safe (emit e) s Q.
Proof. unfold emit. apply safe_modify. Qed.

(* ---------------------------------------------------------------------------------- *)
(* Shape of closures                                                                   *)
(* ---------------------------------------------------------------------------------- *)
Fixpoint cobjs (k : cbk) : list obj :=
  match k with
  | KUser _ | KProbe | KHost _ => []
  | KWrap _ o k' => o :: cobjs k'
  | KSearch o k' _ _ _ => o :: cobjs k'
  | KAddr o k' _ => o :: cobjs k'
  end.

Fixpoint ctoks (k : cbk) : list tok :=
  match k with
  | KUser t => [t]
  | KProbe | KHost _ => []
  | KWrap _ _ k' => ctoks k'
  | KSearch _ k' _ _ _ => ctoks k'
  | KAddr _ k' _ => ctoks k'
  end.

Fixpoint nohost (k : cbk) : Prop :=
  match k with
  | KUser _ | KProbe => True
  | KHost _ => False
  | KWrap _ _ k' => nohost k'
  | KSearch _ k' _ _ _ => nohost k'
  | KAddr _ k' _ => nohost k'
  end.

Definition nohost_call (c : call) : Prop :=
  match c with AGai _ _ _ _ _ | AGhbn _ _ _ _ _ => False | _ => True end.

(* ---------------------------------------------------------------------------------- *)
(* Reading the state                                                                   *)
(* ---------------------------------------------------------------------------------- *)
Definition cell_of (s : state) (o : obj) : option cell := lookup o (st_cells s).
Definition linked (s : state) : list obj := concat (st_lists s).
Definition qchain (s : state) (qo : obj) : list obj :=
  match cell_of s qo with Some (CQuery q) => cobjs (q_cb q) | _ => [] end.
Definition chain (s : state) : list obj := flat_map (qchain s) (linked s).
Definition rooted (s : state) (x : obj) : Prop := In x (linked s) \/ In x (st_conns s) \/ In x (chain s).

Definition heap_ok (s : state) : Prop :=
  (forall o c, cell_of s o = Some c -> o < st_next s /\ ~ In o (st_freed s))
  /\ (forall o, In o (st_freed s) -> o < st_next s).

(* x: the query process_answer() has taken off its connection's list but not yet requeued/ended *)
Record InvX (x : option obj) (s : state) : Prop := {
  inv_heap : heap_ok s;
  inv_nodup : NoDup (linked s);
  inv_query : forall qo, In qo (linked s) -> exists q, cell_of s qo = Some (CQuery q) /\ nohost (q_cb q);
  inv_byqid : forall qid qo, lookup qid (st_byqid s) = Some qo ->
                In qo (linked s) /\ forall q, cell_of s qo = Some (CQuery q) -> q_qid q = qid;
  inv_bytmo : forall qo, In qo (st_bytmo s) ->
                In qo (linked s) /\ exists q co c, cell_of s qo = Some (CQuery q) /\ q_conn q = Some co
                                  /\ cell_of s co = Some (CConn c) /\ (Some qo = x \/ In qo (c_queries c));
  inv_connq : forall co c qo, cell_of s co = Some (CConn c) -> In qo (c_queries c) ->
                In qo (linked s) /\ exists q, cell_of s qo = Some (CQuery q) /\ q_conn q = Some co;
  inv_conns : NoDup (st_conns s) /\ forall co, In co (st_conns s) -> exists c, cell_of s co = Some (CConn c) /\ c_closed c = false;
  inv_closed : forall co c, cell_of s co = Some (CConn c) -> c_closed c = true ->
                ~ In co (st_conns s) /\ c_queries c = [];
  inv_chain : NoDup (chain s) /\ forall o, In o (chain s) -> cell_of s o = Some COpaque;
  inv_nohost_cells : forall o h, cell_of s o <> Some (CHost h);
  inv_scripts : forall t l c, lookup t (st_scripts s) = Some l -> In c l -> nohost_call c
}.
Definition Inv := InvX None.

(* objects handed over to a callee: live wrapper/search/addr objects nobody else knows *)
Definition Own (s : state) (L : list obj) : Prop :=
  NoDup L /\ forall o, In o L -> cell_of s o = Some COpaque /\ ~ rooted s o.

(* what a callee guarantees about the objects it was not given *)
Record Frame (s s' : state) (L : list obj) : Prop := {
  fr_cell : forall x c, cell_of s x = Some c -> ~ rooted s x -> ~ In x L ->
              match c with
              | CConn cc => exists cc', cell_of s' x = Some (CConn cc') /\ ~ rooted s' x
                                        /\ c_reading cc' = c_reading cc /\ c_closed cc' = c_closed cc
                                        /\ c_sock cc' = c_sock cc /\ incl (c_queries cc') (c_queries cc)
              | _ => cell_of s' x = Some c /\ ~ rooted s' x
              end;
  fr_reading : forall x cc, cell_of s x = Some (CConn cc) -> c_reading cc = true ->
              exists cc', cell_of s' x = Some (CConn cc') /\ c_reading cc' = true /\ c_sock cc' = c_sock cc;
  fr_next : st_next s <= st_next s'
}.

(* ---------------------------------------------------------------------------------- *)
(* lookup / remove_key / remove_nat                                                    *)
(* ---------------------------------------------------------------------------------- *)
Lemma lookup_remove_key {A} k k' (l : list (nat * A)) :
  lookup k' (remove_key k l) = if Nat.eqb k' k then None else lookup k' l.
Proof.
  induction l as [|[a c] l IH]; simpl.
  - destruct (Nat.eqb k' k); reflexivity.
  - destruct (Nat.eqb k a) eqn:E1.
    + apply Nat.eqb_eq in E1. subst a. rewrite IH.
      destruct (Nat.eqb k' k) eqn:E2; auto.
    + simpl. destruct (Nat.eqb k' a) eqn:E2.
      * apply Nat.eqb_eq in E2. subst a.
        destruct (Nat.eqb k' k) eqn:E3; auto.
        apply Nat.eqb_eq in E3. subst. rewrite Nat.eqb_refl in E1. discriminate.
      * exact IH.
Qed.

Lemma lookup_cons {A} k k' (c : A) l :
  lookup k' ((k, c) :: l) = if Nat.eqb k' k then Some c else lookup k' l.
Proof. reflexivity. Qed.

Lemma memb_In o l : memb o l = true <-> In o l.
Proof.
  unfold memb. rewrite existsb_exists. split.
  - intros [x [Hx E]]. apply Nat.eqb_eq in E. subst. exact Hx.
  - intros H. exists o. split; auto. apply Nat.eqb_refl.
Qed.

Lemma memb_false o l : memb o l = false <-> ~ In o l.
Proof.
  rewrite <- memb_In. destruct (memb o l); split; intros; auto; try discriminate. exfalso; auto.
Qed.

Lemma in_remove_nat o x l : In x (remove_nat o l) <-> In x l /\ x <> o.
Proof.
  unfold remove_nat. rewrite filter_In. split.
  - intros [H E]. split; auto. intros ->. rewrite Nat.eqb_refl in E. discriminate.
  - intros [H E]. split; auto. apply negb_true_iff. apply Nat.eqb_neq. auto.
Qed.

Lemma nodup_remove_nat o l : NoDup l -> NoDup (remove_nat o l).
Proof. unfold remove_nat. apply NoDup_filter. Qed.

Lemma remove_nat_notin o l : ~ In o l -> remove_nat o l = l.
Proof.
  induction l as [|a l IH]; simpl; intros H; auto.
  destruct (Nat.eqb o a) eqn:E.
  - apply Nat.eqb_eq in E. subst. exfalso. apply H. left; auto.
  - simpl. f_equal. apply IH. intros Hin. apply H. right; auto.
Qed.

Lemma concat_map_remove o (ls : list (list nat)) :
  concat (map (remove_nat o) ls) = remove_nat o (concat ls).
Proof.
  induction ls as [|l ls IH]; simpl; auto.
  unfold remove_nat at 3. rewrite filter_app. fold (remove_nat o l). fold (remove_nat o (concat ls)).
  rewrite IH. reflexivity.
Qed.

Lemma NoDup_app_iff {A} (l1 l2 : list A) :
  NoDup (l1 ++ l2) <-> NoDup l1 /\ NoDup l2 /\ (forall x, In x l1 -> ~ In x l2).
Proof.
  induction l1 as [|a l1 IH]; simpl.
  - split.
    + intros H. repeat split; auto. constructor.
    + tauto.
  - split.
    + intros H. inversion H as [|? ? Hn Hd]; subst. apply IH in Hd. destruct Hd as [H1 [H2 H3]].
      repeat split; auto.
      * constructor; auto. intros Hin. apply Hn. apply in_or_app; auto.
      * intros x [Hx|Hx]; subst.
        -- intros Hin. apply Hn. apply in_or_app; auto.
        -- apply H3; auto.
    + intros [H1 [H2 H3]]. inversion H1 as [|? ? Hn Hd]; subst. constructor.
      * intros Hin. apply in_app_or in Hin. destruct Hin as [Hin|Hin]; auto.
        apply (H3 a); auto.
      * apply IH. repeat split; auto.
Qed.

Lemma in_concat_map_remove o x (ls : list (list nat)) :
  In x (concat (map (remove_nat o) ls)) <-> In x (concat ls) /\ x <> o.
Proof. rewrite concat_map_remove. apply in_remove_nat. Qed.

Lemma nodup_concat_map_remove o (ls : list (list nat)) :
  NoDup (concat ls) -> NoDup (concat (map (remove_nat o) ls)).
Proof. rewrite concat_map_remove. apply nodup_remove_nat. Qed.

(* ---------------------------------------------------------------------------------- *)
(* states that differ only in tape / trace / scripts / destroying                      *)
(* ---------------------------------------------------------------------------------- *)
Definition core_eq (s s' : state) : Prop :=
  st_next s' = st_next s /\ st_cells s' = st_cells s /\ st_freed s' = st_freed s /\ st_lists s' = st_lists s
  /\ st_byqid s' = st_byqid s /\ st_bytmo s' = st_bytmo s /\ st_conns s' = st_conns s.

Lemma core_eq_refl s : core_eq s s.
Proof. unfold core_eq; repeat split. Qed.

Lemma core_eq_trans s1 s2 s3 : core_eq s1 s2 -> core_eq s2 s3 -> core_eq s1 s3.
Proof. unfold core_eq. intuition congruence. Qed.

Lemma core_eq_set_tape l s : core_eq s (set_tape l s).
Proof. unfold core_eq; repeat split. Qed.
Lemma core_eq_set_trace l s : core_eq s (set_trace l s).
Proof. unfold core_eq; repeat split. Qed.
Lemma core_eq_set_scripts l s : core_eq s (set_scripts l s).
Proof. unfold core_eq; repeat split. Qed.
Lemma core_eq_set_destroying b s : core_eq s (set_destroying b s).
Proof. unfold core_eq; repeat split. Qed.

Lemma ce_cell s s' o : core_eq s s' -> cell_of s' o = cell_of s o.
Proof. intros [_ [E _]]. unfold cell_of. rewrite E. reflexivity. Qed.
Lemma ce_linked s s' : core_eq s s' -> linked s' = linked s.
Proof. intros [_ [_ [_ [E _]]]]. unfold linked. rewrite E. reflexivity. Qed.
Lemma ce_chain s s' : core_eq s s' -> chain s' = chain s.
Proof.
  intros E. unfold chain. rewrite (ce_linked _ _ E). apply flat_map_ext. intros qo. unfold qchain.
  rewrite (ce_cell _ _ _ E). reflexivity.
Qed.
Lemma ce_conns s s' : core_eq s s' -> st_conns s' = st_conns s.
Proof. intros [_ [_ [_ [_ [_ [_ E]]]]]]. exact E. Qed.
Lemma ce_rooted s s' x : core_eq s s' -> (rooted s' x <-> rooted s x).
Proof. intros E. unfold rooted. rewrite (ce_linked _ _ E), (ce_conns _ _ E), (ce_chain _ _ E). tauto. Qed.
Lemma ce_heap s s' : core_eq s s' -> heap_ok s -> heap_ok s'.
Proof.
  intros E. unfold heap_ok. intros [H1 H2]. pose proof (fun o => ce_cell _ _ o E) as Ec.
  destruct E as [En [_ [Ef _]]]. split.
  - intros o c Hc. rewrite Ec in Hc. rewrite En, Ef. eauto.
  - intros o Ho. rewrite Ef in Ho. rewrite En. eauto.
Qed.
Lemma ce_own s s' L : core_eq s s' -> Own s L -> Own s' L.
Proof.
  intros E [H1 H2]. split; auto. intros o Ho. rewrite (ce_cell _ _ _ E), (ce_rooted _ _ _ E). auto.
Qed.
Lemma ce_frame_refl s s' : core_eq s s' -> Frame s s' [].
Proof.
  intros E. constructor.
  - intros x c Hc Hr _.
    assert (Hr' : ~ rooted s' x) by (rewrite (ce_rooted _ _ _ E); exact Hr).
    destruct c; try (rewrite (ce_cell _ _ _ E); split; assumption).
    exists c. rewrite (ce_cell _ _ _ E). repeat split; auto. apply incl_refl.
  - intros x cc Hc Hr. exists cc. rewrite (ce_cell _ _ _ E). auto.
  - destruct E as [-> _]. lia.
Qed.

Lemma ce_inv x s s' :
  core_eq s s' ->
  (forall t l c, lookup t (st_scripts s') = Some l -> In c l -> nohost_call c) ->
  InvX x s -> InvX x s'.
Proof.
  intros E Hs I. destruct I.
  assert (Ec := fun o => ce_cell _ _ o E). assert (El := ce_linked _ _ E). assert (Eh := ce_chain _ _ E).
  destruct E as [En [Ecs [Ef [Els [Eq [Et Eco]]]]]].
  constructor.
  - apply (ce_heap s); auto. unfold core_eq; repeat split; auto.
  - rewrite El; auto.
  - intros qo. rewrite El, Ec. auto.
  - intros qid qo. rewrite Eq, El. intros H. destruct (inv_byqid0 _ _ H) as [H1 H2]. split; auto.
    intros q. rewrite Ec. auto.
  - intros qo. rewrite Et, El. intros H. destruct (inv_bytmo0 _ H) as [H1 [q [co [c H2]]]].
    split; auto. exists q, co, c. rewrite !Ec. exact H2.
  - intros co c qo. rewrite Ec, El. intros H1 H2. destruct (inv_connq0 _ _ _ H1 H2) as [H3 [q H4]].
    split; auto. exists q. rewrite Ec. auto.
  - rewrite Eco. destruct inv_conns0 as [H1 H2]. split; auto. intros co Hco. destruct (H2 _ Hco) as [c Hc].
    exists c. rewrite Ec. auto.
  - intros co c. rewrite Ec, Eco. auto.
  - rewrite Eh. destruct inv_chain0 as [H1 H2]. split; auto. intros o Ho. rewrite Ec. auto.
  - intros o h. rewrite Ec. auto.
  - exact Hs.
Qed.

Lemma inv_weaken s x : Inv s -> InvX x s.
Proof.
  intros I. destruct I. constructor; auto.
  intros qo H. destruct (inv_bytmo0 _ H) as [H1 [q [co [c [H2 [H3 [H4 H5]]]]]]].
  split; auto. exists q, co, c. repeat split; auto. destruct H5 as [H5|H5]; [discriminate|auto].
Qed.

(* ---------------------------------------------------------------------------------- *)
(* Frame: composition                                                                  *)
(* ---------------------------------------------------------------------------------- *)
Lemma frame_trans s1 s2 s3 L1 L2 : Frame s1 s2 L1 -> Frame s2 s3 L2 -> Frame s1 s3 (L1 ++ L2).
Proof.
  intros F1 F2. constructor.
  - intros x c Hc Hr Hn.
    assert (Hn1 : ~ In x L1) by (intros H; apply Hn; apply in_or_app; auto).
    assert (Hn2 : ~ In x L2) by (intros H; apply Hn; apply in_or_app; auto).
    pose proof (fr_cell _ _ _ F1 _ _ Hc Hr Hn1) as G1.
    destruct c as [q|cc|h|].
    + destruct G1 as [G1 G1']. exact (fr_cell _ _ _ F2 _ _ G1 G1' Hn2).
    + destruct G1 as [cc' [G1 [G1' [Ea [Eb [Ec Ed]]]]]].
      pose proof (fr_cell _ _ _ F2 _ _ G1 G1' Hn2) as G2. simpl in G2.
      destruct G2 as [cc'' [G2 [G2' [Ea' [Eb' [Ec' Ed']]]]]].
      exists cc''. repeat split; auto; try congruence. eapply incl_tran; eauto.
    + destruct G1 as [G1 G1']. exact (fr_cell _ _ _ F2 _ _ G1 G1' Hn2).
    + destruct G1 as [G1 G1']. exact (fr_cell _ _ _ F2 _ _ G1 G1' Hn2).
  - intros x cc Hc Hr. destruct (fr_reading _ _ _ F1 _ _ Hc Hr) as [cc' [G1 [G2 G3]]].
    destruct (fr_reading _ _ _ F2 _ _ G1 G2) as [cc'' [G4 [G5 G6]]]. exists cc''. repeat split; auto. congruence.
  - pose proof (fr_next _ _ _ F1). pose proof (fr_next _ _ _ F2). lia.
Qed.

Lemma frame_weaken s s' L L' : Frame s s' L -> incl L L' -> Frame s s' L'.
Proof.
  intros F Hi. constructor.
  - intros x c Hc Hr Hn. apply (fr_cell _ _ _ F _ _ Hc Hr). intros H. apply Hn. apply Hi. exact H.
  - apply (fr_reading _ _ _ F).
  - apply (fr_next _ _ _ F).
Qed.

Lemma frame_refl s : Frame s s [].
Proof. apply ce_frame_refl. apply core_eq_refl. Qed.

(* an object owned by the caller stays owned across a callee that was not given it *)
Lemma own_frame s s' L L' :
  Own s L -> Frame s s' L' -> (forall o, In o L -> ~ In o L') -> Own s' L.
Proof.
  intros [H1 H2] F Hd. split; auto. intros o' Ho. destruct (H2 _ Ho) as [Hc Hr].
  pose proof (fr_cell _ _ _ F _ _ Hc Hr (Hd _ Ho)) as G. simpl in G. exact G.
Qed.

Lemma own_app s L1 L2 : Own s (L1 ++ L2) -> Own s L1 /\ Own s L2 /\ (forall o, In o L1 -> ~ In o L2).
Proof.
  intros [H1 H2]. apply NoDup_app_iff in H1. destruct H1 as [Ha [Hb Hc]].
  repeat split; auto; apply H2; apply in_or_app; auto.
Qed.

Lemma own_cons s o L : Own s (o :: L) -> cell_of s o = Some COpaque /\ ~ rooted s o /\ ~ In o L /\ Own s L.
Proof.
  intros [H1 H2]. inversion H1; subst. destruct (H2 o (or_introl eq_refl)) as [Ha Hb].
  split; [exact Ha|]. split; [exact Hb|]. split; [assumption|]. split; [assumption|].
  intros x Hx. apply H2. right; auto.
Qed.

Lemma own_nil s : Own s [].
Proof. split; [constructor | intros o []]. Qed.

(* ---------------------------------------------------------------------------------- *)
(* The three heap primitives as explicit state transformers                            *)
(* ---------------------------------------------------------------------------------- *)
Definition alloc_st (c : cell) (s : state) : state :=
  {| st_next := S (st_next s); st_cells := (st_next s, c) :: st_cells s; st_freed := st_freed s; st_lists := st_lists s;
     st_byqid := st_byqid s; st_bytmo := st_bytmo s; st_conns := st_conns s; st_tape := st_tape s;
     st_scripts := st_scripts s; st_trace := st_trace s; st_destroying := st_destroying s |}.
Definition free_st (o : obj) (s : state) : state :=
  {| st_next := st_next s; st_cells := remove_key o (st_cells s); st_freed := o :: st_freed s;
     st_lists := st_lists s; st_byqid := st_byqid s; st_bytmo := st_bytmo s; st_conns := st_conns s;
     st_tape := st_tape s; st_scripts := st_scripts s; st_trace := st_trace s; st_destroying := st_destroying s |}.
Definition store_st (o : obj) (c : cell) (s : state) : state := set_cells ((o, c) :: remove_key o (st_cells s)) s.

Lemma alloc_run c s : alloc c s = Ok (st_next s, alloc_st c s).
Proof. reflexivity. Qed.

Lemma touch_run s o c : heap_ok s -> cell_of s o = Some c -> touch o s = Ok (c, s).
Proof.
  intros [H _] Hc. unfold touch. destruct (H _ _ Hc) as [_ Hn].
  apply memb_false in Hn. rewrite Hn. unfold cell_of in Hc. rewrite Hc. reflexivity.
Qed.

Lemma free_run s o c : heap_ok s -> cell_of s o = Some c -> free_obj o s = Ok (tt, free_st o s).
Proof.
  intros [H _] Hc. unfold free_obj. destruct (H _ _ Hc) as [_ Hn].
  apply memb_false in Hn. rewrite Hn. unfold cell_of in Hc. rewrite Hc. reflexivity.
Qed.

Lemma store_run s o c0 c : heap_ok s -> cell_of s o = Some c0 -> store o c s = Ok (tt, store_st o c s).
Proof.
  intros H Hc. unfold store, mbind. rewrite (touch_run _ _ _ H Hc). reflexivity.
Qed.

Lemma safe_touch s o c (Q : cell -> state -> Prop) :
  heap_ok s -> cell_of s o = Some c -> Q c s -> safe (touch o) s Q.
Proof. intros H Hc HQ. unfold safe. rewrite (touch_run _ _ _ H Hc). exact HQ. Qed.

Lemma safe_free s o c (Q : unit -> state -> Prop) :
  heap_ok s -> cell_of s o = Some c -> Q tt (free_st o s) -> safe (free_obj o) s Q.
Proof. intros H Hc HQ. unfold safe. rewrite (free_run _ _ _ H Hc). exact HQ. Qed.

Lemma safe_store s o c0 c (Q : unit -> state -> Prop) :
  heap_ok s -> cell_of s o = Some c0 -> Q tt (store_st o c s) -> safe (store o c) s Q.
Proof. intros H Hc HQ. unfold safe. rewrite (store_run _ _ _ c H Hc). exact HQ. Qed.

Lemma safe_alloc s c (Q : obj -> state -> Prop) : Q (st_next s) (alloc_st c s) -> safe (alloc c) s Q.
Proof. intros HQ. unfold safe. rewrite alloc_run. exact HQ. Qed.

Lemma safe_get_query s qo q (Q : query -> state -> Prop) :
  heap_ok s -> cell_of s qo = Some (CQuery q) -> Q q s -> safe (get_query qo) s Q.
Proof.
  intros H Hc HQ. unfold get_query. apply safe_bind. eapply safe_touch; eauto.
Qed.

Lemma safe_get_conn s co c (Q : conn -> state -> Prop) :
  heap_ok s -> cell_of s co = Some (CConn c) -> Q c s -> safe (get_conn co) s Q.
Proof.
  intros H Hc HQ. unfold get_conn. apply safe_bind. eapply safe_touch; eauto.
Qed.

Lemma cell_alloc c s x : cell_of (alloc_st c s) x = if Nat.eqb x (st_next s) then Some c else cell_of s x.
Proof. reflexivity. Qed.
Lemma cell_free o s x : cell_of (free_st o s) x = if Nat.eqb x o then None else cell_of s x.
Proof. unfold cell_of, free_st. simpl. apply lookup_remove_key. Qed.
Lemma cell_store o c s x : cell_of (store_st o c s) x = if Nat.eqb x o then Some c else cell_of s x.
Proof.
  unfold cell_of, store_st. simpl. destruct (Nat.eqb x o) eqn:E; auto.
  rewrite lookup_remove_key, E. reflexivity.
Qed.

Lemma heap_alloc c s : heap_ok s -> heap_ok (alloc_st c s).
Proof.
  intros [H1 H2]. split.
  - intros o c'. rewrite cell_alloc. simpl. destruct (Nat.eqb o (st_next s)) eqn:E.
    + apply Nat.eqb_eq in E. subst. intros _. split; [lia|]. intros Hin. apply H2 in Hin. lia.
    + intros Hc. destruct (H1 _ _ Hc). split; auto.
  - simpl. intros o Ho. apply H2 in Ho. lia.
Qed.

Lemma heap_free o c s : heap_ok s -> cell_of s o = Some c -> heap_ok (free_st o s).
Proof.
  intros [H1 H2] Hc. split.
  - intros x c'. rewrite cell_free. simpl. destruct (Nat.eqb x o) eqn:E; [discriminate|].
    intros Hx. destruct (H1 _ _ Hx). split; auto. intros [Hin|Hin]; auto.
    subst. rewrite Nat.eqb_refl in E. discriminate.
  - simpl. intros x [Hx|Hx]; auto. subst. destruct (H1 _ _ Hc). auto.
Qed.

Lemma heap_store o c0 c s : heap_ok s -> cell_of s o = Some c0 -> heap_ok (store_st o c s).
Proof.
  intros [H1 H2] Hc. split.
  - intros x c'. rewrite cell_store. simpl. destruct (Nat.eqb x o) eqn:E.
    + apply Nat.eqb_eq in E. subst. intros _. exact (H1 _ _ Hc).
    + intros Hx. exact (H1 _ _ Hx).
  - exact H2.
Qed.

(* a live object is below st_next *)
Lemma live_lt s o c : heap_ok s -> cell_of s o = Some c -> o < st_next s.
Proof. intros [H _] Hc. destruct (H _ _ Hc); auto. Qed.

(* chain depends only on the list structure and the callbacks of the linked queries *)
Lemma chain_same s s' :
  linked s' = linked s -> (forall qo, In qo (linked s) -> qchain s' qo = qchain s qo) -> chain s' = chain s.
Proof.
  intros El Hq. unfold chain. rewrite El. clear El. revert Hq.
  induction (linked s) as [|a l IH]; simpl; intros Hq; auto.
  rewrite Hq by (left; auto). f_equal. apply IH. intros qo Hqo. apply Hq. right; auto.
Qed.

Lemma safe_of_run {A} (m : M A) s a s' (Q : A -> state -> Prop) : m s = Ok (a, s') -> Q a s' -> safe m s Q.
Proof. intros E HQ. unfold safe. rewrite E. exact HQ. Qed.

Lemma mbind_run {A B} (m : M A) (f : A -> M B) s a s1 : m s = Ok (a, s1) -> mbind m f s = f a s1.
Proof. intros E. unfold mbind. rewrite E. reflexivity. Qed.

(* ---------------------------------------------------------------------------------- *)
(* O1/O8: allocation and release of an unrooted opaque object                          *)
(* ---------------------------------------------------------------------------------- *)
Lemma linked_alloc c s : linked (alloc_st c s) = linked s.
Proof. reflexivity. Qed.
Lemma linked_free o s : linked (free_st o s) = linked s.
Proof. reflexivity. Qed.
Lemma linked_store o c s : linked (store_st o c s) = linked s.
Proof. reflexivity. Qed.

(* every rooted object is live *)
Lemma rooted_live x s o : InvX x s -> rooted s o -> exists c, cell_of s o = Some c.
Proof.
  intros I [H|[H|H]].
  - destruct (inv_query _ _ I _ H) as [q [Hq _]]. eauto.
  - destruct (inv_conns _ _ I) as [_ Hc]. destruct (Hc _ H) as [c [Hc' _]]. eauto.
  - destruct (inv_chain _ _ I) as [_ Hc]. rewrite (Hc _ H). eauto.
Qed.

Lemma fresh_unrooted x s : InvX x s -> ~ rooted s (st_next s).
Proof.
  intros I Hr. destruct (rooted_live _ _ _ I Hr) as [c Hc].
  pose proof (live_lt _ _ _ (inv_heap _ _ I) Hc). lia.
Qed.

(* a cell update at an object that is neither a linked query nor changes kinds relevant to the
   invariant: used for opaque objects and unrooted queries *)
Lemma qchain_upd s s' :
  (forall qo, In qo (linked s) -> cell_of s' qo = cell_of s qo) -> linked s' = linked s -> chain s' = chain s.
Proof.
  intros H El. apply chain_same; auto. intros qo Hq. unfold qchain. rewrite H; auto.
Qed.

(* G1: the cells changed only at unrooted objects that are not connections *)
Lemma inv_cells_irrelevant x s s' :
  InvX x s -> heap_ok s' ->
  st_lists s' = st_lists s -> st_byqid s' = st_byqid s -> st_bytmo s' = st_bytmo s -> st_conns s' = st_conns s ->
  st_scripts s' = st_scripts s ->
  (forall o, rooted s o -> cell_of s' o = cell_of s o) ->
  (forall o c, cell_of s' o = Some (CConn c) <-> cell_of s o = Some (CConn c)) ->
  (forall o h, cell_of s' o <> Some (CHost h)) ->
  InvX x s' /\ chain s' = chain s /\ linked s' = linked s.
Proof.
  intros I Hh El Eq Et Ec Es Hr Hc Hnh.
  assert (Ell : linked s' = linked s) by (unfold linked; rewrite El; reflexivity).
  assert (Ech : chain s' = chain s).
  { apply qchain_upd; auto. intros qo Hq. apply Hr. left. exact Hq. }
  split; [|split; auto].
  constructor; auto.
  - rewrite Ell. exact (inv_nodup _ _ I).
  - intros qo. rewrite Ell. intros Hq. destruct (inv_query _ _ I _ Hq) as [q [H1 H2]].
    exists q. rewrite Hr; auto. left; auto.
  - intros qid qo. rewrite Eq, Ell. intros H. destruct (inv_byqid _ _ I _ _ H) as [H1 H2]. split; auto.
    intros q. rewrite Hr by (left; auto). auto.
  - intros qo. rewrite Et, Ell. intros H. destruct (inv_bytmo _ _ I _ H) as [H1 [q [co [c [H2 [H3 [H4 H5]]]]]]].
    split; auto. exists q, co, c. rewrite Hr by (left; auto). repeat split; auto. apply Hc. exact H4.
  - intros co c qo. rewrite Ell. intros H1 H2. apply Hc in H1.
    destruct (inv_connq _ _ I _ _ _ H1 H2) as [H3 [q [H4 H5]]]. split; auto. exists q.
    rewrite Hr by (left; auto). auto.
  - rewrite Ec. destruct (inv_conns _ _ I) as [H1 H2]. split; auto. intros co Hco.
    destruct (H2 _ Hco) as [c [H3 H4]]. exists c. split; auto. apply Hc. exact H3.
  - intros co c H1 H2. rewrite Ec. apply Hc in H1. exact (inv_closed _ _ I _ _ H1 H2).
  - rewrite Ech. destruct (inv_chain _ _ I) as [H1 H2]. split; auto. intros o Ho.
    rewrite Hr; auto. right; right; auto.
  - rewrite Es. exact (inv_scripts _ _ I).
Qed.

(* the corresponding frame: everything outside L keeps its cell, nothing becomes rooted *)
Lemma frame_cells s s' L :
  st_lists s' = st_lists s -> st_conns s' = st_conns s -> chain s' = chain s -> st_next s <= st_next s' ->
  (forall o c, cell_of s o = Some c -> ~ In o L -> cell_of s' o = Some c) ->
  (forall o c, cell_of s o = Some (CConn c) -> cell_of s' o = Some (CConn c)) ->
  Frame s s' L.
Proof.
  intros El Ec Ech Hn Hc Hcc.
  assert (Hr : forall o, rooted s' o <-> rooted s o).
  { intros o. unfold rooted, linked. rewrite El, Ec, Ech. tauto. }
  constructor; auto.
  - intros o c H1 H2 H3. pose proof (Hc _ _ H1 H3) as H4.
    assert (H5 : ~ rooted s' o) by (rewrite Hr; exact H2).
    destruct c; auto. exists c. repeat split; auto. apply incl_refl.
  - intros o cc H1 H2. exists cc. auto.
Qed.

(* O1: allocate an opaque object *)
Lemma alloc_opaque_ok x s :
  InvX x s ->
  let s' := alloc_st COpaque s in
  InvX x s' /\ Frame s s' [] /\ cell_of s' (st_next s) = Some COpaque /\ ~ rooted s' (st_next s)
  /\ chain s' = chain s /\ linked s' = linked s
  /\ (forall o, o <> st_next s -> cell_of s' o = cell_of s o).
Proof.
  intros I s'.
  assert (Hfresh : forall o c, cell_of s o = Some c -> Nat.eqb o (st_next s) = false).
  { intros o c Hc. apply Nat.eqb_neq. pose proof (live_lt _ _ _ (inv_heap _ _ I) Hc). lia. }
  assert (Hsame : forall o c, cell_of s o = Some c -> cell_of s' o = Some c).
  { intros o c Hc. unfold s'. rewrite cell_alloc, (Hfresh _ _ Hc). exact Hc. }
  destruct (inv_cells_irrelevant x s s') as [I' [Ech Ell]]; auto.
  - apply heap_alloc. exact (inv_heap _ _ I).
  - intros o Hr. destruct (rooted_live _ _ _ I Hr) as [c Hc]. rewrite Hc. apply Hsame. exact Hc.
  - intros o c. unfold s'. rewrite cell_alloc. destruct (Nat.eqb o (st_next s)) eqn:E.
    + split; [discriminate|]. intros Hc. rewrite (Hfresh _ _ Hc) in E. discriminate.
    + tauto.
  - intros o h. unfold s'. rewrite cell_alloc. destruct (Nat.eqb o (st_next s)); [discriminate|].
    exact (inv_nohost_cells _ _ I o h).
  - split; [exact I'|]. split.
    + apply frame_cells; auto. simpl. lia.
    + split. { unfold s'. rewrite cell_alloc, Nat.eqb_refl. reflexivity. }
      split. { intros Hr. apply (fresh_unrooted _ _ I).
               unfold rooted in *. rewrite Ell, Ech in Hr. exact Hr. }
      split; auto. split; auto.
      intros o Ho. unfold s'. rewrite cell_alloc. apply Nat.eqb_neq in Ho. rewrite Ho. reflexivity.
Qed.

(* O7/O8: release a live, unrooted object that is not a connection (an owned opaque object, a
   detached query) *)
Lemma free_unrooted_ok x s o c0 :
  InvX x s -> cell_of s o = Some c0 -> (forall cc, c0 <> CConn cc) -> ~ rooted s o ->
  let s' := free_st o s in
  InvX x s' /\ Frame s s' [o] /\ chain s' = chain s /\ linked s' = linked s
  /\ (forall o', o' <> o -> cell_of s' o' = cell_of s o').
Proof.
  intros I Hc Hnc Hr s'.
  assert (Hsame : forall o', o' <> o -> cell_of s' o' = cell_of s o').
  { intros o' Hne. unfold s'. rewrite cell_free. apply Nat.eqb_neq in Hne. rewrite Hne. reflexivity. }
  destruct (inv_cells_irrelevant x s s') as [I' [Ech Ell]]; auto.
  - eapply heap_free; eauto. exact (inv_heap _ _ I).
  - intros o' Hr'. apply Hsame. intros ->. contradiction.
  - intros o' c. unfold s'. rewrite cell_free. destruct (Nat.eqb o' o) eqn:E.
    + apply Nat.eqb_eq in E. subst. rewrite Hc. split; [discriminate|].
      intros H. inversion H. exfalso. eapply Hnc; eauto.
    + tauto.
  - intros o' h. unfold s'. rewrite cell_free. destruct (Nat.eqb o' o); [discriminate|].
    exact (inv_nohost_cells _ _ I o' h).
  - split; [exact I'|]. split; [|split; [exact Ech|split; [exact Ell|exact Hsame]]].
    apply frame_cells; auto.
    + intros o' c Hc' Hn. rewrite Hsame; auto. intros ->. apply Hn. left; auto.
    + intros o' c Hc'. rewrite Hsame; auto. intros ->. rewrite Hc in Hc'. inversion Hc'.
      eapply Hnc; eauto.
Qed.

(* O9: update fields of a live query that no index depends on (error status, try count,
   no_retries, using_tcp) *)
Lemma store_query_misc_ok x s qo q q' :
  InvX x s -> cell_of s qo = Some (CQuery q) ->
  q_cb q' = q_cb q -> q_qid q' = q_qid q -> q_conn q' = q_conn q ->
  let s' := store_st qo (CQuery q') s in
  InvX x s' /\ Frame s s' [qo] /\ chain s' = chain s /\ linked s' = linked s
  /\ (forall o', o' <> qo -> cell_of s' o' = cell_of s o') /\ cell_of s' qo = Some (CQuery q').
Proof.
  intros I Hc Ecb Eqid Econn s'.
  assert (Hsame : forall o', o' <> qo -> cell_of s' o' = cell_of s o').
  { intros o' Hne. unfold s'. rewrite cell_store. apply Nat.eqb_neq in Hne. rewrite Hne. reflexivity. }
  assert (Hqo : cell_of s' qo = Some (CQuery q')).
  { unfold s'. rewrite cell_store, Nat.eqb_refl. reflexivity. }
  assert (Ell : linked s' = linked s) by reflexivity.
  assert (Ech : chain s' = chain s).
  { apply chain_same; auto. intros o Ho. unfold qchain. destruct (Nat.eq_dec o qo) as [->|Hne].
    - rewrite Hqo, Hc, Ecb. reflexivity.
    - rewrite Hsame; auto. }
  assert (Hq : forall o q0, cell_of s o = Some (CQuery q0) ->
                exists q1, cell_of s' o = Some (CQuery q1) /\ q_cb q1 = q_cb q0 /\ q_qid q1 = q_qid q0 /\ q_conn q1 = q_conn q0).
  { intros o q0 H. destruct (Nat.eq_dec o qo) as [->|Hne].
    - rewrite Hc in H. inversion H; subst. exists q'. auto.
    - exists q0. rewrite Hsame; auto. }
  assert (Hconn : forall o c, cell_of s' o = Some (CConn c) <-> cell_of s o = Some (CConn c)).
  { intros o c. destruct (Nat.eq_dec o qo) as [->|Hne].
    - rewrite Hqo, Hc. split; discriminate.
    - rewrite Hsame; auto. tauto. }
  split; [|split; [|split; [exact Ech|split; [exact Ell|split; [exact Hsame|exact Hqo]]]]].
  - constructor.
    + eapply heap_store; eauto. exact (inv_heap _ _ I).
    + rewrite Ell. exact (inv_nodup _ _ I).
    + intros o. rewrite Ell. intros Ho. destruct (inv_query _ _ I _ Ho) as [q0 [H1 H2]].
      destruct (Hq _ _ H1) as [q1 [H3 [H4 _]]]. exists q1. split; auto. rewrite H4. exact H2.
    + intros qid o H. destruct (inv_byqid _ _ I _ _ H) as [H1 H2]. split; auto.
      intros q1 H3. destruct (inv_query _ _ I _ H1) as [q0 [H4 _]].
      destruct (Hq _ _ H4) as [q2 [H5 [_ [H6 _]]]]. rewrite H5 in H3. inversion H3; subst.
      rewrite H6. apply H2. exact H4.
    + intros o H. destruct (inv_bytmo _ _ I _ H) as [H1 [q0 [co [c [H2 [H3 [H4 H5]]]]]]].
      split; auto. destruct (Hq _ _ H2) as [q1 [H6 [_ [_ H7]]]].
      exists q1, co, c. repeat split; auto. { rewrite H7. exact H3. } apply Hconn. exact H4.
    + intros co c o H1 H2. apply Hconn in H1. destruct (inv_connq _ _ I _ _ _ H1 H2) as [H3 [q0 [H4 H5]]].
      split; auto. destruct (Hq _ _ H4) as [q1 [H6 [_ [_ H7]]]]. exists q1. split; auto. rewrite H7. exact H5.
    + destruct (inv_conns _ _ I) as [H1 H2]. split; auto. intros co Hco.
      destruct (H2 _ Hco) as [c [H3 H4]]. exists c. split; auto. apply Hconn. exact H3.
    + intros co c H1 H2. apply Hconn in H1. exact (inv_closed _ _ I _ _ H1 H2).
    + rewrite Ech. destruct (inv_chain _ _ I) as [H1 H2]. split; auto. intros o Ho.
      rewrite Hsame. { auto. } intros ->. rewrite (H2 _ Ho) in Hc. discriminate.
    + intros o h. destruct (Nat.eq_dec o qo) as [->|Hne].
      * rewrite Hqo. discriminate.
      * rewrite Hsame; auto. exact (inv_nohost_cells _ _ I o h).
    + exact (inv_scripts _ _ I).
  - apply frame_cells; auto.
    + intros o c Hc' Hn. rewrite Hsame; auto. intros ->. apply Hn. left; auto.
    + intros o c Hc'. apply Hconn. exact Hc'.
Qed.

Lemma lookup_in_keys {A} o (l : list (nat * A)) c : lookup o l = Some c -> In o (map fst l).
Proof.
  induction l as [|[a b] l IH]; simpl; [discriminate|].
  destruct (Nat.eqb o a) eqn:E; intros H.
  - apply Nat.eqb_eq in E. left; auto.
  - right; auto.
Qed.

(* the state after bytmo := bytmo - qo *)
Definition bytmo_remove_st (qo : obj) (s : state) : state := set_bytmo (remove_nat qo (st_bytmo s)) s.

(* which connection (if any) has qo on its list: unique by the invariant *)
Lemma conn_of_query_unique x s qo co1 c1 co2 c2 :
  InvX x s -> cell_of s co1 = Some (CConn c1) -> In qo (c_queries c1) ->
  cell_of s co2 = Some (CConn c2) -> In qo (c_queries c2) -> co1 = co2.
Proof.
  intros I H1 H2 H3 H4.
  destruct (inv_connq _ _ I _ _ _ H1 H2) as [_ [q [Hq Hc]]].
  destruct (inv_connq _ _ I _ _ _ H3 H4) as [_ [q' [Hq' Hc']]].
  rewrite Hq in Hq'. inversion Hq'; subst. rewrite Hc in Hc'. inversion Hc'. reflexivity.
Qed.

Definition strip (qo : obj) (c : cell) : cell :=
  match c with CConn cc => CConn (set_c_queries (remove_nat qo (c_queries cc)) cc) | _ => c end.

Lemma set_c_queries_id c : set_c_queries (c_queries c) c = c.
Proof. destruct c; reflexivity. Qed.

Lemma strip_notin qo c : (forall cc, c = CConn cc -> ~ In qo (c_queries cc)) -> strip qo c = c.
Proof.
  destruct c as [q|cc|h|]; simpl; auto. intros H. rewrite remove_nat_notin by (apply H; reflexivity).
  rewrite set_c_queries_id. reflexivity.
Qed.

(* unlink_conn_node removes qo from the list of the (unique) connection that has it *)
Lemma unlink_run_gen s qo :
  heap_ok s ->
  (forall co1 c1 co2 c2, cell_of s co1 = Some (CConn c1) -> In qo (c_queries c1) ->
                         cell_of s co2 = Some (CConn c2) -> In qo (c_queries c2) -> co1 = co2) ->
  exists cells', unlink_conn_node qo s = Ok (tt, set_cells cells' s)
    /\ forall o, cell_of (set_cells cells' s) o = option_map (strip qo) (cell_of s o).
Proof.
  intros Hh Huniq. unfold unlink_conn_node.
  match goal with |- context [find ?f ?l] => destruct (find f l) as [co|] eqn:F end.
  - apply find_some in F. destruct F as [_ F].
    destruct (lookup co (st_cells s)) as [[q|c|h|]|] eqn:L; try discriminate.
    apply memb_In in F.
    assert (Hc : cell_of s co = Some (CConn c)) by exact L.
    assert (E1 : get_conn co s = Ok (c, s)).
    { unfold get_conn, mbind. rewrite (touch_run _ _ _ Hh Hc). reflexivity. }
    rewrite (mbind_run _ _ _ _ _ E1).
    rewrite (store_run _ _ _ (CConn (set_c_queries (remove_nat qo (c_queries c)) c)) Hh Hc).
    eexists. split; [reflexivity|].
    intros o. change (cell_of (store_st co (CConn (set_c_queries (remove_nat qo (c_queries c)) c)) s) o =
                      option_map (strip qo) (cell_of s o)).
    rewrite cell_store. destruct (Nat.eqb o co) eqn:E.
    + apply Nat.eqb_eq in E. subst. rewrite Hc. reflexivity.
    + destruct (cell_of s o) as [c'|] eqn:Ho; simpl; auto. f_equal. symmetry. apply strip_notin.
      intros cc -> Hin. apply Nat.eqb_neq in E. apply E.
      eapply Huniq; eauto.
  - exists (st_cells s). split.
    + destruct s; reflexivity.
    + intros o. replace (set_cells (st_cells s) s) with s by (destruct s; reflexivity).
      destruct (cell_of s o) as [c'|] eqn:Ho; simpl; auto. f_equal. symmetry. apply strip_notin.
      intros cc -> Hin.
      pose proof (find_none _ _ F o) as Fn. simpl in Fn.
      unfold cell_of in Ho. rewrite Ho in Fn.
      assert (Hk : In o (map fst (st_cells s))) by (eapply lookup_in_keys; eauto).
      specialize (Fn Hk). apply memb_false in Fn. contradiction.
Qed.

Lemma unlink_run x s qo :
  InvX x s ->
  exists cells', unlink_conn_node qo s = Ok (tt, set_cells cells' s)
    /\ forall o, cell_of (set_cells cells' s) o = option_map (strip qo) (cell_of s o).
Proof.
  intros I. apply unlink_run_gen. exact (inv_heap _ _ I).
  intros. eapply conn_of_query_unique; eauto.
Qed.

(* O5: ares_query_remove_from_conn *)
Lemma remove_from_conn_ok x s qo q :
  InvX x s -> (x = None \/ x = Some qo) -> In qo (linked s) -> cell_of s qo = Some (CQuery q) ->
  exists s', remove_from_conn qo s = Ok (tt, s')
    /\ Inv s' /\ Frame s s' []
    /\ st_lists s' = st_lists s /\ st_byqid s' = st_byqid s /\ st_conns s' = st_conns s
    /\ st_tape s' = st_tape s /\ st_trace s' = st_trace s /\ st_scripts s' = st_scripts s
    /\ st_destroying s' = st_destroying s /\ st_next s' = st_next s
    /\ chain s' = chain s
    /\ st_bytmo s' = remove_nat qo (st_bytmo s)
    /\ (forall o, cell_of s' o = if Nat.eqb o qo then Some (CQuery (set_q_conn None q))
                                 else option_map (strip qo) (cell_of s o)).
Proof.
  intros I Hx Hl Hq.
  pose proof (inv_heap _ _ I) as Hh.
  unfold remove_from_conn.
  assert (E1 : get_query qo s = Ok (q, s)).
  { unfold get_query, mbind. rewrite (touch_run _ _ _ Hh Hq). reflexivity. }
  rewrite (mbind_run _ _ _ _ _ E1).
  set (s1 := bytmo_remove_st qo s).
  assert (E2 : modify (fun s0 => set_bytmo (remove_nat qo (st_bytmo s0)) s0) s = Ok (tt, s1)) by reflexivity.
  rewrite (mbind_run _ _ _ _ _ E2).
  (* s1 satisfies the invariant with qo exempted *)
  assert (I1 : InvX (Some qo) s1).
  { destruct I. constructor; auto.
    intros o Ho. unfold s1 in Ho. simpl in Ho. apply in_remove_nat in Ho. destruct Ho as [Ho Hne].
    destruct (inv_bytmo0 _ Ho) as [H1 [q0 [co [c [H2 [H3 [H4 H5]]]]]]].
    split; auto. exists q0, co, c. repeat split; auto.
    destruct H5 as [H5|H5]; auto. destruct Hx as [-> | ->]; [discriminate|]. inversion H5. contradiction. }
  destruct (unlink_run _ _ qo I1) as [cells' [E3 Hc2]].
  rewrite (mbind_run _ _ _ _ _ E3).
  set (s2 := set_cells cells' s1) in *.
  assert (Hq2 : cell_of s2 qo = Some (CQuery q)).
  { rewrite Hc2. change (cell_of s1 qo) with (cell_of s qo). rewrite Hq. reflexivity. }
  assert (Hh2 : heap_ok s2).
  { destruct Hh as [Ha Hb]. split.
    - intros o c Hc. rewrite Hc2 in Hc. change (cell_of s1 o) with (cell_of s o) in Hc.
      destruct (cell_of s o) as [c0|] eqn:Ho; simpl in Hc; [|discriminate]. exact (Ha _ _ Ho).
    - exact Hb. }
  assert (E4 : get_query qo s2 = Ok (q, s2)).
  { unfold get_query, mbind. rewrite (touch_run _ _ _ Hh2 Hq2). reflexivity. }
  rewrite (mbind_run _ _ _ _ _ E4).
  rewrite (store_run _ _ _ (CQuery (set_q_conn None q)) Hh2 Hq2).
  set (s3 := store_st qo (CQuery (set_q_conn None q)) s2).
  assert (Hc3 : forall o, cell_of s3 o = if Nat.eqb o qo then Some (CQuery (set_q_conn None q))
                                         else option_map (strip qo) (cell_of s o)).
  { intros o. unfold s3. rewrite cell_store. destruct (Nat.eqb o qo); auto. rewrite Hc2. reflexivity. }
  assert (Ell : linked s3 = linked s) by reflexivity.
  assert (Ech : chain s3 = chain s).
  { apply chain_same; auto. intros o Ho. unfold qchain. rewrite Hc3.
    destruct (Nat.eqb o qo) eqn:E.
    - apply Nat.eqb_eq in E. subst. rewrite Hq. reflexivity.
    - destruct (cell_of s o) as [[q0|c0|h0|]|]; reflexivity. }
  (* how cells of the three kinds look afterwards *)
  assert (Hquery : forall o q0, cell_of s o = Some (CQuery q0) ->
             cell_of s3 o = Some (CQuery (if Nat.eqb o qo then set_q_conn None q0 else q0))).
  { intros o q0 H. rewrite Hc3. destruct (Nat.eqb o qo) eqn:E.
    - apply Nat.eqb_eq in E. subst. rewrite Hq in H. inversion H; subst. reflexivity.
    - rewrite H. reflexivity. }
  assert (Hconn : forall o c, cell_of s3 o = Some (CConn c) <->
             exists c0, cell_of s o = Some (CConn c0) /\ c = set_c_queries (remove_nat qo (c_queries c0)) c0).
  { intros o c. rewrite Hc3. destruct (Nat.eqb o qo) eqn:E.
    - apply Nat.eqb_eq in E. subst. rewrite Hq. split; [discriminate|]. intros [c0 [H _]]. discriminate.
    - destruct (cell_of s o) as [[q0|c0|h0|]|]; simpl; split; try discriminate;
        try (intros [c1 [H _]]; discriminate).
      + intros H. inversion H. exists c0. auto.
      + intros [c1 [H1 H2]]. inversion H1; subst. reflexivity. }
  exists s3. split; [reflexivity|].
  split; [|split; [|repeat (split; [reflexivity|]); split; [exact Ech|split; [reflexivity|exact Hc3]]]].
  - (* Inv s3 *)
    constructor.
    + eapply heap_store; eauto.
    + rewrite Ell. exact (inv_nodup _ _ I).
    + intros o. rewrite Ell. intros Ho. destruct (inv_query _ _ I _ Ho) as [q0 [H1 H2]].
      rewrite (Hquery _ _ H1). eexists. split; [reflexivity|]. destruct (Nat.eqb o qo); exact H2.
    + intros qid o H. change (st_byqid s3) with (st_byqid s) in H.
      destruct (inv_byqid _ _ I _ _ H) as [H1 H2]. split; auto.
      intros q1 H3. destruct (inv_query _ _ I _ H1) as [q0 [H4 _]]. rewrite (Hquery _ _ H4) in H3.
      inversion H3; subst. rewrite <- (H2 _ H4). destruct (Nat.eqb o qo); reflexivity.
    + intros o Ho. change (st_bytmo s3) with (remove_nat qo (st_bytmo s)) in Ho.
      apply in_remove_nat in Ho. destruct Ho as [Ho Hne].
      destruct (inv_bytmo _ _ I _ Ho) as [H1 [q0 [co [c [H2 [H3 [H4 H5]]]]]]].
      split; auto. exists q0, co, (set_c_queries (remove_nat qo (c_queries c)) c).
      rewrite (Hquery _ _ H2). apply Nat.eqb_neq in Hne as Hne'. rewrite Hne'.
      split; [reflexivity|]. split; [exact H3|]. split.
      * apply Hconn. exists c. auto.
      * right. simpl. apply in_remove_nat. split; auto.
        destruct H5 as [H5|H5]; auto. destruct Hx as [-> | ->]; [discriminate|]. inversion H5. contradiction.
    + intros co c o H1 H2. apply Hconn in H1. destruct H1 as [c0 [H1 ->]]. simpl in H2.
      apply in_remove_nat in H2. destruct H2 as [H2 Hne].
      destruct (inv_connq _ _ I _ _ _ H1 H2) as [H3 [q0 [H4 H5]]]. split; auto.
      rewrite (Hquery _ _ H4). apply Nat.eqb_neq in Hne. rewrite Hne. eauto.
    + destruct (inv_conns _ _ I) as [H1 H2]. split; auto. intros co Hco.
      destruct (H2 _ Hco) as [c [H3 H4]]. exists (set_c_queries (remove_nat qo (c_queries c)) c).
      split; [apply Hconn; eauto|exact H4].
    + intros co c H1 H2. apply Hconn in H1. destruct H1 as [c0 [H1 ->]]. simpl in H2.
      destruct (inv_closed _ _ I _ _ H1 H2) as [H4 H5]. repeat split; auto.
      simpl. rewrite H5. reflexivity.
    + rewrite Ech. destruct (inv_chain _ _ I) as [H1 H2]. split; auto. intros o Ho.
      rewrite Hc3. destruct (Nat.eqb o qo) eqn:E.
      * apply Nat.eqb_eq in E. subst. rewrite (H2 _ Ho) in Hq. discriminate.
      * rewrite (H2 _ Ho). reflexivity.
    + intros o h. rewrite Hc3. destruct (Nat.eqb o qo); [discriminate|].
      pose proof (inv_nohost_cells _ _ I o) as Hn.
      destruct (cell_of s o) as [[q0|c0|h0|]|]; simpl; try discriminate. intros _.
      apply (Hn h0). reflexivity.
    + exact (inv_scripts _ _ I).
  - (* Frame *)
    assert (Hr : forall o, rooted s3 o <-> rooted s o).
    { intros o. unfold rooted. rewrite Ell, Ech. tauto. }
    constructor.
    + intros o c H1 H2 _. assert (Hne : Nat.eqb o qo = false).
      { apply Nat.eqb_neq. intros ->. apply H2. left. exact Hl. }
      assert (H3 : ~ rooted s3 o) by (rewrite Hr; exact H2).
      destruct c as [q0|c0|h0|].
      * split; auto. rewrite Hc3, Hne, H1. reflexivity.
      * exists (set_c_queries (remove_nat qo (c_queries c0)) c0). rewrite Hc3, Hne, H1. simpl.
        repeat split; auto. intros y Hy. apply in_remove_nat in Hy. tauto.
      * split; auto. rewrite Hc3, Hne, H1. reflexivity.
      * split; auto. rewrite Hc3, Hne, H1. reflexivity.
    + intros o cc H1 H2. exists (set_c_queries (remove_nat qo (c_queries cc)) cc).
      split; [apply Hconn; eauto|auto].
    + simpl. lia.
Qed.


Lemma remove_nat_app a l1 l2 : remove_nat a (l1 ++ l2) = remove_nat a l1 ++ remove_nat a l2.
Proof. unfold remove_nat. apply filter_app. Qed.

Lemma remove_nat_split a l : NoDup l -> In a l -> exists l1 l2, l = l1 ++ a :: l2 /\ remove_nat a l = l1 ++ l2.
Proof.
  intros Hn Hin. destruct (in_split _ _ Hin) as [l1 [l2 ->]]. exists l1, l2. split; auto.
  apply NoDup_remove_2 in Hn.
  rewrite remove_nat_app. simpl. rewrite Nat.eqb_refl. simpl.
  rewrite !remove_nat_notin; auto; intros H; apply Hn; apply in_or_app; auto.
Qed.

Lemma flat_map_remove (f : nat -> list nat) a l :
  NoDup l -> In a l -> NoDup (flat_map f l) ->
  NoDup (flat_map f (remove_nat a l))
  /\ (forall x, In x (flat_map f (remove_nat a l)) -> In x (flat_map f l))
  /\ (forall x, In x (f a) -> ~ In x (flat_map f (remove_nat a l)))
  /\ NoDup (f a).
Proof.
  intros Hn Hin Hd. destruct (remove_nat_split _ _ Hn Hin) as [l1 [l2 [-> E]]]. rewrite E.
  rewrite flat_map_app in *. simpl in Hd. rewrite flat_map_app.
  apply NoDup_app_iff in Hd. destruct Hd as [H1 [H2 H3]].
  apply NoDup_app_iff in H2. destruct H2 as [H4 [H5 H6]].
  repeat split.
  - apply NoDup_app_iff. repeat split; auto. intros x Hx Hx'. apply (H3 x Hx). apply in_or_app; auto.
  - intros x Hx. apply in_app_or in Hx. apply in_or_app. destruct Hx; auto. right. apply in_or_app; auto.
  - intros x Hx Hx'. apply in_app_or in Hx'. destruct Hx' as [Hx'|Hx'].
    + apply (H3 x Hx'). apply in_or_app; auto.
    + apply (H6 x Hx Hx').
  - exact H4.
Qed.

(* O6: ares_detach_query *)
Lemma detach_query_ok x s qo q :
  InvX x s -> (x = None \/ x = Some qo) -> In qo (linked s) -> cell_of s qo = Some (CQuery q) ->
  exists s', detach_query qo s = Ok (tt, s')
    /\ Inv s' /\ Frame s s' []
    /\ st_conns s' = st_conns s
    /\ st_tape s' = st_tape s /\ st_trace s' = st_trace s /\ st_scripts s' = st_scripts s
    /\ st_destroying s' = st_destroying s
    /\ st_lists s' = map (remove_nat qo) (st_lists s)
    /\ cell_of s' qo = Some (CQuery (set_q_conn None q))
    /\ ~ rooted s' qo
    /\ Own s' (cobjs (q_cb q))
    /\ (forall o, cell_of s' o = if Nat.eqb o qo then Some (CQuery (set_q_conn None q))
                                 else option_map (strip qo) (cell_of s o)).
Proof.
  intros I Hx Hl Hq.
  destruct (remove_from_conn_ok _ _ _ _ I Hx Hl Hq)
    as [s1 [E1 [I1 [F1 [El [Eq [Ec [Etp [Etr [Esc [Ed [En [Ech [Ebt Hc1]]]]]]]]]]]]]].
  unfold detach_query. rewrite (mbind_run _ _ _ _ _ E1).
  set (q1 := set_q_conn None q).
  assert (Hq1 : cell_of s1 qo = Some (CQuery q1)) by (rewrite Hc1, Nat.eqb_refl; reflexivity).
  pose proof (inv_heap _ _ I1) as Hh1.
  assert (E2 : get_query qo s1 = Ok (q1, s1)).
  { unfold get_query, mbind. rewrite (touch_run _ _ _ Hh1 Hq1). reflexivity. }
  rewrite (mbind_run _ _ _ _ _ E2).
  set (s2 := set_lists (map (remove_nat qo) (st_lists s1)) (set_byqid (remove_key (q_qid q1) (st_byqid s1)) s1)).
  exists s2. split; [reflexivity|].
  assert (Hl1 : In qo (linked s1)) by (unfold linked; rewrite El; exact Hl).
  assert (Ell : linked s2 = remove_nat qo (linked s1)).
  { unfold linked, s2. simpl. apply concat_map_remove. }
  assert (Hcell : forall o, cell_of s2 o = cell_of s1 o) by reflexivity.
  destruct (inv_chain _ _ I1) as [Hcn Hco].
  destruct (flat_map_remove (qchain s1) qo (linked s1) (inv_nodup _ _ I1) Hl1 Hcn) as [G1 [G2 [G3 G4]]].
  assert (Ech2 : chain s2 = flat_map (qchain s1) (remove_nat qo (linked s1))).
  { unfold chain. rewrite Ell. apply flat_map_ext. intros o. unfold qchain. rewrite Hcell. reflexivity. }
  assert (Hqc : qchain s1 qo = cobjs (q_cb q)).
  { unfold qchain. rewrite Hq1. reflexivity. }
  assert (Hnr : ~ rooted s2 qo).
  { intros [H|[H|H]].
    - rewrite Ell in H. apply in_remove_nat in H. tauto.
    - destruct (inv_conns _ _ I1) as [_ Hcc]. destruct (Hcc _ H) as [c [Hc' _]]. rewrite Hq1 in Hc'. discriminate.
    - rewrite Ech2 in H. apply G2 in H. rewrite (Hco _ H) in Hq1. discriminate. }
  split; [|split; [|repeat (split; [first [reflexivity | assumption | (simpl; congruence)]|])]].
  - (* Inv s2 *)
    constructor.
    + exact Hh1.
    + rewrite Ell. apply nodup_remove_nat. exact (inv_nodup _ _ I1).
    + intros o. rewrite Ell. intros Ho. apply in_remove_nat in Ho. destruct Ho as [Ho _].
      exact (inv_query _ _ I1 _ Ho).
    + intros qid o H. unfold s2 in H. simpl in H. rewrite lookup_remove_key in H.
      destruct (Nat.eqb qid (q_qid q)) eqn:E; [discriminate|].
      destruct (inv_byqid _ _ I1 _ _ H) as [H1 H2]. split; [|exact H2].
      rewrite Ell. apply in_remove_nat. split; auto. intros ->.
      apply Nat.eqb_neq in E. apply E. symmetry. exact (H2 _ Hq1).
    + intros o Ho. change (st_bytmo s2) with (st_bytmo s1) in Ho.
      destruct (inv_bytmo _ _ I1 _ Ho) as [H1 H2]. split; [|exact H2].
      rewrite Ell. apply in_remove_nat. split; auto. intros ->.
      rewrite Ebt in Ho. apply in_remove_nat in Ho. tauto.
    + intros co c o H1 H2. destruct (inv_connq _ _ I1 _ _ _ H1 H2) as [H3 H4]. split; [|exact H4].
      rewrite Ell. apply in_remove_nat. split; auto. intros ->.
      destruct H4 as [q' [H4 H5]]. rewrite Hq1 in H4. inversion H4; subst. discriminate.
    + exact (inv_conns _ _ I1).
    + exact (inv_closed _ _ I1).
    + rewrite Ech2. split; auto. intros o Ho. apply Hco. apply G2. exact Ho.
    + exact (inv_nohost_cells _ _ I1).
    + exact (inv_scripts _ _ I1).
  - (* Frame s s2 [] *)
    assert (F2 : Frame s1 s2 []).
    { constructor.
      - intros o c H1 H2 _.
        assert (H3 : ~ rooted s2 o).
        { intros [H|[H|H]]; apply H2.
          - left. rewrite Ell in H. apply in_remove_nat in H. tauto.
          - right; left. exact H.
          - right; right. rewrite Ech2 in H. apply G2. exact H. }
        destruct c; auto. exists c. repeat split; auto. apply incl_refl.
      - intros o cc H1 H2. exists cc. auto.
      - simpl. lia. }
    exact (frame_trans _ _ _ _ _ F1 F2).
  - (* Own s2 (cobjs (q_cb q)) and the cells *)
    split; [|intros o; rewrite Hcell; apply Hc1].
    split.
    + rewrite <- Hqc. exact G4.
    + intros o Ho. rewrite <- Hqc in Ho. split.
      * apply Hco. unfold chain. apply in_flat_map. exists qo. split; auto.
      * intros [H|[H|H]].
        -- rewrite Ell in H. apply in_remove_nat in H. destruct H as [H _].
           destruct (inv_query _ _ I1 _ H) as [q' [Hq' _]].
           assert (Hop : cell_of s1 o = Some COpaque).
           { apply Hco. unfold chain. apply in_flat_map. exists qo. split; auto. }
           rewrite Hop in Hq'. discriminate.
        -- destruct (inv_conns _ _ I1) as [_ Hcc]. destruct (Hcc _ H) as [c [Hc' _]].
           assert (Hop : cell_of s1 o = Some COpaque).
           { apply Hco. unfold chain. apply in_flat_map. exists qo. split; auto. }
           change (st_conns s2) with (st_conns s1) in H. rewrite Hop in Hc'. discriminate.
        -- rewrite Ech2 in H. exact (G3 _ Ho H).
Qed.

(* ---------------------------------------------------------------------------------- *)
(* O14: changes of st_lists that keep the concatenation (ares_cancel's list swap)       *)
(* ---------------------------------------------------------------------------------- *)
Lemma lists_same_linked x s ls :
  concat ls = linked s -> InvX x s ->
  InvX x (set_lists ls s) /\ Frame s (set_lists ls s) [] /\ chain (set_lists ls s) = chain s.
Proof.
  intros E I.
  assert (Ell : linked (set_lists ls s) = linked s) by exact E.
  assert (Hc : forall o, cell_of (set_lists ls s) o = cell_of s o) by reflexivity.
  assert (Ech : chain (set_lists ls s) = chain s).
  { apply chain_same; auto. }
  assert (Hr : forall o, rooted (set_lists ls s) o <-> rooted s o).
  { intros o. unfold rooted. rewrite Ell, Ech. simpl. tauto. }
  split; [|split; auto].
  - destruct I. constructor; try rewrite Ell; try rewrite Ech; auto.
  - constructor.
    + intros o c H1 H2 _. assert (H3 : ~ rooted (set_lists ls s) o) by (rewrite Hr; exact H2).
      destruct c; auto. exists c. repeat split; auto. apply incl_refl.
    + intros o cc H1 H2. exists cc. auto.
    + simpl. lia.
Qed.

(* ---------------------------------------------------------------------------------- *)
(* connections                                                                         *)
(* ---------------------------------------------------------------------------------- *)
(* O11b/O12: a connection cell changes in its flags only (reading, closed) *)
Lemma store_conn_flags_ok x s co c c' :
  InvX x s -> cell_of s co = Some (CConn c) ->
  c_queries c' = c_queries c -> c_sock c' = c_sock c ->
  (c_closed c' = true -> ~ In co (st_conns s) /\ c_queries c = []) ->
  (In co (st_conns s) -> c_closed c' = false) ->
  let s' := store_st co (CConn c') s in
  InvX x s' /\ chain s' = chain s /\ linked s' = linked s
  /\ (forall o, o <> co -> cell_of s' o = cell_of s o) /\ cell_of s' co = Some (CConn c').
Proof.
  intros I Hc Eq Es Hcl1 Hcl2 s'.
  assert (Hsame : forall o, o <> co -> cell_of s' o = cell_of s o).
  { intros o Hne. unfold s'. rewrite cell_store. apply Nat.eqb_neq in Hne. rewrite Hne. reflexivity. }
  assert (Hco : cell_of s' co = Some (CConn c')).
  { unfold s'. rewrite cell_store, Nat.eqb_refl. reflexivity. }
  assert (Ell : linked s' = linked s) by reflexivity.
  assert (Hqs : forall o q, cell_of s o = Some (CQuery q) -> cell_of s' o = Some (CQuery q)).
  { intros o q H. rewrite Hsame; auto. intros ->. rewrite Hc in H. discriminate. }
  assert (Ech : chain s' = chain s).
  { apply chain_same; auto. intros o Ho. unfold qchain.
    destruct (inv_query _ _ I _ Ho) as [q [H1 _]]. rewrite (Hqs _ _ H1), H1. reflexivity. }
  assert (Hconn : forall o c1, cell_of s' o = Some (CConn c1) ->
            exists c0, cell_of s o = Some (CConn c0) /\ c_queries c1 = c_queries c0
                       /\ ((o = co /\ c1 = c') \/ (o <> co /\ c1 = c0))).
  { intros o c1 H. destruct (Nat.eq_dec o co) as [->|Hne].
    - rewrite Hco in H. inversion H; subst. exists c. auto.
    - rewrite Hsame in H; auto. exists c1. auto. }
  assert (Hconn' : forall o c0, cell_of s o = Some (CConn c0) ->
            exists c1, cell_of s' o = Some (CConn c1) /\ c_queries c1 = c_queries c0
                       /\ ((o = co /\ c1 = c') \/ (o <> co /\ c1 = c0))).
  { intros o c0 H. destruct (Nat.eq_dec o co) as [->|Hne].
    - rewrite Hc in H. inversion H; subst. exists c'. auto.
    - exists c0. rewrite Hsame; auto. }
  split; [|split; [exact Ech|split; [exact Ell|split; [exact Hsame|exact Hco]]]].
  constructor.
  - eapply heap_store; eauto. exact (inv_heap _ _ I).
  - rewrite Ell. exact (inv_nodup _ _ I).
  - intros o. rewrite Ell. intros Ho. destruct (inv_query _ _ I _ Ho) as [q [H1 H2]]. exists q. split; auto.
  - intros qid o H. destruct (inv_byqid _ _ I _ _ H) as [H1 H2]. split; auto. intros q Hq. apply H2.
    destruct (inv_query _ _ I _ H1) as [q0 [H3 _]]. rewrite (Hqs _ _ H3) in Hq. inversion Hq; subst. exact H3.
  - intros o H. destruct (inv_bytmo _ _ I _ H) as [H1 [q [co1 [c1 [H2 [H3 [H4 H5]]]]]]]. split; auto.
    destruct (Hconn' _ _ H4) as [c2 [H6 [H7 _]]]. exists q, co1, c2. repeat split; auto.
    rewrite H7. exact H5.
  - intros co1 c1 o H1 H2. destruct (Hconn _ _ H1) as [c0 [H3 [H4 _]]]. rewrite H4 in H2.
    destruct (inv_connq _ _ I _ _ _ H3 H2) as [H5 [q [H6 H7]]]. split; auto. exists q. split; auto.
  - destruct (inv_conns _ _ I) as [H1 H2]. split; auto. intros co1 H. destruct (H2 _ H) as [c0 [H3 H4]].
    destruct (Hconn' _ _ H3) as [c1 [H5 [_ [[-> ->]|[_ ->]]]]]; exists c1 || idtac.
    + exists c'. split; auto.
    + exists c0. split; auto.
  - intros co1 c1 H1 H2. destruct (Hconn _ _ H1) as [c0 [H3 [H4 [[-> ->]|[Hne ->]]]]].
    + destruct (Hcl1 H2) as [H5 H6]. split; auto. congruence.
    + exact (inv_closed _ _ I _ _ H3 H2).
  - rewrite Ech. destruct (inv_chain _ _ I) as [H1 H2]. split; auto. intros o Ho. rewrite Hsame; auto.
    intros ->. rewrite (H2 _ Ho) in Hc. discriminate.
  - intros o h. destruct (Nat.eq_dec o co) as [->|Hne].
    + rewrite Hco. discriminate.
    + rewrite Hsame; auto. exact (inv_nohost_cells _ _ I o h).
  - exact (inv_scripts _ _ I).
Qed.

(* O3: a new connection (no queries yet), appended to the connection list *)
Lemma new_conn_ok x s c0 :
  InvX x s -> c_queries c0 = [] -> c_closed c0 = false ->
  let co := st_next s in
  let s' := set_conns (st_conns s ++ [co]) (alloc_st (CConn c0) s) in
  InvX x s' /\ Frame s s' [] /\ cell_of s' co = Some (CConn c0) /\ In co (st_conns s')
  /\ chain s' = chain s /\ linked s' = linked s /\ (forall o, o <> co -> cell_of s' o = cell_of s o)
  /\ st_byqid s' = st_byqid s /\ st_bytmo s' = st_bytmo s.
Proof.
  intros I Eq Ecl co s'.
  assert (Hfresh : forall o c, cell_of s o = Some c -> o <> co).
  { intros o c Hc. pose proof (live_lt _ _ _ (inv_heap _ _ I) Hc). unfold co. lia. }
  assert (Hsame : forall o, o <> co -> cell_of s' o = cell_of s o).
  { intros o Hne. unfold s'. change (cell_of (set_conns (st_conns s ++ [co]) (alloc_st (CConn c0) s)) o)
      with (cell_of (alloc_st (CConn c0) s) o). rewrite cell_alloc. apply Nat.eqb_neq in Hne. fold co. rewrite Hne. reflexivity. }
  assert (Hco : cell_of s' co = Some (CConn c0)).
  { unfold s'. change (cell_of (set_conns (st_conns s ++ [co]) (alloc_st (CConn c0) s)) co)
      with (cell_of (alloc_st (CConn c0) s) co). rewrite cell_alloc. unfold co. rewrite Nat.eqb_refl. reflexivity. }
  assert (Hold : forall o c, cell_of s o = Some c -> cell_of s' o = Some c).
  { intros o c Hc. rewrite Hsame; auto. eapply Hfresh; eauto. }
  assert (Ell : linked s' = linked s) by reflexivity.
  assert (Ech : chain s' = chain s).
  { apply chain_same; auto. intros o Ho. unfold qchain.
    destruct (inv_query _ _ I _ Ho) as [q [H1 _]]. rewrite (Hold _ _ H1), H1. reflexivity. }
  assert (Hnew : forall o c, cell_of s' o = Some c -> (o = co /\ c = CConn c0) \/ cell_of s o = Some c).
  { intros o c H. destruct (Nat.eq_dec o co) as [->|Hne].
    - rewrite Hco in H. inversion H. auto.
    - rewrite Hsame in H; auto. }
  assert (Hnotin : ~ In co (st_conns s)).
  { intros H. destruct (inv_conns _ _ I) as [_ Hc]. destruct (Hc _ H) as [c [Hc' _]]. eapply Hfresh; eauto. }
  split; [|split; [|split; [exact Hco|split; [|split; [exact Ech|split; [exact Ell|split; [exact Hsame|split; reflexivity]]]]]]].
  - constructor.
    + apply (heap_alloc (CConn c0)). exact (inv_heap _ _ I).
    + rewrite Ell. exact (inv_nodup _ _ I).
    + intros o. rewrite Ell. intros Ho. destruct (inv_query _ _ I _ Ho) as [q [H1 H2]]. exists q. split; auto.
    + intros qid o H. destruct (inv_byqid _ _ I _ _ H) as [H1 H2]. split; auto. intros q Hq.
      destruct (Hnew _ _ Hq) as [[_ Hx]|Hx]; [discriminate|auto].
    + intros o H. destruct (inv_bytmo _ _ I _ H) as [H1 [q [co1 [c1 [H2 [H3 [H4 H5]]]]]]]. split; auto.
      exists q, co1, c1. repeat split; auto.
    + intros co1 c1 o H1 H2. destruct (Hnew _ _ H1) as [[_ Hx]|Hx].
      * inversion Hx; subst. rewrite Eq in H2. destruct H2.
      * destruct (inv_connq _ _ I _ _ _ Hx H2) as [H3 [q [H4 H5]]]. split; auto. exists q. split; auto.
    + destruct (inv_conns _ _ I) as [H1 H2]. split.
      * simpl. apply NoDup_app_iff. repeat split; auto.
        -- constructor; [intros []|constructor].
        -- intros o Ho [Hx|[]]. subst. contradiction.
      * simpl. intros o Ho. apply in_app_or in Ho. destruct Ho as [Ho|[Ho|[]]].
        -- destruct (H2 _ Ho) as [c [H3 H4]]. exists c. split; auto.
        -- subst. exists c0. split; auto.
    + intros co1 c1 H1 H2. destruct (Hnew _ _ H1) as [[_ Hx]|Hx].
      * inversion Hx; subst. congruence.
      * destruct (inv_closed _ _ I _ _ Hx H2) as [H3 H4]. split; auto. simpl. intros Hin.
        apply in_app_or in Hin. destruct Hin as [Hin|[Hin|[]]]; auto. subst. eapply Hfresh; eauto.
    + rewrite Ech. destruct (inv_chain _ _ I) as [H1 H2]. split; auto.
    + intros o h H. destruct (Hnew _ _ H) as [[_ Hx]|Hx]; [discriminate|]. exact (inv_nohost_cells _ _ I o h Hx).
    + exact (inv_scripts _ _ I).
  - constructor.
    + intros o c H1 H2 _.
      assert (H3 : ~ rooted s' o).
      { intros [H|[H|H]]; apply H2.
        - left. exact H.
        - simpl in H. apply in_app_or in H. destruct H as [H|[H|[]]]; [right; left; exact H|].
          subst. exfalso. eapply Hfresh; eauto.
        - right; right. rewrite Ech in H. exact H. }
      rewrite (Hold _ _ H1). destruct c; auto. exists c. repeat split; auto. apply incl_refl.
    + intros o cc H1 H2. exists cc. rewrite (Hold _ _ H1). auto.
    + simpl. lia.
  - simpl. apply in_or_app. right. left. reflexivity.
Qed.

(* O10: unlink a connection from the connection list; it stays alive, owned by the closer *)
Lemma conns_remove_ok x s co :
  InvX x s ->
  let s' := set_conns (remove_nat co (st_conns s)) s in
  InvX x s' /\ Frame s s' [] /\ ~ In co (st_conns s') /\ chain s' = chain s /\ linked s' = linked s.
Proof.
  intros I s'.
  assert (Hc : forall o, cell_of s' o = cell_of s o) by reflexivity.
  assert (Ell : linked s' = linked s) by reflexivity.
  assert (Ech : chain s' = chain s) by (apply chain_same; auto).
  split; [|split; [|split; [|split; auto]]].
  - destruct I. constructor; auto.
    + destruct inv_conns0 as [H1 H2]. split.
      * simpl. apply nodup_remove_nat. exact H1.
      * simpl. intros o Ho. apply in_remove_nat in Ho. destruct Ho as [Ho _]. exact (H2 _ Ho).
    + intros co1 c1 H1 H2. destruct (inv_closed0 _ _ H1 H2) as [H3 H4]. split; auto.
      simpl. intros Hin. apply in_remove_nat in Hin. tauto.
  - constructor.
    + intros o c H1 H2 _.
      assert (H3 : ~ rooted s' o).
      { intros [H|[H|H]]; apply H2.
        - left; exact H.
        - right; left. simpl in H. apply in_remove_nat in H. tauto.
        - right; right. rewrite Ech in H. exact H. }
      destruct c; auto. exists c. repeat split; auto. apply incl_refl.
    + intros o cc H1 H2. exists cc. auto.
    + simpl. lia.
  - simpl. intros H. apply in_remove_nat in H. tauto.
Qed.

(* O11a: release a connection that is unlinked, has no queries and is not being read *)
Lemma free_conn_ok s co c :
  Inv s -> cell_of s co = Some (CConn c) -> c_queries c = [] -> ~ In co (st_conns s) ->
  let s' := free_st co s in
  Inv s' /\ chain s' = chain s /\ linked s' = linked s /\ (forall o, o <> co -> cell_of s' o = cell_of s o).
Proof.
  intros I Hc Eq Hn s'.
  assert (Hsame : forall o, o <> co -> cell_of s' o = cell_of s o).
  { intros o Hne. unfold s'. rewrite cell_free. apply Nat.eqb_neq in Hne. rewrite Hne. reflexivity. }
  assert (Hgone : cell_of s' co = None).
  { unfold s'. rewrite cell_free, Nat.eqb_refl. reflexivity. }
  assert (Hsub : forall o c1, cell_of s' o = Some c1 -> cell_of s o = Some c1 /\ o <> co).
  { intros o c1 H. destruct (Nat.eq_dec o co) as [->|Hne].
    - rewrite Hgone in H. discriminate.
    - rewrite Hsame in H; auto. }
  assert (Ell : linked s' = linked s) by reflexivity.
  assert (Hqs : forall o q, cell_of s o = Some (CQuery q) -> cell_of s' o = Some (CQuery q)).
  { intros o q H. rewrite Hsame; auto. intros ->. rewrite Hc in H. discriminate. }
  assert (Ech : chain s' = chain s).
  { apply chain_same; auto. intros o Ho. unfold qchain.
    destruct (inv_query _ _ I _ Ho) as [q [H1 _]]. rewrite (Hqs _ _ H1), H1. reflexivity. }
  split; [|split; [exact Ech|split; [exact Ell|exact Hsame]]].
  constructor.
  - eapply heap_free; eauto. exact (inv_heap _ _ I).
  - rewrite Ell. exact (inv_nodup _ _ I).
  - intros o. rewrite Ell. intros Ho. destruct (inv_query _ _ I _ Ho) as [q [H1 H2]]. exists q. split; auto.
  - intros qid o H. destruct (inv_byqid _ _ I _ _ H) as [H1 H2]. split; auto. intros q Hq.
    destruct (Hsub _ _ Hq) as [Hq' _]. auto.
  - intros o H. destruct (inv_bytmo _ _ I _ H) as [H1 [q [co1 [c1 [H2 [H3 [H4 H5]]]]]]]. split; auto.
    exists q, co1, c1. destruct H5 as [H5|H5]; [discriminate|].
    assert (Hne : co1 <> co).
    { intros ->. rewrite Hc in H4. inversion H4; subst. rewrite Eq in H5. destruct H5. }
    repeat split; auto. rewrite Hsame; auto.
  - intros co1 c1 o H1 H2. destruct (Hsub _ _ H1) as [H3 _].
    destruct (inv_connq _ _ I _ _ _ H3 H2) as [H5 [q [H6 H7]]]. split; auto. exists q. split; auto.
  - destruct (inv_conns _ _ I) as [H1 H2]. split; auto. intros o Ho. destruct (H2 _ Ho) as [c1 [H3 H4]].
    exists c1. split; auto. rewrite Hsame; auto. intros ->. contradiction.
  - intros co1 c1 H1 H2. destruct (Hsub _ _ H1) as [H3 _]. exact (inv_closed _ _ I _ _ H3 H2).
  - rewrite Ech. destruct (inv_chain _ _ I) as [H1 H2]. split; auto. intros o Ho. rewrite Hsame; auto.
    intros ->. rewrite (H2 _ Ho) in Hc. discriminate.
  - intros o h H. destruct (Hsub _ _ H) as [H1 _]. exact (inv_nohost_cells _ _ I o h H1).
  - exact (inv_scripts _ _ I).
Qed.

From Coq Require Import Permutation.

Lemma perm_flat_map_insert (f : nat -> list nat) l1 a l2 :
  Permutation (flat_map f (l1 ++ a :: l2)) (f a ++ flat_map f (l1 ++ l2)).
Proof.
  rewrite !flat_map_app. simpl. rewrite app_assoc.
  rewrite (Permutation_app_comm (flat_map f l1) (f a)). rewrite <- app_assoc. reflexivity.
Qed.

Lemma flat_map_ext_in' {A B} (f g : A -> list B) l : (forall a, In a l -> f a = g a) -> flat_map f l = flat_map g l.
Proof.
  induction l as [|a l IH]; simpl; intros H; auto. rewrite H by (left; auto). f_equal. apply IH.
  intros b Hb. apply H. right; auto.
Qed.

Definition link_lists (qo : obj) (ls : list (list obj)) : list (list obj) :=
  match ls with [] => [[qo]] | l :: r => (l ++ [qo]) :: r end.

Lemma link_lists_split qo ls : exists l1 l2, concat ls = l1 ++ l2 /\ concat (link_lists qo ls) = l1 ++ qo :: l2.
Proof.
  destruct ls as [|l r]; simpl.
  - exists [], []. auto.
  - exists l, (concat r). split; auto. rewrite <- app_assoc. reflexivity.
Qed.

(* O2: a new query, linked into all_queries and the id table, not yet on a connection *)
Lemma new_query_ok s k qid q0 :
  Inv s -> Own s (cobjs k) -> nohost k -> lookup qid (st_byqid s) = None ->
  q_cb q0 = k -> q_qid q0 = qid -> q_conn q0 = None ->
  let qo := st_next s in
  let s' := set_byqid ((qid, qo) :: st_byqid s) (set_lists (link_lists qo (st_lists s)) (alloc_st (CQuery q0) s)) in
  Inv s' /\ Frame s s' (cobjs k) /\ In qo (linked s') /\ cell_of s' qo = Some (CQuery q0)
  /\ (forall o, o <> qo -> cell_of s' o = cell_of s o)
  /\ st_conns s' = st_conns s /\ st_bytmo s' = st_bytmo s
  /\ (forall x, In x (linked s') <-> In x (linked s) \/ x = qo)
  /\ (exists l1 l2, linked s = l1 ++ l2 /\ linked s' = l1 ++ qo :: l2).
Proof.
  intros I [On Oc] Hnh Hfree Ecb Eqid Econn qo s'.
  assert (Hfresh : forall o c, cell_of s o = Some c -> o <> qo).
  { intros o c Hc. pose proof (live_lt _ _ _ (inv_heap _ _ I) Hc). unfold qo. lia. }
  assert (Hsame : forall o, o <> qo -> cell_of s' o = cell_of s o).
  { intros o Hne. change (cell_of s' o) with (cell_of (alloc_st (CQuery q0) s) o).
    rewrite cell_alloc. apply Nat.eqb_neq in Hne. fold qo. rewrite Hne. reflexivity. }
  assert (Hqo : cell_of s' qo = Some (CQuery q0)).
  { change (cell_of s' qo) with (cell_of (alloc_st (CQuery q0) s) qo). rewrite cell_alloc. unfold qo.
    rewrite Nat.eqb_refl. reflexivity. }
  assert (Hold : forall o c, cell_of s o = Some c -> cell_of s' o = Some c).
  { intros o c Hc. rewrite Hsame; auto. eapply Hfresh; eauto. }
  assert (Hnew : forall o c, cell_of s' o = Some c -> (o = qo /\ c = CQuery q0) \/ (o <> qo /\ cell_of s o = Some c)).
  { intros o c H. destruct (Nat.eq_dec o qo) as [->|Hne].
    - rewrite Hqo in H. inversion H. auto.
    - rewrite Hsame in H; auto. }
  destruct (link_lists_split qo (st_lists s)) as [l1 [l2 [E1 E2]]].
  assert (Ell : linked s' = l1 ++ qo :: l2) by exact E2.
  assert (Els : linked s = l1 ++ l2) by exact E1.
  assert (Hin : forall x, In x (linked s') <-> In x (linked s) \/ x = qo).
  { intros x. rewrite Ell, Els, !in_app_iff. simpl. split; intros H; intuition. }
  assert (Hqnl : ~ In qo (linked s)).
  { intros H. destruct (inv_query _ _ I _ H) as [q [Hq _]]. eapply Hfresh; eauto. }
  assert (Hqc_old : forall o, In o (linked s) -> qchain s' o = qchain s o).
  { intros o Ho. unfold qchain. destruct (inv_query _ _ I _ Ho) as [q [Hq _]]. rewrite (Hold _ _ Hq), Hq. reflexivity. }
  assert (Hqc_new : qchain s' qo = cobjs k).
  { unfold qchain. rewrite Hqo, Ecb. reflexivity. }
  assert (Pch : Permutation (chain s') (cobjs k ++ chain s)).
  { unfold chain. rewrite Ell, Els. rewrite perm_flat_map_insert, Hqc_new.
    apply Permutation_app_head. erewrite flat_map_ext_in'; [reflexivity|].
    intros o Ho. apply Hqc_old. rewrite Els. exact Ho. }
  assert (Hchin : forall o, In o (chain s') <-> In o (cobjs k) \/ In o (chain s)).
  { intros o. split; intros H.
    - apply (Permutation_in _ Pch) in H. apply in_app_or in H. exact H.
    - apply (Permutation_in _ (Permutation_sym Pch)). apply in_or_app. exact H. }
  destruct (inv_chain _ _ I) as [Cn Cc].
  split; [|split; [|split; [|split; [exact Hqo|split; [exact Hsame|split; [reflexivity|split; [reflexivity|split; [exact Hin|exists l1, l2; auto]]]]]]]].
  - constructor.
    + apply (heap_alloc (CQuery q0)). exact (inv_heap _ _ I).
    + rewrite Ell. pose proof (inv_nodup _ _ I) as Hn. rewrite Els in Hn.
      apply NoDup_app_iff in Hn. destruct Hn as [H1 [H2 H3]]. apply NoDup_app_iff. repeat split; auto.
      * constructor; auto. intros H. apply Hqnl. rewrite Els. apply in_or_app; auto.
      * intros y Hy [<-|Hy']; [|exact (H3 _ Hy Hy')]. apply Hqnl. rewrite Els. apply in_or_app; auto.
    + intros o Ho. apply Hin in Ho. destruct Ho as [Ho| ->].
      * destruct (inv_query _ _ I _ Ho) as [q [H1 H2]]. exists q. split; auto.
      * exists q0. split; auto. rewrite Ecb. exact Hnh.
    + intros qid' o H. simpl in H. destruct (Nat.eqb qid' qid) eqn:E.
      * inversion H; subst. apply Nat.eqb_eq in E. subst qid'. split; [apply Hin; auto|].
        intros q Hq. rewrite Hqo in Hq. inversion Hq; subst. reflexivity.
      * destruct (inv_byqid _ _ I _ _ H) as [H1 H2]. split; [apply Hin; auto|].
        intros q Hq. destruct (Hnew _ _ Hq) as [[-> _]|[_ Hq']]; [contradiction|auto].
    + intros o H. destruct (inv_bytmo _ _ I _ H) as [H1 [q [co [c [H2 [H3 [H4 H5]]]]]]].
      split; [apply Hin; auto|]. exists q, co, c. repeat split; auto.
    + intros co c o H1 H2. destruct (Hnew _ _ H1) as [[_ Hx]|[_ Hx]]; [discriminate|].
      destruct (inv_connq _ _ I _ _ _ Hx H2) as [H3 [q [H4 H5]]]. split; [apply Hin; auto|]. exists q. split; auto.
    + destruct (inv_conns _ _ I) as [H1 H2]. split; auto. intros co Hco. destruct (H2 _ Hco) as [c [H3 H4]].
      exists c. split; auto.
    + intros co c H1 H2. destruct (Hnew _ _ H1) as [[_ Hx]|[_ Hx]]; [discriminate|].
      exact (inv_closed _ _ I _ _ Hx H2).
    + split.
      * apply (Permutation_NoDup (Permutation_sym Pch)). apply NoDup_app_iff. repeat split; auto.
        intros o Ho Ho'. destruct (Oc _ Ho) as [_ Hr]. apply Hr. right; right. exact Ho'.
      * intros o Ho. apply Hchin in Ho. destruct Ho as [Ho|Ho].
        -- destruct (Oc _ Ho) as [Hc _]. auto.
        -- auto.
    + intros o h H. destruct (Hnew _ _ H) as [[_ Hx]|[_ Hx]]; [discriminate|]. exact (inv_nohost_cells _ _ I o h Hx).
    + exact (inv_scripts _ _ I).
  - constructor.
    + intros o c H1 H2 H3.
      assert (H4 : ~ rooted s' o).
      { intros [H|[H|H]].
        - apply Hin in H. destruct H as [H| ->]; [apply H2; left; exact H|]. eapply Hfresh; eauto.
        - apply H2. right; left. exact H.
        - apply Hchin in H. destruct H as [H|H]; [contradiction|]. apply H2. right; right. exact H. }
      rewrite (Hold _ _ H1). destruct c; auto. exists c. repeat split; auto. apply incl_refl.
    + intros o cc H1 H2. exists cc. rewrite (Hold _ _ H1). auto.
    + simpl. lia.
  - apply Hin. auto.
Qed.

(* O4: the query is put on a connection's list and into the timeout list (extensional in the
   resulting state) *)
Lemma attach_ext s s' qo q co c q' :
  Inv s -> In qo (linked s) -> cell_of s qo = Some (CQuery q) -> cell_of s co = Some (CConn c) -> c_closed c = false ->
  In co (st_conns s) ->
  q_cb q' = q_cb q -> q_qid q' = q_qid q -> q_conn q' = Some co ->
  heap_ok s' -> st_lists s' = st_lists s -> st_byqid s' = st_byqid s -> st_conns s' = st_conns s ->
  st_scripts s' = st_scripts s -> st_next s <= st_next s' ->
  st_bytmo s' = remove_nat qo (st_bytmo s) ++ [qo] ->
  (forall o, cell_of s' o =
     if Nat.eqb o qo then Some (CQuery q')
     else if Nat.eqb o co then Some (CConn (set_c_queries (remove_nat qo (c_queries c) ++ [qo]) c))
     else option_map (strip qo) (cell_of s o)) ->
  Inv s' /\ Frame s s' [] /\ chain s' = chain s /\ linked s' = linked s.
Proof.
  intros I Hl Hq Hc Hncl Hcin Ecb Eqid Econn Hh El Eb Eco Esc Hnx Ebt Hcell.
  assert (Hne : co <> qo) by (intros ->; rewrite Hq in Hc; discriminate).
  assert (Ell : linked s' = linked s) by (unfold linked; rewrite El; reflexivity).
  assert (Hquery : forall o q0, cell_of s o = Some (CQuery q0) ->
            cell_of s' o = Some (CQuery (if Nat.eqb o qo then q' else q0))).
  { intros o q0 H. rewrite Hcell. destruct (Nat.eqb o qo) eqn:E; auto.
    destruct (Nat.eqb o co) eqn:E2.
    - apply Nat.eqb_eq in E2. subst. rewrite Hc in H. discriminate.
    - rewrite H. reflexivity. }
  assert (Hconn : forall o c1, cell_of s' o = Some (CConn c1) <->
            exists c0, cell_of s o = Some (CConn c0) /\
                       c1 = set_c_queries (remove_nat qo (c_queries c0) ++ (if Nat.eqb o co then [qo] else [])) c0).
  { intros o c1. rewrite Hcell. destruct (Nat.eqb o qo) eqn:E.
    - apply Nat.eqb_eq in E. subst. rewrite Hq. split; [discriminate|]. intros [c0 [H _]]. discriminate.
    - destruct (Nat.eqb o co) eqn:E2.
      + apply Nat.eqb_eq in E2. subst. rewrite Hc. split.
        * intros H. inversion H. exists c. auto.
        * intros [c0 [H1 H2]]. inversion H1; subst. reflexivity.
      + destruct (cell_of s o) as [[q0|c0|h0|]|]; simpl; split; try discriminate;
          try (intros [c2 [H _]]; discriminate).
        * intros H. inversion H. exists c0. rewrite app_nil_r. auto.
        * intros [c2 [H1 H2]]. inversion H1; subst. rewrite app_nil_r. reflexivity. }
  assert (Ech : chain s' = chain s).
  { apply chain_same; auto. intros o Ho. unfold qchain.
    destruct (inv_query _ _ I _ Ho) as [q0 [H1 _]]. rewrite (Hquery _ _ H1), H1.
    destruct (Nat.eqb o qo) eqn:E; auto. apply Nat.eqb_eq in E. subst. rewrite Hq in H1. inversion H1; subst.
    rewrite Ecb. reflexivity. }
  assert (Hr : forall o, rooted s' o <-> rooted s o).
  { intros o. unfold rooted. rewrite Ell, Ech, Eco. tauto. }
  split; [|split; [|split; auto]].
  - constructor.
    + exact Hh.
    + rewrite Ell. exact (inv_nodup _ _ I).
    + intros o. rewrite Ell. intros Ho. destruct (inv_query _ _ I _ Ho) as [q0 [H1 H2]].
      rewrite (Hquery _ _ H1). eexists. split; [reflexivity|]. destruct (Nat.eqb o qo) eqn:E; auto.
      apply Nat.eqb_eq in E. subst. rewrite Hq in H1. inversion H1; subst. rewrite Ecb. exact H2.
    + intros qid o H. rewrite Eb in H. destruct (inv_byqid _ _ I _ _ H) as [H1 H2]. rewrite Ell. split; auto.
      intros q1 H3. destruct (inv_query _ _ I _ H1) as [q0 [H4 _]]. rewrite (Hquery _ _ H4) in H3.
      inversion H3; subst. destruct (Nat.eqb o qo) eqn:E; auto.
      apply Nat.eqb_eq in E. subst. rewrite Hq in H4. inversion H4; subst. rewrite Eqid. apply H2. exact Hq.
    + intros o Ho. rewrite Ebt in Ho. rewrite Ell. apply in_app_or in Ho. destruct Ho as [Ho|[<-|[]]].
      * apply in_remove_nat in Ho. destruct Ho as [Ho Hno].
        destruct (inv_bytmo _ _ I _ Ho) as [H1 [q0 [co1 [c1 [H2 [H3 [H4 H5]]]]]]]. split; auto.
        destruct H5 as [H5|H5]; [discriminate|].
        exists q0, co1. eexists. rewrite (Hquery _ _ H2). apply Nat.eqb_neq in Hno as Hno'. rewrite Hno'.
        split; [reflexivity|]. split; [exact H3|]. split.
        -- apply Hconn. exists c1. split; [exact H4|reflexivity].
        -- right. simpl. apply in_or_app. left. apply in_remove_nat. split; auto.
      * split; auto. exists q', co. eexists. rewrite (Hquery _ _ Hq), Nat.eqb_refl.
        split; [reflexivity|]. split; [exact Econn|]. split.
        -- apply Hconn. exists c. split; [exact Hc|reflexivity].
        -- right. simpl. rewrite Nat.eqb_refl. apply in_or_app. right. left. reflexivity.
    + intros co1 c1 o H1 H2. apply Hconn in H1. destruct H1 as [c0 [H1 ->]]. simpl in H2. rewrite Ell.
      apply in_app_or in H2. destruct H2 as [H2|H2].
      * apply in_remove_nat in H2. destruct H2 as [H2 Hno].
        destruct (inv_connq _ _ I _ _ _ H1 H2) as [H3 [q0 [H4 H5]]]. split; auto.
        rewrite (Hquery _ _ H4). apply Nat.eqb_neq in Hno. rewrite Hno. eauto.
      * destruct (Nat.eqb co1 co) eqn:E; [|destruct H2]. destruct H2 as [<-|[]].
        apply Nat.eqb_eq in E. subst. split; auto. rewrite (Hquery _ _ Hq), Nat.eqb_refl. eauto.
    + rewrite Eco. destruct (inv_conns _ _ I) as [H1 H2]. split; auto. intros co1 Hco.
      destruct (H2 _ Hco) as [c1 [H3 H4]]. eexists. split; [apply Hconn; exists c1; split; [exact H3|reflexivity]|exact H4].
    + intros co1 c1 H1 H2. apply Hconn in H1. destruct H1 as [c0 [H1 ->]]. simpl in H2. rewrite Eco.
      destruct (inv_closed _ _ I _ _ H1 H2) as [H4 H5]. split; auto. simpl. rewrite H5. simpl.
      destruct (Nat.eqb co1 co) eqn:E; auto. apply Nat.eqb_eq in E. subst. rewrite Hc in H1. inversion H1; subst. congruence.
    + rewrite Ech. destruct (inv_chain _ _ I) as [H1 H2]. split; auto. intros o Ho. rewrite Hcell.
      destruct (Nat.eqb o qo) eqn:E.
      * apply Nat.eqb_eq in E. subst. rewrite (H2 _ Ho) in Hq. discriminate.
      * destruct (Nat.eqb o co) eqn:E2.
        -- apply Nat.eqb_eq in E2. subst. rewrite (H2 _ Ho) in Hc. discriminate.
        -- rewrite (H2 _ Ho). reflexivity.
    + intros o h. rewrite Hcell. destruct (Nat.eqb o qo); [discriminate|]. destruct (Nat.eqb o co); [discriminate|].
      pose proof (inv_nohost_cells _ _ I o) as Hn.
      destruct (cell_of s o) as [[q0|c0|h0|]|]; simpl; try discriminate. intros _. apply (Hn h0). reflexivity.
    + rewrite Esc. exact (inv_scripts _ _ I).
  - constructor.
    + intros o c1 H1 H2 _.
      assert (Hn1 : Nat.eqb o qo = false) by (apply Nat.eqb_neq; intros ->; apply H2; left; exact Hl).
      assert (H3 : ~ rooted s' o) by (rewrite Hr; exact H2).
      destruct c1 as [q0|c0|h0|].
      * split; auto. rewrite (Hquery _ _ H1), Hn1. reflexivity.
      * eexists. split; [apply Hconn; exists c0; split; [exact H1|reflexivity]|]. simpl. repeat split; auto.
        intros y Hy. apply in_app_or in Hy. destruct Hy as [Hy|Hy].
        -- apply in_remove_nat in Hy. tauto.
        -- destruct (Nat.eqb o co) eqn:E; [|destruct Hy]. apply Nat.eqb_eq in E. subst.
           exfalso. apply H2. right; left. exact Hcin.
      * split; auto. rewrite Hcell, Hn1. destruct (Nat.eqb o co) eqn:E.
        -- apply Nat.eqb_eq in E. subst. rewrite Hc in H1. discriminate.
        -- rewrite H1. reflexivity.
      * split; auto. rewrite Hcell, Hn1. destruct (Nat.eqb o co) eqn:E.
        -- apply Nat.eqb_eq in E. subst. rewrite Hc in H1. discriminate.
        -- rewrite H1. reflexivity.
    + intros o cc H1 H2. eexists. split; [apply Hconn; exists cc; split; [exact H1|reflexivity]|]. simpl. auto.
    + exact Hnx.
Qed.

(* objects named in a frame that were rooted before need not be named *)
Lemma frame_shrink s s' L :
  Frame s s' L -> (forall x c, In x L -> cell_of s x = Some c -> rooted s x) -> Frame s s' [].
Proof.
  intros F H. constructor.
  - intros x c Hc Hr _. apply (fr_cell _ _ _ F _ _ Hc Hr). intros Hin. apply Hr. eapply H; eauto.
  - exact (fr_reading _ _ _ F).
  - exact (fr_next _ _ _ F).
Qed.

Lemma chain_of_linked s qo q : In qo (linked s) -> cell_of s qo = Some (CQuery q) -> incl (cobjs (q_cb q)) (chain s).
Proof.
  intros Hl Hq o Ho. unfold chain. apply in_flat_map. exists qo. split; auto. unfold qchain. rewrite Hq. exact Ho.
Qed.

(* frames for the connection operations *)
Lemma free_conn_frame s co c :
  Inv s -> cell_of s co = Some (CConn c) -> c_queries c = [] -> ~ In co (st_conns s) -> c_reading c = false ->
  Frame s (free_st co s) [co].
Proof.
  intros I Hc Eq Hn Hr.
  destruct (free_conn_ok s co c I Hc Eq Hn) as [_ [Ech [Ell Hsame]]].
  constructor.
  - intros o c1 H1 H2 H3. assert (Hne : o <> co) by (intros ->; apply H3; left; auto).
    assert (H4 : ~ rooted (free_st co s) o).
    { unfold rooted. rewrite Ell, Ech. exact H2. }
    rewrite (Hsame _ Hne). destruct c1; auto. exists c0. repeat split; auto. apply incl_refl.
  - intros o cc H1 H2. assert (Hne : o <> co) by (intros ->; rewrite Hc in H1; inversion H1; subst; congruence).
    exists cc. rewrite (Hsame _ Hne). auto.
  - simpl. lia.
Qed.

Lemma store_conn_frame x s co c c' :
  InvX x s -> cell_of s co = Some (CConn c) ->
  c_queries c' = c_queries c -> c_sock c' = c_sock c -> c_reading c' = c_reading c ->
  (c_closed c' = true -> ~ In co (st_conns s) /\ c_queries c = []) ->
  (In co (st_conns s) -> c_closed c' = false) ->
  Frame s (store_st co (CConn c') s) [co].
Proof.
  intros I Hc Eq Es Er H1 H2.
  destruct (store_conn_flags_ok x s co c c' I Hc Eq Es H1 H2) as [_ [Ech [Ell [Hsame Hco]]]].
  constructor.
  - intros o c1 G1 G2 G3. assert (Hne : o <> co) by (intros ->; apply G3; left; auto).
    assert (G4 : ~ rooted (store_st co (CConn c') s) o).
    { unfold rooted. rewrite Ell, Ech. exact G2. }
    rewrite (Hsame _ Hne). destruct c1; auto. exists c0. repeat split; auto. apply incl_refl.
  - intros o cc G1 G2. destruct (Nat.eq_dec o co) as [->|Hne].
    + rewrite Hc in G1. inversion G1; subst. exists c'. rewrite Hco. repeat split; auto. congruence.
    + exists cc. rewrite (Hsame _ Hne). auto.
  - simpl. lia.
Qed.

Lemma find_conn_by_sock_ok x s sock :
  InvX x s ->
  exists r, find_conn_by_sock sock s = Ok (r, s)
    /\ (forall co, r = Some co -> In co (st_conns s) /\ exists c, cell_of s co = Some (CConn c) /\ c_closed c = false).
Proof.
  intros I. unfold find_conn_by_sock. eexists. split; [reflexivity|].
  intros co H. apply find_some in H. destruct H as [H1 H2]. split; auto.
  destruct (inv_conns _ _ I) as [_ Hc]. exact (Hc _ H1).
Qed.

Lemma attach_run s qo q co c tcp :
  Inv s -> In qo (linked s) -> cell_of s qo = Some (CQuery q) ->
  In co (st_conns s) -> cell_of s co = Some (CConn c) -> c_closed c = false ->
  exists s', attach_frag qo co tcp s = Ok (tt, s') /\ Inv s' /\ Frame s s' []
    /\ linked s' = linked s /\ st_conns s' = st_conns s /\ st_tape s' = st_tape s
    /\ st_scripts s' = st_scripts s /\ st_byqid s' = st_byqid s /\ st_trace s' = st_trace s
    /\ (forall o q0, cell_of s o = Some (CQuery q0) ->
          exists q1, cell_of s' o = Some (CQuery q1) /\ q_cb q1 = q_cb q0).
Proof.
  intros I Hl Hq Hin Hc Hncl.
  pose proof (inv_heap _ _ I) as Hh.
  assert (Hne : co <> qo) by (intros ->; rewrite Hq in Hc; discriminate).
  unfold attach_frag.
  set (s1 := set_bytmo (remove_nat qo (st_bytmo s) ++ [qo]) s).
  assert (E1 : modify (fun s0 => set_bytmo (remove_nat qo (st_bytmo s0) ++ [qo]) s0) s = Ok (tt, s1)) by reflexivity.
  rewrite (mbind_run _ _ _ _ _ E1).
  assert (Hh1 : heap_ok s1) by exact Hh.
  destruct (unlink_run_gen s1 qo Hh1) as [cells' [E2 Hc2]].
  { intros co1 c1 co2 c2 H1 H2 H3 H4. eapply (conn_of_query_unique None s); eauto. }
  rewrite (mbind_run _ _ _ _ _ E2).
  set (s2 := set_cells cells' s1) in *.
  assert (Hcell2 : forall o, cell_of s2 o = option_map (strip qo) (cell_of s o)) by exact Hc2.
  assert (Hh2 : heap_ok s2).
  { destruct Hh as [Ha Hb]. split.
    - intros o c0 H. rewrite Hcell2 in H. destruct (cell_of s o) as [c1|] eqn:Ho; simpl in H; [|discriminate].
      exact (Ha _ _ Ho).
    - exact Hb. }
  set (c2 := set_c_queries (remove_nat qo (c_queries c)) c).
  assert (Hco2 : cell_of s2 co = Some (CConn c2)) by (rewrite Hcell2, Hc; reflexivity).
  assert (E3 : get_conn co s2 = Ok (c2, s2)).
  { unfold get_conn, mbind. rewrite (touch_run _ _ _ Hh2 Hco2). reflexivity. }
  set (c3 := set_c_queries (remove_nat qo (c_queries c) ++ [qo]) c).
  assert (E4 : (let! c0 := get_conn co in store co (CConn (set_c_queries (c_queries c0 ++ [qo]) c0))) s2
               = Ok (tt, store_st co (CConn c3) s2)).
  { rewrite (mbind_run _ _ _ _ _ E3). rewrite (store_run _ _ _ _ Hh2 Hco2). reflexivity. }
  rewrite (mbind_run _ _ _ _ _ E4).
  set (s3 := store_st co (CConn c3) s2).
  assert (Hh3 : heap_ok s3) by (eapply heap_store; eauto).
  assert (Hq3 : cell_of s3 qo = Some (CQuery q)).
  { unfold s3. rewrite cell_store. apply Nat.eqb_neq in Hne. rewrite Nat.eqb_sym, Hne. rewrite Hcell2, Hq. reflexivity. }
  assert (E5 : get_query qo s3 = Ok (q, s3)).
  { unfold get_query, mbind. rewrite (touch_run _ _ _ Hh3 Hq3). reflexivity. }
  rewrite (mbind_run _ _ _ _ _ E5).
  set (q' := set_q_conn (Some co) (set_q_tcp tcp q)).
  rewrite (store_run _ _ _ (CQuery q') Hh3 Hq3).
  set (s4 := store_st qo (CQuery q') s3).
  exists s4. split; [reflexivity|].
  destruct (attach_ext s s4 qo q co c q' I Hl Hq Hc Hncl Hin) as [I4 [F4 [_ Ell]]]; try reflexivity.
  - eapply heap_store; eauto.
  - intros o. unfold s4. rewrite cell_store. destruct (Nat.eqb o qo) eqn:E; auto.
    unfold s3. rewrite cell_store. destruct (Nat.eqb o co) eqn:E'; auto.
  - split; [exact I4|]. split; [exact F4|]. split; [exact Ell|]. repeat (split; [reflexivity|]).
    intros o q0 Ho. unfold s4. rewrite cell_store. destruct (Nat.eqb o qo) eqn:E.
    + apply Nat.eqb_eq in E. subst. rewrite Hq in Ho. inversion Ho; subst. exists q'. auto.
    + unfold s3. rewrite cell_store. destruct (Nat.eqb o co) eqn:E'.
      * apply Nat.eqb_eq in E'. subst. rewrite Hc in Ho. discriminate.
      * exists q0. rewrite Hcell2, Ho. auto.
Qed.

Lemma frame_restrict s s' L L' :
  Frame s s' L -> (forall x c, In x L -> ~ In x L' -> cell_of s x = Some c -> rooted s x) -> Frame s s' L'.
Proof.
  intros F H. constructor.
  - intros x c Hc Hr Hn. apply (fr_cell _ _ _ F _ _ Hc Hr). intros Hin. apply Hr. eapply H; eauto.
  - exact (fr_reading _ _ _ F).
  - exact (fr_next _ _ _ F).
Qed.

Lemma fresh_dead x s : InvX x s -> cell_of s (st_next s) = None.
Proof.
  intros I. destruct (cell_of s (st_next s)) eqn:E; auto.
  pose proof (live_lt _ _ _ (inv_heap _ _ I) E). lia.
Qed.

(* O13: process_answer takes the answered query off its connection's list before deciding what
   to do with it; until then the query is exempt from the timeout-list clause *)
Lemma conn_drop_query_ok s co c qo :
  Inv s -> cell_of s co = Some (CConn c) ->
  let c' := set_c_queries (remove_nat qo (c_queries c)) c in
  let s' := store_st co (CConn c') s in
  InvX (Some qo) s' /\ linked s' = linked s /\ cell_of s' co = Some (CConn c')
  /\ (forall o, o <> co -> cell_of s' o = cell_of s o).
Proof.
  intros I Hc c' s'.
  assert (Hsame : forall o, o <> co -> cell_of s' o = cell_of s o).
  { intros o Hne. unfold s'. rewrite cell_store. apply Nat.eqb_neq in Hne. rewrite Hne. reflexivity. }
  assert (Hco : cell_of s' co = Some (CConn c')).
  { unfold s'. rewrite cell_store, Nat.eqb_refl. reflexivity. }
  assert (Ell : linked s' = linked s) by reflexivity.
  assert (Hqs : forall o q, cell_of s o = Some (CQuery q) -> cell_of s' o = Some (CQuery q)).
  { intros o q H. rewrite Hsame; auto. intros ->. rewrite Hc in H. discriminate. }
  assert (Ech : chain s' = chain s).
  { apply chain_same; auto. intros o Ho. unfold qchain.
    destruct (inv_query _ _ I _ Ho) as [q [H1 _]]. rewrite (Hqs _ _ H1), H1. reflexivity. }
  assert (Hconn : forall o c1, cell_of s' o = Some (CConn c1) ->
            exists c0, cell_of s o = Some (CConn c0) /\ c_closed c1 = c_closed c0
                       /\ (forall y, In y (c_queries c1) -> In y (c_queries c0))
                       /\ (forall y, In y (c_queries c0) -> y <> qo -> In y (c_queries c1))).
  { intros o c1 H. destruct (Nat.eq_dec o co) as [->|Hne].
    - rewrite Hco in H. inversion H; subst. exists c. repeat split; auto.
      + intros y Hy. simpl in Hy. apply in_remove_nat in Hy. tauto.
      + intros y Hy Hn. simpl. apply in_remove_nat. auto.
    - rewrite Hsame in H; auto. exists c1. repeat split; auto. }
  assert (Hconn' : forall o c0, cell_of s o = Some (CConn c0) ->
            exists c1, cell_of s' o = Some (CConn c1) /\ c_closed c1 = c_closed c0
                       /\ (forall y, In y (c_queries c0) -> y <> qo -> In y (c_queries c1))).
  { intros o c0 H. destruct (Nat.eq_dec o co) as [->|Hne].
    - rewrite Hc in H. inversion H; subst. exists c'. repeat split; auto.
      intros y Hy Hn. simpl. apply in_remove_nat. auto.
    - exists c0. rewrite Hsame; auto. }
  split; [|split; [exact Ell|split; [exact Hco|exact Hsame]]].
  constructor.
  - eapply heap_store; eauto. exact (inv_heap _ _ I).
  - rewrite Ell. exact (inv_nodup _ _ I).
  - intros o. rewrite Ell. intros Ho. destruct (inv_query _ _ I _ Ho) as [q [H1 H2]]. exists q. split; auto.
  - intros qid o H. destruct (inv_byqid _ _ I _ _ H) as [H1 H2]. split; auto. intros q Hq. apply H2.
    destruct (inv_query _ _ I _ H1) as [q0 [H3 _]]. rewrite (Hqs _ _ H3) in Hq. inversion Hq; subst. exact H3.
  - intros o H. destruct (inv_bytmo _ _ I _ H) as [H1 [q [co1 [c1 [H2 [H3 [H4 H5]]]]]]]. split; auto.
    destruct (Hconn' _ _ H4) as [c2 [H6 [_ H7]]]. exists q, co1, c2. repeat split; auto.
    destruct H5 as [H5|H5]; [discriminate|].
    destruct (Nat.eq_dec o qo) as [->|Hne]; [left; reflexivity|right; auto].
  - intros co1 c1 o H1 H2. destruct (Hconn _ _ H1) as [c0 [H3 [_ [H4 _]]]].
    destruct (inv_connq _ _ I _ _ _ H3 (H4 _ H2)) as [H5 [q [H6 H7]]]. split; auto. exists q. split; auto.
  - destruct (inv_conns _ _ I) as [H1 H2]. split; auto. intros co1 H. destruct (H2 _ H) as [c0 [H3 H4]].
    destruct (Hconn' _ _ H3) as [c1 [H5 [H6 _]]]. exists c1. split; auto. congruence.
  - intros co1 c1 H1 H2. destruct (Hconn _ _ H1) as [c0 [H3 [H4 [H5 _]]]]. rewrite H4 in H2.
    destruct (inv_closed _ _ I _ _ H3 H2) as [H7 H8]. split; auto.
    destruct (c_queries c1) as [|y l] eqn:E; auto. exfalso.
    assert (Hy : In y (c_queries c0)) by (apply H5; left; auto). rewrite H8 in Hy. destruct Hy.
  - rewrite Ech. destruct (inv_chain _ _ I) as [H1 H2]. split; auto. intros o Ho. rewrite Hsame; auto.
    intros ->. rewrite (H2 _ Ho) in Hc. discriminate.
  - intros o h. destruct (Nat.eq_dec o co) as [->|Hne].
    + rewrite Hco. discriminate.
    + rewrite Hsame; auto. exact (inv_nohost_cells _ _ I o h).
  - exact (inv_scripts _ _ I).
Qed.
