(* C01: when a top-level ares_cancel returns, every request made before it was called has been
   completed (fixed code).  Histories: the invariants of Lifecycle_tokens_proofs.v, plus "no call
   of ares_cancel is in progress" (one list of queries) and the property for the trace so far. *)
From Coq Require Import List ZArith Lia Bool Arith Permutation.
Import ListNotations.
From CAres.Base Require Import Outcome.
From CAres.Gen Require Import Consts.
From CAres.Core Require Import LifecycleMonitor Lifecycle Lifecycle_inv Lifecycle_proofs Lifecycle_tokens Lifecycle_tokens_proofs
  Lifecycle_shape Lifecycle_cancel Lifecycle_cancel_proofs Lifecycle_status.

Definition cacs (s : state) : Prop := complete_at_cancel (rev (st_trace s)).

(* ---- lists ---- *)
Lemma app_split_notin {A} (a : list A) : forall (l1 l2 b : list A) x,
  l1 ++ l2 = a ++ x :: b -> ~ In x l2 -> exists b', l1 = a ++ x :: b' /\ b = b' ++ l2.
Proof.
  induction a as [|y a IH]; intros l1 l2 b x E Hn; simpl in *.
  - destruct l1 as [|z l1]; simpl in E.
    + exfalso. apply Hn. rewrite E. left. reflexivity.
    + inversion E; subst. exists l1. auto.
  - destruct l1 as [|z l1]; simpl in E.
    + exfalso. apply Hn. rewrite E. right. apply in_or_app. right. left. reflexivity.
    + inversion E; subst. destruct (IH _ _ _ _ H1 Hn) as [b' [E1 E2]]. exists b'. subst. auto.
Qed.

Lemma last_split_unique {A} (x : A) : forall a b a' b',
  a ++ x :: b = a' ++ x :: b' -> ~ In x b -> ~ In x b' -> a = a' /\ b = b'.
Proof.
  induction a as [|y a IH]; intros b a' b' E Hb Hb'; destruct a' as [|y' a']; simpl in E.
  - inversion E. auto.
  - inversion E; subst. exfalso. apply Hb. apply in_or_app. right. left. reflexivity.
  - inversion E; subst. exfalso. apply Hb'. apply in_or_app. right. left. reflexivity.
  - inversion E; subst. destruct (IH _ _ _ H1 Hb Hb'). subst. auto.
Qed.

Lemma cacs_app tr nw : complete_at_cancel tr -> ~ In EvCancelEnd nw -> complete_at_cancel (tr ++ nw).
Proof.
  intros H Hn before mid post E Hm t Ht.
  assert (E' : tr ++ nw = (before ++ EvCancelBegin :: mid) ++ EvCancelEnd :: post) by (rewrite E, <- app_assoc; reflexivity).
  destruct (app_split_notin _ _ _ _ _ E' Hn) as [b' [E1 _]].
  apply (H before mid b'); auto. rewrite E1, <- app_assoc. reflexivity.
Qed.

Lemma cacs_ext s s' nw : cacs s -> st_trace s' = nw ++ st_trace s -> ~ In EvCancelEnd nw -> cacs s'.
Proof.
  intros H E Hn. unfold cacs. rewrite E, rev_app_distr. apply cacs_app; auto.
  intros Hin. apply Hn. apply in_rev. exact Hin.
Qed.

Lemma cacs_end tr :
  complete_at_cancel tr ->
  (forall before mid, tr = before ++ EvCancelBegin :: mid -> ~ In EvCancelBegin mid ->
     forall t, In (EvReq t) before -> count_req before t <= count_cb tr t) ->
  complete_at_cancel (tr ++ [EvCancelEnd]).
Proof.
  intros H Hnew before mid post E Hm t Ht.
  destruct post as [|p post'].
  - assert (E' : tr ++ [EvCancelEnd] = (before ++ EvCancelBegin :: mid) ++ [EvCancelEnd]) by (rewrite E, <- app_assoc; reflexivity).
    apply app_inj_tail in E'. destruct E' as [E' _]. rewrite <- E'. apply (Hnew before mid); auto.
  - assert (Hne : p :: post' <> []) by discriminate.
    destruct (exists_last Hne) as [l' [a Ea]]. rewrite Ea in E.
    assert (E' : tr ++ [EvCancelEnd] = (before ++ EvCancelBegin :: mid ++ EvCancelEnd :: l') ++ [a]).
    { rewrite E. rewrite <- !app_assoc. simpl. rewrite <- app_assoc. reflexivity. }
    apply app_inj_tail in E'. destruct E' as [E' _]. eapply H; eauto.
Qed.

Lemma req_toks_app a b : req_toks (a ++ b) = req_toks a ++ req_toks b.
Proof. unfold req_toks. apply flat_map_app. Qed.

Lemma in_req_toks tr t : In (EvReq t) tr <-> In t (req_toks tr).
Proof.
  unfold req_toks. rewrite in_flat_map. split.
  - intros H. exists (EvReq t). split; auto. left. reflexivity.
  - intros [e [He Ht]]. destruct e; simpl in Ht; try contradiction. destruct Ht as [->|[]]. exact He.
Qed.

Lemma in_cb_toks tr t : In t (cb_toks tr) -> 1 <= count_cb tr t.
Proof.
  intros H. rewrite count_perm_cb. destruct (count_occ Nat.eq_dec (cb_toks tr) t) eqn:E; [|lia].
  exfalso. eapply count_occ_not_In; eauto.
Qed.

Lemma req_toks_rev tr : forall t, In t (req_toks (rev tr)) <-> In t (req_toks tr).
Proof. intros t. rewrite <- !in_req_toks. rewrite <- in_rev. tauto. Qed.

Lemma f2_nil_l {A B} (P : A -> B -> Prop) l : Forall2 P l [] -> l = [].
Proof. intros H. inversion H. reflexivity. Qed.

(* ---- the status clauses on traces (oldest event first) ---- *)
Lemma app_eq_app' {A} (x1 : list A) : forall x2 y1 y2, x1 ++ x2 = y1 ++ y2 ->
  exists l, (x1 = y1 ++ l /\ y2 = l ++ x2) \/ (y1 = x1 ++ l /\ x2 = l ++ y2).
Proof.
  induction x1 as [|a x1 IH]; intros x2 y1 y2 E; simpl in E.
  - exists y1. right. auto.
  - destruct y1 as [|b y1]; simpl in E.
    + exists (a :: x1). left. auto.
    + inversion E; subst. destruct (IH _ _ _ H1) as [l [[E1 E2]|[E1 E2]]]; exists l; [left|right]; subst; auto.
Qed.

Definition cclosed (tr : list event) : Prop := forall before mid, tr = before ++ EvCancelBegin :: mid -> In EvCancelEnd mid.
Definition nocc (l : list event) : Prop := ~ In EvCancelBegin l /\ ~ In EvCancelEnd l.

Lemma notop_nocc l : (forall e, In e l -> top_ev e = false) -> nocc l.
Proof. intros H. split; intros Hin; specialize (H _ Hin); discriminate. Qed.

(* a callback between a CancelBegin that is followed by its CancelEnd within tr and ... *)
Lemma cb_inside tr before b' mid t st post nw :
  tr = before ++ EvCancelBegin :: b' -> In EvCancelEnd b' -> ~ In EvCancelEnd mid ->
  mid ++ EvCb t st :: post = b' ++ nw -> exists post', b' = mid ++ EvCb t st :: post'.
Proof.
  intros Et Hce Hn E. destruct (app_eq_app' _ _ _ _ E) as [l [[E1 E2]|[E1 E2]]].
  - exfalso. apply Hn. rewrite E1. apply in_or_app. left. exact Hce.
  - destruct l as [|x l].
    + exfalso. apply Hn. rewrite app_nil_r in E1. rewrite <- E1. exact Hce.
    + inversion E2; subst. exists l. reflexivity.
Qed.

Lemma sac_app tr nw : status_at_cancel tr -> cclosed tr -> nocc nw ->
  status_at_cancel (tr ++ nw) /\ cclosed (tr ++ nw).
Proof.
  intros Hs Hc [Hn1 Hn2]. split.
  - intros before mid t st post E Hm1 Hm2 Ht.
    assert (E' : tr ++ nw = before ++ EvCancelBegin :: (mid ++ EvCb t st :: post)) by exact E.
    destruct (app_split_notin _ _ _ _ _ E' Hn1) as [b' [E1 E2]].
    destruct (cb_inside tr before b' mid t st post nw E1 (Hc _ _ E1) Hm2 E2) as [post' Eb].
    apply (Hs before mid t st post'); auto. rewrite E1, Eb. reflexivity.
  - intros before mid E. destruct (app_split_notin _ _ _ _ _ E Hn1) as [b' [E1 E2]].
    rewrite E2. apply in_or_app. left. exact (Hc _ _ E1).
Qed.

Lemma sac_bracket tr nw : status_at_cancel tr -> cclosed tr -> nocc nw ->
  (forall t st, In (EvCb t st) nw -> In (EvReq t) tr -> st = ST_CANCELLED) ->
  status_at_cancel (tr ++ EvCancelBegin :: nw ++ [EvCancelEnd]) /\ cclosed (tr ++ EvCancelBegin :: nw ++ [EvCancelEnd]).
Proof.
  intros Hs Hc [Hn1 Hn2] Hnew.
  assert (Hcb : ~ In EvCancelBegin (nw ++ [EvCancelEnd])).
  { intros H. apply in_app_or in H. destruct H as [H|[H|[]]]; [contradiction|discriminate]. }
  split.
  - intros before mid t st post E Hm1 Hm2 Ht.
    assert (E' : tr ++ EvCancelBegin :: (nw ++ [EvCancelEnd]) = before ++ EvCancelBegin :: (mid ++ EvCb t st :: post)) by exact E.
    destruct (app_eq_app' _ _ _ _ E') as [l [[E1 E2]|[E1 E2]]].
    + destruct l as [|x l].
      * (* the bracket of this step *)
        rewrite app_nil_r in E1. subst before. simpl in E2. inversion E2 as [E3].
        apply (Hnew t st); auto.
        assert (Hin : In (EvCb t st) (nw ++ [EvCancelEnd])) by (rewrite <- E3; apply in_or_app; right; left; reflexivity).
        apply in_app_or in Hin. destruct Hin as [Hin|[Hin|[]]]; [exact Hin|discriminate].
      * (* an earlier one *)
        inversion E2; subst x.
        destruct (cb_inside tr before l mid t st post (EvCancelBegin :: nw ++ [EvCancelEnd]) E1 (Hc _ _ E1) Hm2 H1) as [post' Eb].
        apply (Hs before mid t st post'); auto. rewrite E1, Eb. reflexivity.
    + destruct l as [|x l].
      * rewrite app_nil_r in E1. subst before. simpl in E2. inversion E2 as [E3].
        apply (Hnew t st); auto.
        assert (Hin : In (EvCb t st) (nw ++ [EvCancelEnd])) by (rewrite E3; apply in_or_app; right; left; reflexivity).
        apply in_app_or in Hin. destruct Hin as [Hin|[Hin|[]]]; [exact Hin|discriminate].
      * exfalso. inversion E2; subst x. apply Hcb. rewrite H1. apply in_or_app. right. left. reflexivity.
  - intros before mid E.
    destruct (app_eq_app' _ _ _ _ E) as [l [[E1 E2]|[E1 E2]]].
    + destruct l as [|x l].
      * simpl in E2. inversion E2. apply in_or_app. right. left. reflexivity.
      * inversion E2; subst. apply in_or_app. right. right. apply in_or_app. right. left. reflexivity.
    + destruct l as [|x l].
      * simpl in E2. inversion E2. apply in_or_app. right. left. reflexivity.
      * exfalso. inversion E2; subst x. apply Hcb. rewrite H1. apply in_or_app. right. left. reflexivity.
Qed.

Lemma sad_nodb tr : ~ In EvDestroyBegin tr -> status_at_destroy tr.
Proof.
  intros H before mid t st post E. exfalso. apply H. rewrite E. apply in_or_app. right. left. reflexivity.
Qed.

Lemma goodst_ST st : goodst st -> st = ST_DESTRUCTION \/ st = ST_CANCELLED.
Proof. intros [->| ->]; [left|right]; reflexivity. Qed.

(* the trace of a history that ends with ares_destroy *)
Lemma sad_final tr radd tail :
  ~ In EvDestroyBegin tr -> ~ In EvDestroyBegin radd -> ~ In EvDestroyBegin tail ->
  (forall t st, ~ In (EvCb t st) tail) -> pgood (rev radd) ->
  status_at_destroy (tr ++ EvDestroyBegin :: radd ++ tail).
Proof.
  intros H1 H2 H3 Ht Hg before mid t st post E Hm Hc Hr.
  assert (Hrest : ~ In EvDestroyBegin (radd ++ tail)).
  { intros H. apply in_app_or in H. tauto. }
  assert (E' : tr ++ EvDestroyBegin :: (radd ++ tail) = before ++ EvDestroyBegin :: (mid ++ EvCb t st :: post)) by exact E.
  assert (Eb : before = tr /\ mid ++ EvCb t st :: post = radd ++ tail).
  { destruct (app_eq_app' _ _ _ _ E') as [l [[E1 E2]|[E1 E2]]].
    - destruct l as [|x l].
      + rewrite app_nil_r in E1. inversion E2. auto.
      + exfalso. inversion E2; subst x. apply H1. rewrite E1. apply in_or_app. right. left. reflexivity.
    - destruct l as [|x l].
      + rewrite app_nil_r in E1. inversion E2. auto.
      + exfalso. inversion E2; subst x. apply Hrest. rewrite H4. apply in_or_app. right. left. reflexivity. }
  destruct Eb as [-> Eb].
  destruct (app_eq_app' _ _ _ _ Eb) as [l [[E1 E2]|[E1 E2]]].
  - exfalso. destruct l as [|x l].
    + simpl in E2. apply (Ht t st). rewrite E2. left. reflexivity.
    + apply (Ht t st). rewrite E2. apply in_or_app. right. left. reflexivity.
  - destruct l as [|x l].
    + exfalso. simpl in E2. apply (Ht t st). rewrite <- E2. left. reflexivity.
    + inversion E2; subst x.
      apply goodst_ST.
      apply (Hg (rev l) (EvCb t st) (rev mid)).
      * rewrite E1, rev_app_distr. simpl. rewrite <- app_assoc. reflexivity.
      * intros x Hx. apply Hc. apply in_rev. exact Hx.
Qed.

Lemma input_eq_cancel i : i = IApi ACancel \/ i <> IApi ACancel.
Proof. destruct i as [c| | |]; try (right; discriminate). destruct c; try (right; discriminate). left; reflexivity. Qed.

(* the status clauses for the trace so far: no ares_destroy yet, every top-level ares_cancel closed *)
Definition sacs (s : state) : Prop :=
  status_at_cancel (rev (st_trace s)) /\ cclosed (rev (st_trace s)) /\ ~ In EvDestroyBegin (rev (st_trace s)).

Lemma sacs_ext s s' nw : sacs s -> st_trace s' = nw ++ st_trace s -> (forall e, In e nw -> top_ev e = false) -> sacs s'.
Proof.
  intros [H1 [H2 H3]] E Hn. unfold sacs. rewrite E, rev_app_distr.
  assert (Hn' : forall e, In e (rev nw) -> top_ev e = false) by (intros e He; apply Hn; apply in_rev; exact He).
  destruct (sac_app _ (rev nw) H1 H2 (notop_nocc _ Hn')) as [A B]. split; [exact A|]. split; [exact B|].
  intros Hin. apply in_app_or in Hin. destruct Hin as [Hin|Hin]; [contradiction|]. specialize (Hn' _ Hin). discriminate.
Qed.

Section CTop.
Variable cf : config.
Hypothesis Hfix : cf_fix cf = all_fixed.

(* no token requested before the call is still held when ares_cancel has returned *)
Lemma old_not_held Old T0 s : Inv s -> Stable s -> J Old T0 s -> tl (st_lists s) = [] -> forall t, In t Old -> ~ In t (held s).
Proof.
  intros I St Hj Htl t Ht Hh.
  assert (Hlk : forall qo, In qo (linked s) -> In qo (heads s)).
  { intros qo Hq. destruct (in_linked_split _ _ Hq) as [H|H]; auto. unfold tails in H. rewrite Htl in H. destruct H. }
  unfold held in Hh. apply in_app_or in Hh. destruct Hh as [Hh|Hh].
  - unfold qheld in Hh. apply in_flat_map in Hh. destruct Hh as [qo [Hq Hin]].
    unfold qtoks in Hin. destruct (cell_of s qo) as [[q|c|h|]|] eqn:Hc; try destruct Hin.
    destruct (j_head _ _ _ Hj qo q (Hlk _ Hq) Hc) as [[Hn _] _]. exact (Hn t Hin Ht).
  - unfold hheld in Hh. apply in_flat_map in Hh. destruct Hh as [o [_ Hin]].
    unfold htoks in Hin. destruct (shared_at s o) as [h|] eqn:Hs; [|destruct Hin].
    destruct (shared_host _ _ _ Hs) as [Hc Hp].
    destruct (St _ _ Hc) as [_ Hr].
    assert (Hne : refs_to s o <> []).
    { intros E. unfold nrefs in Hr. rewrite E in Hr. simpl in Hr. lia. }
    destruct (refs_to s o) as [|qo rs] eqn:Er; [congruence|].
    assert (Hqo : In qo (refs_to s o)) by (rewrite Er; left; reflexivity).
    unfold refs_to in Hqo. apply filter_In in Hqo. destruct Hqo as [Hq Hf].
    unfold href in Hf. destruct (cell_of s qo) as [[q|c|h'|]|] eqn:Hcq; try discriminate.
    destruct (kbot (q_cb q)) as [o'|] eqn:Ek; [|discriminate].
    apply Nat.eqb_eq in Hf. subst o'.
    destruct (j_head _ _ _ Hj qo q (Hlk _ Hq) Hcq) as [[_ Hn] _].
    exact (Hn o Ek h Hc t Hin Ht).
Qed.

(* the top-level ares_cancel *)
Lemma cancel_step_cac fuel tape s RF : Inv2 s -> TokInv s [] RF -> tl (st_lists s) = [] -> cacs s -> sacs s ->
  safe (step cf fuel (IApi ACancel) tape) s (fun _ s' => tl (st_lists s') = [] /\ cacs s' /\ sacs s').
Proof.
  intros [I St] T Htl Hc Hsa. pose proof (all_specs cf Hfix fuel) as IH. pose proof (all_specs2 cf Hfix fuel) as IH2.
  unfold step.
  apply safe_bind. apply safe_modify.
  set (s1 := set_tape tape s).
  assert (E1 : core_eq s s1) by apply core_eq_set_tape.
  assert (I1 : Inv s1) by (apply (inv_core _ _ _ E1); auto).
  assert (St1 : Stable s1) by (apply (stable_core _ _ E1); auto).
  assert (T1 : TokInv s1 [] RF) by (apply tokinv_set_tape; exact T).
  apply safe_bind. apply safe_bind. apply safe_emit.
  set (s2 := set_trace (EvCancelBegin :: st_trace s1) s1).
  assert (E2 : core_eq s1 s2) by apply core_eq_set_trace.
  assert (I2 : Inv s2) by (apply (inv_core _ _ _ E2); auto).
  assert (St2 : Stable s2) by (apply (stable_core _ _ E2); auto).
  assert (T2 : TokInv s2 [] RF).
  { apply tokinv_emit_other; try (intros; discriminate); try discriminate. exact T1. }
  assert (Htl2 : tl (st_lists s2) = []) by exact Htl.
  assert (Hc2 : cacs s2).
  { apply (cacs_ext s s2 [EvCancelBegin]); auto. intros [H|[]]. discriminate. }
  set (Old := reqd s2).
  set (T0 := st_trace s2).
  assert (Jp : Jpre Old T0 s2).
  { constructor.
    - intros qo q Ht. unfold tails in Ht. rewrite Htl2 in Ht. destruct Ht.
    - intros t Ht Ho. destruct T2 as [H1 _ _ _ _]. apply NoDup_app_iff in H1. destruct H1 as [_ [_ H1]].
      apply (H1 t Ho). apply in_or_app. left. exact Ht.
    - exists []. split; [reflexivity|]. intros e []. }
  assert (SC : safe (cancel cf fuel) s2 (fun _ s' => J Old T0 s')).
  { destruct fuel as [|f]; [apply safe_fail|]. apply (cancel_cstep cf Hfix Old T0 f (all_specs4 cf Hfix Old T0 f) s2 I2 Jp). }
  apply safe_bind.
  eapply safe_mono; [apply safe_pc_both; [apply safe_both; [apply safe_both; [apply (sp_cancel _ _ IH s2 I2)|apply (tp_cancel _ _ IH2 s2 [] RF I2 T2)]|exact SC]
                                         |apply (sh_cancel _ _ (all_shape cf fuel) s2 s2 (R_refl s2))]|].
  intros [] s3 [[[[I3 F3] T3] J3] [Rl [nw [Etr Hnt]]]].
  assert (Hnb : ~ In EvCancelBegin nw) by (intros Hin; specialize (Hnt _ Hin); discriminate).
  assert (Hne : ~ In EvCancelEnd nw) by (intros Hin; specialize (Hnt _ Hin); discriminate).
  assert (St3 : Stable s3) by exact (stable_frame _ _ _ St2 F3).
  assert (Htl3 : tl (st_lists s3) = []).
  { unfold tlrel in Rl. rewrite Htl2 in Rl. eapply f2_nil_l; eauto. }
  assert (Hc3 : cacs s3) by (apply (cacs_ext s2 s3 nw); auto).
  apply safe_emit.
  set (s4 := set_trace (EvCancelEnd :: st_trace s3) s3).
  assert (Hc4 : cacs s4).
  { unfold cacs. change (st_trace s4) with (EvCancelEnd :: st_trace s3). simpl rev.
    apply cacs_end; [exact Hc3|].
    intros before mid E Hm t Ht.
    (* the last EvCancelBegin of the trace is the one of this step *)
    assert (E3 : rev (st_trace s3) = rev (st_trace s1) ++ EvCancelBegin :: rev nw).
    { rewrite Etr. rewrite rev_app_distr. change (st_trace s2) with (EvCancelBegin :: st_trace s1). simpl.
      rewrite <- app_assoc. reflexivity. }
    rewrite E3 in E. symmetry in E.
    destruct (last_split_unique EvCancelBegin _ _ _ _ E Hm) as [Eb _].
    { intros Hin. apply Hnb. apply in_rev. exact Hin. }
    subst before.
    assert (Hto : In t Old).
    { unfold Old, reqd. change (st_trace s2) with (EvCancelBegin :: st_trace s1). unfold req_toks. simpl.
      fold (req_toks (st_trace s1)). apply req_toks_rev. apply in_req_toks. exact Ht. }
    destruct T3 as [H1 H2 H3 H4 H5].
    assert (Hr3 : In t (reqd s3)).
    { unfold reqd. rewrite Etr, req_toks_app. apply in_or_app. right. exact Hto. }
    assert (Hd : In t (deliv s3)).
    { pose proof (Permutation_in _ H2 Hr3) as Hin. rewrite app_nil_r in Hin. apply in_app_or in Hin.
      destruct Hin as [Hin|Hin]; auto. exfalso. exact (old_not_held Old T0 s3 I3 St3 J3 Htl3 t Hto Hin). }
    assert (Hcb : 1 <= count_cb (rev (st_trace s3)) t) by (rewrite count_cb_rev; apply in_cb_toks; exact Hd).
    assert (Hrq : count_req (rev (st_trace s1)) t <= 1).
    { rewrite count_req_rev. rewrite count_perm_req.
      assert (Hnd : NoDup (req_toks (st_trace s1))).
      { destruct T1 as [X _ _ _ _]. apply NoDup_app_iff in X. tauto. }
      apply NoDup_count_occ. exact Hnd. }
    lia. }
  assert (Hs4 : sacs s4).
  { destruct Hsa as [A1 [A2 A3]].
    assert (E4 : rev (st_trace s4) = rev (st_trace s) ++ EvCancelBegin :: rev nw ++ [EvCancelEnd]).
    { change (st_trace s4) with (EvCancelEnd :: st_trace s3). simpl rev. rewrite Etr, rev_app_distr.
      change (st_trace s2) with (EvCancelBegin :: st_trace s). simpl. rewrite <- !app_assoc. reflexivity. }
    assert (Hn' : forall e, In e (rev nw) -> top_ev e = false) by (intros e He; apply Hnt; apply in_rev; exact He).
    unfold sacs. rewrite E4.
    destruct (sac_bracket (rev (st_trace s)) (rev nw) A1 A2 (notop_nocc _ Hn')) as [B1 B2].
    - intros t st Hin Hrq. apply in_rev in Hin.
      destruct (j_tr _ _ _ J3) as [nw' [Etr' Hok]].
      assert (Enw : nw' = nw) by (apply (app_inv_tail (st_trace s2)); unfold T0 in Etr'; congruence).
      subst nw'. apply (Hok _ Hin).
      unfold Old, reqd. change (st_trace s2) with (EvCancelBegin :: st_trace s). unfold req_toks. simpl.
      fold (req_toks (st_trace s)). apply req_toks_rev. apply in_req_toks. exact Hrq.
    - split; [exact B1|]. split; [exact B2|].
      intros Hin. apply in_app_or in Hin. destruct Hin as [Hin|[Hin|Hin]]; [contradiction|discriminate|].
      apply in_app_or in Hin. destruct Hin as [Hin|[Hin|[]]]; [|discriminate]. specialize (Hn' _ Hin). discriminate. }
  apply safe_bind. apply safe_get. destruct (st_tape s4); [apply safe_ret; split; [exact Htl3|split; [exact Hc4|exact Hs4]]|apply safe_fail].
Qed.

(* every other step *)
Lemma pres_step fuel i tape : i <> IApi ACancel -> i <> IDestroy -> Pres (step cf fuel i tape).
Proof.
  intros Hi Hd. unfold step.
  assert (Pm : Pres (modify (set_tape tape))) by (apply pres_modify_keep; intros; split; reflexivity).
  assert (Pf : Pres (let! s := get in match st_tape s with [] => ret tt | _ => fail EDESYNC end)).
  { apply pres_bind; [apply pres_get|]. intros a. destruct (st_tape a); [apply pres_ret|apply pres_fail]. }
  apply pres_bind; [exact Pm|intros _]. apply pres_bind; [|intros _; exact Pf].
  destruct i as [c|t c|w r|].
  - assert (Pa : Pres (api cf fuel c)) by apply (sh_api _ _ (all_shape cf fuel)).
    destruct c; try exact Pa. contradiction.
  - apply pres_modify_keep. intros s. unfold add_script. destruct (delivered t s); split; reflexivity.
  - apply pres_process_fds.
  - contradiction.
Qed.

Lemma step_cac fuel i tape s RF : Inv2 s -> i <> IDestroy -> TokInv s [] (input_toks i ++ RF) -> tl (st_lists s) = [] -> cacs s -> sacs s ->
  safe (step cf fuel i tape) s (fun _ s' => (Inv2 s' /\ TokInv s' [] RF) /\ tl (st_lists s') = [] /\ cacs s' /\ sacs s').
Proof.
  intros I Hnd T Htl Hc Hsa.
  destruct (input_eq_cancel i) as [->|Hi].
  - apply safe_both; [apply (step_tok cf Hfix fuel _ tape s RF I Hnd T)|].
    apply (cancel_step_cac fuel tape s RF I); auto.
  - eapply safe_mono; [apply safe_pc_both; [apply (step_tok cf Hfix fuel i tape s RF I Hnd T)
                                            |apply (pres_step fuel i tape Hi Hnd s s (R_refl s))]|].
    intros [] s' [H1 [Rl [nw [Etr Hnt]]]]. split; [exact H1|]. split; [|split].
    + unfold tlrel in Rl. rewrite Htl in Rl. eapply f2_nil_l; eauto.
    + apply (cacs_ext s s' nw); auto. intros Hin. specialize (Hnt _ Hin). discriminate.
    + apply (sacs_ext s s' nw); auto.
Qed.

(* ares_destroy *)
Lemma close_idle_trace f co st s c : heap_ok s -> cell_of s co = Some (CConn c) -> c_queries c = [] ->
  safe (close_connection cf f co st) s (fun _ s' => linked s' = linked s /\ st_trace s' = st_trace s).
Proof.
  intros Hh Hc Hq.
  eapply safe_mono; [apply safe_pc_both; [apply (close_idle_linked cf f co st s c Hh Hc Hq)|apply (close_idle_quiet cf f co st s c Hc Hq)]|].
  intros [] s' H. exact H.
Qed.

Lemma destroy_conns_quiet f n : forall s, linked s = [] -> Inv2 s ->
  safe (destroy_conns cf f n) s (fun _ s' => st_trace s' = st_trace s).
Proof.
  pose proof (all_specs cf Hfix f) as IH.
  induction n as [|n IHn]; intros s El [I St]; simpl; [apply safe_fail|].
  apply safe_bind. apply safe_get.
  destruct (st_conns s) as [|co0 r] eqn:Ec; [apply safe_ret; reflexivity|].
  apply safe_bind. apply safe_peek.
  destruct (hd_error (st_tape s)) as [e|]; [|apply safe_fail].
  destruct e; try apply safe_fail.
  destruct (find_conn_by_sock_ok _ s sock I) as [r0 [E1 Hr]].
  apply safe_bind. eapply safe_of_run; [exact E1|].
  destruct r0 as [co|]; [|apply safe_fail].
  destruct (Hr _ eq_refl) as [Hin [c [Hc Hncl]]].
  assert (Hq : c_queries c = []).
  { destruct (c_queries c) as [|qo l] eqn:Eq; auto. exfalso.
    assert (Hqo : In qo (c_queries c)) by (rewrite Eq; left; reflexivity).
    destruct (inv_connq _ _ I _ _ _ Hc Hqo) as [Hl _]. rewrite El in Hl. destruct Hl. }
  apply safe_bind.
  eapply safe_mono; [apply safe_both;
       [apply (sp_close_connection _ _ IH co ARES_SUCCESS s c I Hc)
       |apply (close_idle_trace f co ARES_SUCCESS s c (inv_heap _ _ I) Hc Hq)]|].
  intros [] s1 [[I1 F1] [El1 Et1]].
  eapply safe_mono; [apply IHn; [rewrite El1; exact El|split; [exact I1|exact (stable_frame _ _ _ St F1)]]|].
  intros [] s2 E2. rewrite E2. exact Et1.
Qed.

Lemma destroy_dk f s : Inv2 s -> safe (destroy cf f) s (dpost s).
Proof.
  intros [I St]. unfold destroy.
  apply safe_bind. apply safe_modify.
  set (s1 := set_destroying true s).
  assert (E1 : core_eq s s1) by apply core_eq_set_destroying.
  assert (I1 : Inv2 s1) by (split; [apply (inv_core _ _ _ E1); auto|apply (stable_core _ _ E1); auto]).
  apply safe_bind. apply safe_get. rewrite (fx_unlink_true cf Hfix).
  apply safe_bind.
  eapply safe_mono; [apply safe_pc_both; [apply (destroy_loop_ok cf Hfix f f s1 I1)|apply (destroy_loop_dk cf Hfix f f s1)]|].
  intros [] s2 [I2 D2]. apply safe_bind. apply safe_get.
  destruct (concat (st_lists s2)) as [|x l] eqn:El; [|apply safe_fail].
  destruct (st_byqid s2); [|apply safe_fail]. destruct (st_bytmo s2); [|apply safe_fail]. simpl.
  eapply safe_mono; [apply (destroy_conns_quiet f f s2 El I2)|].
  intros [] s3 E3. destruct D2 as [add [E2 G2]]. exists add. rewrite E3. split; [exact E2|exact G2].
Qed.

Lemma destroy_step_trace fuel tape s : Inv2 s ->
  safe (step cf fuel IDestroy tape) s
       (fun _ s' => exists add, st_trace s' = EvDestroyEnd :: add ++ EvDestroyBegin :: st_trace s
                                /\ (forall e, In e add -> top_ev e = false) /\ pgood add).
Proof.
  intros [I St]. unfold step.
  apply safe_bind. apply safe_modify.
  set (s1 := set_tape tape s).
  assert (E1 : core_eq s s1) by apply core_eq_set_tape.
  apply safe_bind. apply safe_bind. apply safe_emit.
  set (s2 := set_trace (EvDestroyBegin :: st_trace s1) s1).
  assert (E2 : core_eq s1 s2) by apply core_eq_set_trace.
  assert (I2 : Inv2 s2).
  { split; [apply (ce_inv _ _ _ E2); apply (ce_inv _ _ _ E1); auto|apply (stable_core _ _ E2); apply (stable_core _ _ E1); auto]. }
  apply safe_bind.
  eapply safe_mono; [apply safe_pc_both; [apply (destroy_dk fuel s2 I2)|apply (pres_destroy cf fuel s2 s2 (R_refl s2))]|].
  intros [] s3 [[add [Ea Ga]] [_ [nw [En Hn]]]].
  assert (Eq : add = nw) by (apply (app_inv_tail (st_trace s2)); rewrite <- Ea; exact En).
  subst add. apply safe_emit. apply safe_bind. apply safe_get. simpl.
  destruct (st_tape s3); [|apply safe_fail]. apply safe_ret.
  exists nw. split; [|split; auto]. simpl. rewrite En. reflexivity.
Qed.

(* what the trace of the final ares_destroy adds *)
Definition Fin (s s' : state) : Prop :=
  exists add, st_trace s' = EvDestroyEnd :: add ++ EvDestroyBegin :: st_trace s
              /\ (forall e, In e add -> top_ev e = false) /\ pgood add.

Lemma destroy_step_cac fuel tape s RF : Inv2 s -> TokInv s [] RF ->
  safe (step cf fuel IDestroy tape) s (fun _ s' => Done s' /\ Fin s s').
Proof.
  intros I T.
  apply safe_both; [apply (destroy_step_tok cf Hfix fuel tape s RF I T)|apply (destroy_step_trace fuel tape s I)].
Qed.

(* the three trace properties at the end of the run *)
Definition endok (tr : list event) : Prop := complete_at_cancel tr /\ status_at_cancel tr /\ status_at_destroy tr.

Lemma fin_endok s s' tail : cacs s -> sacs s -> Fin s s' -> tail = [] \/ tail = [EvEnd] ->
  endok (rev (st_trace s') ++ tail).
Proof.
  intros Hc [A1 [A2 A3]] [add [E [Hn Hg]]] Ht.
  assert (Er : rev (st_trace s') ++ tail = rev (st_trace s) ++ (EvDestroyBegin :: rev add ++ EvDestroyEnd :: tail)).
  { rewrite E. simpl. rewrite rev_app_distr. simpl. rewrite <- !app_assoc. simpl. reflexivity. }
  assert (Hn' : forall e, In e (rev add) -> top_ev e = false) by (intros e He; apply Hn; apply in_rev; exact He).
  assert (Hcc : nocc (EvDestroyBegin :: rev add ++ EvDestroyEnd :: tail)).
  { destruct (notop_nocc _ Hn') as [N1 N2].
    split; intros [H|H]; try discriminate; apply in_app_or in H; destruct H as [H|[H|H]]; try contradiction; try discriminate;
      destruct Ht as [->| ->]; simpl in H; intuition discriminate. }
  rewrite Er. split; [|split].
  - apply cacs_app; [exact Hc|exact (proj2 Hcc)].
  - exact (proj1 (sac_app _ _ A1 A2 Hcc)).
  - apply sad_final; auto.
    + intros Hin. specialize (Hn' _ Hin). discriminate.
    + destruct Ht as [->| ->]; simpl; intuition discriminate.
    + intros t st. destruct Ht as [->| ->]; simpl; intuition discriminate.
    + rewrite rev_involutive. exact Hg.
Qed.

Lemma run_from_cac fuel h : forall s RF, Inv2 s -> TokInv s [] (hist_toks h ++ RF) -> tl (st_lists s) = [] -> cacs s -> sacs s ->
  safe (run_from cf fuel h) s (fun d s' => if d then exists s0, cacs s0 /\ sacs s0 /\ Fin s0 s'
                                           else (Inv2 s' /\ TokInv s' [] RF) /\ cacs s' /\ sacs s').
Proof.
  induction h as [|[i tape] rest IHh]; intros s RF I T Htl Hc Hsa; simpl.
  - apply safe_ret. simpl in T. auto.
  - simpl in T. unfold hist_toks in T. simpl in T. rewrite <- app_assoc in T.
    fold (hist_toks rest) in T.
    assert (G : i <> IDestroy -> safe (step cf fuel i tape;; run_from cf fuel rest) s
                 (fun d s' => if d then exists s0, cacs s0 /\ sacs s0 /\ Fin s0 s'
                              else (Inv2 s' /\ TokInv s' [] RF) /\ cacs s' /\ sacs s')).
    { intros Hnd. apply safe_bind.
      eapply safe_mono; [apply (step_cac fuel i tape s (hist_toks rest ++ RF) I); auto|].
      intros [] s1 [[I1 T1] [Htl1 [Hc1 Hs1]]]. apply IHh; auto. }
    destruct i; try (apply G; discriminate).
    apply safe_bind. simpl in T.
    eapply safe_mono; [apply (destroy_step_cac fuel tape s (hist_toks rest ++ RF) I T)|].
    intros [] s1 [D1 F1]. apply safe_ret. exists s. auto.
Qed.

End CTop.

Lemma init_cacs cf : cacs (init_state cf).
Proof. intros before mid post E. destruct before; discriminate. Qed.

Lemma init_sacs cf : sacs (init_state cf).
Proof.
  split; [|split].
  - intros before mid t st post E. destruct before; discriminate.
  - intros before mid E. destruct before; discriminate.
  - intros [].
Qed.

Theorem run_endok cf fuel h final tr :
  cf_fix cf = all_fixed -> NoDup (hist_toks h) ->
  run cf fuel h final = Ok tr -> endok tr.
Proof.
  intros Hfix Hn Hrun. unfold run in Hrun.
  assert (S : safe (let! destroyed := run_from cf fuel h in
                    (if destroyed then ret tt else step cf fuel IDestroy final);; emit EvEnd)
                   (init_state cf) (fun _ s => endok (rev (st_trace s)))).
  { apply safe_bind.
    eapply safe_mono; [apply (run_from_cac cf Hfix fuel h (init_state cf) [] (init_inv cf))|].
    - rewrite app_nil_r. apply init_tokinv. exact Hn.
    - reflexivity.
    - apply init_cacs.
    - apply init_sacs.
    - intros d s1 H1. apply safe_bind.
      destruct d.
      + (* the history destroyed the channel: only EvEnd follows *)
        destruct H1 as [s0 [C1 [C2 C3]]].
        apply safe_ret. apply safe_emit. simpl. exact (fin_endok s0 s1 [EvEnd] C1 C2 C3 (or_intror eq_refl)).
      + destruct H1 as [[I1 T1] [Hc1 Hs1]].
        eapply safe_mono; [apply (destroy_step_cac cf Hfix fuel final s1 [] I1 T1)|].
        intros [] s2 [_ F2]. apply safe_emit. simpl. exact (fin_endok s1 s2 [EvEnd] Hc1 Hs1 F2 (or_intror eq_refl)). }
  unfold safe in S.
  destruct ((let! destroyed := run_from cf fuel h in
             (if destroyed then ret tt else step cf fuel IDestroy final);; emit EvEnd) (init_state cf))
    as [[a s']|e|k']; try discriminate.
  inversion Hrun; subst. exact S.
Qed.

Theorem run_complete_at_cancel cf fuel h final tr :
  cf_fix cf = all_fixed -> NoDup (hist_toks h) ->
  run cf fuel h final = Ok tr -> complete_at_cancel tr.
Proof. intros H1 H2 H3. exact (proj1 (run_endok cf fuel h final tr H1 H2 H3)). Qed.

(* the status with which requests end inside ares_cancel / ares_destroy *)
Theorem run_status_ok cf fuel h final tr :
  cf_fix cf = all_fixed -> NoDup (hist_toks h) ->
  run cf fuel h final = Ok tr -> status_ok tr.
Proof. intros H1 H2 H3. exact (proj2 (run_endok cf fuel h final tr H1 H2 H3)). Qed.

(* everything both oracles judge *)
Theorem run_trace_ok_full cf fuel h final tr :
  cf_fix cf = all_fixed -> NoDup (hist_toks h) ->
  run cf fuel h final = Ok tr -> trace_ok tr /\ status_ok tr.
Proof.
  intros H1 H2 H3. destruct (run_trace_ok cf fuel h final tr H1 H2 H3) as [A [B C]].
  split; [|eapply run_status_ok; eauto].
  split; [exact A|]. split; [exact B|]. split; [exact C|]. eapply run_complete_at_cancel; eauto.
Qed.
