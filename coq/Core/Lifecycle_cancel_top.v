(* C01: when a top-level ares_cancel returns, every request made before it was called has been
   completed (fixed code).  Histories: the invariants of Lifecycle_tokens_proofs.v, plus "no call
   of ares_cancel is in progress" (one list of queries) and the property for the trace so far. *)
From Coq Require Import List ZArith Lia Bool Arith Permutation.
Import ListNotations.
From CAres.Base Require Import Outcome.
From CAres.Gen Require Import Consts.
From CAres.Core Require Import LifecycleMonitor Lifecycle Lifecycle_inv Lifecycle_proofs Lifecycle_tokens Lifecycle_tokens_proofs
  Lifecycle_shape Lifecycle_cancel Lifecycle_cancel_proofs.

Definition cacs (s : state) : Prop := complete_at_cancel (rev (st_trace s)).

(* ---- lists ---- *)
Lemma app_split_notin {A} (a : list A) : forall (l1 l2 b : list A) x,
  l1 ++ l2 = a ++ x :: b -> ~ In x l2 -> exists b', l1 = a ++ x :: b' /\ b = b' ++ l2.
Proof.
  induction a as [|y a IH]; intros l1 l2 b x E Hn; simpl in *.
  - destruct l1 as [|z l1]; simpl in E.
    + exfalso. apply Hn. rewrite E. left. reflexivity.
    + inversion E; subst. exists l1. auto.
  - destruct l1 as [|z l1]; simpl in E.
    + exfalso. apply Hn. rewrite E. right. apply in_or_app. right. left. reflexivity.
    + inversion E; subst. destruct (IH _ _ _ _ H1 Hn) as [b' [E1 E2]]. exists b'. subst. auto.
Qed.

Lemma last_split_unique {A} (x : A) : forall a b a' b',
  a ++ x :: b = a' ++ x :: b' -> ~ In x b -> ~ In x b' -> a = a' /\ b = b'.
Proof.
  induction a as [|y a IH]; intros b a' b' E Hb Hb'; destruct a' as [|y' a']; simpl in E.
  - inversion E. auto.
  - inversion E; subst. exfalso. apply Hb. apply in_or_app. right. left. reflexivity.
  - inversion E; subst. exfalso. apply Hb'. apply in_or_app. right. left. reflexivity.
  - inversion E; subst. destruct (IH _ _ _ H1 Hb Hb'). subst. auto.
Qed.

Lemma cacs_app tr nw : complete_at_cancel tr -> ~ In EvCancelEnd nw -> complete_at_cancel (tr ++ nw).
Proof.
  intros H Hn before mid post E Hm t Ht.
  assert (E' : tr ++ nw = (before ++ EvCancelBegin :: mid) ++ EvCancelEnd :: post) by (rewrite E, <- app_assoc; reflexivity).
  destruct (app_split_notin _ _ _ _ _ E' Hn) as [b' [E1 _]].
  apply (H before mid b'); auto. rewrite E1, <- app_assoc. reflexivity.
Qed.

Lemma cacs_ext s s' nw : cacs s -> st_trace s' = nw ++ st_trace s -> ~ In EvCancelEnd nw -> cacs s'.
Proof.
  intros H E Hn. unfold cacs. rewrite E, rev_app_distr. apply cacs_app; auto.
  intros Hin. apply Hn. apply in_rev. exact Hin.
Qed.

Lemma cacs_end tr :
  complete_at_cancel tr ->
  (forall before mid, tr = before ++ EvCancelBegin :: mid -> ~ In EvCancelBegin mid ->
     forall t, In (EvReq t) before -> count_req before t <= count_cb tr t) ->
  complete_at_cancel (tr ++ [EvCancelEnd]).
Proof.
  intros H Hnew before mid post E Hm t Ht.
  destruct post as [|p post'].
  - assert (E' : tr ++ [EvCancelEnd] = (before ++ EvCancelBegin :: mid) ++ [EvCancelEnd]) by (rewrite E, <- app_assoc; reflexivity).
    apply app_inj_tail in E'. destruct E' as [E' _]. rewrite <- E'. apply (Hnew before mid); auto.
  - assert (Hne : p :: post' <> []) by discriminate.
    destruct (exists_last Hne) as [l' [a Ea]]. rewrite Ea in E.
    assert (E' : tr ++ [EvCancelEnd] = (before ++ EvCancelBegin :: mid ++ EvCancelEnd :: l') ++ [a]).
    { rewrite E. rewrite <- !app_assoc. simpl. rewrite <- app_assoc. reflexivity. }
    apply app_inj_tail in E'. destruct E' as [E' _]. eapply H; eauto.
Qed.

Lemma req_toks_app a b : req_toks (a ++ b) = req_toks a ++ req_toks b.
Proof. unfold req_toks. apply flat_map_app. Qed.

Lemma in_req_toks tr t : In (EvReq t) tr <-> In t (req_toks tr).
Proof.
  unfold req_toks. rewrite in_flat_map. split.
  - intros H. exists (EvReq t). split; auto. left. reflexivity.
  - intros [e [He Ht]]. destruct e; simpl in Ht; try contradiction. destruct Ht as [->|[]]. exact He.
Qed.

Lemma in_cb_toks tr t : In t (cb_toks tr) -> 1 <= count_cb tr t.
Proof.
  intros H. rewrite count_perm_cb. destruct (count_occ Nat.eq_dec (cb_toks tr) t) eqn:E; [|lia].
  exfalso. eapply count_occ_not_In; eauto.
Qed.

Lemma req_toks_rev tr : forall t, In t (req_toks (rev tr)) <-> In t (req_toks tr).
Proof. intros t. rewrite <- !in_req_toks. rewrite <- in_rev. tauto. Qed.

Lemma f2_nil_l {A B} (P : A -> B -> Prop) l : Forall2 P l [] -> l = [].
Proof. intros H. inversion H. reflexivity. Qed.

Lemma input_eq_cancel i : i = IApi ACancel \/ i <> IApi ACancel.
Proof. destruct i as [c| | |]; try (right; discriminate). destruct c; try (right; discriminate). left; reflexivity. Qed.

Section CTop.
Variable cf : config.
Hypothesis Hfix : cf_fix cf = all_fixed.

(* no token requested before the call is still held when ares_cancel has returned *)
Lemma old_not_held Old s : Inv s -> Stable s -> J Old s -> tl (st_lists s) = [] -> forall t, In t Old -> ~ In t (held s).
Proof.
  intros I St Hj Htl t Ht Hh.
  assert (Hlk : forall qo, In qo (linked s) -> In qo (heads s)).
  { intros qo Hq. destruct (in_linked_split _ _ Hq) as [H|H]; auto. unfold tails in H. rewrite Htl in H. destruct H. }
  unfold held in Hh. apply in_app_or in Hh. destruct Hh as [Hh|Hh].
  - unfold qheld in Hh. apply in_flat_map in Hh. destruct Hh as [qo [Hq Hin]].
    unfold qtoks in Hin. destruct (cell_of s qo) as [[q|c|h|]|] eqn:Hc; try destruct Hin.
    destruct (j_head _ _ Hj qo q (Hlk _ Hq) Hc) as [[Hn _] _]. exact (Hn t Hin Ht).
  - unfold hheld in Hh. apply in_flat_map in Hh. destruct Hh as [o [_ Hin]].
    unfold htoks in Hin. destruct (shared_at s o) as [h|] eqn:Hs; [|destruct Hin].
    destruct (shared_host _ _ _ Hs) as [Hc Hp].
    destruct (St _ _ Hc) as [_ Hr].
    assert (Hne : refs_to s o <> []).
    { intros E. unfold nrefs in Hr. rewrite E in Hr. simpl in Hr. lia. }
    destruct (refs_to s o) as [|qo rs] eqn:Er; [congruence|].
    assert (Hqo : In qo (refs_to s o)) by (rewrite Er; left; reflexivity).
    unfold refs_to in Hqo. apply filter_In in Hqo. destruct Hqo as [Hq Hf].
    unfold href in Hf. destruct (cell_of s qo) as [[q|c|h'|]|] eqn:Hcq; try discriminate.
    destruct (kbot (q_cb q)) as [o'|] eqn:Ek; [|discriminate].
    apply Nat.eqb_eq in Hf. subst o'.
    destruct (j_head _ _ Hj qo q (Hlk _ Hq) Hcq) as [[_ Hn] _].
    exact (Hn o Ek h Hc t Hin Ht).
Qed.

(* the top-level ares_cancel *)
Lemma cancel_step_cac fuel tape s RF : Inv2 s -> TokInv s [] RF -> tl (st_lists s) = [] -> cacs s ->
  safe (step cf fuel (IApi ACancel) tape) s (fun _ s' => tl (st_lists s') = [] /\ cacs s').
Proof.
  intros [I St] T Htl Hc. pose proof (all_specs cf Hfix fuel) as IH. pose proof (all_specs2 cf Hfix fuel) as IH2.
  unfold step.
  apply safe_bind. apply safe_modify.
  set (s1 := set_tape tape s).
  assert (E1 : core_eq s s1) by apply core_eq_set_tape.
  assert (I1 : Inv s1) by (apply (inv_core _ _ _ E1); auto).
  assert (St1 : Stable s1) by (apply (stable_core _ _ E1); auto).
  assert (T1 : TokInv s1 [] RF) by (apply tokinv_set_tape; exact T).
  apply safe_bind. apply safe_bind. apply safe_emit.
  set (s2 := set_trace (EvCancelBegin :: st_trace s1) s1).
  assert (E2 : core_eq s1 s2) by apply core_eq_set_trace.
  assert (I2 : Inv s2) by (apply (inv_core _ _ _ E2); auto).
  assert (St2 : Stable s2) by (apply (stable_core _ _ E2); auto).
  assert (T2 : TokInv s2 [] RF).
  { apply tokinv_emit_other; try (intros; discriminate); try discriminate. exact T1. }
  assert (Htl2 : tl (st_lists s2) = []) by exact Htl.
  assert (Hc2 : cacs s2).
  { apply (cacs_ext s s2 [EvCancelBegin]); auto. intros [H|[]]. discriminate. }
  set (Old := reqd s2).
  assert (Jp : Jpre Old s2).
  { constructor.
    - intros qo q Ht. unfold tails in Ht. rewrite Htl2 in Ht. destruct Ht.
    - intros t Ht Ho. destruct T2 as [H1 _ _ _ _]. apply NoDup_app_iff in H1. destruct H1 as [_ [_ H1]].
      apply (H1 t Ho). apply in_or_app. left. exact Ht. }
  assert (SC : safe (cancel cf fuel) s2 (fun _ s' => J Old s')).
  { destruct fuel as [|f]; [apply safe_fail|]. apply (cancel_cstep cf Hfix Old f (all_specs4 cf Hfix Old f) s2 I2 Jp). }
  apply safe_bind.
  eapply safe_mono; [apply safe_pc_both; [apply safe_both; [apply safe_both; [apply (sp_cancel _ _ IH s2 I2)|apply (tp_cancel _ _ IH2 s2 [] RF I2 T2)]|exact SC]
                                         |apply (sh_cancel _ _ (all_shape cf fuel) s2 s2 (R_refl s2))]|].
  intros [] s3 [[[[I3 F3] T3] J3] [Rl [nw [Etr [Hnb Hne]]]]].
  assert (St3 : Stable s3) by exact (stable_frame _ _ _ St2 F3).
  assert (Htl3 : tl (st_lists s3) = []).
  { unfold tlrel in Rl. rewrite Htl2 in Rl. eapply f2_nil_l; eauto. }
  assert (Hc3 : cacs s3) by (apply (cacs_ext s2 s3 nw); auto).
  apply safe_emit.
  set (s4 := set_trace (EvCancelEnd :: st_trace s3) s3).
  assert (Hc4 : cacs s4).
  { unfold cacs. change (st_trace s4) with (EvCancelEnd :: st_trace s3). simpl rev.
    apply cacs_end; [exact Hc3|].
    intros before mid E Hm t Ht.
    (* the last EvCancelBegin of the trace is the one of this step *)
    assert (E3 : rev (st_trace s3) = rev (st_trace s1) ++ EvCancelBegin :: rev nw).
    { rewrite Etr. rewrite rev_app_distr. change (st_trace s2) with (EvCancelBegin :: st_trace s1). simpl.
      rewrite <- app_assoc. reflexivity. }
    rewrite E3 in E. symmetry in E.
    destruct (last_split_unique EvCancelBegin _ _ _ _ E Hm) as [Eb _].
    { intros Hin. apply Hnb. apply in_rev. exact Hin. }
    subst before.
    assert (Hto : In t Old).
    { unfold Old, reqd. change (st_trace s2) with (EvCancelBegin :: st_trace s1). unfold req_toks. simpl.
      fold (req_toks (st_trace s1)). apply req_toks_rev. apply in_req_toks. exact Ht. }
    destruct T3 as [H1 H2 H3 H4 H5].
    assert (Hr3 : In t (reqd s3)).
    { unfold reqd. rewrite Etr, req_toks_app. apply in_or_app. right. exact Hto. }
    assert (Hd : In t (deliv s3)).
    { pose proof (Permutation_in _ H2 Hr3) as Hin. rewrite app_nil_r in Hin. apply in_app_or in Hin.
      destruct Hin as [Hin|Hin]; auto. exfalso. exact (old_not_held Old s3 I3 St3 J3 Htl3 t Hto Hin). }
    assert (Hcb : 1 <= count_cb (rev (st_trace s3)) t) by (rewrite count_cb_rev; apply in_cb_toks; exact Hd).
    assert (Hrq : count_req (rev (st_trace s1)) t <= 1).
    { rewrite count_req_rev. rewrite count_perm_req.
      assert (Hnd : NoDup (req_toks (st_trace s1))).
      { destruct T1 as [X _ _ _ _]. apply NoDup_app_iff in X. tauto. }
      apply NoDup_count_occ. exact Hnd. }
    lia. }
  apply safe_bind. apply safe_get. destruct (st_tape s4); [apply safe_ret; split; [exact Htl3|exact Hc4]|apply safe_fail].
Qed.

(* every other step *)
Lemma pres_step fuel i tape : i <> IApi ACancel -> Pres (step cf fuel i tape).
Proof.
  intros Hi. unfold step.
  assert (Pm : Pres (modify (set_tape tape))) by (apply pres_modify_keep; intros; split; reflexivity).
  assert (Pf : Pres (let! s := get in match st_tape s with [] => ret tt | _ => fail EDESYNC end)).
  { apply pres_bind; [apply pres_get|]. intros a. destruct (st_tape a); [apply pres_ret|apply pres_fail]. }
  apply pres_bind; [exact Pm|intros _]. apply pres_bind; [|intros _; exact Pf].
  destruct i as [c|t c|w r|].
  - assert (Pa : Pres (api cf fuel c)) by apply (sh_api _ _ (all_shape cf fuel)).
    destruct c; try exact Pa. contradiction.
  - apply pres_modify_keep. intros s. unfold add_script. destruct (delivered t s); split; reflexivity.
  - apply pres_process_fds.
  - apply pres_bind; [apply pres_emit; discriminate|intros _].
    apply pres_bind; [apply pres_destroy|intros _]. apply pres_emit; discriminate.
Qed.

Lemma step_cac fuel i tape s RF : Inv2 s -> i <> IDestroy -> TokInv s [] (input_toks i ++ RF) -> tl (st_lists s) = [] -> cacs s ->
  safe (step cf fuel i tape) s (fun _ s' => (Inv2 s' /\ TokInv s' [] RF) /\ tl (st_lists s') = [] /\ cacs s').
Proof.
  intros I Hnd T Htl Hc.
  destruct (input_eq_cancel i) as [->|Hi].
  - apply safe_both; [apply (step_tok cf Hfix fuel _ tape s RF I Hnd T)|].
    apply (cancel_step_cac fuel tape s RF I); auto.
  - eapply safe_mono; [apply safe_pc_both; [apply (step_tok cf Hfix fuel i tape s RF I Hnd T)
                                            |apply (pres_step fuel i tape Hi s s (R_refl s))]|].
    intros [] s' [H1 [Rl [nw [Etr [_ Hne]]]]]. split; [exact H1|]. split.
    + unfold tlrel in Rl. rewrite Htl in Rl. eapply f2_nil_l; eauto.
    + apply (cacs_ext s s' nw); auto.
Qed.

Lemma destroy_step_cac fuel tape s RF : Inv2 s -> TokInv s [] RF -> cacs s ->
  safe (step cf fuel IDestroy tape) s (fun _ s' => Done s' /\ cacs s').
Proof.
  intros I T Hc.
  eapply safe_mono; [apply safe_pc_both; [apply (destroy_step_tok cf Hfix fuel tape s RF I T)
                                          |apply (pres_step fuel IDestroy tape ltac:(discriminate) s s (R_refl s))]|].
  intros [] s' [H1 [_ [nw [Etr [_ Hne]]]]]. split; [exact H1|]. apply (cacs_ext s s' nw); auto.
Qed.

Lemma run_from_cac fuel h : forall s RF, Inv2 s -> TokInv s [] (hist_toks h ++ RF) -> tl (st_lists s) = [] -> cacs s ->
  safe (run_from cf fuel h) s (fun d s' => cacs s' /\ if d then Done s' else Inv2 s' /\ TokInv s' [] RF).
Proof.
  induction h as [|[i tape] rest IHh]; intros s RF I T Htl Hc; simpl.
  - apply safe_ret. simpl in T. auto.
  - simpl in T. unfold hist_toks in T. simpl in T. rewrite <- app_assoc in T.
    fold (hist_toks rest) in T.
    assert (G : i <> IDestroy -> safe (step cf fuel i tape;; run_from cf fuel rest) s
                 (fun d s' => cacs s' /\ if d then Done s' else Inv2 s' /\ TokInv s' [] RF)).
    { intros Hnd. apply safe_bind.
      eapply safe_mono; [apply (step_cac fuel i tape s (hist_toks rest ++ RF) I); auto|].
      intros [] s1 [[I1 T1] [Htl1 Hc1]]. apply IHh; auto. }
    destruct i; try (apply G; discriminate).
    apply safe_bind. simpl in T.
    eapply safe_mono; [apply (destroy_step_cac fuel tape s (hist_toks rest ++ RF) I T Hc)|].
    intros [] s1 [D1 Hc1]. apply safe_ret. auto.
Qed.

End CTop.

Lemma init_cacs cf : cacs (init_state cf).
Proof. intros before mid post E. destruct before; discriminate. Qed.

Theorem run_complete_at_cancel cf fuel h final tr :
  cf_fix cf = all_fixed -> NoDup (hist_toks h) ->
  run cf fuel h final = Ok tr -> complete_at_cancel tr.
Proof.
  intros Hfix Hn Hrun. unfold run in Hrun.
  assert (S : safe (let! destroyed := run_from cf fuel h in
                    (if destroyed then ret tt else step cf fuel IDestroy final);; emit EvEnd)
                   (init_state cf) (fun _ s => complete_at_cancel (rev (st_trace s)))).
  { apply safe_bind.
    eapply safe_mono; [apply (run_from_cac cf Hfix fuel h (init_state cf) [] (init_inv cf))|].
    - rewrite app_nil_r. apply init_tokinv. exact Hn.
    - reflexivity.
    - apply init_cacs.
    - intros d s1 [Hc1 H1]. apply safe_bind.
      assert (Fin : forall s2, cacs s2 -> safe (emit EvEnd) s2 (fun _ s => complete_at_cancel (rev (st_trace s)))).
      { intros s2 Hc2. apply safe_emit. apply (cacs_ext s2 _ [EvEnd]); auto. intros [H|[]]. discriminate. }
      destruct d.
      + apply safe_ret. apply Fin. exact Hc1.
      + destruct H1 as [I1 T1].
        eapply safe_mono; [apply (destroy_step_cac cf Hfix fuel final s1 [] I1 T1 Hc1)|].
        intros [] s2 [_ Hc2]. apply Fin. exact Hc2. }
  unfold safe in S.
  destruct ((let! destroyed := run_from cf fuel h in
             (if destroyed then ret tt else step cf fuel IDestroy final);; emit EvEnd) (init_state cf))
    as [[a s']|e|k']; try discriminate.
  inversion Hrun; subst. exact S.
Qed.

(* all four parts of the monitor's reading *)
Theorem run_trace_ok_full cf fuel h final tr :
  cf_fix cf = all_fixed -> NoDup (hist_toks h) ->
  run cf fuel h final = Ok tr -> trace_ok tr.
Proof.
  intros H1 H2 H3. destruct (run_trace_ok cf fuel h final tr H1 H2 H3) as [A [B C]].
  split; [exact A|]. split; [exact B|]. split; [exact C|]. eapply run_complete_at_cancel; eauto.
Qed.
