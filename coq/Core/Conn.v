(* C10 - the socket protocol: monitor automaton over the socket-layer log, and a model of the
   library side whose outputs are socket-layer calls.

   Anchors (pinned tree):
     src/lib/ares_conn.c           ares_open_connection (unwind at "done:"), ares_conn_sock_state_cb_update
     src/lib/ares_socket.c         ares_socket_open / _configure / _enable_tfo / _connect / _close
     src/lib/ares_close_sockets.c  ares_close_connection, ares_check_cleanup_conns
     src/lib/ares_process.c        ares_fetch_connection (udp_max_queries), ares_send_query (total_queries++)
     src/lib/ares_sortaddrinfo.c   find_src_addr (probe sockets)
     src/lib/legacy/ares_fds.c, ares_getsock.c

   Descriptors are numbered 0,1,2,.. in the order asocket() returned them (the simulator never
   reuses a descriptor, its log prints them as s<k>). *)
From CAres.Base Require Import CInt.
From CAres.Gen Require Import Consts.
Local Open Scope Z_scope.
Local Open Scope bool_scope.

(* ------------------------------------------------------------------------------------ *)
(* The socket-layer log                                                                  *)
(* ------------------------------------------------------------------------------------ *)
Inductive sevent :=
| ESocket (k : nat) (tcp : bool)          (* asocket() returned descriptor k *)
| ESocketFail                             (* asocket() failed *)
| ESetsockopt (k : nat)
| EBind (k : nat)
| EConnect (k : nat) (ok : bool)          (* ok: returned 0 or EINPROGRESS/EWOULDBLOCK *)
| EGetsockname (k : nat)
| ESendto (k : nat)
| ERecvfrom (k : nat)
| ETx (k : nat)                           (* a complete query message left through k *)
| EClose (k : nat)
| ESockState (k : nat) (flags : Z)        (* sock_state_cb(k, flags & READ, flags & WRITE) *)
| EDestroyed.                             (* ares_destroy() returned *)

Inductive phase := PFresh | PConnected | PClosed.

Definition phase_eqb (a b : phase) : bool :=
  match a, b with PFresh, PFresh | PConnected, PConnected | PClosed, PClosed => true | _, _ => false end.

Record mcfg := mkcfg {
  udp_max : Z;          (* channel->udp_max_queries (0 = unlimited) *)
  has_cb : bool;        (* a sock_state_cb is registered *)
  stayopen : bool;      (* ARES_FLAG_STAYOPEN *)
  opt_sndbuf : bool; opt_rcvbuf : bool; opt_dev : bool; opt_bind : bool;  (* what ares_socket_configure has to do *)
  (* the application's socket function table *)
  has_gsn : bool;          (* agetsockname != NULL (never with the legacy ares_set_socket_functions) *)
  has_bind : bool;         (* abind != NULL *)
  sockopt_visible : bool   (* asetsockopt reaches the socket layer (the legacy table answers ENOSYS itself) *)
}.

(* ------------------------------------------------------------------------------------ *)
(* The monitor                                                                           *)
(* ------------------------------------------------------------------------------------ *)
Record msock := mkms {
  ms_tcp : bool;
  ms_phase : phase;
  ms_ntx : Z;           (* queries transmitted through this socket *)
  ms_watch : Z;         (* interest last announced (0: none) *)
  ms_stopped : bool     (* the final "stop watching" notification was given *)
}.

Record mon := mkmon { mn_socks : list msock; mn_destroyed : bool }.
Definition mon_init : mon := mkmon [] false.

Inductive reject :=
| RjAfterDestroy      (* a socket-layer event after ares_destroy() returned *)
| RjBadDescriptor     (* descriptor numbering broken / never issued *)
| RjUseAfterClose     (* I/O, option or connect call on a closed descriptor *)
| RjDoubleClose
| RjBadOrder          (* option/bind after connect, I/O before connect *)
| RjUdpLimit          (* more queries on a UDP socket than udp_max_queries *)
| RjNotifyNoCallback  (* notification although no callback is registered *)
| RjNotifyRepeat      (* same interest announced twice *)
| RjNotifyAfterStop   (* notification after the final stop *)
| RjNotifyClosed      (* notification for a closed descriptor *)
| RjCloseWatched      (* closed while the application is still told to watch *)
| RjUnwatchedRead     (* read on a socket the application was not told to watch *)
| RjLeak.             (* a descriptor survives ares_destroy() *)

Inductive verdict := Accept (m : mon) | Reject (r : reject).

Fixpoint upd {A} (l : list A) (k : nat) (x : A) : list A :=
  match l, k with
  | [], _ => []
  | _ :: t, O => x :: t
  | h :: t, S k' => h :: upd t k' x
  end.

Definition all_closed (l : list msock) : bool := forallb (fun s => phase_eqb (ms_phase s) PClosed) l.

(* a call on descriptor k that needs the given phase *)
Definition on_sock (m : mon) (k : nat) (f : msock -> verdict) : verdict :=
  match nth_error (mn_socks m) k with
  | None => Reject RjBadDescriptor
  | Some s => f s
  end.

Definition set_sock (m : mon) (k : nat) (s : msock) : mon := mkmon (upd (mn_socks m) k s) (mn_destroyed m).

Definition mon_step (cfg : mcfg) (m : mon) (e : sevent) : verdict :=
  if mn_destroyed m then Reject RjAfterDestroy
  else match e with
  | ESocket k tcp =>
    if Nat.eqb k (length (mn_socks m))
    then Accept (mkmon (mn_socks m ++ [mkms tcp PFresh 0 0 false]) false)
    else Reject RjBadDescriptor
  | ESocketFail => Accept m
  | ESetsockopt k | EBind k =>
    on_sock m k (fun s => match ms_phase s with
                          | PFresh => Accept m
                          | PConnected => Reject RjBadOrder
                          | PClosed => Reject RjUseAfterClose end)
  | EConnect k ok =>
    on_sock m k (fun s => match ms_phase s with
                          | PFresh => Accept (if ok then set_sock m k (mkms (ms_tcp s) PConnected (ms_ntx s) (ms_watch s) (ms_stopped s)) else m)
                          | PConnected => Reject RjBadOrder
                          | PClosed => Reject RjUseAfterClose end)
  | EGetsockname k | ESendto k =>
    on_sock m k (fun s => match ms_phase s with
                          | PFresh => Reject RjBadOrder
                          | PConnected => Accept m
                          | PClosed => Reject RjUseAfterClose end)
  | ERecvfrom k =>
    on_sock m k (fun s => match ms_phase s with
                          | PFresh => Reject RjBadOrder
                          | PConnected => if has_cb cfg && (Z.land (ms_watch s) ARES_CONN_STATE_READ =? 0)
                                          then Reject RjUnwatchedRead else Accept m
                          | PClosed => Reject RjUseAfterClose end)
  | ETx k =>
    on_sock m k (fun s => match ms_phase s with
                          | PFresh => Reject RjBadOrder
                          | PConnected =>
                            if negb (ms_tcp s) && (0 <? udp_max cfg) && (udp_max cfg <? ms_ntx s + 1)
                            then Reject RjUdpLimit
                            else Accept (set_sock m k (mkms (ms_tcp s) PConnected (ms_ntx s + 1) (ms_watch s) (ms_stopped s)))
                          | PClosed => Reject RjUseAfterClose end)
  | ESockState k flags =>
    on_sock m k (fun s =>
      if negb (has_cb cfg) then Reject RjNotifyNoCallback
      else match ms_phase s with
           | PClosed => Reject RjNotifyClosed
           | _ =>
             if ms_stopped s then Reject RjNotifyAfterStop
             else if flags =? ms_watch s then Reject RjNotifyRepeat
             else Accept (set_sock m k (mkms (ms_tcp s) (ms_phase s) (ms_ntx s) flags (flags =? 0)))
           end)
  | EClose k =>
    on_sock m k (fun s => match ms_phase s with
                          | PClosed => Reject RjDoubleClose
                          | _ => if ms_watch s =? 0
                                 then Accept (set_sock m k (mkms (ms_tcp s) PClosed (ms_ntx s) 0 (ms_stopped s)))
                                 else Reject RjCloseWatched end)
  | EDestroyed => if all_closed (mn_socks m) then Accept (mkmon (mn_socks m) true) else Reject RjLeak
  end.

Fixpoint mon_run (cfg : mcfg) (m : mon) (tr : list sevent) : verdict :=
  match tr with
  | [] => Accept m
  | e :: tr' => match mon_step cfg m e with
                | Accept m' => mon_run cfg m' tr'
                | Reject r => Reject r
                end
  end.

(* the descriptor sets the legacy polling calls must report, seen from the socket layer:
   every open (connected, not closed) socket; UDP sockets only while queries are active *)
Fixpoint open_set_from (i : nat) (l : list msock) (active : bool) : list nat :=
  match l with
  | [] => []
  | s :: t => (if phase_eqb (ms_phase s) PConnected && (ms_tcp s || active) then [i] else [])
              ++ open_set_from (S i) t active
  end.
Definition mon_fds (m : mon) (active : bool) : list nat := open_set_from 0 (mn_socks m) active.

(* ------------------------------------------------------------------------------------ *)
(* The library side                                                                      *)
(* ------------------------------------------------------------------------------------ *)
Record csock := mkcs {
  cs_tcp : bool;
  cs_phase : phase;
  cs_linked : bool;        (* in server->connections and channel->connnode_by_socket *)
  cs_rw : Z;               (* conn->state_flags & ARES_CONN_STATE_CBFLAGS *)
  cs_total : Z;            (* conn->total_queries *)
  cs_tx : Z;               (* of these, how many have left the out buffer *)
  cs_nq : nat;             (* ares_llist_len(conn->queries_to_conn) *)
  cs_tfo_initial : bool;
  cs_stopped : bool
}.

Record cstate := mkst { st_socks : list csock; st_destroyed : bool }.
Definition st_init : cstate := mkst [] false.

Inductive sres := SrOk | SrNosys | SrFail.            (* asetsockopt: 0 / -1 ENOSYS / -1 other *)
Inductive cres := CnOk | CnInProgress | CnFail.       (* aconnect (after the EINTR retries) *)

Record open_env := mkoe {
  oe_socket_ok : bool;
  oe_sndbuf : sres; oe_rcvbuf : sres;
  oe_bind_ok : bool;
  oe_tfo_ok : bool;            (* asetsockopt(TCP_FASTOPEN) == 0 *)
  oe_intr : nat;               (* how many times aconnect is interrupted (EINTR) first *)
  oe_connect : cres;
  oe_getsockname_ok : bool
}.

Inductive open_result :=
| OpenNoSocket                 (* ares_socket_open failed: nothing to close *)
| OpenFailedClosed             (* a later step failed: the unwind closed the socket *)
| OpenOk (c : csock).

(* notification by ares_conn_sock_state_cb_update *)
Definition notify (cfg : mcfg) (k : nat) (old new : Z) : list sevent :=
  if has_cb cfg && negb (old =? new) then [ESockState k new] else [].

Definition opt_ev (b : bool) (e : sevent) : list sevent := if b then [e] else [].

(* ares_open_connection: the socket-layer calls it makes for descriptor k, in order, and the
   result.  Every failure after ares_socket_open() ends in "done:" with ares_socket_close(). *)
Definition open_connection (cfg : mcfg) (k : nat) (tcp : bool) (env : open_env) : list sevent * open_result :=
  if negb (oe_socket_ok env) then ([ESocketFail], OpenNoSocket)
  else
    let e0 := [ESocket k tcp] in
    (* ares_socket_configure *)
    let e1 := e0 ++ opt_ev (opt_sndbuf cfg && sockopt_visible cfg) (ESetsockopt k) in
    if opt_sndbuf cfg && match oe_sndbuf env with SrFail => true | _ => false end
    then (e1 ++ [EClose k], OpenFailedClosed)
    else
    let e2 := e1 ++ opt_ev (opt_rcvbuf cfg && sockopt_visible cfg) (ESetsockopt k) in
    if opt_rcvbuf cfg && match oe_rcvbuf env with SrFail => true | _ => false end
    then (e2 ++ [EClose k], OpenFailedClosed)
    else
    let e3 := e2 ++ opt_ev (opt_dev cfg && sockopt_visible cfg) (ESetsockopt k) in      (* failure ignored *)
    let e4 := e3 ++ opt_ev (opt_bind cfg && has_bind cfg) (EBind k) in       (* bindlen && abind != NULL *)
    if opt_bind cfg && has_bind cfg && negb (oe_bind_ok env)
    then (e4 ++ [EClose k], OpenFailedClosed)
    else
    (* ares_socket_enable_tfo: TCP only; failure just clears the flag *)
    let e5 := e4 ++ opt_ev (tcp && sockopt_visible cfg) (ESetsockopt k) in
    let tfo := tcp && oe_tfo_ok env in
    (* ares_conn_connect: retried while interrupted *)
    let e6 := e5 ++ repeat (EConnect k false) (oe_intr env) in
    match oe_connect env with
    | CnFail => (e6 ++ [EConnect k false; EClose k], OpenFailedClosed)
    | _ =>
      let e7 := e6 ++ [EConnect k true] in
      (* ares_conn_set_self_ip(early): nothing to call without agetsockname (success); a
         failure is tolerated only for TCP with TFO *)
      let e8 := e7 ++ opt_ev (has_gsn cfg) (EGetsockname k) in
      if has_gsn cfg && negb (oe_getsockname_ok env) && negb tfo
      then (e8 ++ [EClose k], OpenFailedClosed)
      else
        let flags := if tfo then 0
                     else Z.lor ARES_CONN_STATE_READ (if tcp then ARES_CONN_STATE_WRITE else 0) in
        (e8 ++ notify cfg k 0 flags,
         OpenOk (mkcs tcp PConnected true flags 0 0 0 tfo false))
    end.

(* find_src_addr (ares_sortaddrinfo.c): UDP socket, connect, getsockname, close.  The probe
   socket is closed on EVERY path, also when the socket functions have no agetsockname. *)
Definition probe (cfg : mcfg) (k : nat) (socket_ok : bool) (intr : nat) (connect_ok : bool) : list sevent :=
  if negb socket_ok then [ESocketFail]
  else ESocket k false :: repeat (EConnect k false) intr ++       (* ares_socket_connect retries on EINTR *)
       (if negb connect_ok then [EConnect k false; EClose k]
        else [EConnect k true] ++ opt_ev (has_gsn cfg) (EGetsockname k) ++ [EClose k]).

(* ares_close_connection after the unlink and the requeue: final notification, aclose *)
Definition finish_close (cfg : mcfg) (k : nat) (c : csock) : list sevent * csock :=
  (notify cfg k (cs_rw c) 0 ++ [EClose k],
   mkcs (cs_tcp c) PClosed false 0 (cs_total c) (cs_tx c) (cs_nq c) false
        (cs_stopped c || (has_cb cfg && negb (cs_rw c =? 0)))).

(* ares_check_cleanup_conns: is this connection closed? *)
Definition cleanup_wanted (cfg : mcfg) (c : csock) (server_failed : bool) : bool :=
  match cs_nq c with
  | O => negb (stayopen cfg) || server_failed ||
         (negb (cs_tcp c) && (0 <? udp_max cfg) && (udp_max cfg <=? cs_total c))
  | S _ => false
  end.

(* ares_fetch_connection: may this connection take another query? *)
Definition can_take_query (cfg : mcfg) (c : csock) : bool :=
  cs_linked c && phase_eqb (cs_phase c) PConnected &&
  (cs_tcp c || negb (0 <? udp_max cfg) || (cs_total c <? udp_max cfg)).

Inductive action :=
| AOpen (tcp : bool) (env : open_env)      (* ares_open_connection *)
| AProbe (socket_ok : bool) (intr : nat) (connect_ok : bool)   (* sortaddrinfo source address probe *)
| AQuery (k : nat) (newrw : Z) (sent : bool)
     (* ares_send_query on connection k: total_queries++, write attempt; the interest
        announced afterwards is newrw (READ or READ|WRITE); sent: the message left *)
| AWriteEvent (k : nat) (newrw : Z) (sent : bool)   (* process_write / pending flush *)
| AReadEvent (k : nat)                     (* process_read: arecvfrom *)
| AAnswered (k : nat)                      (* a query leaves the connection (answered, timed out, cancelled) *)
| AUnlink (k : nat)                        (* ares_close_connection, first half (before the requeue) *)
| AFinishClose (k : nat)                   (* ares_close_connection, second half *)
| ACleanup (k : nat) (server_failed : bool)   (* ares_check_cleanup_conns closes connection k *)
| ADestroy.                                (* ares_destroy: ares_close_sockets for every server *)

Definition valid_rw (rw : Z) : bool := (rw =? 1) || (rw =? 3).

Definition set_cs (s : cstate) (k : nat) (c : csock) : cstate := mkst (upd (st_socks s) k c) (st_destroyed s).

(* close every linked connection (ares_close_sockets of every server), in descriptor order *)
Fixpoint close_all (cfg : mcfg) (i : nat) (l : list csock) : list sevent * list csock :=
  match l with
  | [] => ([], [])
  | c :: t =>
    let '(evs, t') := close_all cfg (S i) t in
    if cs_linked c then let '(e1, c') := finish_close cfg i c in (e1 ++ evs, c' :: t')
    else (evs, c :: t')
  end.

Definition quiescent (l : list csock) : bool :=
  forallb (fun c => cs_linked c || phase_eqb (cs_phase c) PClosed) l.

(* one step of the library; None: the action is not possible in this state *)
Definition step (cfg : mcfg) (s : cstate) (a : action) : option (cstate * list sevent) :=
  if st_destroyed s then None
  else match a with
  | AOpen tcp env =>
    let k := length (st_socks s) in
    let '(evs, r) := open_connection cfg k tcp env in
    match r with
    | OpenNoSocket => Some (s, evs)
    | OpenFailedClosed => Some (mkst (st_socks s ++ [mkcs tcp PClosed false 0 0 0 0 false false]) false, evs)
    | OpenOk c => Some (mkst (st_socks s ++ [c]) false, evs)
    end
  | AProbe sok intr cok =>
    let k := length (st_socks s) in
    Some (if sok then mkst (st_socks s ++ [mkcs false PClosed false 0 0 0 0 false false]) false else s,
          probe cfg k sok intr cok)
  | AQuery k newrw sent =>
    match nth_error (st_socks s) k with
    | Some c =>
      if can_take_query cfg c && valid_rw newrw then
        let c' := mkcs (cs_tcp c) PConnected true newrw (cs_total c + 1) (if sent then cs_tx c + 1 else cs_tx c)
                       (S (cs_nq c)) false (cs_stopped c) in
        Some (set_cs s k c', [ESendto k] ++ (if sent then [ETx k] else []) ++ notify cfg k (cs_rw c) newrw)
      else None
    | None => None
    end
  | AWriteEvent k newrw sent =>
    match nth_error (st_socks s) k with
    | Some c =>
      if cs_linked c && phase_eqb (cs_phase c) PConnected && valid_rw newrw && (negb sent || (cs_tx c <? cs_total c) || cs_tcp c) then
        let c' := mkcs (cs_tcp c) PConnected true newrw (cs_total c) (if sent then cs_tx c + 1 else cs_tx c)
                       (cs_nq c) false (cs_stopped c) in
        Some (set_cs s k c', [ESendto k] ++ (if sent then [ETx k] else []) ++ notify cfg k (cs_rw c) newrw)
      else None
    | None => None
    end
  | AReadEvent k =>
    match nth_error (st_socks s) k with
    | Some c =>
      (* the application reports events only for sockets it was told to watch *)
      if cs_linked c && phase_eqb (cs_phase c) PConnected && negb (Z.land (cs_rw c) ARES_CONN_STATE_READ =? 0)
      then Some (s, [ERecvfrom k]) else None
    | None => None
    end
  | AAnswered k =>
    match nth_error (st_socks s) k with
    | Some c =>
      match cs_nq c with
      | S n => Some (set_cs s k (mkcs (cs_tcp c) (cs_phase c) (cs_linked c) (cs_rw c) (cs_total c) (cs_tx c) n
                                      (cs_tfo_initial c) (cs_stopped c)), [])
      | O => None
      end
    | None => None
    end
  | AUnlink k =>
    match nth_error (st_socks s) k with
    | Some c =>
      if cs_linked c then
        Some (set_cs s k (mkcs (cs_tcp c) (cs_phase c) false (cs_rw c) (cs_total c) (cs_tx c) 0
                               (cs_tfo_initial c) (cs_stopped c)), [])
      else None
    | None => None
    end
  | AFinishClose k =>
    match nth_error (st_socks s) k with
    | Some c =>
      if negb (cs_linked c) && phase_eqb (cs_phase c) PConnected then
        let '(evs, c') := finish_close cfg k c in Some (set_cs s k c', evs)
      else None
    | None => None
    end
  | ACleanup k failed =>
    match nth_error (st_socks s) k with
    | Some c =>
      if cs_linked c && phase_eqb (cs_phase c) PConnected && cleanup_wanted cfg c failed then
        let '(evs, c') := finish_close cfg k c in Some (set_cs s k c', evs)
      else None
    | None => None
    end
  | ADestroy =>
    if quiescent (st_socks s) then
      let '(evs, l') := close_all cfg 0 (st_socks s) in
      Some (mkst l' true, evs ++ [EDestroyed])
    else None
  end.

Fixpoint run (cfg : mcfg) (s : cstate) (acts : list action) : option (cstate * list sevent) :=
  match acts with
  | [] => Some (s, [])
  | a :: acts' =>
    match step cfg s a with
    | None => None
    | Some (s1, e1) =>
      match run cfg s1 acts' with
      | None => None
      | Some (s2, e2) => Some (s2, e1 ++ e2)
      end
    end
  end.

(* ares_fds / ares_getsock: walk server->connections; skip UDP when no query is active;
   read set = the descriptor, write set iff ARES_CONN_STATE_WRITE *)
Fixpoint fds_from (i : nat) (l : list csock) (active : bool) : list nat * list nat :=
  match l with
  | [] => ([], [])
  | c :: t =>
    let '(r, w) := fds_from (S i) t active in
    if cs_linked c && (cs_tcp c || active)
    then (i :: r, if Z.land (cs_rw c) ARES_CONN_STATE_WRITE =? 0 then w else i :: w)
    else (r, w)
  end.
Definition ares_fds_model (s : cstate) (active : bool) : list nat * list nat := fds_from 0 (st_socks s) active.

(* the monitor's view of a library state *)
Definition abs_sock (cfg : mcfg) (c : csock) : msock :=
  mkms (cs_tcp c) (cs_phase c) (cs_tx c) (if has_cb cfg then cs_rw c else 0) (cs_stopped c).
Definition abs (cfg : mcfg) (s : cstate) : mon := mkmon (map (abs_sock cfg) (st_socks s)) (st_destroyed s).
