(* Hand model of src/lib/ares_metrics.c: ares_metrics_record() and
   ares_metrics_server_timeout() (both loop over the ARES_METRIC_COUNT buckets, so they are
   outside the translator's subset); the per-bucket timestamp ares_metric_timestamp() is the
   GENERATED c_ares_metric_timestamp.  Same checks in the same order as the C code; unsigned
   arithmetic wraps explicitly; the division is guarded (DivZero). *)
From CAres.Base Require Import CInt.
From CAres.Gen Require Import Consts LeafFns.
From CAres.Core Require Import Time.
Local Open Scope Z_scope.

(* ares_server_metrics_t *)
Record bucket := Bucket {
  b_ts : Z;                (* time_t *)
  b_latency_min_ms : Z;    (* unsigned int *)
  b_latency_max_ms : Z;    (* unsigned int *)
  b_total_ms : Z;          (* ares_uint64_t *)
  b_total_count : Z;       (* ares_uint64_t *)
  b_prev_ts : Z;           (* time_t *)
  b_prev_total_ms : Z;     (* ares_uint64_t *)
  b_prev_total_count : Z   (* ares_uint64_t *)
}.

Definition bucket_zero : bucket := Bucket 0 0 0 0 0 0 0 0.

(* server->metrics[ARES_METRIC_COUNT], zero-initialised by ares_server_create *)
Definition metrics_init : list bucket := repeat bucket_zero (Z.to_nat ARES_METRIC_COUNT).

(* body of the for-loop of ares_metrics_record for bucket i *)
Definition record_bucket (i : Z) (now_sec : Z) (query_ms : Z) (b : bucket) : outcome bucket :=
  do ts <- c_ares_metric_timestamp i ARES_FALSE now_sec;
  let b1 := if negb (ts =? b_ts b)
            then Bucket ts 0 0 0 0 (b_ts b) (b_total_ms b) (b_total_count b)
            else b in
  let b2 := if (b_latency_min_ms b1 =? 0) || (b_latency_min_ms b1 >? query_ms)
            then Bucket (b_ts b1) query_ms (b_latency_max_ms b1) (b_total_ms b1) (b_total_count b1)
                        (b_prev_ts b1) (b_prev_total_ms b1) (b_prev_total_count b1)
            else b1 in
  let b3 := if query_ms >? b_latency_max_ms b2
            then Bucket (b_ts b2) (b_latency_min_ms b2) query_ms (b_total_ms b2) (b_total_count b2)
                        (b_prev_ts b2) (b_prev_total_ms b2) (b_prev_total_count b2)
            else b2 in
  Ok (Bucket (b_ts b3) (b_latency_min_ms b3) (b_latency_max_ms b3)
             ((b_total_ms b3 + query_ms) mod 2 ^ 64) ((b_total_count b3 + 1) mod 2 ^ 64)
             (b_prev_ts b3) (b_prev_total_ms b3) (b_prev_total_count b3)).

Fixpoint record_loop (i : Z) (now_sec : Z) (query_ms : Z) (bs : list bucket) : outcome (list bucket) :=
  match bs with
  | [] => Ok []
  | b :: r =>
      do b' <- record_bucket i now_sec query_ms b;
      do r' <- record_loop (i + 1) now_sec query_ms r;
      Ok (b' :: r')
  end.

(* query_ms = (unsigned int)((tvdiff.sec * 1000) + (tvdiff.usec / 1000)); 0 becomes 1 *)
Definition query_ms_of (tvdiff : timeval) : outcome Z :=
  let m := tv_sec tvdiff * 1000 in
  guard ((- 2 ^ 63 <=? m) && (m <? 2 ^ 63)) SignedOverflow (
  let s := m + tv_usec tvdiff / 1000 in
  guard ((- 2 ^ 63 <=? s) && (s <? 2 ^ 63)) SignedOverflow (
  let q := s mod 2 ^ 32 in
  Ok (if q =? 0 then 1 else q))).

(* ares_metrics_record(query, server, status, dnsrec) for server != NULL; [rcode] is the
   reply's rcode, [query_ts] is query->ts, [now] what ares_tvnow() returns *)
Definition metrics_record (status rcode : Z) (query_ts now : timeval) (ms : list bucket)
  : outcome (list bucket) :=
  if negb (status =? ARES_SUCCESS) then Ok ms
  else if negb (rcode =? ARES_RCODE_NOERROR) && negb (rcode =? ARES_RCODE_NXDOMAIN) then Ok ms
  else
    do tvdiff <- timeval_diff query_ts now;
    do q <- query_ms_of tvdiff;
    record_loop 0 (tv_sec now) q ms.

(* the for-loop of ares_metrics_server_timeout: first bucket with enough samples in its
   current (else previous) period; 0 = none *)
Fixpoint server_timeout_loop (i : Z) (now_sec : Z) (bs : list bucket) : outcome Z :=
  match bs with
  | [] => Ok 0
  | b :: r =>
      do ts <- c_ares_metric_timestamp i ARES_FALSE now_sec;
      if negb (ts =? b_ts b) || (b_total_count b <? MIN_COUNT_FOR_AVERAGE) then
        do prev_ts <- c_ares_metric_timestamp i ARES_TRUE now_sec;
        if negb (prev_ts =? b_prev_ts b) || (b_prev_total_count b <? MIN_COUNT_FOR_AVERAGE) then
          server_timeout_loop (i + 1) now_sec r
        else
          guard (negb (b_prev_total_count b =? 0)) DivZero (
          Ok (((b_prev_total_ms b / b_prev_total_count b) * AVG_TIMEOUT_MULTIPLIER) mod 2 ^ 64))
      else
        guard (negb (b_total_count b =? 0)) DivZero (
        Ok (((b_total_ms b / b_total_count b) * AVG_TIMEOUT_MULTIPLIER) mod 2 ^ 64))
  end.

(* ares_metrics_server_timeout(server, now); channel->timeout / channel->maxtimeout are
   [timeout] / [maxtimeout] *)
Definition metrics_server_timeout (timeout maxtimeout : Z) (now : timeval) (ms : list bucket)
  : outcome Z :=
  do t0 <- server_timeout_loop 0 (tv_sec now) ms;
  let t1 := if t0 =? 0 then timeout else t0 in
  let t2 := if t1 <? MIN_TIMEOUT_MS then MIN_TIMEOUT_MS else t1 in
  let max_timeout_ms := if negb (maxtimeout =? 0) then maxtimeout else MAX_TIMEOUT_MS in
  Ok (if t2 >? max_timeout_ms then max_timeout_ms else t2).
