(* C08 - the property as a checker over histories.

   Specification side: no cache state.  A hit is judged against the HISTORY of operations only:
   it must be explained by an earlier insertion (since the last flush) of a response for the
   same question, cacheable (NOERROR/NXDOMAIN, TC clear), still within
   min(max_ttl, the lifetime its own TTLs allow), and every TTL the caller can read must be the
   inserted TTL reduced by the time spent cached.  Extracted, the same function judges the real
   library's hits in the correspondence run. *)
From CAres.Base Require Import CInt.
From CAres.Gen Require Import Consts.
From CAres.Core Require Import QCache.
Local Open Scope Z_scope.

(* ---- same question: opcode, RD, CD, and per question type, class, name up to ASCII case and
        one trailing dot ---- *)
Definition flag_set (flags bit : Z) : bool := negb (Z.land flags bit =? 0).

Definition canon_name (n : list Z) : list Z := map lower (strip_dot n).

Fixpoint zlist_eqb (a b : list Z) : bool :=
  match a, b with
  | [], [] => true
  | x :: a', y :: b' => (x =? y) && zlist_eqb a' b'
  | _, _ => false
  end.

Fixpoint same_qs (a b : list question) : bool :=
  match a, b with
  | [], [] => true
  | q1 :: a', q2 :: b' =>
    (qn_type q1 =? qn_type q2) && (qn_class q1 =? qn_class q2) &&
    zlist_eqb (canon_name (qn_name q1)) (canon_name (qn_name q2)) && same_qs a' b'
  | _, _ => false
  end.

Definition same_question (a b : request) : bool :=
  (rq_opcode a =? rq_opcode b) &&
  Bool.eqb (flag_set (rq_flags a) ARES_FLAG_RD) (flag_set (rq_flags b) ARES_FLAG_RD) &&
  Bool.eqb (flag_set (rq_flags a) ARES_FLAG_CD) (flag_set (rq_flags b) ARES_FLAG_CD) &&
  same_qs (rq_qs a) (rq_qs b).

(* ---- the lifetime a response's own TTLs allow ---- *)
Definition all_rrs (rs : response) : list rrec := rs_an rs ++ rs_ns rs ++ rs_ar rs.

(* OPT and SIG(0) are per-message pseudo records: their TTL field is not a lifetime *)
Definition is_meta (r : rrec) : bool := (rr_type r =? ARES_REC_TYPE_OPT) || (rr_type r =? ARES_REC_TYPE_SIG).

Definition min_ttl_of (l : list rrec) : Z :=
  fold_right Z.min 4294967295 (map rr_ttl (filter (fun r => negb (is_meta r)) l)).

(* negative answers (RFC 2308): min(TTL, MINIMUM) of the SOA in the authority section; none: not cacheable *)
Definition neg_ttl_of (ns : list rrec) : Z :=
  match find (fun r => rr_type r =? ARES_REC_TYPE_SOA) ns with
  | Some r => Z.min (rr_ttl r) (rr_soa_min r)
  | None => 0
  end.

Definition allowed_ttl (rs : response) : Z :=
  if rs_rcode rs =? ARES_RCODE_NXDOMAIN then neg_ttl_of (rs_ns rs) else min_ttl_of (all_rrs rs).

Definition cacheable (rs : response) : bool :=
  ((rs_rcode rs =? ARES_RCODE_NOERROR) || (rs_rcode rs =? ARES_RCODE_NXDOMAIN)) && negb (rs_tc rs).

(* every TTL reduced by the time spent cached, never below zero *)
Definition aged (ttl elapsed : Z) : Z := Z.max 0 (ttl - elapsed).
Definition aged_ttls (rs : response) (elapsed : Z) : list (Z * Z) :=
  map (fun r => (rr_type r, aged (rr_ttl r) elapsed)) (all_rrs rs).

Fixpoint ttls_eqb (a b : list (Z * Z)) : bool :=
  match a, b with
  | [], [] => true
  | (t1, v1) :: a', (t2, v2) :: b' => (t1 =? t2) && (v1 =? v2) && ttls_eqb a' b'
  | _, _ => false
  end.

(* operations since the last flush, most recent first *)
Fixpoint since_flush (hist : list op) : list op :=
  match hist with
  | [] => []
  | OFlush :: _ => []
  | o :: rest => o :: since_flush rest
  end.

(* what a caller sees of a hit: id, rcode, TC and the TTLs readable through the API *)
Record hitobs := mkHit { h_id : Z; h_rcode : Z; h_tc : bool; h_ttls : list (Z * Z) }.

(* [strict = false] leaves the TTL values out (used by the driver only to name the kind of a failure) *)
Definition explains (strict : bool) (max_ttl t : Z) (rq : request) (h : hitobs) (o : op) : bool :=
  match o with
  | OIns t0 rq0 rs0 =>
    (rs_id rs0 =? h_id h) && (rs_rcode rs0 =? h_rcode h) && Bool.eqb (rs_tc rs0) (h_tc h) &&
    same_question rq0 rq && cacheable rs0 &&
    (t0 <=? t) && (t <? t0 + Z.min max_ttl (allowed_ttl rs0)) &&
    (negb strict || ttls_eqb (h_ttls h) (aged_ttls rs0 (t - t0)))
  | _ => false
  end.

(* hist: everything that happened before this fetch, most recent first *)
Definition hit_ok_gen (strict : bool) (max_ttl : Z) (hist : list op) (t : Z) (rq : request) (h : hitobs) : bool :=
  existsb (explains strict max_ttl t rq h) (since_flush hist).
Definition hit_ok := hit_ok_gen true.

(* the observation the model makes on a hit *)
Definition model_hit (rs : response) (dec : Z) : hitobs :=
  mkHit (rs_id rs) (rs_rcode rs) (rs_tc rs) (visible_ttls rs dec).

(* judge a whole run of the model: true iff every hit is explained *)
Fixpoint judge_run (max_ttl : Z) (hist : list op) (ops : list op) (rs : list res) : bool :=
  match ops, rs with
  | o :: ops', r :: rs' =>
    (match o, r with
     | OFetch t rq, RFetch (Some (resp, dec)) => hit_ok max_ttl hist t rq (model_hit resp dec)
     | _, _ => true
     end) && judge_run max_ttl (o :: hist) ops' rs'
  | _, _ => true
  end.
