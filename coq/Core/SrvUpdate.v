(* C08 - "any server-list change ... empties the cache": model of the change detection and flush
   decision of ares_servers_update() (src/lib/ares_update_servers.c), in the shape of the C code:
   the loop over the new configuration (duplicates skipped by ares_server_isdup, existing servers
   found by ares_server_find keep their object and get their new idx, others are created),
   ares_servers_remove_stale, the ARES_FLAG_PRIMARY trim, and list_changed.

   A server / configuration entry is identified by (address, udp port, tcp port) with the ports
   resolved as ares_sconfig_get_port does (entry port, else channel port, else 53).  Addresses
   are abstract numbers (ares_addr_match = equality); link-local interface names are not part
   of the identity in the C code either.  The per-server state (failures, connections, cookies)
   is not modelled here - see Core/Servers.v (C09); with no failures recorded the skip list
   order is the idx order.  Allocation never fails.

   The model follows the code WITH fixes/C08-flush-on-reorder.patch: an existing server whose
   idx changes also sets list_changed (the original only did so for created / removed servers,
   so re-setting the same servers in another order kept the cache). *)
From CAres.Base Require Import CInt.
Local Open Scope Z_scope.

Definition skey := (Z * Z * Z)%type.       (* address, udp port, tcp port *)
Definition keqb (a b : skey) : bool :=
  let '(a1, a2, a3) := a in let '(b1, b2, b3) := b in (a1 =? b1) && (a2 =? b2) && (a3 =? b3).

Record sconf := mkSc { sc_addr : Z; sc_udp : Z; sc_tcp : Z }.
Record srv := mkSrv { s_key : skey; s_idx : nat }.

(* ares_sconfig_get_port *)
Definition get_port (chan_port p : Z) : Z :=
  let p1 := if p =? 0 then chan_port else p in if p1 =? 0 then 53 else p1.
Definition resolve (cu ct : Z) (c : sconf) : skey := (sc_addr c, get_port cu (sc_udp c), get_port ct (sc_tcp c)).

Fixpoint find_srv (l : list srv) (k : skey) : option srv :=
  match l with
  | [] => None
  | s :: r => if keqb (s_key s) k then Some s else find_srv r k
  end.

Fixpoint set_idx (l : list srv) (k : skey) (i : nat) : list srv :=
  match l with
  | [] => []
  | s :: r => if keqb (s_key s) k then mkSrv (s_key s) i :: r else s :: set_idx r k i
  end.

(* the "Add new entries" loop; earlier = keys of all configuration entries already visited *)
Fixpoint upd_loop (servers : list srv) (earlier : list skey) (rest : list skey) (idx : nat) (changed : bool)
  : list srv * bool :=
  match rest with
  | [] => (servers, changed)
  | k :: r =>
    if existsb (keqb k) earlier then upd_loop servers (k :: earlier) r idx changed
    else match find_srv servers k with
         | Some s =>
           if Nat.eqb (s_idx s) idx then upd_loop servers (k :: earlier) r (S idx) changed
           else upd_loop (set_idx servers k idx) (k :: earlier) r (S idx) true
         | None => upd_loop (servers ++ [mkSrv k idx]) (k :: earlier) r (S idx) true
         end
  end.

(* ares_servers_remove_stale *)
Definition in_newconfig (ks : list skey) (s : srv) : bool := existsb (keqb (s_key s)) ks.
Definition remove_stale (servers : list srv) (ks : list skey) : list srv * bool :=
  let kept := filter (in_newconfig ks) servers in
  (kept, negb (Nat.eqb (length kept) (length servers))).

(* ares_servers_trim_single: keep the first server in list order (= lowest idx when no failures
   are recorded) *)
Fixpoint min_idx (l : list srv) (best : srv) : srv :=
  match l with
  | [] => best
  | s :: r => min_idx r (if Nat.ltb (s_idx s) (s_idx best) then s else best)
  end.
Definition trim_single (l : list srv) : list srv :=
  match l with [] => [] | s :: r => [min_idx r s] end.

(* result: the servers of the channel and whether ares_qcache_flush() is called *)
Definition servers_update (cu ct : Z) (primary : bool) (cur : list srv) (new : list sconf) : list srv * bool :=
  let ks := map (resolve cu ct) new in
  let '(l1, ch1) := upd_loop cur [] ks 0%nat false in
  let '(l2, ch2) := remove_stale l1 ks in
  (if primary then trim_single l2 else l2, ch1 || ch2).

(* the configured list as a sequence: read the servers in idx order *)
Fixpoint insert_idx (s : srv) (l : list srv) : list srv :=
  match l with
  | [] => [s]
  | x :: r => if Nat.leb (s_idx s) (s_idx x) then s :: l else x :: insert_idx s r
  end.
Definition sort_idx (l : list srv) : list srv := fold_right insert_idx [] l.

(* ---- specification side: the configuration as a sequence ---- *)
(* the new configuration as a sequence: first occurrence of every (addr, udp, tcp) *)
Fixpoint dedupk (seen : list skey) (l : list skey) : list skey :=
  match l with
  | [] => []
  | k :: r => if existsb (keqb k) seen then dedupk seen r else k :: dedupk (seen ++ [k]) r
  end.

Fixpoint seq_eqb (a b : list skey) : bool :=
  match a, b with
  | [], [] => true
  | x :: a', y :: b' => keqb x y && seq_eqb a' b'
  | _, _ => false
  end.

(* the sequence configured by an edit (ARES_FLAG_PRIMARY keeps the first server only) *)
Definition spec_seq_after (cu ct : Z) (primary : bool) (new : list sconf) : list skey :=
  let n := dedupk [] (map (resolve cu ct) new) in if primary then firstn 1 n else n.
