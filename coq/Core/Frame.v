(* C20 - framing of DNS messages on a connection: the code-shaped model.

   Anchors (pinned tree):
     src/lib/str/ares_buf.c      tag / tag_rollback / tag_clear / tag_fetch / consume / fetch_be16 /
                                 reclaim / append           (cursor functions: GENERATED, Gen/LeafFns.v)
     src/lib/ares_process.c      read_conn_packets, read_answers, process_read, process_write,
                                 ares_conn_query_write, process_answer (decision chain)
     src/lib/ares_conn.c         ares_conn_write, ares_conn_flush, ares_conn_sock_state_cb_update
     src/lib/record/ares_dns_write.c  ares_dns_write_buf_tcp (2 byte length + message, <= 65535)

   A buffer is (data, offset, tag_offset) as in struct ares_buf; alloc_buf_len is NOT modelled:
   whether ares_buf_ensure_space() reclaims the consumed prefix before an append is an input
   (a boolean per append), the theorems quantify over it.  Bytes are Z (the theorems do not need
   0 <= b < 256 for payload bytes).  Socket results are inputs (rd / wcap lists). *)
From CAres.Base Require Import CInt.
From CAres.Gen Require Import Consts LeafFns.
Local Open Scope Z_scope.
Local Open Scope bool_scope.

Definition SIZE_MAX : Z := 18446744073709551615.

Record buf := mkbuf { b_data : list Z; b_off : Z; b_tag : Z }.

Definition buf_create : buf := mkbuf [] 0 SIZE_MAX.
Definition data_len (b : buf) : Z := Z.of_nat (length (b_data b)).

(* ---- cursor operations: thin wrappers around the generated functions ---- *)
Definition buf_len (b : buf) : outcome Z := c_ares_buf_len (data_len b) (b_off b).

Definition buf_tag (b : buf) : outcome buf :=
  do t <- c_ares_buf_tag (b_off b); Ok (mkbuf (b_data b) (b_off b) t).

Definition buf_tag_rollback (b : buf) : outcome (Z * buf) :=
  do r <- c_ares_buf_tag_rollback (b_tag b) (b_off b);
  let '(st, off, tag) := r in Ok (st, mkbuf (b_data b) off tag).

Definition buf_tag_clear (b : buf) : outcome (Z * buf) :=
  do r <- c_ares_buf_tag_clear (b_tag b);
  let '(st, tag) := r in Ok (st, mkbuf (b_data b) (b_off b) tag).

Definition buf_consume (b : buf) (len : Z) : outcome (Z * buf) :=
  do l <- buf_len b;
  do r <- c_ares_buf_consume len l (b_off b);
  let '(st, off) := r in Ok (st, mkbuf (b_data b) off (b_tag b)).

(* ---- hand-modelled accessors (pointer reads; out of bounds is UB) ---- *)
Definition byte_at (d : list Z) (i : Z) : outcome Z :=
  if i <? 0 then UB OutOfBounds
  else match nth_error d (Z.to_nat i) with Some x => Ok x | None => UB OutOfBounds end.

(* ((unsigned int)p[0] << 8 | (unsigned int)p[1]) & 0xFFFF *)
Definition be16 (h l : Z) : Z := Z.land (Z.lor (Z.shiftl h 8) l) 65535.

(* ares_buf_fetch_be16: status, value, buffer *)
Definition buf_fetch_be16 (b : buf) : outcome (Z * Z * buf) :=
  do rem <- buf_len b;                       (* ares_buf_fetch(): *len = data_len - offset *)
  if rem <? 2 then Ok (ARES_EBADRESP, 0, b)
  else
    do h <- byte_at (b_data b) (b_off b);
    do l <- byte_at (b_data b) (b_off b + 1);
    do r <- buf_consume b 2;
    let '(st, b') := r in Ok (st, be16 h l, b').

(* ares_buf_tag_fetch: NULL when no tag; otherwise data + tag_offset, len = offset - tag_offset *)
Definition buf_tag_fetch (b : buf) : outcome (option (list Z)) :=
  if b_tag b =? SIZE_MAX then Ok None
  else
    let len := (b_off b - b_tag b) mod 2 ^ 64 in
    if (0 <=? b_tag b) && (b_tag b + len <=? data_len b)
    then Ok (Some (firstn (Z.to_nat len) (skipn (Z.to_nat (b_tag b)) (b_data b))))
    else UB OutOfBounds.

(* ares_buf_peek: the unread bytes *)
Definition buf_peek (b : buf) : outcome (list Z) :=
  if (0 <=? b_off b) && (b_off b <=? data_len b) then Ok (skipn (Z.to_nat (b_off b)) (b_data b))
  else UB OutOfBounds.

(* ares_buf_reclaim (memmove of the live part to the front) *)
Definition buf_reclaim (b : buf) : outcome buf :=
  let prefix := if negb (b_tag b =? SIZE_MAX) && (b_tag b <? b_off b) then b_tag b else b_off b in
  if prefix =? 0 then Ok b
  else if (prefix <? 0) || (data_len b <? prefix) then UB SizeUnderflow   (* data_len - prefix feeds memmove *)
  else Ok (mkbuf (skipn (Z.to_nat prefix) (b_data b)) (b_off b - prefix)
                 (if b_tag b =? SIZE_MAX then b_tag b else b_tag b - prefix)).

(* ares_buf_append / append_start+append_finish.  [reclaim] = ares_buf_ensure_space() had to
   make room and called ares_buf_reclaim() first (depends on alloc_buf_len, an input here). *)
Definition buf_append (b : buf) (reclaim : bool) (bytes : list Z) : outcome buf :=
  do b1 <- (if reclaim then buf_reclaim b else Ok b);
  Ok (mkbuf (b_data b1 ++ bytes) (b_off b1) (b_tag b1)).

Definition be16_bytes (n : Z) : list Z := [(n / 256) mod 256; n mod 256].

(* one length-prefixed message as written by ares_dns_write_buf_tcp / the UDP read path *)
Definition frame (m : list Z) : list Z := be16_bytes (Z.of_nat (length m)) ++ m.

(* ------------------------------------------------------------------------------------ *)
(* Read side                                                                            *)
(* ------------------------------------------------------------------------------------ *)

Inductive conn_end := StillOpen | Closed.

Section Read.
  (* process_answer() returned ARES_SUCCESS for this message?  (It returns something else only
     when ares_dns_parse() rejects the bytes - EBADRESP - or on ENOMEM; the caller then runs
     handle_conn_error(), i.e. the connection is closed.) *)
  Variable pa : list Z -> bool.

  (* read_answers(): returns the buffer, the messages handed to process_answer in order, and
     whether the connection survived. *)
  Fixpoint read_answers_loop (fuel : nat) (b : buf) : outcome (buf * list (list Z) * conn_end) :=
    match fuel with
    | O => Err OutOfFuel
    | S f =>
      do b1 <- buf_tag b;                                    (* ares_buf_tag *)
      do r <- buf_fetch_be16 b1;                             (* length indicator *)
      let '(st, dns_len, b2) := r in
      if negb (st =? ARES_SUCCESS) then
        do rb <- buf_tag_rollback b2; Ok (snd rb, [], StillOpen)
      else
        do r2 <- buf_consume b2 dns_len;                     (* not enough data yet? *)
        let '(st2, b3) := r2 in
        if negb (st2 =? ARES_SUCCESS) then
          do rb <- buf_tag_rollback b3; Ok (snd rb, [], StillOpen)
        else
          do d <- buf_tag_fetch b3;
          match d with
          | None => do rb <- buf_tag_clear b3; Ok (snd rb, [], StillOpen)
          | Some dat =>
            if Z.of_nat (length dat) <? 2 then
              do rb <- buf_tag_clear b3; Ok (snd rb, [], StillOpen)
            else
              let msg := skipn 2 dat in                      (* data += 2; data_len -= 2 *)
              if pa msg then
                do rb <- buf_tag_clear b3;
                do rest <- read_answers_loop f (snd rb);
                let '(b', ms, e) := rest in Ok (b', msg :: ms, e)
              else Ok (b3, [msg], Closed)                    (* handle_conn_error(); goto cleanup *)
          end
    end.

  Definition read_answers (b : buf) : outcome (buf * list (list Z) * conn_end) :=
    read_answers_loop (S (length (b_data b))) b.

  (* result of one ares_conn_read() *)
  Inductive rd :=
  | RdBytes (reclaim : bool) (bytes : list Z) (full : bool)
      (* recv returned length bytes (0 = EOF on TCP, an empty datagram on UDP);
         full: count == len, the TCP loop reads again *)
  | RdWouldBlock                 (* EAGAIN, or a datagram from a foreign address *)
  | RdFail.                      (* any other error *)

  (* read_conn_packets(): UDP datagrams get a 2 byte length prefix ((unsigned short)count). *)
  Fixpoint read_conn_packets (tcp : bool) (b : buf) (rs : list rd) : outcome (buf * conn_end) :=
    match rs with
    | [] => Ok (b, StillOpen)                  (* nothing more offered: same as EAGAIN *)
    | RdWouldBlock :: _ => Ok (b, StillOpen)
    | RdFail :: _ => Ok (b, Closed)            (* connection failed: reported to the caller *)
    | RdBytes rc bytes full :: rs' =>
      if tcp then
        match bytes with
        | [] => Ok (b, Closed)                 (* ARES_CONN_ERR_CONNCLOSED *)
        | _ => do b' <- buf_append b rc bytes;
               if full then read_conn_packets tcp b' rs' else Ok (b', StillOpen)
        end
      else
        do b' <- buf_append b rc (be16_bytes (Z.of_nat (length bytes) mod 65536) ++ bytes);
        read_conn_packets tcp b' rs'
    end.

  (* process_read() for a connection that exists.  A connection failure reported by the socket
     (EOF, reset, ...) is handled only after the data read before it - in this call or an
     earlier one - has been processed (fixes/C20-process-data-before-conn-error.patch; the
     pinned code closed the connection first and lost that data). *)
  Definition process_read (tcp : bool) (b : buf) (rs : list rd)
    : outcome (buf * list (list Z) * conn_end) :=
    do r <- read_conn_packets tcp b rs;
    let '(b1, e) := r in
    do ra <- read_answers b1;
    let '(b2, ms, e2) := ra in
    Ok (b2, ms, match e with Closed => Closed | StillOpen => e2 end).

  (* a sequence of read events on one connection; events after the close find no connection *)
  Fixpoint run_reads (tcp : bool) (b : buf) (calls : list (list rd))
    : outcome (buf * list (list Z) * conn_end) :=
    match calls with
    | [] => Ok (b, [], StillOpen)
    | rs :: calls' =>
      do r <- process_read tcp b rs;
      let '(b1, ms, e) := r in
      match e with
      | Closed => Ok (b1, ms, Closed)
      | StillOpen =>
        do r2 <- run_reads tcp b1 calls';
        let '(b2, ms2, e2) := r2 in Ok (b2, ms ++ ms2, e2)
      end
    end.
End Read.

(* ---- specification: the complete frames of a byte stream, and the incomplete rest ---- *)
Fixpoint frames_fuel (fuel : nat) (s : list Z) : list (list Z) * list Z :=
  match fuel with
  | O => ([], s)
  | S f =>
    match s with
    | h :: l :: rest =>
      let n := Z.to_nat (be16 h l) in
      if (length rest <? n)%nat then ([], s)
      else let '(fs, tl) := frames_fuel f (skipn n rest) in (firstn n rest :: fs, tl)
    | _ => ([], s)
    end
  end.
Definition frames (s : list Z) : list (list Z) * list Z := frames_fuel (length s) s.

(* delivery stops after the first message process_answer rejects (connection closed) *)
Fixpoint cut (pa : list Z -> bool) (ms : list (list Z)) : list (list Z) * conn_end :=
  match ms with
  | [] => ([], StillOpen)
  | m :: ms' => if pa m then let '(r, e) := cut pa ms' in (m :: r, e) else ([m], Closed)
  end.

Definition incomplete (tl : list Z) : Prop :=
  match tl with
  | h :: l :: rest => (length rest < Z.to_nat (be16 h l))%nat
  | _ => True
  end.

Definition remaining (b : buf) : list Z := skipn (Z.to_nat (b_off b)) (b_data b).

(* ------------------------------------------------------------------------------------ *)
(* Write side                                                                           *)
(* ------------------------------------------------------------------------------------ *)

Record conn := mkconn {
  c_tcp : bool;            (* ARES_CONN_FLAG_TCP *)
  c_connected : bool;      (* ARES_CONN_STATE_CONNECTED *)
  c_tfo_initial : bool;    (* ARES_CONN_FLAG_TFO_INITIAL *)
  c_out : buf;             (* out_buf *)
  c_rw : Z                 (* state_flags & ARES_CONN_STATE_CBFLAGS: interest last announced *)
}.

Definition set_out (c : conn) (o : buf) : conn :=
  mkconn (c_tcp c) (c_connected c) (c_tfo_initial c) o (c_rw c).

Inductive cevent :=
| EvSend (offered : list Z) (accepted : Z)   (* asendto(len = |offered|) returned accepted (> 0) *)
| EvSendBlocked (offered : list Z)           (* asendto failed with EAGAIN / EWOULDBLOCK *)
| EvSendFailed (offered : list Z)            (* asendto failed with another error *)
| EvState (flags : Z)                        (* sock_state_cb(fd, flags & READ, flags & WRITE) *)
| EvPendingWrite.                            (* notify_pending_write_cb *)

(* the socket: result of one asendto() *)
Inductive wcap :=
| Cap (n : Z)     (* room for n bytes: n <= 0 -> EAGAIN, else accepts min(n, len) *)
| CapFail.        (* hard error *)

Inductive cerr := CeSuccess | CeWouldBlock | CeFailure.

(* ares_conn_sock_state_cb_update: notify only on change *)
Definition sock_state_update (c : conn) (flags : Z) : conn * list cevent :=
  (mkconn (c_tcp c) (c_connected c) (c_tfo_initial c) (c_out c) flags,
   if c_rw c =? flags then [] else [EvState flags]).

(* ares_conn_write: (connection, error, written, events) *)
Definition conn_write (c : conn) (data : list Z) (w : wcap) : conn * cerr * Z * list cevent :=
  if c_tcp c && negb (c_connected c) && negb (c_tfo_initial c) then (c, CeWouldBlock, 0, [])
  else
    let is_tfo := c_tfo_initial c in
    let c1 := mkconn (c_tcp c) (c_connected c) false (c_out c) (c_rw c) in
    let len := Z.of_nat (length data) in
    match w with
    | CapFail => (c1, CeFailure, 0, [EvSendFailed data])
    | Cap n =>
      if n <=? 0 then
        let '(c2, evs) := sock_state_update c1 (Z.lor ARES_CONN_STATE_READ ARES_CONN_STATE_WRITE) in
        (c2, CeWouldBlock, 0, EvSendBlocked data :: evs)
      else
        let written := Z.min n len in
        if len =? written then
          let '(c2, evs) := sock_state_update c1
               (Z.lor ARES_CONN_STATE_READ (if is_tfo then ARES_CONN_STATE_WRITE else ARES_CONN_STATE_NONE)) in
          (c2, CeSuccess, written, EvSend data written :: evs)
        else (c1, CeSuccess, written, [EvSend data written])
    end.

(* the part of ares_conn_flush after "done:" when status == ARES_SUCCESS.  A TCP connection
   that is not yet known to be established keeps WRITE interest (with or without fast open;
   fixes/C20-tcp-write-interest-until-connected.patch) *)
Definition flush_done (c : conn) : outcome (conn * list cevent) :=
  do l <- buf_len (c_out c);
  let flags := Z.lor ARES_CONN_STATE_READ
                 (Z.lor (if c_tcp c && negb (c_connected c) then ARES_CONN_STATE_WRITE else 0)
                        (if negb (l =? 0) then ARES_CONN_STATE_WRITE else 0)) in   (* any transport *)
  Ok (sock_state_update c flags).

Definition hd_cap (ws : list wcap) : wcap := match ws with w :: _ => w | [] => Cap 0 end.

(* ares_conn_flush: (connection, status, events, unused socket answers).  One asendto for TCP
   (everything pending), one per datagram for UDP.  An exhausted answer list means EAGAIN. *)
Fixpoint conn_flush_loop (fuel : nat) (c : conn) (ws : list wcap)
  : outcome (conn * Z * list cevent * list wcap) :=
  match fuel with
  | O => Err OutOfFuel
  | S f =>
    do l <- buf_len (c_out c);
    if l =? 0 then
      do r <- flush_done c; Ok (fst r, ARES_SUCCESS, snd r, ws)
    else if c_tcp c then
      do data <- buf_peek (c_out c);
      let '(c1, err, count, evs) := conn_write c data (hd_cap ws) in
      let ws' := if c_tcp c && negb (c_connected c) && negb (c_tfo_initial c) then ws else tl ws in
      match err with
      | CeFailure => Ok (c1, ARES_ECONNREFUSED, evs, ws')
      | CeWouldBlock => do r <- flush_done c1; Ok (fst r, ARES_SUCCESS, evs ++ snd r, ws')
      | CeSuccess =>
        do rc <- buf_consume (c_out c1) count;                (* result ignored by the C code *)
        do r <- flush_done (set_out c1 (snd rc)); Ok (fst r, ARES_SUCCESS, evs ++ snd r, ws')
      end
    else
      do o1 <- buf_tag (c_out c);
      do r16 <- buf_fetch_be16 o1;
      let '(st, msg_len, o2) := r16 in
      if negb (st =? ARES_SUCCESS) then Ok (set_out c o2, st, [], ws)   (* return status; *)
      else
        do rb <- buf_tag_rollback o2;
        let o3 := snd rb in
        do data <- buf_peek o3;
        if Z.of_nat (length data) <? msg_len + 2 then Ok (set_out c o3, ARES_EFORMERR, [], ws)
        else
          let dgram := firstn (Z.to_nat msg_len) (skipn 2 data) in
          let '(c1, err, count, evs) := conn_write (set_out c o3) dgram (hd_cap ws) in
          match err with
          | CeFailure => Ok (c1, ARES_ECONNREFUSED, evs, tl ws)
          | CeWouldBlock => do r <- flush_done c1; Ok (fst r, ARES_SUCCESS, evs ++ snd r, tl ws)
          | CeSuccess =>
            do rc <- buf_consume (c_out c1) (count + 2);      (* the prefix was not sent *)
            do r <- conn_flush_loop f (set_out c1 (snd rc)) (tl ws);
            let '(c2, st2, evs2, ws2) := r in Ok (c2, st2, evs ++ evs2, ws2)
          end
  end.

Definition conn_flush (c : conn) (ws : list wcap) : outcome (conn * Z * list cevent * list wcap) :=
  conn_flush_loop (S (length (b_data (c_out c)))) c ws.

(* ares_dns_write_buf_tcp on out_buf: placeholder, message, patch the length; > 65535 refused *)
Definition enqueue (o : buf) (reclaim : bool) (msg : list Z) : outcome (Z * buf) :=
  if 65535 <? Z.of_nat (length msg) then Ok (ARES_EBADQUERY, o)
  else do o' <- buf_append o reclaim (frame msg); Ok (ARES_SUCCESS, o').

(* ares_conn_query_write (after the cookie step).  pcb: a pending-write callback is registered;
   np: channel->notify_pending_write.  Result: connection, np, status, events, unused answers. *)
Definition conn_query_write (c : conn) (pcb np : bool) (reclaim : bool) (msg : list Z) (ws : list wcap)
  : outcome (conn * bool * Z * list cevent * list wcap) :=
  do r <- enqueue (c_out c) reclaim msg;
  let '(st, o) := r in
  if negb (st =? ARES_SUCCESS) then Ok (c, np, st, [], ws)
  else
    let c1 := set_out c o in
    if c_tcp c1 && negb (c_connected c1) && negb (c_tfo_initial c1) then Ok (c1, np, ARES_SUCCESS, [], ws)
    else if pcb && negb np && c_tcp c1 then Ok (c1, true, ARES_SUCCESS, [EvPendingWrite], ws)
    else
      do f <- conn_flush c1 ws;
      let '(c2, st2, evs, ws2) := f in Ok (c2, np, st2, evs, ws2).

(* process_write(): mark connected unless the TFO write is still outstanding, then flush *)
Definition process_write (c : conn) (ws : list wcap) : outcome (conn * Z * list cevent * list wcap) :=
  let c1 := if c_tfo_initial c then c
            else mkconn (c_tcp c) true (c_tfo_initial c) (c_out c) (c_rw c) in
  conn_flush c1 ws.

(* what happens to one connection, in order *)
Inductive wop :=
| WEnq (reclaim : bool) (msg : list Z)   (* ares_conn_query_write *)
| WWritable                              (* write event: process_write *)
| WPendingFlush                          (* ares_process_pending_write *)
| WReadOk.                               (* ares_conn_read() succeeded: state_flags |= CONNECTED *)

(* A failed flush (status <> SUCCESS) is followed by handle_conn_error(): the connection is
   closed; later operations do not find it. *)
Fixpoint run_wops (c : conn) (pcb np : bool) (ops : list wop) (ws : list wcap)
  : outcome (conn * list cevent * conn_end) :=
  match ops with
  | [] => Ok (c, [], StillOpen)
  | op :: ops' =>
    do r <- match op with
            | WEnq rc msg => conn_query_write c pcb np rc msg ws
            | WWritable => do f <- process_write c ws;
                           let '(c2, st, evs, ws2) := f in Ok (c2, np, st, evs, ws2)
            | WPendingFlush =>
              if np then do f <- conn_flush c ws;
                         let '(c2, st, evs, ws2) := f in Ok (c2, false, st, evs, ws2)
              else Ok (c, np, ARES_SUCCESS, [], ws)
            | WReadOk => Ok (mkconn (c_tcp c) true (c_tfo_initial c) (c_out c) (c_rw c), np, ARES_SUCCESS, [], ws)
            end;
    let '(c1, np1, st, evs, ws1) := r in
    if negb (st =? ARES_SUCCESS) && negb (st =? ARES_EBADQUERY) then Ok (c1, evs, Closed)
    else
      do r2 <- run_wops c1 pcb np1 ops' ws1;
      let '(c2, evs2, e) := r2 in Ok (c2, evs ++ evs2, e)
  end.

(* what the peer has received: the accepted prefix of every asendto *)
Fixpoint server_bytes (evs : list cevent) : list Z :=
  match evs with
  | [] => []
  | EvSend offered n :: evs' => firstn (Z.to_nat n) offered ++ server_bytes evs'
  | _ :: evs' => server_bytes evs'
  end.

(* the datagrams the peer has received (UDP) *)
Fixpoint server_dgrams (evs : list cevent) : list (list Z) :=
  match evs with
  | [] => []
  | EvSend offered n :: evs' => firstn (Z.to_nat n) offered :: server_dgrams evs'
  | _ :: evs' => server_dgrams evs'
  end.

Fixpoint enqueued (ops : list wop) : list (list Z) :=
  match ops with
  | [] => []
  | WEnq _ m :: ops' => if 65535 <? Z.of_nat (length m) then enqueued ops' else m :: enqueued ops'
  | _ :: ops' => enqueued ops'
  end.

(* ------------------------------------------------------------------------------------ *)
(* process_answer(): the decision chain (in source order) that matters for truncation   *)
(* ------------------------------------------------------------------------------------ *)
Inductive pa_action :=
| PaDrop            (* unknown id / other question / other connection / bad cookie: ignored *)
| PaRetryNoEdns     (* FORMERR to an EDNS query: rewrite without OPT, requeue to same server *)
| PaRetryTcp        (* TC on UDP and not IGNTC: query->using_tcp = TRUE, requeue *)
| PaRequeueRcode    (* SERVFAIL / NOTIMP / REFUSED and not NOCHECKRESP *)
| PaDeliver.        (* end_query(ARES_SUCCESS) *)

Definition has_flag (flags bit : Z) : bool := negb (Z.land flags bit =? 0).

Definition process_answer_decide (found same_q on_conn cookie_ok edns_issue : bool)
                                 (rflags : Z) (conn_tcp : bool) (chan_flags : Z) (rcode : Z) : pa_action :=
  if negb found then PaDrop
  else if negb same_q then PaDrop
  else if negb on_conn then PaDrop          (* query->conn != conn: stale or duplicate reply *)
  else if negb cookie_ok then PaDrop
  else if edns_issue then PaRetryNoEdns
  else if has_flag rflags ARES_FLAG_TC && negb conn_tcp && negb (has_flag chan_flags ARES_FLAG_IGNTC)
       then PaRetryTcp
  else if negb (has_flag chan_flags ARES_FLAG_NOCHECKRESP) &&
          ((rcode =? ARES_RCODE_SERVFAIL) || (rcode =? ARES_RCODE_NOTIMP) || (rcode =? ARES_RCODE_REFUSED))
       then PaRequeueRcode
  else PaDeliver.

(* the query's transport after the decision, and the kind of connection ares_send_query() then
   uses for it (ares_fetch_connection: using_tcp -> server->tcp_conn, else the UDP connection;
   ares_open_connection(.., query->using_tcp) when there is none) *)
Definition using_tcp_after (a : pa_action) (using_tcp : bool) : bool :=
  match a with PaRetryTcp => true | _ => using_tcp end.
Definition callback_invoked (a : pa_action) : bool := match a with PaDeliver => true | _ => false end.
Definition requeued (a : pa_action) : bool :=
  match a with PaRetryTcp | PaRetryNoEdns | PaRequeueRcode => true | _ => false end.
Definition next_conn_is_tcp (using_tcp : bool) : bool := using_tcp.

(* What happens to the query after the decision, as far as its retry budget is concerned.
   ares_requeue_query(.., inc_try_count = TRUE, ..) is used for SERVFAIL/NOTIMP/REFUSED only: it
   increments try_count and ends the query (with the error recorded) when
   try_count >= nservers * tries.  The truncation and the EDNS retries call
   ares_append_requeue() directly: try_count is NOT touched, the query is always re-sent. *)
Inductive fate := FDropped | FDelivered | FRequeued (try_count : Z) | FEnded.

Definition after_answer (a : pa_action) (try_count max_tries : Z) (no_retries : bool) : fate :=
  match a with
  | PaDrop => FDropped
  | PaDeliver => FDelivered
  | PaRetryTcp | PaRetryNoEdns => FRequeued try_count
  | PaRequeueRcode =>
    if (try_count + 1 <? max_tries) && negb no_retries then FRequeued (try_count + 1) else FEnded
  end.
