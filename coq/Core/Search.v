(* C12 - search-list expansion.  Executable model of
     src/lib/ares_search.c : ares_lookup_hostaliases, ares_search_eligible, ares_name_label_cnt,
                             ares_cat_domain, ares_search_name_list, ares_search_int (entry),
                             ares_search_next, search_callback, end_squery
     src/lib/ares_getaddrinfo.c : host_callback / next_lookup / next_dns_lookup (single address
                             family, lookups "b")
   in the shape of the C code, followed by the declarative specification taken from
   resolv.conf(5) and the property text.  Proofs are in Search_proofs.v.

   Names are C strings: lists of bytes (N, no NUL).  A dot is the byte 46 wherever it stands:
   ares_name_label_cnt() and the trailing-dot test look at raw bytes, so an escaped dot "\."
   counts as a dot and a name ending in "\." counts as ending in a dot.
   Allocation failures (ARES_ENOMEM paths) are not modelled. *)
From CAres.Base Require Import Outcome CInt.
From CAres.Gen Require Import Consts.
From Coq Require Import NArith.

Definition byte := N.
Definition name := list byte.
Definition DOT : byte := 46%N.

(* ------------------------------------------------------------------------------------ *)
(* character classes (src/lib/include/ares_str.h, ares_buf.c ares_is_whitespace)         *)
(* ------------------------------------------------------------------------------------ *)
Local Open Scope N_scope.
Definition is_ws (lf : bool) (c : byte) : bool :=
  (c =? 13) || (c =? 9) || (c =? 32) || (c =? 11) || (c =? 12) || (lf && (c =? 10)).
Definition is_print (c : byte) : bool := (32 <=? c) && (c <=? 126).
Definition is_upper (c : byte) : bool := (65 <=? c) && (c <=? 90).
Definition is_alpha (c : byte) : bool := is_upper c || ((97 <=? c) && (c <=? 122)).
Definition is_digit (c : byte) : bool := (48 <=? c) && (c <=? 57).
Definition is_hostnamech (c : byte) : bool :=
  is_alpha c || is_digit c || (c =? 45) || (c =? 46) || (c =? 95) || (c =? 47) || (c =? 42).
Definition to_lower (c : byte) : byte := if is_upper c then c + 32 else c.

Fixpoint name_eqb (a b : name) : bool :=
  match a, b with
  | [], [] => true
  | x :: a', y :: b' => (x =? y) && name_eqb a' b'
  | _, _ => false
  end.

(* strcasecmp(a,b) == 0 in the C locale *)
Fixpoint caseeq (a b : name) : bool :=
  match a, b with
  | [], [] => true
  | x :: a', y :: b' => (to_lower x =? to_lower y) && caseeq a' b'
  | _, _ => false
  end.

Fixpoint span (p : byte -> bool) (l : list byte) : list byte * list byte :=
  match l with
  | [] => ([], [])
  | c :: r => if p c then (let (a, b) := span p r in (c :: a, b)) else ([], l)
  end.

Fixpoint drop_while (p : byte -> bool) (l : list byte) : list byte :=
  match l with
  | [] => []
  | c :: r => if p c then drop_while p r else l
  end.

Definition rtrim (p : byte -> bool) (l : list byte) : list byte := rev (drop_while p (rev l)).

(* ------------------------------------------------------------------------------------ *)
(* ares_lookup_hostaliases                                                               *)
(* ------------------------------------------------------------------------------------ *)

(* ares_buf_split(buf, "\n", ARES_BUF_SPLIT_TRIM): sections between line feeds, each trimmed
   on both sides (white space including LF), empty sections dropped *)
Fixpoint split_lines (cur : list byte) (l : list byte) : list (list byte) :=
  match l with
  | [] => [rev cur]
  | c :: r => if c =? 10 then rev cur :: split_lines [] r else split_lines (c :: cur) r
  end.

Definition trim_line (l : list byte) : list byte := rtrim (is_ws true) (drop_while (is_ws true) l).

Definition is_nil {A} (l : list A) : bool := match l with [] => true | _ => false end.

Definition alias_lines (file : list byte) : list (list byte) :=
  filter (fun l => negb (is_nil l)) (map trim_line (split_lines [] file)).

(* one iteration of the loop body; None = `continue` *)
Definition alias_scan_line (nm : name) (line : list byte) : option name :=
  let (host, rest) := span (fun c => negb (is_ws true c)) line in
  (* ares_buf_tag_fetch_string(line, hostname, 64): at most 63 bytes, all printable *)
  if (63 <? length host)%nat then None else
  if negb (forallb is_print host) then None else
  if negb (caseeq host nm) then None else
  let rest' := drop_while (is_ws true) rest in
  let (fq, _) := span (fun c => negb (is_ws true c)) rest' in
  (* ares_buf_tag_fetch_string(line, fqdn, 256) and ares_strlen(fqdn) != 0 *)
  if (255 <? length fq)%nat then None else
  if negb (forallb is_print fq) then None else
  if is_nil fq then None else
  if negb (forallb is_hostnamech fq) then None else
  Some fq.

Fixpoint alias_scan (nm : name) (lines : list (list byte)) : option name :=
  match lines with
  | [] => None
  | l :: r => match alias_scan_line nm l with Some a => Some a | None => alias_scan nm r end
  end.

Definition flag_set (flags mask : Z) : bool := negb (Z.eqb (Z.land flags mask) 0).

(* [env]: None = HOSTALIASES unset; Some (Err s) = ares_buf_load_file failed with s
   (ARES_ENOTFOUND when the file does not exist, ARES_EFILE otherwise); Some (Ok bytes) = file
   content.  Result: Ok (Some alias) = ARES_SUCCESS, Ok None = ARES_ENOTFOUND, Err s = other. *)
Definition lookup_hostaliases (flags : Z) (nm : name) (env : option (outcome (list byte)))
  : outcome (option name) :=
  if flag_set flags ARES_FLAG_NOALIASES then Ok None else
  if existsb (N.eqb DOT) nm then Ok None else
  match env with
  | None => Ok None
  | Some (Err s) => if Z.eqb s ARES_ENOTFOUND then Ok None else Err s
  | Some (UB k) => UB k
  | Some (Ok file) => Ok (alias_scan nm (alias_lines file))
  end.

(* ------------------------------------------------------------------------------------ *)
(* ares_search_name_list                                                                 *)
(* ------------------------------------------------------------------------------------ *)
Record search_cfg := { c_flags : Z; c_ndots : N; c_domains : list name }.

Definition ends_with_dot (nm : name) : bool :=
  match rev nm with c :: _ => c =? DOT | [] => false end.

Definition search_eligible (cfg : search_cfg) (nm : name) : bool :=
  if ends_with_dot nm then false
  else if flag_set (c_flags cfg) ARES_FLAG_NOSEARCH then false
  else true.

Definition count_dots (nm : name) : nat := length (filter (N.eqb DOT) nm).

(* ares_name_label_cnt (name != NULL) *)
Definition name_label_cnt (nm : name) : N := N.of_nat (count_dots nm) + 1.

(* ares_cat_domain: name "." domain, the root domain "." adds nothing after the separator *)
Definition cat_domain (nm dom : name) : name :=
  nm ++ DOT :: (if name_eqb dom [DOT] then [] else dom).

(* char **list of list_len zeroed slots; None = NULL.  A store outside the allocation is UB. *)
Definition set_slot (l : list (option name)) (idx : nat) (v : name) : outcome (list (option name)) :=
  if (idx <? length l)%nat then Ok (firstn idx l ++ Some v :: skipn (S idx) l) else UB OutOfBounds.

Fixpoint cat_loop (nm : name) (doms : list name) (lst : list (option name)) (idx : nat)
  : outcome (list (option name) * nat) :=
  match doms with
  | [] => Ok (lst, idx)
  | d :: r => do l' <- set_slot lst idx (cat_domain nm d); cat_loop nm r l' (S idx)
  end.

Definition search_name_list (cfg : search_cfg) (nm : name) (env : option (outcome (list byte)))
  : outcome (list (option name)) :=
  do al <- lookup_hostaliases (c_flags cfg) nm env;
  match al with
  | Some a => Ok [Some a]
  | None =>
    if negb (search_eligible cfg nm) then Ok [Some nm] else
    let cnt := name_label_cnt nm in
    let ndots := if 0 <? cnt then cnt - 1 else cnt in
    let list_len := (length (c_domains cfg) + 1)%nat in
    let lst := repeat (@None name) list_len in
    do st1 <- (if c_ndots cfg <=? ndots
               then (do l <- set_slot lst 0 nm; Ok (l, 1%nat)) else Ok (lst, 0%nat));
    do st2 <- cat_loop nm (c_domains cfg) (fst st1) (snd st1);
    do st3 <- (if ndots <? c_ndots cfg
               then (do l <- set_slot (fst st2) (snd st2) nm; Ok (l, S (snd st2))) else Ok st2);
    Ok (fst st3)
  end.

(* ------------------------------------------------------------------------------------ *)
(* ares_search_int / ares_search_next / search_callback                                  *)
(* ------------------------------------------------------------------------------------ *)
Local Open Scope Z_scope.

Record squery := { sq_names : list name; sq_next : nat; sq_nodata : bool }.

Inductive sq_step :=
| SqEnd (status : Z)                 (* end_squery: user callback + free *)
| SqSend (q : squery) (n : name).    (* ares_search_next sent this candidate *)

(* ares_search_next.  A send that fails inside ares_send_nolock has already delivered its status
   to search_callback, so it is just another outcome [o i] of that candidate (the double
   completion on ARES_EFORMERR was property C01's defect, fixed upstream of this model) *)
Definition search_next (q : squery) : outcome sq_step :=
  match nth_error (sq_names q) (sq_next q) with
  | None => Ok (SqEnd ARES_EFORMERR)          (* misuse check *)
  | Some n => Ok (SqSend {| sq_names := sq_names q; sq_next := S (sq_next q); sq_nodata := sq_nodata q |} n)
  end.

(* the status search_callback computes from (status, dnsrec) *)
Definition reply_tostatus (rcode : Z) (ancount : nat) : Z :=
  if rcode =? ARES_RCODE_NOERROR then (if (0 <? ancount)%nat then ARES_SUCCESS else ARES_ENODATA)
  else if rcode =? ARES_RCODE_FORMERR then ARES_EFORMERR
  else if rcode =? ARES_RCODE_SERVFAIL then ARES_ESERVFAIL
  else if rcode =? ARES_RCODE_NXDOMAIN then ARES_ENOTFOUND
  else if rcode =? ARES_RCODE_NOTIMP then ARES_ENOTIMP
  else if rcode =? ARES_RCODE_REFUSED then ARES_EREFUSED
  else ARES_SUCCESS.

(* names[next_name_idx - 1]: an index of SIZE_MAX when next_name_idx = 0 is an out-of-bounds read *)
Definition last_sent (q : squery) : outcome name :=
  match sq_next q with
  | O => UB OutOfBounds
  | S i => match nth_error (sq_names q) i with Some n => Ok n | None => UB OutOfBounds end
  end.

(* [fixed] selects the code after fixes/C12-search-nodata-final.patch (true) or the pinned code
   (false): the only difference is the final status when the names are exhausted *)
Definition search_callback (fixed : bool) (q : squery) (mystatus : Z) : outcome sq_step :=
  do cont <-
    (if (mystatus =? ARES_ENODATA) || (mystatus =? ARES_ENOTFOUND) then Ok true
     else if (mystatus =? ARES_ESERVFAIL) || (mystatus =? ARES_EREFUSED) then
       (do n <- last_sent q; Ok (N.eqb (name_label_cnt n) 1%N))
     else Ok false);
  if negb cont then Ok (SqEnd mystatus) else
  let q' := {| sq_names := sq_names q; sq_next := sq_next q;
               sq_nodata := if mystatus =? ARES_ENODATA then true else sq_nodata q |} in
  if (sq_next q' <? length (sq_names q'))%nat then search_next q'
  else if fixed then
    (if sq_nodata q' then Ok (SqEnd ARES_ENODATA) else Ok (SqEnd mystatus))
  else
    (if (mystatus =? ARES_ENOTFOUND) && sq_nodata q' then Ok (SqEnd ARES_ENODATA)
     else Ok (SqEnd mystatus)).

(* Drive one search: candidate number i (0-based, in the order sent) completes with status
   [o i].  Result: the names sent, in order, and the status given to the user callback. *)
Fixpoint search_loop (fixed : bool) (fuel : nat) (o : nat -> Z) (q : squery) (sent : list name)
  : outcome (list name * Z) :=
  match fuel with
  | O => Err OutOfFuel
  | S f =>
    do st <- search_callback fixed q (o (pred (sq_next q)));
    match st with
    | SqEnd s => Ok (rev sent, s)
    | SqSend q' n => search_loop fixed f o q' (n :: sent)
    end
  end.

Definition search_run (fixed : bool) (names : list name) (o : nat -> Z) : outcome (list name * Z) :=
  do st <- search_next {| sq_names := names; sq_next := 0; sq_nodata := false |};
  match st with
  | SqEnd s => Ok ([], s)
  | SqSend q n => search_loop fixed (length names) o q [n]
  end.

(* case-insensitive suffix test (ares_striendstr) *)
Definition iends_with (nm suffix : name) : bool :=
  if (length nm <? length suffix)%nat then false
  else caseeq (skipn (length nm - length suffix) nm) suffix.

Definition ONION : name := [46; 111; 110; 105; 111; 110]%N.          (* ".onion" *)
Definition is_onion_domain (nm : name) : bool :=
  iends_with nm ONION || iends_with nm (ONION ++ [DOT]).

Fixpoint strip_none (l : list (option name)) : outcome (list name) :=
  match l with
  | [] => Ok []
  | Some n :: r => do r' <- strip_none r; Ok (n :: r')
  | None :: r => UB NullDeref
  end.

(* ares_search_int for a one-question record *)
Definition search_int (fixed : bool) (cfg : search_cfg) (nm : name) (env : option (outcome (list byte)))
  (o : nat -> Z) : outcome (list name * Z) :=
  if is_onion_domain nm then Ok ([], ARES_ENOTFOUND) else
  match search_name_list cfg nm env with
  | Err s => Ok ([], s)
  | UB k => UB k
  | Ok lst => do names <- strip_none lst; search_run fixed names o
  end.

(* ------------------------------------------------------------------------------------ *)
(* ares_getaddrinfo: host_callback / next_lookup walk, one address family, lookups = "b"  *)
(* ------------------------------------------------------------------------------------ *)
(* outcome of one candidate as host_callback sees it: the status of the ares_query callback
   and, for ARES_SUCCESS, whether the answer holds an address record (then
   ares_parse_into_addrinfo(cname_only_is_enodata = TRUE) adds nodes and returns ARES_SUCCESS,
   otherwise it returns ARES_ENODATA; its ARES_ENOMEM / ARES_EBADRESP results are not modelled) *)
Record ai_outcome := { ao_status : Z; ao_addr : bool }.

Inductive ai_step :=
| AiEnd (status : Z)       (* end_hquery *)
| AiNext (status : Z).     (* next_lookup(hquery, status) *)

(* host_callback with hquery->remaining reaching 0 (one query per candidate) *)
Definition host_callback (names : list name) (next : nat) (nodata_cnt : nat) (oc : ai_outcome)
  : outcome (ai_step * nat) :=
  let status := ao_status oc in
  let addinfostatus :=
    if status =? ARES_SUCCESS then (if ao_addr oc then ARES_SUCCESS else ARES_ENODATA)
    else ARES_SUCCESS in
  let nodes := (status =? ARES_SUCCESS) && ao_addr oc in
  if (status =? ARES_EDESTRUCTION) || (status =? ARES_ECANCELLED) then Ok (AiEnd status, nodata_cnt)
  else if nodes then Ok (AiEnd ARES_SUCCESS, nodata_cnt)
  else if (status =? ARES_ENOTFOUND) || (status =? ARES_ENODATA) || (addinfostatus =? ARES_ENODATA) then
    let nd := if (status =? ARES_ENODATA) || (addinfostatus =? ARES_ENODATA)
              then S nodata_cnt else nodata_cnt in
    Ok (AiNext (if (0 <? nd)%nat then ARES_ENODATA else status), nd)
  else if (status =? ARES_ESERVFAIL) || (status =? ARES_EREFUSED) then
    match next with
    | O => UB OutOfBounds
    | S i => match nth_error names i with
             | None => UB OutOfBounds
             | Some n => if N.eqb (name_label_cnt n) 1%N
                         then Ok (AiNext (if (0 <? nodata_cnt)%nat then ARES_ENODATA else status), nodata_cnt)
                         else Ok (AiEnd status, nodata_cnt)
             end
    end
  else Ok (AiEnd status, nodata_cnt).

(* next_lookup with remaining_lookups = "b": next_dns_lookup sends names[next++], or the lookup
   string is exhausted and end_hquery reports the status handed over *)
Fixpoint ai_loop (fuel : nat) (names : list name) (o : nat -> ai_outcome) (next nodata_cnt : nat)
  (sent : list name) : outcome (list name * Z) :=
  match fuel with
  | O => Err OutOfFuel
  | S f =>
    do r <- host_callback names next nodata_cnt (o (pred next));
    match fst r with
    | AiEnd s => Ok (rev sent, s)
    | AiNext st =>
      match nth_error names next with
      | None => Ok (rev sent, st)
      | Some n => ai_loop f names o (S next) (snd r) (n :: sent)
      end
    end
  end.

Definition ai_run (names : list name) (o : nat -> ai_outcome) : outcome (list name * Z) :=
  match names with
  | [] => Ok ([], ARES_ECONNREFUSED)     (* initial status given to next_lookup *)
  | n :: _ => ai_loop (length names) names o 1 0 [n]
  end.

(* AF_UNSPEC: two queries (A and AAAA) per candidate.  The completion that leaves one query
   outstanding only adds its addresses to hquery->ai; the decision is taken when the second
   one completes, on ITS status, with hquery->ai->nodes holding the addresses of both.
   [first], [last]: the two outcomes in completion order. *)
Definition has_addr (oc : ai_outcome) : bool := (ao_status oc =? ARES_SUCCESS) && ao_addr oc.

(* [fixed] selects the code with fixes/C12-gai-unspec-nodata.patch (true): the completion that
   leaves the other query outstanding remembers a no-data answer (nodata_cnt++); the pinned code
   (false) looks at the no-data of the LAST completion only *)
Definition host_callback2 (fixed : bool) (names : list name) (next : nat) (nodata_cnt0 : nat) (first last : ai_outcome)
  : outcome (ai_step * nat) :=
  let nodata_cnt :=
    if fixed && ((ao_status first =? ARES_ENODATA) ||
                 ((ao_status first =? ARES_SUCCESS) && negb (ao_addr first)))
    then S nodata_cnt0 else nodata_cnt0 in
  let status := ao_status last in
  let addinfostatus :=
    if status =? ARES_SUCCESS then (if ao_addr last then ARES_SUCCESS else ARES_ENODATA)
    else ARES_SUCCESS in
  let nodes := has_addr first || has_addr last in
  if (status =? ARES_EDESTRUCTION) || (status =? ARES_ECANCELLED) then Ok (AiEnd status, nodata_cnt)
  else if nodes then Ok (AiEnd ARES_SUCCESS, nodata_cnt)
  else if (status =? ARES_ENOTFOUND) || (status =? ARES_ENODATA) || (addinfostatus =? ARES_ENODATA) then
    let nd := if (status =? ARES_ENODATA) || (addinfostatus =? ARES_ENODATA)
              then S nodata_cnt else nodata_cnt in
    Ok (AiNext (if (0 <? nd)%nat then ARES_ENODATA else status), nd)
  else if (status =? ARES_ESERVFAIL) || (status =? ARES_EREFUSED) then
    match next with
    | O => UB OutOfBounds
    | S i => match nth_error names i with
             | None => UB OutOfBounds
             | Some n => if N.eqb (name_label_cnt n) 1%N
                         then Ok (AiNext (if (0 <? nodata_cnt)%nat then ARES_ENODATA else status), nodata_cnt)
                         else Ok (AiEnd status, nodata_cnt)
             end
    end
  else Ok (AiEnd status, nodata_cnt).

Fixpoint ai2_loop (fixed : bool) (fuel : nat) (names : list name) (o : nat -> ai_outcome * ai_outcome) (next nodata_cnt : nat)
  (sent : list name) : outcome (list name * Z) :=
  match fuel with
  | O => Err OutOfFuel
  | S f =>
    do r <- host_callback2 fixed names next nodata_cnt (fst (o (pred next))) (snd (o (pred next)));
    match fst r with
    | AiEnd s => Ok (rev sent, s)
    | AiNext st =>
      match nth_error names next with
      | None => Ok (rev sent, st)
      | Some n => ai2_loop fixed f names o (S next) (snd r) (n :: sent)
      end
    end
  end.

(* the candidates for which the pair of queries was sent, and the final status *)
Definition ai2_run (fixed : bool) (names : list name) (o : nat -> ai_outcome * ai_outcome) : outcome (list name * Z) :=
  match names with
  | [] => Ok ([], ARES_ECONNREFUSED)
  | n :: _ => ai2_loop fixed (length names) names o 1 0 [n]
  end.

(* ------------------------------------------------------------------------------------ *)
(* Specification (resolv.conf(5) + the property statement), independent of the code shape *)
(* ------------------------------------------------------------------------------------ *)

(* name qualified with a search domain: name "." domain; the root domain qualifies to "name." *)
Definition qualify (nm dom : name) : name :=
  if name_eqb dom [DOT] then nm ++ [DOT] else nm ++ [DOT] ++ dom.

(* [alias]: the host alias that applies to the name, if any *)
Definition spec_candidates (cfg : search_cfg) (alias : option name) (nm : name) : list name :=
  match alias with
  | Some a => [a]
  | None =>
    if ends_with_dot nm || flag_set (c_flags cfg) ARES_FLAG_NOSEARCH then [nm]
    else if (c_ndots cfg <=? N.of_nat (count_dots nm))%N
         then nm :: map (qualify nm) (c_domains cfg)
         else map (qualify nm) (c_domains cfg) ++ [nm]
  end.

(* A candidate outcome lets the search go on ("soft") when it is no-data or not-found, or when
   it is SERVFAIL/REFUSED for a single-label candidate (resolvers such as systemd-resolved
   refuse single labels); everything else - data or a hard error - stops the search. *)
Definition single_label (n : name) : bool := (count_dots n =? 0)%nat.

Definition soft (names : list name) (i : nat) (s : Z) : bool :=
  (s =? ARES_ENODATA) || (s =? ARES_ENOTFOUND) ||
  (((s =? ARES_ESERVFAIL) || (s =? ARES_EREFUSED)) &&
   match nth_error names i with Some n => single_label n | None => false end).

(* index of the first candidate, from i on, whose outcome stops the search *)
Fixpoint first_stop (names : list name) (o : nat -> Z) (i : nat) (rest : list name) : option nat :=
  match rest with
  | [] => None
  | _ :: r => if soft names i (o i) then first_stop names o (S i) r else Some i
  end.

Definition spec_queried (names : list name) (o : nat -> Z) : list name :=
  match first_stop names o 0 names with
  | Some k => firstn (S k) names
  | None => names
  end.

Definition spec_status (names : list name) (o : nat -> Z) : Z :=
  match first_stop names o 0 names with
  | Some k => o k
  | None =>
    if existsb (fun i => o i =? ARES_ENODATA) (seq 0 (length names)) then ARES_ENODATA
    else o (pred (length names))
  end.

(* The declarative statement (spec_queried/spec_status above are its executable form, see
   Search_proofs.spec_satisfies_stop_rule and stop_rule_functional): the queried names are the
   shortest prefix ending at the first candidate that yields data or a hard error (or all of
   them); the status is that candidate's, otherwise no-data if any candidate had no data,
   otherwise the last candidate's status. *)
Definition stop_rule (names : list name) (o : nat -> Z) (queried : list name) (final : Z) : Prop :=
  exists k, (k < length names)%nat /\ queried = firstn (S k) names /\
    (forall i, (i < k)%nat -> soft names i (o i) = true) /\
    ((soft names k (o k) = false /\ final = o k) \/
     (k = pred (length names) /\ soft names k (o k) = true /\
      (((exists i, (i < length names)%nat /\ o i = ARES_ENODATA) /\ final = ARES_ENODATA) \/
       ((forall i, (i < length names)%nat -> o i <> ARES_ENODATA) /\ final = o k)))).

(* status of an address-lookup candidate as the property sees it *)
Definition ai_status (oc : ai_outcome) : Z :=
  if ao_status oc =? ARES_SUCCESS then (if ao_addr oc then ARES_SUCCESS else ARES_ENODATA)
  else ao_status oc.

(* The status of a candidate that was looked up with two queries (A and AAAA), [first] and
   [last] in completion order: data if either family gave addresses; a cancellation of the
   last one wins; otherwise the status of the query that completed last - except that a no-data
   answer of the first one is remembered when the last one is soft (not found, or
   SERVFAIL/REFUSED for a single label [single]).  A hard error of the query that completes
   FIRST is not looked at (open finding: the result depends on the arrival order). *)
Definition first_nodata (oc : ai_outcome) : bool := ai_status oc =? ARES_ENODATA.

Definition ai2_combine (single : bool) (first last : ai_outcome) : ai_outcome :=
  if (ao_status last =? ARES_EDESTRUCTION) || (ao_status last =? ARES_ECANCELLED) then last
  else if has_addr first || has_addr last then {| ao_status := ARES_SUCCESS; ao_addr := true |}
  else if first_nodata first &&
          ((ao_status last =? ARES_ENOTFOUND) ||
           (((ao_status last =? ARES_ESERVFAIL) || (ao_status last =? ARES_EREFUSED)) && single))
       then {| ao_status := ARES_ENODATA; ao_addr := false |}
  else last.

(* the pinned code forgets the no-data answer of the first completion *)
Definition ai2_combine_pinned (first last : ai_outcome) : ai_outcome :=
  if (ao_status last =? ARES_EDESTRUCTION) || (ao_status last =? ARES_ECANCELLED) then last
  else if has_addr first || has_addr last then {| ao_status := ARES_SUCCESS; ao_addr := true |}
  else last.

Definition cand_single (names : list name) (i : nat) : bool :=
  match nth_error names i with Some n => single_label n | None => false end.
