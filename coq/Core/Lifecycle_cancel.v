(* C01: when ares_cancel returns, every request that was pending when it was called has been
   completed.  This file: the invariant that holds while a top-level ares_cancel runs.

   Old is the set of requests made before that call.  ares_cancel moves the queries into a list of
   its own and marks them; a marked query completes with ARES_ECANCELLED whatever ends it, and a
   closure that receives ARES_ECANCELLED delivers it without starting anything new.  So from the
   moment the queries are marked, the live list only holds queries of requests made later (by
   callbacks), every query in one of the lists taken by ares_cancel is marked, and a closure
   of an old request is only ever invoked with the cancelled result. *)
From Coq Require Import List ZArith Lia Bool Arith Permutation.
Import ListNotations.
From CAres.Base Require Import Outcome.
From CAres.Gen Require Import Consts.
From CAres.Core Require Import LifecycleMonitor Lifecycle Lifecycle_inv Lifecycle_proofs Lifecycle_tokens.

Definition heads (s : state) : list obj := hd [] (st_lists s).
Definition tails (s : state) : list obj := concat (tl (st_lists s)).

Lemma linked_split s : linked s = heads s ++ tails s.
Proof. unfold linked, heads, tails. destruct (st_lists s); reflexivity. Qed.

Lemma in_linked_split s x : In x (linked s) -> In x (heads s) \/ In x (tails s).
Proof. rewrite linked_split. apply in_app_or. Qed.

Definition cres (r : result) : Prop := r = res ARES_ECANCELLED.

Section CancelInv.
Variable Old : list tok.
(* the trace when the top-level ares_cancel began *)
Variable T0 : list event.

(* a callback for a request made before the call carries ARES_ECANCELLED *)
Definition okev (e : event) : Prop := match e with EvCb t st => In t Old -> st = ARES_ECANCELLED | _ => True end.
Definition oktr (add : list event) : Prop := forall e, In e add -> okev e.

Definition newt (l : list tok) : Prop := forall t, In t l -> ~ In t Old.
Definition hnew (s : state) (o : obj) : Prop := forall h, cell_of s o = Some (CHost h) -> newt (ctoks (h_cb h)).
Definition newk (s : state) (k : cbk) : Prop := newt (ctoks k) /\ forall o, kbot k = Some o -> hnew s o.
Definition okr (s : state) (k : cbk) (r : result) : Prop := newk s k \/ cres r.

Record J (s : state) : Prop := {
  j_head : forall qo q, In qo (heads s) -> cell_of s qo = Some (CQuery q) -> newk s (q_cb q) /\ q_cancelled q = false;
  j_tail : forall qo q, In qo (tails s) -> cell_of s qo = Some (CQuery q) -> q_cancelled q = true;
  j_scr : newt (futr s);
  j_tr : exists nw, st_trace s = nw ++ T0 /\ oktr nw
}.

(* what ares_cancel needs at entry *)
Record Jpre (s : state) : Prop := {
  jp_tail : forall qo q, In qo (tails s) -> cell_of s qo = Some (CQuery q) -> q_cancelled q = true;
  jp_scr : newt (futr s);
  jp_tr : exists nw, st_trace s = nw ++ T0 /\ oktr nw
}.

Lemma J_pre s : J s -> Jpre s.
Proof. intros [H1 H2 H3 H4]. constructor; auto. Qed.

Lemma newt_nil : newt [].
Proof. intros t []. Qed.
Lemma newt_app a b : newt a -> newt b -> newt (a ++ b).
Proof. intros Ha Hb t Ht. apply in_app_or in Ht. destruct Ht; auto. Qed.
Lemma newt_app_l a b : newt (a ++ b) -> newt a.
Proof. intros H t Ht. apply H. apply in_or_app. auto. Qed.
Lemma newt_app_r a b : newt (a ++ b) -> newt b.
Proof. intros H t Ht. apply H. apply in_or_app. auto. Qed.
Lemma newt_incl a b : incl a b -> newt b -> newt a.
Proof. intros Hi H t Ht. apply H. apply Hi. exact Ht. Qed.

Lemma newk_nohost s k : nohost k -> newt (ctoks k) -> newk s k.
Proof. intros Hn Ht. split; auto. intros o Ek. rewrite (nohost_kbot _ Hn) in Ek. discriminate. Qed.

(* ---- states related by a change the invariant does not see ---- *)
Record jrel (s s' : state) : Prop := {
  jr_head : forall x, In x (heads s') -> In x (heads s);
  jr_tail : forall x, In x (tails s') -> In x (tails s);
  jr_query : forall o q', cell_of s' o = Some (CQuery q') ->
               exists q, cell_of s o = Some (CQuery q) /\ q_cb q' = q_cb q /\ q_cancelled q' = q_cancelled q;
  jr_host : forall o h', cell_of s' o = Some (CHost h') ->
               (exists h, cell_of s o = Some (CHost h) /\ h_cb h' = h_cb h) \/ newt (ctoks (h_cb h'));
  jr_scr : incl (futr s') (futr s);
  jr_tr : exists add, st_trace s' = add ++ st_trace s /\ oktr add
}.

Lemma hnew_rel s s' o : jrel s s' -> hnew s o -> hnew s' o.
Proof.
  intros R H h' Hc. destruct (jr_host _ _ R o h' Hc) as [[h [Hc0 E]]|Hn]; [rewrite E; exact (H h Hc0)|exact Hn].
Qed.

Lemma newk_rel s s' k : jrel s s' -> newk s k -> newk s' k.
Proof. intros R [H1 H2]. split; auto. intros o Ek. apply (hnew_rel s s'); auto. Qed.

Lemma okr_rel s s' k r : jrel s s' -> okr s k r -> okr s' k r.
Proof. intros R [H|H]; [left; eapply newk_rel; eauto|right; exact H]. Qed.

Lemma J_rel s s' : J s -> jrel s s' -> J s'.
Proof.
  intros [H1 H2 H3 H4] R. constructor.
  - intros qo q' Hh Hc. destruct (jr_query _ _ R _ _ Hc) as [q [Hc0 [E1 E2]]].
    destruct (H1 qo q (jr_head _ _ R _ Hh) Hc0) as [A B]. rewrite E1, E2. split; auto. eapply newk_rel; eauto.
  - intros qo q' Hh Hc. destruct (jr_query _ _ R _ _ Hc) as [q [Hc0 [E1 E2]]].
    rewrite E2. exact (H2 qo q (jr_tail _ _ R _ Hh) Hc0).
  - eapply newt_incl; [exact (jr_scr _ _ R)|exact H3].
  - destruct H4 as [nw [E Ho]]. destruct (jr_tr _ _ R) as [add [E' Ho']].
    exists (add ++ nw). rewrite E', E, app_assoc. split; [reflexivity|].
    intros e He. apply in_app_or in He. destruct He; auto.
Qed.

Lemma jrel_refl s : jrel s s.
Proof.
  constructor; auto.
  - intros o q Hc. exists q. auto.
  - intros o h Hc. left. exists h. auto.
  - apply incl_refl.
  - exists []. split; [reflexivity|]. intros e [].
Qed.

Lemma jrel_trans s1 s2 s3 : jrel s1 s2 -> jrel s2 s3 -> jrel s1 s3.
Proof.
  intros A B. constructor.
  - intros x Hx. apply (jr_head _ _ A). apply (jr_head _ _ B). exact Hx.
  - intros x Hx. apply (jr_tail _ _ A). apply (jr_tail _ _ B). exact Hx.
  - intros o q3 Hc. destruct (jr_query _ _ B _ _ Hc) as [q2 [Hc2 [E1 E2]]].
    destruct (jr_query _ _ A _ _ Hc2) as [q1 [Hc1 [E3 E4]]]. exists q1. split; auto. split; congruence.
  - intros o h3 Hc. destruct (jr_host _ _ B _ _ Hc) as [[h2 [Hc2 E]]|Hn]; [|right; exact Hn].
    destruct (jr_host _ _ A _ _ Hc2) as [[h1 [Hc1 E']]|Hn]; [left; exists h1; split; auto; congruence|right; rewrite E; exact Hn].
  - eapply incl_tran; [exact (jr_scr _ _ B)|exact (jr_scr _ _ A)].
  - destruct (jr_tr _ _ A) as [a1 [E1 O1]]. destruct (jr_tr _ _ B) as [a2 [E2 O2]].
    exists (a2 ++ a1). rewrite E2, E1, app_assoc. split; [reflexivity|].
    intros e He. apply in_app_or in He. destruct He; auto.
Qed.

(* same lists and scripts, cells related one by one *)
Lemma jrel_cells s s' :
  st_lists s' = st_lists s -> st_scripts s' = st_scripts s -> st_trace s' = st_trace s ->
  (forall o q', cell_of s' o = Some (CQuery q') ->
     exists q, cell_of s o = Some (CQuery q) /\ q_cb q' = q_cb q /\ q_cancelled q' = q_cancelled q) ->
  (forall o h', cell_of s' o = Some (CHost h') ->
     (exists h, cell_of s o = Some (CHost h) /\ h_cb h' = h_cb h) \/ newt (ctoks (h_cb h'))) ->
  jrel s s'.
Proof.
  intros El Es Et Hq Hh. constructor; auto.
  - unfold heads. rewrite El. auto.
  - unfold tails. rewrite El. auto.
  - unfold futr. rewrite Es. apply incl_refl.
  - exists []. split; [exact Et|]. intros e [].
Qed.

Lemma jrel_same s s' :
  st_lists s' = st_lists s -> st_scripts s' = st_scripts s -> st_trace s' = st_trace s ->
  (forall o, cell_of s' o = cell_of s o) -> jrel s s'.
Proof.
  intros El Es Et Hc. apply jrel_cells; auto.
  - intros o q' H. rewrite Hc in H. exists q'. auto.
  - intros o h' H. rewrite Hc in H. left. exists h'. auto.
Qed.

Lemma jrel_core s s' : core_eq s s' -> st_scripts s' = st_scripts s -> st_trace s' = st_trace s -> jrel s s'.
Proof.
  intros E Es Et. apply jrel_same; auto.
  - destruct E as [_ [_ [_ [E _]]]]. exact E.
  - intros o. apply (ce_cell _ _ _ E).
Qed.

Lemma jrel_sim s s' :
  st_lists s' = st_lists s -> st_scripts s' = st_scripts s -> st_trace s' = st_trace s ->
  (forall o, cell_sim (cell_of s o) (cell_of s' o)) -> jrel s s'.
Proof.
  intros El Es Et Hs. apply jrel_cells; auto.
  - intros o q' Hc. specialize (Hs o). rewrite Hc in Hs. unfold cell_sim in Hs.
    destruct (cell_of s o) as [[q|c|h|]|]; try contradiction. exists q. destruct Hs. auto.
  - intros o h' Hc. specialize (Hs o). rewrite Hc in Hs. unfold cell_sim in Hs.
    destruct (cell_of s o) as [[q|c|h|]|]; try contradiction. subst. left. exists h. auto.
Qed.

Lemma jrel_emit s e : okev e -> jrel s (set_trace (e :: st_trace s) s).
Proof.
  intros He. constructor; auto.
  - intros o q Hc. exists q. auto.
  - intros o h Hc. left. exists h. auto.
  - apply incl_refl.
  - exists [e]. split; [reflexivity|]. intros x [<-|[]]. exact He.
Qed.

Lemma jrel_alloc s c :
  match c with CQuery _ => False | CHost h => newt (ctoks (h_cb h)) | _ => True end -> jrel s (alloc_st c s).
Proof.
  intros Hc. apply jrel_cells; auto.
  - intros o q' H. rewrite cell_alloc in H. destruct (Nat.eqb o (st_next s)).
    + inversion H; subst. contradiction.
    + exists q'. auto.
  - intros o h' H. rewrite cell_alloc in H. destruct (Nat.eqb o (st_next s)).
    + inversion H; subst. right. exact Hc.
    + left. exists h'. auto.
Qed.

Lemma jrel_free s o : jrel s (free_st o s).
Proof.
  apply jrel_cells; auto.
  - intros o' q' H. rewrite cell_free in H. destruct (Nat.eqb o' o); [discriminate|]. exists q'. auto.
  - intros o' h' H. rewrite cell_free in H. destruct (Nat.eqb o' o); [discriminate|]. left. exists h'. auto.
Qed.

Lemma jrel_store_query s o q q' :
  cell_of s o = Some (CQuery q) -> q_cb q' = q_cb q -> q_cancelled q' = q_cancelled q -> jrel s (store_st o (CQuery q') s).
Proof.
  intros Hq E1 E2. apply jrel_cells; auto.
  - intros o' q1 H. rewrite cell_store in H. destruct (Nat.eqb o' o) eqn:E.
    + apply Nat.eqb_eq in E. subst. inversion H; subst. exists q. auto.
    + exists q1. auto.
  - intros o' h' H. rewrite cell_store in H. destruct (Nat.eqb o' o); [discriminate|]. left. exists h'. auto.
Qed.

Lemma jrel_store_host s o h h' :
  cell_of s o = Some (CHost h) -> h_cb h' = h_cb h -> jrel s (store_st o (CHost h') s).
Proof.
  intros Hc E1. apply jrel_cells; auto.
  - intros o' q1 H. rewrite cell_store in H. destruct (Nat.eqb o' o); [discriminate|]. exists q1. auto.
  - intros o' h1 H. rewrite cell_store in H. destruct (Nat.eqb o' o) eqn:E.
    + apply Nat.eqb_eq in E. subst. inversion H; subst. left. exists h. auto.
    + left. exists h1. auto.
Qed.

Lemma jrel_store_conn s o c : jrel s (store_st o (CConn c) s).
Proof.
  apply jrel_cells; auto.
  - intros o' q1 H. rewrite cell_store in H. destruct (Nat.eqb o' o); [discriminate|]. exists q1. auto.
  - intros o' h1 H. rewrite cell_store in H. destruct (Nat.eqb o' o); [discriminate|]. left. exists h1. auto.
Qed.

Lemma jrel_take_script t s sc s' : take_script t s = Ok (sc, s') -> NoDup (map fst (st_scripts s)) -> jrel s s' /\ incl (calls_toks sc) (futr s).
Proof.
  unfold take_script. destruct (lookup t (st_scripts s)) as [l|] eqn:E; intros H Hk; inversion H; subst.
  - assert (P : Permutation (futr s) (calls_toks sc ++ futr (set_scripts (remove_key t (st_scripts s)) s))).
    { unfold futr at 2. simpl. apply futr_remove_key; auto. }
    split.
    + constructor; auto.
      * intros o q H1. exists q. auto.
      * intros o h H1. left. exists h. auto.
      * intros x Hx. eapply Permutation_in; [symmetry; exact P|]. apply in_or_app. right. exact Hx.
      * exists []. split; [reflexivity|]. intros e [].
    + intros x Hx. eapply Permutation_in; [symmetry; exact P|]. apply in_or_app. left. exact Hx.
  - split; [apply jrel_refl|]. intros x [].
Qed.

(* ares_detach_query *)
Lemma jrel_detach s s' qo q :
  cell_of s qo = Some (CQuery q) ->
  st_lists s' = map (remove_nat qo) (st_lists s) -> st_scripts s' = st_scripts s -> st_trace s' = st_trace s ->
  (forall o, cell_of s' o = if Nat.eqb o qo then Some (CQuery (set_q_conn None q)) else option_map (strip qo) (cell_of s o)) ->
  jrel s s'.
Proof.
  intros Hq El Es Et Hc.
  assert (Hs : forall o, cell_sim (cell_of s o) (cell_of s' o)).
  { apply (strip_sim s s' qo q (set_q_conn None q)); auto. }
  constructor.
  - unfold heads. rewrite El. intros x Hx. destruct (st_lists s); simpl in *; auto. apply in_remove_nat in Hx. tauto.
  - unfold tails. rewrite El. intros x Hx. destruct (st_lists s) as [|a r]; simpl in *; auto.
    apply in_concat_map_remove in Hx. tauto.
  - intros o q' H. specialize (Hs o). rewrite H in Hs. unfold cell_sim in Hs.
    destruct (cell_of s o) as [[q0|c|h|]|]; try contradiction. exists q0. destruct Hs. auto.
  - intros o h' H. specialize (Hs o). rewrite H in Hs. unfold cell_sim in Hs.
    destruct (cell_of s o) as [[q0|c|h|]|]; try contradiction. subst. left. exists h. auto.
  - unfold futr. rewrite Es. apply incl_refl.
  - exists []. split; [exact Et|]. intros e [].
Qed.

(* a new query is linked into the live list *)
Lemma J_new_query s k qid q0 :
  Inv s -> J s -> newk s k -> q_cb q0 = k -> q_cancelled q0 = false ->
  J (set_byqid ((qid, st_next s) :: st_byqid s) (set_lists (link_lists (st_next s) (st_lists s)) (alloc_st (CQuery q0) s))).
Proof.
  intros I [H1 H2 H3 H4] Hk Ecb Ecn.
  set (s' := set_byqid _ _).
  assert (Hfresh : cell_of s (st_next s) = None) by (eapply fresh_dead; eauto).
  assert (Hcell : forall o, cell_of s' o = if Nat.eqb o (st_next s) then Some (CQuery q0) else cell_of s o).
  { intros o. unfold s'. apply cell_alloc. }
  assert (Hh : forall o, hnew s o -> hnew s' o).
  { intros o H h Hc. rewrite Hcell in Hc. destruct (Nat.eqb o (st_next s)); [discriminate|]. exact (H h Hc). }
  assert (Hnk : forall k0, newk s k0 -> newk s' k0).
  { intros k0 [A B]. split; auto. }
  constructor.
  - intros qo q Hh0 Hc. rewrite Hcell in Hc. destruct (Nat.eqb qo (st_next s)) eqn:E.
    + inversion Hc; subst q. rewrite Ecb, Ecn. split; auto.
    + assert (Hin : In qo (heads s)).
      { unfold heads, s' in Hh0. simpl in Hh0. unfold heads. destruct (st_lists s) as [|a r]; simpl in *.
        - destruct Hh0 as [<-|[]]. rewrite Nat.eqb_refl in E. discriminate.
        - apply in_app_or in Hh0. destruct Hh0 as [Hx|[<-|[]]]; auto. rewrite Nat.eqb_refl in E. discriminate. }
      destruct (H1 qo q Hin Hc) as [A B]. split; auto.
  - intros qo q Ht Hc.
    assert (Hin : In qo (tails s)).
    { unfold tails, s' in Ht. simpl in Ht. unfold tails. destruct (st_lists s) as [|a r]; simpl in *; auto. }
    rewrite Hcell in Hc. destruct (Nat.eqb qo (st_next s)) eqn:E.
    + apply Nat.eqb_eq in E. subst qo.
      assert (Hl : In (st_next s) (linked s)) by (rewrite linked_split; apply in_or_app; auto).
      destruct (inv_query _ _ I _ Hl) as [q1 Hq1]. congruence.
    + exact (H2 qo q Hin Hc).
  - exact H3.
  - exact H4.
Qed.

(* ares_cancel: the live list becomes one more taken list, then its queries are marked *)
Lemma mark_cancelled_J l : forall s, Inv s -> heads s = [] -> (forall qo, In qo l -> In qo (tails s)) ->
  (forall qo q, In qo (tails s) -> ~ In qo l -> cell_of s qo = Some (CQuery q) -> q_cancelled q = true) ->
  newt (futr s) -> (exists nw, st_trace s = nw ++ T0 /\ oktr nw) ->
  safe (mark_cancelled l) s (fun _ s' => J s').
Proof.
  induction l as [|qo r IHr]; intros s I Hh Hl Hm Hs Htr; simpl.
  - apply safe_ret. constructor; auto.
    + rewrite Hh. intros qo q [].
    + intros qo q Ht Hc. apply (Hm qo q); auto.
  - assert (Hq0 : In qo (linked s)) by (rewrite linked_split; apply in_or_app; right; apply Hl; left; auto).
    destruct (inv_query _ _ I _ Hq0) as [q Hq].
    apply safe_bind. apply safe_bind. eapply safe_get_query; [exact (inv_heap _ _ I)|exact Hq|].
    eapply safe_store; [exact (inv_heap _ _ I)|exact Hq|].
    destruct (store_query_misc_ok None s qo q (set_q_cancelled true q) I Hq eq_refl eq_refl eq_refl) as [I1 _].
    apply (IHr _ I1); auto.
    + intros y Hy. apply Hl. right. exact Hy.
    + intros y q1 Ht Hn Hc. rewrite cell_store in Hc. destruct (Nat.eqb y qo) eqn:E.
      * inversion Hc; subst. reflexivity.
      * apply (Hm y q1); auto. intros [->|Hy]; [rewrite Nat.eqb_refl in E; discriminate|contradiction].
Qed.

End CancelInv.
