(* Range of the base timeout computed by ares_metrics_server_timeout (C06). *)
From CAres.Base Require Import CInt.
From CAres.Gen Require Import Consts LeafFns.
From CAres.Core Require Import Time Time_proofs Metrics.
Local Open Scope Z_scope.

Ltac Zify.zify_post_hook ::= Z.div_mod_to_equations.

(* the generated per-bucket timestamp never hits UB for clock values in range *)
Lemma metric_timestamp_ok i p now_sec :
  - 2 ^ 62 <= now_sec < 2 ^ 62 -> exists ts, c_ares_metric_timestamp i p now_sec = Ok ts.
Proof.
  intros Hs. pows. unfold c_ares_metric_timestamp, guard.
  unfold ARES_METRIC_1MINUTE, ARES_METRIC_15MINUTES, ARES_METRIC_1HOUR, ARES_METRIC_1DAY,
    ARES_METRIC_INCEPTION, ARES_METRIC_COUNT. cbv zeta.
  repeat (case_if; b2p; try solve [eexists; reflexivity]; try solve [exfalso; solve_guard]).
Qed.

Definition max_timeout_of (maxtimeout : Z) : Z :=
  if negb (maxtimeout =? 0) then maxtimeout else MAX_TIMEOUT_MS.

Lemma server_timeout_loop_ok bs : forall i now_sec,
  - 2 ^ 62 <= now_sec < 2 ^ 62 ->
  Forall (fun b => 0 <= b_total_count b /\ 0 <= b_prev_total_count b) bs ->
  exists t, server_timeout_loop i now_sec bs = Ok t.
Proof.
  induction bs as [|b r IH]; intros i now_sec Hs Hb; cbn [server_timeout_loop].
  - eexists; reflexivity.
  - inversion Hb as [|? ? [Hc Hp] Hr]; subst.
    destruct (metric_timestamp_ok i ARES_FALSE now_sec Hs) as [ts ->]. cbn [bind].
    unfold guard, MIN_COUNT_FOR_AVERAGE.
    case_if.
    + destruct (metric_timestamp_ok i ARES_TRUE now_sec Hs) as [pts ->]. cbn [bind].
      case_if.
      * apply IH; assumption.
      * b2p. case_if; [eexists; reflexivity|]. b2p. lia.
    + b2p. case_if; [eexists; reflexivity|]. b2p. lia.
Qed.

(* The base timeout is always within [min(MIN_TIMEOUT_MS, M), M] where M is the configured
   maximum, or MAX_TIMEOUT_MS when none is set - whatever the recorded history is. *)
Theorem server_timeout_range timeout maxtimeout now ms :
  tv_ok now ->
  Forall (fun b => 0 <= b_total_count b /\ 0 <= b_prev_total_count b) ms ->
  exists base, metrics_server_timeout timeout maxtimeout now ms = Ok base /\
    Z.min MIN_TIMEOUT_MS (max_timeout_of maxtimeout) <= base <= max_timeout_of maxtimeout.
Proof.
  intros [_ Hs] Hb. unfold SEC_LIMIT in Hs.
  destruct (server_timeout_loop_ok ms 0 (tv_sec now) Hs Hb) as [t0 E].
  unfold metrics_server_timeout. rewrite E. cbn [bind]. eexists. split; [reflexivity|].
  unfold max_timeout_of, MIN_TIMEOUT_MS, MAX_TIMEOUT_MS.
  repeat (case_if; b2p); lia.
Qed.

(* with a legal configuration (0 = unset or 1..INT_MAX) the base is a positive 32-bit value *)
Corollary server_timeout_legal timeout maxtimeout now ms :
  tv_ok now ->
  Forall (fun b => 0 <= b_total_count b /\ 0 <= b_prev_total_count b) ms ->
  0 <= maxtimeout < 2 ^ 31 ->
  exists base, metrics_server_timeout timeout maxtimeout now ms = Ok base /\
    1 <= base < 2 ^ 31 /\ (maxtimeout <> 0 -> base <= maxtimeout).
Proof.
  intros Hn Hb Hm. destruct (server_timeout_range timeout maxtimeout now ms Hn Hb) as (base & E & Hr).
  exists base. split; [exact E|]. pows. unfold max_timeout_of, MIN_TIMEOUT_MS, MAX_TIMEOUT_MS in Hr.
  destruct (maxtimeout =? 0) eqn:Ez; cbn [negb] in Hr; b2p; lia.
Qed.

(* recording keeps the counters non-negative (needed as the invariant above) *)
Lemma record_bucket_nonneg i now_sec q b b' :
  0 <= b_total_count b /\ 0 <= b_prev_total_count b ->
  record_bucket i now_sec q b = Ok b' ->
  0 <= b_total_count b' /\ 0 <= b_prev_total_count b'.
Proof.
  intros [Hc Hp] H. unfold record_bucket in H.
  destruct (c_ares_metric_timestamp i ARES_FALSE now_sec) as [ts| |]; cbn [bind] in H; try discriminate.
  injection H as <-. cbn [b_total_count b_prev_total_count].
  split; [apply Z.mod_pos_bound; reflexivity|].
  repeat (case_if; cbn [b_total_count b_prev_total_count b_ts b_latency_min_ms b_latency_max_ms b_total_ms b_prev_ts b_prev_total_ms]); lia.
Qed.
