(* C09 - proofs about the server-selection model (Core/Servers.v). *)
From CAres.Base Require Import Outcome CInt.
From CAres.Gen Require Import Consts LeafFns.
From CAres.Core Require Import Servers.
From Coq Require Import Lia Sorting.Sorted Sorting.Permutation.
Local Open Scope Z_scope.

(* ------------------------------------------------------------------------------------ *)
(* The generated comparator                                                              *)
(* ------------------------------------------------------------------------------------ *)

(* exact meaning of the generated text of server_sort_cb *)
Lemma server_sort_cb_spec f1 f2 i1 i2 :
  c_server_sort_cb f1 f2 i1 i2 =
  Ok (if f1 <? f2 then -1 else if f1 >? f2 then 1 else if i1 <? i2 then -1 else if i1 >? i2 then 1 else 0).
Proof.
  unfold c_server_sort_cb.
  destruct (f1 <? f2); [reflexivity|].
  destruct (f1 >? f2); [reflexivity|].
  destruct (i1 <? i2); [reflexivity|].
  destruct (i1 >? i2); reflexivity.
Qed.

Lemma srv_lt_spec a b :
  srv_lt a b = true <-> (sv_fail a < sv_fail b \/ (sv_fail a = sv_fail b /\ sv_idx a < sv_idx b)).
Proof.
  unfold srv_lt, srv_cmp. rewrite server_sort_cb_spec.
  destruct (Z.ltb_spec (sv_fail a) (sv_fail b)) as [H1|H1].
  { split; [intros _; left; exact H1|reflexivity]. }
  destruct (Z.gtb_spec (sv_fail a) (sv_fail b)) as [H2|H2].
  { split; [discriminate|intros [H|[H _]]; lia]. }
  destruct (Z.ltb_spec (sv_idx a) (sv_idx b)) as [H3|H3].
  { split; [intros _; right; split; lia|reflexivity]. }
  destruct (Z.gtb_spec (sv_idx a) (sv_idx b)) as [H4|H4];
    (split; [discriminate|intros [H|[_ H]]; lia]).
Qed.

Lemma srv_lt_false a b :
  srv_lt a b = false <-> (sv_fail b < sv_fail a \/ (sv_fail a = sv_fail b /\ sv_idx b <= sv_idx a)).
Proof.
  destruct (srv_lt a b) eqn:H.
  - apply srv_lt_spec in H. split; [discriminate|]. lia.
  - split; [|reflexivity]. intros _.
    assert (~ (sv_fail a < sv_fail b \/ (sv_fail a = sv_fail b /\ sv_idx a < sv_idx b))) as Hn.
    { intros Hc. apply srv_lt_spec in Hc. congruence. }
    lia.
Qed.

(* the comparator never fails and is a three-way comparison *)
Lemma srv_cmp_total a b : exists z, srv_cmp a b = Ok z /\ (z = -1 \/ z = 0 \/ z = 1).
Proof.
  unfold srv_cmp. rewrite server_sort_cb_spec. eexists. split; [reflexivity|].
  destruct (sv_fail a <? sv_fail b); [lia|].
  destruct (sv_fail a >? sv_fail b); [lia|].
  destruct (sv_idx a <? sv_idx b); [lia|].
  destruct (sv_idx a >? sv_idx b); lia.
Qed.

(* strict total order on servers with distinct configuration indexes *)
Lemma srv_lt_irrefl a : srv_lt a a = false.
Proof. apply srv_lt_false. right. lia. Qed.

Lemma srv_lt_trans a b c : srv_lt a b = true -> srv_lt b c = true -> srv_lt a c = true.
Proof. rewrite !srv_lt_spec. lia. Qed.

Lemma srv_lt_asym a b : srv_lt a b = true -> srv_lt b a = false.
Proof. rewrite srv_lt_spec, srv_lt_false. lia. Qed.

Lemma srv_lt_connected a b : sv_idx a <> sv_idx b -> srv_lt a b = true \/ srv_lt b a = true.
Proof. rewrite !srv_lt_spec. lia. Qed.

Lemma srv_cmp_zero_iff a b :
  srv_cmp a b = Ok 0 <-> (sv_fail a = sv_fail b /\ sv_idx a = sv_idx b).
Proof.
  unfold srv_cmp. rewrite server_sort_cb_spec.
  destruct (Z.ltb_spec (sv_fail a) (sv_fail b)); [split; [discriminate|lia]|].
  destruct (Z.gtb_spec (sv_fail a) (sv_fail b)); [split; [discriminate|lia]|].
  destruct (Z.ltb_spec (sv_idx a) (sv_idx b)); [split; [discriminate|lia]|].
  destruct (Z.gtb_spec (sv_idx a) (sv_idx b)); [split; [discriminate|lia]|].
  split; [intros _; lia|reflexivity].
Qed.

Lemma srv_cmp_antisym a b : srv_cmp a b = Ok (-1) <-> srv_cmp b a = Ok 1.
Proof.
  unfold srv_cmp. rewrite !server_sort_cb_spec.
  destruct (Z.ltb_spec (sv_fail a) (sv_fail b)); destruct (Z.gtb_spec (sv_fail b) (sv_fail a));
    destruct (Z.ltb_spec (sv_fail b) (sv_fail a)); destruct (Z.gtb_spec (sv_fail a) (sv_fail b)); try lia;
    try (split; congruence); try (split; discriminate).
  destruct (Z.ltb_spec (sv_idx a) (sv_idx b)); destruct (Z.gtb_spec (sv_idx b) (sv_idx a));
    destruct (Z.ltb_spec (sv_idx b) (sv_idx a)); destruct (Z.gtb_spec (sv_idx a) (sv_idx b)); try lia;
    try (split; congruence); try (split; discriminate).
Qed.

(* ------------------------------------------------------------------------------------ *)
(* The sorted server list                                                                *)
(* ------------------------------------------------------------------------------------ *)
Definition ltP (a b : server) : Prop := srv_lt a b = true.
Definition in_range (s : server) : Prop := 0 <= sv_fail s <= SIZE_MAX.

(* well-formed server table: distinct addresses, distinct configuration indexes, sorted by
   the generated comparator, failure counters within size_t *)
Record wf (l : list server) : Prop := {
  wf_addr : NoDup (map sv_addr l);
  wf_idx : NoDup (map sv_idx l);
  wf_sorted : StronglySorted ltP l;
  wf_range : Forall in_range l
}.

Lemma insert_sorted_perm s l : Permutation (insert_sorted s l) (s :: l).
Proof.
  induction l as [|x r IH]; [apply Permutation_refl|].
  cbn [insert_sorted]. destruct (srv_lt x s); [|apply Permutation_refl].
  eapply Permutation_trans; [apply perm_skip; exact IH|apply perm_swap].
Qed.

Lemma insert_sorted_in s l x : In x (insert_sorted s l) <-> x = s \/ In x l.
Proof.
  split; intros H.
  - apply (Permutation_in _ (insert_sorted_perm s l)) in H. destruct H as [H|H]; [left; congruence|right; exact H].
  - apply (Permutation_in _ (Permutation_sym (insert_sorted_perm s l))). destruct H as [H|H]; [left; congruence|right; exact H].
Qed.

Lemma insert_sorted_sorted s l :
  StronglySorted ltP l -> (forall x, In x l -> sv_idx x <> sv_idx s) ->
  StronglySorted ltP (insert_sorted s l).
Proof.
  induction l as [|x r IH]; intros Hs Hidx.
  - cbn. constructor; constructor.
  - cbn [insert_sorted]. inversion Hs as [|? ? Hsr Hall]; subst.
    destruct (srv_lt x s) eqn:Hlt.
    + constructor.
      * apply IH; [exact Hsr|]. intros y Hy. apply Hidx. right. exact Hy.
      * rewrite Forall_forall in Hall |- *. intros y Hy. apply insert_sorted_in in Hy.
        destruct Hy as [->|Hy]; [exact Hlt|apply Hall; exact Hy].
    + assert (srv_lt s x = true) as Hsx.
      { destruct (srv_lt_connected s x) as [H|H]; [intros He; apply (Hidx x); [left; reflexivity|congruence]|exact H|congruence]. }
      constructor; [exact Hs|]. constructor; [exact Hsx|].
      rewrite Forall_forall in Hall |- *. intros y Hy. eapply srv_lt_trans; [exact Hsx|apply Hall; exact Hy].
Qed.

(* non-strict order: what the list satisfies while equal keys are around *)
Definition leP (a b : server) : Prop := srv_lt b a = false.

Lemma leP_trans a b c : leP a b -> leP b c -> leP a c.
Proof. unfold leP. rewrite !srv_lt_false. lia. Qed.

Lemma insert_sorted_le s l : StronglySorted leP l -> StronglySorted leP (insert_sorted s l).
Proof.
  induction l as [|x r IH]; intros Hs.
  - cbn. constructor; constructor.
  - cbn [insert_sorted]. inversion Hs as [|? ? Hsr Hall]; subst.
    destruct (srv_lt x s) eqn:Hlt.
    + constructor; [apply IH; exact Hsr|].
      rewrite Forall_forall in Hall |- *. intros y Hy. apply insert_sorted_in in Hy.
      destruct Hy as [->|Hy]; [unfold leP; apply srv_lt_asym; exact Hlt|apply Hall; exact Hy].
    + constructor; [exact Hs|]. constructor; [exact Hlt|].
      rewrite Forall_forall in Hall |- *. intros y Hy. eapply leP_trans; [exact Hlt|apply Hall; exact Hy].
Qed.

Lemma find_addr_some a l s : find_addr a l = Some s -> In s l /\ sv_addr s = a.
Proof.
  induction l as [|x r IH]; [discriminate|]. cbn [find_addr].
  destruct (Z.eqb_spec (sv_addr x) a) as [He|Hne].
  - intros H. injection H as <-. split; [left; reflexivity|exact He].
  - intros H. apply IH in H. destruct H as (Hi & Ha). split; [right; exact Hi|exact Ha].
Qed.

Lemma find_addr_none a l : find_addr a l = None <-> ~ In a (map sv_addr l).
Proof.
  induction l as [|x r IH]; [cbn; tauto|]. cbn [find_addr map In].
  destruct (Z.eqb_spec (sv_addr x) a) as [He|Hne].
  - split; [discriminate|]. intros H. exfalso. apply H. left. exact He.
  - rewrite IH. tauto.
Qed.

Lemma find_addr_in_nodup l s :
  NoDup (map sv_addr l) -> In s l -> find_addr (sv_addr s) l = Some s.
Proof.
  induction l as [|x r IH]; intros Hnd Hin; [destruct Hin|].
  cbn [find_addr]. cbn [map] in Hnd. inversion Hnd as [|? ? Hnot Hnd']; subst.
  destruct Hin as [->|Hin].
  - rewrite Z.eqb_refl. reflexivity.
  - destruct (Z.eqb_spec (sv_addr x) (sv_addr s)) as [He|Hne].
    + exfalso. apply Hnot. rewrite He. apply in_map. exact Hin.
    + apply IH; assumption.
Qed.

Lemma remove_addr_perm a l s : find_addr a l = Some s -> Permutation l (s :: remove_addr a l).
Proof.
  induction l as [|x r IH]; [discriminate|]. cbn [find_addr remove_addr].
  destruct (sv_addr x =? a).
  - intros H. injection H as <-. apply Permutation_refl.
  - intros H. eapply Permutation_trans; [apply perm_skip; apply IH; exact H|apply perm_swap].
Qed.

Lemma remove_addr_sorted a l : StronglySorted ltP l -> StronglySorted ltP (remove_addr a l).
Proof.
  induction l as [|x r IH]; intros Hs; [exact Hs|]. cbn [remove_addr].
  inversion Hs as [|? ? Hsr Hall]; subst.
  destruct (sv_addr x =? a); [exact Hsr|].
  constructor; [apply IH; exact Hsr|].
  rewrite Forall_forall in Hall |- *. intros y Hy. apply Hall.
  clear - Hy. induction r as [|z r IH]; [destruct Hy|]. cbn [remove_addr] in Hy.
  destruct (sv_addr z =? a); [right; exact Hy|]. destruct Hy as [->|Hy]; [left; reflexivity|right; apply IH; exact Hy].
Qed.

(* changing the failure counter of one server and re-inserting it keeps the table well formed
   and only moves that server *)
Lemma reinsert_wf l a s s' :
  wf l -> find_addr a l = Some s ->
  sv_addr s' = a -> sv_idx s' = sv_idx s -> in_range s' ->
  wf (reinsert s' l) /\ Permutation (reinsert s' l) (s' :: remove_addr a l).
Proof.
  intros [Ha Hi Hs Hr] Hf Haddr Hidx Hrange.
  pose proof (remove_addr_perm a l s Hf) as Hp.
  pose proof (find_addr_some a l s Hf) as (Hin & Hsa).
  unfold reinsert. rewrite Haddr.
  pose proof (insert_sorted_perm s' (remove_addr a l)) as Hp2.
  split; [|exact Hp2].
  assert (NoDup (map sv_addr (s :: remove_addr a l))) as Ha2
    by (eapply Permutation_NoDup; [apply Permutation_map; exact Hp|exact Ha]).
  assert (NoDup (map sv_idx (s :: remove_addr a l))) as Hi2
    by (eapply Permutation_NoDup; [apply Permutation_map; exact Hp|exact Hi]).
  constructor.
  - eapply Permutation_NoDup; [apply Permutation_sym; apply Permutation_map; exact Hp2|].
    cbn [map] in Ha2 |- *. rewrite Haddr. rewrite Hsa in Ha2. exact Ha2.
  - eapply Permutation_NoDup; [apply Permutation_sym; apply Permutation_map; exact Hp2|].
    cbn [map] in Hi2 |- *. rewrite Hidx. exact Hi2.
  - apply insert_sorted_sorted; [apply remove_addr_sorted; exact Hs|].
    intros x Hx Heq. cbn [map] in Hi2. inversion Hi2 as [|? ? Hnot _]; subst.
    apply Hnot. rewrite <- Hidx, <- Heq. apply in_map. exact Hx.
  - eapply Permutation_Forall; [apply Permutation_sym; exact Hp2|].
    constructor; [exact Hrange|].
    assert (Forall in_range (s :: remove_addr a l)) as Hr2 by (eapply Permutation_Forall; [exact Hp|exact Hr]).
    inversion Hr2; assumption.
Qed.

(* projection on which order and selection depend *)
Definition key (s : server) : Z * Z * Z := (sv_addr s, sv_idx s, sv_fail s).

Lemma sorted_key l : forall l', map key l = map key l' -> StronglySorted ltP l -> StronglySorted ltP l'.
Proof.
  induction l as [|x r IH]; intros l' Hk Hs.
  - destruct l'; [constructor|discriminate].
  - destruct l' as [|x' r']; [discriminate|]. cbn [map] in Hk.
    assert (key x = key x' /\ map key r = map key r') as [Hx Hr] by (split; congruence). clear Hk.
    inversion Hs as [|? ? Hsr Hall]; subst. constructor; [apply (IH r' Hr Hsr)|].
    clear IH Hs Hsr. revert r' Hr. induction r as [|y r IHr]; intros r' Hr.
    + destruct r'; [constructor|discriminate].
    + destruct r' as [|y' r']; [discriminate|]. cbn [map] in Hr.
      assert (key y = key y' /\ map key r = map key r') as [Hy Hr'] by (split; congruence). clear Hr.
      inversion Hall as [|? ? Hxy Hall']; subst. constructor; [|apply IHr; assumption].
      unfold ltP in *. apply srv_lt_spec in Hxy. apply srv_lt_spec.
      unfold key in Hx, Hy. injection Hx as _ Hxi Hxf. injection Hy as _ Hyi Hyf. lia.
Qed.

Lemma wf_key l l' : map key l = map key l' -> wf l -> wf l'.
Proof.
  intros Hk [Ha Hi Hs Hr].
  assert (map sv_addr l = map sv_addr l') as Ea.
  { replace (map sv_addr l) with (map (fun k => fst (fst k)) (map key l)) by (rewrite map_map; reflexivity).
    rewrite Hk, map_map. reflexivity. }
  assert (map sv_idx l = map sv_idx l') as Ei.
  { replace (map sv_idx l) with (map (fun k => snd (fst k)) (map key l)) by (rewrite map_map; reflexivity).
    rewrite Hk, map_map. reflexivity. }
  assert (map sv_fail l = map sv_fail l') as Ef.
  { replace (map sv_fail l) with (map (fun k => snd k) (map key l)) by (rewrite map_map; reflexivity).
    rewrite Hk, map_map. reflexivity. }
  constructor.
  - rewrite <- Ea. exact Ha.
  - rewrite <- Ei. exact Hi.
  - eapply sorted_key; eassumption.
  - unfold in_range in *. rewrite Forall_forall in Hr |- *. intros x Hx.
    assert (In (sv_fail x) (map sv_fail l)) as Hin by (rewrite Ef; apply in_map; exact Hx).
    apply in_map_iff in Hin. destruct Hin as (y & Hy & Hyin). rewrite <- Hy. apply Hr. exact Hyin.
Qed.

Lemma replace_addr_key s' l s :
  find_addr (sv_addr s') l = Some s -> key s' = key s -> map key (replace_addr s' l) = map key l.
Proof.
  induction l as [|x r IH]; [discriminate|]. cbn [find_addr replace_addr].
  destruct (sv_addr x =? sv_addr s').
  - intros H Hk. injection H as <-. cbn [map]. rewrite Hk. reflexivity.
  - intros H Hk. cbn [map]. rewrite (IH H Hk). reflexivity.
Qed.

Lemma replace_addr_none s' l : find_addr (sv_addr s') l = None -> replace_addr s' l = l.
Proof.
  induction l as [|x r IH]; [reflexivity|]. cbn [find_addr replace_addr].
  destruct (sv_addr x =? sv_addr s'); [discriminate|]. intros H. rewrite (IH H). reflexivity.
Qed.

(* ------------------------------------------------------------------------------------ *)
(* The server chosen for a fresh attempt                                                 *)
(* ------------------------------------------------------------------------------------ *)

Lemma sorted_head_min x r t :
  StronglySorted ltP (x :: r) -> In t (x :: r) ->
  sv_fail x <= sv_fail t /\ (sv_fail t = sv_fail x -> sv_idx x <= sv_idx t).
Proof.
  intros Hs Hin. inversion Hs as [|? ? _ Hall]; subst.
  destruct Hin as [<-|Hin]; [lia|].
  rewrite Forall_forall in Hall. specialize (Hall t Hin). unfold ltP in Hall.
  apply srv_lt_spec in Hall. lia.
Qed.

Lemma count_prio_bound : forall l last i s,
  Forall in_range l -> (i < count_prio l last)%nat -> nth_error l i = Some s -> sv_fail s <= last.
Proof.
  induction l as [|x r IH]; intros last i s Hr Hi Hn; [cbn in Hi; lia|].
  cbn [count_prio] in Hi. inversion Hr as [|? ? Hx Hr']; subst.
  destruct (negb (last =? SIZE_MAX) && (last <? sv_fail x)) eqn:Hc; [lia|].
  assert (sv_fail x <= last) as Hxl.
  { apply andb_false_iff in Hc. destruct Hc as [Hc|Hc].
    - apply negb_false_iff in Hc. apply Z.eqb_eq in Hc. unfold in_range in Hx. lia.
    - apply Z.ltb_ge in Hc. exact Hc. }
  destruct i as [|j]; cbn [nth_error] in Hn.
  - injection Hn as <-. exact Hxl.
  - specialize (IH (sv_fail x) j s Hr' ltac:(lia) Hn). lia.
Qed.

Lemma count_prio_le_length : forall l last, (count_prio l last <= length l)%nat.
Proof.
  induction l as [|x r IH]; intros last; cbn [count_prio length]; [lia|].
  destruct (negb (last =? SIZE_MAX) && (last <? sv_fail x)); [lia|]. specialize (IH (sv_fail x)). lia.
Qed.

(* every server counted by count_highest_prio_servers has the minimal failure count *)
Lemma random_server_min c l s :
  wf l -> ares_random_server c l = Some s -> In s l /\ min_fail l s.
Proof.
  intros [Ha Hi Hs Hr] H. unfold ares_random_server in H.
  destruct (count_highest_prio_servers l) as [|n] eqn:Hn; [discriminate|].
  set (i := Z.to_nat (c mod Z.of_nat (S n))) in H.
  assert (i < S n)%nat as Hi'.
  { unfold i. pose proof (Z.mod_pos_bound c (Z.of_nat (S n)) ltac:(lia)). lia. }
  split; [eapply nth_error_In; exact H|].
  destruct l as [|x r]; [destruct i; discriminate|].
  unfold count_highest_prio_servers in Hn. cbn [count_prio] in Hn.
  replace (negb (SIZE_MAX =? SIZE_MAX)) with false in Hn by reflexivity. cbn [andb] in Hn.
  assert (sv_fail s <= sv_fail x) as Hsx.
  { destruct i as [|j]; cbn [nth_error] in H.
    - injection H as <-. lia.
    - inversion Hr as [|? ? _ Hr']; subst.
      apply (count_prio_bound r (sv_fail x) j s Hr'); [lia|exact H]. }
  intros t Ht. pose proof (sorted_head_min x r t Hs Ht) as (Hm & _). lia.
Qed.

(* C09_choice_minimal, function level *)
Lemma choose_server_ok rotate c l s :
  wf l -> choose_server rotate c l = Some s -> fresh_ok rotate l (sv_addr s).
Proof.
  intros Hwf H. unfold choose_server in H. destruct rotate.
  - destruct (random_server_min c l s Hwf H) as (Hin & Hmin).
    exists s. split; [exact Hin|]. split; [reflexivity|]. split; [exact Hmin|discriminate].
  - destruct l as [|x r]; [discriminate|]. cbn [hd_error] in H. injection H as <-.
    exists x. split; [left; reflexivity|]. split; [reflexivity|].
    destruct Hwf as [_ _ Hs _]. split.
    + intros t Ht. apply (sorted_head_min x r t Hs Ht).
    + intros _ t Ht Hf. apply (sorted_head_min x r t Hs Ht). exact Hf.
Qed.

(* with rotation every server of minimal failure count can be drawn *)
Lemma count_prio_all_min : forall l last,
  Forall (fun s => sv_fail s = last) l -> count_prio l last = length l.
Proof.
  induction l as [|x r IH]; intros last Hall; [reflexivity|].
  inversion Hall as [|? ? Hx Hr]; subst. cbn [count_prio length].
  rewrite Z.ltb_irrefl, andb_false_r. rewrite IH; [reflexivity|exact Hr].
Qed.

Lemma fresh_okb_sound rotate l a : NoDup (map sv_addr l) -> fresh_okb rotate l a = true -> fresh_ok rotate l a.
Proof.
  intros Hnd H. unfold fresh_okb in H.
  destruct (find_addr a l) as [s|] eqn:Hf; [|discriminate].
  apply find_addr_some in Hf. destruct Hf as (Hin & Ha).
  apply andb_true_iff in H. destruct H as (H1 & H2).
  rewrite forallb_forall in H1.
  exists s. split; [exact Hin|]. split; [exact Ha|]. split.
  - intros t Ht. apply Z.leb_le. apply H1. exact Ht.
  - intros -> t Ht Hft. cbn [orb] in H2. rewrite forallb_forall in H2. specialize (H2 t Ht).
    apply orb_true_iff in H2. destruct H2 as [H2|H2].
    + apply negb_true_iff in H2. apply Z.eqb_neq in H2. congruence.
    + apply Z.leb_le. exact H2.
Qed.

Lemma fresh_okb_complete rotate l a : NoDup (map sv_addr l) -> fresh_ok rotate l a -> fresh_okb rotate l a = true.
Proof.
  intros Hnd (s & Hin & Ha & Hmin & Hidx). unfold fresh_okb.
  rewrite <- Ha. rewrite (find_addr_in_nodup l s Hnd Hin).
  apply andb_true_iff. split.
  - apply forallb_forall. intros t Ht. apply Z.leb_le. apply Hmin. exact Ht.
  - destruct rotate; [reflexivity|]. cbn [orb]. apply forallb_forall. intros t Ht.
    destruct (Z.eqb_spec (sv_fail t) (sv_fail s)) as [He|Hne]; [|reflexivity].
    cbn [negb orb]. apply Z.leb_le. apply Hidx; [reflexivity|exact Ht|exact He].
Qed.

(* ------------------------------------------------------------------------------------ *)
(* Lookup by address after each list operation                                           *)
(* ------------------------------------------------------------------------------------ *)

Lemma find_addr_perm l l' b :
  NoDup (map sv_addr l) -> Permutation l l' -> find_addr b l = find_addr b l'.
Proof.
  intros Hnd Hp.
  assert (NoDup (map sv_addr l')) as Hnd' by (eapply Permutation_NoDup; [apply Permutation_map; exact Hp|exact Hnd]).
  destruct (find_addr b l) as [x|] eqn:Hf.
  - apply find_addr_some in Hf. destruct Hf as (Hin & Ha). symmetry. rewrite <- Ha.
    apply find_addr_in_nodup; [exact Hnd'|]. eapply Permutation_in; eassumption.
  - symmetry. apply find_addr_none. apply find_addr_none in Hf. intros Hin. apply Hf.
    eapply Permutation_in; [apply Permutation_sym; apply Permutation_map; exact Hp|exact Hin].
Qed.

Lemma reinsert_find l a s s' b :
  wf l -> find_addr a l = Some s -> sv_addr s' = a -> sv_idx s' = sv_idx s -> in_range s' ->
  find_addr b (reinsert s' l) = if b =? a then Some s' else find_addr b l.
Proof.
  intros Hwf Hf Ha Hi Hr.
  destruct (reinsert_wf l a s s' Hwf Hf Ha Hi Hr) as (Hwf' & Hp).
  rewrite (find_addr_perm _ _ b (wf_addr _ Hwf') Hp).
  pose proof (find_addr_some a l s Hf) as (_ & Hsa).
  cbn [find_addr]. rewrite Ha.
  destruct (Z.eqb_spec a b) as [->|Hne].
  - rewrite Z.eqb_refl. reflexivity.
  - assert ((b =? a) = false) as -> by (apply Z.eqb_neq; congruence).
    rewrite (find_addr_perm _ _ b (wf_addr _ Hwf) (remove_addr_perm a l s Hf)).
    cbn [find_addr]. rewrite Hsa. assert ((a =? b) = false) as -> by (apply Z.eqb_neq; exact Hne). reflexivity.
Qed.

Lemma replace_find s' l b :
  find_addr b (replace_addr s' l) =
  if b =? sv_addr s' then (match find_addr b l with Some _ => Some s' | None => None end) else find_addr b l.
Proof.
  induction l as [|x r IH]; [cbn; destruct (b =? sv_addr s'); reflexivity|].
  cbn [replace_addr find_addr].
  destruct (Z.eqb_spec (sv_addr x) (sv_addr s')) as [He|Hne].
  - cbn [find_addr]. rewrite He. destruct (Z.eqb_spec (sv_addr s') b) as [Hb|Hb].
    + subst b. rewrite Z.eqb_refl. reflexivity.
    + assert ((b =? sv_addr s') = false) as -> by (apply Z.eqb_neq; congruence). reflexivity.
  - cbn [find_addr]. destruct (Z.eqb_spec (sv_addr x) b) as [Hb|Hb].
    + subst b. assert ((sv_addr x =? sv_addr s') = false) as -> by (apply Z.eqb_neq; exact Hne). reflexivity.
    + exact IH.
Qed.

Lemma wrap64_range z : 0 <= wrap64 z <= SIZE_MAX.
Proof. unfold wrap64, SIZE_MAX. pose proof (Z.mod_pos_bound z (2 ^ 64) ltac:(lia)). lia. Qed.

(* idx and consecutive failures of the server with address b *)
Definition kv (b : Z) (l : list server) : option (Z * Z) :=
  match find_addr b l with Some s => Some (sv_idx s, sv_fail s) | None => None end.

(* ---- server_increment_failures ---- *)
Lemma increment_spec now delay a l l' :
  wf l -> server_increment_failures now delay a l = Ok l' ->
  wf l' /\
  (forall b, b <> a -> find_addr b l' = find_addr b l) /\
  (forall s, find_addr a l = Some s ->
     exists s', find_addr a l' = Some s' /\ sv_idx s' = sv_idx s /\ sv_fail s' = wrap64 (sv_fail s + 1) /\
                sv_probe s' = sv_probe s) /\
  (find_addr a l = None -> l' = l).
Proof.
  intros Hwf H. unfold server_increment_failures in H.
  destruct (find_addr a l) as [s|] eqn:Hf.
  2:{ injection H as <-. split; [exact Hwf|]. split; [reflexivity|]. split; [discriminate|reflexivity]. }
  destruct (c_timeadd delay (fst now) (snd now)) as [t| |] eqn:Ht; cbn [bind] in H; try discriminate.
  injection H as <-.
  set (s' := {| sv_addr := sv_addr s; sv_idx := sv_idx s; sv_fail := wrap64 (sv_fail s + 1);
                sv_retry := t; sv_probe := sv_probe s |}).
  pose proof (find_addr_some a l s Hf) as (_ & Hsa).
  assert (sv_addr s' = a) as Ha' by exact Hsa.
  assert (in_range s') as Hr' by (apply wrap64_range).
  destruct (reinsert_wf l a s s' Hwf Hf Ha' eq_refl Hr') as (Hwf' & _).
  split; [exact Hwf'|]. split.
  - intros b Hb. rewrite (reinsert_find l a s s' b Hwf Hf Ha' eq_refl Hr').
    assert ((b =? a) = false) as -> by (apply Z.eqb_neq; exact Hb). reflexivity.
  - split; [|discriminate]. intros s0 Hs0. injection Hs0 as <-. exists s'.
    rewrite (reinsert_find l a s s' a Hwf Hf Ha' eq_refl Hr'), Z.eqb_refl.
    split; [reflexivity|]. split; [reflexivity|]. split; reflexivity.
Qed.

(* ---- server_set_good ---- *)
Lemma set_good_spec a l :
  wf l ->
  wf (server_set_good a l) /\
  (forall b, b <> a -> find_addr b (server_set_good a l) = find_addr b l) /\
  (forall s, find_addr a l = Some s ->
     exists s', find_addr a (server_set_good a l) = Some s' /\ sv_idx s' = sv_idx s /\ sv_fail s' = 0 /\
                sv_probe s' = sv_probe s) /\
  (find_addr a l = None -> server_set_good a l = l).
Proof.
  intros Hwf. unfold server_set_good.
  destruct (find_addr a l) as [s|] eqn:Hf.
  2:{ split; [exact Hwf|]. split; [reflexivity|]. split; [discriminate|reflexivity]. }
  set (s' := {| sv_addr := sv_addr s; sv_idx := sv_idx s; sv_fail := 0; sv_retry := (0, 0); sv_probe := sv_probe s |}).
  pose proof (find_addr_some a l s Hf) as (Hin & Hsa).
  assert (sv_addr s' = a) as Ha' by exact Hsa.
  assert (in_range s') as Hr' by (unfold in_range, SIZE_MAX; cbn; lia).
  destruct (Z.ltb_spec 0 (sv_fail s)) as [Hpos|Hz].
  - destruct (reinsert_wf l a s s' Hwf Hf Ha' eq_refl Hr') as (Hwf' & _).
    split; [exact Hwf'|]. split.
    + intros b Hb. rewrite (reinsert_find l a s s' b Hwf Hf Ha' eq_refl Hr').
      assert ((b =? a) = false) as -> by (apply Z.eqb_neq; exact Hb). reflexivity.
    + split; [|discriminate]. intros s0 Hs0. injection Hs0 as <-. exists s'.
      rewrite (reinsert_find l a s s' a Hwf Hf Ha' eq_refl Hr'), Z.eqb_refl.
      split; [reflexivity|]. split; [reflexivity|]. split; reflexivity.
  - assert (sv_fail s = 0) as Hs0.
    { pose proof (wf_range _ Hwf) as Hr. rewrite Forall_forall in Hr. specialize (Hr s Hin). unfold in_range in Hr. lia. }
    assert (key s' = key s) as Hk by (unfold key; cbn; rewrite Hs0; reflexivity).
    assert (find_addr (sv_addr s') l = Some s) as Hf' by (rewrite Ha'; exact Hf).
    split; [eapply wf_key; [symmetry; apply (replace_addr_key s' l s Hf' Hk)|exact Hwf]|].
    split.
    + intros b Hb. rewrite replace_find. rewrite Ha'.
      assert ((b =? a) = false) as -> by (apply Z.eqb_neq; exact Hb). reflexivity.
    + split; [|discriminate]. intros s1 Hs1. injection Hs1 as <-. exists s'.
      rewrite replace_find, Ha', Z.eqb_refl, Hf.
      split; [reflexivity|]. split; [reflexivity|]. split; reflexivity.
Qed.

(* ---- operations that only touch probe_pending ---- *)
Lemma clear_probe_key a l : map key (clear_probe a l) = map key l.
Proof.
  unfold clear_probe. destruct (find_addr a l) as [s|] eqn:Hf; [|reflexivity].
  pose proof (find_addr_some a l s Hf) as (_ & Hsa).
  apply (replace_addr_key _ l s); [cbn [sv_addr]; rewrite Hsa; exact Hf|reflexivity].
Qed.

Lemma recompute_key i l : map key (recompute_probe i l) = map key l.
Proof.
  unfold recompute_probe. rewrite map_map. apply map_ext. intros s.
  destruct (sv_probe s && negb (probe_attached i (sv_addr s))); reflexivity.
Qed.

Lemma recompute_length i l : length (recompute_probe i l) = length l.
Proof. unfold recompute_probe. apply map_length. Qed.

Lemma recompute_find i b : forall l,
  find_addr b (recompute_probe i l) =
  match find_addr b l with
  | Some s => Some (if sv_probe s && negb (probe_attached i b)
                    then {| sv_addr := sv_addr s; sv_idx := sv_idx s; sv_fail := sv_fail s; sv_retry := sv_retry s; sv_probe := false |}
                    else s)
  | None => None
  end.
Proof.
  induction l as [|x r IH]; [reflexivity|]. cbn [recompute_probe map find_addr]. fold (recompute_probe i r).
  assert (sv_addr (if sv_probe x && negb (probe_attached i (sv_addr x))
                   then {| sv_addr := sv_addr x; sv_idx := sv_idx x; sv_fail := sv_fail x; sv_retry := sv_retry x; sv_probe := false |}
                   else x) = sv_addr x) as Ha by (destruct (sv_probe x && negb (probe_attached i (sv_addr x))); reflexivity).
  rewrite Ha. destruct (Z.eqb_spec (sv_addr x) b) as [->|Hne]; [reflexivity|exact IH].
Qed.

Lemma kv_key l l' : NoDup (map sv_addr l) -> map key l = map key l' -> forall b, kv b l = kv b l'.
Proof.
  intros _ Hk b. unfold kv. revert l' Hk. induction l as [|x r IH]; intros l' Hk.
  - destruct l'; [reflexivity|discriminate].
  - destruct l' as [|x' r']; [discriminate|]. cbn [map] in Hk.
    assert (key x = key x' /\ map key r = map key r') as [Hx Hr] by (split; congruence).
    cbn [find_addr]. unfold key in Hx. injection Hx as Ha Hi Hf. rewrite <- Ha.
    destruct (sv_addr x =? b); [rewrite Hi, Hf; reflexivity|apply IH; exact Hr].
Qed.

(* ------------------------------------------------------------------------------------ *)
(* ares_servers_update                                                                   *)
(* ------------------------------------------------------------------------------------ *)
Lemma existsb_eqb_in a seen : existsb (Z.eqb a) seen = true <-> In a seen.
Proof.
  rewrite existsb_exists. split.
  - intros (x & Hx & He). apply Z.eqb_eq in He. subst. exact Hx.
  - intros H. exists a. split; [exact H|apply Z.eqb_refl].
Qed.

Lemma dedup_nodup : forall l seen,
  NoDup (dedup seen l) /\ (forall x, In x (dedup seen l) -> ~ In x seen /\ In x l).
Proof.
  induction l as [|a r IH]; intros seen; [split; [constructor|intros x []]|].
  cbn [dedup]. destruct (existsb (Z.eqb a) seen) eqn:He.
  - destruct (IH seen) as (Hnd & Hin). split; [exact Hnd|]. intros x Hx. destruct (Hin x Hx). split; [assumption|right; assumption].
  - destruct (IH (a :: seen)) as (Hnd & Hin). split.
    + constructor; [|exact Hnd]. intros Ha. destruct (Hin a Ha) as (Hn & _). apply Hn. left. reflexivity.
    + intros x [<-|Hx].
      * split; [|left; reflexivity]. intros Hs. apply existsb_eqb_in in Hs. congruence.
      * destruct (Hin x Hx) as (Hn & Hl). split; [|right; exact Hl]. intros Hs. apply Hn. right. exact Hs.
Qed.

Definition fail_or_0 (old : list server) (a : Z) : Z :=
  match find_addr a old with Some o => sv_fail o | None => 0 end.

(* index and failure count a configuration gives to address b: position of its first occurrence,
   failures carried over from the previous table *)
Fixpoint expected (old : list server) (b : Z) (idx : Z) (addrs : list Z) : option (Z * Z) :=
  match addrs with
  | [] => None
  | a :: r => if a =? b then Some (idx, fail_or_0 old a) else expected old b (idx + 1) r
  end.

Lemma expected_idx_ge old b : forall addrs idx p, expected old b idx addrs = Some p -> idx <= fst p /\ In b addrs.
Proof.
  induction addrs as [|a r IH]; intros idx p H; [discriminate|]. cbn [expected] in H.
  destruct (Z.eqb_spec a b) as [->|Hne].
  - injection H as <-. cbn. split; [lia|left; reflexivity].
  - apply IH in H. destruct H. split; [lia|right; assumption].
Qed.

Lemma dedup_in : forall l seen x, In x (dedup seen l) <-> In x l /\ ~ In x seen.
Proof.
  induction l as [|a r IH]; intros seen x; [cbn; tauto|].
  cbn [dedup]. destruct (existsb (Z.eqb a) seen) eqn:He.
  - apply existsb_eqb_in in He. rewrite IH. cbn [In]. split.
    + intros (H1 & H2). split; [right; exact H1|exact H2].
    + intros ([->|H1] & H2); [contradiction|split; assumption].
  - assert (~ In a seen) as Hn by (intros H; apply existsb_eqb_in in H; congruence).
    cbn [In]. rewrite IH. cbn [In]. split.
    + intros [<-|(H1 & H2)]; [split; [left; reflexivity|exact Hn]|split; [right; exact H1|tauto]].
    + intros ([->|H1] & H2); [left; reflexivity|].
      destruct (Z.eq_dec a x) as [->|Hne]; [left; reflexivity|right; split; [exact H1|intros [H|H]; [contradiction|exact (H2 H)]]].
Qed.

Lemma remove_addr_sorted_gen (R : server -> server -> Prop) a l :
  StronglySorted R l -> StronglySorted R (remove_addr a l).
Proof.
  induction l as [|x r IH]; intros Hs; [exact Hs|]. cbn [remove_addr].
  inversion Hs as [|? ? Hsr Hall]; subst.
  destruct (sv_addr x =? a); [exact Hsr|].
  constructor; [apply IH; exact Hsr|].
  rewrite Forall_forall in Hall |- *. intros y Hy. apply Hall.
  clear - Hy. induction r as [|z r IH]; [destruct Hy|]. cbn [remove_addr] in Hy.
  destruct (sv_addr z =? a); [right; exact Hy|]. destruct Hy as [->|Hy]; [left; reflexivity|right; apply IH; exact Hy].
Qed.

Lemma remove_addr_none a l : find_addr a l = None -> remove_addr a l = l.
Proof.
  induction l as [|x r IH]; [reflexivity|]. cbn [find_addr remove_addr].
  destruct (sv_addr x =? a); [discriminate|]. intros H. rewrite (IH H). reflexivity.
Qed.

(* re-insertion and insertion under the weak invariant (distinct addresses only) *)
Lemma reinsert_weak l a s s' :
  NoDup (map sv_addr l) -> StronglySorted leP l -> Forall in_range l ->
  find_addr a l = Some s -> sv_addr s' = a -> in_range s' ->
  NoDup (map sv_addr (reinsert s' l)) /\ StronglySorted leP (reinsert s' l) /\ Forall in_range (reinsert s' l) /\
  forall b, find_addr b (reinsert s' l) = if b =? a then Some s' else find_addr b l.
Proof.
  intros Hnd Hs Hr Hf Ha Hrs.
  pose proof (remove_addr_perm a l s Hf) as Hp.
  pose proof (find_addr_some a l s Hf) as (_ & Hsa).
  unfold reinsert. rewrite Ha.
  pose proof (insert_sorted_perm s' (remove_addr a l)) as Hp2.
  assert (NoDup (map sv_addr (s :: remove_addr a l))) as Hnd2
    by (eapply Permutation_NoDup; [apply Permutation_map; exact Hp|exact Hnd]).
  assert (NoDup (map sv_addr (insert_sorted s' (remove_addr a l)))) as Hnd3.
  { eapply Permutation_NoDup; [apply Permutation_sym; apply Permutation_map; exact Hp2|].
    cbn [map] in Hnd2 |- *. rewrite Ha. rewrite Hsa in Hnd2. exact Hnd2. }
  split; [exact Hnd3|]. split; [apply insert_sorted_le, remove_addr_sorted_gen; exact Hs|]. split.
  - eapply Permutation_Forall; [apply Permutation_sym; exact Hp2|]. constructor; [exact Hrs|].
    assert (Forall in_range (s :: remove_addr a l)) as Hr2 by (eapply Permutation_Forall; [exact Hp|exact Hr]).
    inversion Hr2; assumption.
  - intros b. rewrite (find_addr_perm _ _ b Hnd3 Hp2). cbn [find_addr]. rewrite Ha.
    destruct (Z.eqb_spec a b) as [->|Hne].
    + rewrite Z.eqb_refl. reflexivity.
    + assert ((b =? a) = false) as -> by (apply Z.eqb_neq; congruence).
      rewrite (find_addr_perm _ _ b Hnd Hp). cbn [find_addr]. rewrite Hsa.
      assert ((a =? b) = false) as -> by (apply Z.eqb_neq; exact Hne). reflexivity.
Qed.

Lemma insert_weak s l :
  NoDup (map sv_addr l) -> StronglySorted leP l -> Forall in_range l ->
  find_addr (sv_addr s) l = None -> in_range s ->
  NoDup (map sv_addr (insert_sorted s l)) /\ StronglySorted leP (insert_sorted s l) /\
  Forall in_range (insert_sorted s l) /\
  forall b, find_addr b (insert_sorted s l) = if b =? sv_addr s then Some s else find_addr b l.
Proof.
  intros Hnd Hs Hr Hf Hrs.
  pose proof (insert_sorted_perm s l) as Hp.
  assert (NoDup (map sv_addr (insert_sorted s l))) as Hnd2.
  { eapply Permutation_NoDup; [apply Permutation_sym; apply Permutation_map; exact Hp|].
    cbn [map]. constructor; [apply find_addr_none; exact Hf|exact Hnd]. }
  split; [exact Hnd2|]. split; [apply insert_sorted_le; exact Hs|]. split.
  - eapply Permutation_Forall; [apply Permutation_sym; exact Hp|]. constructor; assumption.
  - intros b. rewrite (find_addr_perm _ _ b Hnd2 Hp). cbn [find_addr]. rewrite (Z.eqb_sym b). reflexivity.
Qed.

(* the record an address of the new configuration ends up with *)
Definition carry (old : list server) (a idx : Z) : server :=
  match find_addr a old with Some o => set_idx o idx | None => fresh_server a idx end.

Fixpoint carry_find (old : list server) (b : Z) (idx : Z) (addrs : list Z) : option server :=
  match addrs with
  | [] => None
  | a :: r => if a =? b then Some (carry old a idx) else carry_find old b (idx + 1) r
  end.

Lemma set_idx_same s : set_idx s (sv_idx s) = s.
Proof. destruct s; reflexivity. Qed.

Lemma carry_find_ext l1 l2 b : forall addrs idx,
  (forall a, In a addrs -> find_addr a l1 = find_addr a l2) ->
  carry_find l1 b idx addrs = carry_find l2 b idx addrs.
Proof.
  induction addrs as [|a r IH]; intros idx H; [reflexivity|]. cbn [carry_find].
  unfold carry. rewrite (H a (or_introl eq_refl)). destruct (a =? b); [reflexivity|].
  apply IH. intros a' Ha'. apply H. right. exact Ha'.
Qed.

Lemma carry_find_some old b : forall addrs idx x,
  carry_find old b idx addrs = Some x -> In b addrs /\ idx <= sv_idx x /\ sv_addr x = b.
Proof.
  induction addrs as [|a r IH]; intros idx x H; [discriminate|]. cbn [carry_find] in H.
  destruct (Z.eqb_spec a b) as [->|Hne].
  - injection H as <-. split; [left; reflexivity|]. unfold carry.
    destruct (find_addr b old) as [o|] eqn:Ho; cbn; [|split; [lia|reflexivity]].
    apply find_addr_some in Ho. destruct Ho as (_ & Ho). split; [lia|exact Ho].
  - apply IH in H. destruct H as (H1 & H2 & H3). split; [right; exact H1|]. split; [lia|exact H3].
Qed.

Lemma carry_find_none old b : forall addrs idx, ~ In b addrs -> carry_find old b idx addrs = None.
Proof.
  induction addrs as [|a r IH]; intros idx H; [reflexivity|]. cbn [carry_find].
  destruct (Z.eqb_spec a b) as [->|Hne]; [exfalso; apply H; left; reflexivity|].
  apply IH. intros Hr. apply H. right. exact Hr.
Qed.

Lemma carry_find_in old b : forall addrs idx, In b addrs -> exists x, carry_find old b idx addrs = Some x.
Proof.
  induction addrs as [|a r IH]; intros idx H; [destruct H|]. cbn [carry_find].
  destruct (Z.eqb_spec a b) as [->|Hne]; [eexists; reflexivity|].
  destruct H as [->|H]; [congruence|]. apply IH. exact H.
Qed.

Lemma carry_find_idx_inj old : forall addrs idx b1 b2 x y,
  carry_find old b1 idx addrs = Some x -> carry_find old b2 idx addrs = Some y ->
  sv_idx x = sv_idx y -> b1 = b2.
Proof.
  induction addrs as [|a r IH]; intros idx b1 b2 x y H1 H2 Hi; [discriminate|].
  cbn [carry_find] in H1, H2.
  assert (forall o i, sv_idx (carry old o i) = i) as Hci.
  { intros o i. unfold carry. destruct (find_addr o old); reflexivity. }
  destruct (Z.eqb_spec a b1) as [E1|N1]; destruct (Z.eqb_spec a b2) as [E2|N2].
  - congruence.
  - injection H1 as <-. apply carry_find_some in H2. rewrite Hci in Hi. lia.
  - injection H2 as <-. apply carry_find_some in H1. rewrite Hci in Hi. lia.
  - eapply IH; eassumption.
Qed.

Lemma carry_find_kv old b : forall addrs idx,
  match carry_find old b idx addrs with Some x => Some (sv_idx x, sv_fail x) | None => None end
  = expected old b idx addrs.
Proof.
  induction addrs as [|a r IH]; intros idx; [reflexivity|]. cbn [carry_find expected].
  destruct (a =? b); [|apply IH]. unfold carry, fail_or_0. destruct (find_addr a old); reflexivity.
Qed.

Lemma carry_range old a idx : Forall in_range old -> in_range (carry old a idx).
Proof.
  intros Hr. unfold carry. destruct (find_addr a old) as [o|] eqn:Ho.
  - apply find_addr_some in Ho. destruct Ho as (Hin & _). rewrite Forall_forall in Hr. apply (Hr o Hin).
  - unfold in_range, SIZE_MAX. cbn. lia.
Qed.

Lemma update_loop_spec : forall addrs idx l,
  NoDup addrs -> NoDup (map sv_addr l) -> StronglySorted leP l -> Forall in_range l ->
  NoDup (map sv_addr (update_loop addrs idx l)) /\ StronglySorted leP (update_loop addrs idx l) /\
  Forall in_range (update_loop addrs idx l) /\
  forall b, find_addr b (update_loop addrs idx l) =
            match carry_find l b idx addrs with Some s => Some s | None => find_addr b l end.
Proof.
  induction addrs as [|a r IH]; intros idx l Hnda Hnd Hs Hr.
  - cbn [update_loop carry_find]. repeat split; assumption.
  - inversion Hnda as [|? ? Hnot Hnda']; subst. cbn [update_loop].
    set (l1 := match find_addr a l with
               | Some s => if sv_idx s =? idx then l else reinsert (set_idx s idx) l
               | None => insert_sorted (fresh_server a idx) l end).
    assert (NoDup (map sv_addr l1) /\ StronglySorted leP l1 /\ Forall in_range l1 /\
            forall b, find_addr b l1 = if b =? a then Some (carry l a idx) else find_addr b l) as (Hnd1 & Hs1 & Hr1 & Hf1).
    { unfold l1, carry. destruct (find_addr a l) as [s|] eqn:Hf.
      - destruct (Z.eqb_spec (sv_idx s) idx) as [He|Hne].
        + split; [exact Hnd|]. split; [exact Hs|]. split; [exact Hr|]. intros b.
          destruct (Z.eqb_spec b a) as [->|Hb]; [|reflexivity]. rewrite Hf, <- He, set_idx_same. reflexivity.
        + pose proof (find_addr_some a l s Hf) as (Hin & Hsa).
          assert (in_range (set_idx s idx)) as Hrs by (rewrite Forall_forall in Hr; apply (Hr s Hin)).
          apply (reinsert_weak l a s (set_idx s idx) Hnd Hs Hr Hf Hsa Hrs).
      - assert (in_range (fresh_server a idx)) as Hrs by (unfold in_range, SIZE_MAX; cbn; lia).
        apply (insert_weak (fresh_server a idx) l Hnd Hs Hr Hf Hrs). }
    destruct (IH (idx + 1) l1 Hnda' Hnd1 Hs1 Hr1) as (Hnd2 & Hs2 & Hr2 & Hf2).
    split; [exact Hnd2|]. split; [exact Hs2|]. split; [exact Hr2|].
    intros b. rewrite Hf2. cbn [carry_find].
    assert (carry_find l1 b (idx + 1) r = carry_find l b (idx + 1) r) as ->.
    { apply carry_find_ext. intros a' Ha'. rewrite Hf1.
      assert ((a' =? a) = false) as -> by (apply Z.eqb_neq; intros ->; exact (Hnot Ha')). reflexivity. }
    destruct (Z.eqb_spec a b) as [->|Hne].
    + rewrite (carry_find_none l b r (idx + 1) Hnot), Hf1, Z.eqb_refl. reflexivity.
    + destruct (carry_find l b (idx + 1) r); [reflexivity|].
      rewrite Hf1. assert ((b =? a) = false) as -> by (apply Z.eqb_neq; congruence). reflexivity.
Qed.

Lemma find_addr_filter addrs b : forall l,
  find_addr b (filter (configured addrs) l) = if existsb (Z.eqb b) addrs then find_addr b l else None.
Proof.
  induction l as [|x r IH]; [cbn [filter find_addr]; destruct (existsb (Z.eqb b) addrs); reflexivity|].
  cbn [filter find_addr]. unfold configured at 1.
  destruct (Z.eqb_spec (sv_addr x) b) as [He|Hne].
  - rewrite He. destruct (existsb (Z.eqb b) addrs) eqn:Hb.
    + cbn [find_addr]. rewrite He, Z.eqb_refl. reflexivity.
    + rewrite IH; try rewrite Hb; reflexivity.
  - destruct (existsb (Z.eqb (sv_addr x)) addrs).
    + cbn [find_addr]. assert ((sv_addr x =? b) = false) as -> by (apply Z.eqb_neq; exact Hne). exact IH.
    + exact IH.
Qed.

Lemma nodup_map_filter {A B} (f : A -> B) p : forall l, NoDup (map f l) -> NoDup (map f (filter p l)).
Proof.
  induction l as [|x r IH]; intros H; [constructor|]. cbn [map] in H. inversion H as [|? ? Hn Hr]; subst.
  cbn [filter]. destruct (p x); [|apply IH; exact Hr]. cbn [map]. constructor; [|apply IH; exact Hr].
  intros Hin. apply Hn. apply in_map_iff in Hin. destruct Hin as (y & Hy & Hyin).
  apply filter_In in Hyin. rewrite <- Hy. apply in_map. apply Hyin.
Qed.

Lemma sorted_filter (R : server -> server -> Prop) p : forall l,
  StronglySorted R l -> StronglySorted R (filter p l).
Proof.
  induction l as [|x r IH]; intros H; [constructor|]. inversion H as [|? ? Hs Hall]; subst.
  cbn [filter]. destruct (p x); [|apply IH; exact Hs]. constructor; [apply IH; exact Hs|].
  rewrite Forall_forall in Hall |- *. intros y Hy. apply Hall. apply filter_In in Hy. apply Hy.
Qed.

Lemma nodup_map_inj {A B C} (f : A -> B) (g : A -> C) : forall l,
  (forall x y, In x l -> In y l -> f x = f y -> g x = g y) -> NoDup (map g l) -> NoDup (map f l).
Proof.
  induction l as [|x r IH]; intros Hinj H; [constructor|]. cbn [map] in H |- *.
  inversion H as [|? ? Hn Hr]; subst. constructor.
  - intros Hin. apply Hn. apply in_map_iff in Hin. destruct Hin as (y & Hy & Hyin).
    rewrite <- (Hinj y x (or_intror Hyin) (or_introl eq_refl) Hy). apply in_map. exact Hyin.
  - apply IH; [|exact Hr]. intros a b Ha Hb. apply Hinj; right; assumption.
Qed.

Lemma le_sorted_strict : forall l,
  StronglySorted leP l -> NoDup (map sv_idx l) -> StronglySorted ltP l.
Proof.
  induction l as [|x r IH]; intros Hs Hnd; [constructor|].
  inversion Hs as [|? ? Hsr Hall]; subst. cbn [map] in Hnd. inversion Hnd as [|? ? Hn Hnd']; subst.
  constructor; [apply IH; assumption|].
  rewrite Forall_forall in Hall |- *. intros y Hy. specialize (Hall y Hy). unfold leP in Hall. unfold ltP.
  destruct (srv_lt_connected x y) as [H|H]; [intros He; apply Hn; rewrite He; apply in_map; exact Hy|exact H|congruence].
Qed.

Lemma lt_sorted_le : forall l, StronglySorted ltP l -> StronglySorted leP l.
Proof.
  induction l as [|x r IH]; intros Hs; [constructor|]. inversion Hs as [|? ? Hsr Hall]; subst.
  constructor; [apply IH; exact Hsr|]. rewrite Forall_forall in Hall |- *. intros y Hy.
  unfold leP. apply srv_lt_asym. apply Hall. exact Hy.
Qed.

Lemma existsb_dedup addrs b : existsb (Z.eqb b) addrs = true <-> In b (dedup [] addrs).
Proof. rewrite existsb_eqb_in, dedup_in. cbn. tauto. Qed.

(* ares_servers_update: the resulting table *)
Lemma servers_update_spec old addrs :
  NoDup (map sv_addr old) -> StronglySorted leP old -> Forall in_range old ->
  wf (servers_update old addrs) /\
  (forall b, kv b (servers_update old addrs) = expected old b 0 (dedup [] addrs)) /\
  Permutation (map sv_addr (servers_update old addrs)) (dedup [] addrs).
Proof.
  intros Hnd Hs Hr. destruct (dedup_nodup addrs []) as (Hndd & _).
  destruct (update_loop_spec (dedup [] addrs) 0 old Hndd Hnd Hs Hr) as (Hnd1 & Hs1 & Hr1 & Hf1).
  unfold servers_update. set (l1 := update_loop (dedup [] addrs) 0 old) in *.
  set (keep := filter (configured addrs) l1).
  assert (NoDup (map sv_addr keep)) as Hndk by (apply nodup_map_filter; exact Hnd1).
  (* every kept element is the carried record of its address *)
  assert (forall x, In x keep -> carry_find old (sv_addr x) 0 (dedup [] addrs) = Some x) as Hcar.
  { intros x Hx. apply filter_In in Hx. destruct Hx as (Hx1 & Hcfg).
    pose proof (find_addr_in_nodup l1 x Hnd1 Hx1) as Hfx. rewrite Hf1 in Hfx.
    unfold configured in Hcfg. apply existsb_dedup in Hcfg.
    destruct (carry_find_in old (sv_addr x) (dedup [] addrs) 0 Hcfg) as (y & Hy). rewrite Hy in Hfx |- *. exact Hfx. }
  assert (forall b, find_addr b keep = carry_find old b 0 (dedup [] addrs)) as Hfk.
  { intros b. unfold keep. rewrite find_addr_filter, Hf1.
    destruct (existsb (Z.eqb b) addrs) eqn:Hb.
    - apply existsb_dedup in Hb. destruct (carry_find_in old b (dedup [] addrs) 0 Hb) as (y & Hy). rewrite Hy. reflexivity.
    - symmetry. apply carry_find_none. intros Hin. apply existsb_dedup in Hin. congruence. }
  assert (NoDup (map sv_idx keep)) as Hndi.
  { apply (nodup_map_inj sv_idx sv_addr); [|exact Hndk]. intros x y Hx Hy Hi.
    eapply carry_find_idx_inj; [apply Hcar; exact Hx|apply Hcar; exact Hy|exact Hi]. }
  split; [|split].
  - constructor; [exact Hndk|exact Hndi| |].
    + apply le_sorted_strict; [apply sorted_filter; exact Hs1|exact Hndi].
    + rewrite Forall_forall in Hr1 |- *. intros x Hx. apply Hr1. apply filter_In in Hx. apply Hx.
  - intros b. unfold kv. fold keep. rewrite Hfk. apply carry_find_kv.
  - apply NoDup_Permutation; [exact Hndk|exact Hndd|]. intros b. split.
    + intros Hin. apply in_map_iff in Hin. destruct Hin as (x & Hx & Hxin). rewrite <- Hx.
      apply (carry_find_some old (sv_addr x) (dedup [] addrs) 0 x (Hcar x Hxin)).
    + intros Hin. destruct (carry_find_in old b (dedup [] addrs) 0 Hin) as (y & Hy).
      rewrite <- Hfk in Hy. apply find_addr_some in Hy. destruct Hy as (Hyin & Hya). rewrite <- Hya. apply in_map. exact Hyin.
Qed.

Lemma wf_nil : wf [].
Proof. constructor; constructor. Qed.

Lemma servers_update_wf old addrs :
  wf old ->
  wf (servers_update old addrs) /\
  (forall b, kv b (servers_update old addrs) = expected old b 0 (dedup [] addrs)) /\
  Permutation (map sv_addr (servers_update old addrs)) (dedup [] addrs).
Proof.
  intros [Ha Hi Hs Hr]. apply servers_update_spec; [exact Ha|apply lt_sorted_le; exact Hs|exact Hr].
Qed.

(* ------------------------------------------------------------------------------------ *)
(* One fresh attempt (ares_send_query)                                                   *)
(* ------------------------------------------------------------------------------------ *)
Lemma find_probe_target_some now : forall l ps,
  find_probe_target now l = Ok (Some ps) ->
  In ps l /\ 0 < sv_fail ps /\ sv_probe ps = false /\
  exists t, c_ares_timedout (fst now) (fst (sv_retry ps)) (snd now) (snd (sv_retry ps)) = Ok t /\ t <> 0.
Proof.
  induction l as [|s r IH]; intros ps H; [discriminate|]. cbn [find_probe_target] in H.
  destruct ((0 <? sv_fail s) && negb (sv_probe s)) eqn:Hc.
  - destruct (c_ares_timedout (fst now) (fst (sv_retry s)) (snd now) (snd (sv_retry s))) as [t| |] eqn:Ht;
      cbn [bind] in H; try discriminate.
    destruct (negb (t =? 0)) eqn:Hz.
    + injection H as <-. apply andb_true_iff in Hc. destruct Hc as (Hf & Hp).
      split; [left; reflexivity|]. split; [apply Z.ltb_lt; exact Hf|]. split; [apply negb_true_iff; exact Hp|].
      exists t. split; [exact Ht|]. apply negb_true_iff, Z.eqb_neq in Hz. exact Hz.
    + destruct (IH ps H) as (Hin & Hrest). split; [right; exact Hin|exact Hrest].
  - destruct (IH ps H) as (Hin & Hrest). split; [right; exact Hin|exact Hrest].
Qed.

(* same configuration, clock and label counter policy: only servers / in-flight change *)
Definition same_config (ch ch' : chan) : Prop :=
  ch_rotate ch' = ch_rotate ch /\ ch_tries ch' = ch_tries ch /\ ch_chance ch' = ch_chance ch /\
  ch_delay ch' = ch_delay ch /\ ch_now ch' = ch_now ch.

Inductive fresh_shape (ch : chan) (label : nat) (try : Z) : chan -> list obs -> Prop :=
| FsNoServer : fresh_shape ch label try ch [ODone label ARES_ENOSERVER]
| FsPlain ch' a :
    fresh_ok (ch_rotate ch) (ch_servers ch) a ->
    ch_servers ch' = ch_servers ch ->
    fresh_shape ch label try ch' [OTx label a false]
| FsProbe ch' a pl ps :
    fresh_ok (ch_rotate ch) (ch_servers ch) a ->
    map key (ch_servers ch') = map key (ch_servers ch) ->
    In ps (ch_servers ch) -> 0 < sv_fail ps -> sv_probe ps = false -> sv_addr ps <> a -> try = 0 ->
    (exists su, In su (ch_servers ch) /\ sv_addr su = a /\ sv_fail su = 0) ->
    fresh_shape ch label try ch' [OTx label a false; OTx pl (sv_addr ps) true].

Lemma send_fresh_shape ch label try err c ch' obs :
  wf (ch_servers ch) -> send_fresh ch label try err c = Ok (ch', obs) ->
  fresh_shape ch label try ch' obs /\ same_config ch ch'.
Proof.
  intros Hwf H. unfold send_fresh in H.
  destruct (choose_server (ch_rotate ch) (c_rot c) (ch_servers ch)) as [s|] eqn:Hch.
  2:{ injection H as <- <-. split; [constructor|repeat split]. }
  pose proof (choose_server_ok _ _ _ _ Hwf Hch) as Hok.
  assert (In s (ch_servers ch)) as Hsin.
  { destruct Hok as (s0 & Hin0 & Ha0 & _).
    pose proof (find_addr_in_nodup _ _ (wf_addr _ Hwf) Hin0) as Hf0. rewrite Ha0 in Hf0.
    unfold choose_server in Hch. destruct (ch_rotate ch).
    - apply (random_server_min _ _ _ Hwf Hch).
    - destruct (ch_servers ch); [discriminate|]. injection Hch as <-. left. reflexivity. }
  destruct ((sv_fail s =? 0) && (try =? 0)) eqn:Hcond.
  2:{ injection H as <- <-. split; [|repeat split]. apply FsPlain; [exact Hok|reflexivity]. }
  apply andb_true_iff in Hcond. destruct Hcond as (Hf0 & Ht0).
  apply Z.eqb_eq in Hf0. apply Z.eqb_eq in Ht0.
  destruct (ares_probe_failed_server (ch_chance ch) (ch_now ch) (c_probe c) s (ch_servers ch)) as [p| |] eqn:Hp;
    cbn [bind] in H; try discriminate.
  destruct p as [ps|].
  2:{ injection H as <- <-. split; [|repeat split]. apply FsPlain; [exact Hok|reflexivity]. }
  injection H as <- <-. split; [|repeat split].
  unfold ares_probe_failed_server in Hp.
  destruct ((match last_server (ch_servers ch) with Some s0 => sv_fail s0 =? 0 | None => false end) || (ch_chance ch =? 0));
    [discriminate|].
  destruct (negb (c_probe c mod ch_chance ch =? 0)); [discriminate|].
  destruct (find_probe_target (ch_now ch) (ch_servers ch)) as [q| |] eqn:Hq; cbn [bind] in Hp; try discriminate.
  destruct q as [ps0|]; [|discriminate].
  destruct (Z.eqb_spec (sv_addr ps0) (sv_addr s)) as [He|Hne]; [discriminate|].
  injection Hp as <-.
  destruct (find_probe_target_some _ _ _ Hq) as (Hin & Hpos & Hpr & _).
  apply FsProbe; try assumption.
  - cbn [ch_servers set_inflight bump_label set_servers].
    apply (replace_addr_key _ (ch_servers ch) ps0); [|reflexivity].
    cbn [sv_addr]. apply find_addr_in_nodup; [apply (wf_addr _ Hwf)|exact Hin].
  - exists s. split; [exact Hsin|]. split; [reflexivity|exact Hf0].
Qed.

(* ------------------------------------------------------------------------------------ *)
(* The monitor accepts every trace of the model                                          *)
(* ------------------------------------------------------------------------------------ *)
Definition agree (m : monitor) (ch : chan) : Prop :=
  m_rotate m = ch_rotate ch /\ NoDup (map sv_addr (m_servers m)) /\
  forall b, kv b (m_servers m) = kv b (ch_servers ch).

Lemma mon_update_addr a f l : map sv_addr (mon_update a f l) = map sv_addr l.
Proof.
  induction l as [|x r IH]; [reflexivity|]. cbn [mon_update].
  destruct (sv_addr x =? a); cbn [map sv_addr]; [reflexivity|rewrite IH; reflexivity].
Qed.

Lemma mon_update_kv a f l b :
  kv b (mon_update a f l) =
  if b =? a then (match kv a l with Some (i, fl) => Some (i, f fl) | None => None end) else kv b l.
Proof.
  unfold kv. induction l as [|x r IH]; [cbn; destruct (b =? a); reflexivity|].
  cbn [mon_update find_addr].
  destruct (Z.eqb_spec (sv_addr x) a) as [He|Hne].
  - cbn [find_addr sv_addr]. rewrite He.
    destruct (Z.eqb_spec a b) as [->|Hab].
    + rewrite Z.eqb_refl. reflexivity.
    + assert ((b =? a) = false) as -> by (apply Z.eqb_neq; congruence). reflexivity.
  - cbn [find_addr]. destruct (Z.eqb_spec (sv_addr x) b) as [Hb|Hb].
    + subst b. assert ((sv_addr x =? a) = false) as -> by (apply Z.eqb_neq; exact Hne). reflexivity.
    + exact IH.
Qed.

Lemma mon_build_addr old : forall addrs idx, map sv_addr (mon_build old addrs idx) = addrs.
Proof. induction addrs as [|a r IH]; intros idx; [reflexivity|]. cbn [mon_build map sv_addr]. rewrite IH. reflexivity. Qed.

Lemma mon_build_kv old b : forall addrs idx, kv b (mon_build old addrs idx) = expected old b idx addrs.
Proof.
  induction addrs as [|a r IH]; intros idx; [reflexivity|].
  unfold kv. cbn [mon_build find_addr sv_addr expected].
  destruct (a =? b); [reflexivity|]. apply IH.
Qed.

Lemma fail_or_0_kv old1 old2 a : kv a old1 = kv a old2 -> fail_or_0 old1 a = fail_or_0 old2 a.
Proof.
  unfold kv, fail_or_0. destruct (find_addr a old1); destruct (find_addr a old2); intros H; try discriminate; [|reflexivity].
  injection H as _ Hf. exact Hf.
Qed.

Lemma expected_kv old1 old2 b : (forall a, kv a old1 = kv a old2) ->
  forall addrs idx, expected old1 b idx addrs = expected old2 b idx addrs.
Proof.
  intros Hk. induction addrs as [|a r IH]; intros idx; [reflexivity|]. cbn [expected].
  rewrite (fail_or_0_kv old1 old2 a (Hk a)). destruct (a =? b); [reflexivity|apply IH].
Qed.

Lemma kv_in l t : NoDup (map sv_addr l) -> In t l -> kv (sv_addr t) l = Some (sv_idx t, sv_fail t).
Proof. intros Hnd Hin. unfold kv. rewrite (find_addr_in_nodup l t Hnd Hin). reflexivity. Qed.

Lemma kv_some b l i f : kv b l = Some (i, f) -> exists t, In t l /\ sv_addr t = b /\ sv_idx t = i /\ sv_fail t = f.
Proof.
  unfold kv. destruct (find_addr b l) as [t|] eqn:Hf; [|discriminate]. intros H. injection H as <- <-.
  apply find_addr_some in Hf. destruct Hf. exists t. repeat split; assumption.
Qed.

(* the property of a fresh attempt depends only on (address, index, failures) of the table *)
Lemma fresh_ok_agree rot l1 l2 a :
  NoDup (map sv_addr l1) -> NoDup (map sv_addr l2) -> (forall b, kv b l2 = kv b l1) ->
  fresh_ok rot l1 a -> fresh_ok rot l2 a.
Proof.
  intros Hn1 Hn2 Hk (s & Hin & Ha & Hmin & Hidx).
  pose proof (kv_in l1 s Hn1 Hin) as Hks. rewrite Ha, <- Hk in Hks.
  destruct (kv_some _ _ _ _ Hks) as (s2 & Hin2 & Ha2 & Hi2 & Hf2).
  assert (forall t2, In t2 l2 -> exists t1, In t1 l1 /\ sv_idx t1 = sv_idx t2 /\ sv_fail t1 = sv_fail t2) as Hback.
  { intros t2 Ht2. pose proof (kv_in l2 t2 Hn2 Ht2) as Hk2. rewrite Hk in Hk2.
    destruct (kv_some _ _ _ _ Hk2) as (t1 & Hin1 & _ & Hi1 & Hf1). exists t1. repeat split; assumption. }
  exists s2. split; [exact Hin2|]. split; [exact Ha2|]. split.
  - intros t2 Ht2. destruct (Hback t2 Ht2) as (t1 & Hin1 & _ & Hf1). rewrite Hf2, <- Hf1. apply Hmin. exact Hin1.
  - intros Hr t2 Ht2 Hft. destruct (Hback t2 Ht2) as (t1 & Hin1 & Hi1 & Hf1).
    rewrite Hi2, <- Hi1. apply (Hidx Hr t1 Hin1). congruence.
Qed.

Lemma mon_run_app m a b :
  mon_run m (a ++ b) = match mon_run m a with Some m' => mon_run m' b | None => None end.
Proof.
  revert m. induction a as [|o r IH]; intros m; [reflexivity|]. cbn [app mon_run].
  destruct (mon_step m o); [apply IH|reflexivity].
Qed.

Lemma fresh_accept m ch label try ch' obs :
  wf (ch_servers ch) -> agree m ch -> fresh_shape ch label try ch' obs -> same_config ch ch' ->
  mon_run m obs = Some m /\ agree m ch'.
Proof.
  intros Hwf (Hrot & Hnd & Hk) Hsh (Hc1 & _).
  inversion Hsh as [|ch1 a Hok Hsv|ch1 a pl ps Hok Hkey Hin Hpos Hpr Hne Htry Hsu]; subst.
  - split; [reflexivity|]. split; [exact Hrot|]. split; [exact Hnd|exact Hk].
  - cbn [mon_run mon_step]. rewrite Hrot.
    rewrite (fresh_okb_complete _ _ _ Hnd (fresh_ok_agree _ _ _ _ (wf_addr _ Hwf) Hnd Hk Hok)).
    split; [reflexivity|]. split; [congruence|]. split; [exact Hnd|]. rewrite Hsv. exact Hk.
  - cbn [mon_run mon_step]. rewrite Hrot.
    rewrite (fresh_okb_complete _ _ _ Hnd (fresh_ok_agree _ _ _ _ (wf_addr _ Hwf) Hnd Hk Hok)).
    pose proof (kv_in _ ps (wf_addr _ Hwf) Hin) as Hkp. rewrite <- Hk in Hkp.
    unfold kv in Hkp. destruct (find_addr (sv_addr ps) (m_servers m)) as [sm|] eqn:Hfm; [|discriminate].
    injection Hkp as _ Hfs. rewrite Hfs. assert ((0 <? sv_fail ps) = true) as -> by (apply Z.ltb_lt; exact Hpos).
    split; [reflexivity|]. split; [congruence|]. split; [exact Hnd|].
    intros b. rewrite Hk. symmetry. apply kv_key; [|exact Hkey].
    eapply Permutation_NoDup; [|apply (wf_addr _ Hwf)].
    replace (map sv_addr (ch_servers ch')) with (map (fun k => fst (fst k)) (map key (ch_servers ch'))) by (rewrite map_map; reflexivity).
    rewrite Hkey, map_map. apply Permutation_refl.
Qed.

Lemma fresh_shape_key ch label try ch' obs :
  fresh_shape ch label try ch' obs -> map key (ch_servers ch') = map key (ch_servers ch).
Proof. intros H. inversion H; subst; [reflexivity|congruence|assumption]. Qed.

Lemma nodup_addr_key l l' : map key l = map key l' -> NoDup (map sv_addr l) -> NoDup (map sv_addr l').
Proof.
  intros Hk Hnd.
  replace (map sv_addr l') with (map (fun k => fst (fst k)) (map key l')) by (rewrite map_map; reflexivity).
  rewrite <- Hk, map_map. exact Hnd.
Qed.

(* effect of one event on (index, failures) of every server *)
Definition kv_after_fail (a : Z) (l l' : list server) : Prop :=
  (forall b, b <> a -> kv b l' = kv b l) /\
  kv a l' = match kv a l with Some (i, f) => Some (i, wrap64 (f + 1)) | None => None end.

Definition kv_after_good (a : Z) (l l' : list server) : Prop :=
  (forall b, b <> a -> kv b l' = kv b l) /\
  kv a l' = match kv a l with Some (i, _) => Some (i, 0) | None => None end.

Lemma requeue_sound ch a status c ch' obs m :
  wf (ch_servers ch) -> agree m ch -> requeue ch a status c = Ok (ch', obs) ->
  map key (ch_servers ch') = map key (ch_servers ch) /\ mon_run m obs = Some m /\ agree m ch'.
Proof.
  intros Hwf Hag H. unfold requeue in H.
  destruct (requeue_sends ch a).
  - destruct (send_fresh_shape _ _ _ _ _ _ _ Hwf H) as (Hsh & Hcfg).
    split; [apply (fresh_shape_key _ _ _ _ _ Hsh)|]. apply (fresh_accept m ch _ _ ch' obs Hwf Hag Hsh Hcfg).
  - destruct (at_probe a).
    + injection H as <- <-. cbn [ch_servers set_servers].
      pose proof (recompute_key (ch_inflight ch) (ch_servers ch)) as Hck.
      split; [exact Hck|]. split; [reflexivity|].
      destruct Hag as (Hrot & Hnd & Hk). split; [exact Hrot|]. split; [exact Hnd|].
      intros b. rewrite Hk. symmetry. apply kv_key; [|exact Hck].
      apply (nodup_addr_key (ch_servers ch)); [symmetry; exact Hck|apply (wf_addr _ Hwf)].
    + injection H as <- <-. split; [reflexivity|]. split; [reflexivity|exact Hag].
Qed.

Lemma fail_attempt_sound ch a status c ch' obs m :
  wf (ch_servers ch) -> agree m ch -> fail_attempt ch a status c = Ok (ch', obs) ->
  wf (ch_servers ch') /\ kv_after_fail (at_server a) (ch_servers ch) (ch_servers ch') /\
  exists m', mon_run m obs = Some m' /\ agree m' ch'.
Proof.
  intros Hwf (Hrot & Hnd & Hk) H. unfold fail_attempt in H.
  set (ch0 := set_inflight ch (remove_attempt (at_label a) (ch_inflight ch))) in H.
  change (ch_servers ch0) with (ch_servers ch) in H.
  change (ch_now ch0) with (ch_now ch) in H. change (ch_delay ch0) with (ch_delay ch) in H.
  destruct (server_increment_failures (ch_now ch) (ch_delay ch) (at_server a) (ch_servers ch)) as [l1| |] eqn:Hinc;
    cbn [bind] in H; try discriminate.
  destruct (increment_spec _ _ _ _ _ Hwf Hinc) as (Hwf1 & Hoth & Hsame & Hnone).
  destruct (requeue (set_servers ch0 l1) a status c) as [[ch2 robs]| |] eqn:Hrq; cbn [bind fst snd] in H; try discriminate.
  injection H as <- <-.
  (* monitor after the failure callback *)
  set (m1 := match find_addr (at_server a) (ch_servers ch) with
             | Some _ => {| m_rotate := m_rotate m; m_servers := mon_update (at_server a) (fun f => wrap64 (f + 1)) (m_servers m) |}
             | None => m end).
  assert (kv_after_fail (at_server a) (ch_servers ch) l1) as Hkf.
  { split.
    - intros b Hb. unfold kv. rewrite (Hoth b Hb). reflexivity.
    - unfold kv. destruct (find_addr (at_server a) (ch_servers ch)) as [s|] eqn:Hf.
      + destruct (Hsame s eq_refl) as (s' & Hf' & Hi' & Hfl' & _). rewrite Hf', Hi', Hfl'. reflexivity.
      + rewrite (Hnone eq_refl), Hf. reflexivity. }
  assert (agree m1 (set_servers ch0 l1)) as Hag1.
  { destruct Hkf as (Hkf1 & Hkf2). unfold m1.
    destruct (find_addr (at_server a) (ch_servers ch)) as [s|] eqn:Hf.
    - split; [exact Hrot|]. split; [cbn [m_servers]; rewrite mon_update_addr; exact Hnd|].
      intros b. cbn [m_servers ch_servers set_servers]. rewrite mon_update_kv.
      destruct (Z.eqb_spec b (at_server a)) as [->|Hb].
      + rewrite Hkf2, Hk. reflexivity.
      + rewrite Hkf1 by exact Hb. apply Hk.
    - split; [exact Hrot|]. split; [exact Hnd|]. intros b. cbn [ch_servers set_servers].
      rewrite (Hnone eq_refl). apply Hk. }
  assert (mon_run m (match find_addr (at_server a) (ch_servers ch) with Some _ => [OFail (at_server a)] | None => [] end) = Some m1) as Hm1.
  { unfold m1. destruct (find_addr (at_server a) (ch_servers ch)); reflexivity. }
  destruct (requeue_sound (set_servers ch0 l1) a status c ch2 robs m1 Hwf1 Hag1 Hrq) as (Hkey & Hrun & Hag2).
  cbn [ch_servers set_servers] in Hkey.
  split; [eapply wf_key; [symmetry; exact Hkey|exact Hwf1]|]. split.
  - destruct Hkf as (Hkf1 & Hkf2).
    assert (forall b, kv b (ch_servers ch2) = kv b l1) as Hk2.
    { intros b. apply kv_key; [|exact Hkey]. apply (nodup_addr_key l1); [symmetry; exact Hkey|apply (wf_addr _ Hwf1)]. }
    split; [intros b Hb; rewrite Hk2; apply Hkf1; exact Hb|rewrite Hk2; exact Hkf2].
  - exists m1. split; [|exact Hag2]. rewrite mon_run_app, Hm1. exact Hrun.
Qed.

Lemma answer_sound ch label a m :
  wf (ch_servers ch) -> agree m ch ->
  let ch0 := set_inflight ch (remove_attempt label (ch_inflight ch)) in
  let l := clear_probe (at_server a) (server_set_good (at_server a) (ch_servers ch0)) in
  let gobs := match find_addr (at_server a) (ch_servers ch0) with Some _ => [OGood (at_server a)] | None => [] end in
  let dobs := if at_probe a then [] else [ODone label ARES_SUCCESS] in
  wf l /\ kv_after_good (at_server a) (ch_servers ch) l /\
  exists m', mon_run m (gobs ++ dobs) = Some m' /\ agree m' (set_servers ch0 l).
Proof.
  intros Hwf (Hrot & Hnd & Hk). cbn zeta. cbn [ch_servers set_inflight].
  destruct (set_good_spec (at_server a) (ch_servers ch) Hwf) as (Hwf1 & Hoth & Hsame & Hnone).
  set (l1 := server_set_good (at_server a) (ch_servers ch)) in *.
  pose proof (clear_probe_key (at_server a) l1) as Hck.
  assert (wf (clear_probe (at_server a) l1)) as Hwf2 by (eapply wf_key; [symmetry; exact Hck|exact Hwf1]).
  assert (forall b, kv b (clear_probe (at_server a) l1) = kv b l1) as Hk2.
  { intros b. apply kv_key; [apply (wf_addr _ Hwf2)|exact Hck]. }
  assert (kv_after_good (at_server a) (ch_servers ch) (clear_probe (at_server a) l1)) as Hkg.
  { split.
    - intros b Hb. rewrite Hk2. unfold kv. rewrite (Hoth b Hb). reflexivity.
    - rewrite Hk2. unfold kv. destruct (find_addr (at_server a) (ch_servers ch)) as [s|] eqn:Hf.
      + destruct (Hsame s eq_refl) as (s' & Hf' & Hi' & Hfl' & _). rewrite Hf', Hi', Hfl'. reflexivity.
      + rewrite (Hnone eq_refl), Hf. reflexivity. }
  split; [exact Hwf2|]. split; [exact Hkg|].
  set (m1 := match find_addr (at_server a) (ch_servers ch) with
             | Some _ => {| m_rotate := m_rotate m; m_servers := mon_update (at_server a) (fun _ => 0) (m_servers m) |}
             | None => m end).
  exists m1. split.
  - rewrite mon_run_app. unfold m1. destruct (find_addr (at_server a) (ch_servers ch)); destruct (at_probe a); reflexivity.
  - destruct Hkg as (Hkg1 & Hkg2). unfold m1.
    destruct (find_addr (at_server a) (ch_servers ch)) as [s|] eqn:Hf.
    + split; [exact Hrot|]. split; [cbn [m_servers]; rewrite mon_update_addr; exact Hnd|].
      intros b. cbn [m_servers ch_servers set_servers]. rewrite mon_update_kv.
      destruct (Z.eqb_spec b (at_server a)) as [->|Hb].
      * rewrite Hkg2, Hk. reflexivity.
      * rewrite Hkg1 by exact Hb. apply Hk.
    + split; [exact Hrot|]. split; [exact Hnd|]. intros b. cbn [ch_servers set_servers].
      destruct (Z.eqb_spec b (at_server a)) as [->|Hb].
      * rewrite Hkg2, Hk. unfold kv. rewrite Hf. reflexivity.
      * rewrite Hkg1 by exact Hb. apply Hk.
Qed.

(* what each event does to the table, C09_accounting *)
Definition accounting (ch : chan) (ev : event) (ch' : chan) : Prop :=
  match ev with
  | EvSend _ | EvAdvance _ | EvCancel | EvTruncated _ _ => forall b, kv b (ch_servers ch') = kv b (ch_servers ch)
  | EvAnswer label =>
    forall a, find_attempt label (ch_inflight ch) = Some a -> kv_after_good (at_server a) (ch_servers ch) (ch_servers ch')
  | EvConnLost a _ => kv_after_fail a (ch_servers ch) (ch_servers ch')
  | EvRefuse label _ _ | EvTimeout label _ =>
    forall a, find_attempt label (ch_inflight ch) = Some a -> kv_after_fail (at_server a) (ch_servers ch) (ch_servers ch')
  | EvSetServers addrs _ =>
    (forall b, kv b (ch_servers ch') = expected (ch_servers ch) b 0 (dedup [] addrs)) /\
    Permutation (map sv_addr (ch_servers ch')) (dedup [] addrs)
  end.

Lemma fold_clear_probe_key : forall (atts : list attempt) l,
  map key (fold_left (fun acc a => if at_probe a then clear_probe (at_server a) acc else acc) atts l) = map key l.
Proof.
  induction atts as [|a r IH]; intros l; [reflexivity|]. cbn [fold_left]. rewrite IH.
  destruct (at_probe a); [apply clear_probe_key|reflexivity].
Qed.

Lemma mon_run_dones m l : mon_run m (map (fun a => ODone (at_label a) ARES_ECANCELLED) l) = Some m.
Proof. induction l as [|a r IH]; [reflexivity|]. cbn [map mon_run mon_step]. exact IH. Qed.

Lemma requeue_all_sound st : forall vs ch cs n ch' obs m,
  wf (ch_servers ch) -> agree m ch -> requeue_all st ch vs cs n = Ok (ch', obs) ->
  map key (ch_servers ch') = map key (ch_servers ch) /\ mon_run m obs = Some m /\ agree m ch'.
Proof.
  induction vs as [|a r IH]; intros ch cs n ch' obs m Hwf Hag H.
  - injection H as <- <-. split; [reflexivity|]. split; [reflexivity|exact Hag].
  - cbn [requeue_all] in H.
    set (ch0 := set_inflight ch (remove_attempt (at_label a) (ch_inflight ch))) in H.
    assert (wf (ch_servers ch0)) as Hwf0 by exact Hwf.
    assert (agree m ch0) as Hag0 by exact Hag.
    destruct (requeue ch0 a st (nth_choice cs n)) as [[ch1 o1]| |] eqn:Hr; cbn [bind fst snd] in H; try discriminate.
    destruct (requeue_all st ch1 r cs (if requeue_sends ch0 a then S n else n)) as [[ch2 o2]| |] eqn:Hr2; cbn [bind fst snd] in H; try discriminate.
    injection H as <- <-.
    destruct (requeue_sound _ _ _ _ _ _ m Hwf0 Hag0 Hr) as (Hk1 & Hrun1 & Hag1).
    assert (wf (ch_servers ch1)) as Hwf1 by (eapply wf_key; [symmetry; exact Hk1|exact Hwf0]).
    destruct (IH _ _ _ _ _ m Hwf1 Hag1 Hr2) as (Hk2 & Hrun2 & Hag2).
    split; [rewrite Hk2, Hk1; reflexivity|]. split; [rewrite mon_run_app, Hrun1; exact Hrun2|exact Hag2].
Qed.

Lemma step_sound ch ev ch' obs m :
  wf (ch_servers ch) -> agree m ch -> step ch ev = Ok (ch', obs) ->
  wf (ch_servers ch') /\ accounting ch ev ch' /\ exists m', mon_run m obs = Some m' /\ agree m' ch'.
Proof.
  intros Hwf Hag H. destruct ev as [c|label|label status c|label c|ms| |tl tc|a0 cs0|addrs cs]; cbn [step] in H.
  - (* EvSend *)
    destruct (Nat.eqb (length (ch_servers ch)) 0).
    + injection H as <- <-. split; [exact Hwf|]. split; [intros b; reflexivity|].
      exists m. split; [reflexivity|exact Hag].
    + assert (wf (ch_servers (bump_label ch))) as Hwf' by exact Hwf.
      assert (agree m (bump_label ch)) as Hag' by exact Hag.
      destruct (send_fresh_shape _ _ _ _ _ _ _ Hwf' H) as (Hsh & Hcfg).
      pose proof (fresh_shape_key _ _ _ _ _ Hsh) as Hkey. cbn [ch_servers bump_label] in Hkey.
      split; [eapply wf_key; [symmetry; exact Hkey|exact Hwf]|]. split.
      * intros b. apply kv_key; [|exact Hkey]. apply (nodup_addr_key (ch_servers ch)); [symmetry; exact Hkey|apply (wf_addr _ Hwf)].
      * exists m. apply (fresh_accept m (bump_label ch) _ _ ch' obs Hwf' Hag' Hsh Hcfg).
  - (* EvAnswer *)
    destruct (find_attempt label (ch_inflight ch)) as [a|] eqn:Hfa; [|discriminate].
    injection H as <- <-.
    destruct (answer_sound ch label a m Hwf Hag) as (Hwf2 & Hkg & m' & Hrun & Hag2).
    cbn zeta in Hwf2, Hkg, Hag2. cbn [ch_servers ch_inflight set_inflight set_servers] in *.
    set (l0 := clear_probe (at_server a) (server_set_good (at_server a) (ch_servers ch))) in *.
    set (lf := if at_probe a then recompute_probe (remove_attempt label (ch_inflight ch)) l0 else l0).
    assert (map key lf = map key l0) as Hkf by (unfold lf; destruct (at_probe a); [apply recompute_key|reflexivity]).
    assert (forall b, kv b lf = kv b l0) as Hkvf.
    { intros b. symmetry. apply kv_key; [apply (wf_addr _ Hwf2)|symmetry; exact Hkf]. }
    split; [eapply wf_key; [symmetry; exact Hkf|exact Hwf2]|]. split.
    + intros a0 Ha0. rewrite Hfa in Ha0. injection Ha0 as <-. destruct Hkg as (Hg1 & Hg2).
      split; [intros b Hb; rewrite Hkvf; apply Hg1; exact Hb|rewrite Hkvf; exact Hg2].
    + exists m'. split; [exact Hrun|]. destruct Hag2 as (Hr2 & Hn2 & Hk2).
      split; [exact Hr2|]. split; [exact Hn2|]. intros b. cbn [ch_servers set_servers set_inflight]. rewrite Hkvf. apply Hk2.
  - (* EvRefuse *)
    destruct (find_attempt label (ch_inflight ch)) as [a|] eqn:Hfa; [|discriminate].
    destruct (fail_attempt_sound _ _ _ _ _ _ m Hwf Hag H) as (Hwf2 & Hkf & Hm).
    split; [exact Hwf2|]. split; [intros a0 Ha0; rewrite Hfa in Ha0; injection Ha0 as <-; exact Hkf|exact Hm].
  - (* EvTimeout *)
    destruct (find_attempt label (ch_inflight ch)) as [a|] eqn:Hfa; [|discriminate].
    destruct (fail_attempt_sound _ _ _ _ _ _ m Hwf Hag H) as (Hwf2 & Hkf & Hm).
    split; [exact Hwf2|]. split; [intros a0 Ha0; rewrite Hfa in Ha0; injection Ha0 as <-; exact Hkf|exact Hm].
  - (* EvAdvance *)
    destruct (c_timeadd ms (fst (ch_now ch)) (snd (ch_now ch))) as [t| |]; cbn [bind] in H; try discriminate.
    injection H as <- <-. split; [exact Hwf|]. split; [intros b; reflexivity|].
    exists m. split; [reflexivity|exact Hag].
  - (* EvCancel *)
    injection H as <- <-. cbn [ch_servers set_inflight set_servers].
    set (lc := if existsb at_probe (ch_inflight ch) then recompute_probe [] (ch_servers ch) else ch_servers ch).
    assert (map key lc = map key (ch_servers ch)) as Hck
      by (unfold lc; destruct (existsb at_probe (ch_inflight ch)); [apply recompute_key|reflexivity]).
    assert (forall b, kv b lc = kv b (ch_servers ch)) as Hk2.
    { intros b. symmetry. apply kv_key; [apply (wf_addr _ Hwf)|symmetry; exact Hck]. }
    split; [eapply wf_key; [symmetry; exact Hck|exact Hwf]|]. split; [exact Hk2|].
    exists m. split; [apply mon_run_dones|].
    destruct Hag as (Hrot & Hnd & Hk). split; [exact Hrot|]. split; [exact Hnd|].
    intros b. cbn [ch_servers set_inflight set_servers]. rewrite Hk2. apply Hk.
  - (* EvTruncated *)
    destruct (find_attempt tl (ch_inflight ch)) as [a|] eqn:Hfa; [|discriminate].
    destruct (at_probe a); [discriminate|].
    set (ch0 := set_inflight ch (remove_attempt tl (ch_inflight ch))) in H.
    assert (wf (ch_servers ch0)) as Hwf' by exact Hwf.
    assert (agree m ch0) as Hag' by exact Hag.
    destruct (send_fresh_shape _ _ _ _ _ _ _ Hwf' H) as (Hsh & Hcfg).
    pose proof (fresh_shape_key _ _ _ _ _ Hsh) as Hkey. cbn [ch_servers set_inflight ch0] in Hkey.
    split; [eapply wf_key; [symmetry; exact Hkey|exact Hwf]|]. split.
    + intros b. apply kv_key; [|exact Hkey]. apply (nodup_addr_key (ch_servers ch)); [symmetry; exact Hkey|apply (wf_addr _ Hwf)].
    + exists m. apply (fresh_accept m ch0 _ _ ch' obs Hwf' Hag' Hsh Hcfg).
  - (* EvConnLost *)
    destruct (find_addr a0 (ch_servers ch)) as [s0|] eqn:Hf0; [|discriminate].
    destruct (server_increment_failures (ch_now ch) (ch_delay ch) a0 (ch_servers ch)) as [l1| |] eqn:Hinc;
      cbn [bind] in H; try discriminate.
    destruct (increment_spec _ _ _ _ _ Hwf Hinc) as (Hwf1 & Hoth & Hsame & Hnone).
    destruct (requeue_all ARES_ECONNREFUSED (set_servers ch l1) (filter (fun x => at_server x =? a0) (ch_inflight ch)) cs0 0)
      as [[ch2 o2]| |] eqn:Hrq; cbn [bind fst snd] in H; try discriminate.
    injection H as <- <-.
    assert (kv_after_fail a0 (ch_servers ch) l1) as Hkf.
    { split.
      - intros b Hb. unfold kv. rewrite (Hoth b Hb). reflexivity.
      - unfold kv. rewrite Hf0. destruct (Hsame s0 Hf0) as (s' & Hf' & Hi' & Hfl' & _). rewrite Hf', Hi', Hfl'. reflexivity. }
    destruct Hag as (Hrot & Hnd & Hk).
    set (m1 := {| m_rotate := m_rotate m; m_servers := mon_update a0 (fun f => wrap64 (f + 1)) (m_servers m) |}).
    assert (agree m1 (set_servers ch l1)) as Hag1.
    { destruct Hkf as (Hkf1 & Hkf2). split; [exact Hrot|]. split; [cbn [m1 m_servers]; rewrite mon_update_addr; exact Hnd|].
      intros b. cbn [m1 m_servers ch_servers set_servers]. rewrite mon_update_kv.
      destruct (Z.eqb_spec b a0) as [->|Hb]; [rewrite Hkf2, Hk; reflexivity|rewrite Hkf1 by exact Hb; apply Hk]. }
    assert (wf (ch_servers (set_servers ch l1))) as Hwf1' by exact Hwf1.
    destruct (requeue_all_sound _ _ _ _ _ _ _ m1 Hwf1' Hag1 Hrq) as (Hkey & Hrun & Hag2).
    cbn [ch_servers set_servers] in Hkey.
    assert (forall b, kv b (ch_servers ch2) = kv b l1) as Hk2.
    { intros b. apply kv_key; [|exact Hkey]. apply (nodup_addr_key l1); [symmetry; exact Hkey|apply (wf_addr _ Hwf1)]. }
    split; [eapply wf_key; [symmetry; exact Hkey|exact Hwf1]|]. split.
    + destruct Hkf as (Hkf1 & Hkf2). split; [intros b Hb; rewrite Hk2; apply Hkf1; exact Hb|rewrite Hk2; exact Hkf2].
    + exists m1. split; [|exact Hag2]. cbn [mon_run mon_step]. fold m1. exact Hrun.
  - (* EvSetServers *)
    destruct (servers_update_wf (ch_servers ch) addrs Hwf) as (Hwfk & Hkv & Hperm).
    set (keep := servers_update (ch_servers ch) addrs) in *.
    destruct (requeue_all ARES_SUCCESS (set_servers ch keep) (victims (servers_stale (ch_servers ch) addrs) (ch_inflight ch)) cs 0)
      as [[ch2 o2]| |] eqn:Hrq; cbn [bind fst snd] in H; try discriminate.
    injection H as <- <-.
    destruct Hag as (Hrot & Hnd & Hk).
    set (m1 := {| m_rotate := m_rotate m; m_servers := mon_build (m_servers m) (dedup [] addrs) 0 |}).
    assert (agree m1 (set_servers ch keep)) as Hag1.
    { split; [exact Hrot|]. split.
      - cbn [m1 m_servers]. rewrite mon_build_addr. apply (dedup_nodup addrs []).
      - intros b. cbn [m1 m_servers ch_servers set_servers]. rewrite mon_build_kv, Hkv. apply expected_kv. exact Hk. }
    assert (wf (ch_servers (set_servers ch keep))) as Hwf1 by exact Hwfk.
    destruct (requeue_all_sound _ _ _ _ _ _ _ m1 Hwf1 Hag1 Hrq) as (Hkey & Hrun & Hag2).
    cbn [ch_servers set_servers] in Hkey.
    assert (forall b, kv b (ch_servers ch2) = kv b keep) as Hk2.
    { intros b. apply kv_key; [|exact Hkey]. apply (nodup_addr_key keep); [symmetry; exact Hkey|apply (wf_addr _ Hwfk)]. }
    split; [eapply wf_key; [symmetry; exact Hkey|exact Hwfk]|]. split.
    + split; [intros b; rewrite Hk2; apply Hkv|].
      replace (map sv_addr (ch_servers ch2)) with (map (fun k => fst (fst k)) (map key (ch_servers ch2))) by (rewrite map_map; reflexivity).
      rewrite Hkey, map_map. exact Hperm.
    + exists m1. split; [|exact Hag2]. cbn [mon_run mon_step]. fold m1. exact Hrun.
Qed.

Lemma run_sound : forall evs ch ch' obs m,
  wf (ch_servers ch) -> agree m ch -> run ch evs = Ok (ch', obs) ->
  wf (ch_servers ch') /\ exists m', mon_run m obs = Some m' /\ agree m' ch'.
Proof.
  induction evs as [|e r IH]; intros ch ch' obs m Hwf Hag H.
  - injection H as <- <-. split; [exact Hwf|]. exists m. split; [reflexivity|exact Hag].
  - cbn [run] in H.
    destruct (step ch e) as [[ch1 o1]| |] eqn:Hs; cbn [bind fst snd] in H; try discriminate.
    destruct (run ch1 r) as [[ch2 o2]| |] eqn:Hr; cbn [bind fst snd] in H; try discriminate.
    injection H as <- <-.
    destruct (step_sound _ _ _ _ m Hwf Hag Hs) as (Hwf1 & _ & m1 & Hrun1 & Hag1).
    destruct (IH _ _ _ m1 Hwf1 Hag1 Hr) as (Hwf2 & m2 & Hrun2 & Hag2).
    split; [exact Hwf2|]. exists m2. split; [|exact Hag2]. rewrite mon_run_app, Hrun1. exact Hrun2.
Qed.

Lemma init_sound addrs rotate tries chance delay now :
  wf (ch_servers (init_chan addrs rotate tries chance delay now)) /\
  agree (mon_init addrs rotate) (init_chan addrs rotate tries chance delay now).
Proof.
  destruct (servers_update_wf [] addrs wf_nil) as (Hwf & Hkv & _).
  split; [exact Hwf|]. split; [reflexivity|]. split.
  - cbn [mon_init m_servers]. rewrite mon_build_addr. apply (dedup_nodup addrs []).
  - intros b. cbn [mon_init m_servers init_chan ch_servers]. rewrite mon_build_kv, Hkv. reflexivity.
Qed.

(* trace level: every history of the model, from any initial configuration, with any random
   draws and any order of timeouts, is accepted by the monitor *)
Lemma monitor_accepts addrs rotate tries chance delay now evs ch obs :
  run (init_chan addrs rotate tries chance delay now) evs = Ok (ch, obs) ->
  wf (ch_servers ch) /\ exists m, mon_run (mon_init addrs rotate) obs = Some m.
Proof.
  intros H. destruct (init_sound addrs rotate tries chance delay now) as (Hwf & Hag).
  destruct (run_sound _ _ _ _ _ Hwf Hag H) as (Hwf' & m & Hrun & _).
  split; [exact Hwf'|]. exists m. exact Hrun.
Qed.

(* ------------------------------------------------------------------------------------ *)
(* Probes                                                                                *)
(* ------------------------------------------------------------------------------------ *)
Definition with_chance (ch : chan) (chance : Z) : chan :=
  {| ch_servers := ch_servers ch; ch_rotate := ch_rotate ch; ch_tries := ch_tries ch; ch_chance := chance;
     ch_delay := ch_delay ch; ch_now := ch_now ch; ch_inflight := ch_inflight ch;
     ch_next_label := ch_next_label ch |}.

Definition key4 (s : server) : Z * Z * Z * (Z * Z) := (sv_addr s, sv_idx s, sv_fail s, sv_retry s).
Definition user_obs (o : obs) : bool := match o with OTx _ _ true => false | _ => true end.
Definition user_attempt (a : attempt) : bool := negb (at_probe a).

Lemma replace_addr_key4 s' l s :
  find_addr (sv_addr s') l = Some s -> key4 s' = key4 s -> map key4 (replace_addr s' l) = map key4 l.
Proof.
  induction l as [|x r IH]; [discriminate|]. cbn [find_addr replace_addr].
  destruct (sv_addr x =? sv_addr s').
  - intros H Hk. injection H as <-. cbn [map]. rewrite Hk. reflexivity.
  - intros H Hk. cbn [map]. rewrite (IH H Hk). reflexivity.
Qed.

(* C09_probe_isolated: the probe copy does not alter the user's attempt.  Running the same
   send with probing disabled (retry chance 0) gives the same user-visible observations, the
   same server table (address, index, failures, retry time) and the same user attempts in
   flight; the only differences are the probe's own datagram, its in-flight entry and the
   probe_pending flag of the probed server. *)
Lemma probe_isolated ch label try err c ch1 obs1 :
  wf (ch_servers ch) -> send_fresh ch label try err c = Ok (ch1, obs1) ->
  exists ch0, send_fresh (with_chance ch 0) label try err c = Ok (ch0, filter user_obs obs1) /\
    map key4 (ch_servers ch0) = map key4 (ch_servers ch1) /\
    filter user_attempt (ch_inflight ch0) = filter user_attempt (ch_inflight ch1).
Proof.
  intros Hwf H. unfold send_fresh in H |- *. cbn [with_chance ch_servers ch_rotate ch_chance ch_now ch_inflight].
  destruct (choose_server (ch_rotate ch) (c_rot c) (ch_servers ch)) as [s|] eqn:Hch.
  2:{ injection H as <- <-. eexists. split; [reflexivity|]. split; reflexivity. }
  assert (ares_probe_failed_server 0 (ch_now ch) (c_probe c) s (ch_servers ch) = Ok None) as Hp0.
  { unfold ares_probe_failed_server. rewrite Z.eqb_refl, orb_true_r. reflexivity. }
  destruct ((sv_fail s =? 0) && (try =? 0)).
  2:{ injection H as <- <-. eexists. split; [reflexivity|]. split; reflexivity. }
  rewrite Hp0. cbn [bind].
  destruct (ares_probe_failed_server (ch_chance ch) (ch_now ch) (c_probe c) s (ch_servers ch)) as [p| |] eqn:Hp;
    cbn [bind] in H; try discriminate.
  destruct p as [ps|].
  2:{ injection H as <- <-. eexists. split; [reflexivity|]. split; reflexivity. }
  injection H as <- <-. eexists. split; [reflexivity|].
  cbn [ch_servers ch_inflight set_inflight bump_label set_servers]. split.
  - symmetry. unfold ares_probe_failed_server in Hp.
    destruct ((match last_server (ch_servers ch) with Some s0 => sv_fail s0 =? 0 | None => false end) || (ch_chance ch =? 0));
      [discriminate|].
    destruct (negb (c_probe c mod ch_chance ch =? 0)); [discriminate|].
    destruct (find_probe_target (ch_now ch) (ch_servers ch)) as [q| |] eqn:Hq; cbn [bind] in Hp; try discriminate.
    destruct q as [ps0|]; [|discriminate].
    destruct (sv_addr ps0 =? sv_addr s); [discriminate|]. injection Hp as <-.
    destruct (find_probe_target_some _ _ _ Hq) as (Hin & _).
    apply (replace_addr_key4 _ (ch_servers ch) ps0); [|reflexivity].
    cbn [sv_addr]. apply find_addr_in_nodup; [apply (wf_addr _ Hwf)|exact Hin].
  - rewrite !filter_app. cbn [filter user_attempt at_probe negb]. rewrite app_nil_r. reflexivity.
Qed.

(* a probe is never retried and never reaches the user: when a probe attempt fails, the only
   observation is the failure callback of the probed server, no datagram leaves, nothing is
   added to the attempts in flight *)
Lemma probe_failure_ends ch a status c ch' obs :
  at_probe a = true -> fail_attempt ch a status c = Ok (ch', obs) ->
  (obs = [OFail (at_server a)] \/ obs = []) /\
  ch_inflight ch' = remove_attempt (at_label a) (ch_inflight ch).
Proof.
  intros Hp H. unfold fail_attempt in H.
  destruct (server_increment_failures _ _ _ _) as [l1| |]; cbn [bind] in H; try discriminate.
  unfold requeue, requeue_sends in H. rewrite Hp in H. cbn [negb] in H. rewrite andb_false_r in H. cbn [bind fst snd] in H.
  injection H as <- <-. cbn [ch_inflight set_servers set_inflight]. split; [|reflexivity].
  cbn [ch_servers set_inflight]. destruct (find_addr (at_server a) (ch_servers ch)); [left|right]; reflexivity.
Qed.

(* when a probe is sent: only with the user's first attempt, which went to a server without
   failures; to another server that has failures, no probe pending, and whose retry time has
   come; and only if the draw allows it *)
Lemma probe_sent_conditions ch label try err c ch' obs pl pa :
  wf (ch_servers ch) -> send_fresh ch label try err c = Ok (ch', obs) -> In (OTx pl pa true) obs ->
  try = 0 /\ ch_chance ch <> 0 /\ c_probe c mod ch_chance ch = 0 /\
  exists ps, In ps (ch_servers ch) /\ sv_addr ps = pa /\ 0 < sv_fail ps /\ sv_probe ps = false /\
    (exists t, c_ares_timedout (fst (ch_now ch)) (fst (sv_retry ps)) (snd (ch_now ch)) (snd (sv_retry ps)) = Ok t /\ t <> 0) /\
    exists su, choose_server (ch_rotate ch) (c_rot c) (ch_servers ch) = Some su /\ sv_fail su = 0 /\ sv_addr su <> pa.
Proof.
  intros Hwf H Hin. unfold send_fresh in H.
  destruct (choose_server (ch_rotate ch) (c_rot c) (ch_servers ch)) as [s|] eqn:Hch.
  2:{ injection H as <- <-. destruct Hin as [Hin|[]]. discriminate. }
  destruct ((sv_fail s =? 0) && (try =? 0)) eqn:Hcond.
  2:{ injection H as <- <-. destruct Hin as [Hin|[]]. discriminate. }
  apply andb_true_iff in Hcond. destruct Hcond as (Hf0 & Ht0). apply Z.eqb_eq in Hf0. apply Z.eqb_eq in Ht0.
  destruct (ares_probe_failed_server (ch_chance ch) (ch_now ch) (c_probe c) s (ch_servers ch)) as [p| |] eqn:Hp;
    cbn [bind] in H; try discriminate.
  destruct p as [ps|].
  2:{ injection H as <- <-. destruct Hin as [Hin|[]]. discriminate. }
  injection H as <- <-. destruct Hin as [Hin|[Hin|[]]]; [discriminate|]. injection Hin as _ <-.
  unfold ares_probe_failed_server in Hp.
  destruct ((match last_server (ch_servers ch) with Some s0 => sv_fail s0 =? 0 | None => false end) || (ch_chance ch =? 0)) eqn:Hnf;
    [discriminate|].
  apply orb_false_iff in Hnf. destruct Hnf as (_ & Hc0). apply Z.eqb_neq in Hc0.
  destruct (negb (c_probe c mod ch_chance ch =? 0)) eqn:Hr; [discriminate|].
  apply negb_false_iff, Z.eqb_eq in Hr.
  destruct (find_probe_target (ch_now ch) (ch_servers ch)) as [q| |] eqn:Hq; cbn [bind] in Hp; try discriminate.
  destruct q as [ps0|]; [|discriminate].
  destruct (Z.eqb_spec (sv_addr ps0) (sv_addr s)) as [He|Hne]; [discriminate|]. injection Hp as <-.
  destruct (find_probe_target_some _ _ _ Hq) as (Hpin & Hpos & Hpr & Htm).
  split; [exact Ht0|]. split; [exact Hc0|]. split; [exact Hr|].
  exists ps0. split; [exact Hpin|]. split; [reflexivity|]. split; [exact Hpos|]. split; [exact Hpr|]. split; [exact Htm|].
  exists s. split; [reflexivity|]. split; [exact Hf0|]. congruence.
Qed.

(* ------------------------------------------------------------------------------------ *)
(* The sorted order is unique                                                            *)
(* ------------------------------------------------------------------------------------ *)
Lemma sorted_unique : forall l1 l2,
  StronglySorted ltP l1 -> StronglySorted ltP l2 -> Permutation l1 l2 -> l1 = l2.
Proof.
  induction l1 as [|x r IH]; intros l2 H1 H2 Hp.
  - apply Permutation_nil in Hp. congruence.
  - destruct l2 as [|y r2]; [apply Permutation_sym, Permutation_nil in Hp; discriminate|].
    inversion H1 as [|? ? Hs1 Ha1]; subst. inversion H2 as [|? ? Hs2 Ha2]; subst.
    assert (x = y) as ->.
    { assert (In x (y :: r2)) as Hx by (eapply Permutation_in; [exact Hp|left; reflexivity]).
      assert (In y (x :: r)) as Hy by (eapply Permutation_in; [apply Permutation_sym; exact Hp|left; reflexivity]).
      destruct Hx as [->|Hx]; [reflexivity|]. destruct Hy as [->|Hy]; [reflexivity|].
      rewrite Forall_forall in Ha1, Ha2. pose proof (Ha1 y Hy) as Hxy. pose proof (Ha2 x Hx) as Hyx.
      unfold ltP in *. rewrite (srv_lt_asym _ _ Hxy) in Hyx. discriminate. }
    f_equal. apply IH; [exact Hs1|exact Hs2|]. eapply Permutation_cons_inv. exact Hp.
Qed.

(* ------------------------------------------------------------------------------------ *)
(* The choice is total                                                                   *)
(* ------------------------------------------------------------------------------------ *)
Definition draw0 : choices := {| c_rot := 0; c_probe := 0 |}.

Lemma choose_server_total rotate c l : l <> [] -> exists s, choose_server rotate c l = Some s.
Proof.
  intros Hne. destruct l as [|x r]; [congruence|]. unfold choose_server. destruct rotate.
  - unfold ares_random_server, count_highest_prio_servers. cbn [count_prio].
    replace (negb (SIZE_MAX =? SIZE_MAX)) with false by reflexivity. cbn [andb].
    set (n := count_prio r (sv_fail x)).
    assert (Z.to_nat (c mod Z.of_nat (S n)) < length (x :: r))%nat as Hlt.
    { pose proof (Z.mod_pos_bound c (Z.of_nat (S n)) ltac:(lia)).
      pose proof (count_prio_le_length r (sv_fail x)). fold n in H0. cbn [length]. lia. }
    destruct (nth_error (x :: r) (Z.to_nat (c mod Z.of_nat (S n)))) as [s|] eqn:Hn; [exists s; reflexivity|].
    apply nth_error_None in Hn. lia.
  - exists x. reflexivity.
Qed.

(* ------------------------------------------------------------------------------------ *)
(* Structure of one send                                                                 *)
(* ------------------------------------------------------------------------------------ *)
Definition mk_attempt (label : nat) (srv try err : Z) (probe : bool) : attempt :=
  {| at_label := label; at_server := srv; at_try := try; at_err := err; at_probe := probe |}.
Definition set_probe (s : server) (p : bool) : server :=
  {| sv_addr := sv_addr s; sv_idx := sv_idx s; sv_fail := sv_fail s; sv_retry := sv_retry s; sv_probe := p |}.

Inductive fresh_struct (ch : chan) (label : nat) (try err : Z) (c : choices) : chan -> list obs -> Prop :=
| FtNone : choose_server (ch_rotate ch) (c_rot c) (ch_servers ch) = None ->
    fresh_struct ch label try err c ch [ODone label ARES_ENOSERVER]
| FtPlain ch' s :
    choose_server (ch_rotate ch) (c_rot c) (ch_servers ch) = Some s ->
    ch_servers ch' = ch_servers ch -> ch_next_label ch' = ch_next_label ch ->
    ch_inflight ch' = ch_inflight ch ++ [mk_attempt label (sv_addr s) try err false] ->
    ((sv_fail s =? 0) && (try =? 0) = false \/
     ares_probe_failed_server (ch_chance ch) (ch_now ch) (c_probe c) s (ch_servers ch) = Ok None) ->
    fresh_struct ch label try err c ch' [OTx label (sv_addr s) false]
| FtProbe ch' s ps :
    choose_server (ch_rotate ch) (c_rot c) (ch_servers ch) = Some s ->
    sv_fail s = 0 -> try = 0 ->
    ares_probe_failed_server (ch_chance ch) (ch_now ch) (c_probe c) s (ch_servers ch) = Ok (Some ps) ->
    ch_servers ch' = replace_addr (set_probe ps true) (ch_servers ch) ->
    ch_next_label ch' = S (ch_next_label ch) ->
    ch_inflight ch' = ch_inflight ch ++ [mk_attempt label (sv_addr s) try err false;
                                         mk_attempt (ch_next_label ch) (sv_addr ps) 0 ARES_SUCCESS true] ->
    fresh_struct ch label try err c ch' [OTx label (sv_addr s) false; OTx (ch_next_label ch) (sv_addr ps) true].

Lemma send_fresh_struct ch label try err c ch' obs :
  send_fresh ch label try err c = Ok (ch', obs) ->
  fresh_struct ch label try err c ch' obs /\ ch_tries ch' = ch_tries ch /\ ch_now ch' = ch_now ch /\
  ch_chance ch' = ch_chance ch /\ ch_rotate ch' = ch_rotate ch /\ ch_delay ch' = ch_delay ch.
Proof.
  intros H. unfold send_fresh in H.
  destruct (choose_server (ch_rotate ch) (c_rot c) (ch_servers ch)) as [s|] eqn:Hch.
  2:{ injection H as <- <-. split; [apply FtNone; exact Hch|repeat split]. }
  destruct ((sv_fail s =? 0) && (try =? 0)) eqn:Hcond.
  2:{ injection H as <- <-. split; [|repeat split]. eapply FtPlain; try reflexivity; [exact Hch|left; exact Hcond]. }
  destruct (ares_probe_failed_server (ch_chance ch) (ch_now ch) (c_probe c) s (ch_servers ch)) as [p| |] eqn:Hp;
    cbn [bind] in H; try discriminate.
  destruct p as [ps|].
  2:{ injection H as <- <-. split; [|repeat split]. eapply FtPlain; try reflexivity; [exact Hch|right; exact Hp]. }
  injection H as <- <-. split; [|repeat split].
  apply andb_true_iff in Hcond. destruct Hcond as (Hf0 & Ht0). apply Z.eqb_eq in Hf0. apply Z.eqb_eq in Ht0.
  eapply FtProbe; try reflexivity; try assumption.
  cbn [ch_inflight set_inflight bump_label set_servers]. rewrite <- app_assoc. reflexivity.
Qed.

(* ------------------------------------------------------------------------------------ *)
(* Invariants of reachable states: labels, pending probes, retry budget                  *)
(* ------------------------------------------------------------------------------------ *)
Definition labels_ok (ch : chan) : Prop :=
  NoDup (map at_label (ch_inflight ch)) /\
  forall a, In a (ch_inflight ch) -> (at_label a < ch_next_label ch)%nat.

(* probe_pending is set only while a probe to that server is in flight ([e]: one address may
   be exempt while its probe is being ended) *)
Definition probe_inv_but (e : option Z) (ch : chan) : Prop :=
  forall b s, find_addr b (ch_servers ch) = Some s -> sv_probe s = true -> Some b <> e ->
    exists x, In x (ch_inflight ch) /\ at_probe x = true /\ at_server x = b.
Definition probe_inv := probe_inv_but None.

Lemma find_attempt_some lab l a : find_attempt lab l = Some a -> In a l /\ at_label a = lab.
Proof.
  induction l as [|x r IH]; [discriminate|]. cbn [find_attempt].
  destruct (Nat.eqb_spec (at_label x) lab) as [He|Hne].
  - intros H. injection H as <-. split; [left; reflexivity|exact He].
  - intros H. destruct (IH H). split; [right; assumption|assumption].
Qed.

Lemma remove_attempt_in lab l x : In x (remove_attempt lab l) -> In x l.
Proof.
  induction l as [|y r IH]; [intros []|]. cbn [remove_attempt].
  destruct (Nat.eqb (at_label y) lab); [intros H; right; exact H|].
  intros [->|H]; [left; reflexivity|right; apply IH; exact H].
Qed.

Lemma remove_attempt_keeps lab l x : In x l -> at_label x <> lab -> In x (remove_attempt lab l).
Proof.
  induction l as [|y r IH]; [intros []|]. cbn [remove_attempt]. intros Hin Hne.
  destruct (Nat.eqb_spec (at_label y) lab) as [He|Hn].
  - destruct Hin as [->|Hin]; [congruence|exact Hin].
  - destruct Hin as [->|Hin]; [left; reflexivity|right; apply IH; assumption].
Qed.

Lemma remove_attempt_nodup lab l :
  NoDup (map at_label l) -> NoDup (map at_label (remove_attempt lab l)) /\ ~ In lab (map at_label (remove_attempt lab l)).
Proof.
  induction l as [|y r IH]; intros H; [split; [constructor|intros []]|].
  cbn [map] in H. inversion H as [|? ? Hn Hr]; subst. cbn [remove_attempt].
  destruct (Nat.eqb_spec (at_label y) lab) as [He|Hne].
  - split; [exact Hr|]. rewrite <- He. exact Hn.
  - destruct (IH Hr) as (H1 & H2). cbn [map]. split.
    + constructor; [|exact H1]. intros Hin. apply Hn. apply in_map_iff in Hin. destruct Hin as (z & Hz & Hzin).
      rewrite <- Hz. apply in_map. eapply remove_attempt_in. exact Hzin.
    + intros [Hin|Hin]; [congruence|exact (H2 Hin)].
Qed.

Lemma nodup_map_eq {A B} (f : A -> B) l x y : NoDup (map f l) -> In x l -> In y l -> f x = f y -> x = y.
Proof.
  induction l as [|z r IH]; intros Hnd Hx Hy He; [destruct Hx|].
  cbn [map] in Hnd. inversion Hnd as [|? ? Hn Hr]; subst.
  destruct Hx as [->|Hx]; destruct Hy as [->|Hy]; try reflexivity.
  - exfalso. apply Hn. rewrite He. apply in_map. exact Hy.
  - exfalso. apply Hn. rewrite <- He. apply in_map. exact Hx.
  - apply IH; assumption.
Qed.

Lemma clear_probe_find a l b :
  find_addr b (clear_probe a l) =
  match find_addr b l with Some s => Some (if b =? a then set_probe s false else s) | None => None end.
Proof.
  unfold clear_probe. destruct (find_addr a l) as [sa|] eqn:Hfa.
  - rewrite replace_find. cbn [sv_addr]. pose proof (find_addr_some a l sa Hfa) as (_ & Hsa). subst a.
    destruct (Z.eqb_spec b (sv_addr sa)) as [->|Hne].
    + rewrite Hfa. reflexivity.
    + destruct (find_addr b l); reflexivity.
  - destruct (Z.eqb_spec b a) as [->|Hne]; [rewrite Hfa; reflexivity|]. destruct (find_addr b l); reflexivity.
Qed.

Lemma probe_failed_some chance now r used l ps :
  ares_probe_failed_server chance now r used l = Ok (Some ps) ->
  In ps l /\ 0 < sv_fail ps /\ sv_probe ps = false /\ sv_addr ps <> sv_addr used.
Proof.
  unfold ares_probe_failed_server.
  destruct ((match last_server l with Some s => sv_fail s =? 0 | None => false end) || (chance =? 0)); [discriminate|].
  destruct (negb (r mod chance =? 0)); [discriminate|].
  destruct (find_probe_target now l) as [q| |] eqn:Hq; cbn [bind]; try discriminate.
  destruct q as [ps0|]; [|discriminate].
  destruct (Z.eqb_spec (sv_addr ps0) (sv_addr used)) as [He|Hne]; [discriminate|]. intros H. injection H as <-.
  destruct (find_probe_target_some _ _ _ Hq) as (Hin & Hpos & Hpr & _). repeat split; assumption.
Qed.

Lemma NoDup_app_one {A} (l : list A) x : NoDup l -> ~ In x l -> NoDup (l ++ [x]).
Proof.
  induction l as [|y r IH]; intros Hnd Hn; [constructor; [intros []|constructor]|].
  inversion Hnd as [|? ? Hy Hr]; subst. cbn [app]. constructor.
  - intros Hin. apply in_app_iff in Hin. destruct Hin as [Hin|[<-|[]]]; [exact (Hy Hin)|apply Hn; left; reflexivity].
  - apply IH; [exact Hr|]. intros Hin. apply Hn. right. exact Hin.
Qed.

(* everything the two monitors and the liveness argument need to know about a reachable state *)
Record inv (bm : budget_mon) (ch : chan) : Prop := {
  i_wf : wf (ch_servers ch);
  i_lab : labels_ok ch;
  i_probe : probe_inv ch;
  i_tries : b_tries bm = ch_tries ch;
  i_nsrv : b_nsrv bm = length (ch_servers ch);
  i_cnt : forall a, In a (ch_inflight ch) -> at_probe a = false ->
            at_try a + 1 <= Z.of_nat (count_occ Nat.eq_dec (b_txs bm) (at_label a));
  i_txlab : forall l, In l (b_txs bm) -> (l < ch_next_label ch)%nat
}.

Definition add_tx (bm : budget_mon) (l : nat) : budget_mon :=
  {| b_tries := b_tries bm; b_nsrv := b_nsrv bm; b_txs := l :: b_txs bm |}.

(* one fresh attempt of query [label], which is not in flight at the moment *)
Lemma fresh_inv bm ch e label try err c ch' obs :
  wf (ch_servers ch) -> labels_ok ch -> probe_inv_but e ch ->
  b_tries bm = ch_tries ch -> b_nsrv bm = length (ch_servers ch) ->
  (forall a, In a (ch_inflight ch) -> at_probe a = false ->
     at_try a + 1 <= Z.of_nat (count_occ Nat.eq_dec (b_txs bm) (at_label a))) ->
  (forall l, In l (b_txs bm) -> (l < ch_next_label ch)%nat) ->
  (label < ch_next_label ch)%nat -> ~ In label (map at_label (ch_inflight ch)) ->
  try <= Z.of_nat (count_occ Nat.eq_dec (b_txs bm) label) ->
  send_fresh ch label try err c = Ok (ch', obs) ->
  exists bm', bmon_run bm obs = Some bm' /\
    wf (ch_servers ch') /\ labels_ok ch' /\ probe_inv_but e ch' /\
    b_tries bm' = ch_tries ch' /\ b_nsrv bm' = length (ch_servers ch') /\
    (forall a, In a (ch_inflight ch') -> at_probe a = false ->
       at_try a + 1 <= Z.of_nat (count_occ Nat.eq_dec (b_txs bm') (at_label a))) /\
    (forall l, In l (b_txs bm') -> (l < ch_next_label ch')%nat) /\
    (ch_next_label ch <= ch_next_label ch')%nat /\
    (forall x, In x (ch_inflight ch) -> In x (ch_inflight ch')) /\
    map sv_addr (ch_servers ch') = map sv_addr (ch_servers ch).
Proof.
  intros Hwf (Hnd & Hlt) Hpi Htr Hns Hcnt Htx Hlab Hfresh Hc H.
  destruct (send_fresh_struct _ _ _ _ _ _ _ H) as (Hst & Ht' & _ & _ & _ & _).
  inversion Hst as [Hch|ch1 s Hch Hsv Hnl Hinf _|ch1 s ps Hch Hf0 Ht0 Hpf Hsv Hnl Hinf]; subst.
  - (* no server: the list is empty *)
    assert (ch_servers ch' = []) as He.
    { destruct (ch_servers ch') as [|x r] eqn:E; [reflexivity|].
      destruct (choose_server_total (ch_rotate ch') (c_rot c) (x :: r) ltac:(discriminate)) as (s0 & Hs0). congruence. }
    exists bm. split.
    + cbn [bmon_run bmon_step]. replace (ARES_ENOSERVER =? ARES_SUCCESS) with false by reflexivity.
      replace (ARES_ENOSERVER =? ARES_ECANCELLED) with false by reflexivity.
      replace (ARES_ENOSERVER =? ARES_EDESTRUCTION) with false by reflexivity. cbn [orb].
      rewrite Hns, He. cbn [length]. destruct (Z.leb_spec (Z.of_nat 0 * b_tries bm) (Z.of_nat (count_occ Nat.eq_dec (b_txs bm) label))); [reflexivity|lia].
    + split; [exact Hwf|]. split; [split; assumption|]. split; [exact Hpi|]. split; [exact Htr|]. split; [exact Hns|].
      split; [exact Hcnt|]. split; [exact Htx|]. split; [lia|]. split; [intros x Hx; exact Hx|reflexivity].
  - (* plain transmission *)
    exists (add_tx bm label). split; [reflexivity|].
    assert (forall a, In a (ch_inflight ch') <-> In a (ch_inflight ch) \/ a = mk_attempt label (sv_addr s) try err false) as Hin.
    { intros a. rewrite Hinf, in_app_iff. cbn [In]. intuition congruence. }
    split; [rewrite Hsv; exact Hwf|]. split.
    { split.
      - rewrite Hinf, map_app. cbn [map mk_attempt at_label]. apply NoDup_app_one; assumption.
      - intros a Ha. rewrite Hnl. apply Hin in Ha. destruct Ha as [Ha| ->]; [apply Hlt; exact Ha|exact Hlab]. }
    split.
    { intros b sb Hfb Hpb Hne. rewrite Hsv in Hfb. destruct (Hpi b sb Hfb Hpb Hne) as (x & Hx & Hxp & Hxs).
      exists x. split; [apply Hin; left; exact Hx|split; assumption]. }
    split; [exact (eq_trans Htr (eq_sym Ht'))|]. split; [rewrite Hsv; exact Hns|]. split.
    { intros a Ha Hpa. cbn [add_tx b_txs count_occ]. apply Hin in Ha. destruct Ha as [Ha| ->].
      - destruct (Nat.eq_dec label (at_label a)) as [He|Hne]; [exfalso; apply Hfresh; rewrite He; apply in_map; exact Ha|].
        apply Hcnt; assumption.
      - cbn [mk_attempt at_label at_try]. destruct (Nat.eq_dec label label) as [_|Hn]; [lia|congruence]. }
    split; [intros l [<-|Hl]; rewrite Hnl; [exact Hlab|apply Htx; exact Hl]|].
    split; [lia|]. split; [intros x Hx; apply Hin; left; exact Hx|rewrite Hsv; reflexivity].
  - (* transmission plus probe copy *)
    destruct (probe_failed_some _ _ _ _ _ _ Hpf) as (Hpsin & Hpspos & Hpspr & Hpsne).
    pose proof (find_addr_in_nodup _ _ (wf_addr _ Hwf) Hpsin) as Hfps.
    assert (key (set_probe ps true) = key ps) as Hk by reflexivity.
    pose proof (replace_addr_key (set_probe ps true) (ch_servers ch) ps Hfps Hk) as Hkey.
    exists (add_tx bm label). split; [reflexivity|].
    set (ua := mk_attempt label (sv_addr s) 0 err false).
    set (pa := mk_attempt (ch_next_label ch) (sv_addr ps) 0 ARES_SUCCESS true).
    assert (forall a, In a (ch_inflight ch') <-> In a (ch_inflight ch) \/ a = ua \/ a = pa) as Hin.
    { intros a. rewrite Hinf, in_app_iff. unfold ua, pa. cbn [In]. intuition congruence. }
    split; [rewrite Hsv; eapply wf_key; [symmetry; exact Hkey|exact Hwf]|]. split.
    { split.
      - rewrite Hinf, map_app. cbn [map mk_attempt at_label].
        replace (map at_label (ch_inflight ch) ++ [label; ch_next_label ch])
          with ((map at_label (ch_inflight ch) ++ [label]) ++ [ch_next_label ch]) by (rewrite <- app_assoc; reflexivity).
        apply NoDup_app_one.
        + apply NoDup_app_one; assumption.
        + intros Hin2. apply in_app_iff in Hin2. destruct Hin2 as [Hin2|[Hin2|[]]].
          * apply in_map_iff in Hin2. destruct Hin2 as (z & Hz & Hzin). specialize (Hlt z Hzin). lia.
          * lia.
      - intros a Ha. rewrite Hnl. apply Hin in Ha. destruct Ha as [Ha|[->| ->]].
        + specialize (Hlt a Ha). lia.
        + cbn [ua mk_attempt at_label]. lia.
        + cbn [pa mk_attempt at_label]. lia. }
    split.
    { intros b sb Hfb Hpb Hne. rewrite Hsv, replace_find in Hfb. cbn [set_probe sv_addr] in Hfb.
      destruct (Z.eqb_spec b (sv_addr ps)) as [->|Hnb].
      - exists pa. split; [apply Hin; right; right; reflexivity|split; reflexivity].
      - destruct (Hpi b sb Hfb Hpb Hne) as (x & Hx & Hxp & Hxs).
        exists x. split; [apply Hin; left; exact Hx|split; assumption]. }
    split; [exact (eq_trans Htr (eq_sym Ht'))|].
    split; [cbn [add_tx b_nsrv]; rewrite Hsv, Hns; rewrite <- (map_length key (replace_addr _ _)), Hkey, map_length; reflexivity|]. split.
    { intros a Ha Hpa. cbn [add_tx b_txs count_occ]. apply Hin in Ha. destruct Ha as [Ha|[->| ->]].
      - destruct (Nat.eq_dec label (at_label a)) as [He|Hne]; [exfalso; apply Hfresh; rewrite He; apply in_map; exact Ha|].
        apply Hcnt; assumption.
      - cbn [ua mk_attempt at_label at_try]. destruct (Nat.eq_dec label label) as [_|Hn]; [lia|congruence].
      - discriminate. }
    split; [intros l [<-|Hl]; rewrite Hnl; [lia|specialize (Htx l Hl); lia]|].
    split; [lia|]. split; [intros x Hx; apply Hin; left; exact Hx|].
    rewrite Hsv. replace (map sv_addr (replace_addr (set_probe ps true) (ch_servers ch)))
      with (map (fun k => fst (fst k)) (map key (replace_addr (set_probe ps true) (ch_servers ch)))) by (rewrite map_map; reflexivity).
    rewrite Hkey, map_map. reflexivity.
Qed.

Lemma requeue_inv bm ch a status c ch' obs :
  wf (ch_servers ch) -> labels_ok ch ->
  probe_inv_but (if at_probe a then Some (at_server a) else None) ch ->
  b_tries bm = ch_tries ch -> b_nsrv bm = length (ch_servers ch) ->
  (forall x, In x (ch_inflight ch) -> at_probe x = false ->
     at_try x + 1 <= Z.of_nat (count_occ Nat.eq_dec (b_txs bm) (at_label x))) ->
  (forall l, In l (b_txs bm) -> (l < ch_next_label ch)%nat) ->
  (at_label a < ch_next_label ch)%nat -> ~ In (at_label a) (map at_label (ch_inflight ch)) ->
  (at_probe a = false -> at_try a + 1 <= Z.of_nat (count_occ Nat.eq_dec (b_txs bm) (at_label a))) ->
  requeue ch a status c = Ok (ch', obs) ->
  exists bm', bmon_run bm obs = Some bm' /\ inv bm' ch' /\
    (ch_next_label ch <= ch_next_label ch')%nat /\
    (forall x, In x (ch_inflight ch) -> In x (ch_inflight ch')) /\
    map sv_addr (ch_servers ch') = map sv_addr (ch_servers ch).
Proof.
  intros Hwf Hlab Hpi Htr Hns Hcnt Htx Hlt Hfresh Hca H. unfold requeue in H.
  destruct (requeue_sends ch a) eqn:Hs.
  - unfold requeue_sends in Hs. apply andb_true_iff in Hs. destruct Hs as (_ & Hp). apply negb_true_iff in Hp.
    rewrite Hp in Hpi.
    destruct (fresh_inv bm ch None _ _ _ _ _ _ Hwf Hlab Hpi Htr Hns Hcnt Htx Hlt Hfresh (Hca Hp) H)
      as (bm' & Hrun & Hwf' & Hlab' & Hpi' & Htr' & Hns' & Hcnt' & Htx' & Hmono & Hsub & Haddr).
    exists bm'. split; [exact Hrun|]. split; [constructor; assumption|]. split; [exact Hmono|]. split; [exact Hsub|exact Haddr].
  - destruct (at_probe a) eqn:Hp.
    + injection H as <- <-. exists bm. split; [reflexivity|].
      pose proof (recompute_key (ch_inflight ch) (ch_servers ch)) as Hck.
      split; [|split; [cbn; lia|split; [intros x Hx; exact Hx|]]].
      * constructor; cbn [ch_servers ch_inflight ch_next_label ch_tries set_servers]; try assumption.
        -- eapply wf_key; [symmetry; exact Hck|exact Hwf].
        -- intros b s Hfb Hpb _. cbn [ch_servers ch_inflight set_servers] in Hfb |- *. rewrite recompute_find in Hfb.
           destruct (find_addr b (ch_servers ch)) as [s0|] eqn:Hf0; [|discriminate]. injection Hfb as <-.
           destruct (sv_probe s0 && negb (probe_attached (ch_inflight ch) b)) eqn:Hc; [discriminate|].
           rewrite Hpb in Hc. cbn [andb] in Hc. apply negb_false_iff in Hc.
           unfold probe_attached in Hc. apply existsb_exists in Hc. destruct Hc as (x & Hx & Hxc).
           apply andb_true_iff in Hxc. destruct Hxc as (Hxp & Hxs). apply Z.eqb_eq in Hxs.
           exists x. split; [exact Hx|split; assumption].
        -- rewrite Hns, recompute_length. reflexivity.
      * cbn [ch_servers set_servers].
        replace (map sv_addr (recompute_probe (ch_inflight ch) (ch_servers ch)))
          with (map (fun k => fst (fst k)) (map key (recompute_probe (ch_inflight ch) (ch_servers ch)))) by (rewrite map_map; reflexivity).
        rewrite Hck, map_map. reflexivity.
    + injection H as <- <-.
      exists bm. split.
      * cbn [bmon_run bmon_step].
        set (st := if (if status =? ARES_SUCCESS then at_err a else status) =? ARES_SUCCESS then ARES_ETIMEOUT else (if status =? ARES_SUCCESS then at_err a else status)).
        destruct ((st =? ARES_SUCCESS) || (st =? ARES_ECANCELLED) || (st =? ARES_EDESTRUCTION)); [reflexivity|].
        unfold requeue_sends in Hs. rewrite Hp in Hs. cbn [negb] in Hs. rewrite andb_true_r in Hs.
        apply Z.ltb_ge in Hs. rewrite Hns, Htr. pose proof (Hca eq_refl) as Hca'.
        destruct (Z.leb_spec (Z.of_nat (length (ch_servers ch)) * ch_tries ch) (Z.of_nat (count_occ Nat.eq_dec (b_txs bm) (at_label a)))); [reflexivity|lia].
      * split; [constructor; assumption|]. split; [lia|]. split; [intros x Hx; exact Hx|reflexivity].
Qed.

Lemma bmon_run_app bm a b :
  bmon_run bm (a ++ b) = match bmon_run bm a with Some bm' => bmon_run bm' b | None => None end.
Proof.
  revert bm. induction a as [|o r IH]; intros bm; [reflexivity|]. cbn [app bmon_run].
  destruct (bmon_step bm o); [apply IH|reflexivity].
Qed.

Lemma reinsert_length s' l s : find_addr (sv_addr s') l = Some s -> length (reinsert s' l) = length l.
Proof.
  intros Hf. unfold reinsert.
  rewrite (Permutation_length (insert_sorted_perm s' (remove_addr (sv_addr s') l))).
  rewrite (Permutation_length (remove_addr_perm _ _ _ Hf)). reflexivity.
Qed.

Lemma replace_addr_length s' l : length (replace_addr s' l) = length l.
Proof. induction l as [|x r IH]; [reflexivity|]. cbn [replace_addr]. destruct (sv_addr x =? sv_addr s'); cbn [length]; congruence. Qed.

Lemma clear_probe_length a l : length (clear_probe a l) = length l.
Proof. unfold clear_probe. destruct (find_addr a l); [apply replace_addr_length|reflexivity]. Qed.

Lemma set_good_length a l : length (server_set_good a l) = length l.
Proof.
  unfold server_set_good. destruct (find_addr a l) as [s|] eqn:Hf; [|reflexivity].
  pose proof (find_addr_some a l s Hf) as (_ & Hsa).
  destruct (0 <? sv_fail s); [|apply replace_addr_length].
  eapply reinsert_length. cbn [sv_addr]. rewrite Hsa. exact Hf.
Qed.

Lemma increment_length now delay a l l' : server_increment_failures now delay a l = Ok l' -> length l' = length l.
Proof.
  unfold server_increment_failures. destruct (find_addr a l) as [s|] eqn:Hf; [|intros H; injection H as <-; reflexivity].
  pose proof (find_addr_some a l s Hf) as (_ & Hsa).
  destruct (c_timeadd delay (fst now) (snd now)); cbn [bind]; try discriminate.
  intros H. injection H as <-. eapply reinsert_length. cbn [sv_addr]. rewrite Hsa. exact Hf.
Qed.

Lemma count_occ_fresh (txs : list nat) l : (forall x, In x txs -> (x < l)%nat) -> count_occ Nat.eq_dec txs l = 0%nat.
Proof. intros H. apply count_occ_not_In. intros Hin. specialize (H l Hin). lia. Qed.

(* a witness of probe_inv survives the removal of another attempt *)
Lemma witness_survives ch a x :
  labels_ok ch -> In a (ch_inflight ch) -> In x (ch_inflight ch) -> x <> a ->
  In x (remove_attempt (at_label a) (ch_inflight ch)).
Proof.
  intros (Hnd & _) Ha Hx Hne. apply remove_attempt_keeps; [exact Hx|].
  intros He. apply Hne. eapply nodup_map_eq; eassumption.
Qed.

Lemma labels_ok_remove ch lab :
  labels_ok ch -> labels_ok (set_inflight ch (remove_attempt lab (ch_inflight ch))) /\
  ~ In lab (map at_label (remove_attempt lab (ch_inflight ch))).
Proof.
  intros (Hnd & Hlt). destruct (remove_attempt_nodup lab _ Hnd) as (H1 & H2).
  split; [|exact H2]. split; [exact H1|]. intros x Hx. apply Hlt. eapply remove_attempt_in. exact Hx.
Qed.

Lemma fail_attempt_inv bm ch a status c ch' obs :
  inv bm ch -> In a (ch_inflight ch) -> fail_attempt ch a status c = Ok (ch', obs) ->
  exists bm', bmon_run bm obs = Some bm' /\ inv bm' ch'.
Proof.
  intros [Hwf Hlab Hpi Htr Hns Hcnt Htx] Ha H. unfold fail_attempt in H.
  set (ch0 := set_inflight ch (remove_attempt (at_label a) (ch_inflight ch))) in H.
  change (ch_servers ch0) with (ch_servers ch) in H.
  change (ch_now ch0) with (ch_now ch) in H. change (ch_delay ch0) with (ch_delay ch) in H.
  destruct (server_increment_failures (ch_now ch) (ch_delay ch) (at_server a) (ch_servers ch)) as [l1| |] eqn:Hinc;
    cbn [bind] in H; try discriminate.
  destruct (increment_spec _ _ _ _ _ Hwf Hinc) as (Hwf1 & Hoth & Hsame & Hnone).
  destruct (requeue (set_servers ch0 l1) a status c) as [[ch2 robs]| |] eqn:Hrq; cbn [bind fst snd] in H; try discriminate.
  injection H as <- <-.
  destruct (labels_ok_remove ch (at_label a) Hlab) as (Hlab0 & Hfresh).
  assert (probe_inv_but (if at_probe a then Some (at_server a) else None) (set_servers ch0 l1)) as Hpi1.
  { intros b s1 Hfb Hpb Hne. cbn [ch_servers ch_inflight set_servers set_inflight ch0] in Hfb |- *.
    assert (exists s0, find_addr b (ch_servers ch) = Some s0 /\ sv_probe s0 = true) as (s0 & Hf0 & Hp0).
    { destruct (Z.eq_dec b (at_server a)) as [->|Hb].
      - destruct (find_addr (at_server a) (ch_servers ch)) as [s0|] eqn:Hf0.
        + destruct (Hsame s0 eq_refl) as (s' & Hf' & _ & _ & Hpr). rewrite Hf' in Hfb. injection Hfb as <-.
          exists s0. split; [reflexivity|congruence].
        + rewrite (Hnone eq_refl), Hf0 in Hfb. discriminate.
      - rewrite (Hoth b Hb) in Hfb. exists s1. split; assumption. }
    destruct (Hpi b s0 Hf0 Hp0 ltac:(discriminate)) as (x & Hx & Hxp & Hxs).
    exists x. split; [|split; assumption]. apply witness_survives; try assumption.
    intros ->. destruct (at_probe a) eqn:Hpa; [|congruence]. apply Hne. rewrite Hxs. reflexivity. }
  assert (b_nsrv bm = length (ch_servers (set_servers ch0 l1))) as Hns1
    by (cbn [ch_servers set_servers]; rewrite (increment_length _ _ _ _ _ Hinc); exact Hns).
  destruct (requeue_inv bm (set_servers ch0 l1) a status c ch2 robs Hwf1 Hlab0 Hpi1 Htr Hns1) as (bm' & Hrun & Hinv & _).
  - intros x Hx Hpx. apply Hcnt; [eapply remove_attempt_in; exact Hx|exact Hpx].
  - exact Htx.
  - destruct Hlab as (_ & Hlt). apply Hlt. exact Ha.
  - exact Hfresh.
  - intros Hpa. apply Hcnt; assumption.
  - exact Hrq.
  - exists bm'. split; [|exact Hinv]. rewrite bmon_run_app.
    cbn [ch_servers set_inflight ch0]. destruct (find_addr (at_server a) (ch_servers ch)); exact Hrun.
Qed.

Lemma fold_clear_find : forall (atts : list attempt) l b,
  find_addr b (fold_left (fun acc a => if at_probe a then clear_probe (at_server a) acc else acc) atts l) =
  match find_addr b l with
  | Some s => Some (if existsb (fun a => at_probe a && (at_server a =? b)) atts then set_probe s false else s)
  | None => None
  end.
Proof.
  induction atts as [|a r IH]; intros l b; [cbn; destruct (find_addr b l); reflexivity|].
  cbn [fold_left existsb]. rewrite IH.
  destruct (at_probe a) eqn:Hp; cbn [andb].
  - rewrite clear_probe_find. destruct (find_addr b l) as [s|]; [|reflexivity].
    rewrite (Z.eqb_sym (at_server a) b).
    destruct (b =? at_server a); cbn [orb]; [|reflexivity].
    destruct (existsb (fun a0 => at_probe a0 && (at_server a0 =? b)) r); reflexivity.
  - reflexivity.
Qed.

Lemma carry_find_probe old b : forall addrs idx s,
  carry_find old b idx addrs = Some s -> sv_probe s = true ->
  exists o, find_addr b old = Some o /\ sv_probe o = true.
Proof.
  induction addrs as [|a r IH]; intros idx s H Hp; [discriminate|]. cbn [carry_find] in H.
  destruct (Z.eqb_spec a b) as [->|Hne]; [|eapply IH; eassumption].
  injection H as <-. unfold carry in Hp |- *. destruct (find_addr b old) as [o|]; [|discriminate].
  exists o. split; [reflexivity|exact Hp].
Qed.

Lemma servers_update_find old addrs b :
  wf old -> find_addr b (servers_update old addrs) = carry_find old b 0 (dedup [] addrs).
Proof.
  intros [Hnd _ Hs Hr]. destruct (dedup_nodup addrs []) as (Hndd & _).
  destruct (update_loop_spec (dedup [] addrs) 0 old Hndd Hnd (lt_sorted_le _ Hs) Hr) as (_ & _ & _ & Hf1).
  unfold servers_update. rewrite find_addr_filter, Hf1.
  destruct (existsb (Z.eqb b) addrs) eqn:Hb.
  - apply existsb_dedup in Hb. destruct (carry_find_in old b (dedup [] addrs) 0 Hb) as (y & Hy). rewrite Hy. reflexivity.
  - symmetry. apply carry_find_none. intros Hin. apply existsb_dedup in Hin. congruence.
Qed.

Lemma victims_in stale inflight v : In v (victims stale inflight) ->
  In v inflight /\ exists s, In s stale /\ at_server v = sv_addr s.
Proof.
  unfold victims. rewrite in_flat_map. intros (s & Hs & Hv). apply filter_In in Hv. destruct Hv as (Hv & He).
  apply Z.eqb_eq in He. split; [exact Hv|]. exists s. split; assumption.
Qed.

Lemma NoDup_app_disj {A} (l1 l2 : list A) :
  NoDup l1 -> NoDup l2 -> (forall x, In x l1 -> In x l2 -> False) -> NoDup (l1 ++ l2).
Proof.
  induction l1 as [|y r IH]; intros H1 H2 Hd; [exact H2|].
  inversion H1 as [|? ? Hy Hr]; subst. cbn [app]. constructor.
  - intros Hin. apply in_app_iff in Hin. destruct Hin as [Hin|Hin]; [exact (Hy Hin)|exact (Hd y (or_introl eq_refl) Hin)].
  - apply IH; [exact Hr|exact H2|]. intros x Hx1 Hx2. exact (Hd x (or_intror Hx1) Hx2).
Qed.

Lemma victims_nodup : forall stale inflight,
  NoDup (map sv_addr stale) -> NoDup (map at_label inflight) -> NoDup (map at_label (victims stale inflight)).
Proof.
  induction stale as [|s r IH]; intros inflight Hs Hl; [constructor|].
  cbn [map] in Hs. inversion Hs as [|? ? Hn Hr]; subst.
  unfold victims. cbn [flat_map]. fold (victims r inflight). rewrite map_app.
  apply NoDup_app_disj; [apply nodup_map_filter; exact Hl|apply IH; assumption|].
  intros lab H1 H2. apply in_map_iff in H1. destruct H1 as (x & Hx & Hxin). apply in_map_iff in H2. destruct H2 as (y & Hy & Hyin).
  apply filter_In in Hxin. destruct Hxin as (Hxin & Hxs). apply Z.eqb_eq in Hxs.
  destruct (victims_in _ _ _ Hyin) as (Hyin2 & s2 & Hs2 & Hys).
  assert (x = y) as -> by (eapply nodup_map_eq; [exact Hl|exact Hxin|exact Hyin2|congruence]).
  apply Hn. rewrite <- Hxs, Hys. apply in_map. exact Hs2.
Qed.

Lemma requeue_all_inv st : forall vs bm ch cs n ch' obs,
  inv bm ch -> NoDup (map at_label vs) ->
  (forall v, In v vs -> In v (ch_inflight ch)) ->
  requeue_all st ch vs cs n = Ok (ch', obs) ->
  exists bm', bmon_run bm obs = Some bm' /\ inv bm' ch'.
Proof.
  induction vs as [|v r IH]; intros bm ch cs n ch' obs Hinv Hnd Hvs H.
  - injection H as <- <-. exists bm. split; [reflexivity|exact Hinv].
  - cbn [requeue_all] in H.
    set (ch0 := set_inflight ch (remove_attempt (at_label v) (ch_inflight ch))) in H.
    destruct (requeue ch0 v st (nth_choice cs n)) as [[ch1 o1]| |] eqn:Hr; cbn [bind fst snd] in H; try discriminate.
    destruct (requeue_all st ch1 r cs (if requeue_sends ch0 v then S n else n)) as [[ch2 o2]| |] eqn:Hr2; cbn [bind fst snd] in H; try discriminate.
    injection H as <- <-.
    destruct Hinv as [Hwf Hlab Hpi Htr Hns Hcnt Htx].
    pose proof (Hvs v (or_introl eq_refl)) as Hvin.
    destruct (labels_ok_remove ch (at_label v) Hlab) as (Hlab0 & Hfresh).
    assert (probe_inv_but (if at_probe v then Some (at_server v) else None) ch0) as Hpi0.
    { intros b s Hfb Hpb Hne. destruct (Hpi b s Hfb Hpb ltac:(discriminate)) as (x & Hx & Hxp & Hxs).
      exists x. split; [|split; assumption]. apply witness_survives; try assumption.
      intros ->. rewrite Hxp in Hne. apply Hne. rewrite Hxs. reflexivity. }
    destruct (requeue_inv bm ch0 v st (nth_choice cs n) ch1 o1 Hwf Hlab0 Hpi0 Htr Hns) as (bm1 & Hrun1 & Hinv1 & _ & Hsub & Haddr).
    + intros x Hx Hpx. apply Hcnt; [eapply remove_attempt_in; exact Hx|exact Hpx].
    + exact Htx.
    + destruct Hlab as (_ & Hlt). apply Hlt. exact Hvin.
    + exact Hfresh.
    + intros Hpv. apply Hcnt; assumption.
    + exact Hr.
    + cbn [map] in Hnd. inversion Hnd as [|? ? Hvn Hndr]; subst.
      destruct (IH bm1 ch1 cs (if requeue_sends ch0 v then S n else n) ch2 o2 Hinv1 Hndr) as (bm2 & Hrun2 & Hinv2); [|exact Hr2|].
      * intros v2 Hv2. pose proof (Hvs v2 (or_intror Hv2)) as Hv2in.
        apply Hsub. cbn [ch_inflight set_inflight ch0]. apply remove_attempt_keeps; [exact Hv2in|].
        intros He. apply Hvn. rewrite <- He. apply in_map. exact Hv2.
      * exists bm2. split; [|exact Hinv2]. rewrite bmon_run_app, Hrun1. exact Hrun2.
Qed.

Lemma step_inv bm ch ev ch' obs :
  inv bm ch -> step ch ev = Ok (ch', obs) -> exists bm', bmon_run bm obs = Some bm' /\ inv bm' ch'.
Proof.
  intros Hinv H. destruct ev as [c|label|label status c|label c|ms| |tl tc|a0 cs0|addrs cs]; cbn [step] in H.
  - (* EvSend *)
    destruct Hinv as [Hwf Hlab Hpi Htr Hns Hcnt Htx]. destruct Hlab as (Hnd & Hlt).
    destruct (Nat.eqb_spec (length (ch_servers ch)) 0) as [He|Hne].
    + injection H as <- <-. exists bm. split.
      * cbn [bmon_run bmon_step]. replace (ARES_ENOSERVER =? ARES_SUCCESS) with false by reflexivity.
        replace (ARES_ENOSERVER =? ARES_ECANCELLED) with false by reflexivity.
        replace (ARES_ENOSERVER =? ARES_EDESTRUCTION) with false by reflexivity. cbn [orb].
        rewrite Hns, He. destruct (Z.leb_spec (Z.of_nat 0 * b_tries bm) (Z.of_nat (count_occ Nat.eq_dec (b_txs bm) (ch_next_label ch)))); [reflexivity|lia].
      * constructor; cbn [ch_servers ch_inflight ch_next_label ch_tries bump_label]; try assumption.
        -- split; [exact Hnd|]. intros a Ha. cbn [ch_inflight ch_next_label bump_label] in Ha |- *. specialize (Hlt a Ha). lia.
        -- intros l Hl. specialize (Htx l Hl). lia.
    + assert (labels_ok (bump_label ch)) as Hlab1 by (split; [exact Hnd|intros a Ha; cbn [ch_inflight ch_next_label bump_label] in Ha |- *; specialize (Hlt a Ha); lia]).
      destruct (fresh_inv bm (bump_label ch) None (ch_next_label ch) 0 ARES_SUCCESS c ch' obs Hwf Hlab1 Hpi Htr Hns Hcnt)
        as (bm' & Hrun & Hwf' & Hlab' & Hpi' & Htr' & Hns' & Hcnt' & Htx' & _).
      * intros l Hl. cbn. specialize (Htx l Hl). lia.
      * cbn. lia.
      * intros Hin. apply in_map_iff in Hin. destruct Hin as (z & Hz & Hzin). specialize (Hlt z Hzin). cbn in Hzin. lia.
      * lia.
      * exact H.
      * exists bm'. split; [exact Hrun|constructor; assumption].
  - (* EvAnswer *)
    destruct (find_attempt label (ch_inflight ch)) as [a|] eqn:Hfa; [|discriminate].
    injection H as <- <-. destruct (find_attempt_some _ _ _ Hfa) as (Hain & Hal). subst label.
    destruct Hinv as [Hwf Hlab Hpi Htr Hns Hcnt Htx].
    destruct (labels_ok_remove ch (at_label a) Hlab) as (Hlab0 & _).
    destruct (set_good_spec (at_server a) (ch_servers ch) Hwf) as (Hwf1 & Hoth & Hsame & Hnone).
    exists bm. split.
    + rewrite bmon_run_app. cbn [ch_servers set_inflight].
      destruct (find_addr (at_server a) (ch_servers ch)); destruct (at_probe a); reflexivity.
    + pose proof (clear_probe_key (at_server a) (server_set_good (at_server a) (ch_servers ch))) as Hck.
      set (l0 := clear_probe (at_server a) (server_set_good (at_server a) (ch_servers ch))) in *.
      set (infl := remove_attempt (at_label a) (ch_inflight ch)).
      assert (map key (if at_probe a then recompute_probe infl l0 else l0) = map key l0) as Hkf
        by (destruct (at_probe a); [apply recompute_key|reflexivity]).
      constructor; cbn [ch_servers ch_inflight ch_next_label ch_tries set_servers set_inflight]; try assumption.
      * eapply wf_key; [symmetry; rewrite Hkf; exact Hck|exact Hwf1].
      * intros b s Hfb Hpb _. cbn [ch_servers ch_inflight set_servers set_inflight] in Hfb |- *. fold infl in Hfb |- *. fold l0 in Hfb.
        destruct (at_probe a) eqn:Hpa.
        -- rewrite recompute_find in Hfb. destruct (find_addr b l0) as [s0|]; [|discriminate]. injection Hfb as <-.
           destruct (sv_probe s0 && negb (probe_attached infl b)) eqn:Hc; [discriminate|].
           rewrite Hpb in Hc. cbn [andb] in Hc. apply negb_false_iff in Hc.
           unfold probe_attached in Hc. apply existsb_exists in Hc. destruct Hc as (x & Hx & Hxc).
           apply andb_true_iff in Hxc. destruct Hxc as (Hxp & Hxs). apply Z.eqb_eq in Hxs.
           exists x. split; [exact Hx|split; assumption].
        -- unfold l0 in Hfb. rewrite clear_probe_find in Hfb.
           destruct (find_addr b (server_set_good (at_server a) (ch_servers ch))) as [s1|] eqn:Hf1; [|discriminate].
           injection Hfb as <-. destruct (Z.eqb_spec b (at_server a)) as [->|Hb]; [discriminate|].
           rewrite (Hoth b Hb) in Hf1.
           destruct (Hpi b s1 Hf1 Hpb ltac:(discriminate)) as (x & Hx & Hxp & Hxs).
           exists x. split; [|split; assumption]. apply witness_survives; try assumption. intros ->. congruence.
      * rewrite <- (map_length key), Hkf, map_length. unfold l0. rewrite clear_probe_length, set_good_length. exact Hns.
      * intros x Hx Hpx. apply Hcnt; [eapply remove_attempt_in; exact Hx|exact Hpx].
  - (* EvRefuse *)
    destruct (find_attempt label (ch_inflight ch)) as [a|] eqn:Hfa; [|discriminate].
    destruct (find_attempt_some _ _ _ Hfa) as (Hain & _). eapply fail_attempt_inv; eassumption.
  - (* EvTimeout *)
    destruct (find_attempt label (ch_inflight ch)) as [a|] eqn:Hfa; [|discriminate].
    destruct (find_attempt_some _ _ _ Hfa) as (Hain & _). eapply fail_attempt_inv; eassumption.
  - (* EvAdvance *)
    destruct (c_timeadd ms (fst (ch_now ch)) (snd (ch_now ch))) as [t| |]; cbn [bind] in H; try discriminate.
    injection H as <- <-. exists bm. split; [reflexivity|]. destruct Hinv. constructor; assumption.
  - (* EvCancel *)
    injection H as <- <-. destruct Hinv as [Hwf Hlab Hpi Htr Hns Hcnt Htx].
    set (lc := if existsb at_probe (ch_inflight ch) then recompute_probe [] (ch_servers ch) else ch_servers ch).
    assert (map key lc = map key (ch_servers ch)) as Hck
      by (unfold lc; destruct (existsb at_probe (ch_inflight ch)); [apply recompute_key|reflexivity]).
    exists bm. split.
    + induction (sort_by_label (filter (fun a => negb (at_probe a)) (ch_inflight ch))) as [|a r IHr]; [reflexivity|exact IHr].
    + constructor; cbn [ch_servers ch_inflight ch_next_label ch_tries set_servers set_inflight]; try assumption.
      * eapply wf_key; [symmetry; exact Hck|exact Hwf].
      * split; [constructor|intros a []].
      * intros b s Hfb Hpb _. cbn [ch_servers ch_inflight set_servers set_inflight] in Hfb |- *. exfalso.
        fold lc in Hfb. unfold lc in Hfb.
        destruct (existsb at_probe (ch_inflight ch)) eqn:Hex.
        -- rewrite recompute_find in Hfb. destruct (find_addr b (ch_servers ch)) as [s0|]; [|discriminate].
           injection Hfb as <-. unfold probe_attached in Hpb. cbn [existsb negb] in Hpb. rewrite andb_true_r in Hpb.
           destruct (sv_probe s0) eqn:E; cbn [sv_probe] in Hpb; congruence.
        -- destruct (Hpi b s Hfb Hpb ltac:(discriminate)) as (x & Hx & Hxp & _).
           assert (existsb at_probe (ch_inflight ch) = true) as Ht by (apply existsb_exists; exists x; split; assumption).
           congruence.
      * fold lc. rewrite Hns. rewrite <- (map_length key lc), Hck, map_length. reflexivity.
      * intros a [].
  - (* EvTruncated *)
    destruct (find_attempt tl (ch_inflight ch)) as [a|] eqn:Hfa; [|discriminate].
    destruct (at_probe a) eqn:Hpa; [discriminate|].
    destruct (find_attempt_some _ _ _ Hfa) as (Hain & Hal). subst tl.
    destruct Hinv as [Hwf Hlab Hpi Htr Hns Hcnt Htx].
    destruct (labels_ok_remove ch (at_label a) Hlab) as (Hlab0 & Hfresh).
    set (ch0 := set_inflight ch (remove_attempt (at_label a) (ch_inflight ch))) in *.
    assert (probe_inv_but None ch0) as Hpi0.
    { intros b s1 Hfb Hpb Hne. cbn [ch_servers ch_inflight set_inflight ch0] in Hfb |- *.
      destruct (Hpi b s1 Hfb Hpb Hne) as (x & Hx & Hxp & Hxs).
      exists x. split; [|split; assumption]. apply witness_survives; try assumption. intros ->. congruence. }
    destruct (fresh_inv bm ch0 None (at_label a) (at_try a) (at_err a) tc ch' obs Hwf Hlab0 Hpi0 Htr Hns)
      as (bm' & Hrun & Hwf' & Hlab' & Hpi' & Htr' & Hns' & Hcnt' & Htx' & _).
    + intros x Hx Hpx. apply Hcnt; [eapply remove_attempt_in; exact Hx|exact Hpx].
    + exact Htx.
    + destruct Hlab as (_ & Hlt). apply Hlt. exact Hain.
    + exact Hfresh.
    + specialize (Hcnt a Hain Hpa). lia.
    + exact H.
    + exists bm'. split; [exact Hrun|constructor; assumption].
  - (* EvConnLost *)
    destruct Hinv as [Hwf Hlab Hpi Htr Hns Hcnt Htx].
    destruct (find_addr a0 (ch_servers ch)) as [s0|] eqn:Hf0; [|discriminate].
    destruct (server_increment_failures (ch_now ch) (ch_delay ch) a0 (ch_servers ch)) as [l1| |] eqn:Hinc;
      cbn [bind] in H; try discriminate.
    destruct (increment_spec _ _ _ _ _ Hwf Hinc) as (Hwf1 & Hoth & Hsame & Hnone).
    set (vs := filter (fun x => at_server x =? a0) (ch_inflight ch)) in *.
    destruct (requeue_all ARES_ECONNREFUSED (set_servers ch l1) vs cs0 0) as [[ch2 o2]| |] eqn:Hrq; cbn [bind fst snd] in H; try discriminate.
    injection H as <- <-.
    assert (inv bm (set_servers ch l1)) as Hinv1.
    { constructor; cbn [ch_servers ch_inflight ch_next_label ch_tries set_servers]; try assumption.
      - intros b s1 Hfb Hpb _. cbn [ch_servers ch_inflight set_servers] in Hfb |- *.
        assert (exists s2, find_addr b (ch_servers ch) = Some s2 /\ sv_probe s2 = true) as (s2 & Hf2 & Hp2).
        { destruct (Z.eq_dec b a0) as [->|Hb].
          - destruct (Hsame s0 Hf0) as (s' & Hf' & _ & _ & Hpr). rewrite Hf' in Hfb. injection Hfb as <-.
            exists s0. split; [exact Hf0|congruence].
          - rewrite (Hoth b Hb) in Hfb. exists s1. split; assumption. }
        apply (Hpi b s2 Hf2 Hp2). discriminate.
      - rewrite (increment_length _ _ _ _ _ Hinc). exact Hns. }
    destruct (requeue_all_inv ARES_ECONNREFUSED vs bm (set_servers ch l1) cs0 0 ch2 o2 Hinv1) as (bm2 & Hrun & Hinv2).
    + apply nodup_map_filter. apply Hlab.
    + intros v Hv. apply filter_In in Hv. apply Hv.
    + exact Hrq.
    + exists bm2. split; [|exact Hinv2]. cbn [bmon_run bmon_step]. exact Hrun.
  - (* EvSetServers *)
    destruct Hinv as [Hwf Hlab Hpi Htr Hns Hcnt Htx].
    destruct (servers_update_wf (ch_servers ch) addrs Hwf) as (Hwfk & Hkv & Hperm).
    set (keep := servers_update (ch_servers ch) addrs) in *.
    set (vs := victims (servers_stale (ch_servers ch) addrs) (ch_inflight ch)) in *.
    destruct (requeue_all ARES_SUCCESS (set_servers ch keep) vs cs 0) as [[ch2 o2]| |] eqn:Hrq; cbn [bind fst snd] in H; try discriminate.
    injection H as <- <-.
    set (bm1 := {| b_tries := b_tries bm; b_nsrv := length (dedup [] addrs); b_txs := b_txs bm |}).
    assert (inv bm1 (set_servers ch keep)) as Hinv1.
    { constructor; cbn [ch_servers ch_inflight ch_next_label ch_tries set_servers bm1 b_tries b_nsrv b_txs]; try assumption.
      - intros b s Hfb Hpb _. cbn [ch_servers ch_inflight set_servers] in Hfb |- *.
        unfold keep in Hfb. rewrite (servers_update_find _ _ _ Hwf) in Hfb.
        destruct (carry_find_probe _ _ _ _ _ Hfb Hpb) as (o & Hfo & Hpo).
        apply (Hpi b o Hfo Hpo). discriminate.
      - rewrite <- (map_length sv_addr keep). apply Permutation_length. apply Permutation_sym. exact Hperm. }
    destruct (dedup_nodup addrs []) as (Hndd & _).
    destruct (update_loop_spec (dedup [] addrs) 0 (ch_servers ch) Hndd (wf_addr _ Hwf) (lt_sorted_le _ (wf_sorted _ Hwf)) (wf_range _ Hwf))
      as (Hnd1 & _ & _ & _).
    destruct (requeue_all_inv ARES_SUCCESS vs bm1 (set_servers ch keep) cs 0 ch2 o2 Hinv1) as (bm2 & Hrun & Hinv2).
    + apply victims_nodup; [apply nodup_map_filter; exact Hnd1|apply Hlab].
    + intros v Hv. destruct (victims_in _ _ _ Hv) as (Hvin & _). exact Hvin.
    + exact Hrq.
    + exists bm2. split; [|exact Hinv2]. cbn [bmon_run bmon_step]. fold bm1. exact Hrun.
Qed.

Lemma run_inv : forall evs bm ch ch' obs,
  inv bm ch -> run ch evs = Ok (ch', obs) -> exists bm', bmon_run bm obs = Some bm' /\ inv bm' ch'.
Proof.
  induction evs as [|e r IH]; intros bm ch ch' obs Hinv H.
  - injection H as <- <-. exists bm. split; [reflexivity|exact Hinv].
  - cbn [run] in H.
    destruct (step ch e) as [[ch1 o1]| |] eqn:Hs; cbn [bind fst snd] in H; try discriminate.
    destruct (run ch1 r) as [[ch2 o2]| |] eqn:Hr; cbn [bind fst snd] in H; try discriminate.
    injection H as <- <-.
    destruct (step_inv _ _ _ _ _ Hinv Hs) as (bm1 & Hrun1 & Hinv1).
    destruct (IH _ _ _ _ Hinv1 Hr) as (bm2 & Hrun2 & Hinv2).
    exists bm2. split; [|exact Hinv2]. rewrite bmon_run_app, Hrun1. exact Hrun2.
Qed.

Lemma init_inv addrs rotate tries chance delay now :
  inv (bmon_init addrs tries) (init_chan addrs rotate tries chance delay now).
Proof.
  destruct (servers_update_wf [] addrs wf_nil) as (Hwf & _ & Hperm).
  constructor; cbn [init_chan bmon_init ch_servers ch_inflight ch_next_label ch_tries b_tries b_nsrv b_txs].
  - exact Hwf.
  - split; [constructor|intros a []].
  - intros b s Hfb Hpb _. exfalso. cbn [ch_servers init_chan] in Hfb.
    rewrite (servers_update_find _ _ _ wf_nil) in Hfb.
    destruct (carry_find_probe _ _ _ _ _ Hfb Hpb) as (o & Hfo & _). discriminate.
  - reflexivity.
  - rewrite <- (map_length sv_addr (servers_update [] addrs)). apply Permutation_length. apply Permutation_sym. exact Hperm.
  - intros a [].
  - intros l [].
Qed.

(* trace level: the budget monitor accepts every history *)
Lemma budget_accepts addrs rotate tries chance delay now evs ch obs :
  run (init_chan addrs rotate tries chance delay now) evs = Ok (ch, obs) ->
  exists bm, bmon_run (bmon_init addrs tries) obs = Some bm /\ inv bm ch.
Proof. intros H. exact (run_inv _ _ _ _ _ (init_inv addrs rotate tries chance delay now) H). Qed.

(* ------------------------------------------------------------------------------------ *)
(* Probe liveness (with fixes/C09-probe-pending-clear.patch)                              *)
(* ------------------------------------------------------------------------------------ *)
Lemma last_server_max : forall l s, StronglySorted ltP l -> In s l ->
  exists t, last_server l = Some t /\ sv_fail s <= sv_fail t.
Proof.
  induction l as [|x r IH]; intros s Hs Hin; [destruct Hin|].
  inversion Hs as [|? ? Hsr Hall]; subst. destruct r as [|y r'].
  - destruct Hin as [->|[]]. exists s. split; [reflexivity|lia].
  - cbn [last_server]. destruct Hin as [->|Hin].
    + destruct (IH y Hsr (or_introl eq_refl)) as (t & Ht & Hle). exists t. split; [exact Ht|].
      rewrite Forall_forall in Hall. pose proof (Hall y (or_introl eq_refl)) as Hxy. unfold ltP in Hxy.
      apply srv_lt_spec in Hxy. lia.
    + apply (IH s Hsr Hin).
Qed.

Lemma probe_due_in ch : forall l, probe_due ch l = Ok true -> exists s, In s l /\ 0 < sv_fail s.
Proof.
  induction l as [|s r IH]; intros H; [discriminate|]. cbn [probe_due] in H.
  destruct ((0 <? sv_fail s) && negb (probe_in_flight ch (sv_addr s))) eqn:Hc.
  - apply andb_true_iff in Hc. destruct Hc as (Hf & _). exists s. split; [left; reflexivity|apply Z.ltb_lt; exact Hf].
  - destruct (IH H) as (t & Ht & Hft). exists t. split; [right; exact Ht|exact Hft].
Qed.

Lemma probe_due_target ch : forall l,
  (forall s, In s l -> sv_probe s = true -> probe_in_flight ch (sv_addr s) = true) ->
  probe_due ch l = Ok true -> find_probe_target (ch_now ch) l <> Ok None.
Proof.
  induction l as [|s r IH]; intros Hpi H; [discriminate|]. cbn [probe_due] in H. cbn [find_probe_target].
  assert (forall t, In t r -> sv_probe t = true -> probe_in_flight ch (sv_addr t) = true) as Hpi'
    by (intros t Ht; apply Hpi; right; exact Ht).
  destruct (0 <? sv_fail s) eqn:Hf; cbn [andb] in H |- *.
  - destruct (probe_in_flight ch (sv_addr s)) eqn:Hfl; cbn [negb] in H.
    + destruct (negb (sv_probe s)).
      * destruct (c_ares_timedout (fst (ch_now ch)) (fst (sv_retry s)) (snd (ch_now ch)) (snd (sv_retry s))) as [t| |];
          cbn [bind]; try discriminate. destruct (negb (t =? 0)); [discriminate|apply IH; assumption].
      * apply IH; assumption.
    + assert (sv_probe s = false) as Hps.
      { destruct (sv_probe s) eqn:E; [|reflexivity]. rewrite (Hpi s (or_introl eq_refl) E) in Hfl. discriminate. }
      rewrite Hps. cbn [negb].
      destruct (c_ares_timedout (fst (ch_now ch)) (fst (sv_retry s)) (snd (ch_now ch)) (snd (sv_retry s))) as [t| |];
        cbn [bind] in H |- *; try discriminate.
      destruct (negb (t =? 0)); [discriminate|apply IH; assumption].
  - apply IH; assumption.
Qed.

(* C09_probe_liveness: in every reachable state, when the user's first attempt goes to a server
   without failures, the draw says "probe", and some failed server is past its retry time with
   no probe in flight, a probe copy IS transmitted *)
Lemma probe_liveness bm ch c ch' obs su :
  inv bm ch ->
  choose_server (ch_rotate ch) (c_rot c) (ch_servers ch) = Some su -> sv_fail su = 0 ->
  ch_chance ch <> 0 -> c_probe c mod ch_chance ch = 0 ->
  probe_due ch (ch_servers ch) = Ok true ->
  step ch (EvSend c) = Ok (ch', obs) ->
  exists pl pa, In (OTx pl pa true) obs /\ pa <> sv_addr su.
Proof.
  intros [Hwf Hlab Hpi _ _ _ _] Hch Hf0 Hc0 Hr Hdue H. cbn [step] in H.
  destruct (Nat.eqb_spec (length (ch_servers ch)) 0) as [He|Hne].
  { destruct (ch_servers ch); [destruct (ch_rotate ch); discriminate|discriminate]. }
  unfold send_fresh in H. cbn [ch_rotate ch_servers ch_chance ch_now bump_label] in H. rewrite Hch in H.
  rewrite Hf0 in H. cbn [Z.eqb andb] in H.
  destruct (probe_due_in ch _ Hdue) as (sf & Hsfin & Hsfpos).
  destruct (last_server_max _ _ (wf_sorted _ Hwf) Hsfin) as (t & Hlast & Hle).
  unfold ares_probe_failed_server in H. rewrite Hlast in H.
  assert ((sv_fail t =? 0) = false) as E1 by (apply Z.eqb_neq; lia).
  assert ((ch_chance ch =? 0) = false) as E2 by (apply Z.eqb_neq; exact Hc0).
  rewrite E1, E2, Hr in H. cbn [orb Z.eqb negb] in H.
  assert (forall s, In s (ch_servers ch) -> sv_probe s = true -> probe_in_flight ch (sv_addr s) = true) as Hpi2.
  { intros s Hs Hp. destruct (Hpi (sv_addr s) s (find_addr_in_nodup _ _ (wf_addr _ Hwf) Hs) Hp ltac:(discriminate)) as (x & Hx & Hxp & Hxs).
    unfold probe_in_flight. apply existsb_exists. exists x. split; [exact Hx|]. rewrite Hxp, Hxs, Z.eqb_refl. reflexivity. }
  pose proof (probe_due_target ch _ Hpi2 Hdue) as Hnn.
  destruct (find_probe_target (ch_now ch) (ch_servers ch)) as [q| |] eqn:Hq; cbn [bind] in H; try discriminate.
  destruct q as [ps|]; [|congruence].
  destruct (find_probe_target_some _ _ _ Hq) as (Hpsin & Hpspos & _).
  assert (sv_addr ps <> sv_addr su) as Hne2.
  { intros He. assert (In su (ch_servers ch)) as Hsuin.
    { unfold choose_server in Hch. destruct (ch_rotate ch).
      - apply (random_server_min _ _ _ Hwf Hch).
      - destruct (ch_servers ch); [discriminate|]. injection Hch as <-. left. reflexivity. }
    assert (ps = su) as -> by (eapply nodup_map_eq; [apply (wf_addr _ Hwf)|exact Hpsin|exact Hsuin|exact He]). lia. }
  assert ((sv_addr ps =? sv_addr su) = false) as Hneb by (apply Z.eqb_neq; exact Hne2).
  rewrite Hneb in H. cbn [bind] in H. injection H as <- <-.
  eexists. eexists. split; [right; left; reflexivity|exact Hne2].
Qed.

Lemma probe_liveness_reachable addrs rotate tries chance delay now evs ch obs0 c ch' obs su :
  run (init_chan addrs rotate tries chance delay now) evs = Ok (ch, obs0) ->
  choose_server (ch_rotate ch) (c_rot c) (ch_servers ch) = Some su -> sv_fail su = 0 ->
  ch_chance ch <> 0 -> c_probe c mod ch_chance ch = 0 ->
  probe_due ch (ch_servers ch) = Ok true ->
  step ch (EvSend c) = Ok (ch', obs) ->
  exists pl pa, In (OTx pl pa true) obs /\ pa <> sv_addr su.
Proof.
  intros Hrun. destruct (budget_accepts _ _ _ _ _ _ _ _ _ Hrun) as (bm & _ & Hinv).
  apply (probe_liveness bm). exact Hinv.
Qed.

(* non-vacuity: the history that starved the probe in the pinned code (query 0 times out on
   server 1 and succeeds on 2; query 1 spawns the probe 2 of server 1; the probe times out; a
   long time later query 3 is sent) now ends with a second probe *)
Example probe_liveness_witness :
  exists ch obs0 ch' , run (init_chan [1; 2] false 1 1 0 (100000, 0))
      [EvSend draw0; EvTimeout 0 draw0; EvAnswer 0; EvSend draw0; EvAnswer 1; EvTimeout 2 draw0; EvAdvance 600000] = Ok (ch, obs0) /\
    probe_due ch (ch_servers ch) = Ok true /\
    step ch (EvSend draw0) = Ok (ch', [OTx 3 2 false; OTx 4 1 true]).
Proof. eexists. eexists. eexists. split; [vm_compute; reflexivity|]. split; vm_compute; reflexivity. Qed.

(* non-vacuity of the hypotheses used above: a reachable table with failures, a probe in
   flight, rotation over two best servers *)
Example ex_reachable :
  exists ch obs, run (init_chan [5; 6; 7] true 2 1 0 (100000, 0))
                     [EvSend {| c_rot := 2; c_probe := 0 |}; EvRefuse 0 ARES_ESERVFAIL {| c_rot := 1; c_probe := 0 |};
                      EvAnswer 0; EvSend {| c_rot := 4; c_probe := 7 |}] = Ok (ch, obs) /\
    wf (ch_servers ch) /\
    obs = [OTx 0 7 false; OFail 7; OTx 0 6 false; OGood 6; ODone 0 0; OTx 1 5 false; OTx 2 7 true] /\
    map key (ch_servers ch) = [(5, 0, 0); (6, 1, 0); (7, 2, 1)].
Proof.
  assert (exists ch obs, run (init_chan [5; 6; 7] true 2 1 0 (100000, 0))
                     [EvSend {| c_rot := 2; c_probe := 0 |}; EvRefuse 0 ARES_ESERVFAIL {| c_rot := 1; c_probe := 0 |};
                      EvAnswer 0; EvSend {| c_rot := 4; c_probe := 7 |}] = Ok (ch, obs) /\
          obs = [OTx 0 7 false; OFail 7; OTx 0 6 false; OGood 6; ODone 0 0; OTx 1 5 false; OTx 2 7 true] /\
          map key (ch_servers ch) = [(5, 0, 0); (6, 1, 0); (7, 2, 1)]) as (ch & obs & Hrun & Ho & Hk).
  { eexists. eexists. split; [vm_compute; reflexivity|]. split; reflexivity. }
  exists ch, obs. split; [exact Hrun|]. split; [|split; assumption].
  apply (monitor_accepts _ _ _ _ _ _ _ _ _ Hrun).
Qed.

Lemma srv_strict_total_order :
  (forall a, srv_lt a a = false) /\
  (forall a b c, srv_lt a b = true -> srv_lt b c = true -> srv_lt a c = true) /\
  (forall a b, srv_lt a b = true -> srv_lt b a = false) /\
  (forall a b, sv_idx a <> sv_idx b -> srv_lt a b = true \/ srv_lt b a = true) /\
  (forall a b, srv_cmp a b = Ok 0 <-> (sv_fail a = sv_fail b /\ sv_idx a = sv_idx b)) /\
  (forall a b, srv_cmp a b = Ok (-1) <-> srv_cmp b a = Ok 1).
Proof.
  exact (conj srv_lt_irrefl (conj srv_lt_trans (conj srv_lt_asym (conj srv_lt_connected
        (conj srv_cmp_zero_iff srv_cmp_antisym))))).
Qed.

Lemma fresh_okb_iff rotate l a : NoDup (map sv_addr l) ->
  (fresh_okb rotate l a = true <-> fresh_ok rotate l a).
Proof. intros H. split; [apply fresh_okb_sound; exact H|apply fresh_okb_complete; exact H]. Qed.

(* ------------------------------------------------------------------------------------ *)
(* Server-list edits                                                                     *)
(* ------------------------------------------------------------------------------------ *)

(* the index a server gets is the position of its address in the new configuration (first
   occurrence, duplicates skipped) *)
Lemma expected_position old b : forall addrs idx i f,
  expected old b idx addrs = Some (i, f) ->
  idx <= i /\ nth_error addrs (Z.to_nat (i - idx)) = Some b /\ f = fail_or_0 old b.
Proof.
  induction addrs as [|a r IH]; intros idx i f H; [discriminate|]. cbn [expected] in H.
  destruct (Z.eqb_spec a b) as [->|Hne].
  - injection H as <- <-. rewrite Z.sub_diag. split; [lia|]. split; reflexivity.
  - apply IH in H. destruct H as (H1 & H2 & H3). split; [lia|]. split; [|exact H3].
    replace (Z.to_nat (i - idx)) with (S (Z.to_nat (i - (idx + 1)))) by lia. exact H2.
Qed.

(* C09 across edits: after ANY update (whatever is in flight) the table is well formed - sorted
   by (consecutive failures, NEW index), distinct addresses and indexes -, its addresses are a
   permutation of the new configuration without duplicates, every server has the position of its
   address as index and keeps its failures iff it was known before *)
Lemma edit_result old addrs :
  wf old ->
  wf (servers_update old addrs) /\
  Permutation (map sv_addr (servers_update old addrs)) (dedup [] addrs) /\
  forall s, In s (servers_update old addrs) ->
    nth_error (dedup [] addrs) (Z.to_nat (sv_idx s)) = Some (sv_addr s) /\ 0 <= sv_idx s /\
    sv_fail s = fail_or_0 old (sv_addr s).
Proof.
  intros Hwf. destruct (servers_update_wf old addrs Hwf) as (Hwf' & Hkv & Hperm).
  split; [exact Hwf'|]. split; [exact Hperm|]. intros s Hs.
  pose proof (kv_in _ s (wf_addr _ Hwf') Hs) as Hk. rewrite Hkv in Hk.
  destruct (expected_position _ _ _ _ _ _ Hk) as (H1 & H2 & H3).
  rewrite Z.sub_0_r in H2. split; [exact H2|]. split; [exact H1|exact H3].
Qed.

(* list_changed (query cache flush) is false exactly when the set of addresses is unchanged *)
Lemma update_changed_false old addrs :
  update_changed old addrs = false ->
  forall a, In a addrs <-> In a (map sv_addr old).
Proof.
  unfold update_changed. intros H. apply orb_false_iff in H. destruct H as (H1 & H2). intros a. split.
  - intros Hin. destruct (find_addr a old) as [s|] eqn:Hf.
    + apply find_addr_some in Hf. destruct Hf as (Hs & <-). apply in_map. exact Hs.
    + exfalso. assert (existsb (fun a => match find_addr a old with Some _ => false | None => true end) addrs = true) as Ht.
      { apply existsb_exists. exists a. split; [exact Hin|]. rewrite Hf. reflexivity. }
      congruence.
  - intros Hin. apply in_map_iff in Hin. destruct Hin as (s & <- & Hs).
    destruct (configured addrs s) eqn:Hc; [apply existsb_eqb_in; exact Hc|].
    exfalso. assert (existsb (fun s => negb (configured addrs s)) old = true) as Ht.
    { apply existsb_exists. exists s. split; [exact Hs|]. rewrite Hc. reflexivity. }
    congruence.
Qed.

(* The PINNED ares_servers_remove_stale destroys stale servers one at a time.  Reachable
   witness: servers 1,2,3; 2 has one failure; query 3 in flight on 1; the application installs
   the list [2].  Destroying server 1 re-queues the query to server 3 - which is not in the new
   configuration and is destroyed next - and only then to server 2. *)
Definition history_stale : list event :=
  [EvSend draw0; EvRefuse 0 ARES_ESERVFAIL draw0; EvRefuse 0 ARES_ESERVFAIL draw0; EvAnswer 0;
   EvSend draw0; EvAnswer 1; EvAnswer 2; EvSend draw0].

Lemma edit_pinned_refuted :
  exists ch obs0, run (init_chan [1; 2; 3] false 3 1 0 (100000, 0)) history_stale = Ok (ch, obs0) /\
    (exists ch', set_servers_pinned ch [2] [] = Ok (ch', [OServers [2]; OTx 3 3 false; OTx 3 2 false])) /\
    (exists ch', step ch (EvSetServers [2] []) = Ok (ch', [OServers [2]; OTx 3 2 false])) /\
    mon_run (mon_init [1; 2; 3] false) (obs0 ++ [OServers [2]; OTx 3 3 false]) = None.
Proof.
  eexists. eexists. split; [vm_compute; reflexivity|].
  split; [eexists; vm_compute; reflexivity|]. split; [eexists; vm_compute; reflexivity|].
  vm_compute. reflexivity.
Qed.

(* ------------------------------------------------------------------------------------ *)
(* A lost connection with queries outstanding demotes the server at once                 *)
(* ------------------------------------------------------------------------------------ *)
Definition quiet (l : list obs) : Prop := forall a b, ~ In (OConnLost a b) l.

Lemma dmon_quiet : forall l, quiet l -> dmon_run None l = Some None.
Proof.
  induction l as [|o r IH]; intros Hq; [reflexivity|]. cbn [dmon_run].
  assert (dmon_step None o = Some None) as ->.
  { destruct o; try reflexivity. exfalso. eapply Hq. left. reflexivity. }
  apply IH. intros a b Hin. apply (Hq a b). right. exact Hin.
Qed.

Lemma quiet_app l1 l2 : quiet l1 -> quiet l2 -> quiet (l1 ++ l2).
Proof. intros H1 H2 a b Hin. apply in_app_iff in Hin. destruct Hin as [H|H]; [exact (H1 a b H)|exact (H2 a b H)]. Qed.

Lemma send_fresh_quiet ch label try err c ch' obs : send_fresh ch label try err c = Ok (ch', obs) -> quiet obs.
Proof.
  intros H. destruct (send_fresh_struct _ _ _ _ _ _ _ H) as (Hst & _).
  inversion Hst; subst; intros a b Hin; cbn [In] in Hin; intuition discriminate.
Qed.

Lemma requeue_quiet ch a st c ch' obs : requeue ch a st c = Ok (ch', obs) -> quiet obs.
Proof.
  unfold requeue. destruct (requeue_sends ch a); [apply send_fresh_quiet|].
  destruct (at_probe a); intros H; injection H as <- <-; intros x y Hin; cbn [In] in Hin; intuition discriminate.
Qed.

Lemma requeue_all_quiet st : forall vs ch cs n ch' obs, requeue_all st ch vs cs n = Ok (ch', obs) -> quiet obs.
Proof.
  induction vs as [|v r IH]; intros ch cs n ch' obs H.
  - injection H as <- <-. intros a b [].
  - cbn [requeue_all] in H.
    destruct (requeue _ v st (nth_choice cs n)) as [[ch1 o1]| |] eqn:Hr; cbn [bind fst snd] in H; try discriminate.
    destruct (requeue_all st ch1 r cs _) as [[ch2 o2]| |] eqn:Hr2; cbn [bind fst snd] in H; try discriminate.
    injection H as <- <-. apply quiet_app; [eapply requeue_quiet; exact Hr|eapply IH; exact Hr2].
Qed.

Lemma fail_attempt_quiet ch a st c ch' obs : fail_attempt ch a st c = Ok (ch', obs) -> quiet obs.
Proof.
  unfold fail_attempt. intros H.
  destruct (server_increment_failures _ _ _ _) as [l1| |]; cbn [bind] in H; try discriminate.
  destruct (requeue _ a st c) as [[ch2 o2]| |] eqn:Hr; cbn [bind fst snd] in H; try discriminate.
  injection H as <- <-. apply quiet_app; [|eapply requeue_quiet; exact Hr].
  destruct (find_addr _ _); intros x y Hin; cbn [In] in Hin; intuition discriminate.
Qed.

Lemma step_dmon ch ev ch' obs : step ch ev = Ok (ch', obs) -> dmon_run None obs = Some None.
Proof.
  intros H. destruct ev as [c|label|label status c|label c|ms| |tl tc|a0 cs0|addrs cs]; cbn [step] in H.
  - apply dmon_quiet. destruct (Nat.eqb _ 0).
    + injection H as <- <-. intros a b Hin; cbn [In] in Hin; intuition discriminate.
    + eapply send_fresh_quiet; exact H.
  - destruct (find_attempt label (ch_inflight ch)) as [a|]; [|discriminate]. injection H as <- <-.
    apply dmon_quiet. apply quiet_app.
    + destruct (find_addr _ _); intros x y Hin; cbn [In] in Hin; intuition discriminate.
    + destruct (at_probe a); intros x y Hin; cbn [In] in Hin; intuition discriminate.
  - destruct (find_attempt label (ch_inflight ch)) as [a|]; [|discriminate].
    apply dmon_quiet. eapply fail_attempt_quiet; exact H.
  - destruct (find_attempt label (ch_inflight ch)) as [a|]; [|discriminate].
    apply dmon_quiet. eapply fail_attempt_quiet; exact H.
  - destruct (c_timeadd _ _ _); cbn [bind] in H; try discriminate. injection H as <- <-. reflexivity.
  - injection H as <- <-. apply dmon_quiet. intros a b Hin. apply in_map_iff in Hin. destruct Hin as (x & Hx & _). discriminate.
  - destruct (find_attempt tl (ch_inflight ch)) as [a|]; [|discriminate].
    destruct (at_probe a); [discriminate|]. apply dmon_quiet. eapply send_fresh_quiet; exact H.
  - destruct (find_addr a0 (ch_servers ch)); [|discriminate].
    destruct (server_increment_failures _ _ _ _) as [l1| |]; cbn [bind] in H; try discriminate.
    destruct (requeue_all _ _ _ _ _) as [[ch2 o2]| |] eqn:Hrq; cbn [bind fst snd] in H; try discriminate.
    injection H as <- <-. pose proof (dmon_quiet _ (requeue_all_quiet _ _ _ _ _ _ _ Hrq)) as Hq.
    cbn [dmon_run dmon_step]. destruct (negb _); cbn [dmon_run dmon_step]; [rewrite Z.eqb_refl|]; exact Hq.
  - destruct (requeue_all _ _ _ _ _) as [[ch2 o2]| |] eqn:Hrq; cbn [bind fst snd] in H; try discriminate.
    injection H as <- <-. cbn [dmon_run dmon_step]. apply dmon_quiet. eapply requeue_all_quiet; exact Hrq.
Qed.

Lemma dmon_run_app : forall a b, dmon_run None a = Some None -> dmon_run None (a ++ b) = dmon_run None b.
Proof.
  assert (forall a d b, dmon_run d (a ++ b) = match dmon_run d a with Some d' => dmon_run d' b | None => None end) as Happ.
  { induction a as [|o r IH]; intros d b; [reflexivity|]. cbn [app dmon_run]. destruct (dmon_step d o); [apply IH|reflexivity]. }
  intros a b H. rewrite Happ, H. reflexivity.
Qed.

(* trace level: whenever the transport loses a connection with queries outstanding, the very
   next observation is the failure callback of that server - for all histories *)
Lemma demotion_accepts : forall evs ch ch' obs, run ch evs = Ok (ch', obs) -> dmon_run None obs = Some None.
Proof.
  induction evs as [|e r IH]; intros ch ch' obs H.
  - injection H as <- <-. reflexivity.
  - cbn [run] in H.
    destruct (step ch e) as [[ch1 o1]| |] eqn:Hs; cbn [bind fst snd] in H; try discriminate.
    destruct (run ch1 r) as [[ch2 o2]| |] eqn:Hr; cbn [bind fst snd] in H; try discriminate.
    injection H as <- <-. rewrite (dmon_run_app _ _ (step_dmon _ _ _ _ Hs)). eapply IH. exact Hr.
Qed.

(* and the connection-loss step itself: one demotion, then the re-queued attempts (which
   C09_trace_accepted judges against the demoted table) *)
Lemma connlost_shape ch a cs ch' obs :
  step ch (EvConnLost a cs) = Ok (ch', obs) ->
  exists out rest, obs = OConnLost a out :: OFail a :: rest /\ quiet rest /\
    out = negb (is_nil (filter (fun x => at_server x =? a) (ch_inflight ch))).
Proof.
  intros H. cbn [step] in H. destruct (find_addr a (ch_servers ch)); [|discriminate].
  destruct (server_increment_failures _ _ _ _) as [l1| |]; cbn [bind] in H; try discriminate.
  destruct (requeue_all _ _ _ _ _) as [[ch2 o2]| |] eqn:Hrq; cbn [bind fst snd] in H; try discriminate.
  injection H as <- <-. eexists. eexists. split; [reflexivity|]. split; [eapply requeue_all_quiet; exact Hrq|reflexivity].
Qed.

(* A truncated UDP answer is followed by a FRESH selection: the TCP attempt goes to a server
   with the fewest consecutive failures of the table as it is when the TC answer arrives (the
   first such in configuration order without rotation) - whichever server sent the TC answer,
   and whatever happened to it while the UDP attempt was outstanding. *)
Lemma truncated_fresh ch label c ch' obs :
  wf (ch_servers ch) -> step ch (EvTruncated label c) = Ok (ch', obs) ->
  forall l a, In (OTx l a false) obs -> l = label /\ fresh_ok (ch_rotate ch) (ch_servers ch) a.
Proof.
  intros Hwf H l a Hin. cbn [step] in H.
  destruct (find_attempt label (ch_inflight ch)) as [x|] eqn:Hfa; [|discriminate].
  destruct (at_probe x); [discriminate|].
  destruct (send_fresh_shape (set_inflight ch (remove_attempt label (ch_inflight ch))) _ _ _ _ _ _ Hwf H) as (Hsh & _).
  inversion Hsh; subst; cbn [In] in Hin.
  - destruct Hin as [Hin|[]]; discriminate.
  - destruct Hin as [Hin|[]]. injection Hin as <- <-. split; [reflexivity|assumption].
  - destruct Hin as [Hin|[Hin|[]]]; [|discriminate]. injection Hin as <- <-. split; [reflexivity|assumption].
Qed.

(* Callback re-entrancy.  process_answer: server_set_good(server) THEN end_query() (which runs
   the user's callback).  In the model the success is the first observation of the step and
   the completion the second; in the state the completion callback runs in, the answering
   server has no failures, and a query started from inside the callback (EvSend on that state)
   is selected against that table: the restored server competes with full priority. *)
Lemma answer_then_send ch label a s ch' obs :
  wf (ch_servers ch) -> find_attempt label (ch_inflight ch) = Some a -> at_probe a = false ->
  find_addr (at_server a) (ch_servers ch) = Some s ->
  step ch (EvAnswer label) = Ok (ch', obs) ->
  obs = [OGood (at_server a); ODone label ARES_SUCCESS] /\
  wf (ch_servers ch') /\
  (exists s', find_addr (at_server a) (ch_servers ch') = Some s' /\ sv_fail s' = 0 /\ sv_idx s' = sv_idx s) /\
  forall c ch'' obs'', step ch' (EvSend c) = Ok (ch'', obs'') ->
    forall l b, In (OTx l b false) obs'' -> fresh_ok (ch_rotate ch') (ch_servers ch') b.
Proof.
  intros Hwf Hfa Hpa Hfs H. cbn [step] in H. rewrite Hfa, Hpa in H.
  cbn [ch_servers set_inflight] in H. rewrite Hfs in H. injection H as <- <-.
  destruct (set_good_spec (at_server a) (ch_servers ch) Hwf) as (Hwf1 & _ & Hsame & _).
  destruct (Hsame s Hfs) as (s' & Hf' & Hidx & Hfail & _).
  assert (wf (clear_probe (at_server a) (server_set_good (at_server a) (ch_servers ch)))) as Hwf2
    by (eapply wf_key; [symmetry; apply clear_probe_key|exact Hwf1]).
  split; [reflexivity|]. split; [exact Hwf2|]. split.
  - exists (set_probe s' false). cbn [ch_servers set_servers]. rewrite clear_probe_find, Hf', Z.eqb_refl.
    split; [reflexivity|split; assumption].
  - intros c ch'' obs'' Hs l b Hin. cbn [step] in Hs.
    match type of Hs with (if ?c then _ else _) = _ => destruct c end.
    + injection Hs as <- <-. destruct Hin as [Hin|[]]; discriminate.
    + match type of Hs with send_fresh ?c0 _ _ _ _ = _ =>
        destruct (send_fresh_shape c0 _ _ _ _ _ _ Hwf2 Hs) as (Hsh & _) end.
      inversion Hsh; subst; cbn [In] in Hin.
      * destruct Hin as [Hin|[]]; discriminate.
      * destruct Hin as [Hin|[]]. injection Hin as <- <-. assumption.
      * destruct Hin as [Hin|[Hin|[]]]; [|discriminate]. injection Hin as <- <-. assumption.
Qed.

(* probe_pending is set only while a probe copy is outstanding on that server - in every reachable
   state, whatever way probes end: answered, refused, timed out, cancelled, or failed at once while
   being sent (the connection could not be opened: EvSend followed by EvRefuse of the probe copy). *)
Lemma probe_flag_has_probe addrs rotate tries chance delay now evs ch obs b s :
  run (init_chan addrs rotate tries chance delay now) evs = Ok (ch, obs) ->
  find_addr b (ch_servers ch) = Some s -> sv_probe s = true ->
  exists x, In x (ch_inflight ch) /\ at_probe x = true /\ at_server x = b.
Proof.
  intros Hrun Hf Hp. destruct (budget_accepts _ _ _ _ _ _ _ _ _ Hrun) as (bm & _ & Hinv).
  apply (i_probe _ _ Hinv b s Hf Hp). discriminate.
Qed.
