(* C01: code-shaped model of the request lifecycle of c-ares.

   Objects are heap cells with an explicit freed set: every use through a pointer is a [touch]
   (UB UseAfterFree when the object was released), every release is a [free_obj]
   (UB DoubleFree when it was released before).  Queries, connections and host_query states are
   shared (several indexes / several queries point at them) and live in the heap with their
   contents.  Objects that are referenced from exactly one callback closure (the qquery /
   dnsrec_convert / ghbn / nameinfo wrappers, struct search_query, struct addr_query) are
   allocated in the heap for their lifetime (liveness only) and their contents travel with the
   closure value [cbk] that references them; every C access to them is still a [touch].

   What the library cannot control is read from a *tape* of decisions (state field st_tape),
   consumed in the order in which the C code reaches the corresponding call sites:
   results of the query cache, of record duplication, of opening a connection, which
   connection a query is written to and whether the write succeeded, which query an arriving
   message matched and what the message said, socket closes, server failures, query ids.
   Theorems quantify over all tapes; in the correspondence run the tape is the trace the
   simulator prints (harness/chan01_trace.c wraps the call sites).  A tape that does not fit
   the control flow is [Err EDESYNC] (counts as a correspondence failure, never as success).

   [fixes] selects, per defect of the pinned tree, the pinned or the fixed code:
     fx_unlink      ares_query_complete(): unlink before the callback; cancel/destroy take the
                    first entry instead of caching next            (ce0c9d5)
     fx_search      ares_search_next(): skip_cleanup always         (e732c3e)
     fx_revalidate  ares_send_query(): look the query up again after the connection it could
                    not be written to was closed                    (3a27dcb)
     fx_connread    read_answers(): connection kept alive while being read (eb0f53d)
     fx_qidearly    ares_send_nolock(): *qid = id before ares_send_query, not after
                    (8caadf2)
     fx_cancelmark  ares_cancel(): the queries it has taken are marked; ares_query_complete()
                    reports ARES_ECANCELLED for a marked query whatever ended it
                    (fixes/C01-cancel-complete.patch)                                     *)
From Coq Require Import List ZArith Lia Bool Arith.
Import ListNotations.
From CAres.Base Require Import Outcome.
From CAres.Gen Require Import Consts.
From CAres.Core Require Import LifecycleMonitor.

Definition obj := nat.
Definition tok := nat.

Definition EDESYNC : Z := (-2)%Z.      (* tape does not fit / inadmissible choice *)
Definition EINTERNAL : Z := (-3)%Z.    (* model-internal inconsistency (never, see proofs) *)

Record fixes := { fx_unlink : bool; fx_search : bool; fx_revalidate : bool; fx_connread : bool; fx_qidearly : bool;
  fx_cancelmark : bool }.
Definition all_fixed := {| fx_unlink := true; fx_search := true; fx_revalidate := true; fx_connread := true; fx_qidearly := true;
  fx_cancelmark := true |}.
Definition pinned := {| fx_unlink := false; fx_search := false; fx_revalidate := false; fx_connread := false; fx_qidearly := false;
  fx_cancelmark := false |}.

Record config := {
  cf_fix : fixes;
  cf_tries : nat;            (* channel->tries (per server) *)
  cf_nservers : nat;         (* number of servers the channel is created with *)
  cf_igntc : bool;           (* ARES_FLAG_IGNTC *)
  cf_nocheckresp : bool;     (* ARES_FLAG_NOCHECKRESP *)
  cf_dns0x20 : bool          (* ARES_FLAG_DNS0x20 *)
}.

(* what a received message said, as far as process_answer() looks at it *)
Record ansinfo := {
  a_rcode : nat; a_tc : bool; a_ancount : nat;
  a_resp_opt : bool;         (* response carries an OPT RR *)
  a_req_opt : bool;          (* the query carries an OPT RR *)
  a_req_optcnt : bool        (* ... with at least one option *)
}.

Inductive tev :=
| TI (qid : nat)                       (* ares_generate_new_id *)
| TQ (rc : Z) (rcode an id : nat)      (* ares_qcache_fetch *)
| TD (rc : Z)                          (* ares_dns_record_duplicate_ex *)
| TN (rc : Z)                          (* ares_dns_record_query_set_name *)
| TO (rc : Z)                          (* ares_open_connection *)
| TW (qid : nat) (sock : nat) (tcp : bool)   (* ares_conn_query_write entered (ares_cookie_apply) *)
| TF (sock : nat) (rc : Z)             (* ares_conn_flush *)
| TM (qid : nat) (sock : nat) (a : ansinfo)  (* response matched query qid on its connection (ares_cookie_validate entered) *)
| TMR (rc : Z) (requeued : bool)       (* ares_cookie_validate returned; requeued: it called ares_requeue_query *)
| TX (sock : nat) (st : Z)             (* handle_conn_error -> ares_close_connection *)
| TCL (sock : nat)                     (* socket closed *)
| TE (qid : nat) (st : Z)              (* end_query entered (ares_metrics_record) *)
| TS                                   (* server_increment_failures (server state callback) *)
| TG                                   (* server_set_good *)
| TP (rc : Z) (nodes v4 v6 : bool)     (* ares_parse_into_addrinfo result; ai has nodes / an IPv4 / an IPv6 node afterwards *)
| TR (rc : Z)                          (* ares_parse_ptr_reply_dnsrec *)
| TK | TKE                             (* ares_check_cleanup_conns entered / returned *)
| TU (n : nat) | TUE.                  (* ares_servers_update entered (n servers in the new list) / returned *)

(* result handed to a callback: status and, when a DNS record is passed, its rcode/ancount *)
Record result := { r_status : Z; r_rec : option (nat * nat * nat) (* rcode, ancount, message id *) }.
Definition res (st : Z) : result := {| r_status := st; r_rec := None |}.

Inductive wkind :=
| WConv                      (* dnsrec_convert_arg_t / ares_dnsrec_convert_cb *)
| WQQuery                    (* ares_query_dnsrec_arg_t / ares_query_dnsrec_cb *)
| WGhbn                      (* ghbn_arg / ares_gethostbyname_callback *)
| WNameinfo (namereqd : bool).  (* struct nameinfo_query / nameinfo_callback *)

(* a search candidate name: is it a single label? *)
Definition cand := bool.

Inductive cbk :=
| KUser (t : tok)
| KProbe                                                   (* server_probe_cb *)
| KWrap (w : wkind) (o : obj) (k : cbk)
| KSearch (o : obj) (k : cbk) (cur_single : bool) (lft : list cand) (nodata : bool)
| KAddr (o : obj) (k : cbk) (lft : list bool)              (* remaining lookups: true = 'b', false = 'f' *)
| KHost (o : obj).                                          (* host_callback, arg = host_query cell o *)

Record query := {
  q_qid : nat; q_cb : cbk; q_conn : option obj;
  q_try : nat; q_noretry : bool; q_tcp : bool; q_err : Z;
  q_cancelled : bool         (* taken by a running ares_cancel() *)
}.
Record conn := { c_sock : nat; c_tcp : bool; c_queries : list obj; c_reading : bool; c_closed : bool }.
Record hostq := {
  h_cb : cbk; h_remaining : nat; h_names : list cand; h_cur_single : bool; h_family : nat (* 0 4 6 *);
  h_lookups : list bool; h_localhost : bool; h_nodes : bool; h_v4 : bool; h_nodata : nat;
  h_qid_a : nat; h_qid_aaaa : nat;
  h_nomem : bool             (* 740940b: one of the lookups ran out of memory *)
}.
Definition mk_host k names family lookups localhost :=
  {| h_cb := k; h_remaining := 0; h_names := names; h_cur_single := false; h_family := family; h_lookups := lookups;
     h_localhost := localhost; h_nodes := false; h_v4 := false; h_nodata := 0; h_qid_a := 0; h_qid_aaaa := 0;
     h_nomem := false |}.
Definition h_set_remaining n h := {| h_cb := h_cb h; h_remaining := n; h_names := h_names h; h_cur_single := h_cur_single h;
  h_family := h_family h; h_lookups := h_lookups h; h_localhost := h_localhost h; h_nodes := h_nodes h; h_v4 := h_v4 h;
  h_nodata := h_nodata h; h_qid_a := h_qid_a h; h_qid_aaaa := h_qid_aaaa h; h_nomem := h_nomem h |}.
Definition h_set_names l cs h := {| h_cb := h_cb h; h_remaining := h_remaining h; h_names := l; h_cur_single := cs;
  h_family := h_family h; h_lookups := h_lookups h; h_localhost := h_localhost h; h_nodes := h_nodes h; h_v4 := h_v4 h;
  h_nodata := h_nodata h; h_qid_a := h_qid_a h; h_qid_aaaa := h_qid_aaaa h; h_nomem := h_nomem h |}.
Definition h_set_lookups l h := {| h_cb := h_cb h; h_remaining := h_remaining h; h_names := h_names h; h_cur_single := h_cur_single h;
  h_family := h_family h; h_lookups := l; h_localhost := h_localhost h; h_nodes := h_nodes h; h_v4 := h_v4 h;
  h_nodata := h_nodata h; h_qid_a := h_qid_a h; h_qid_aaaa := h_qid_aaaa h; h_nomem := h_nomem h |}.
Definition h_set_ai nodes v4 nm nd h := {| h_cb := h_cb h; h_remaining := h_remaining h; h_names := h_names h; h_cur_single := h_cur_single h;
  h_family := h_family h; h_lookups := h_lookups h; h_localhost := h_localhost h; h_nodes := nodes; h_v4 := v4;
  h_nodata := nd; h_qid_a := h_qid_a h; h_qid_aaaa := h_qid_aaaa h; h_nomem := nm |}.
Definition h_set_nodata n h := {| h_cb := h_cb h; h_remaining := h_remaining h; h_names := h_names h; h_cur_single := h_cur_single h;
  h_family := h_family h; h_lookups := h_lookups h; h_localhost := h_localhost h; h_nodes := h_nodes h; h_v4 := h_v4 h;
  h_nodata := n; h_qid_a := h_qid_a h; h_qid_aaaa := h_qid_aaaa h; h_nomem := h_nomem h |}.
Definition h_set_qids a b h := {| h_cb := h_cb h; h_remaining := h_remaining h; h_names := h_names h; h_cur_single := h_cur_single h;
  h_family := h_family h; h_lookups := h_lookups h; h_localhost := h_localhost h; h_nodes := h_nodes h; h_v4 := h_v4 h;
  h_nodata := h_nodata h; h_qid_a := a; h_qid_aaaa := b; h_nomem := h_nomem h |}.
Inductive cell := CQuery (q : query) | CConn (c : conn) | CHost (h : hostq) | COpaque.

(* API calls a script can make (and the top-level inputs that submit requests) *)
Inductive call :=
| ASync (t : tok) (st : Z)                       (* request that completes inside the entry point without reaching ares_send_nolock *)
| ASend (t : tok)
| ASendRaw (t : tok)
| AQuery (t : tok) | AOQuery (t : tok) (create_rc : Z)
| ASearch (t : tok) (names : list cand) | AOSearch (t : tok) (names : list cand)
| AGhba (t : tok) (lookups : list bool)
| AGni (t : tok) (lookups : list bool) (namereqd : bool)
| AGai (t : tok) (names : list cand) (family : nat) (lookups : list bool) (localhost : bool)
| AGhbn (t : tok) (names : list cand) (family : nat) (lookups : list bool) (localhost : bool)
| ACancel
| ASetServers                                     (* ares_set_servers*(), ares_reinit() reaching ares_servers_update() *)
| ANop.                                           (* qlen, fds, tmo, ... *)

Record state := {
  st_next : obj;
  st_cells : list (obj * cell);
  st_freed : list obj;
  st_lists : list (list obj);     (* head: channel->all_queries; then the list_copy of every running ares_cancel *)
  st_byqid : list (nat * obj);
  st_bytmo : list obj;
  st_conns : list obj;            (* union of server->connections *)
  st_tape : list tev;
  st_scripts : list (tok * list call);
  st_trace : list event;          (* reversed *)
  st_destroying : bool;
  st_nservers : nat               (* ares_slist_len(channel->servers) *)
}.

Definition M (A : Type) := state -> outcome (A * state).
Definition ret {A} (a : A) : M A := fun s => Ok (a, s).
Definition mbind {A B} (m : M A) (f : A -> M B) : M B :=
  fun s => match m s with Ok (a, s') => f a s' | Err e => Err e | UB k => UB k end.
Definition fail {A} (e : Z) : M A := fun _ => Err e.
Definition ub {A} (k : ub_kind) : M A := fun _ => UB k.
Notation "'let!' x ':=' m 'in' f" := (mbind m (fun x => f))
  (at level 200, x pattern, m at level 100, f at level 200, right associativity).
Notation "m ';;' f" := (mbind m (fun _ => f)) (at level 100, f at level 200, right associativity).

Definition get : M state := fun s => Ok (s, s).
Definition put (s : state) : M unit := fun _ => Ok (tt, s).
Definition modify (f : state -> state) : M unit := fun s => Ok (tt, f s).

Definition set_cells c s := {| st_next := st_next s; st_cells := c; st_freed := st_freed s; st_lists := st_lists s;
  st_byqid := st_byqid s; st_bytmo := st_bytmo s; st_conns := st_conns s; st_tape := st_tape s;
  st_scripts := st_scripts s; st_trace := st_trace s; st_destroying := st_destroying s; st_nservers := st_nservers s |}.
Definition set_lists l s := {| st_next := st_next s; st_cells := st_cells s; st_freed := st_freed s; st_lists := l;
  st_byqid := st_byqid s; st_bytmo := st_bytmo s; st_conns := st_conns s; st_tape := st_tape s;
  st_scripts := st_scripts s; st_trace := st_trace s; st_destroying := st_destroying s; st_nservers := st_nservers s |}.
Definition set_byqid l s := {| st_next := st_next s; st_cells := st_cells s; st_freed := st_freed s; st_lists := st_lists s;
  st_byqid := l; st_bytmo := st_bytmo s; st_conns := st_conns s; st_tape := st_tape s;
  st_scripts := st_scripts s; st_trace := st_trace s; st_destroying := st_destroying s; st_nservers := st_nservers s |}.
Definition set_bytmo l s := {| st_next := st_next s; st_cells := st_cells s; st_freed := st_freed s; st_lists := st_lists s;
  st_byqid := st_byqid s; st_bytmo := l; st_conns := st_conns s; st_tape := st_tape s;
  st_scripts := st_scripts s; st_trace := st_trace s; st_destroying := st_destroying s; st_nservers := st_nservers s |}.
Definition set_conns l s := {| st_next := st_next s; st_cells := st_cells s; st_freed := st_freed s; st_lists := st_lists s;
  st_byqid := st_byqid s; st_bytmo := st_bytmo s; st_conns := l; st_tape := st_tape s;
  st_scripts := st_scripts s; st_trace := st_trace s; st_destroying := st_destroying s; st_nservers := st_nservers s |}.
Definition set_tape l s := {| st_next := st_next s; st_cells := st_cells s; st_freed := st_freed s; st_lists := st_lists s;
  st_byqid := st_byqid s; st_bytmo := st_bytmo s; st_conns := st_conns s; st_tape := l;
  st_scripts := st_scripts s; st_trace := st_trace s; st_destroying := st_destroying s; st_nservers := st_nservers s |}.
Definition set_scripts l s := {| st_next := st_next s; st_cells := st_cells s; st_freed := st_freed s; st_lists := st_lists s;
  st_byqid := st_byqid s; st_bytmo := st_bytmo s; st_conns := st_conns s; st_tape := st_tape s;
  st_scripts := l; st_trace := st_trace s; st_destroying := st_destroying s; st_nservers := st_nservers s |}.
Definition set_trace l s := {| st_next := st_next s; st_cells := st_cells s; st_freed := st_freed s; st_lists := st_lists s;
  st_byqid := st_byqid s; st_bytmo := st_bytmo s; st_conns := st_conns s; st_tape := st_tape s;
  st_scripts := st_scripts s; st_trace := l; st_destroying := st_destroying s; st_nservers := st_nservers s |}.
Definition set_nservers n s := {| st_next := st_next s; st_cells := st_cells s; st_freed := st_freed s; st_lists := st_lists s;
  st_byqid := st_byqid s; st_bytmo := st_bytmo s; st_conns := st_conns s; st_tape := st_tape s;
  st_scripts := st_scripts s; st_trace := st_trace s; st_destroying := st_destroying s; st_nservers := n |}.
Definition set_destroying b s := {| st_next := st_next s; st_cells := st_cells s; st_freed := st_freed s; st_lists := st_lists s;
  st_byqid := st_byqid s; st_bytmo := st_bytmo s; st_conns := st_conns s; st_tape := st_tape s;
  st_scripts := st_scripts s; st_trace := st_trace s; st_destroying := b; st_nservers := st_nservers s |}.

(* ---------------------------------------------------------------------------------- *)
(* Heap                                                                                *)
(* ---------------------------------------------------------------------------------- *)
Fixpoint lookup {A} (o : nat) (l : list (nat * A)) : option A :=
  match l with [] => None | (o', c) :: r => if Nat.eqb o o' then Some c else lookup o r end.
Fixpoint remove_key {A} (o : nat) (l : list (nat * A)) : list (nat * A) :=
  match l with [] => [] | (o', c) :: r => if Nat.eqb o o' then remove_key o r else (o', c) :: remove_key o r end.
Definition memb (o : nat) (l : list nat) : bool := existsb (Nat.eqb o) l.
Definition remove_nat (o : nat) (l : list nat) : list nat := filter (fun x => negb (Nat.eqb o x)) l.

Definition alloc (c : cell) : M obj := fun s =>
  let o := st_next s in
  Ok (o, {| st_next := S o; st_cells := (o, c) :: st_cells s; st_freed := st_freed s; st_lists := st_lists s;
            st_byqid := st_byqid s; st_bytmo := st_bytmo s; st_conns := st_conns s; st_tape := st_tape s;
            st_scripts := st_scripts s; st_trace := st_trace s; st_destroying := st_destroying s; st_nservers := st_nservers s |}).

(* every C access through a pointer to object o *)
Definition touch (o : obj) : M cell := fun s =>
  if memb o (st_freed s) then UB UseAfterFree
  else match lookup o (st_cells s) with Some c => Ok (c, s) | None => Err EINTERNAL end.

Definition free_obj (o : obj) : M unit := fun s =>
  if memb o (st_freed s) then UB DoubleFree
  else match lookup o (st_cells s) with
       | Some _ => Ok (tt, {| st_next := st_next s; st_cells := remove_key o (st_cells s); st_freed := o :: st_freed s;
                              st_lists := st_lists s; st_byqid := st_byqid s; st_bytmo := st_bytmo s; st_conns := st_conns s;
                              st_tape := st_tape s; st_scripts := st_scripts s; st_trace := st_trace s;
                              st_destroying := st_destroying s; st_nservers := st_nservers s |})
       | None => Err EINTERNAL end.

Definition store (o : obj) (c : cell) : M unit :=
  let! _ := touch o in modify (fun s => set_cells ((o, c) :: remove_key o (st_cells s)) s).

Definition get_query (o : obj) : M query :=
  let! c := touch o in match c with CQuery q => ret q | _ => fail EINTERNAL end.
Definition get_conn (o : obj) : M conn :=
  let! c := touch o in match c with CConn q => ret q | _ => fail EINTERNAL end.
Definition get_host (o : obj) : M hostq :=
  let! c := touch o in match c with CHost q => ret q | _ => fail EINTERNAL end.

Definition set_q_cb k q := {| q_qid := q_qid q; q_cb := k; q_conn := q_conn q; q_try := q_try q; q_noretry := q_noretry q; q_tcp := q_tcp q; q_err := q_err q; q_cancelled := q_cancelled q |}.
Definition set_q_conn c q := {| q_qid := q_qid q; q_cb := q_cb q; q_conn := c; q_try := q_try q; q_noretry := q_noretry q; q_tcp := q_tcp q; q_err := q_err q; q_cancelled := q_cancelled q |}.
Definition set_q_try n q := {| q_qid := q_qid q; q_cb := q_cb q; q_conn := q_conn q; q_try := n; q_noretry := q_noretry q; q_tcp := q_tcp q; q_err := q_err q; q_cancelled := q_cancelled q |}.
Definition set_q_noretry b q := {| q_qid := q_qid q; q_cb := q_cb q; q_conn := q_conn q; q_try := q_try q; q_noretry := b; q_tcp := q_tcp q; q_err := q_err q; q_cancelled := q_cancelled q |}.
Definition set_q_tcp b q := {| q_qid := q_qid q; q_cb := q_cb q; q_conn := q_conn q; q_try := q_try q; q_noretry := q_noretry q; q_tcp := b; q_err := q_err q; q_cancelled := q_cancelled q |}.
Definition set_q_err e q := {| q_qid := q_qid q; q_cb := q_cb q; q_conn := q_conn q; q_try := q_try q; q_noretry := q_noretry q; q_tcp := q_tcp q; q_err := e; q_cancelled := q_cancelled q |}.
Definition set_q_cancelled b q := {| q_qid := q_qid q; q_cb := q_cb q; q_conn := q_conn q; q_try := q_try q; q_noretry := q_noretry q; q_tcp := q_tcp q; q_err := q_err q; q_cancelled := b |}.
Definition set_c_queries l c := {| c_sock := c_sock c; c_tcp := c_tcp c; c_queries := l; c_reading := c_reading c; c_closed := c_closed c |}.
Definition set_c_reading b c := {| c_sock := c_sock c; c_tcp := c_tcp c; c_queries := c_queries c; c_reading := b; c_closed := c_closed c |}.
Definition set_c_closed b c := {| c_sock := c_sock c; c_tcp := c_tcp c; c_queries := c_queries c; c_reading := c_reading c; c_closed := b |}.

(* ---------------------------------------------------------------------------------- *)
(* Tape and trace                                                                      *)
(* ---------------------------------------------------------------------------------- *)
Definition peek : M (option tev) := fun s => Ok (hd_error (st_tape s), s).
Definition peek2 : M (option tev) := fun s => Ok (hd_error (tl (st_tape s)), s).
Definition pop : M tev := fun s =>
  match st_tape s with [] => Err EDESYNC | e :: r => Ok (e, set_tape r s) end.
Definition emit (e : event) : M unit := modify (fun s => set_trace (e :: st_trace s) s).

Definition expect_TS : M unit := let! e := pop in match e with TS => ret tt | _ => fail EDESYNC end.
Definition expect_TG : M unit := let! e := pop in match e with TG => ret tt | _ => fail EDESYNC end.
Definition expect_TCL (sock : nat) : M unit :=
  let! e := pop in match e with TCL s => if Nat.eqb s sock then ret tt else fail EDESYNC | _ => fail EDESYNC end.

(* first TMR on the tape (the return of the ares_cookie_validate call that is in progress) *)
Fixpoint find_tmr (t : list tev) : option (Z * bool) :=
  match t with [] => None | TMR rc rq :: _ => Some (rc, rq) | _ :: r => find_tmr r end.
(* the query a timeout is about: the first write attempt or end_query that follows *)
Fixpoint timeout_victim (t : list tev) : option nat :=
  match t with [] => None | TW q _ _ :: _ => Some q | TE q _ :: _ => Some q | _ :: r => timeout_victim r end.

(* ares_servers_update removing a server: which connection ares_close_sockets() closes next.  A
   connection with queries first re-queues its first query (TW: sent again, TE: ended; possibly
   after failed attempts to open a connection), an idle one is closed right away *)
Inductive victim := VEnd | VSock (sock : nat) | VQid (qid : nat).
Fixpoint close_victim (t : list tev) : option victim :=
  match t with
  | TUE :: _ => Some VEnd
  | TCL s :: _ => Some (VSock s)
  | TW q _ _ :: _ => Some (VQid q)
  | TE q _ :: _ => Some (VQid q)
  | TO _ :: r => close_victim r
  | TS :: r => close_victim r
  | _ => None
  end.

(* ares_dns_query_reply_tostatus (a switch: outside the subset of gen/c2gallina.py, hand-modelled) *)
(* ares_probe_failed_server decided to probe: a query id is drawn (possibly several times, when
   the id is in use) and, unlike for every other request, the query cache is not consulted *)
Fixpoint probe_ahead (t : list tev) : bool :=
  match t with
  | TI _ :: ((TI _ :: _) as r) => probe_ahead r
  | TI _ :: TD _ :: _ => true
  | _ => false end.

Definition tostatus (rcode ancount : nat) : Z :=
  match rcode with
  | 0 => if Nat.ltb 0 ancount then ARES_SUCCESS else ARES_ENODATA
  | 1 => ARES_EFORMERR
  | 2 => ARES_ESERVFAIL
  | 3 => ARES_ENOTFOUND
  | 4 => ARES_ENOTIMP
  | 5 => ARES_EREFUSED
  | _ => ARES_SUCCESS
  end.

Definition zeqb := Z.eqb.

(* ---------------------------------------------------------------------------------- *)
(* Index maintenance (no callbacks)                                                    *)
(* ---------------------------------------------------------------------------------- *)
Definition find_conn_by_sock (sock : nat) : M (option obj) := fun s =>
  Ok (find (fun o => match lookup o (st_cells s) with Some (CConn c) => Nat.eqb (c_sock c) sock | _ => false end) (st_conns s), s).

(* ares_llist_node_destroy(query->node_queries_to_conn): the node lives in the list of the
   connection the query was last written to *)
Definition unlink_conn_node (qo : obj) : M unit :=
  fun s => match find (fun co => match lookup co (st_cells s) with Some (CConn c) => memb qo (c_queries c) | _ => false end)
                      (map fst (st_cells s)) with
           | Some co => (let! c := get_conn co in store co (CConn (set_c_queries (remove_nat qo (c_queries c)) c))) s
           | None => Ok (tt, s) end.

(* ares_query_remove_from_conn *)
Definition remove_from_conn (qo : obj) : M unit :=
  let! q := get_query qo in
  modify (fun s => set_bytmo (remove_nat qo (st_bytmo s)) s) ;;
  unlink_conn_node qo ;;
  let! q := get_query qo in
  store qo (CQuery (set_q_conn None q)).

(* ares_detach_query *)
Definition detach_query (qo : obj) : M unit :=
  remove_from_conn qo ;;
  let! q := get_query qo in
  modify (fun s => set_byqid (remove_key (q_qid q) (st_byqid s)) s) ;;
  modify (fun s => set_lists (map (remove_nat qo) (st_lists s)) s).

(* ares_query_release: the query record (query->query) and the query itself *)
Definition release_query (qo : obj) : M unit := free_obj qo.

(* ares_free_query *)
Definition free_query (qo : obj) : M unit := detach_query qo ;; release_query qo.

(* the tail of a successful ares_send_query: timeout list (by_timeout), the connection's query
   list (an old node is destroyed first), query->conn, using_tcp *)
Definition attach_frag (qo co : obj) (tcp : bool) : M unit :=
  modify (fun s => set_bytmo (remove_nat qo (st_bytmo s) ++ [qo]) s) ;;
  unlink_conn_node qo ;;
  (let! c := get_conn co in
   store co (CConn (set_c_queries (c_queries c ++ [qo]) c))) ;;
  (let! q := get_query qo in
   store qo (CQuery (set_q_conn (Some co) (set_q_tcp tcp q)))).

Definition link_all (qo : obj) : M unit :=
  modify (fun s => set_lists (match st_lists s with [] => [[qo]] | l :: r => (l ++ [qo]) :: r end) s).

(* ---------------------------------------------------------------------------------- *)
(* The mutually recursive part: everything that may run a user callback                *)
(* ---------------------------------------------------------------------------------- *)
(* "*qid = id" in ares_send_nolock when the caller passed &hquery->qid_a / &hquery->qid_aaaa *)
Definition write_qid (qd : option (obj * bool)) (qid : nat) : M unit :=
  match qd with
  | None => ret tt
  | Some (o, aaaa) =>
      let! h := get_host o in
      store o (CHost (if aaaa then h_set_qids (h_qid_a h) qid h else h_set_qids qid (h_qid_aaaa h) h))
  end.

(* ares_cancel marking the queries it has taken (no callback runs in between) *)
Fixpoint mark_cancelled (l : list obj) : M unit :=
  match l with
  | [] => ret tt
  | qo :: r => (let! q := get_query qo in store qo (CQuery (set_q_cancelled true q))) ;; mark_cancelled r
  end.

Section Run.
Variable cf : config.
Let fx := cf_fix cf.

Definition is_retryable (st : Z) : bool := zeqb st ARES_ECONNREFUSED || zeqb st ARES_EBADFAMILY.

(* process_answer()'s classification of an accepted response *)
Inductive disposition := DEdns | DTrunc | DServFail (st : Z) | DFinal.
Definition classify (a : ansinfo) (conn_tcp : bool) : disposition :=
  if Nat.eqb (a_rcode a) 1 && a_req_opt a && (negb (a_resp_opt a) || a_req_optcnt a) then DEdns
  else if a_tc a && negb conn_tcp && negb (cf_igntc cf) then DTrunc
  else if negb (cf_nocheckresp cf) && Nat.eqb (a_rcode a) 2 then DServFail ARES_ESERVFAIL
  else if negb (cf_nocheckresp cf) && Nat.eqb (a_rcode a) 4 then DServFail ARES_ENOTIMP
  else if negb (cf_nocheckresp cf) && Nat.eqb (a_rcode a) 5 then DServFail ARES_EREFUSED
  else DFinal.

Definition take_script (t : tok) : M (list call) := fun s =>
  match lookup t (st_scripts s) with
  | Some l => Ok (l, set_scripts (remove_key t (st_scripts s)) s)
  | None => Ok ([], s) end.

(* generate_unique_qid *)
Fixpoint gen_qid (n : nat) : M nat :=
  match n with O => fail EDESYNC | S n' =>
    let! e := pop in
    match e with
    | TI qid => let! s := get in
                match lookup qid (st_byqid s) with Some _ => gen_qid n' | None => ret qid end
    | _ => fail EDESYNC end
  end.

Fixpoint invoke (fuel : nat) (k : cbk) (r : result) {struct fuel} : M unit :=
  match fuel with O => fail OutOfFuel | S f =>
  match k with
  | KUser t =>
      emit (EvCb t (r_status r)) ;;
      let! sc := take_script t in
      run_script f sc
  | KProbe => ret tt
  | KWrap w o k' =>
      let! _ := touch o in
      let r' := match w with
                | WQQuery => if zeqb (r_status r) ARES_SUCCESS
                             then match r_rec r with Some (rc, an, _) => {| r_status := tostatus rc an; r_rec := r_rec r |} | None => r end
                             else r
                | WNameinfo namereqd =>
                    if zeqb (r_status r) ARES_SUCCESS then r
                    else if zeqb (r_status r) ARES_ENOTFOUND && negb namereqd then res ARES_SUCCESS else res (r_status r)
                | _ => r end in
      invoke f k' r' ;;
      free_obj o
  | KSearch o k' cur_single lft nodata => search_callback f o k' cur_single lft nodata r
  | KAddr o k' lft => addr_callback f o k' lft r
  | KHost o => host_callback f o r
  end end

with run_script (fuel : nat) (sc : list call) {struct fuel} : M unit :=
  match fuel with O => fail OutOfFuel | S f =>
  match sc with
  | [] => ret tt
  | c :: rest => api f c ;; run_script f rest
  end end

(* entry points *)
with api (fuel : nat) (c : call) {struct fuel} : M unit :=
  match fuel with O => fail OutOfFuel | S f =>
  match c with
  | ANop => ret tt
  | ACancel => cancel f
  | ASetServers => emit EvSetServers ;; set_servers f
  | ASync t st => emit (EvReq t) ;; invoke f (KUser t) (res st)
  | ASend t => emit (EvReq t) ;; let! _ := send_nolock f (KUser t) false None in ret tt
  | ASendRaw t =>
      emit (EvReq t) ;;
      let! o := alloc COpaque in
      let! _ := send_nolock f (KWrap WConv o (KUser t)) false None in ret tt
  | AQuery t => emit (EvReq t) ;; let! _ := query_nolock f (KUser t) None in ret tt
  | AOQuery t create_rc =>
      emit (EvReq t) ;;
      let! o := alloc COpaque in
      if zeqb create_rc ARES_SUCCESS
      then let! _ := query_nolock f (KWrap WConv o (KUser t)) None in ret tt
      else invoke f (KWrap WConv o (KUser t)) (res create_rc)
  | ASearch t names => emit (EvReq t) ;; let! _ := search_int f (KUser t) names in ret tt
  | AOSearch t names =>
      emit (EvReq t) ;;
      let! o := alloc COpaque in
      let! _ := search_int f (KWrap WConv o (KUser t)) names in ret tt
  | AGhba t lookups =>
      emit (EvReq t) ;;
      let! o := alloc COpaque in
      addr_next_lookup f o (KUser t) lookups
  | AGni t lookups namereqd =>
      emit (EvReq t) ;;
      let! w := alloc COpaque in
      let! o := alloc COpaque in
      addr_next_lookup f o (KWrap (WNameinfo namereqd) w (KUser t)) lookups
  | AGai t names family lookups localhost =>
      emit (EvReq t) ;;
      let! o := alloc (CHost (mk_host (KUser t) names family lookups localhost)) in
      host_next_lookup f o ARES_ECONNREFUSED
  | AGhbn t names family lookups localhost =>
      emit (EvReq t) ;;
      let! w := alloc COpaque in
      let! o := alloc (CHost (mk_host (KWrap WGhbn w (KUser t)) names family lookups localhost)) in
      host_next_lookup f o ARES_ECONNREFUSED
  end end

(* ares_query_nolock (after ares_dns_record_create_query succeeded); qd: where the caller wants the id *)
with query_nolock (fuel : nat) (k : cbk) (qd : option (obj * bool)) {struct fuel} : M Z :=
  match fuel with O => fail OutOfFuel | S f =>
  let! o := alloc COpaque in
  send_nolock f (KWrap WQQuery o k) false qd
  end

(* ares_send_nolock *)
with send_nolock (fuel : nat) (k : cbk) (probe : bool) (qd : option (obj * bool)) {struct fuel} : M Z :=
  match fuel with O => fail OutOfFuel | S f =>
  let! qid := gen_qid 8 in
  let! s0 := get in
  if Nat.eqb (st_nservers s0) 0 then invoke f k (res ARES_ENOSERVER) ;; ret ARES_ENOSERVER else
  let! cached :=
     (if probe then ret None
      else let! e := pop in
           match e with
           | TQ rc rcode an id => if zeqb rc ARES_ENOTFOUND then ret None
                               else ret (Some {| r_status := rc; r_rec := if zeqb rc ARES_SUCCESS then Some (rcode, an, id) else None |})
           | _ => fail EDESYNC end) in
  match cached with
  | Some r => invoke f k r ;; ret (r_status r)
  | None =>
    let! e := pop in
    match e with
    | TD rc =>
      if negb (zeqb rc ARES_SUCCESS) then
        let st := if zeqb rc ARES_EBADRESP then ARES_EBADQUERY else rc in
        (* ares_free(query) of the not yet linked query, then the callback *)
        invoke f k (res st) ;; ret st
      else
        (if cf_dns0x20 cf then (let! e := peek in match e with Some (TN _) => let! _ := pop in ret tt | _ => ret tt end) else ret tt) ;;
        let! qo := alloc (CQuery {| q_qid := qid; q_cb := k; q_conn := None; q_try := 0; q_noretry := probe;
                                    q_tcp := false; q_err := ARES_SUCCESS; q_cancelled := false |}) in
        link_all qo ;;
        modify (fun s => set_byqid ((qid, qo) :: st_byqid s) s) ;;
        (if fx_qidearly fx then write_qid qd qid else ret tt) ;;
        let! st := send_query f qo in
        (if negb (fx_qidearly fx) && zeqb st ARES_SUCCESS then write_qid qd qid else ret tt) ;;
        ret st
    | _ => fail EDESYNC end
  end end

(* ares_send_query *)
with send_query (fuel : nat) (qo : obj) {struct fuel} : M Z :=
  match fuel with O => fail OutOfFuel | S f =>
  let! q := get_query qo in
  let! s0 := get in
  if Nat.eqb (st_nservers s0) 0 then end_query f qo ARES_ENOSERVER (res ARES_ENOSERVER) ;; ret ARES_ENOSERVER else
  let! e := peek in
  match e with
  | Some (TO rc) =>
      let! _ := pop in
      if zeqb rc ARES_SUCCESS then send_query_write f qo true
      else if is_retryable rc then
        expect_TS ;; requeue_query f qo rc true false (res rc)
      else end_query f qo rc (res rc) ;; ret rc
  | _ => send_query_write f qo false
  end end

(* the part of ares_send_query after a connection has been chosen/opened *)
with send_query_write (fuel : nat) (qo : obj) (opened : bool) {struct fuel} : M Z :=
  match fuel with O => fail OutOfFuel | S f =>
  let! q := get_query qo in
  let! e := pop in
  match e with
  | TW qid sock tcp =>
    if negb (Nat.eqb qid (q_qid q)) then fail EDESYNC else
    let! existing := find_conn_by_sock sock in
    let! co := (match existing, opened with
                | Some co, false => ret co
                | None, true =>
                    let! co := alloc (CConn {| c_sock := sock; c_tcp := tcp; c_queries := []; c_reading := false; c_closed := false |}) in
                    modify (fun s => set_conns (st_conns s ++ [co]) s) ;; ret co
                | _, _ => fail EDESYNC end) in
    let! _ := get_conn co in
    let! e2 := peek in
    let! wrc := (match e2 with
                 | Some (TF s2 rc) => if Nat.eqb s2 sock then (let! _ := pop in ret rc) else ret ARES_SUCCESS
                 | _ => ret ARES_SUCCESS end) in
    if zeqb wrc ARES_SUCCESS then
      attach_frag qo co tcp ;;
      (* ares_probe_failed_server *)
      let! s := get in
      (if probe_ahead (st_tape s) then let! _ := send_nolock f KProbe true None in ret tt else ret tt) ;;
      ret ARES_SUCCESS
    else if zeqb wrc ARES_ENOMEM then
      end_query f qo wrc (res wrc) ;; ret wrc
    else if is_retryable wrc then
      handle_conn_error f co true wrc ;;
      (if fx_revalidate fx then
         let! s := get in
         match lookup (q_qid q) (st_byqid s) with
         | None => ret ARES_ECANCELLED
         | Some qo' => requeue_query f qo' wrc true false (res wrc)
         end
       else requeue_query f qo wrc true false (res wrc))
    else
      expect_TS ;; requeue_query f qo wrc true false (res wrc)
  | _ => fail EDESYNC end
  end

(* ares_requeue_query; [defer]: the caller passed a requeue array *)
with requeue_query (fuel : nat) (qo : obj) (st : Z) (inc : bool) (defer : bool) (r : result) {struct fuel} : M Z :=
  match fuel with O => fail OutOfFuel | S f =>
  remove_from_conn qo ;;
  let! q := get_query qo in
  let q := if zeqb st ARES_SUCCESS then q else set_q_err st q in
  let q := if inc then set_q_try (S (q_try q)) q else q in
  store qo (CQuery q) ;;
  let! s := get in
  if Nat.ltb (q_try q) (st_nservers s * cf_tries cf) && negb (q_noretry q) then
    if defer then ret ARES_SUCCESS   (* ares_append_requeue: the caller records the qid *)
    else send_query f qo
  else
    let err := if zeqb (q_err q) ARES_SUCCESS then ARES_ETIMEOUT else q_err q in
    end_query f qo err {| r_status := err; r_rec := r_rec r |} ;; ret ARES_ETIMEOUT
  end

(* end_query / ares_query_complete *)
with end_query (fuel : nat) (qo : obj) (st : Z) (r : result) {struct fuel} : M unit :=
  match fuel with O => fail OutOfFuel | S f =>
  let! q := get_query qo in
  let! e := pop in
  match e with
  | TE qid st' =>
    if negb (Nat.eqb qid (q_qid q) && zeqb st st') then fail EDESYNC else
    complete_query f qo {| r_status := st; r_rec := r_rec r |}
  | _ => fail EDESYNC end
  end

(* callback + release of a query, in the order of the selected code version *)
with complete_query (fuel : nat) (qo : obj) (r : result) {struct fuel} : M unit :=
  match fuel with O => fail OutOfFuel | S f =>
  if fx_unlink fx then
    detach_query qo ;;
    let! q := get_query qo in
    (* a query taken by ares_cancel() completes as cancelled whatever ended it *)
    invoke f (q_cb q) (if q_cancelled q then res ARES_ECANCELLED else r) ;;
    release_query qo
  else
    let! q := get_query qo in
    invoke f (q_cb q) r ;;
    free_query qo
  end

(* handle_conn_error *)
with handle_conn_error (fuel : nat) (co : obj) (critical : bool) (st : Z) {struct fuel} : M unit :=
  match fuel with O => fail OutOfFuel | S f =>
  let! c := get_conn co in
  (if critical then expect_TS else ret tt) ;;
  let! e := pop in
  match e with
  | TX sock st' => if Nat.eqb sock (c_sock c) && zeqb st st' then close_connection f co st else fail EDESYNC
  | _ => fail EDESYNC end
  end

(* ares_close_connection *)
with close_connection (fuel : nat) (co : obj) (st : Z) {struct fuel} : M unit :=
  match fuel with O => fail OutOfFuel | S f =>
  let! c := get_conn co in
  modify (fun s => set_conns (remove_nat co (st_conns s)) s) ;;
  requeue_conn_queries f f co st ;;
  let! c := get_conn co in
  expect_TCL (c_sock c) ;;
  if fx_connread fx && c_reading c then store co (CConn (set_c_closed true c))
  else free_obj co
  end

(* ares_requeue_queries: while the connection has a first query, requeue it *)
with requeue_conn_queries (fuel : nat) (n : nat) (co : obj) (st : Z) {struct fuel} : M unit :=
  match fuel with O => fail OutOfFuel | S f =>
  match n with O => fail OutOfFuel | S n' =>
  let! c := get_conn co in
  match c_queries c with
  | [] => ret tt
  | qo :: _ => let! _ := requeue_query f qo st true false (res st) in requeue_conn_queries f n' co st
  end end end

(* ares_check_cleanup_conns: the tape says which idle connections are closed *)
with check_cleanup (fuel : nat) {struct fuel} : M unit :=
  match fuel with O => fail OutOfFuel | S f =>
  let! e := pop in
  match e with TK => cleanup_loop f f | _ => fail EDESYNC end
  end

with cleanup_loop (fuel : nat) (n : nat) {struct fuel} : M unit :=
  match fuel with O => fail OutOfFuel | S f =>
  match n with O => fail OutOfFuel | S n' =>
  let! e := peek in
  match e with
  | Some (TCL sock) =>
      let! oc := find_conn_by_sock sock in
      match oc with
      | Some co =>
          let! c := get_conn co in
          match c_queries c with
          | [] => close_connection f co ARES_SUCCESS ;; cleanup_loop f n'
          | _ => fail EDESYNC end
      | None => fail EDESYNC end
  | Some TKE => let! _ := pop in ret tt
  | _ => fail EDESYNC end
  end end

(* ares_servers_update (ares_set_servers*, ares_reinit): the servers that are not in the new list
   are destroyed, which closes their connections; the tape says which ones, in which order *)
with set_servers (fuel : nat) {struct fuel} : M unit :=
  match fuel with O => fail OutOfFuel | S f =>
  let! e := pop in
  match e with
  | TU n => modify (set_nservers n) ;; set_servers_loop f f
  | _ => fail EDESYNC end
  end

with set_servers_loop (fuel : nat) (n : nat) {struct fuel} : M unit :=
  match fuel with O => fail OutOfFuel | S f =>
  match n with O => fail OutOfFuel | S n' =>
  let! s := get in
  match close_victim (st_tape s) with
  | Some VEnd => let! _ := pop in ret tt
  | Some (VSock sock) =>
      let! oc := find_conn_by_sock sock in
      match oc with
      | Some co => close_connection f co ARES_SUCCESS ;; set_servers_loop f n'
      | None => fail EDESYNC end
  | Some (VQid qid) =>
      match lookup qid (st_byqid s) with
      | Some qo =>
          let! q := get_query qo in
          match q_conn q with
          | Some co => if memb co (st_conns s) then close_connection f co ARES_SUCCESS ;; set_servers_loop f n'
                       else fail EDESYNC
          | None => fail EDESYNC end
      | None => fail EDESYNC end
  | None => fail EDESYNC
  end end end

(* ares_cancel *)
with cancel (fuel : nat) {struct fuel} : M unit :=
  match fuel with O => fail OutOfFuel | S f =>
  let! s := get in
  (match st_lists s with
   | (_ :: _) as l :: rest =>
       modify (set_lists ([] :: l :: rest)) ;;
       (if fx_cancelmark fx then mark_cancelled l else ret tt) ;;
       (if fx_unlink fx then cancel_loop_fixed f f else cancel_loop_pinned f l) ;;
       (* ares_llist_destroy(list_copy) *)
       modify (fun s => set_lists (match st_lists s with a :: _ :: r => a :: r | x => x end) s)
   | _ => ret tt end) ;;
  check_cleanup f
  end

(* fixed: while list_copy has a first entry, complete it *)
with cancel_loop_fixed (fuel : nat) (n : nat) {struct fuel} : M unit :=
  match fuel with O => fail OutOfFuel | S f =>
  match n with O => fail OutOfFuel | S n' =>
  let! s := get in
  match st_lists s with
  | _ :: (qo :: _) :: _ =>
      complete_query f qo (res ARES_ECANCELLED) ;; cancel_loop_fixed f n'
  | _ => ret tt end end end

(* pinned: iterate over the nodes present at entry with a cached next pointer; a node is
   claimed (removed from list_copy), the callback runs, then ares_free_query *)
with cancel_loop_pinned (fuel : nat) (nodes : list obj) {struct fuel} : M unit :=
  match fuel with O => fail OutOfFuel | S f =>
  match nodes with
  | [] => ret tt
  | qo :: rest =>
      (* the list node of qo is owned by the query; following a node of a released query is a use after free *)
      let! q := get_query qo in
      modify (fun s => set_lists (match st_lists s with a :: l :: r => a :: remove_nat qo l :: r | x => x end) s) ;;
      invoke f (q_cb q) (res ARES_ECANCELLED) ;;
      free_query qo ;;
      cancel_loop_pinned f rest
  end end

(* ---- ares_search.c ---- *)
with search_int (fuel : nat) (k : cbk) (names : list cand) {struct fuel} : M Z :=
  match fuel with O => fail OutOfFuel | S f =>
  let! o := alloc COpaque in
  let! (st, skip) := search_next f o k names false in
  if zeqb st ARES_SUCCESS then ret st
  else
    (if skip then ret tt
     else (* fail: squery_free(squery); callback(arg, status, 0, NULL) *)
       let! _ := touch o in free_obj o ;; invoke f k (res st)) ;;
    ret st
  end

(* ares_search_next; returns (status, skip_cleanup) *)
with search_next (fuel : nat) (o : obj) (k : cbk) (lft : list cand) (nodata : bool) {struct fuel} : M (Z * bool) :=
  match fuel with O => fail OutOfFuel | S f =>
  let! _ := touch o in
  match lft with
  | [] => ret (ARES_EFORMERR, false)
  | cur :: lft' =>
    let! e := pop in
    match e with
    | TN rc =>
      if negb (zeqb rc ARES_SUCCESS) then ret (rc, false) else
      let! st := send_nolock f (KSearch o k cur lft' nodata) false None in
      ret (st, if fx_search fx then true else negb (zeqb st ARES_EFORMERR))
    | _ => fail EDESYNC end
  end end

with search_callback (fuel : nat) (o : obj) (k : cbk) (cur_single : bool) (lft : list cand) (nodata : bool) (r : result) {struct fuel} : M unit :=
  match fuel with O => fail OutOfFuel | S f =>
  let! _ := touch o in
  let mystatus := match r_rec r with Some (rc, an, _) => tostatus rc an | None => r_status r end in
  let continue_ := zeqb mystatus ARES_ENODATA || zeqb mystatus ARES_ENOTFOUND
                   || ((zeqb mystatus ARES_ESERVFAIL || zeqb mystatus ARES_EREFUSED) && cur_single) in
  if negb continue_ then end_squery f o k {| r_status := mystatus; r_rec := r_rec r |}
  else
    let nodata' := nodata || zeqb mystatus ARES_ENODATA in
    match lft with
    | _ :: _ =>
        let! (st, skip) := search_next f o k lft nodata' in
        if negb (zeqb st ARES_SUCCESS) && negb skip then end_squery f o k (res st) else ret tt
    | [] =>
        (* 39c371c: ENODATA seen along the way wins over the status of the last name *)
        if nodata' then end_squery f o k (res ARES_ENODATA)
        else end_squery f o k (res mystatus)
    end
  end

with end_squery (fuel : nat) (o : obj) (k : cbk) (r : result) {struct fuel} : M unit :=
  match fuel with O => fail OutOfFuel | S f =>
  let! _ := touch o in
  invoke f k r ;;
  let! _ := touch o in
  free_obj o
  end

(* ---- ares_gethostbyaddr.c ---- *)
with addr_next_lookup (fuel : nat) (o : obj) (k : cbk) (lft : list bool) {struct fuel} : M unit :=
  match fuel with O => fail OutOfFuel | S f =>
  let! _ := touch o in
  match lft with
  | true :: lft' => let! _ := query_nolock f (KAddr o k lft') None in ret tt
  | false :: lft' => addr_next_lookup f o k lft'      (* file lookup: the hosts file is empty *)
  | [] => end_aquery f o k (res ARES_ENOTFOUND)
  end end

with addr_callback (fuel : nat) (o : obj) (k : cbk) (lft : list bool) (r : result) {struct fuel} : M unit :=
  match fuel with O => fail OutOfFuel | S f =>
  let! _ := touch o in
  if zeqb (r_status r) ARES_SUCCESS then
    let! e := pop in
    match e with TR rc => end_aquery f o k (res rc) | _ => fail EDESYNC end
  else if zeqb (r_status r) ARES_EDESTRUCTION || zeqb (r_status r) ARES_ECANCELLED then
    end_aquery f o k (res (r_status r))
  else addr_next_lookup f o k lft
  end

with end_aquery (fuel : nat) (o : obj) (k : cbk) (r : result) {struct fuel} : M unit :=
  match fuel with O => fail OutOfFuel | S f =>
  let! _ := touch o in
  invoke f k r ;;
  free_obj o
  end

(* ---- ares_getaddrinfo.c ---- *)
with host_next_lookup (fuel : nat) (o : obj) (st : Z) {struct fuel} : M unit :=
  match fuel with O => fail OutOfFuel | S f =>
  let! h := get_host o in
  match h_lookups h with
  | true :: rest =>
      if negb (h_localhost h) && (match h_names h with [] => false | _ => true end)
      then host_next_dns_lookup f o
      else store o (CHost (h_set_lookups rest h)) ;; host_next_lookup f o st
  | false :: rest =>
      (* file_lookup: the hosts file is empty, only localhost names succeed *)
      if h_localhost h then end_hquery f o ARES_SUCCESS
      else store o (CHost (h_set_lookups rest h)) ;; host_next_lookup f o st
  | [] => end_hquery f o st
  end end

with host_next_dns_lookup (fuel : nat) (o : obj) {struct fuel} : M unit :=
  match fuel with O => fail OutOfFuel | S f =>
  let! h := get_host o in
  let n := if Nat.eqb (h_family h) 0 then 2 else 1 in
  store o (CHost (h_set_remaining (h_remaining h + n) (h_set_names (tl (h_names h)) (hd false (h_names h)) h))) ;;
  (* first (or only) query; ares_send_nolock stores the id through &hquery->qid_a / qid_aaaa.
     NOTE (ares_getaddrinfo.c): hquery may be invalidated during the call and is not referenced
     after the last one *)
  let! _ := query_nolock f (KHost o) (Some (o, Nat.eqb (h_family h) 6)) in
  if Nat.eqb n 2 then
    let! _ := query_nolock f (KHost o) (Some (o, true)) in ret tt
  else ret tt
  end

with host_callback (fuel : nat) (o : obj) (r : result) {struct fuel} : M unit :=
  match fuel with O => fail OutOfFuel | S f =>
  let! h := get_host o in
  let st := r_status r in
  let rem := pred (h_remaining h) in
  store o (CHost (h_set_remaining rem h)) ;;
  let! (ais, nodes, v4) :=
     (if zeqb st ARES_SUCCESS then
        let! e := pop in
        match e with
        | TP rc nodes v4 v6 =>
            (* ai_restrict_family (e1b8935): a single-family lookup keeps only nodes of that family
               and treats an answer without any as no data *)
            if zeqb rc ARES_SUCCESS && negb (Nat.eqb (h_family h) 0) then
              let n' := if Nat.eqb (h_family h) 4 then v4 else v6 in
              ret (if n' then ARES_SUCCESS else ARES_ENODATA, n', if Nat.eqb (h_family h) 4 then v4 else false)
            else ret (rc, nodes, v4)
        | _ => fail EDESYNC end
      else ret (ARES_SUCCESS, h_nodes h, h_v4 h)) in
  let! h := get_host o in
  (* hquery->ai as left by the parser; hquery->nomem (740940b) *)
  let nm := h_nomem h || zeqb st ARES_ENOMEM || zeqb ais ARES_ENOMEM in
  (* 3eb5c71: a no-data answer is remembered also when it is not the last of the pair *)
  let nd := if negb (Nat.eqb rem 0) && (zeqb st ARES_ENODATA || zeqb ais ARES_ENODATA) then S (h_nodata h) else h_nodata h in
  store o (CHost (h_set_ai nodes v4 nm nd h)) ;;
  (* terminate_retries: the other query of this lookup, found by its id, no longer retries *)
  (if zeqb st ARES_SUCCESS && zeqb ais ARES_SUCCESS && v4 && negb (Nat.eqb rem 0) then
     let id := match r_rec r with Some (_, _, id) => id | None => 0 end in
     let term := if Nat.eqb id (h_qid_a h) then h_qid_aaaa h else h_qid_a h in
     let! s := get in
     match lookup term (st_byqid s) with
     | Some qo => let! q := get_query qo in store qo (CQuery (set_q_noretry true q))
     | None => ret tt end
   else ret tt) ;;
  if negb (Nat.eqb rem 0) then ret tt
  else if zeqb st ARES_EDESTRUCTION || zeqb st ARES_ECANCELLED then end_hquery f o st
  else if nm then end_hquery f o ARES_ENOMEM
  else if negb (zeqb ais ARES_SUCCESS) && negb (zeqb ais ARES_ENODATA) then
    (if zeqb ais ARES_EBADRESP && nodes then end_hquery f o ARES_SUCCESS else end_hquery f o ais)
  else if nodes then end_hquery f o ARES_SUCCESS
  else if zeqb st ARES_ENOTFOUND || zeqb st ARES_ENODATA || zeqb ais ARES_ENODATA then
    let! h := get_host o in
    let nd := if zeqb st ARES_ENODATA || zeqb ais ARES_ENODATA then S (h_nodata h) else h_nodata h in
    store o (CHost (h_set_nodata nd h)) ;;
    host_next_lookup f o (if Nat.eqb nd 0 then st else ARES_ENODATA)
  else if (zeqb st ARES_ESERVFAIL || zeqb st ARES_EREFUSED) && h_cur_single h then
    let! h := get_host o in
    host_next_lookup f o (if Nat.eqb (h_nodata h) 0 then st else ARES_ENODATA)
  else end_hquery f o st
  end

with end_hquery (fuel : nat) (o : obj) (st : Z) {struct fuel} : M unit :=
  match fuel with O => fail OutOfFuel | S f =>
  let! h := get_host o in
  invoke f (h_cb h) (res st) ;;
  free_obj o
  end.


(* ---------------------------------------------------------------------------------- *)
(* read_answers / process_answer: not reachable from callbacks                          *)
(* ---------------------------------------------------------------------------------- *)

(* process_answer for a response that matched query qid (same id, same question, arrived on query->conn) *)
Definition process_answer (fuel : nat) (co : obj) (qid : nat) (a : ansinfo) (rq : list nat) : M (list nat) :=
  let f := fuel in
  let! s := get in
  match lookup qid (st_byqid s) with
  | None => fail EDESYNC
  | Some qo =>
    let! q := get_query qo in
    let! c := get_conn co in
    if negb (match q_conn q with Some co' => Nat.eqb co co' | None => false end) then fail EDESYNC else
    (* ares_cookie_validate *)
    match find_tmr (st_tape s) with
    | None => fail EDESYNC
    | Some (vrc, requeued) =>
      (* ares_cookie_validate requeues only on the BADCOOKIE path, which drops the response *)
      if requeued && zeqb vrc ARES_SUCCESS then fail EDESYNC else
      let! rq1 := (if requeued then
                     let! st := requeue_query f qo ARES_SUCCESS false true (res ARES_SUCCESS) in
                     if zeqb st ARES_SUCCESS then ret (rq ++ [qid]) else ret rq
                   else ret rq) in
      let! e := pop in
      match e with
      | TMR _ _ =>
        if negb (zeqb vrc ARES_SUCCESS) then ret rq1 else
        (* ares_llist_node_destroy(query->node_queries_to_conn) *)
        let! c := get_conn co in
        store co (CConn (set_c_queries (remove_nat qo (c_queries c)) c)) ;;
        match classify a (c_tcp c) with
        | DEdns => remove_from_conn qo ;; ret (rq1 ++ [qid])
        | DTrunc =>
            let! q := get_query qo in store qo (CQuery (set_q_tcp true q)) ;;
            remove_from_conn qo ;; ret (rq1 ++ [qid])
        | DServFail st =>
            expect_TS ;;
            let! rst := requeue_query f qo st true true {| r_status := st; r_rec := Some (a_rcode a, a_ancount a, qid) |} in
            if zeqb rst ARES_SUCCESS then ret (rq1 ++ [qid]) else ret rq1
        | DFinal =>
            expect_TG ;;
            end_query f qo ARES_SUCCESS {| r_status := ARES_SUCCESS; r_rec := Some (a_rcode a, a_ancount a, qid) |} ;;
            ret rq1
        end
      | _ => fail EDESYNC end
    end
  end.

(* the loop over buffered answers; returns the requeue array (qids) *)
Fixpoint read_loop (fuel : nat) (n : nat) (co : obj) (rq : list nat) : M (list nat) :=
  match n with O => fail OutOfFuel | S n' =>
  (* ares_buf_tag(conn->in_buf) ... *)
  let! c := get_conn co in
  let! e := peek in let! e2 := peek2 in
  match e, e2 with
  | Some (TM qid sock a), _ =>
      if negb (Nat.eqb sock (c_sock c)) then
        (if fx_connread fx then store co (CConn (set_c_reading false c)) else ret tt) ;; ret rq else
      let! _ := pop in
      let! rq' := process_answer fuel co qid a rq in
      (* back in read_answers *)
      if fx_connread fx then
        let! c := get_conn co in
        if c_closed c then free_obj co ;; ret rq'
        else read_loop fuel n' co rq'
      else read_loop fuel n' co rq'
  | Some TS, Some (TX sock st) =>
      if negb (Nat.eqb sock (c_sock c)) then
        (if fx_connread fx then store co (CConn (set_c_reading false c)) else ret tt) ;; ret rq else
      (* read error, or process_answer failed (unparsable message): the connection is terminated *)
      (if fx_connread fx then store co (CConn (set_c_reading false c)) else ret tt) ;;
      handle_conn_error fuel co true st ;; ret rq
  | _, _ =>
      (if fx_connread fx then store co (CConn (set_c_reading false c)) else ret tt) ;; ret rq
  end end.

Fixpoint flush_requeue (fuel : nat) (rq : list nat) : M unit :=
  match rq with
  | [] => ret tt
  | qid :: rest =>
      let! s := get in
      (match lookup qid (st_byqid s) with
       | None => ret tt
       | Some qo => let! _ := send_query fuel qo in ret tt end) ;;
      flush_requeue fuel rest
  end.

Definition read_answers (fuel : nat) (co : obj) : M unit :=
  let! c := get_conn co in
  (if fx_connread fx then store co (CConn (set_c_reading true c)) else ret tt) ;;
  let! rq := read_loop fuel fuel co [] in
  flush_requeue fuel rq.

(* ---------------------------------------------------------------------------------- *)
(* Not mutually recursive: ares_destroy, ares_process_fds                              *)
(* ---------------------------------------------------------------------------------- *)
Definition EASSERT : Z := (-4)%Z.    (* assert() in ares_destroy failed (abort) *)

(* ares_destroy: the loop over all queries.  fixed: take the first entry each time *)
Fixpoint destroy_loop_fixed (fuel : nat) (n : nat) : M unit :=
  match n with O => fail OutOfFuel | S n' =>
  let! s := get in
  match st_lists s with
  | (qo :: _) :: _ => complete_query fuel qo (res ARES_EDESTRUCTION) ;; destroy_loop_fixed fuel n'
  | _ => ret tt end end.

(* pinned: nodes present at entry, next cached before the callback *)
Fixpoint destroy_loop_pinned (fuel : nat) (nodes : list obj) : M unit :=
  match nodes with
  | [] => ret tt
  | qo :: rest =>
      let! q := get_query qo in
      modify (fun s => set_lists (match st_lists s with l :: r => remove_nat qo l :: r | x => x end) s) ;;
      invoke fuel (q_cb q) (res ARES_EDESTRUCTION) ;;
      free_query qo ;;
      destroy_loop_pinned fuel rest
  end.

(* ares_destroy_servers_state: every connection is closed; the tape gives the order *)
Fixpoint destroy_conns (fuel : nat) (n : nat) : M unit :=
  match n with O => fail OutOfFuel | S n' =>
  let! s := get in
  match st_conns s with
  | [] => ret tt
  | _ =>
    let! e := peek in
    match e with
    | Some (TCL sock) =>
        let! oc := find_conn_by_sock sock in
        match oc with
        | Some co => close_connection fuel co ARES_SUCCESS ;; destroy_conns fuel n'
        | None => fail EDESYNC end
    | _ => fail EDESYNC end
  end end.

Definition destroy (fuel : nat) : M unit :=
  modify (set_destroying true) ;;
  let! s := get in
  (if fx_unlink fx then destroy_loop_fixed fuel fuel
   else destroy_loop_pinned fuel (hd [] (st_lists s))) ;;
  let! s := get in
  (* assert(ares_llist_len(channel->all_queries) == 0) etc. *)
  if negb (match concat (st_lists s), st_byqid s, st_bytmo s with [], [], [] => true | _, _, _ => false end)
  then fail EASSERT
  else destroy_conns fuel fuel.

(* process_write for every writable socket *)
Fixpoint process_writes (fuel : nat) (socks : list nat) : M unit :=
  match socks with
  | [] => ret tt
  | sock :: rest =>
      let! oc := find_conn_by_sock sock in
      (match oc with
       | None => ret tt
       | Some co =>
           let! _ := get_conn co in
           let! e := pop in
           match e with
           | TF s2 rc =>
               if negb (Nat.eqb s2 sock) then fail EDESYNC
               else if zeqb rc ARES_SUCCESS then ret tt
               else handle_conn_error fuel co true rc
           | _ => fail EDESYNC end
       end) ;;
      process_writes fuel rest
  end.

(* process_read for every readable socket *)
Fixpoint process_reads (fuel : nat) (socks : list nat) : M unit :=
  match socks with
  | [] => ret tt
  | sock :: rest =>
      let! oc := find_conn_by_sock sock in
      (match oc with
       | None => ret tt
       | Some co => read_answers fuel co end) ;;
      process_reads fuel rest
  end.

(* process_timeouts: a server failure that is not a connection error announces a timeout *)
Fixpoint process_timeouts (fuel : nat) (n : nat) : M unit :=
  match n with O => fail OutOfFuel | S n' =>
  let! e := peek in let! e2 := peek2 in
  match e, e2 with
  | Some TS, Some (TX _ _) => ret tt
  | Some TS, _ =>
      let! s := get in
      match timeout_victim (st_tape s) with
      | None => fail EDESYNC
      | Some qid =>
        match lookup qid (st_byqid s) with
        | None => fail EDESYNC
        | Some qo =>
          if negb (memb qo (st_bytmo s)) then fail EDESYNC else
          let! q := get_query qo in
          (* conn = query->conn; server_increment_failures(conn->server, ...) *)
          (match q_conn q with Some co => let! _ := get_conn co in ret tt | None => fail EINTERNAL end) ;;
          expect_TS ;;
          let! _ := requeue_query fuel qo ARES_ETIMEOUT true false (res ARES_ETIMEOUT) in
          process_timeouts fuel n'
        end
      end
  | _, _ => ret tt
  end end.

Definition process_fds (fuel : nat) (writes reads : list nat) : M unit :=
  process_writes fuel writes ;;
  process_reads fuel reads ;;
  check_cleanup fuel ;;
  process_timeouts fuel fuel.

End Run.

(* ---------------------------------------------------------------------------------- *)
(* Histories                                                                           *)
(* ---------------------------------------------------------------------------------- *)
Inductive input :=
| IApi (c : call)                          (* the application calls an entry point (or ares_cancel) *)
| IOnCb (t : tok) (c : call)               (* the callback of t will make this call (appended to its script) *)
| IProc (writes reads : list nat)          (* ares_process_fds with these socket events *)
| IDestroy.                                (* ares_destroy *)

Definition init_state (cf : config) : state :=
  {| st_next := 1; st_cells := []; st_freed := []; st_lists := [[]]; st_byqid := []; st_bytmo := [];
     st_conns := []; st_tape := []; st_scripts := []; st_trace := []; st_destroying := false;
     st_nservers := cf_nservers cf |}.

Definition delivered (t : tok) (s : state) : bool :=
  existsb (fun e => match e with EvCb t' _ => Nat.eqb t t' | _ => false end) (st_trace s).

Definition add_script (t : tok) (c : call) (s : state) : state :=
  if delivered t s then s
  else set_scripts ((t, match lookup t (st_scripts s) with Some l => l ++ [c] | None => [c] end)
                    :: remove_key t (st_scripts s)) s.

(* one input with the decisions the library met while executing it *)
Definition step (cf : config) (fuel : nat) (i : input) (tape : list tev) : M unit :=
  modify (set_tape tape) ;;
  (match i with
   | IApi ACancel => emit EvCancelBegin ;; cancel cf fuel ;; emit EvCancelEnd
   | IApi c => api cf fuel c
   | IOnCb t c => modify (add_script t c)
   | IProc w r => process_fds cf fuel w r
   | IDestroy => emit EvDestroyBegin ;; destroy cf fuel ;; emit EvDestroyEnd
   end) ;;
  let! s := get in
  match st_tape s with [] => ret tt | _ => fail EDESYNC end.

(* after ares_destroy the channel is gone: the harness ignores further channel operations.
   Returns whether the history destroyed the channel. *)
Fixpoint run_from (cf : config) (fuel : nat) (h : list (input * list tev)) : M bool :=
  match h with
  | [] => ret false
  | (IDestroy, tape) :: _ => step cf fuel IDestroy tape ;; ret true
  | (i, tape) :: rest => step cf fuel i tape ;; run_from cf fuel rest
  end.

(* a history always ends with the destruction of the channel (the harness destroys a channel
   that is still alive: [final] is the tape of that ares_destroy) *)
Definition run (cf : config) (fuel : nat) (h : list (input * list tev)) (final : list tev) : outcome (list event) :=
  match (let! destroyed := run_from cf fuel h in
         (if destroyed then ret tt else step cf fuel IDestroy final) ;;
         emit EvEnd) (init_state cf) with
  | Ok (_, s) => Ok (rev (st_trace s))
  | Err e => Err e
  | UB k => UB k
  end.

(* ---------------------------------------------------------------------------------- *)
(* Executable check of the host_query invariant between two operations of a history     *)
(* (used by the correspondence driver on every state it reaches; the proved counterpart *)
(* is Stable / HostInv in Lifecycle_proofs.v / Lifecycle_inv.v)                         *)
(* ---------------------------------------------------------------------------------- *)
Fixpoint khost (k : cbk) : option obj :=
  match k with
  | KHost o => Some o
  | KWrap _ _ k' => khost k'
  | _ => None
  end.

Fixpoint cbk_objs (k : cbk) : list obj :=
  match k with
  | KUser _ | KProbe | KHost _ => []
  | KWrap _ o k' => o :: cbk_objs k'
  | KSearch o k' _ _ _ => o :: cbk_objs k'
  | KAddr o k' _ => o :: cbk_objs k'
  end.

Definition host_inv_check (s : state) : bool :=
  let linked := concat (st_lists s) in
  let href qo := match lookup qo (st_cells s) with Some (CQuery q) => khost (q_cb q) | _ => None end in
  let nrefs o := length (filter (fun qo => match href qo with Some o' => Nat.eqb o o' | None => false end) linked) in
  let opaque x := match lookup x (st_cells s) with Some COpaque => true | _ => false end in
  (* every query that points at a host_query points at a live one *)
  forallb (fun qo => match href qo with
                     | Some o => match lookup o (st_cells s) with Some (CHost _) => true | _ => false end
                     | None => true end) linked
  (* outside of library calls: remaining = number of queries outstanding for it, at least one;
     the application callback's wrapper is alive *)
  && forallb (fun p => match snd p with
                       | CHost h => Nat.eqb (h_remaining h) (nrefs (fst p)) && Nat.ltb 0 (h_remaining h)
                                    && forallb opaque (cbk_objs (h_cb h))
                                    && negb (memb (fst p) (st_freed s))
                       | _ => true end) (st_cells s).
