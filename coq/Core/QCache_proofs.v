(* C08 - proofs about the query cache model (QCache.v) against the history checker (QCacheSpec.v) *)
From CAres.Base Require Import CInt.
From CAres.Gen Require Import Consts LeafFns.
From CAres.Core Require Import QCache QCacheSpec.
From Coq Require Import Sorting.Sorted.
Local Open Scope Z_scope.

(* ------------------------------------------------------------------------------------ *)
(* generated leaf functions                                                               *)
(* ------------------------------------------------------------------------------------ *)
(* ares_dns_rr_get_ttl as translated from the working tree = the model's get_ttl.  Holds for
   the repaired getter (ttl_decrement applied); with the original getter the generated function
   does not even take the decrement and this lemma does not type-check. *)
Lemma get_ttl_generated ttl dec : c_ares_dns_rr_get_ttl dec ttl = Ok (get_ttl ttl dec).
Proof. unfold c_ares_dns_rr_get_ttl, get_ttl. destruct (dec >? ttl); reflexivity. Qed.

Lemma get_ttl_aged ttl dec : 0 <= ttl < 2 ^ 32 -> 0 <= dec -> get_ttl ttl dec = aged ttl dec.
Proof.
  intros Ht Hd. unfold get_ttl, aged.
  destruct (Z.gtb_spec dec ttl); [lia |].
  rewrite Z.mod_small by lia. lia.
Qed.

Lemma ttl_aged_generated ttl dec :
  0 <= ttl < 2 ^ 32 -> 0 <= dec -> c_ares_dns_rr_get_ttl dec ttl = Ok (aged ttl dec).
Proof. intros. rewrite get_ttl_generated, get_ttl_aged; auto. Qed.

Lemma sort_cb_spec a b :
  exists c, c_ares_qcache_entry_sort_cb a b = Ok c /\ ((c <? 0) = (a <? b)).
Proof.
  unfold c_ares_qcache_entry_sort_cb.
  destruct (Z.gtb_spec a b).
  - exists 1. split; [reflexivity |]. symmetry. apply Z.ltb_ge. lia.
  - destruct (Z.ltb_spec a b).
    + exists (-1). split; [reflexivity |]. reflexivity.
    + exists 0. split; reflexivity.
Qed.

(* ------------------------------------------------------------------------------------ *)
(* keys                                                                                   *)
(* ------------------------------------------------------------------------------------ *)
Lemma name_eqb_canon a : forall b, name_eqb a b = zlist_eqb (map lower a) (map lower b).
Proof. induction a as [| x a IH]; intros [| y b]; cbn; auto. rewrite IH. reflexivity. Qed.

Lemma name_eqb_refl a : name_eqb a a = true.
Proof. induction a as [| x a IH]; cbn; auto. rewrite Z.eqb_refl, IH. reflexivity. Qed.

Lemma qs_eqb_refl l : qs_eqb l l = true.
Proof. induction l as [| [[t c] n] l IH]; cbn; auto. rewrite !Z.eqb_refl, name_eqb_refl, IH. reflexivity. Qed.

Lemma key_eqb_refl k : key_eqb k k = true.
Proof. unfold key_eqb. rewrite Z.eqb_refl, !Bool.eqb_reflx, qs_eqb_refl. reflexivity. Qed.

Lemma qs_eqb_same a : forall b,
  qs_eqb (map (fun q => (qn_type q, qn_class q, strip_dot (qn_name q))) a)
         (map (fun q => (qn_type q, qn_class q, strip_dot (qn_name q))) b) = same_qs a b.
Proof.
  induction a as [| q1 a IH]; intros [| q2 b]; cbn [map qs_eqb same_qs]; auto.
  rewrite IH. unfold canon_name. rewrite name_eqb_canon. reflexivity.
Qed.

(* the table's key comparison decides exactly "same question" *)
Lemma key_matches a b : key_eqb (calc_key a) (calc_key b) = same_question a b.
Proof. unfold key_eqb, calc_key, same_question, flag_set. cbn [k_opcode k_rd k_cd k_qs]. rewrite qs_eqb_same. reflexivity. Qed.

Lemma zlist_eqb_eq a : forall b, zlist_eqb a b = true <-> a = b.
Proof.
  induction a as [| x a IH]; intros [| y b]; cbn; split; intros H; try discriminate; auto.
  - apply andb_prop in H as [H1 H2]. apply Z.eqb_eq in H1. apply IH in H2. subst. reflexivity.
  - inversion H; subst. rewrite Z.eqb_refl. apply IH. reflexivity.
Qed.

(* ... and "same question" read as a proposition *)
Definition same_question_P (a b : request) : Prop :=
  rq_opcode a = rq_opcode b /\
  flag_set (rq_flags a) ARES_FLAG_RD = flag_set (rq_flags b) ARES_FLAG_RD /\
  flag_set (rq_flags a) ARES_FLAG_CD = flag_set (rq_flags b) ARES_FLAG_CD /\
  Forall2 (fun q1 q2 => qn_type q1 = qn_type q2 /\ qn_class q1 = qn_class q2 /\
                        canon_name (qn_name q1) = canon_name (qn_name q2)) (rq_qs a) (rq_qs b).

Lemma same_qs_P a : forall b, same_qs a b = true <->
  Forall2 (fun q1 q2 => qn_type q1 = qn_type q2 /\ qn_class q1 = qn_class q2 /\
                        canon_name (qn_name q1) = canon_name (qn_name q2)) a b.
Proof.
  induction a as [| q1 a IH]; intros [| q2 b]; cbn [same_qs]; split; intros H; try discriminate; try (inversion H; fail); auto.
  - apply andb_prop in H as [H H4]. apply andb_prop in H as [H H3]. apply andb_prop in H as [H1 H2].
    constructor; [| apply IH; exact H4].
    apply Z.eqb_eq in H1, H2. apply zlist_eqb_eq in H3. auto.
  - inversion H as [| ? ? ? ? (H1 & H2 & H3) H4]; subst.
    rewrite H1, H2, !Z.eqb_refl. cbn. apply andb_true_intro. split; [apply zlist_eqb_eq; exact H3 | apply IH; exact H4].
Qed.

Lemma same_question_iff a b : same_question a b = true <-> same_question_P a b.
Proof.
  unfold same_question, same_question_P. split.
  - intros H. apply andb_prop in H as [H H4]. apply andb_prop in H as [H H3]. apply andb_prop in H as [H1 H2].
    apply Z.eqb_eq in H1. apply Bool.eqb_prop in H2, H3. apply same_qs_P in H4. auto.
  - intros (H1 & H2 & H3 & H4). rewrite H1, H2, H3, Z.eqb_refl, !Bool.eqb_reflx. cbn. apply same_qs_P. exact H4.
Qed.

(* ------------------------------------------------------------------------------------ *)
(* lifetime computed by the code = lifetime the response's own TTLs allow                 *)
(* ------------------------------------------------------------------------------------ *)
Definition wf_rr (r : rrec) : Prop := 0 <= rr_ttl r < 2 ^ 32 /\ 0 <= rr_soa_min r < 2 ^ 32.
Definition wf_resp (rs : response) : Prop := Forall wf_rr (all_rrs rs).

Lemma get_ttl_0 ttl : 0 <= ttl < 2 ^ 32 -> get_ttl ttl 0 = ttl.
Proof. intros H. unfold get_ttl. destruct (Z.gtb_spec 0 ttl); [lia |]. rewrite Z.sub_0_r. apply Z.mod_small. lia. Qed.

Lemma minttl_fold l : forall acc, Forall wf_rr l -> acc <= 4294967295 ->
  fold_left minttl_step l acc = Z.min acc (min_ttl_of l).
Proof.
  induction l as [| r l IH]; intros acc W A; cbn [fold_left].
  - unfold min_ttl_of. cbn. lia.
  - inversion W as [| ? ? Wr Wl]; subst. destruct Wr as [Wt _].
    unfold minttl_step at 2. unfold min_ttl_of. cbn [filter].
    change ((rr_type r =? ARES_REC_TYPE_OPT) || (rr_type r =? ARES_REC_TYPE_SIG)) with (is_meta r).
    destruct (is_meta r); cbn [negb map fold_right].
    + rewrite (IH acc Wl A). reflexivity.
    + rewrite (get_ttl_0 _ Wt).
      destruct (Z.ltb_spec (rr_ttl r) acc).
      * rewrite (IH (rr_ttl r) Wl) by (change (2 ^ 32) with 4294967296 in Wt; lia). unfold min_ttl_of. lia.
      * rewrite (IH acc Wl A). unfold min_ttl_of. lia.
Qed.

Lemma calc_minttl_spec rs : wf_resp rs -> calc_minttl rs = min_ttl_of (all_rrs rs).
Proof.
  intros W. unfold calc_minttl, all_rrs. rewrite <- !fold_left_app.
  rewrite minttl_fold; [| exact W | lia].
  assert (H : min_ttl_of (rs_an rs ++ rs_ns rs ++ rs_ar rs) <= 4294967295).
  { unfold min_ttl_of. generalize (map rr_ttl (filter (fun r => negb (is_meta r)) (rs_an rs ++ rs_ns rs ++ rs_ar rs))).
    intros l. induction l; cbn; lia. }
  lia.
Qed.

Lemma soa_minimum_spec l : Forall wf_rr l -> soa_minimum_l l = neg_ttl_of l.
Proof.
  induction l as [| r l IH]; intros W; [reflexivity |].
  inversion W as [| ? ? [Wt _] Wl]; subst. cbn [soa_minimum_l]. unfold neg_ttl_of. cbn [find].
  destruct (rr_type r =? ARES_REC_TYPE_SOA).
  - rewrite (get_ttl_0 _ Wt). destruct (Z.gtb_spec (rr_ttl r) (rr_soa_min r)); lia.
  - apply IH. exact Wl.
Qed.

Lemma forall_app_ns rs : wf_resp rs -> Forall wf_rr (rs_ns rs).
Proof. unfold wf_resp, all_rrs. intros W. apply Forall_app in W as [_ W]. apply Forall_app in W as [W _]. exact W. Qed.

(* the lifetime ares_qcache_insert_int gives an accepted response *)
Lemma code_ttl_allowed rs :
  wf_resp rs ->
  (if rs_rcode rs =? ARES_RCODE_NXDOMAIN then soa_minimum rs else calc_minttl rs) = allowed_ttl rs.
Proof.
  intros W. unfold allowed_ttl, soa_minimum.
  destruct (rs_rcode rs =? ARES_RCODE_NXDOMAIN); [apply soa_minimum_spec, forall_app_ns, W | apply calc_minttl_spec, W].
Qed.

(* ------------------------------------------------------------------------------------ *)
(* containers                                                                             *)
(* ------------------------------------------------------------------------------------ *)
From Coq Require Import Sorting.Permutation.

Definition le_exp (a b : entry) : Prop := e_expire a <= e_expire b.

Lemma slist_insert_spec e : forall l,
  exists l1 l2, l = l1 ++ l2 /\ slist_insert e l = Ok (l1 ++ e :: l2) /\
    Forall (fun x => e_expire x <= e_expire e) l1 /\ (forall x, In x l2 -> StronglySorted le_exp l -> e_expire e <= e_expire x).
Proof.
  induction l as [| x l IH]; cbn [slist_insert].
  - exists [], []. repeat split; auto. intros x [].
  - destruct (sort_cb_spec (e_expire e) (e_expire x)) as (c & Ec & Hc). rewrite Ec. cbn [bind]. rewrite Hc.
    destruct (Z.ltb_spec (e_expire e) (e_expire x)).
    + exists [], (x :: l). repeat split; auto.
      intros y [<- | Hy] S; [lia |].
      apply StronglySorted_inv in S as [_ S]. rewrite Forall_forall in S. specialize (S y Hy). unfold le_exp in S. lia.
    + destruct IH as (l1 & l2 & E & Ei & F1 & F2). rewrite Ei. cbn [bind].
      exists (x :: l1), l2. subst l. repeat split; auto.
      intros y Hy S. apply F2; auto. apply StronglySorted_inv in S. tauto.
Qed.

Lemma sorted_insert e l1 l2 :
  StronglySorted le_exp (l1 ++ l2) -> Forall (fun x => e_expire x <= e_expire e) l1 ->
  (forall x, In x l2 -> e_expire e <= e_expire x) -> StronglySorted le_exp (l1 ++ e :: l2).
Proof.
  induction l1 as [| a l1 IH]; cbn [app]; intros S F1 F2.
  - constructor; [exact S |]. apply Forall_forall. intros x Hx. unfold le_exp. auto.
  - apply StronglySorted_inv in S as [S Fa]. inversion F1 as [| ? ? Ha F1']; subst.
    constructor; [apply IH; auto |].
    apply Forall_forall. intros x Hx. apply in_app_or in Hx as [Hx | [<- | Hx]].
    + rewrite Forall_forall in Fa. apply Fa. apply in_or_app. auto.
    + exact Ha.
    + rewrite Forall_forall in Fa. apply Fa. apply in_or_app. auto.
Qed.

Lemma nodup_app_r {A} (a b : list A) : NoDup (a ++ b) -> NoDup b.
Proof. induction a as [| x a IH]; cbn; auto. intros H. inversion H; subst. auto. Qed.

Lemma find_entry_in l : forall e, NoDup (map e_uid l) -> In e l -> find_entry l (e_uid e) = Some e.
Proof.
  induction l as [| x l IH]; intros e N H; [destruct H |].
  cbn [find_entry]. cbn [map] in N. inversion N as [| ? ? Nx Nl]; subst.
  destruct H as [<- | H].
  - rewrite Nat.eqb_refl. reflexivity.
  - destruct (Nat.eqb_spec (e_uid x) (e_uid e)) as [E | _]; [| apply IH; auto].
    exfalso. apply Nx. rewrite E. apply in_map. exact H.
Qed.

(* ares_qcache_expire: removes a prefix of the (sorted) list; the table loses at least the keys of
   everything removed *)
Lemma expire_spec now : forall l t t' l',
  expire t l now = (t', l') ->
  exists removed, l = removed ++ l' /\
    (forall n, now = Some n -> StronglySorted le_exp l -> Forall (fun e => e_expire e > n) l') /\
    (now = None -> l' = []) /\
    (forall p, In p t' -> In p t /\ forall r, In r removed -> key_eqb (fst p) (e_key r) = false).
Proof.
  induction l as [| e l IH]; intros t t' l' H; cbn [expire] in H.
  - inversion H; subst. exists []. repeat split; auto. intros r [].
  - destruct (match now with Some n => e_expire e >? n | None => false end) eqn:Eb.
    + inversion H; subst. exists []. split; [reflexivity |]. split; [| split].
      * intros n -> S. apply Z.gtb_lt in Eb. constructor; [lia |].
        apply StronglySorted_inv in S as [_ S]. eapply Forall_impl; [| exact S]. unfold le_exp. intros a Ha. lia.
      * intros ->. discriminate.
      * intros p Hp. split; auto. intros r [].
    + destruct (IH _ _ _ H) as (removed & E & F & Nn & T). exists (e :: removed). subst l. split; [reflexivity |]. split; [| split].
      * intros n En S. apply F; auto. apply StronglySorted_inv in S. tauto.
      * exact Nn.
      * intros p Hp. destruct (T p Hp) as [Hin Hr]. unfold tab_remove in Hin. apply filter_In in Hin as [Hin Hk].
        split; [exact Hin |]. intros r [<- | Hr']; [| auto]. apply negb_true_iff in Hk. exact Hk.
Qed.

(* ------------------------------------------------------------------------------------ *)
(* histories: invariant                                                                   *)
(* ------------------------------------------------------------------------------------ *)
Definition op_time (o : op) : option Z :=
  match o with OIns t _ _ => Some t | OFetch t _ => Some t | OFlush => None end.

Definition wf_op (o : op) : Prop :=
  match o with
  | OIns t _ rs => 0 <= t < 2 ^ 62 /\ wf_resp rs
  | OFetch t _ => 0 <= t < 2 ^ 62
  | OFlush => True
  end.

(* times never go back (the library reads a monotonic clock) *)
Fixpoint wf_ops (tprev : Z) (ops : list op) : Prop :=
  match ops with
  | [] => True
  | o :: rest =>
    wf_op o /\
    match op_time o with
    | Some t => tprev <= t /\ wf_ops t rest
    | None => wf_ops tprev rest
    end
  end.

Definition justified (mx tnow : Z) (hist : list op) (e : entry) : Prop :=
  exists t0 rq0 rs0,
    In (OIns t0 rq0 rs0) (since_flush hist) /\ e_key e = calc_key rq0 /\ e_resp e = rs0 /\ e_insert e = t0 /\
    cacheable rs0 = true /\ wf_resp rs0 /\ 0 <= t0 <= tnow /\
    t0 < e_expire e <= t0 + Z.min mx (allowed_ttl rs0).

Record InvQC (mx tnow : Z) (hist : list op) (c : qcache) : Prop := mkInvQC {
  q_max : c_max c = mx;
  q_sorted : StronglySorted le_exp (c_exp c);
  q_uid : Forall (fun e => (e_uid e < c_next c)%nat) (c_exp c);
  q_nodup : NoDup (map e_uid (c_exp c));
  q_tab : forall k uid, In (k, uid) (c_tab c) -> exists e, In e (c_exp c) /\ e_uid e = uid /\ e_key e = k;
  q_just : Forall (justified mx tnow hist) (c_exp c) }.

Lemma inv_create mx t : InvQC mx t [] (qc_create mx).
Proof. constructor; cbn; auto; try constructor. intros k uid []. Qed.

Lemma justified_mono mx t t' hist o e :
  justified mx t hist e -> t <= t' -> o <> OFlush -> justified mx t' (o :: hist) e.
Proof.
  intros (t0 & rq0 & rs0 & Hin & H) Ht Ho. exists t0, rq0, rs0. split.
  - destruct o; cbn [since_flush]; try (right; exact Hin). contradiction.
  - repeat match goal with H : _ /\ _ |- _ => destruct H end. repeat split; auto; lia.
Qed.

Lemma allowed_ttl_bound rs : wf_resp rs -> 0 <= allowed_ttl rs <= 4294967295.
Proof.
  intros W. unfold allowed_ttl. destruct (rs_rcode rs =? ARES_RCODE_NXDOMAIN).
  - pose proof (forall_app_ns rs W) as Wn. unfold neg_ttl_of.
    destruct (find _ (rs_ns rs)) as [r |] eqn:Ef; [| lia].
    apply find_some in Ef as [Hin _]. rewrite Forall_forall in Wn. destruct (Wn r Hin) as [A B].
    change (2 ^ 32) with 4294967296 in *. lia.
  - unfold min_ttl_of. unfold wf_resp in W. revert W. generalize (all_rrs rs). intros l W.
    induction l as [| r l IH]; cbn; [lia |].
    inversion W as [| ? ? [A _] Wl]; subst. specialize (IH Wl).
    destruct (is_meta r); cbn; [exact IH |]. change (2 ^ 32) with 4294967296 in *. lia.
Qed.

Lemma visible_aged rs d : wf_resp rs -> 0 <= d -> visible_ttls rs d = aged_ttls rs d.
Proof.
  intros W Hd. unfold visible_ttls, aged_ttls, all_rrs. unfold wf_resp, all_rrs in W.
  revert W. generalize (rs_an rs ++ rs_ns rs ++ rs_ar rs). intros l W.
  induction l as [| r l IH]; [reflexivity |].
  inversion W as [| ? ? [A _] Wl]; subst. cbn [map]. rewrite IH by exact Wl. rewrite get_ttl_aged by auto. reflexivity.
Qed.

Lemma ttls_eqb_refl l : ttls_eqb l l = true.
Proof. induction l as [| [t v] l IH]; cbn; auto. rewrite !Z.eqb_refl, IH. reflexivity. Qed.

(* one operation *)
Lemma step_qc mx tprev hist c o :
  0 <= mx < 2 ^ 32 -> 0 <= tprev < 2 ^ 62 ->
  InvQC mx tprev hist c -> wf_op o -> (forall t, op_time o = Some t -> tprev <= t) ->
  exists c' r, qc_step c o = Ok (c', r) /\
    InvQC mx (match op_time o with Some t => t | None => tprev end) (o :: hist) c' /\
    match o, r with
    | OFetch t rq, RFetch (Some (rs, dec)) => hit_ok mx hist t rq (model_hit rs dec) = true
    | OFetch _ _, RFetch None => True
    | OIns _ _ _, RIns _ => True
    | OFlush, RFlush => True
    | _, _ => False
    end.
Proof.
  intros Hmx Htp [Qm Qs Qu Qn Qt Qj] W Mono.
  destruct o as [t rq rs | t rq |]; cbn [qc_step op_time].
  - (* insert *)
    destruct W as [Wt Wr]. specialize (Mono t eq_refl).
    assert (Keep : InvQC mx t (OIns t rq rs :: hist) c).
    { constructor; auto. eapply Forall_impl; [| exact Qj]. intros e He. apply (justified_mono mx tprev t hist); auto. discriminate. }
    unfold qc_insert.
    destruct (negb ((rs_rcode rs =? ARES_RCODE_NOERROR) || (rs_rcode rs =? ARES_RCODE_NXDOMAIN))) eqn:Erc;
      [cbn [bind fst snd]; eexists; eexists; split; [reflexivity |]; split; [exact Keep | exact I] |].
    destruct (rs_tc rs) eqn:Etc; [cbn [bind fst snd]; eexists; eexists; split; [reflexivity |]; split; [exact Keep | exact I] |].
    rewrite (code_ttl_allowed rs Wr). rewrite Qm.
    pose proof (allowed_ttl_bound rs Wr) as Hb.
    set (ttl := if allowed_ttl rs >? mx then mx else allowed_ttl rs).
    assert (Httl : ttl = Z.min mx (allowed_ttl rs)) by (unfold ttl; destruct (Z.gtb_spec (allowed_ttl rs) mx); lia).
    destruct (ttl =? 0) eqn:Ez; [cbn [bind fst snd]; eexists; eexists; split; [reflexivity |]; split; [exact Keep | exact I] |].
    apply Z.eqb_neq in Ez.
    assert (Hpos : 0 < ttl <= 4294967295) by lia.
    replace ((- 2 ^ 63 <=? t + ttl) && (t + ttl <? 2 ^ 63)) with true
      by (symmetry; apply andb_true_intro; split; [apply Z.leb_le | apply Z.ltb_lt];
          change (2 ^ 62) with 4611686018427387904 in *; change (2 ^ 63) with 9223372036854775808; lia).
    cbn [guard].
    set (e := mkE (calc_key rq) rs (t + ttl) t (c_next c)).
    destruct (slist_insert_spec e (c_exp c)) as (l1 & l2 & El & Ei & F1 & F2).
    rewrite Ei. cbn [bind fst snd]. eexists. eexists. split; [reflexivity |]. split; [| exact I].
    assert (Je : justified mx t (OIns t rq rs :: hist) e).
    { exists t, rq, rs. cbn [since_flush e_key e_resp e_insert e_expire e]. split; [left; reflexivity |].
      repeat split; auto; try lia.
      unfold cacheable. apply negb_false_iff in Erc. rewrite Erc, Etc. reflexivity. }
    constructor; cbn [c_max c_exp c_next c_tab].
    + reflexivity.
    + apply sorted_insert; [rewrite <- El; exact Qs | exact F1 | intros x Hx; apply F2; auto].
    + rewrite El in Qu. apply Forall_app in Qu as [Q1 Q2]. apply Forall_app. split.
      * eapply Forall_impl; [| exact Q1]. cbn. intros; lia.
      * constructor; [cbn; lia |]. eapply Forall_impl; [| exact Q2]. cbn. intros; lia.
    + rewrite map_app. cbn [map]. apply (Permutation_NoDup (l := e_uid e :: map e_uid (l1 ++ l2))).
      * rewrite map_app. apply Permutation_middle.
      * constructor; [| rewrite <- El; exact Qn].
        intros Hin. apply in_map_iff in Hin as (x & Ex & Hx). rewrite <- El in Hx.
        rewrite Forall_forall in Qu. specialize (Qu x Hx). cbn in Ex. lia.
    + intros k uid [Hp | Hp].
      * inversion Hp; subst. exists e. split; [apply in_or_app; right; left; reflexivity | split; reflexivity].
      * unfold tab_remove in Hp. apply filter_In in Hp as [Hp _].
        destruct (Qt k uid Hp) as (x & Hx & Eu & Ek). exists x. split; [| auto].
        rewrite El in Hx. apply in_app_or in Hx as [Hx | Hx]; apply in_or_app; [left | right; right]; exact Hx.
    + rewrite El in Qj. apply Forall_app in Qj as [J1 J2]. apply Forall_app. split; [| constructor; [exact Je |]].
      * eapply Forall_impl; [| exact J1]. intros x Hx. apply (justified_mono mx tprev t hist); auto. discriminate.
      * eapply Forall_impl; [| exact J2]. intros x Hx. apply (justified_mono mx tprev t hist); auto. discriminate.
  - (* fetch *)
    specialize (Mono t eq_refl). cbn in W.
    unfold qc_fetch. destruct (expire (c_tab c) (c_exp c) (Some t)) as [t' l'] eqn:Ex.
    destruct (expire_spec (Some t) _ _ _ _ Ex) as (removed & El & Fl & _ & Tl).
    specialize (Fl t eq_refl Qs).
    assert (Sub : forall x, In x l' -> In x (c_exp c)) by (intros x Hx; rewrite El; apply in_or_app; right; exact Hx).
    assert (Tab' : forall k uid, In (k, uid) t' -> exists e, In e l' /\ e_uid e = uid /\ e_key e = k).
    { intros k uid Hp. destruct (Tl _ Hp) as [Hin Hr]. destruct (Qt k uid Hin) as (e & He & Eu & Ek).
      exists e. split; [| auto]. rewrite El in He. apply in_app_or in He as [He | He]; [| exact He].
      specialize (Hr e He). cbn in Hr. rewrite Ek, key_eqb_refl in Hr. discriminate. }
    assert (Inv' : InvQC mx t (OFetch t rq :: hist) (mkQC t' l' (c_max c) (c_next c))).
    { constructor; cbn [c_max c_exp c_next c_tab]; auto.
      - rewrite El in Qs. clear - Qs. induction removed; [exact Qs |]. apply IHremoved. apply StronglySorted_inv in Qs. tauto.
      - rewrite El in Qu. apply Forall_app in Qu. tauto.
      - rewrite El, map_app in Qn. apply nodup_app_r in Qn. exact Qn.
      - rewrite El in Qj. apply Forall_app in Qj as [_ Qj]. eapply Forall_impl; [| exact Qj].
        intros x Hx. apply (justified_mono mx tprev t hist); auto. discriminate. }
    destruct (tab_get t' (calc_key rq)) as [uid |] eqn:Eg.
    2:{ cbn [bind fst snd]. eexists. eexists. split; [reflexivity |]. split; [exact Inv' | exact I]. }
    assert (Hg : exists k, In (k, uid) t' /\ key_eqb k (calc_key rq) = true).
    { clear - Eg. induction t' as [| [k v] t' IH]; cbn [tab_get] in Eg; [discriminate |].
      destruct (key_eqb k (calc_key rq)) eqn:Ek.
      - inversion Eg; subst. exists k. split; [left; reflexivity | exact Ek].
      - destruct (IH Eg) as (k' & H1 & H2). exists k'. split; [right; exact H1 | exact H2]. }
    destruct Hg as (k & Hk & Ek).
    destruct (Tab' k uid Hk) as (e & He & Eu & Eke).
    assert (Nd' : NoDup (map e_uid l')) by (rewrite El, map_app in Qn; apply nodup_app_r in Qn; exact Qn).
    rewrite <- Eu, (find_entry_in l' e Nd' He).
    rewrite Forall_forall in Qj. destruct (Qj e (Sub e He)) as (t0 & rq0 & rs0 & Hin & Ke & Re & Ie & Ca & Wr & Ht0 & Hex).
    rewrite Forall_forall in Fl. specialize (Fl e He).
    pose proof (allowed_ttl_bound rs0 Wr) as Hb.
    rewrite Ie.
    replace ((- 2 ^ 63 <=? t - t0) && (t - t0 <? 2 ^ 63)) with true
      by (symmetry; apply andb_true_intro; split; [apply Z.leb_le | apply Z.ltb_lt];
          change (2 ^ 62) with 4611686018427387904 in *; change (2 ^ 63) with 9223372036854775808; lia).
    cbn [guard bind fst snd]. eexists. eexists. split; [reflexivity |]. split; [exact Inv' |].
    assert (Hd : (t - t0) mod 2 ^ 32 = t - t0) by (apply Z.mod_small; change (2 ^ 32) with 4294967296 in *; lia).
    rewrite Hd, Re.
    unfold hit_ok, hit_ok_gen. apply existsb_exists. exists (OIns t0 rq0 rs0). split; [exact Hin |].
    unfold explains, model_hit. cbn [h_id h_rcode h_tc h_ttls].
    rewrite !Z.eqb_refl, Bool.eqb_reflx, Ca. cbn [andb negb orb].
    rewrite <- key_matches, <- Ke, Eke, Ek. cbn [andb].
    replace (t0 <=? t) with true by (symmetry; apply Z.leb_le; lia).
    replace (t <? t0 + Z.min mx (allowed_ttl rs0)) with true by (symmetry; apply Z.ltb_lt; lia).
    cbn [andb]. rewrite (visible_aged rs0 (t - t0) Wr) by lia. apply ttls_eqb_refl.
  - (* flush *)
    unfold qc_flush. destruct (expire (c_tab c) (c_exp c) None) as [t' l'] eqn:Ex.
    destruct (expire_spec None _ _ _ _ Ex) as (removed & El & _ & Nl & Tl).
    specialize (Nl eq_refl). subst l'. rewrite app_nil_r in El.
    eexists. eexists. split; [reflexivity |]. split; [| exact I].
    constructor; cbn [c_max c_exp c_next c_tab]; auto; try constructor.
    intros k uid Hp. destruct (Tl _ Hp) as [Hin Hr]. destruct (Qt k uid Hin) as (e & He & Eu & Ek).
    rewrite El in He. specialize (Hr e He). cbn in Hr. rewrite Ek, key_eqb_refl in Hr. discriminate.
Qed.

(* ------------------------------------------------------------------------------------ *)
(* histories: theorems                                                                    *)
(* ------------------------------------------------------------------------------------ *)
Lemma run_sound mx : 0 <= mx < 2 ^ 32 -> forall ops c hist tprev,
  0 <= tprev < 2 ^ 62 -> InvQC mx tprev hist c -> wf_ops tprev ops ->
  exists rs, qc_run c ops = Ok rs /\ judge_run mx hist ops rs = true.
Proof.
  intros Hmx. induction ops as [| o rest IH]; intros c hist tprev Ht I W.
  - exists []. split; reflexivity.
  - cbn [wf_ops] in W. destruct W as [Wo Wrest].
    assert (Mono : forall t, op_time o = Some t -> tprev <= t).
    { intros t Et. rewrite Et in Wrest. tauto. }
    destruct (step_qc mx tprev hist c o Hmx Ht I Wo Mono) as (c' & r & Es & I' & Hh).
    assert (Ht' : 0 <= match op_time o with Some t => t | None => tprev end < 2 ^ 62).
    { destruct o; cbn in *; tauto. }
    assert (Wr' : wf_ops (match op_time o with Some t => t | None => tprev end) rest).
    { destruct (op_time o); tauto. }
    destruct (IH c' (o :: hist) _ Ht' I' Wr') as (rs & Er & Jr).
    exists (r :: rs). cbn [qc_run]. rewrite Es. cbn [bind fst snd]. rewrite Er. cbn [bind]. split; [reflexivity |].
    cbn [judge_run]. rewrite Jr, andb_true_r.
    destruct o as [t rq rs0 | t rq |]; destruct r as [st | [[rs1 dec] |] |]; auto; contradiction.
Qed.

Theorem hit_sound_all mx ops :
  0 <= mx < 2 ^ 32 -> wf_ops 0 ops ->
  exists rs, qc_run (qc_create mx) ops = Ok rs /\ judge_run mx [] ops rs = true.
Proof.
  intros Hmx W. apply (run_sound mx Hmx ops (qc_create mx) [] 0); auto.
  - change (2 ^ 62) with 4611686018427387904. lia.
  - apply inv_create.
Qed.

(* max_ttl = 0: nothing is ever stored, nothing is ever replayed *)
Definition disabled_res (r : res) : Prop :=
  match r with RIns st => st <> ARES_SUCCESS | RFetch h => h = None | RFlush => True end.

Lemma calc_ttl_nonneg rs : wf_resp rs -> 0 <= (if rs_rcode rs =? ARES_RCODE_NXDOMAIN then soa_minimum rs else calc_minttl rs).
Proof. intros W. rewrite (code_ttl_allowed rs W). apply allowed_ttl_bound. exact W. Qed.

Lemma zero_disables_all ops : forall tprev,
  wf_ops tprev ops -> exists rs, qc_run (qc_create 0) ops = Ok rs /\ Forall disabled_res rs.
Proof.
  unfold qc_create. induction ops as [| o rest IH]; intros tprev W.
  - exists []. split; [reflexivity | constructor].
  - cbn [wf_ops] in W. destruct W as [Wo Wrest].
    assert (Wr : exists t', wf_ops t' rest) by (destruct (op_time o); [exists z; tauto | exists tprev; exact Wrest]).
    destruct Wr as (t' & Wr). destruct (IH t' Wr) as (rs & Er & Fr).
    destruct o as [t rq rs0 | t rq |]; cbn [qc_run qc_step].
    + destruct Wo as [_ W0]. unfold qc_insert. cbn [c_max].
      destruct (negb _); [cbn [bind fst snd]; rewrite Er; cbn; eexists; split; [reflexivity |]; constructor; [cbn; discriminate | exact Fr] |].
      destruct (rs_tc rs0); [cbn [bind fst snd]; rewrite Er; cbn; eexists; split; [reflexivity |]; constructor; [cbn; discriminate | exact Fr] |].
      pose proof (calc_ttl_nonneg rs0 W0) as Hn.
      set (ttl0 := if rs_rcode rs0 =? ARES_RCODE_NXDOMAIN then soa_minimum rs0 else calc_minttl rs0) in *.
      assert (Ez : (if ttl0 >? 0 then 0 else ttl0) = 0) by (destruct (Z.gtb_spec ttl0 0); lia).
      rewrite Ez. cbn [Z.eqb bind fst snd]. rewrite Er. cbn. eexists. split; [reflexivity |]. constructor; [cbn; discriminate | exact Fr].
    + cbn. rewrite Er. cbn. eexists. split; [reflexivity |]. constructor; [reflexivity | exact Fr].
    + cbn. rewrite Er. cbn. eexists. split; [reflexivity |]. constructor; [exact I | exact Fr].
Qed.

Lemma flush_empty mx t hist c : InvQC mx t hist c -> c_exp (qc_flush c) = [] /\ c_tab (qc_flush c) = [].
Proof.
  intros [Qm Qs Qu Qn Qt Qj]. unfold qc_flush.
  destruct (expire (c_tab c) (c_exp c) None) as [t' l'] eqn:Ex.
  destruct (expire_spec None _ _ _ _ Ex) as (removed & El & _ & Nl & Tl).
  specialize (Nl eq_refl). subst l'. rewrite app_nil_r in El. cbn. split; [reflexivity |].
  destruct t' as [| [k uid] t']; [reflexivity |]. exfalso.
  destruct (Tl (k, uid) (or_introl eq_refl)) as [Hin Hr]. destruct (Qt k uid Hin) as (e & He & Eu & Ek).
  rewrite El in He. specialize (Hr e He). cbn in Hr. rewrite Ek, key_eqb_refl in Hr. discriminate.
Qed.

(* no entry past its expiry survives a fetch *)
Lemma fetch_expiry mx tp hist c t rq c' h :
  InvQC mx tp hist c -> qc_fetch c t rq = Ok (c', h) -> Forall (fun e => e_expire e > t) (c_exp c').
Proof.
  intros [Qm Qs Qu Qn Qt Qj] H. unfold qc_fetch in H.
  destruct (expire (c_tab c) (c_exp c) (Some t)) as [t' l'] eqn:Ex.
  destruct (expire_spec (Some t) _ _ _ _ Ex) as (removed & El & Fl & _ & _).
  specialize (Fl t eq_refl Qs).
  destruct (tab_get t' (calc_key rq)); [| inversion H; subst; exact Fl].
  destruct (find_entry l' n); [| discriminate].
  destruct ((- 2 ^ 63 <=? t - e_insert e) && (t - e_insert e <? 2 ^ 63)); cbn [guard] in H; [| discriminate].
  inversion H; subst. exact Fl.
Qed.

(* a history with hits, misses at the expiry boundary, a replaced key and a flush *)
Definition ex_rq (name : list Z) : request := mkReq 0 ARES_FLAG_RD [mkQn 1 1 name].
Definition ex_name1 : list Z := [69; 120; 46; 67; 111; 109].          (* "Ex.Com" *)
Definition ex_name2 : list Z := [101; 120; 46; 99; 111; 109; 46].     (* "ex.com." *)
Definition ex_resp (id ttl : Z) : response := mkResp id 0 false [mkRR 1 ttl 0; mkRR 1 (ttl + 40) 0] [] [mkRR 41 0 0].
Definition ex_ops : list op :=
  [ OIns 1000 (ex_rq ex_name1) (ex_resp 1 60);
    OFetch 1010 (ex_rq ex_name2);
    OFetch 1059 (ex_rq ex_name1);
    OFetch 1060 (ex_rq ex_name1);
    OIns 1061 (ex_rq ex_name1) (ex_resp 2 5000);
    OFetch 2000 (ex_rq ex_name2);
    OFlush;
    OFetch 2001 (ex_rq ex_name2) ].

Lemma ex_ops_wf : wf_ops 0 ex_ops.
Proof.
  unfold ex_ops. cbn [wf_ops op_time wf_op].
  repeat split; try lia;
    unfold wf_resp, all_rrs, ex_resp; cbn; repeat constructor; cbn; lia.
Qed.

Lemma ex_ops_run :
  qc_run (qc_create 3600) ex_ops = Ok
    [ RIns ARES_SUCCESS;
      RFetch (Some (ex_resp 1 60, 10));
      RFetch (Some (ex_resp 1 60, 59));
      RFetch None;
      RIns ARES_SUCCESS;
      RFetch (Some (ex_resp 2 5000, 939));
      RFlush;
      RFetch None ].
Proof. vm_compute. reflexivity. Qed.
